(** Property C12 (an interned string id always resolves to the bytes that were interned): final
    statements.  Models: SFV.Ctx.Interner (string_interner.rs + the glue's copy), SFV.Ctx.Context,
    SFV.Ctx.Threads.  Only statements here; proofs in SFV.Ctx.InternerProofs, CtxProofs,
    ThreadsProofs. *)
From Coq Require Import NArith ZArith List Bool.
From SFV Require Import Base.Bytes Read.Lazy Read.ReadRun Ctx.Interner Ctx.InternerProofs Ctx.Context Ctx.CtxProofs
  Ctx.Threads Ctx.ThreadsProofs Base.RsPrelude Gen.InternGen Ctx.InternGenEq.
From SFV Require Log.Ring Write.Writer.
Import ListNotations.
Open Scope N_scope.

(** * The interner alone: any history of interning calls (any lengths; the buffer grows) *)

(** ids are 0, 1, 2, ... in call order *)
Theorem C12_ids_fresh : forall ss : list (list N), snd (intern_all ss) = seqN (length ss).
Proof. exact intern_ids_fresh. Qed.

(** every id ever returned resolves to its bytes, whatever is interned afterwards *)
Theorem C12_get_stable : forall (ss later : list (list N)) (id : N) (s : list N),
  nthN ss id = Some s -> iget (fst (intern_all (ss ++ later))) id = Some s.
Proof. exact intern_get_stable. Qed.

Theorem C12_get_unknown : forall (ss : list (list N)) (id : N),
  lenN ss <= id -> iget (fst (intern_all ss)) id = None.
Proof. exact intern_get_unknown. Qed.

(** refinement of the abstract [interned] list of Write/Writer.v *)
Theorem C12_refines : forall ss : list (list N),
  map (iget (fst (intern_all ss))) (snd (intern_all ss)) = map Some ss /\ istrings (fst (intern_all ss)) = ss.
Proof. exact interned_refines. Qed.

Theorem C12_writer_intern_refines : forall (i : interner) (c : Writer.wctx) (s : list N),
  wf_i i (Writer.interned c) ->
  snd (intern i s) = snd (Writer.intern c s) /\ wf_i (fst (intern i s)) (Writer.interned (fst (Writer.intern c s))).
Proof. exact writer_intern_refines. Qed.

Theorem C12_istr_is_str : forall (W : N) (trap : bool) (c : Writer.wctx) (id : N) (s : list N),
  nthN (Writer.interned c) id = Some s ->
  Writer.step W trap c (Writer.OIStr id) = Writer.step W trap c (Writer.OStr s).
Proof. exact istr_is_str. Qed.

(** * The context: any history [h1] (incl. any number of SInit), an interning call of the glue
    for [s], any further history [h2] (incl. any number of SInit, interning of any number and size
    of strings, loads): the id returned is the number of strings interned so far on the thread, did
    not resolve before, and at the end still resolves to [s]; using it is using the bytes. *)
Theorem C12_context : forall (W : N) (trap : bool) (CAP : nat) (h1 h2 : list step) (s : list N),
  let c1 := fst (lrun W trap CAP h1 (c0 CAP)) in
  let id := lenN (spans (cint c1)) in
  exists c2 d,
    lrun W trap CAP [SInternDest (lenN s); SInternCopy s] c1 = (c2, [ObIntern id d; ObUnit])
    /\ iget (cint c1) id = None
    /\ let c3 := fst (lrun W trap CAP h2 c2) in
       iget (cint c3) id = Some s
       /\ (forall sc, lstep W trap CAP c3 (SReadIProp sc id) = lstep W trap CAP c3 (SRead (RProp sc s)))
       /\ lstep W trap CAP c3 (SIStr id) = lstep W trap CAP c3 (SWrite (Writer.OStr s))
       /\ exists dd, lrun W trap CAP [SStrDest (lenN s); SStrCopy s] c3 =
            (set_dst (fst (lstep W trap CAP c3 (SIStr id))) None,
             [ObDest (match snd (lstep W trap CAP c3 (SIStr id)) with ObW r => r | _ => Writer.WOk end) dd; ObUnit]).
Proof. exact c12_context. Qed.

(** the two facts used above hold in every context, reachable or not *)
Theorem C12_iprop : forall (W : N) (trap : bool) (CAP : nat) (c : ctx) (sc : option N) (id : N) (s : list N),
  iget (cint c) id = Some s ->
  lstep W trap CAP c (SReadIProp sc id) = lstep W trap CAP c (SRead (RProp sc s)).
Proof. exact c12_iprop. Qed.

Theorem C12_istr : forall (W : N) (trap : bool) (CAP : nat) (c : ctx) (id : N) (s : list N),
  iget (cint c) id = Some s ->
  lstep W trap CAP c (SIStr id) = lstep W trap CAP c (SWrite (Writer.OStr s)).
Proof. exact c12_istr. Qed.

(** * Cached id handles *)

(** within a thread: the same id on every load, whatever happens in between (incl. SInit), and
    it resolves to the key's bytes at that later point *)
Theorem C12_load_same : forall (W : N) (trap : bool) (CAP : nat) (h1 h2 : list step) (key : list N),
  let c := fst (lrun W trap CAP h1 (c0 CAP)) in
  let c1 := fst (lstep W trap CAP c (SLoad key)) in
  let c2 := fst (lrun W trap CAP h2 c1) in
  snd (lstep W trap CAP c2 (SLoad key)) = snd (lstep W trap CAP c (SLoad key))
  /\ fst (lstep W trap CAP c2 (SLoad key)) = c2
  /\ exists id, snd (lstep W trap CAP c (SLoad key)) = ObId id /\ iget (cint c2) id = Some key.
Proof. intros W trap CAP h1 h2 key. exact (load_same W trap CAP [] _ key (Inv_reachable W trap CAP h1) h2). Qed.

(** on every thread of any schedule: an id valid on that thread, whose bytes are the key *)
Theorem C12_load_threads : forall (W : N) (trap : bool) (CAP : nat) (sched : list (tid * step)) (t : tid) (key : list N),
  let w := fst (run_sched W trap CAP false sched (w0 CAP)) in
  exists id, snd (wstep W trap CAP false w t (SLoad key)) = ObId id
    /\ iget (cint (th (fst (wstep W trap CAP false w t (SLoad key))) t)) id = Some key.
Proof. exact c12_load_threads. Qed.

Theorem C12_load_same_threads : forall (W : N) (trap : bool) (CAP : nat) (sched1 sched2 : list (tid * step)) (t : tid) (key : list N),
  let w1 := fst (run_sched W trap CAP false sched1 (w0 CAP)) in
  let w1' := fst (wstep W trap CAP false w1 t (SLoad key)) in
  let w2 := fst (run_sched W trap CAP false sched2 w1') in
  snd (wstep W trap CAP false w2 t (SLoad key)) = snd (wstep W trap CAP false w1 t (SLoad key)).
Proof. exact c12_load_same_threads. Qed.

(** * Examples *)
Example C12_interner_example :
  let '(i, ids) := intern_all [[104;105]; []; [1;2;3;4;5;6;7]] in
  ids = [0;1;2] /\ map (iget i) [0;1;2;3] = [Some [104;105]; Some []; Some [1;2;3;4;5;6;7]; None]
  /\ ibuf i = [104;105;1;2;3;4;5;6;7] /\ spans i = [(0,2);(2,0);(2,7)].
Proof. exact intern_example. Qed.

Definition doc : list N := [130; 161; 97; 1; 161; 98; 162; 104; 105].   (* {"a":1,"b":"hi"} *)

(** intern "b" (id 1) in a first invocation; two further invocations, a 300-byte string and a
    cached handle later, id 1 still looks up "b" and still writes "b" *)
Definition h1 : list step := [SInit [192]; SInternDest 0; SInternCopy []].
Definition h2 : list step :=
  [ SInit doc; SInternDest 300; SInternCopy (repeat 65 300); SLoad [98]; SInit doc; SRead RRoot;
    SWrite (Writer.OStartArr 2) ].

Example C12_example :
  let c1 := fst (lrun 64 false 8 h1 (c0 8)) in
  let '(c2, o) := lrun 64 false 8 [SInternDest 1; SInternCopy [98]] c1 in
  let c3 := fst (lrun 64 false 8 h2 c2) in
  o = [ObIntern 1 0; ObUnit]
  /\ snd (lrun 64 false 8 [SReadIProp (Some 0) 1; SIStr 1; SWrite (Writer.OStr [98]); SLoad [98]; SOut] c3)
     = [ ObRead (OVal (AStr (0, [SVal 1]) 2)); ObW Writer.WOk; ObW Writer.WOk; ObId 3; ObBytes [146; 161; 98; 161; 98] ]
  /\ snd (lstep 64 false 8 c3 (SRead (RProp (Some 0) [98]))) = ObRead (OVal (AStr (0, [SVal 1]) 2)).
Proof. vm_compute. repeat split; reflexivity. Qed.

(** * The interner model IS the code (tie by translation, T8)

    [Gen/InternGen.v] is regenerated on every run from provider/src/string_interner.rs by translators/rs2v
    ([StringInterner::preallocate], [StringInterner::get]; [Vec] = list in push order, [usize] arithmetic at
    width [W], index / slice bounds as panics, [buf[offset..].as_ptr()] = the offset).  The model's functions
    compute exactly that. *)
Theorem C12_code_preallocate : forall (W : N) (trap : bool) (i : interner) (len : N),
  lenN (ibuf i) + len < 2 ^ W ->
  StringInterner_preallocate W trap (conv i) len =
  let '(i', id, off) := preallocate i len in GOk (conv i', (id, Some off)).
Proof. exact gen_preallocate_eq. Qed.

Theorem C12_code_get : forall (W : N) (trap : bool) (i : interner) (id : N),
  (forall o l, nthN (spans i) id = Some (o, l) -> o + l < 2 ^ W) ->
  match StringInterner_get W trap (conv i) id, iget i id with
  | GOk a, Some b => a = b
  | GPanic _, None => True
  | _, _ => False
  end.
Proof. exact gen_get_eq. Qed.

(** every id handed out resolves, through the translated Rust, to the bytes that were interned *)
Theorem C12_code_get_reachable : forall (W : N) (trap : bool) (ss : list (list N)) (id : N) (s : list N),
  lenN (concat ss) < 2 ^ W -> nthN ss id = Some s ->
  StringInterner_get W trap (conv (fst (intern_all ss))) id = GOk s.
Proof. exact gen_get_reachable. Qed.
