(** C05 — the host reads back the most recent log bytes, in order, at any moment.
    This file holds only the pinned statements; proofs are in SFV.Log.RingProofs. *)
From Coq Require Import Arith List.
From SFV Require Import Gen.LogGen Log.Ring Log.RingProofs.
Import ListNotations.

(** For every capacity, byte type and sequence of messages (hence every prefix of a sequence,
    i.e. every point at which the guest may trap and the host reads): the segments reported by
    [read_ptrs], concatenated, are the last min(total, CAP) bytes logged, in order. *)
Theorem C05_read :
  forall (byte : Type) (zero : byte) (CAP : nat), 0 < CAP ->
  forall msgs : list (list byte),
    host_view CAP (run zero CAP msgs)
    = lastn (Nat.min (length (concat msgs)) CAP) (concat msgs).
Proof. exact host_view_run. Qed.

(** Every copy plan handed out in any reachable state, for any message length, lies inside the
    buffer and covers exactly the retained tail of the message. *)
Theorem C05_plan :
  forall (byte : Type) (zero : byte) (CAP : nat), 0 < CAP ->
  forall (msgs : list (list byte)) (n : nat),
    plan_ok byte CAP (run zero CAP msgs) n (snd (append CAP (run zero CAP msgs) n)).
Proof. exact plan_run. Qed.

Theorem C05_plan_tail :
  forall (byte : Type) (zero : byte) (CAP : nat), 0 < CAP ->
  forall (msgs : list (list byte)) (m : list byte),
    let p := snd (append CAP (run zero CAP msgs) (length m)) in
    firstn (p_n1 p) (skipn (p_so p) m) ++ firstn (p_n2 p) (skipn (p_so p + p_n1 p) m)
    = lastn (Nat.min (length m) CAP) m.
Proof.
  intros byte zero CAP HC msgs m.
  apply (plan_covers_tail byte CAP HC).
  - destruct (inv_run byte zero CAP HC msgs) as (_ & Ho & _). exact Ho.
  - reflexivity.
Qed.

(** The instance for the capacity found in provider/src/log.rs today (regenerated). *)
Theorem C05_capacity_positive : 0 < LogGen.CAPACITY.
Proof. vm_compute. apply le_n_S, Nat.le_0_l. Qed.

(** Non-vacuity: a concrete wrapped state. *)
Example C05_example :
  host_view 4 (run 0 4 [[1;2;3];[4;5;6]]) = [3;4;5;6].
Proof. vm_compute. reflexivity. Qed.
