(** C05 — the host reads back the most recent log bytes, in order, at any moment.
    This file holds only the pinned statements; proofs are in SFV.Log.RingProofs. *)
From Coq Require Import Arith List NArith Lia.
From SFV Require Import Gen.LogGen Log.Ring Log.RingProofs Base.RsPrelude Gen.LogFnGen Log.LogGenEq.
Import ListNotations.

(** For every capacity, byte type and sequence of messages (hence every prefix of a sequence,
    i.e. every point at which the guest may trap and the host reads): the segments reported by
    [read_ptrs], concatenated, are the last min(total, CAP) bytes logged, in order. *)
Theorem C05_read :
  forall (byte : Type) (zero : byte) (CAP : nat), 0 < CAP ->
  forall msgs : list (list byte),
    host_view CAP (run zero CAP msgs)
    = lastn (Nat.min (length (concat msgs)) CAP) (concat msgs).
Proof. exact host_view_run. Qed.

(** Every copy plan handed out in any reachable state, for any message length, lies inside the
    buffer and covers exactly the retained tail of the message. *)
Theorem C05_plan :
  forall (byte : Type) (zero : byte) (CAP : nat), 0 < CAP ->
  forall (msgs : list (list byte)) (n : nat),
    plan_ok byte CAP (run zero CAP msgs) n (snd (append CAP (run zero CAP msgs) n)).
Proof. exact plan_run. Qed.

Theorem C05_plan_tail :
  forall (byte : Type) (zero : byte) (CAP : nat), 0 < CAP ->
  forall (msgs : list (list byte)) (m : list byte),
    let p := snd (append CAP (run zero CAP msgs) (length m)) in
    firstn (p_n1 p) (skipn (p_so p) m) ++ firstn (p_n2 p) (skipn (p_so p + p_n1 p) m)
    = lastn (Nat.min (length m) CAP) m.
Proof.
  intros byte zero CAP HC msgs m.
  apply (plan_covers_tail byte CAP HC).
  - destruct (inv_run byte zero CAP HC msgs) as (_ & Ho & _). exact Ho.
  - reflexivity.
Qed.

(** The instance for the capacity found in provider/src/log.rs today (regenerated). *)
Theorem C05_capacity_positive : 0 < LogGen.CAPACITY.
Proof. vm_compute. apply le_n_S, Nat.le_0_l. Qed.

(** Non-vacuity: a concrete wrapped state. *)
Example C05_example :
  host_view 4 (run 0 4 [[1;2;3];[4;5;6]]) = [3;4;5;6].
Proof. vm_compute. reflexivity. Qed.

(** * The ring model IS the code (tie by translation, T8)

    [Gen/LogFnGen.v] is regenerated on every run from provider/src/log.rs by translators/rs2v: [Logs::append]
    and [Logs::read_ptrs] mechanically translated ([usize] arithmetic at width [W], wrapping or panicking;
    pointers into the ring as offsets, [None] = null).  In EVERY state reachable by logging messages, for
    every message length that fits the pointer width, on both targets and in both overflow modes, the
    translated Rust returns exactly the model's new bookkeeping and copy plan, and the translated
    [read_ptrs] exactly the model's segments; nothing overflows. *)
Theorem C05_code_append : forall W trap, (3 * LogFnGen.CAPACITY < 2 ^ W)%N ->
  forall (msgs : list (list N)) (n : nat), (N.of_nat n < 2 ^ W)%N ->
  let l := run 0%N CAPn msgs in
  Logs_append W trap (conv l) (N.of_nat n) = GOk (conv (fst (append CAPn l n)), conv_plan (snd (append CAPn l n))).
Proof.
  intros W trap HW msgs n Hn l.
  destruct (inv_run N 0%N CAPn C05_capacity_positive msgs) as (_ & Ho & Hl & _).
  apply gen_append_eq; [exact HW|exact Ho| |exact Hn].
  fold l in Hl. rewrite Hl. apply Nat.le_min_r.
Qed.

Theorem C05_code_read_ptrs : forall W trap, (3 * LogFnGen.CAPACITY < 2 ^ W)%N ->
  forall (msgs : list (list N)),
  let l := run 0%N CAPn msgs in
  Logs_read_ptrs W trap (conv l) = GOk (conv_read (read_ptrs CAPn l)).
Proof.
  intros W trap HW msgs l.
  destruct (inv_run N 0%N CAPn C05_capacity_positive msgs) as (_ & Ho & Hl & Hrel & _).
  fold l in Ho, Hl, Hrel.
  apply gen_read_ptrs_eq; [exact HW|exact Ho| |].
  - rewrite Hl. apply Nat.le_min_r.
  - intros Hlt. rewrite Hl in Hlt |- *.
    assert (length (concat msgs) < CAPn) by (destruct (Nat.min_spec (length (concat msgs)) CAPn) as [[? E]|[? E]]; rewrite E in Hlt; lia).
    rewrite (Hrel H). symmetry. apply Nat.min_l. lia.
Qed.

(** the width hypothesis holds on both targets; the capacity of the translation is the regenerated one *)
Theorem C05_code_widths : (3 * LogFnGen.CAPACITY < 2 ^ 32)%N /\ (3 * LogFnGen.CAPACITY < 2 ^ 64)%N /\ N.of_nat LogGen.CAPACITY = LogFnGen.CAPACITY.
Proof. split; [exact width_ok_32|]. split; [exact width_ok_64|exact cap_same]. Qed.
