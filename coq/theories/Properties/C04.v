(** * C04 -- Trampolined imports behave exactly as the public ABI specifies

    Object: [GlueGen.funcs], the function list of a guest importing the whole API after the REAL
    trampoline rewrote it (regenerated on every run); semantics: [WasmMini]; vocabulary: [GlueSpec].
    Final statements only (each closed by [exact]); proofs are in [Tramp/GlueProofs.v].

    FINDING (recorded defect, not repaired: the insta snapshot pins the emitted text).  The clause
    "a string write that the provider rejects writes nothing" is FALSE of the emitted code whenever
    len > 0: the glue for output_new_utf8_str / intern_utf8_str copies [len] guest bytes to the LOW
    word of the provider's answer UNCONDITIONALLY, also when the HIGH word (status) is non-zero and
    the low word is the null address -- see [C04_out_str_rejected_writes]. *)
From Coq Require Import NArith List Bool String.
From SFV Require Import Tramp.WasmMini Gen.GlueGen Tramp.GlueSpec Tramp.GlueProofs.
Import ListNotations.
Open Scope string_scope.
Open Scope N_scope.

(** ** (a) input_read_utf8_str(src, out, len) *)
Theorem C04_read_str_spec :
  forall (P : Type) (oracle : oracle_t P) (gm pm : mem) (ps : P) (src out len addr : N) (ps' : P),
    read_str_conv oracle gm pm ps src out len addr ps' ->
    forall fuel, (glue_fuel <= fuel)%nat ->
    invoke P oracle funcs fuel (widx n_read_str) [I32 src; I32 out; I32 len] gm pm ps
    = finished [] (mcopy gm pm out addr len) pm ps'.
Proof. exact @read_str_spec. Qed.

(** ... in terms of bytes: guest [out, out+len) := provider [addr, addr+len), nothing else *)
Theorem C04_read_str_effect :
  forall (P : Type) (oracle : oracle_t P) (gm pm : mem) (ps : P) (src out len addr : N) (ps' : P),
    read_str_conv oracle gm pm ps src out len addr ps' ->
    forall fuel, (glue_fuel <= fuel)%nat ->
    exists s', invoke P oracle funcs fuel (widx n_read_str) [I32 src; I32 out; I32 len] gm pm ps = Some s' /\
      stack s' = [] /\ p s' = pm /\ pstate s' = ps' /\
      bytes_at (g s') out len = bytes_at pm addr len /\ agree_outside gm (g s') out len.
Proof. exact @read_str_effect. Qed.

(** ... and exactly one provider call *)
Theorem C04_read_str_calls :
  forall (P : Type) (oracle : oracle_t P) (gm pm : mem) (ps : P) (src out len addr : N) (ps' : P)
         (tr : list call_rec),
    read_str_conv oracle gm pm ps src out len addr ps' ->
    forall fuel, (glue_fuel <= fuel)%nat ->
    invoke _ (traced oracle) funcs fuel (widx n_read_str) [I32 src; I32 out; I32 len] gm pm (tr, ps)
    = finished [] (mcopy gm pm out addr len) pm
        (tr ++ [("_shopify_function_input_get_utf8_str_addr", [I32 src], pm)], ps')%list.
Proof. exact @read_str_calls. Qed.

(** ** (b) input_get_obj_prop(scope, ptr, len) *)
Theorem C04_get_obj_prop_spec :
  forall (P : Type) (oracle : oracle_t P) (gm pm : mem) (ps : P) (scope ptr len blk : N) (ps1 : P)
         (v : N) (pm2 : mem) (ps2 : P),
    obj_prop_conv oracle gm pm ps scope ptr len blk ps1 v pm2 ps2 ->
    forall fuel, (glue_fuel <= fuel)%nat ->
    invoke P oracle funcs fuel (widx n_get_obj_prop) [I64 scope; I32 ptr; I32 len] gm pm ps
    = finished [I64 v] gm pm2 ps2.
Proof. exact @obj_prop_spec. Qed.

(** the two provider calls, in order, with the memory each one saw: the lookup sees the provider
    memory in which [blk, blk+len) = guest [ptr, ptr+len) and nothing else differs *)
Theorem C04_get_obj_prop_calls :
  forall (P : Type) (oracle : oracle_t P) (gm pm : mem) (ps : P) (scope ptr len blk : N) (ps1 : P)
         (v : N) (pm2 : mem) (ps2 : P) (tr : list call_rec),
    obj_prop_conv oracle gm pm ps scope ptr len blk ps1 v pm2 ps2 ->
    forall fuel, (glue_fuel <= fuel)%nat ->
    invoke _ (traced oracle) funcs fuel (widx n_get_obj_prop) [I64 scope; I32 ptr; I32 len] gm pm (tr, ps)
    = finished [I64 v] gm pm2
        ((tr ++ [("_shopify_function_alloc", [I32 len], pm)])
            ++ [("_shopify_function_input_get_obj_prop", [I64 scope; I32 blk; I32 len],
                 mcopy pm gm blk ptr len)], ps2)%list.
Proof. exact @obj_prop_calls. Qed.

Theorem C04_get_obj_prop_name_bytes :
  forall (gm pm : mem) (blk ptr len : N),
    bytes_at (mcopy pm gm blk ptr len) blk len = bytes_at gm ptr len /\
    agree_outside pm (mcopy pm gm blk ptr len) blk len.
Proof. exact obj_prop_name_bytes. Qed.

(** ** (c) output_new_utf8_str(ptr, len), (d) intern_utf8_str(ptr, len) -- for EVERY status *)
Theorem C04_out_str_spec :
  forall (P : Type) (oracle : oracle_t P) (gm pm : mem) (ps : P) (ptr len hi lo : N) (pm' : mem) (ps' : P),
    packed_str_conv oracle "_shopify_function_output_new_utf8_str" gm pm ps ptr len hi lo pm' ps' ->
    forall fuel, (glue_fuel <= fuel)%nat ->
    invoke P oracle funcs fuel (widx n_out_str) [I32 ptr; I32 len] gm pm ps
    = finished [I32 hi] gm (mcopy pm' gm lo ptr len) ps'.
Proof. exact @out_str_spec. Qed.

Theorem C04_intern_str_spec :
  forall (P : Type) (oracle : oracle_t P) (gm pm : mem) (ps : P) (ptr len hi lo : N) (pm' : mem) (ps' : P),
    packed_str_conv oracle "_shopify_function_intern_utf8_str" gm pm ps ptr len hi lo pm' ps' ->
    forall fuel, (glue_fuel <= fuel)%nat ->
    invoke P oracle funcs fuel (widx n_intern_str) [I32 ptr; I32 len] gm pm ps
    = finished [I32 hi] gm (mcopy pm' gm lo ptr len) ps'.
Proof. exact @intern_str_spec. Qed.

Theorem C04_intern_str_effect :
  forall (P : Type) (oracle : oracle_t P) (gm pm : mem) (ps : P) (ptr len hi lo : N) (pm' : mem) (ps' : P),
    packed_str_conv oracle "_shopify_function_intern_utf8_str" gm pm ps ptr len hi lo pm' ps' ->
    forall fuel, (glue_fuel <= fuel)%nat ->
    exists s', invoke P oracle funcs fuel (widx n_intern_str) [I32 ptr; I32 len] gm pm ps = Some s' /\
      stack s' = [I32 hi] /\ g s' = gm /\ pstate s' = ps' /\
      bytes_at (p s') lo len = bytes_at gm ptr len /\ agree_outside pm' (p s') lo len.
Proof. exact @intern_str_effect. Qed.

(** the same for an arbitrary i64 answer [r]: the status returned is [r / 2^32], the bytes go to [r mod 2^32] *)
Theorem C04_out_str_spec_raw :
  forall (P : Type) (oracle : oracle_t P) (gm pm : mem) (ps : P) (ptr len r : N) (pm' : mem) (ps' : P),
    oracle "_shopify_function_output_new_utf8_str" [I32 len] pm ps = Some ([I64 r], pm', ps') ->
    r < 2 ^ 64 -> ptr + len <= msize gm -> r mod 2 ^ 32 + len <= msize pm' ->
    forall fuel, (glue_fuel <= fuel)%nat ->
    invoke P oracle funcs fuel (widx n_out_str) [I32 ptr; I32 len] gm pm ps
    = finished [I32 (r / 2 ^ 32)] gm (mcopy pm' gm (r mod 2 ^ 32) ptr len) ps'.
Proof.
  exact (fun P oracle gm pm ps ptr len r pm' ps' Hc Hr Hs Hd =>
           out_str_spec oracle _ _ _ _ _ _ _ _ _ (packed_of_raw oracle _ _ _ _ _ _ _ _ _ Hc Hr Hs Hd)).
Qed.

Theorem C04_intern_str_spec_raw :
  forall (P : Type) (oracle : oracle_t P) (gm pm : mem) (ps : P) (ptr len r : N) (pm' : mem) (ps' : P),
    oracle "_shopify_function_intern_utf8_str" [I32 len] pm ps = Some ([I64 r], pm', ps') ->
    r < 2 ^ 64 -> ptr + len <= msize gm -> r mod 2 ^ 32 + len <= msize pm' ->
    forall fuel, (glue_fuel <= fuel)%nat ->
    invoke P oracle funcs fuel (widx n_intern_str) [I32 ptr; I32 len] gm pm ps
    = finished [I32 (r / 2 ^ 32)] gm (mcopy pm' gm (r mod 2 ^ 32) ptr len) ps'.
Proof.
  exact (fun P oracle gm pm ps ptr len r pm' ps' Hc Hr Hs Hd =>
           intern_str_spec oracle _ _ _ _ _ _ _ _ _ (packed_of_raw oracle _ _ _ _ _ _ _ _ _ Hc Hr Hs Hd)).
Qed.

(** accepted write (status 0): exactly the requested bytes are written, nothing else *)
Theorem C04_out_str_accepted :
  forall (P : Type) (oracle : oracle_t P) (gm pm : mem) (ps : P) (ptr len lo : N) (pm' : mem) (ps' : P),
    packed_str_conv oracle "_shopify_function_output_new_utf8_str" gm pm ps ptr len 0 lo pm' ps' ->
    forall fuel, (glue_fuel <= fuel)%nat ->
    exists s', invoke P oracle funcs fuel (widx n_out_str) [I32 ptr; I32 len] gm pm ps = Some s' /\
      stack s' = [I32 0] /\ g s' = gm /\ pstate s' = ps' /\
      bytes_at (p s') lo len = bytes_at gm ptr len /\ agree_outside pm' (p s') lo len.
Proof. exact @out_str_accepted. Qed.

(** REFUTATION of "a rejected string write writes nothing" *)
Theorem C04_out_str_rejected_writes :
  exists (oracle : oracle_t unit) (gm pm : mem) (ptr len hi lo : N),
    packed_str_conv oracle "_shopify_function_output_new_utf8_str" gm pm tt ptr len hi lo pm tt /\
    hi <> 0 /\ 0 < len /\
    exists s', invoke unit oracle funcs glue_fuel (widx n_out_str) [I32 ptr; I32 len] gm pm tt = Some s' /\
      stack s' = [I32 hi] /\
      exists a, mget (p s') a <> mget pm a.
Proof. exact out_str_rejected_writes. Qed.

Theorem C04_out_str_calls :
  forall (P : Type) (oracle : oracle_t P) (gm pm : mem) (ps : P) (ptr len hi lo : N) (pm' : mem) (ps' : P)
         (tr : list call_rec),
    packed_str_conv oracle "_shopify_function_output_new_utf8_str" gm pm ps ptr len hi lo pm' ps' ->
    forall fuel, (glue_fuel <= fuel)%nat ->
    invoke _ (traced oracle) funcs fuel (widx n_out_str) [I32 ptr; I32 len] gm pm (tr, ps)
    = finished [I32 hi] gm (mcopy pm' gm lo ptr len)
        (tr ++ [("_shopify_function_output_new_utf8_str", [I32 len], pm)], ps')%list.
Proof. exact @out_str_calls. Qed.

Theorem C04_intern_str_calls :
  forall (P : Type) (oracle : oracle_t P) (gm pm : mem) (ps : P) (ptr len hi lo : N) (pm' : mem) (ps' : P)
         (tr : list call_rec),
    packed_str_conv oracle "_shopify_function_intern_utf8_str" gm pm ps ptr len hi lo pm' ps' ->
    forall fuel, (glue_fuel <= fuel)%nat ->
    invoke _ (traced oracle) funcs fuel (widx n_intern_str) [I32 ptr; I32 len] gm pm (tr, ps)
    = finished [I32 hi] gm (mcopy pm' gm lo ptr len)
        (tr ++ [("_shopify_function_intern_utf8_str", [I32 len], pm)], ps')%list.
Proof. exact @intern_str_calls. Qed.

(** ** (e) log_new_utf8_str(ptr, len) *)
Theorem C04_log_str_spec :
  forall (P : Type) (oracle : oracle_t P) (gm pm : mem) (ps : P) (ptr len area : N) (pm' : mem) (ps' : P)
         (src_off dst1 len1 dst2 len2 : N),
    log_conv oracle gm pm ps ptr len area pm' ps' src_off dst1 len1 dst2 len2 ->
    (len1 <> len -> log_plan_not_clobbered area dst1 len1) ->
    forall fuel, (glue_fuel <= fuel)%nat ->
    invoke P oracle funcs fuel (widx n_log_str) [I32 ptr; I32 len] gm pm ps
    = finished [] gm (log_result pm' gm ptr len src_off dst1 len1 dst2 len2) ps'.
Proof. exact @log_str_spec. Qed.

(** with the convention [len1 = len -> len2 = 0]: first segment, then second segment, nothing else *)
Theorem C04_log_str_effect :
  forall (P : Type) (oracle : oracle_t P) (gm pm : mem) (ps : P) (ptr len area : N) (pm' : mem) (ps' : P)
         (src_off dst1 len1 dst2 len2 : N),
    log_conv oracle gm pm ps ptr len area pm' ps' src_off dst1 len1 dst2 len2 ->
    (len1 <> len -> log_plan_not_clobbered area dst1 len1) ->
    (len1 = len -> len2 = 0) ->
    forall fuel, (glue_fuel <= fuel)%nat ->
    exists s' pm1, invoke P oracle funcs fuel (widx n_log_str) [I32 ptr; I32 len] gm pm ps = Some s' /\
      stack s' = [] /\ g s' = gm /\ pstate s' = ps' /\
      copied pm1 pm' gm dst1 (ptr + src_off) len1 /\
      copied (p s') pm1 gm dst2 (ptr + src_off + len1) len2.
Proof. exact @log_str_effect. Qed.

Theorem C04_log_str_calls :
  forall (P : Type) (oracle : oracle_t P) (gm pm : mem) (ps : P) (ptr len area : N) (pm' : mem) (ps' : P)
         (src_off dst1 len1 dst2 len2 : N) (tr : list call_rec),
    log_conv oracle gm pm ps ptr len area pm' ps' src_off dst1 len1 dst2 len2 ->
    (len1 <> len -> log_plan_not_clobbered area dst1 len1) ->
    forall fuel, (glue_fuel <= fuel)%nat ->
    invoke _ (traced oracle) funcs fuel (widx n_log_str) [I32 ptr; I32 len] gm pm (tr, ps)
    = finished [] gm (log_result pm' gm ptr len src_off dst1 len1 dst2 len2)
        (tr ++ [("_shopify_function_log_new_utf8_str", [I32 len], pm)], ps')%list.
Proof. exact @log_str_calls. Qed.

(** the non-interference hypothesis is NECESSARY: a plan whose first destination covers its own
    last two words makes the glue copy the second segment somewhere else *)
Theorem C04_log_plan_clobbered_witness :
  exists (oracle : oracle_t unit) (gm pm : mem) (ptr len area : N) (pm' : mem) (src_off dst1 len1 dst2 len2 : N),
    log_conv oracle gm pm tt ptr len area pm' tt src_off dst1 len1 dst2 len2 /\
    len1 <> len /\ ~ log_plan_not_clobbered area dst1 len1 /\
    exists s', invoke unit oracle funcs glue_fuel (widx n_log_str) [I32 ptr; I32 len] gm pm tt = Some s' /\
      exists a, mget (p s') a <> mget (log_result pm' gm ptr len src_off dst1 len1 dst2 len2) a.
Proof. exact log_plan_clobbered_witness. Qed.

(** ** (f) every other import: pure pass-through to ["_" ++ name] *)
Theorem C04_scalar_names :
  forall name, In name scalar_names <-> In name (map fst api_sigs) /\ ~ In name string_names.
Proof. exact scalar_names_spec. Qed.

Theorem C04_scalar_passthrough :
  forall name, In name scalar_names ->
  exists params results, lookup name api_sigs = Some (params, results) /\
  forall (P : Type) (oracle : oracle_t P) (args : list val) (gm pm : mem) (ps : P),
    List.length args = List.length params ->
    (forall res pm' ps' fuel,
       oracle ("_" ++ name) args pm ps = Some (res, pm', ps') ->
       List.length res = List.length results ->
       (List.length params + 3 <= fuel)%nat ->
       invoke P oracle funcs fuel (widx name) args gm pm ps = finished (rev res) gm pm' ps') /\
    (oracle ("_" ++ name) args pm ps = None ->
       invoke P oracle funcs (List.length params + 3) (widx name) args gm pm ps = None).
Proof. exact scalar_passthrough. Qed.

(** ** Structure *)
Theorem C04_structure :
  (forall m n ps rs, In (Import m n ps rs) funcs -> m = provider_module) /\
  memory_imports = [(provider_module, "memory")] /\ own_memories = 1%nat /\
  (forall name, In name (map fst wrappers) <-> In name (map fst api_sigs)) /\
  (forall name w, In (name, w) wrappers ->
     exists fd ps rs, nth_error funcs w = Some (Local fd) /\ lookup name api_sigs = Some (ps, rs) /\
                      fparams fd = ps /\ fresults fd = rs).
Proof. exact structure. Qed.

(** ** Examples: the hypotheses are satisfiable (64 KiB memories given as functions) *)
Ltac conv_fields :=
  split; try reflexivity;
  try (match goal with |- (_ <> _) -> _ => intros _ end); vm_compute; congruence.

Example ex_read_str :
  read_str_conv ex_oracle ex_gm ex_pm 0%nat 1 10 4 200 1%nat /\
  exists s', invoke nat ex_oracle funcs glue_fuel (widx n_read_str) [I32 1; I32 10; I32 4] ex_gm ex_pm 0%nat = Some s' /\
    bytes_at ex_pm 200 4 = [90; 93; 96; 99] /\
    bytes_at ex_gm 8 8 = [57; 64; 71; 78; 85; 92; 99; 106] /\
    bytes_at (g s') 8 8 = [57; 64; 90; 93; 96; 99; 99; 106].
Proof.
  assert (C : read_str_conv ex_oracle ex_gm ex_pm 0%nat 1 10 4 200 1%nat) by conv_fields.
  split; [exact C|]. eexists. split; [apply (C04_read_str_spec _ _ _ _ _ _ _ _ _ _ C), le_n|].
  vm_compute. auto.
Qed.

Example ex_get_obj_prop :
  obj_prop_conv ex_oracle ex_gm ex_pm 0%nat 1 10 4 300 1%nat 77 (mcopy ex_pm ex_gm 300 10 4) 2%nat /\
  invoke nat ex_oracle funcs glue_fuel (widx n_get_obj_prop) [I64 1; I32 10; I32 4] ex_gm ex_pm 0%nat
  = finished [I64 77] ex_gm (mcopy ex_pm ex_gm 300 10 4) 2%nat /\
  bytes_at (mcopy ex_pm ex_gm 300 10 4) 298 8 = [128; 131; 71; 78; 85; 92; 146; 149].
Proof.
  assert (C : obj_prop_conv ex_oracle ex_gm ex_pm 0%nat 1 10 4 300 1%nat 77 (mcopy ex_pm ex_gm 300 10 4) 2%nat)
    by conv_fields.
  split; [exact C|]. split; [apply (C04_get_obj_prop_spec _ _ _ _ _ _ _ _ _ _ _ _ _ C), le_n|].
  vm_compute. reflexivity.
Qed.

Example ex_out_str :
  packed_str_conv ex_oracle "_shopify_function_output_new_utf8_str" ex_gm ex_pm 0%nat 10 4 0 100 ex_pm 1%nat /\
  exists s', invoke nat ex_oracle funcs glue_fuel (widx n_out_str) [I32 10; I32 4] ex_gm ex_pm 0%nat = Some s' /\
    stack s' = [I32 0] /\ bytes_at (p s') 98 8 = [40; 43; 71; 78; 85; 92; 58; 61].
Proof.
  assert (C : packed_str_conv ex_oracle "_shopify_function_output_new_utf8_str" ex_gm ex_pm 0%nat 10 4 0 100 ex_pm 1%nat)
    by conv_fields.
  split; [exact C|]. eexists. split; [apply (C04_out_str_spec _ _ _ _ _ _ _ _ _ _ _ C), le_n|].
  vm_compute. auto.
Qed.

Example ex_intern_str :
  packed_str_conv ex_oracle "_shopify_function_intern_utf8_str" ex_gm ex_pm 0%nat 10 4 5 100 ex_pm 1%nat /\
  invoke nat ex_oracle funcs glue_fuel (widx n_intern_str) [I32 10; I32 4] ex_gm ex_pm 0%nat
  = finished [I32 5] ex_gm (mcopy ex_pm ex_gm 100 10 4) 1%nat.
Proof.
  assert (C : packed_str_conv ex_oracle "_shopify_function_intern_utf8_str" ex_gm ex_pm 0%nat 10 4 5 100 ex_pm 1%nat)
    by conv_fields.
  split; [exact C|]. apply (C04_intern_str_spec _ _ _ _ _ _ _ _ _ _ _ C), le_n.
Qed.

(** a 7-byte message the ring takes as 3 + 4 bytes (guest offset 2 onwards: the first 2 bytes dropped) *)
Example ex_log_two_segments :
  log_conv ex_oracle ex_gm ex_pm 0%nat 10 7 1000 ex_log_pm 1%nat 2 50 3 60 4 /\
  log_plan_not_clobbered 1000 50 3 /\
  exists s', invoke nat ex_oracle funcs glue_fuel (widx n_log_str) [I32 10; I32 7] ex_gm ex_pm 0%nat = Some s' /\
    bytes_at ex_gm 12 7 = [85; 92; 99; 106; 113; 120; 127] /\
    bytes_at (p s') 48 20 = [0; 0; 85; 92; 99; 0; 0; 0; 0; 0; 0; 0; 106; 113; 120; 127; 0; 0; 0; 0].
Proof.
  assert (C : log_conv ex_oracle ex_gm ex_pm 0%nat 10 7 1000 ex_log_pm 1%nat 2 50 3 60 4) by conv_fields.
  assert (N : log_plan_not_clobbered 1000 50 3) by (right; left; vm_compute; congruence).
  split; [exact C|]. split; [exact N|]. eexists.
  split; [apply (C04_log_str_spec _ _ _ _ _ _ _ _ _ _ _ _ _ _ _ C (fun _ => N)), le_n|].
  vm_compute. auto.
Qed.

(** a 3-byte message taken whole: the second segment is not even looked at *)
Example ex_log_one_segment :
  log_conv ex_oracle ex_gm ex_pm 0%nat 10 3 1000 ex_log_pm 1%nat 2 50 3 60 4 /\
  exists s', invoke nat ex_oracle funcs glue_fuel (widx n_log_str) [I32 10; I32 3] ex_gm ex_pm 0%nat = Some s' /\
    bytes_at (p s') 48 20 = [0; 0; 85; 92; 99; 0; 0; 0; 0; 0; 0; 0; 0; 0; 0; 0; 0; 0; 0; 0].
Proof.
  assert (C : log_conv ex_oracle ex_gm ex_pm 0%nat 10 3 1000 ex_log_pm 1%nat 2 50 3 60 4) by conv_fields.
  split; [exact C|]. eexists.
  split; [apply (C04_log_str_spec _ _ _ _ _ _ _ _ _ _ _ _ _ _ _ C), le_n|].
  - intros H. exfalso. apply H. reflexivity.
  - vm_compute. auto.
Qed.

Example ex_scalar :
  In "shopify_function_output_new_f64" scalar_names /\
  invoke nat ex_oracle funcs 4 (widx "shopify_function_output_new_f64") [F64 11] ex_gm ex_pm 0%nat
  = finished [I32 1] ex_gm ex_pm 1%nat.
Proof. split; [vm_compute; tauto | vm_compute; reflexivity]. Qed.
