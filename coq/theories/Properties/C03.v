(** C03 -- The writer enforces the document grammar; a rejected call changes nothing.

    Model: Write/Writer.v ([step], [finalize]; pointer width [W], overflow mode [trap]).
    Spec : Write/WSpec.v ([spec_step]: the documented status table over an abstract document
           builder), Write/Grammar.v ([tokens], [viable]: the declarative grammar).
    Scope: every finite sequence of the ten write operations and interner calls from [init]
           ([reach]), each operation satisfying [op_ok W]:
             - the no-overflow guard [op_guard W]: a declared object length [l] has [2*l < 2^W],
               a declared array length is [< 2^W] (true of all [l < 2^32] at W = 64, of
               [l < 2^31] at W = 32: [op_guard_w64], [op_guard_w32]);
             - [op_ids]: an interned id was handed out by the interner (otherwise the code panics).
           Outside the guard at W = 32 lay finding F8 (repaired): [C03_w32_former_witness_repaired]. *)
From Coq Require Import NArith ZArith List Bool.
From SFV Require Import Base.Bytes Msgpack.Tree Gen.CodesGen Write.Writer Write.WSpec Write.Grammar
  Write.WGuard Write.WriteProofs Write.GrammarProofs Base.RsPrelude Gen.StateGen Write.StateGenEq Gen.WriteCtxGen Write.WriteCtxGenEq Write.WriteCodeRun Gen.InternGen Ctx.Interner Ctx.InternerProofs.
Import ListNotations.
Open Scope N_scope.

(** Each call returns exactly the documented status ([WOk] iff [WR_Ok], else [WErr code]). *)
Theorem C03_status : forall W trap c s tk op,
  reach W trap (op_ok W) c s tk -> op_ok W c op ->
  snd (step W trap c op) = res_of_code (snd (spec_step (interned c) s op)).
Proof. intros W trap. exact (WriteProofs.C03_status W trap (op_ok W) (fun _ _ H => H)). Qed.

(** A rejected (or panicking) call leaves state, stack, output and interner unchanged -- for
    EVERY context and operation, no precondition. *)
Theorem C03_frame : forall W trap c op,
  snd (step W trap c op) <> WOk -> fst (step W trap c op) = c.
Proof. exact WriteProofs.C03_frame. Qed.

(** The output is the byte image of the abstract document after every call. *)
Theorem C03_out : forall W trap c s tk,
  reach W trap (op_ok W) c s tk -> out c = flatten s.
Proof. intros W trap. exact (WriteProofs.C03_out W trap (op_ok W) (fun _ _ H => H)). Qed.

(** The document is reported complete exactly when the root value has been closed. *)
Theorem C03_complete : forall W trap c s tk,
  reach W trap (op_ok W) c s tk ->
  (wstate c = End <-> spec_complete s) /\
  (spec_complete s -> finalize c = (WR_Ok, out c)) /\
  (~ spec_complete s -> finalize c = (WR_ValueNotFinished, [])).
Proof. intros W trap. exact (WriteProofs.C03_complete W trap (op_ok W) (fun _ _ H => H)). Qed.

(** Declarative reading: a call succeeds iff the accepted calls so far plus this one are a prefix
    of some document; the document is complete iff the accepted calls are a document. *)
Theorem C03_fits : forall W trap c s tk op tok,
  reach W trap (op_ok W) c s tk -> op_ok W c op -> tok_of_op (interned c) op = Some tok ->
  (snd (step W trap c op) = WOk <-> viable (tk ++ [tok])).
Proof. intros W trap. exact (GrammarProofs.C03_fits W trap (op_ok W) (fun _ _ H => H)). Qed.

Theorem C03_complete_tokens : forall W trap c s tk,
  reach W trap (op_ok W) c s tk -> (wstate c = End <-> exists t, tk = tokens t).
Proof. intros W trap. exact (GrammarProofs.C03_complete_tokens W trap (op_ok W) (fun _ _ H => H)). Qed.

(** The guard is implied by the documented bound on lengths at W = 64, and by 2^31 at W = 32. *)
Theorem C03_guard_w64 : forall op, len_below (2 ^ 32) op -> op_guard 64 op.
Proof. exact op_guard_w64. Qed.
Theorem C03_guard_w32 : forall op, len_below (2 ^ 31) op -> op_guard 32 op.
Proof. exact op_guard_w32. Qed.

(** Finding F8 (repaired in /repo by f3ffc61): [finish_object] used to compare with [length * 2], which
    wraps to 0 at W = 32 for a declared length of 2^31, so that an object of 2^31 declared pairs with
    none written was reported complete (release) or the call panicked (debug).  The model transcribes the
    repaired test (parity and number of complete pairs); the former witness, which lies OUTSIDE the guard,
    is now answered as the grammar says in both overflow modes.  (The guard itself is still needed for
    the unbounded statement: after 2^32 - 1 accepted items the counter increment would overflow.) *)
Theorem C03_w32_former_witness_repaired :
  exists ops,
    Forall (len_below (2 ^ 32)) ops /\ ~ Forall (op_guard 32) ops /\
    snd (run 32 false ops) = [WOk; WErr WR_ObjectLengthError] /\
    snd (run 32 true ops) = [WOk; WErr WR_ObjectLengthError] /\
    snd (spec_run [] ops) = [WR_Ok; WR_ObjectLengthError] /\
    spec_completeb (fst (spec_run [] ops)) = false.
Proof.
  exists [OStartObj (2 ^ 31); OFinObj].
  split; [repeat constructor|]. split.
  - intro H. inversion H as [|? ? H1 _]; subst. cbn in H1. vm_compute in H1. discriminate H1.
  - vm_compute; repeat split; reflexivity.
Qed.

(** * Non-vacuity: a nested document with rejected calls in between, both widths *)

Definition ex_acts : list act :=
  [ AIntern [107; 49];
    AOp OFinArr;                 (* rejected: NotAnArray *)
    AOp (OStartObj 2);
    AOp ONull;                   (* rejected: ExpectedKey *)
    AOp (OIStr 0);               (* key "k1" by interned id *)
    AOp (OStartArr 3);
    AOp (OI32 (-5));
    AOp (OF64 (2 ^ 63));         (* -0.0 *)
    AOp OFinArr;                 (* rejected: ArrayLengthError (one missing) *)
    AOp (OBool 7);               (* true *)
    AOp (OBool 0);               (* rejected: ArrayLengthError (full) *)
    AOp OFinObj;                 (* rejected: NotAnObject *)
    AOp OFinArr;
    AOp OFinObj;                 (* rejected: ObjectLengthError (one pair missing) *)
    AOp (OStr [107; 50]);        (* key "k2" *)
    AOp (OStartObj 0);           (* value {} *)
    AOp (OStr [120]);            (* rejected: ObjectLengthError *)
    AOp OFinObj;
    AOp (OStr [1]);              (* rejected: ObjectLengthError *)
    AOp OFinObj;
    AOp ONull ].                 (* rejected: ValueAlreadyWritten *)

Example ex_in_scope : acts_okb 64 true true ex_acts = true /\ acts_okb 32 false true ex_acts = true.
Proof. vm_compute. split; reflexivity. Qed.

Example ex_trace :
  trace 64 true ex_acts =
  [ (WErr WR_NotAnArray, WR_NotAnArray); (WOk, WR_Ok); (WErr WR_ExpectedKey, WR_ExpectedKey);
    (WOk, WR_Ok); (WOk, WR_Ok); (WOk, WR_Ok); (WOk, WR_Ok);
    (WErr WR_ArrayLengthError, WR_ArrayLengthError); (WOk, WR_Ok);
    (WErr WR_ArrayLengthError, WR_ArrayLengthError); (WErr WR_NotAnObject, WR_NotAnObject);
    (WOk, WR_Ok); (WErr WR_ObjectLengthError, WR_ObjectLengthError); (WOk, WR_Ok); (WOk, WR_Ok);
    (WErr WR_ObjectLengthError, WR_ObjectLengthError); (WOk, WR_Ok);
    (WErr WR_ObjectLengthError, WR_ObjectLengthError); (WOk, WR_Ok);
    (WErr WR_ValueAlreadyWritten, WR_ValueAlreadyWritten) ]
  /\ trace 32 false ex_acts = trace 64 true ex_acts.
Proof. vm_compute. split; reflexivity. Qed.

(** The hypotheses of the C03 theorems hold of this run; it ends complete. *)
Example ex_reach :
  exists c s tk, reach 64 true (op_ok 64) c s tk /\ wstate c = End /\ spec_complete s /\
                 tk = [KStartObj 2; KStr [107; 49]; KStartArr 3; KScalar (SInt (-5));
                       KScalar (SF64 (2 ^ 63)); KScalar (SBool true); KFinArr;
                       KStr [107; 50]; KStartObj 0; KFinObj; KFinObj].
Proof.
  pose proof (exec_reach_init 64 true false ex_acts eq_refl) as H.
  destruct (exec 64 true ex_acts) as [[c s] tk] eqn:E. vm_compute in E.
  injection E as <- <- <-. do 3 eexists. split; [exact H|].
  repeat split; try reflexivity. discriminate.
Qed.

(** * The state machine of the model IS the code (tie by translation, T8)

    [Gen/StateGen.v] is regenerated on every run from provider/src/write/state.rs by translators/rs2v:
    every function of [State], [ObjectState], [ArrayState] mechanically translated (state-passing, the
    Rust [Vec] in push order, [usize] arithmetic at width [W] wrapping or panicking).  The theorems below
    say that the functions the C02/C03 theorems are about compute exactly that, for EVERY state, stack,
    declared length, pointer width and overflow mode ([agree1]/[agree2]: accepted with the same new
    state and stack; or rejected with the same status and state and stack left exactly as they were;
    or both panic).  [conv] forgets the record wrappers, [conv_stack] reverses the stack. *)
Theorem C03_code_write_string : forall W trap s,
  agree1 s (State_write_string W trap s) (st_write_string W trap (conv s)).
Proof. exact gen_write_string_eq. Qed.

Theorem C03_code_write_non_string_scalar : forall W trap s,
  agree1 s (State_write_non_string_scalar W trap s) (st_write_non_string_scalar W trap (conv s)).
Proof. exact gen_write_non_string_scalar_eq. Qed.

Theorem C03_code_start_object : forall W trap s len stk,
  agree2 s stk (State_start_object W trap s len stk) (st_start W trap (Object len 0) (conv s) (conv_stack stk)).
Proof. exact gen_start_object_eq. Qed.

Theorem C03_code_start_array : forall W trap s len stk,
  agree2 s stk (State_start_array W trap s len stk) (st_start W trap (Array len 0) (conv s) (conv_stack stk)).
Proof. exact gen_start_array_eq. Qed.

Theorem C03_code_finish_object : forall W trap s stk,
  agree2 s stk (State_finish_object W trap s stk) (st_finish_object (conv s) (conv_stack stk)).
Proof. exact gen_finish_object_eq. Qed.

Theorem C03_code_finish_array : forall W trap s stk,
  agree2 s stk (State_finish_array W trap s stk) (st_finish_array (conv s) (conv_stack stk)).
Proof. exact gen_finish_array_eq. Qed.

(** What the agreement relations say, spelled out (so that they cannot be weakened unnoticed). *)
Theorem C03_code_agree_meaning : forall s stk g h,
  agree2 s stk g h <->
  match g, h with
  | GOk (s', stk', c), (SOk t, hstk) => c = WR_Ok /\ conv s' = t /\ conv_stack stk' = hstk
  | GOk (s', stk', c), (SErr c', hstk) => c = c' /\ c <> WR_Ok /\ s' = s /\ stk' = stk /\ hstk = conv_stack stk
  | GPanic _, (SPanic _, _) => True
  | _, _ => False
  end.
Proof. intros. reflexivity. Qed.

(** * [Writer.step] IS the code of provider/src/write.rs (tie by translation, T8)

    [Gen/WriteCtxGen.v] is regenerated on every run from provider/src/write.rs: all ten methods of
    [impl Context], calling the regenerated state machine ([Gen/StateGen.v]), the regenerated interner
    ([Gen/InternGen.v]) and the rmp encoders ([Msgpack/Rmp.v]).  [R gc c] relates a generated context to a
    model context (same state up to [conv], same stack up to order, same output bytes, interner holding exactly
    [interned c]).  For every related pair, every operation, every pointer width and both overflow modes the
    translated Rust and [step] agree ([agree_ctx]: same status; accepted -> related new contexts; rejected ->
    BOTH contexts exactly as they were; or both panic).  For a string write the provider hands back a
    destination inside its (possibly just reallocated) output buffer and the glue copies there ([apply_copy]);
    for an interned string the provider copies itself.  The size hypotheses say that the output fits the
    address space. *)
Theorem C03_code_ctx_scalars : forall W trap gc c, R gc c ->
  (forall v, agree_ctx gc c (Context_write_bool W trap gc (negb (v =? 0))) (step W trap c (OBool v))) /\
  agree_ctx gc c (Context_write_nil W trap gc) (step W trap c ONull) /\
  (forall z, agree_ctx gc c (Context_write_i32 W trap gc z) (step W trap c (OI32 z))) /\
  (forall b, agree_ctx gc c (Context_write_f64 W trap gc b) (step W trap c (OF64 b))).
Proof.
  intros W trap gc c HR. repeat split; intros.
  - apply gen_ctx_write_bool; exact HR.
  - apply gen_ctx_write_nil; exact HR.
  - apply gen_ctx_write_i32; exact HR.
  - apply gen_ctx_write_f64; exact HR.
Qed.

Theorem C03_code_ctx_containers : forall W trap gc c, R gc c ->
  (forall len, agree_ctx gc c (Context_start_object W trap gc len) (step W trap c (OStartObj len))) /\
  (forall len, agree_ctx gc c (Context_start_array W trap gc len) (step W trap c (OStartArr len))) /\
  agree_ctx gc c (Context_finish_object W trap gc) (step W trap c OFinObj) /\
  agree_ctx gc c (Context_finish_array W trap gc) (step W trap c OFinArr).
Proof.
  intros W trap gc c HR. repeat split; intros.
  - apply gen_ctx_start_object; exact HR.
  - apply gen_ctx_start_array; exact HR.
  - apply gen_ctx_finish_object; exact HR.
  - apply gen_ctx_finish_array; exact HR.
Qed.

Theorem C03_code_ctx_string : forall W trap gc c s, R gc c ->
  lenN (out c) + 5 + lenN s < 2 ^ W ->
  agree_str gc c s (Context_allocate_utf8_str W trap gc (lenN s)) (step W trap c (OStr s)).
Proof. exact gen_ctx_allocate_utf8_str. Qed.

Theorem C03_code_ctx_interned_string : forall W trap gc c id, R gc c ->
  (forall s, nthN (interned c) id = Some s -> lenN (out c) + 5 + lenN s < 2 ^ W) ->
  lenN (concat (interned c)) < 2 ^ W ->
  agree_ctx gc c (Context_write_interned_utf8_str W trap gc id) (step W trap c (OIStr id)).
Proof. exact gen_ctx_write_interned. Qed.

(** the relations, spelled out *)
Theorem C03_code_ctx_meaning : forall gc c g h s gs,
  (R gc c <-> StateGenEq.conv (Context_write_state gc) = wstate c /\ conv_stack (Context_write_parent_state_stack gc) = wstack c /\
              Context_output_bytes gc = out c /\ wf_i (unconv_i (Context_string_interner gc)) (interned c)) /\
  (agree_ctx gc c g h <-> match g, h with
     | GOk (gc', code), (c', WOk) => code = WR_Ok /\ R gc' c'
     | GOk (gc', code), (c', WErr code') => code = code' /\ code <> WR_Ok /\ gc' = gc /\ c' = c
     | GPanic _, (_, WPanic _) => True
     | _, _ => False end) /\
  (agree_str gc c s gs h <-> match gs, h with
     | GOk (gc', (code, dst)), (c', WOk) => code = WR_Ok /\ exists gc'', apply_copy gc' dst s = GOk gc'' /\ R gc'' c'
     | GOk (gc', (code, dst)), (c', WErr code') => code = code' /\ code <> WR_Ok /\ gc' = gc /\ c' = c /\ dst = None
     | GPanic _, (_, WPanic _) => True
     | _, _ => False end).
Proof.
  intros. split; [|split; reflexivity].
  split; [intros [H1 H2 H3 H4]; auto|intros (H1 & H2 & H3 & H4); constructor; assumption].
Qed.

(** * The ABI entry points themselves (tie by translation, T8)

    The exported functions [shopify_function_output_new_bool / _null / _i32 / _f64 / _utf8_str / _interned_utf8_str /
    _object / _array / finish_object / finish_array] and the native [finalize] of provider/src/write.rs are regenerated
    too ([Context::with_mut(|context| ..)] around one method, the argument conversion [bool != 0], the packing of status
    and destination into one double-width word).  They agree with [Writer.step] and [Writer.finalize]. *)
Theorem C03_code_abi_scalars : forall W trap gc c, R gc c ->
  (forall v, agree_ctx gc c (Context_shopify_function_output_new_bool W trap gc v) (step W trap c (OBool v))) /\
  agree_ctx gc c (Context_shopify_function_output_new_null W trap gc) (step W trap c ONull) /\
  (forall z, agree_ctx gc c (Context_shopify_function_output_new_i32 W trap gc z) (step W trap c (OI32 z))) /\
  (forall b, agree_ctx gc c (Context_shopify_function_output_new_f64 W trap gc b) (step W trap c (OF64 b))).
Proof.
  intros W trap gc c HR. repeat split; intros.
  - apply gen_abi_new_bool; exact HR.
  - apply gen_abi_new_null; exact HR.
  - apply gen_abi_new_i32; exact HR.
  - apply gen_abi_new_f64; exact HR.
Qed.

Theorem C03_code_abi_containers : forall W trap gc c, R gc c ->
  (forall len, agree_ctx gc c (Context_shopify_function_output_new_object W trap gc len) (step W trap c (OStartObj len))) /\
  (forall len, agree_ctx gc c (Context_shopify_function_output_new_array W trap gc len) (step W trap c (OStartArr len))) /\
  agree_ctx gc c (Context_shopify_function_output_finish_object W trap gc) (step W trap c OFinObj) /\
  agree_ctx gc c (Context_shopify_function_output_finish_array W trap gc) (step W trap c OFinArr).
Proof.
  intros W trap gc c HR. repeat split; intros.
  - apply gen_abi_new_object; exact HR.
  - apply gen_abi_new_array; exact HR.
  - apply gen_abi_finish_object; exact HR.
  - apply gen_abi_finish_array; exact HR.
Qed.

Theorem C03_code_abi_interned_string : forall W trap gc c id, R gc c ->
  (forall s, nthN (interned c) id = Some s -> lenN (out c) + 5 + lenN s < 2 ^ W) ->
  lenN (concat (interned c)) < 2 ^ W ->
  agree_ctx gc c (Context_shopify_function_output_new_interned_utf8_str W trap gc id) (step W trap c (OIStr id)).
Proof. exact gen_abi_new_interned. Qed.

(** the string write returns [status * 2^W + destination] (high word: status, low word: pointer) *)
Theorem C03_code_abi_string_packing : forall W trap gc len, 0 < W ->
  match Context_allocate_utf8_str W trap gc len, Context_shopify_function_output_new_utf8_str W trap gc len with
  | GOk (gc1, (code, dst)), GOk (gc2, packed) =>
      gc2 = gc1 /\ (code < 2 ^ W -> ptr_val dst < 2 ^ W -> packed = code * 2 ^ W + ptr_val dst)
  | GPanic _, GPanic _ => True
  | _, _ => False
  end.
Proof. exact gen_abi_new_utf8_str. Qed.

(** native finalisation refuses unless the root value is closed; it hands out exactly the output bytes and changes nothing *)
Theorem C03_code_abi_finalize : forall W trap gc c, R gc c ->
  Context_shopify_function_output_finalize_and_return_msgpack_bytes W trap gc = GOk (gc, finalize c).
Proof. exact gen_abi_finalize. Qed.

(** * Whole call sequences on the translated code

    [gen_step] is one ABI call on the regenerated Rust (the exported function; for a string write also the native glue's
    part: unpack status and destination from the double-width result and copy the bytes there only on success --
    that part is written by hand, as api/src/lib.rs provider_fallback does it).  For EVERY finite sequence of calls whose
    output fits the address space ([ok_run]), from related contexts -- in particular from the fresh ones -- the translated
    Rust returns exactly the model's statuses and ends in a related context, or both panic.  Hence C03_status, C03_frame,
    C03_fits, C03_complete and C02 are statements about the traces of the translated code. *)
Theorem C03_code_run : forall W trap, 4 <= W -> forall ops gc c, R gc c -> ok_run W trap c ops = true ->
  match gen_run W trap gc ops, model_run W trap c ops with
  | GOk (gc', codes), Some (c', codes') => codes = codes' /\ R gc' c'
  | GPanic _, None => True
  | _, _ => False
  end.
Proof. exact code_run_agrees. Qed.

Theorem C03_code_initial : R (mkContext State_Start [] [] (mkStringInterner [] [])) init.
Proof. constructor; [reflexivity|reflexivity|reflexivity|exact wf_i_empty]. Qed.

(** non-vacuity: a document written through the translated code at W = 32, with a rejected call in the middle *)
Example C03_code_run_example :
  let ops := [OStartObj 1; OBool 7; OStr [107]; OStartArr 2; OI32 (-5); OStr [104; 105]; OFinArr; OFinObj; ONull] in
  ok_run 32 true init ops = true /\
  gen_run 32 true (mkContext State_Start [] [] (mkStringInterner [] [])) ops
  = GOk (mkContext State_End [] [0x81; 0xa1; 107; 0x92; 0xfb; 0xa2; 104; 105] (mkStringInterner [] []),
         [WR_Ok; WR_ExpectedKey; WR_Ok; WR_Ok; WR_Ok; WR_Ok; WR_Ok; WR_Ok; WR_ValueAlreadyWritten]).
Proof. cbv zeta. split; vm_compute; reflexivity. Qed.
