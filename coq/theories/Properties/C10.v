(** C10 — deserialising a number into an integer type is exact or fails.
    Rust: api/src/read.rs, macro [impl_deserialize_for_int!]:
      [n.trunc() == n && n >= <$ty>::MIN as f64 && n <= <$ty>::MAX as f64] then [Some(n as $ty)].
    This file holds only the pinned statements; proofs are in SFV.Api.IntDeserProofs and
    SFV.Base.F64Proofs.

    FINDING.  The property as worded is FALSE of the code for the 64-bit targets: [MAX as f64]
    rounds UP (to 2^63 for i64/isize, 2^64 for u64/usize), the guard [n <= MAX as f64] lets exactly
    that one double through, and the saturating cast clamps it to MAX.  [C10_refuted] is the
    witness, [Known_iff] lists the complete set of wrong inputs (one double per 64-bit type),
    [Known_wrong] shows each of them is indeed accepted with the wrong value, and [C10] is the
    property for every other input. *)
From Coq Require Import NArith ZArith.
From SFV Require Import Base.F64 Api.IntDeser Base.F64Proofs Api.IntDeserProofs
  Base.RsPrelude Api.IntDeserExt Gen.IntDeserGen Api.IntDeserGenEq.

(** The excluded inputs: the target is 64 bits wide and the number is exactly MAX + 1. *)
Definition Known (W : N) (t : intty) (bits : N) : Prop :=
  int_bits W t = 64%N /\ exact_int bits = Some (int_max W t + 1)%Z.

(** [W] is the pointer width (for usize/isize), [bits] the IEEE-754 pattern of the number. *)
Theorem C10 : forall (W : N) (t : intty) (bits : N),
  (W = 32 \/ W = 64)%N -> (bits < 2^64)%N -> ~ Known W t bits ->
  match deser_int W t bits with
  | Some x => exact_int bits = Some x /\ (int_min W t <= x <= int_max W t)%Z
  | None => forall x, (int_min W t <= x <= int_max W t)%Z -> exact_int bits <> Some x
  end.
Proof. exact deser_int_exact_or_fails. Qed.

Theorem C10_refuted : exists t bits, (bits < 2^64)%N /\ Known 64 t bits /\
  exists x, deser_int 64 t bits = Some x /\ exact_int bits <> Some x.
Proof. exact deser_int_refuted. Qed.

(** The excluded class is exactly four (type, double) pairs: 2^63 for the signed and 2^64 for
    the unsigned 64-bit types. *)
Theorem Known_iff : forall (W : N) (t : intty) (bits : N),
  (W = 32 \/ W = 64)%N -> (bits < 2^64)%N ->
  (Known W t bits <->
   (t = I64 /\ bits = 0x43E0000000000000%N) \/
   (t = U64 /\ bits = 0x43F0000000000000%N) \/
   (W = 64%N /\ t = Isize /\ bits = 0x43E0000000000000%N) \/
   (W = 64%N /\ t = Usize /\ bits = 0x43F0000000000000%N)).
Proof. exact known_iff. Qed.

(** Every excluded input is a wrong answer: accepted, and clamped to MAX although it is MAX + 1. *)
Theorem Known_wrong : forall (W : N) (t : intty) (bits : N),
  (W = 32 \/ W = 64)%N -> (bits < 2^64)%N -> Known W t bits ->
  deser_int W t bits = Some (int_max W t) /\ exact_int bits = Some (int_max W t + 1)%Z.
Proof. exact known_all_wrong. Qed.

(** The macro as a function of the exact value of the number. *)
Theorem C10_char : forall (W : N) (t : intty) (bits : N) (cmin cmax : Z),
  exact_int (of_int (int_min W t)) = Some cmin ->
  exact_int (of_int (int_max W t)) = Some cmax ->
  deser_int W t bits =
  match exact_int bits with
  | Some z => if ((cmin <=? z) && (z <=? cmax))%Z%bool
              then Some (Z.max (int_min W t) (Z.min (int_max W t) z)) else None
  | None => None
  end.
Proof. exact deser_int_char. Qed.

(** Hypotheses of [C10] are satisfiable, with accepted and rejected inputs:
    i8 from 127.0 (accepted), 128.0, 0.5, -129.0, +inf, NaN (rejected);
    i64 from -2^63 (accepted, the exact minimum). *)
Example C10_nontrivial :
  (0x405FC00000000000 < 2^64)%N /\ ~ Known 64 I8 0x405FC00000000000 /\
  deser_int 64 I8 0x405FC00000000000 = Some 127%Z /\
  ~ Known 64 I8 0x4060000000000000 /\ deser_int 64 I8 0x4060000000000000 = None /\
  exact_int 0x4060000000000000 = Some 128%Z /\
  ~ Known 64 I8 0x3FE0000000000000 /\ deser_int 64 I8 0x3FE0000000000000 = None /\
  deser_int 64 I8 0xC060200000000000 = None /\ exact_int 0xC060200000000000 = Some (-129)%Z /\
  deser_int 64 I8 0x7FF0000000000000 = None /\ deser_int 64 I8 0x7FF8000000000000 = None /\
  ~ Known 64 I64 0xC3E0000000000000 /\
  deser_int 64 I64 0xC3E0000000000000 = Some (-9223372036854775808)%Z.
Proof.
  repeat split; try (vm_compute; reflexivity); intros [B X];
    vm_compute in B, X; (discriminate B || discriminate X).
Qed.

(** * [deser_int] IS the code (tie by translation, T8)

    [Gen/IntDeserGen.v] is regenerated on every run: the body of [impl_deserialize_for_int!] in api/src/read.rs is
    instantiated textually for each type the macro is invoked with ([$ty] := i8 ... isize, what the macro expander
    does) and translated by translators/rs2v.  For every target type, every 64-bit pattern and both pointer widths
    the translated Rust computes [deser_int] ([gen_deser t] selects the instantiation for [t]; a value that is not a
    number is [Error::InvalidType]). *)
Theorem C10_code_number : forall W trap t bits,
  gen_deser t W trap (mkValue (Some (decode bits))) = GOk (res_of (deser_int W t bits)).
Proof. exact gen_deser_number. Qed.

Theorem C10_code_not_a_number : forall W trap t,
  gen_deser t W trap (mkValue None) = GOk (RErr APIERR_InvalidType).
Proof. exact gen_deser_not_a_number. Qed.
