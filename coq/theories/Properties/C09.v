(** C09 -- Typed serialisation and deserialisation are inverse to each other.

    Rust : api/src/write.rs (trait Serialize, its impls, Context::write_object / write_array),
           api/src/read.rs  (trait Deserialize, its impls), over the Value API of api/src/lib.rs.
    Model: Api/Typed.v  ([ty], [value], [has_type_w], [ser], [ser_run], [deser], [tree_of], [json_of],
           [canon], [matches]).  Proofs: Api/TypedProofs.v.  This file: final statements only.

    Scope.  Types: unit, bool, i32, f64, String/str, Option, Vec/slice, HashMap<String, _>, and on the
    read side tuples, fixed-size arrays and the ten integer types; arbitrarily nested.  Values:
    [has_type_w W v t] (i32 range, 64-bit float patterns, bytes below 256, pairwise distinct map keys,
    tuple / array arity) and [bounded v] (fewer than 2^31 entries per collection, fewer than 2^32 bytes
    per string, |z| <= 2^53 for the non-i32 integers).  W (usize::BITS) is 32 or 64, both overflow modes.
    A HashMap iterates in an arbitrary order: a [VMap] lists the entries in one order, [ser] emits them
    in that order, and every theorem is stated for EVERY [v'] with [veq v v'] (equal up to the order of
    map entries at every depth).

    Read side and the real reader.  [deser W t w] reads the node [w] of the eagerly decoded document
    through is_null / as_bool / as_number / as_string / array_len / obj_len / get_at_index /
    get_obj_key_at_index as Read/ReadSpec.v specifies them on a wire node ([ans_of], [num_of], [sel]).
    By Properties/C01 the lazy reader of the provider returns exactly ReadSpec's answers on
    [enc w] for every well-formed NaN-free [w], every call history; [C09_document] shows that the
    bytes [ser] writes are [enc w] for [w = canon (tree_of v')], well formed and NaN-free, so C01 applies
    to them and [deser] over [w] is what the Rust Deserialize impls compute on the written bytes.
    [C09_via_spec]: [deser] is the Deserialize impl written against the ABI calls only
    (Api/TypedApi.v [deser_root], every access one [ReadSpec.spec_exec] call);
    [C09_via_lazy] / [C09_end_to_end]: the outputs it consumes are those of the lazy reader model.

    FINDINGS.
    (1) [C09_refuted]: the round trip is FALSE for [Option<U>] with [U] nullable ([()], [Option<_>]):
        [Some(())] and [Some(None)] are written as null and read back as [None].  Inherent to the
        null-for-None encoding (serde_json has the same limitation); excluded by [opt_ok].
    (2) [C09_known_coerced]: the integer targets of 64 bits accept the double MAX + 1 (2^63, 2^64) and
        return MAX: C10's exception class; excluded by [known_free] in [C09_mismatch].
    (3) [C09_big_int_rounded]: i64/u64/usize/isize targets read a document integer beyond 2^53 rounded
        to the nearest double (as_number returns f64); not reachable from the typed Serialize impls
        (only i32 can be written), hence outside the round-trip property, but a lossy read.
    (4) Not a finding, a remark: f64 accepts any MessagePack number (an integer too) and integer
        targets accept a float whose value is an integer: JSON has one number type; [matches] says so. *)
From Coq Require Import NArith ZArith List Bool Permutation.
From SFV Require Import Base.Bytes Base.F64 Api.IntDeser Msgpack.Tree Msgpack.Wire Gen.CodesGen
  Read.Lazy Read.ReadRun Read.ReadFuel Write.Writer Read.ReadSpec Api.Typed Api.TypedProofs Api.TypedApi Api.TypedApiProofs.
Import ListNotations.
Open Scope N_scope.

(** * Write side *)

(** Serialising a typed value issues only accepted calls (no error, no panic; so the early
    abort of [?] never fires), completes the document, and the output is exactly the canonical
    MessagePack encoding of the tree of the value -- for every iteration order [v'] of the maps.
    That encoding is a well-formed document which the general decoder reads back as that tree. *)
Theorem C09_ser : forall (W : N) (trap : bool) (v v' : value) (t : ty),
  (W = 32 \/ W = 64) -> has_type_w W v t = true -> ser_ok t = true -> bounded v = true -> veq v v' ->
  exists c,
    ser_run W trap (ser v') init = (c, WOk) /\
    Writer.run W trap (ser v') = (c, repeat WOk (length (ser v'))) /\
    wstate c = End /\ out c = enc_tree (tree_of v') /\
    finalize c = (WR_Ok, enc_tree (tree_of v')) /\
    wf_tree (tree_of v') = true /\ dec_doc (enc_tree (tree_of v')) = Some (tree_of v').
Proof.
  intros W trap v v' t HW HT HS HB HE. apply andb_prop in HS. destruct HS as [HWr _].
  pose proof (has_type_veq W v v' t HE HT) as HT'. pose proof (bounded_veq v v' HE HB) as HB'.
  destruct (ser_correct W trap v' t HW HT' HWr HB') as (c & A & B & C & D & E).
  pose proof (wf_tree_of W v' HW t HT' HB') as Hwf.
  exists c. repeat split; try assumption. apply TreeProofs.dec_doc_enc. exact Hwf.
Qed.

(** What is written is the JSON value serde produces (for finite doubles; serde_json maps the
    non-finite ones to null). *)
Theorem C09_json : forall v, finite_val v = true -> json_of v = tree_of v.
Proof. exact json_of_tree_of. Qed.

(** * Round trip *)

(** Reading the written document back at the type it was written from returns the value itself
    (hence a value [veq] to the original whatever order the maps were iterated in).  Holds for
    every double (NaNs included) on the eager document; tuples and the other integer types
    included ([opt_ok] is the only restriction on the type). *)
Theorem C09_roundtrip : forall (W : N) (v v' : value) (t : ty),
  (W = 32 \/ W = 64) -> has_type_w W v t = true -> opt_ok t = true -> bounded v = true -> veq v v' ->
  deser W t (canon (tree_of v')) = Some v'.
Proof.
  intros W v v' t HW HT HO HB HE.
  apply (roundtrip W HW v' t (has_type_veq W v v' t HE HT) (bounded_veq v v' HE HB) HO).
Qed.

Theorem ser_ok_opt_ok : forall t, ser_ok t = true -> opt_ok t = true.
Proof. intros t H. apply andb_prop in H. apply H. Qed.

(** The document read is the document written: [canon (tree_of v')] is the wire tree of the bytes
    [ser v'] outputs, it is well formed, and NaN-free if the value is (so Properties/C01 applies). *)
Theorem C09_document : forall (W : N) (v : value) (t : ty),
  (W = 32 \/ W = 64) -> has_type_w W v t = true -> bounded v = true ->
  enc (canon (tree_of v)) = enc_tree (tree_of v) /\ wf (canon (tree_of v)) = true /\
  (nan_free v = true -> no_nan (canon (tree_of v)) = true).
Proof.
  intros W v t HW HT HB. pose proof (wf_tree_of W v HW t HT HB) as Hwf.
  split; [apply enc_canon; exact Hwf|]. split; [apply wf_canon; exact Hwf|apply no_nan_canon].
Qed.

(** Serialise, hand the output back as input, deserialise: the original value. *)
Theorem C09_pipeline : forall (W : N) (trap : bool) (v v' : value) (t : ty),
  (W = 32 \/ W = 64) -> has_type_w W v t = true -> ser_ok t = true -> bounded v = true ->
  finite_val v' = true -> veq v v' ->
  exists c w,
    ser_run W trap (ser v') init = (c, WOk) /\ finalize c = (WR_Ok, enc w) /\
    wf w = true /\ no_nan w = true /\ enc w = enc_tree (json_of v') /\
    deser W t w = Some v'.
Proof.
  intros W trap v v' t HW HT HS HB HF HE.
  pose proof (has_type_veq W v v' t HE HT) as HT'. pose proof (bounded_veq v v' HE HB) as HB'.
  destruct (C09_ser W trap v v' t HW HT HS HB HE) as (c & A & _ & _ & _ & D & _).
  destruct (C09_document W v' t HW HT' HB') as (E1 & E2 & E3).
  exists c, (canon (tree_of v')). rewrite E1. repeat split; try assumption.
  - apply E3, finite_nan_free, HF.
  - rewrite C09_json by exact HF. reflexivity.
  - apply (C09_roundtrip W v v' t HW HT (ser_ok_opt_ok t HS) HB HE).
Qed.

(** The executable comparison used by the test driver is sound for [veq]. *)
Theorem C09_veqb_sound : forall (a b : value) (W : N) (t : ty),
  veqb a b = true -> has_type_w W a t = true -> has_type_w W b t = true -> veq a b.
Proof. exact veqb_veq. Qed.

(** On the types that can be written, typing does not depend on the pointer width. *)
Theorem C09_has_type_w : forall (W : N) (v : value) (t : ty),
  writable t = true -> has_type_w W v t = has_type v t.
Proof. exact has_type_w_writable. Qed.

(** * The link to the reader *)

(** [deser] over the eager document = the Deserialize impls run against the ABI calls as
    [ReadSpec.spec_exec] answers them ([TypedApi.deser_root]: a root fetch, then only get_at_index /
    get_obj_key_at_index / get_val_len / string reads on Values obtained earlier); the outputs it
    consumed are exactly [spec_run] of the calls it issued. *)
Theorem C09_via_spec : forall (W : N) (w : wire) (t : ty),
  exists ops, fst (deser_root W w t) = deser W t w /\
              fst (snd (deser_root W w t)) = spec_run w (RRoot :: ops).
Proof. exact deser_via_spec. Qed.

(** ... and, by C01, exactly the outputs of the lazy reader model on the encoded document. *)
Theorem C09_via_lazy : forall (W : N) (trap : bool) (w : wire) (t : ty),
  wf w = true -> no_nan w = true -> lenN (enc w) < 2 ^ W ->
  exists ops, fst (deser_root W w t) = deser W t w /\
              fst (snd (deser_root W w t))
              = outs (ReadRun.run W trap (fuel_for w (RRoot :: ops)) (enc w) (RRoot :: ops)).
Proof. exact deser_via_lazy. Qed.

(** Serialise with the writer model, hand the bytes to the lazy reader model, deserialise through
    the ABI calls: the original value (the document must fit the address space). *)
Theorem C09_end_to_end : forall (W : N) (trap trap' : bool) (v v' : value) (t : ty),
  (W = 32 \/ W = 64) -> has_type_w W v t = true -> ser_ok t = true -> bounded v = true ->
  finite_val v' = true -> veq v v' ->
  exists c bytes w,
    ser_run W trap (ser v') init = (c, WOk) /\ finalize c = (WR_Ok, bytes) /\
    bytes = enc_tree (json_of v') /\ bytes = enc w /\
    (lenN bytes < 2 ^ W ->
     exists ops, fst (deser_root W w t) = Some v' /\
                 fst (snd (deser_root W w t))
                 = outs (ReadRun.run W trap' (fuel_for w (RRoot :: ops)) bytes (RRoot :: ops))).
Proof.
  intros W trap trap' v v' t HW HT HS HB HF HE.
  destruct (C09_pipeline W trap v v' t HW HT HS HB HF HE) as (c & w & A & B & C & D & E & F).
  exists c, (enc w), w. repeat split; try assumption.
  intro HL. destruct (C09_via_lazy W trap' w t C D HL) as (ops & G1 & G2).
  exists ops. split; [rewrite G1; exact F|exact G2].
Qed.

(** FINDING: without [opt_ok] the round trip fails: Option<()> Some(()) and
    Option<Option<i32>> Some(None) are read back as None. *)
Theorem C09_refuted :
  (exists t v, has_type v t = true /\ writable t = true /\ bounded v = true /\
               deser 64 t (canon (tree_of v)) <> Some v) /\
  deser 64 (TOpt TUnit) (canon (tree_of (VSome VUnit))) = Some VNone /\
  deser 64 (TOpt (TOpt TI32)) (canon (tree_of (VSome VNone))) = Some VNone /\
  ser (VSome VUnit) = [ONull] /\ ser (VSome VNone) = [ONull].
Proof.
  split; [exists (TOpt TUnit), (VSome VUnit); repeat split; try reflexivity; vm_compute; discriminate|].
  vm_compute. repeat split; reflexivity.
Qed.

(** The bound |z| <= 2^53 in [bounded] is needed for the 64-bit integer targets (read side only):
    the Value API hands every number over as an f64, so the document integer 2^53 + 1 is read
    back as 2^53 (silently; [matches] holds since the rounded double is an in-range integer). *)
Theorem C09_big_int_rounded :
  has_type_w 64 (VInt 9007199254740993) (TInt IntDeser.I64) = true /\
  opt_ok (TInt IntDeser.I64) = true /\ bounded (VInt 9007199254740993) = false /\
  deser 64 (TInt IntDeser.I64) (canon (tree_of (VInt 9007199254740993))) = Some (VInt 9007199254740992) /\
  matches 64 (TInt IntDeser.I64) (canon (tree_of (VInt 9007199254740993))) = true.
Proof. vm_compute. repeat split; reflexivity. Qed.

(** * No coercion *)

(** Whatever a type accepts has the JSON shape of the type ([matches]): null only for unit and
    Option, a boolean only for bool, a string only for String, an array only for Vec / tuple / array
    (exact arity for the last two), a map with string keys only for HashMap, and for an integer
    target only a number whose value is exactly an integer in the range of the target. *)
Theorem C09_mismatch : forall (W : N) (t : ty) (d : wire) (v : value),
  (W = 32 \/ W = 64) -> wf d = true -> known_free W t d = true ->
  deser W t d = Some v -> matches W t d = true.
Proof. intros W t d v HW. apply (deser_matches W HW). Qed.

(** Equivalently: a mismatching (document, type) pair is an error. *)
Corollary C09_reject : forall (W : N) (t : ty) (d : wire),
  (W = 32 \/ W = 64) -> wf d = true -> known_free W t d = true ->
  matches W t d = false -> deser W t d = None.
Proof.
  intros W t d HW Hwf HK HM. destruct (deser W t d) as [v|] eqn:E; [|reflexivity].
  rewrite (C09_mismatch W t d v HW Hwf HK E) in HM. discriminate HM.
Qed.

(** Conversely every document of the right shape is accepted. *)
Theorem C09_match : forall (W : N) (t : ty) (d : wire),
  (W = 32 \/ W = 64) -> wf d = true -> lens_ok W d = true ->
  matches W t d = true -> exists v, deser W t d = Some v.
Proof. intros W t d HW. apply (matches_deser W HW). Qed.

Theorem C09_lens_ok_64 : forall d, wf d = true -> lens_ok 64 d = true.
Proof. exact lens_ok_64. Qed.

(** FINDING (C10's class seen through the typed layer): 2^63 is accepted as an i64 (and as the
    element of a Vec<i64>) although it does not match; [known_free] excludes exactly this. *)
Theorem C09_known_coerced :
  deser 64 (TVec (TInt IntDeser.I64)) (WArr LFix [WF64 0x43E0000000000000])
    = Some (VVec [VInt 9223372036854775807]) /\
  matches 64 (TVec (TInt IntDeser.I64)) (WArr LFix [WF64 0x43E0000000000000]) = false /\
  known_free 64 (TVec (TInt IntDeser.I64)) (WArr LFix [WF64 0x43E0000000000000]) = false.
Proof. vm_compute. repeat split; reflexivity. Qed.

(** * Examples *)

(** Vec<Option<HashMap<String, Vec<i32>>>> with empty and non-empty parts. *)
Definition ex_ty : ty := TVec (TOpt (TMap (TVec TI32))).
Definition ex_val : value :=
  VVec [ VNone; VSome (VMap []);
         VSome (VMap [ ([97], VVec []); ([98; 99], VVec [VI32 (-5); VI32 70000; VI32 2147483647]) ]);
         VSome (VMap [ ([], VVec [VI32 (-2147483648)]) ]) ].
(** the same value with the second map iterated in the other order *)
Definition ex_val' : value :=
  VVec [ VNone; VSome (VMap []);
         VSome (VMap [ ([98; 99], VVec [VI32 (-5); VI32 70000; VI32 2147483647]); ([97], VVec []) ]);
         VSome (VMap [ ([], VVec [VI32 (-2147483648)]) ]) ].

Example ex_hyps :
  has_type ex_val ex_ty = true /\ has_type_w 32 ex_val ex_ty = true /\ ser_ok ex_ty = true /\
  bounded ex_val = true /\ finite_val ex_val = true /\ veq ex_val ex_val' /\ veqb ex_val ex_val' = true.
Proof.
  do 5 (split; [vm_compute; reflexivity|]). split; [|vm_compute; reflexivity].
  apply veq_VVec. eexists. split; [reflexivity|].
  constructor; [apply veq_refl|]. constructor; [apply veq_refl|].
  constructor; [|constructor; [apply veq_refl|constructor]].
  apply veq_VSome. eexists. split; [reflexivity|]. apply veq_perm. apply perm_swap.
Qed.

Example ex_roundtrip :
  deser 32 ex_ty (canon (tree_of ex_val)) = Some ex_val /\
  deser 64 ex_ty (canon (tree_of ex_val')) = Some ex_val' /\
  serialize 64 true ex_val =
    (WOk, (WR_Ok, [0x94; 0xc0; 0x80; 0x82; 0xa1; 97; 0x90; 0xa2; 98; 99; 0x93; 0xfb; 0xce; 0; 1; 17; 112;
                   0xce; 127; 255; 255; 255; 0x81; 0xa0; 0x91; 0xd2; 128; 0; 0; 0])) /\
  enc (canon (tree_of ex_val)) = snd (snd (serialize 32 false ex_val)) /\
  snd (snd (serialize 32 false ex_val')) <> snd (snd (serialize 32 false ex_val)).
Proof. do 4 (split; [vm_compute; reflexivity|]). vm_compute. discriminate. Qed.

(** the instances of the theorems *)
Example ex_instance :
  (exists c w, ser_run 32 false (ser ex_val') init = (c, WOk) /\ finalize c = (WR_Ok, enc w) /\
               wf w = true /\ no_nan w = true /\ enc w = enc_tree (json_of ex_val') /\
               deser 32 ex_ty w = Some ex_val').
Proof.
  destruct ex_hyps as (_ & H2 & H3 & H4 & _ & H6 & _).
  apply (C09_pipeline 32 false ex_val ex_val' ex_ty); auto.
Qed.

(** read side only: a tuple, a fixed-size array, other integer types, a float read from an integer,
    a later duplicate key overwriting an earlier one *)
Example ex_read_side :
  deser 64 (TTuple [TI32; TStr; TOpt TBool])
    (WArr L16 [WF32 0x40400000; WStr Str8 [104; 105]; WNil])
    = Some (VTuple [VI32 3; VStr [104; 105]; VNone]) /\
  deser 32 (TArr 2 (TInt IntDeser.U8)) (WArr LFix [WInt Wire.U64 255; WF64 0x4000000000000000])
    = Some (VVec [VInt 255; VInt 2]) /\
  deser 64 TF64 (WInt PFix 3) = Some (VF64 0x4008000000000000) /\
  deser 64 (TMap TI32) (WMap LFix [(WStr FixStr [1], WInt PFix 3); (WStr FixStr [2], WInt PFix 4);
                                   (WStr FixStr [1], WInt PFix 5)])
    = Some (VMap [([1], VI32 5); ([2], VI32 4)]).
Proof. vm_compute. repeat split; reflexivity. Qed.

(** mismatching (document, type) pairs are rejected, and [matches] says why *)
Definition ex_bad : list (ty * wire) :=
  [ (TI32, WStr FixStr [49]);                              (* "1" is not a number *)
    (TI32, WF64 0x3FF8000000000000);                       (* 1.5 *)
    (TI32, WInt Wire.U32 2147483648);                      (* i32::MAX + 1 *)
    (TInt IntDeser.U8, WInt NFix (-1));
    (TBool, WInt PFix 1); (TBool, WNil); (TUnit, WBool false); (TStr, WInt PFix 0);
    (TF64, WStr FixStr [49]); (TF64, WNil);
    (TVec TI32, WMap LFix []); (TMap TI32, WArr LFix []);
    (TVec TI32, WArr LFix [WInt PFix 1; WNil]);
    (TOpt TI32, WStr FixStr []);
    (TTuple [TI32; TI32], WArr LFix [WInt PFix 1]);
    (TTuple [TI32; TI32], WArr LFix [WInt PFix 1; WInt PFix 2; WInt PFix 3]);
    (TArr 3 TI32, WArr LFix [WInt PFix 1; WInt PFix 2]);
    (TMap (TVec TI32), WMap LFix [(WStr FixStr [97], WArr LFix [WStr FixStr []])]);
    (ex_ty, WArr LFix [WMap LFix [(WStr FixStr [97], WArr LFix [WF64 0x3FE0000000000000])]]) ].

Example ex_mismatch :
  forallb (fun p => wf (snd p) && known_free 64 (fst p) (snd p) && negb (matches 64 (fst p) (snd p))
                    && match deser 64 (fst p) (snd p) with None => true | Some _ => false end
                    && match deser 32 (fst p) (snd p) with None => true | Some _ => false end) ex_bad = true.
Proof. vm_compute. reflexivity. Qed.

Example ex_reject_instance : deser 64 ex_ty (WArr LFix [WMap LFix [(WStr FixStr [97], WArr LFix [WF64 0x3FE0000000000000])]]) = None.
Proof. apply C09_reject; [right; reflexivity|vm_compute; reflexivity..]. Qed.

Example ex_match_instance :
  exists v, deser 64 ex_ty (WArr L32 [WNil; WMap L16 [(WStr Str16 [97], WArr LFix [WF32 0x40400000; WInt Wire.I64 (-7)])]]) = Some v.
Proof. apply C09_match; [right; reflexivity|vm_compute; reflexivity..]. Qed.

(** through the ABI calls: 18 calls (1 root fetch, 11 get_at_index, 3 get_obj_key_at_index, 3 string
    reads) on the written bytes, and the lazy reader model returns the same outputs *)
Example ex_via_calls :
  let w := canon (tree_of ex_val) in
  fst (deser_root 32 w ex_ty) = Some ex_val /\
  exists ops, fst (snd (deser_root 32 w ex_ty)) = spec_run w (RRoot :: ops) /\
              outs (ReadRun.run 32 true (fuel_for w (RRoot :: ops)) (enc w) (RRoot :: ops)) = spec_run w (RRoot :: ops) /\
              length ops = 17%nat.
Proof.
  split; [vm_compute; reflexivity|].
  exists [RIdx (Some 0) 0; RIdx (Some 0) 1; RIdx (Some 0) 2; RKey (Some 3) 0; RStr (Some 4); RIdx (Some 3) 0;
          RKey (Some 3) 1; RStr (Some 7); RIdx (Some 3) 1; RIdx (Some 9) 0; RIdx (Some 9) 1; RIdx (Some 9) 2;
          RIdx (Some 0) 3; RKey (Some 13) 0; RStr (Some 14); RIdx (Some 13) 0; RIdx (Some 16) 0].
  vm_compute. repeat split; reflexivity.
Qed.

Example ex_end_to_end :
  exists c bytes w,
    ser_run 32 false (ser ex_val') init = (c, WOk) /\ finalize c = (WR_Ok, bytes) /\
    bytes = enc_tree (json_of ex_val') /\ bytes = enc w /\
    exists ops, fst (deser_root 32 w ex_ty) = Some ex_val' /\
                fst (snd (deser_root 32 w ex_ty))
                = outs (ReadRun.run 32 true (fuel_for w (RRoot :: ops)) bytes (RRoot :: ops)).
Proof.
  destruct ex_hyps as (_ & H2 & H3 & H4 & _ & H6 & _).
  destruct (C09_end_to_end 32 false true ex_val ex_val' ex_ty) as (c & bytes & w & A & B & C & D & E); auto.
  exists c, bytes, w. repeat split; try assumption. apply E. rewrite C. vm_compute. reflexivity.
Qed.
