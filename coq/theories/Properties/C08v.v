(** Property C08, functional half (values on ARBITRARY input bytes): final statements.

    For every input made of bytes that fits the pointer width -- truncated, corrupted, random --
    every pointer width, both overflow modes and EVERY finite sequence of read calls (any scope
    arguments: earlier answers of any kind, stale / revisited / sibling handles, error values,
    dangling indices, undecodable values; calls after failed calls), the model of the lazy reader
    returns EXACTLY the outputs of [seq_run], a sequential MessagePack decoder with no state that
    computes each answer from the bytes and the position asked for alone ([Read/SeqSpec.v]).
    Hence: no answer depends on the visiting history, repeating a call repeats the answer, a failed
    call changes no later answer, no panic / out-of-fuel / stray string.

    [seq_run] mirrors ONE deviation of the reader from the most natural sequential decoder
    ([nat_exec], [strict = false]): the reader decodes a map pair as a unit (key, which must be a
    string, then the HEADER of its value); so the KEY of pair [i] (get_obj_key_at_index) is a
    ReadError when the header of VALUE [i] is damaged, and a by-name lookup that reaches the last
    pair without a match is a ReadError when that last value's header is damaged
    ([C08_key_needs_value_header]: a finding, allowed by the property: "... or an error value").
    [C08_value_sound] / [C08_never_fabricates]: whenever an answer is not an error value it IS the
    natural decoder's answer -- the reader never fabricates a value. *)
From Coq Require Import NArith ZArith List Bool.
From SFV Require Import Base.Bytes Msgpack.Wire Read.Lazy Read.ReadRun Read.ReadSpec Read.ReadSafe
  Read.SeqSpec Read.SeqProofs Read.SeqNat Read.SeqCorollaries Read.SeqWidth.
From SFV Require Import Read.GenRun Read.GenRunEq.
Import ListNotations.
Open Scope N_scope.

Theorem C08_value : forall W trap bs ops, lenN bs < 2 ^ W -> Forall (fun b => b < 256) bs ->
  outs (run W trap (fuel_bs bs) bs ops) = seq_run W trap bs ops.
Proof. exact SeqProofs.C08_value. Qed.
Print Assumptions C08_value.

(** the answer of call [op] made after the history [ops] is a function of the bytes, the VALUE of
    its scope argument and (for a root fetch only, to number the new handle) the number of roots *)
Theorem C08_answer : forall W trap bs, lenN bs < 2 ^ W -> Forall (fun b => b < 256) bs -> forall ops op,
  answer_after W trap bs ops op =
  seq_exec W trap bs true (seq_fuel bs) (outs (run W trap (fuel_bs bs) bs ops)) (nroots ops) op.
Proof. exact SeqCorollaries.answer_after_seq. Qed.
Print Assumptions C08_answer.

Theorem C08_repeat : forall W trap bs, lenN bs < 2 ^ W -> Forall (fun b => b < 256) bs -> forall ops1 ops2 op,
  sscope (outs (run W trap (fuel_bs bs) bs ops1)) (op_scope op) =
  sscope (outs (run W trap (fuel_bs bs) bs ops2)) (op_scope op) ->
  (is_root op = true -> nroots ops1 = nroots ops2) ->
  answer_after W trap bs ops1 op = answer_after W trap bs ops2 op.
Proof. exact SeqCorollaries.C08_repeat. Qed.
Print Assumptions C08_repeat.

Theorem C08_repeat_twice : forall W trap bs, lenN bs < 2 ^ W -> Forall (fun b => b < 256) bs -> forall ops op,
  is_root op = false -> (forall j, op_scope op = Some j -> j < lenN ops) ->
  answer_after W trap bs (ops ++ [op]) op = answer_after W trap bs ops op.
Proof. exact SeqCorollaries.C08_repeat_twice. Qed.
Print Assumptions C08_repeat_twice.

(** never a fabricated value *)
Theorem C08_value_sound : forall W trap bs, lenN bs < 2 ^ W -> Forall (fun b => b < 256) bs -> forall ops op,
  informative (answer_after W trap bs ops op) = true ->
  answer_after W trap bs ops op = nat_exec W trap bs (outs (run W trap (fuel_bs bs) bs ops)) (nroots ops) op.
Proof. exact SeqCorollaries.C08_value_sound. Qed.
Print Assumptions C08_value_sound.

Theorem C08_value_sound_nth : forall W trap bs, lenN bs < 2 ^ W -> Forall (fun b => b < 256) bs -> forall ops k op o,
  nth_error ops k = Some op ->
  nth_error (outs (run W trap (fuel_bs bs) bs ops)) k = Some o -> informative o = true ->
  o = nat_exec W trap bs (firstn k (outs (run W trap (fuel_bs bs) bs ops))) (nroots (firstn k ops)) op.
Proof. exact SeqCorollaries.C08_value_sound_nth. Qed.
Print Assumptions C08_value_sound_nth.

Theorem C08_never_fabricates : forall W trap bs, lenN bs < 2 ^ W -> Forall (fun b => b < 256) bs -> forall ops op,
  let o := answer_after W trap bs ops op in
  o = nat_exec W trap bs (outs (run W trap (fuel_bs bs) bs ops)) (nroots ops) op \/
  (exists c, o = OVal (AErr c)) \/ o = OLen None \/ o = OBytes None.
Proof. exact SeqCorollaries.C08_never_fabricates. Qed.
Print Assumptions C08_never_fabricates.

(** the strict decoder refines the natural one call by call (no hypothesis on the bytes) *)
Theorem C08_strict_refines_natural : forall W trap bs f prev k op,
  informative (seq_exec W trap bs true f prev k op) = true ->
  seq_exec W trap bs false f prev k op = seq_exec W trap bs true f prev k op.
Proof. exact SeqNat.seq_exec_nat. Qed.
Print Assumptions C08_strict_refines_natural.

(** C01 is the special case: on a well-formed document the sequential decoder on the bytes is the eager spec on the tree *)
Theorem C08_value_wellformed : forall W trap w ops, wf w = true -> no_nan w = true -> lenN (enc w) < 2 ^ W ->
  refs_ok ops = true -> seq_run W trap (enc w) ops = spec_run w ops.
Proof. exact SeqCorollaries.C08_value_wellformed. Qed.
Print Assumptions C08_value_wellformed.

(** the pointer width and the overflow mode are irrelevant once the input fits the pointer width *)
Theorem C08_width_irrelevant : forall W W' trap trap' bs ops, lenN bs < 2 ^ W -> lenN bs < 2 ^ W' ->
  seq_run W trap bs ops = seq_run W' trap' bs ops.
Proof. exact SeqWidth.seq_run_width. Qed.
Print Assumptions C08_width_irrelevant.

Theorem C08_run_width_irrelevant : forall W W' trap trap' bs ops, lenN bs < 2 ^ W -> lenN bs < 2 ^ W' ->
  Forall (fun b => b < 256) bs ->
  outs (run W trap (fuel_bs bs) bs ops) = outs (run W' trap' (fuel_bs bs) bs ops).
Proof. exact SeqWidth.run_width. Qed.
Print Assumptions C08_run_width_irrelevant.

(** * Finding: the key of a pair is unreadable when the header of its value is damaged *)
Example C08_key_needs_value_header :
  let bs := [0x81; 0xa1; 0x61; 0xc1] in                  (* {"a": <invalid marker c1>} *)
  lenN bs < 2 ^ 32 /\ Forall (fun b => b < 256) bs /\
  outs (run 32 true (fuel_bs bs) bs [RRoot; RKey (Some 0) 0]) = [OVal (AObj (0, []) 1); OVal (AErr E_Read)] /\
  nat_exec 32 true bs [OVal (AObj (0, []) 1)] 1 (RKey (Some 0) 0) = OVal (AStr (0, [SKey 0]) 1).
Proof. cbv zeta. split; [vm_compute; reflexivity|]. split; [repeat constructor|]. split; vm_compute; reflexivity. Qed.

(** ... and a by-name lookup answers null without looking inside the LAST value (nothing follows it) *)
Example C08_last_value_not_skipped :
  let bs := [0x81; 0xa1; 0x61; 0x91] in                  (* {"a": [<truncated>]} *)
  outs (run 32 true (fuel_bs bs) bs [RRoot; RProp (Some 0) [0x62]; RProp (Some 0) [0x61]; RIdx (Some 2) 0])
  = [OVal (AObj (0, []) 1); OVal ANull; OVal (AArr (0, [SVal 0]) 1); OVal (AErr E_Read)].
Proof. vm_compute. reflexivity. Qed.

(** * Examples: values before the damage, errors after, unchanged by failed calls *)
(** {"a": [1, 2], "b": "hi"} cut after the 1 *)
Definition ex_truncated : list N := [0x82; 0xa1; 0x61; 0x92; 0x01].
Definition ex_ops : list rop :=
  [RRoot; RProp (Some 0) [0x61]; RIdx (Some 1) 0; RIdx (Some 1) 1; RProp (Some 0) [0x62];
   RIdx (Some 1) 0; RKey (Some 0) 0; RStr (Some 6); RKey (Some 0) 1; RIdx (Some 1) 1; RLen (Some 1)].

Example C08_example_truncated :
  lenN ex_truncated < 2 ^ 32 /\ Forall (fun b => b < 256) ex_truncated /\
  outs (run 32 true (fuel_bs ex_truncated) ex_truncated ex_ops) =
  [OVal (AObj (0, []) 2); OVal (AArr (0, [SVal 0]) 2); OVal (ANum 0x3ff0000000000000); OVal (AErr E_Read);
   OVal (AErr E_Read); OVal (ANum 0x3ff0000000000000); OVal (AStr (0, [SKey 0]) 1); OBytes (Some [0x61]);
   OVal (AErr E_Read); OVal (AErr E_Read); OLen (Some 2)].
Proof. split; [vm_compute; reflexivity|]. split; [repeat constructor|vm_compute; reflexivity]. Qed.

Example C08_example_truncated_instance :
  outs (run 32 true (fuel_bs ex_truncated) ex_truncated ex_ops) = seq_run 32 true ex_truncated ex_ops.
Proof. apply C08_value; [vm_compute; reflexivity|repeat constructor]. Qed.

(** {"a": [<invalid marker c1>], "b": 2} *)
Definition ex_corrupted : list N := [0x82; 0xa1; 0x61; 0x91; 0xc1; 0xa1; 0x62; 0x02].
Definition ex_ops2 : list rop :=
  [RRoot; RKey (Some 0) 0; RIdx (Some 0) 0; RIdx (Some 2) 0; RProp (Some 0) [0x62]; RKey (Some 0) 1;
   RIdx (Some 0) 1; RIdx (Some 2) 0; RProp (Some 0) [0x61]; RLen (Some 2)].

Example C08_example_corrupted :
  lenN ex_corrupted < 2 ^ 64 /\ Forall (fun b => b < 256) ex_corrupted /\
  outs (run 64 false (fuel_bs ex_corrupted) ex_corrupted ex_ops2) =
  [OVal (AObj (0, []) 2); OVal (AStr (0, [SKey 0]) 1); OVal (AArr (0, [SVal 0]) 1); OVal (AErr E_Read);
   OVal (AErr E_Read); OVal (AErr E_Read); OVal (AErr E_Read); OVal (AErr E_Read);
   OVal (AArr (0, [SVal 0]) 1); OLen (Some 1)] /\
  seq_run 64 false ex_corrupted ex_ops2 = outs (run 64 false (fuel_bs ex_corrupted) ex_corrupted ex_ops2).
Proof.
  split; [vm_compute; reflexivity|]. split; [repeat constructor|]. split; vm_compute; reflexivity.
Qed.

(** a non-string key, a huge declared length, random bytes *)
Example C08_example_misc :
  outs (run 32 true (fuel_bs [0x81; 0x01; 0x02]) [0x81; 0x01; 0x02] [RRoot; RIdx (Some 0) 0; RKey (Some 0) 0; RProp (Some 0) [1]])
  = [OVal (AObj (0, []) 1); OVal (AErr E_Read); OVal (AErr E_Read); OVal (AErr E_Read)] /\
  outs (run 32 true (fuel_bs [0xdd; 0xff; 0xff; 0xff; 0xff]) [0xdd; 0xff; 0xff; 0xff; 0xff]
         [RRoot; RIdx (Some 0) 0; RIdx (Some 0) 4294967294; RIdx (Some 0) 4294967295; RLen (Some 0)])
  = [OVal (AArr (0, []) 4294967295); OVal (AErr E_Read); OVal (AErr E_Read); OVal (AErr E_IndexOOB); OLen (Some 4294967295)] /\
  seq_run 32 true [0x93; 0xc1; 0x7f; 0xd9] [RRoot; RIdx (Some 0) 1; RIdx (Some 0) 0; RIdx (Some 0) 2; RRoot; RIdx (Some 4) 0]
  = outs (run 32 true (fuel_bs [0x93; 0xc1; 0x7f; 0xd9]) [0x93; 0xc1; 0x7f; 0xd9]
            [RRoot; RIdx (Some 0) 1; RIdx (Some 0) 0; RIdx (Some 0) 2; RRoot; RIdx (Some 4) 0]).
Proof. split; [vm_compute; reflexivity|]. split; vm_compute; reflexivity. Qed.

(** hypotheses of the property-level statements are satisfiable on a non-trivial input *)
Example C08_sound_instance :
  informative (answer_after 32 true ex_truncated (firstn 5 ex_ops) (RIdx (Some 1) 0)) = true /\
  answer_after 32 true ex_truncated (firstn 5 ex_ops) (RIdx (Some 1) 0) = OVal (ANum 0x3ff0000000000000) /\
  answer_after 32 true ex_truncated (firstn 2 ex_ops) (RIdx (Some 1) 0) = OVal (ANum 0x3ff0000000000000).
Proof. split; [vm_compute; reflexivity|]. split; vm_compute; reflexivity. Qed.

(** the well-formed corollary on the document of C01 *)
Example C08_wellformed_instance :
  let w := WMap LFix [(WStr FixStr [0x61], WArr LFix [WInt PFix 1%Z; WInt PFix 2%Z]); (WStr FixStr [0x62], WStr FixStr [0x68; 0x69])] in
  wf w = true /\ no_nan w = true /\ lenN (enc w) < 2 ^ 32 /\ refs_ok ex_ops = true /\
  seq_run 32 true (enc w) ex_ops = spec_run w ex_ops.
Proof. cbv zeta. repeat split; vm_compute; reflexivity. Qed.

(** * The same about the TRANSLATED reader (Read/GenRun.v: every node operation is the Rust function regenerated by T8)

    For every input of bytes that does not fill the address space -- truncated, corrupted, random -- and every call sequence,
    the translated code returns exactly the answers of the stateless sequential decoder [seq_run]: no wrong value, no panic,
    no stray string, the same answer when a call is repeated, on the code as translated and not only on its model. *)
Theorem C08_code_value : forall W trap bs ops,
  Forall (fun b => b < 256) bs -> lenN bs + 9 < 2 ^ W -> 32 <= W ->
  gouts (g_run W trap bs ops) = seq_run W trap bs ops.
Proof.
  intros W trap bs ops Hb HW H32.
  destruct (gen_run_eq W trap bs ops Hb HW H32) as [E _]. rewrite E.
  apply SeqProofs.C08_value; [|exact Hb].
  apply N.le_lt_trans with (lenN bs + 9); [apply N.le_add_r|exact HW].
Qed.
Print Assumptions C08_code_value.

Theorem C08_code_no_panic : forall W trap bs ops,
  Forall (fun b => b < 256) bs -> lenN bs + 9 < 2 ^ W -> 32 <= W ->
  forallb no_bad (gouts (g_run W trap bs ops)) = true.
Proof.
  intros W trap bs ops Hb HW H32.
  destruct (gen_run_eq W trap bs ops Hb HW H32) as [E _]. rewrite E.
  apply ReadRobust.C08_nopanic; [|exact Hb].
  apply N.le_lt_trans with (lenN bs + 9); [apply N.le_add_r|exact HW].
Qed.
Print Assumptions C08_code_no_panic.
