(** C02 -- A completed output document is exactly the value that was written.

    Scope: as C03 ([reach], guard [op_guard W], valid interned ids) plus the ABI's value ranges
    [op_wf]: i32 in [-2^31, 2^31), f64 bit patterns below 2^64, string bytes below 256 and
    string / declared lengths below 2^32 (interned strings included). *)
From Coq Require Import NArith ZArith List Bool.
From SFV Require Import Base.Bytes Msgpack.Tree Msgpack.TreeProofs Gen.CodesGen Write.Writer Write.WSpec
  Write.Grammar Write.WGuard Write.WriteProofs Write.GrammarProofs.
Import ListNotations.
Open Scope N_scope.

(** Whenever the writer reports the output complete there is exactly one tree [t] whose token
    sequence is the accepted calls in call order; the output is its canonical encoding, is
    well-formed, and the general decoder reads back precisely [t], consuming every byte. *)
Theorem C02 : forall W trap c s tk,
  reach W trap (op_ok_wf W) c s tk -> wstate c = End ->
  exists! t,
    tk = tokens t /\ root s = Some t /\ out c = enc_tree t /\ wf_tree t = true /\
    dec_tree (S (length (out c))) (out c) 0 = Some (t, lenN (out c)) /\
    finalize c = (WR_Ok, out c).
Proof.
  intros W trap c s tk H HE.
  destruct (WriteProofs.C03_complete W trap _ (fun _ _ H => proj1 H) c s tk H) as (E & F & _).
  destruct (C02_main W trap c s tk H (proj1 E HE)) as (t & A & B & C & D & G).
  exists t. split; [repeat split; auto; apply F, E, HE|].
  intros t' (G' & _). apply tokens_inj. congruence.
Qed.

(** The output depends on the accepted calls only: no byte of a rejected call appears in it. *)
Theorem C02_accepted_only : forall W trap c1 s1 c2 s2 tk,
  reach W trap (op_ok_wf W) c1 s1 tk -> reach W trap (op_ok_wf W) c2 s2 tk ->
  wstate c1 = End -> wstate c2 = End -> out c1 = out c2.
Proof.
  intros W trap c1 s1 c2 s2 tk H1 H2 E1 E2.
  destruct (C02 W trap c1 s1 tk H1 E1) as (t1 & (T1 & _ & O1 & _) & _).
  destruct (C02 W trap c2 s2 tk H2 E2) as (t2 & (T2 & _ & O2 & _) & _).
  rewrite O1, O2. f_equal. apply tokens_inj. congruence.
Qed.

(** The round trip of the encoding, for every well-formed tree, anywhere in a buffer. *)
Theorem C02_dec_enc : forall t pre post fuel,
  wf_tree t = true -> (length (enc_tree t) <= fuel)%nat ->
  dec_tree fuel (pre ++ enc_tree t ++ post) (lenN pre) = Some (t, lenN pre + lenN (enc_tree t)).
Proof. exact dec_enc. Qed.

(** Finding F8 (repaired, see C03_w32_former_witness_repaired): at W = 32 a map header announcing 2^31
    pairs and nothing else used to be reported complete.  On the repaired code the writer is NOT in End
    after the former witness and finalisation refuses, in both overflow modes. *)
Theorem C02_w32_former_witness_repaired :
  exists ops,
    Forall (len_below (2 ^ 32)) ops /\
    (forall trap, let c := fst (run 32 trap ops) in
       wstate c <> End /\ fst (finalize c) = WR_ValueNotFinished).
Proof.
  exists [OStartObj (2 ^ 31); OFinObj].
  split; [repeat constructor|].
  intros [|]; vm_compute; (split; [discriminate|reflexivity]).
Qed.

(** * Non-vacuity *)

Definition ex_acts : list act :=
  [ AIntern [107; 49];
    AOp OFinArr;                 (* rejected *)
    AOp (OStartObj 2);
    AOp ONull;                   (* rejected *)
    AOp (OIStr 0);
    AOp (OStartArr 3);
    AOp (OI32 (-5));
    AOp (OF64 (2 ^ 63));
    AOp OFinArr;                 (* rejected *)
    AOp (OBool 7);
    AOp (OBool 0);               (* rejected *)
    AOp OFinArr;
    AOp OFinObj;                 (* rejected *)
    AOp (OStr [107; 50]);
    AOp (OStartObj 0);
    AOp OFinObj;
    AOp (OStr [1]);              (* rejected *)
    AOp OFinObj;
    AOp ONull ].                 (* rejected *)

Definition ex_tree : tree :=
  TObj [ ([107; 49], TArr [TInt (-5); TF64 (2 ^ 63); TBool true]); ([107; 50], TObj []) ].

Example ex_C02 :
  exists c s tk,
    reach 64 true (op_ok_wf 64) c s tk /\ wstate c = End /\
    tk = tokens ex_tree /\ root s = Some ex_tree /\
    out c = [0x82; 0xa2; 107; 49; 0x93; 0xfb; 0xcb; 0x80; 0; 0; 0; 0; 0; 0; 0; 0xc3;
             0xa2; 107; 50; 0x80] /\
    dec_tree (S (length (out c))) (out c) 0 = Some (ex_tree, 20).
Proof.
  pose proof (exec_reach_init 64 true true ex_acts eq_refl) as H.
  destruct (exec 64 true ex_acts) as [[c s] tk] eqn:E. vm_compute in E.
  injection E as <- <- <-. do 3 eexists. split; [exact H|].
  vm_compute. repeat split; reflexivity.
Qed.

(** The decoder also reads non-canonical encodings (what the test driver relies on). *)
Example ex_dec_noncanonical :
  dec_doc [0xdf; 0; 0; 0; 1; 0xdb; 0; 0; 0; 1; 65;
           0xdd; 0; 0; 0; 4; 0xd3; 255; 255; 255; 255; 255; 255; 255; 254;
           0xcf; 255; 255; 255; 255; 255; 255; 255; 254; 0xca; 0x3f; 0x80; 0; 0; 0xd9; 1; 66]
  = Some (TObj [([65], TArr [TInt (-2); TInt 18446744073709551614; TF64 4607182418800017408; TStr [66]])])
  /\ dec_doc [0xc1] = None /\ dec_doc [0xc4; 0] = None /\ dec_doc [0x81; 1; 2] = None
  /\ dec_doc [0xa2; 0] = None /\ dec_doc [0xc0; 0xc0] = None.
Proof. vm_compute. repeat split; reflexivity. Qed.
