(** C15 - all descriptions of the ABI agree: names, signatures, module name, codes. *)
From Coq Require Import Bool.
From SFV Require Import Abi.AbiTypes Abi.Abi.

Theorem C15_names_and_signatures : names_and_signatures = true.
Proof. vm_compute. reflexivity. Qed.
Theorem C15_module_names : module_names = true.
Proof. vm_compute. reflexivity. Qed.
Theorem C15_emitted_imports_exist : emitted_imports_exist = true.
Proof. vm_compute. reflexivity. Qed.
Theorem C15_trampoline_guards : trampoline_guards = true.
Proof. vm_compute. reflexivity. Qed.
Theorem C15_code_tables : code_tables = true.
Proof. vm_compute. reflexivity. Qed.
Theorem C15 : abi_consistent = true.
Proof. vm_compute. reflexivity. Qed.
