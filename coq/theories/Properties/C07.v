(** C07 -- trampolining preserves the guest, is idempotent, refuses what it cannot handle.
    Statements over the rewrite model (Tramp/Rewrite.v) instantiated with the regenerated tables
    ([tool = apply the_cfg], Tramp/RewriteInst.v) against the declarative specification
    (Tramp/RewriteSpec.v, stated on the PUBLIC description of the ABI in Gen/AbiGen.v).
    Proofs: Tramp/RewriteLists.v, RewriteWfProofs.v, RewriteOnce.v, RewriteProofs.v (generic in the
    tables, for any [cfg] with [cfg_ok C = true]), RewriteInstProofs.v (the generated tables).
    The model does not include the final wasmparser validation of the emitted module. *)
From Coq Require Import NArith List String Bool.
From SFV Require Import Abi.AbiTypes Tramp.RewriteTypes Tramp.Rewrite Tramp.RewriteSpec Tramp.RewriteInst Gen.AbiGen
  Tramp.RewriteWf Tramp.RewriteWfProofs Tramp.RewriteProofs Tramp.RewriteInstProofs.
Import ListNotations.
Open Scope string_scope.
Open Scope list_scope.
Open Scope N_scope.

(** ---- 1. the memory test *)
Theorem C07_no_own_memory : forall (C : cfg) (m : module), own_mems m = [] -> apply C m = Ok m.
Proof. intros C m H. unfold apply. rewrite H. reflexivity. Qed.

Theorem C07_several_memories : forall (C : cfg) (m : module) a b r, own_mems m = a :: b :: r -> apply C m = Err EMultiMem.
Proof. intros C m a b r H. unfold apply. rewrite H. reflexivity. Qed.

(** ---- 0. the tables of the tool: conditions of the generic proofs, agreement with the public ABI *)
Theorem C07_tables_ok : cfg_ok the_cfg = true /\ cfg_stable the_cfg = true.
Proof. split; [exact the_cfg_ok | exact the_cfg_stable]. Qed.

Theorem C07_tables_agree :
  c_provider the_cfg = AbiGen.wat_module /\ c_prefix the_cfg = spec_prefix /\
  (forall n, known_name the_cfg n = mem n (names AbiGen.wat_table) || mem n lowlevel) /\
  (forall n, mem n (origs the_cfg) = mem n (names AbiGen.wat_table)) /\
  (forall n, mem n (map s_orig (c_specs the_cfg)) = mem n string_carrying) /\
  (forall k nw, lookup k (c_imports the_cfg) = Some nw ->
     match spec_for the_cfg k with
     | Some sp => mem k string_carrying = true /\ lookup k AbiGen.wat_table = Some (s_params sp, s_results sp)
     | None => mem k string_carrying = false /\ nw = String.append "_" k
     end).
Proof.
  exact (conj provider_agrees (conj prefix_agrees (conj known_agrees (conj origs_agree (conj specs_agree entry_fact))))).
Qed.

(** well-formedness is decidable ([wf_module m] is [wf_module_b m = true]), means what it should, and is kept *)
Theorem C07_wf_meaning : forall m, wf_module m <-> wfP m.
Proof. exact wf_module_iff. Qed.

Theorem C07_wf_preserved : forall m m', wf_module m -> tool m = Ok m' -> wf_module m'.
Proof. exact L_wf_preserved. Qed.

(** ---- 2./3./4. refusals *)
Theorem C07_unknown_name_rejected : forall m,
  List.length (own_mems m) = 1%nat ->
  existsb (unknown_name AbiGen.wat_module AbiGen.wat_table lowlevel) (imports m) = true -> exists e, tool m = Err e.
Proof. exact L_unknown_name_rejected. Qed.

Theorem C07_other_version_rejected : forall m,
  List.length (own_mems m) = 1%nat ->
  existsb (other_version AbiGen.wat_module spec_prefix) (imports m) = true -> exists e, tool m = Err e.
Proof. exact L_other_version_rejected. Qed.

Theorem C07_bad_signature_rejected : forall m,
  wf_module m -> List.length (own_mems m) = 1%nat ->
  existsb (bad_string_sig AbiGen.wat_module AbiGen.wat_table m) (imports m) = true -> exists e, tool m = Err e.
Proof. exact L_bad_signature_rejected. Qed.

(** ---- 5. accept / refuse exactly as the specification says *)
Theorem C07_verdict : forall m,
  wf_module m ->
  match spec m with
  | VUnchanged => tool m = Ok m
  | VReject => exists e, tool m = Err e
  | VAccept => exists m', tool m = Ok m'
  | VEither => True
  end.
Proof. exact L_verdict. Qed.

(** ---- 6. what is left alone *)
Theorem C07_preserves : forall m m',
  wf_module m -> tool m = Ok m' ->
  rest m' = rest m /\ own_mems m' = own_mems m /\
  filter (fun f => match f_kind f with FOwn => true | _ => false end) (funcs m') =
  filter (fun f => match f_kind f with FOwn => true | _ => false end) (funcs m) /\
  (forall f, In f (funcs m) -> exists f', In f' (funcs m') /\ f_id f' = f_id f /\ f_sig f' = f_sig f) /\
  filter (fun i => negb (String.eqb (i_mod i) AbiGen.wat_module)) (imports m') =
  filter (fun i => negb (String.eqb (i_mod i) AbiGen.wat_module)) (imports m).
Proof. exact L_preserves. Qed.

(** ---- 7. the import section afterwards *)
Theorem C07_imports_as_prescribed : forall m m',
  wf_module m -> spec m = VAccept -> tool m = Ok m' ->
  exists added, imports m' = spec_imports m ++ added /\
                Forall (fun i => i_mod i = AbiGen.wat_module /\ In (i_name i) lowlevel) added.
Proof. exact L_imports_as_prescribed. Qed.

(** ... the same for every successful run on a module with a memory (also when the verdict is VEither) *)
Theorem C07_imports_as_prescribed_any : forall m m',
  wf_module m -> own_mems m <> [] -> tool m = Ok m' ->
  exists added, imports m' = spec_imports m ++ added /\
                Forall (fun i => i_mod i = AbiGen.wat_module /\ In (i_name i) lowlevel) added.
Proof. exact L_imports_general. Qed.

(** ---- 8. no function import is left under a public API name *)
Theorem C07_fully_trampolined : forall m m',
  wf_module m -> own_mems m <> [] -> tool m = Ok m' ->
  forall i, In i (imports m') -> i_mod i = AbiGen.wat_module -> is_func i = true ->
            mem (i_name i) (names AbiGen.wat_table) = false.
Proof. exact L_fully_trampolined. Qed.

(** ---- 9. idempotence, outside the recorded finding F13 (an API name imported as a non-function) *)
Theorem C07_idempotent : forall m m',
  wf_module m -> existsb (kind_mismatch AbiGen.wat_module AbiGen.wat_table) (imports m) = false ->
  tool m = Ok m' -> tool m' = Ok m'.
Proof. exact L_idempotent. Qed.

(** ---- the same, generic in the tables: for ANY tables with [cfg_ok C = true] (and, for idempotence,
    [cfg_stable C = true]); [foreign C i] = "i is not in the provider namespace", [pres] = rest, own
    memories, own functions and every function id with its type are kept (Tramp/RewriteWf.v) *)
Theorem C07_generic_wf_preserved : forall C, cfg_ok C = true ->
  forall m m', wfP m -> apply C m = Ok m' -> wfP m'.
Proof. exact apply_wf. Qed.

Theorem C07_generic_preserves : forall C, cfg_ok C = true ->
  forall m m', wfP m -> apply C m = Ok m' ->
  pres m m' /\ filter (foreign C) (imports m') = filter (foreign C) (imports m).
Proof. exact apply_pres. Qed.

Theorem C07_generic_shape : forall C, cfg_ok C = true ->
  forall m m', wfP m -> apply C m = Ok m' ->
  (own_mems m = [] /\ m' = m) \/
  (exists x ai, own_mems m = [x] /\ existsb (unexpected C) (imports m) = false /\ existsb (unsupported C) (imports m) = false /\
     imports m' = flat_map (t_all C (c_imports C)) (imports m) ++ ai /\ Forall (addable C) ai /\ wfP m' /\ pres m m').
Proof. exact apply_shape. Qed.

Theorem C07_generic_fully_trampolined : forall C, cfg_ok C = true ->
  forall m m', wfP m -> own_mems m <> [] -> apply C m = Ok m' ->
  forall i, In i (imports m') -> i_mod i = c_provider C -> is_func i = true -> ~ In (i_name i) (origs C).
Proof. exact apply_trampolined. Qed.

Theorem C07_generic_bad_signature : forall C, cfg_ok C = true ->
  forall m x i sp, wfP m -> own_mems m = [x] -> In i (imports m) -> i_mod i = c_provider C -> is_func i = true ->
  In (i_name i) (origs C) -> spec_for C (i_name i) = Some sp -> good_sig_b sp m i = false -> exists e, apply C m = Err e.
Proof. exact apply_bad_sig. Qed.

Theorem C07_generic_accepts : forall C, cfg_ok C = true ->
  forall m x, wfP m -> own_mems m = [x] -> existsb (unexpected C) (imports m) = false ->
  existsb (unsupported C) (imports m) = false -> ready_b C m = true -> exists m', apply C m = Ok m'.
Proof. exact apply_accepts. Qed.

Theorem C07_generic_idempotent : forall C, cfg_ok C = true -> cfg_stable C = true ->
  forall m m', wfP m -> no_kind_mismatch_b C (imports m) = true -> apply C m = Ok m' -> apply C m' = Ok m'.
Proof. exact apply_idem. Qed.

(** ==== examples: the hypotheses are satisfiable *)
Definition imp (md n : string) (k : ikind) : import := {| i_mod := md; i_name := n; i_kind := k |}.
Definition fn (id : N) (s : sig) (k : fkind) : func := {| f_id := id; f_sig := s; f_kind := k |}.
Definition API : string := AbiGen.wat_module.

(** a guest with a foreign function import, a foreign global, scalar API imports (one of them twice),
    string-carrying API imports (one of them twice), two functions of its own, one memory *)
Definition ex_m : module :=
  {| imports := [imp "env" "host_fn" (KFunc 0);
                 imp API "shopify_function_input_get" (KFunc 1);
                 imp API "shopify_function_input_read_utf8_str" (KFunc 2);
                 imp API "shopify_function_input_get" (KFunc 3);
                 imp API "shopify_function_output_new_utf8_str" (KFunc 4);
                 imp API "shopify_function_input_get_obj_prop" (KFunc 5);
                 imp "env" "g" (KOther 0);
                 imp API "shopify_function_input_read_utf8_str" (KFunc 6)];
     funcs := [fn 0 ([TI32], []) FImported; fn 1 ([], [TI64]) FImported; fn 2 ([TI32; TI32; TI32], []) FImported;
               fn 3 ([], [TI64]) FImported; fn 4 ([TI32; TI32], [TI32]) FImported; fn 5 ([TI64; TI32; TI32], [TI64]) FImported;
               fn 6 ([TI32; TI32; TI32], []) FImported; fn 7 ([], []) FOwn; fn 8 ([TI32], [TI32]) FOwn];
     mems := [{| m_id := 0; m_imported := false |}]; next_func := 9; next_mem := 1; rest := 42 |}.

Example C07_ex_accepted :
  wf_module ex_m /\ List.length (own_mems ex_m) = 1%nat /\ own_mems ex_m <> [] /\ spec ex_m = VAccept /\
  existsb (kind_mismatch AbiGen.wat_module AbiGen.wat_table) (imports ex_m) = false /\
  exists m', tool ex_m = Ok m' /\
    imports m' =
      [imp "env" "host_fn" (KFunc 0); imp API "_shopify_function_input_get" (KFunc 1);
       imp API "_shopify_function_input_get" (KFunc 3); imp "env" "g" (KOther 0)] ++
      [imp API "_shopify_function_input_get_utf8_str_addr" (KFunc 9); imp API "memory" (KMem 1);
       imp API "_shopify_function_input_get_utf8_str_addr" (KFunc 11); imp API "_shopify_function_input_get_obj_prop" (KFunc 12);
       imp API "_shopify_function_alloc" (KFunc 13); imp API "_shopify_function_output_new_utf8_str" (KFunc 16)] /\
    spec_imports ex_m =
      [imp "env" "host_fn" (KFunc 0); imp API "_shopify_function_input_get" (KFunc 1);
       imp API "_shopify_function_input_get" (KFunc 3); imp "env" "g" (KOther 0)] /\
    wf_module m' /\ tool m' = Ok m'.
Proof.
  split; [vm_compute; reflexivity|]. split; [vm_compute; reflexivity|]. split; [vm_compute; discriminate|].
  split; [vm_compute; reflexivity|]. split; [vm_compute; reflexivity|].
  eexists. split; [vm_compute; reflexivity|]. split; [vm_compute; reflexivity|]. split; [vm_compute; reflexivity|].
  split; vm_compute; reflexivity.
Qed.

(** the SECOND import of a string-carrying name has the wrong type *)
Definition ex_bad_sig : module :=
  {| imports := imports ex_m;
     funcs := [fn 0 ([TI32], []) FImported; fn 1 ([], [TI64]) FImported; fn 2 ([TI32; TI32; TI32], []) FImported;
               fn 3 ([], [TI64]) FImported; fn 4 ([TI32; TI32], [TI32]) FImported; fn 5 ([TI64; TI32; TI32], [TI64]) FImported;
               fn 6 ([TI32; TI64; TI32], []) FImported; fn 7 ([], []) FOwn; fn 8 ([TI32], [TI32]) FOwn];
     mems := mems ex_m; next_func := 9; next_mem := 1; rest := 42 |}.

Example C07_ex_bad_signature :
  wf_module ex_bad_sig /\ List.length (own_mems ex_bad_sig) = 1%nat /\
  existsb (bad_string_sig AbiGen.wat_module AbiGen.wat_table ex_bad_sig) (imports ex_bad_sig) = true /\
  spec ex_bad_sig = VReject /\ tool ex_bad_sig = Err (EParams "shopify_function_input_read_utf8_str").
Proof.
  split; [vm_compute; reflexivity|]. split; [vm_compute; reflexivity|]. split; [vm_compute; reflexivity|].
  split; vm_compute; reflexivity.
Qed.

Definition ex_one (md n : string) : module :=
  {| imports := [imp md n (KFunc 0)]; funcs := [fn 0 ([], [TI64]) FImported; fn 1 ([], []) FOwn];
     mems := [{| m_id := 0; m_imported := false |}]; next_func := 2; next_mem := 1; rest := 7 |}.

Example C07_ex_unknown_name :
  wf_module (ex_one API "shopify_function_input_get_nothing") /\
  List.length (own_mems (ex_one API "shopify_function_input_get_nothing")) = 1%nat /\
  existsb (unknown_name AbiGen.wat_module AbiGen.wat_table lowlevel) (imports (ex_one API "shopify_function_input_get_nothing")) = true /\
  tool (ex_one API "shopify_function_input_get_nothing") = Err (EUnexpected "shopify_function_input_get_nothing").
Proof.
  split; [vm_compute; reflexivity|]. split; [vm_compute; reflexivity|]. split; vm_compute; reflexivity.
Qed.

Example C07_ex_other_version :
  List.length (own_mems (ex_one "shopify_function_v1" "shopify_function_input_get")) = 1%nat /\
  existsb (other_version AbiGen.wat_module spec_prefix) (imports (ex_one "shopify_function_v1" "shopify_function_input_get")) = true /\
  tool (ex_one "shopify_function_v1" "shopify_function_input_get") = Err (EUnsupported "shopify_function_v1").
Proof. split; [vm_compute; reflexivity|]. split; vm_compute; reflexivity. Qed.

Example C07_ex_unchanged :
  wf_module {| imports := imports ex_m; funcs := funcs ex_m; mems := []; next_func := 9; next_mem := 0; rest := 1 |} /\
  spec {| imports := imports ex_m; funcs := funcs ex_m; mems := []; next_func := 9; next_mem := 0; rest := 1 |} = VUnchanged.
Proof. split; vm_compute; reflexivity. Qed.

(** ==== refutations *)
(** F13 (known finding): a function import and a non-function import of the same scalar API name.
    The first run renames the function import and stops; the second run meets the global first. *)
Definition ex_f13 : module :=
  {| imports := [imp API "shopify_function_input_get" (KFunc 0); imp API "shopify_function_input_get" (KOther 1)];
     funcs := [fn 0 ([], [TI64]) FImported; fn 1 ([], []) FOwn];
     mems := [{| m_id := 0; m_imported := false |}]; next_func := 2; next_mem := 1; rest := 7 |}.

Theorem C07_idempotent_refuted_kind_mismatch : exists m m', wf_module m /\ tool m = Ok m' /\ tool m' <> Ok m'.
Proof.
  exists ex_f13. eexists. split; [vm_compute; reflexivity|]. split; [vm_compute; reflexivity|].
  vm_compute. discriminate.
Qed.

Example C07_ex_f13 : spec ex_f13 = VEither /\ exists m', tool ex_f13 = Ok m' /\ tool m' = Err ENotFunc.
Proof. split; [vm_compute; reflexivity|]. eexists. split; vm_compute; reflexivity. Qed.

(** the two repaired defects, on the tables as they were before the repair *)
Definition cfg_first_only : cfg :=
  {| c_provider := c_provider the_cfg; c_prefix := c_prefix the_cfg; c_imports := c_imports the_cfg;
     c_extra := c_extra the_cfg; c_accept_new := c_accept_new the_cfg; c_skip_empty_new := c_skip_empty_new the_cfg;
     c_specs := c_specs the_cfg; c_alloc := c_alloc the_cfg; c_pmem := c_pmem the_cfg;
     c_loops := false |}.

Definition cfg_empty : cfg :=
  {| c_provider := c_provider the_cfg; c_prefix := c_prefix the_cfg; c_imports := c_imports the_cfg;
     c_extra := c_extra the_cfg; c_accept_new := c_accept_new the_cfg; c_skip_empty_new := false;
     c_specs := c_specs the_cfg; c_alloc := c_alloc the_cfg; c_pmem := c_pmem the_cfg;
     c_loops := c_loops the_cfg |}.

Definition ex_twice : module :=
  {| imports := [imp API "shopify_function_input_get" (KFunc 0); imp API "shopify_function_input_get" (KFunc 1)];
     funcs := [fn 0 ([], [TI64]) FImported; fn 1 ([], [TI64]) FImported; fn 2 ([], []) FOwn];
     mems := [{| m_id := 0; m_imported := false |}]; next_func := 3; next_mem := 1; rest := 7 |}.

(** handling only the first import of a name: the result still imports the public name, a second run changes it *)
Theorem C07_first_only_refuted :
  exists m m', wf_module m /\ apply cfg_first_only m = Ok m' /\ apply cfg_first_only m' <> Ok m'.
Proof.
  exists ex_twice. eexists. split; [vm_compute; reflexivity|]. split; [vm_compute; reflexivity|].
  vm_compute. discriminate.
Qed.

Example C07_first_only_tables_not_ok : cfg_ok cfg_first_only = false.
Proof. vm_compute. reflexivity. Qed.

Example C07_ex_twice_repaired : exists m', tool ex_twice = Ok m' /\ tool m' = Ok m' /\
  imports m' = [imp API "_shopify_function_input_get" (KFunc 0); imp API "_shopify_function_input_get" (KFunc 1)].
Proof. eexists. split; [vm_compute; reflexivity|]. split; vm_compute; reflexivity. Qed.

(** accepting the empty "new name" of IMPORTS: an import named "" in the API namespace passes *)
Theorem C07_empty_name_refuted :
  exists m m', wf_module m /\
    existsb (unknown_name AbiGen.wat_module AbiGen.wat_table lowlevel) (imports m) = true /\ apply cfg_empty m = Ok m'.
Proof.
  exists (ex_one API ""). eexists. split; [vm_compute; reflexivity|]. split; vm_compute; reflexivity.
Qed.

Example C07_ex_empty_name_repaired : tool (ex_one API "") = Err (EUnexpected "").
Proof. vm_compute. reflexivity. Qed.
