(** C07 -- trampolining preserves the guest, is idempotent, refuses what it cannot handle.
    Statements over the rewrite model (Tramp/Rewrite.v) instantiated with the regenerated tables. *)
From Coq Require Import NArith List String Bool.
From SFV Require Import Abi.AbiTypes Tramp.RewriteTypes Tramp.Rewrite Tramp.RewriteSpec Tramp.RewriteInst.
Import ListNotations.

Theorem C07_no_own_memory : forall (C : cfg) (m : module), own_mems m = [] -> apply C m = Ok m.
Proof. intros C m H. unfold apply. rewrite H. reflexivity. Qed.

Theorem C07_several_memories : forall (C : cfg) (m : module) a b r, own_mems m = a :: b :: r -> apply C m = Err EMultiMem.
Proof. intros C m a b r H. unfold apply. rewrite H. reflexivity. Qed.
