(** Property C14 (concurrent invocations on different threads do not interfere): final statements.

    Model: SFV.Ctx.Threads.  Any number of threads (thread ids are [N]), each with its own context
    (provider CONTEXT, api INTERNED_STRING_CACHE, the glue's locals), run API steps under an
    arbitrary schedule [sched : list (tid * step)].  The steps are split exactly where a provider
    call hands back a destination or a copy plan used by the glue afterwards (SStrDest/SStrCopy,
    SInternDest/SInternCopy, SLogPlan/SLogCopy), so a schedule may interleave other threads there.
    The placement of the log return area is the parameter [g] (true = one [static mut]).

    With a per-thread return area: the observations of thread [t] inside ANY schedule are exactly
    the observations of its own steps run alone (no bound on threads, steps or schedule).
    With the shared return area (the code today): refuted -- thread 1 copies with thread 2's plan.
    Only statements here; proofs in SFV.Ctx.ThreadsProofs. *)
From Coq Require Import NArith ZArith List Bool String.
From SFV Require Import Base.Bytes Ctx.Interner Ctx.Context Ctx.Threads Ctx.ThreadsProofs Gen.StaticsGen Gen.LogGen.
From SFV Require Import Read.Lazy Read.ReadRun.
From SFV Require Log.Ring Write.Writer.
Import ListNotations.
Open Scope N_scope.

Theorem C14 : forall (W : N) (trap : bool) (CAP : nat) (g : bool), g = false ->
  forall (sched : list (tid * step)) (t : tid),
    proj t (snd (run_sched W trap CAP g sched (w0 CAP)))
    = snd (run_solo W trap CAP g t (proj t sched) (w0 CAP)).
Proof. intros W trap CAP g Hg sched t. exact (c14_local W trap CAP g Hg sched t (w0 CAP)). Qed.

(** the same from any world (e.g. after earlier invocations on every thread) *)
Theorem C14_any_world : forall (W : N) (trap : bool) (CAP : nat) (g : bool), g = false ->
  forall (sched : list (tid * step)) (t : tid) (w : world),
    proj t (snd (run_sched W trap CAP g sched w)) = snd (run_solo W trap CAP g t (proj t sched) w).
Proof. exact c14_local. Qed.

(** the code today: LOG_RET_AREA is one static shared by all threads *)
Theorem C14_refuted_global : forall (W : N) (trap : bool) (g : bool), g = true ->
  exists (sched : list (tid * step)) (t : tid),
    proj t (snd (run_sched W trap LogGen.CAPACITY g sched (w0 LogGen.CAPACITY)))
    <> snd (run_solo W trap LogGen.CAPACITY g t (proj t sched) (w0 LogGen.CAPACITY)).
Proof. exact c14_refuted_global. Qed.

(** the witness: T1 asks for a plan (3 bytes), T2 asks for a plan (5 bytes), T1 copies: its bytes
    land in T2's buffer, its own log shows zeros *)
Theorem C14_witness : forall (W : N) (trap : bool),
  snd (run_sched W trap LogGen.CAPACITY true witness (w0 LogGen.CAPACITY)) =
  [ (1, ObPlan {| Ring.p_so := 0; Ring.p_d1 := 0; Ring.p_n1 := 3; Ring.p_d2 := None; Ring.p_n2 := 0 |});
    (2, ObPlan {| Ring.p_so := 0; Ring.p_d1 := 0; Ring.p_n1 := 5; Ring.p_d2 := None; Ring.p_n2 := 0 |});
    (1, ObUnit); (1, ObBytes [0; 0; 0]); (2, ObBytes [65; 66; 67; 0; 0]) ]
  /\ snd (run_solo W trap LogGen.CAPACITY true 1 (proj 1 witness) (w0 LogGen.CAPACITY)) =
  [ ObPlan {| Ring.p_so := 0; Ring.p_d1 := 0; Ring.p_n1 := 3; Ring.p_d2 := None; Ring.p_n2 := 0 |};
    ObUnit; ObBytes [65; 66; 67] ].
Proof. exact witness_global_obs. Qed.

(** * Bridge to the generated table of statics (Gen/StaticsGen.v, regenerated from the Rust
    source on every run).  [ret_area_global_of] reads the placement of LOG_RET_AREA off the table;
    [all_mutable_thread_local] says every mutable static of the two crates is thread-local (the
    assumption under which the contexts of different threads are disjoint at all). *)
Theorem C14_statics : all_mutable_thread_local StaticsGen.statics = true ->
  forall (W : N) (trap : bool) (CAP : nat) (sched : list (tid * step)) (t : tid) (w : world),
    proj t (snd (run_sched W trap CAP (ret_area_global_of StaticsGen.statics) sched w))
    = snd (run_solo W trap CAP (ret_area_global_of StaticsGen.statics) t (proj t sched) w).
Proof. exact c14_statics. Qed.

(** for every table: the hypothesis forces the return area to be per-thread *)
Theorem C14_hyp_covers_ret_area : forall l : list static_item,
  all_mutable_thread_local l = true -> ret_area_global_of l = false.
Proof. exact amtl_ret_area. Qed.

Theorem C14_statics_refuted_if_global : ret_area_global_of StaticsGen.statics = true ->
  forall (W : N) (trap : bool),
  exists (sched : list (tid * step)) (t : tid),
    proj t (snd (run_sched W trap LogGen.CAPACITY (ret_area_global_of StaticsGen.statics) sched (w0 LogGen.CAPACITY)))
    <> snd (run_solo W trap LogGen.CAPACITY (ret_area_global_of StaticsGen.statics) t (proj t sched) (w0 LogGen.CAPACITY)).
Proof. exact c14_statics_refuted. Qed.

(** * Example: three threads; thread 1 reads a document and writes an object, thread 2 interns
    and writes by id, thread 3 logs past the capacity; other threads' steps fall between every
    destination/plan and its copy. *)
Definition doc : list N := [130; 161; 97; 1; 161; 98; 162; 104; 105].   (* {"a":1,"b":"hi"} *)

Definition sched3 : list (tid * step) :=
  [ (1, SInit doc); (2, SInit [192]); (3, SInit []);
    (1, SRead RRoot); (3, SLogPlan 5); (2, SInternDest 2); (1, SLogPlan 2); (3, SLogCopy [1;2;3;4;5]);
    (2, SLogPlan 4); (1, SLogCopy [8;9]); (2, SInternCopy [104;105]); (2, SLogCopy [7;7;7;7]);
    (1, SRead (RProp (Some 0) [98])); (2, SWrite (Writer.OStartArr 2)); (1, SWrite (Writer.OStartObj 1));
    (1, SStrDest 1); (2, SStrDest 3); (3, SLogPlan 6); (1, SStrCopy [107]); (2, SStrCopy [120;121;122]);
    (3, SLogCopy [11;12;13;14;15;16]); (2, SIStr 0); (1, SRead (RStr (Some 1))); (1, SWrite (Writer.OI32 7%Z));
    (3, SView); (2, SWrite Writer.OFinArr); (1, SWrite Writer.OFinObj); (2, SLoad [104;105]); (1, SLoad [104;105]);
    (1, SReadIProp (Some 0) 0); (2, SFinalize); (1, SFinalize); (3, SFinalize); (1, SView); (2, SView); (3, SOut) ].

Example C14_example :
  forall t, In t [1; 2; 3; 4] ->
    proj t (snd (run_sched 64 false 8 false sched3 (w0 8))) = snd (run_solo 64 false 8 false t (proj t sched3) (w0 8)).
Proof. intros t [<-|[<-|[<-|[<-|[]]]]]; vm_compute; reflexivity. Qed.

Example C14_example_obs :
  proj 2 (snd (run_sched 64 false 8 false sched3 (w0 8))) =
  [ ObUnit; ObIntern 0 0; ObPlan {| Ring.p_so := 0; Ring.p_d1 := 0; Ring.p_n1 := 4; Ring.p_d2 := None; Ring.p_n2 := 0 |};
    ObUnit; ObUnit; ObW Writer.WOk; ObDest Writer.WOk (Some 2); ObUnit; ObW Writer.WOk; ObW Writer.WOk; ObId 1;
    ObFin 0 [146; 163; 120; 121; 122; 162; 104; 105]; ObBytes [7; 7; 7; 7] ]
  /\ proj 3 (snd (run_sched 64 false 8 false sched3 (w0 8))) =
  [ ObUnit; ObPlan {| Ring.p_so := 0; Ring.p_d1 := 0; Ring.p_n1 := 5; Ring.p_d2 := None; Ring.p_n2 := 0 |}; ObUnit;
    ObPlan {| Ring.p_so := 0; Ring.p_d1 := 5; Ring.p_n1 := 3; Ring.p_d2 := Some 0%nat; Ring.p_n2 := 3 |}; ObUnit;
    ObBytes [4; 5; 11; 12; 13; 14; 15; 16]; ObFin 6 []; ObBytes [] ].
Proof. vm_compute. split; reflexivity. Qed.

Example C14_instance :
  proj 1 (snd (run_sched 64 false 8 false sched3 (w0 8))) = snd (run_solo 64 false 8 false 1 (proj 1 sched3) (w0 8)).
Proof. apply C14. reflexivity. Qed.

(** the same schedule with the shared return area: thread 1 is disturbed *)
Example C14_example_global :
  proj 1 (snd (run_sched 64 false 8 true sched3 (w0 8))) <> snd (run_solo 64 false 8 true 1 (proj 1 sched3) (w0 8)).
Proof. vm_compute. intros H. discriminate H. Qed.
