(** Property C13 (each invocation starts from a clean slate): final statements.

    Model: SFV.Ctx.Context.  [h] is ANY earlier history of steps on the thread (reads, finished /
    abandoned / rejected writes, logs, interning, loads, earlier SInit's, even destination and copy
    steps in orders the glue never produces).  A script [KInit b :: s] is a list of whole API calls
    (a provider call and the glue's copy adjacent, as in the glue) whose id arguments refer to "the
    k-th id obtained in this script" ([KReadIProp sc k], [KWrite (OIStr k)]); a reference to an id
    not yet obtained yields [ObBadRef] and does nothing.  [srun] returns every observation: read
    answers, write statuses, destination offsets in the output, log plans, host view of the logs,
    output bytes, finalize result, ids.

    - [C13]: the observations after [h] are those on a fresh thread up to the VALUES of interned
      ids / interner destinations (which deliberately survive) -- and since every later use of an
      id is itself observed (lookups, writes by id), corresponding ids behave identically.
    - [C13_shift]: exactly a uniform shift of the ids by the number of strings the history
      interned, provided no key the script loads is already in the thread's id cache
      (INTERNED_STRING_CACHE also survives: a cached key gives back its OLD id, so the uniform
      shift is false in that case: [C13_shift_refuted_cached]).
    Only statements here; proofs in SFV.Ctx.ResetProofs. *)
From Coq Require Import NArith ZArith List Bool String.
From SFV Require Import Base.Bytes Read.Lazy Read.ReadRun Ctx.Interner Ctx.Context Ctx.ResetProofs Gen.StaticsGen.
From SFV Require Log.Ring Write.Writer.
Import ListNotations.
Open Scope N_scope.

Theorem C13 : forall (W : N) (trap : bool) (CAP : nat) (h : list step) (b : list N) (s : list call),
  map erase_id (snd (srun W trap CAP (KInit b :: s) (fst (lrun W trap CAP h (c0 CAP))) []))
  = map erase_id (snd (srun W trap CAP (KInit b :: s) (c0 CAP) [])).
Proof. exact c13_erase. Qed.

Theorem C13_shift : forall (W : N) (trap : bool) (CAP : nat) (h : list step) (b : list N) (s : list call),
  let c1 := fst (lrun W trap CAP h (c0 CAP)) in
  (forall key, In (KLoad key) s -> lookup key (ccache c1) = None) ->
  snd (srun W trap CAP (KInit b :: s) c1 [])
  = map (shift_id (lenN (spans (cint c1))) (lenN (ibuf (cint c1)))) (snd (srun W trap CAP (KInit b :: s) (c0 CAP) [])).
Proof. exact c13_shift. Qed.

(** in particular when the history never used a cached id handle *)
Theorem C13_shift_noload : forall (W : N) (trap : bool) (CAP : nat) (h : list step) (b : list N) (s : list call),
  forallb (fun s => negb (is_load s)) h = true ->
  let c1 := fst (lrun W trap CAP h (c0 CAP)) in
  snd (srun W trap CAP (KInit b :: s) c1 [])
  = map (shift_id (lenN (spans (cint c1))) (lenN (ibuf (cint c1)))) (snd (srun W trap CAP (KInit b :: s) (c0 CAP) [])).
Proof. exact c13_shift_noload. Qed.

Theorem C13_shift_refuted_cached : forall (W : N) (trap : bool) (CAP : nat),
  let c1 := fst (lrun W trap CAP hist_cached (c0 CAP)) in
  snd (srun W trap CAP script_cached c1 []) = [ObUnit; ObId 1; ObIntern 2 2; ObUnit] /\
  map (shift_id (lenN (spans (cint c1))) (lenN (ibuf (cint c1)))) (snd (srun W trap CAP script_cached (c0 CAP) []))
    = [ObUnit; ObId 2; ObIntern 3 3; ObUnit].
Proof. exact c13_shift_refuted_cached. Qed.

(** * Structural obligations from the generated description of [struct Context] *)
Theorem context_fields_covered :
  forallb (fun f => existsb (String.eqb f) modelled_fields) StaticsGen.context_fields = true.
Proof. vm_compute. reflexivity. Qed.

Theorem only_interner_kept : StaticsGen.fields_kept_on_init = ["string_interner"%string].
Proof. vm_compute. reflexivity. Qed.

(** Every piece of mutable state of the two crates is accounted for by the model: the per-thread [CONTEXT]
    (reset by the model's [do_init] except the interner), the wasm-only [OUTPUT_AND_LOG_PTRS] (six words
    rewritten by [finalize] before the host reads them), [LOG_RET_AREA] (rewritten by every log call before
    the glue reads it: [cret]) and the API's id cache [INTERNED_STRING_CACHE] ([ccache], which deliberately
    survives).  A NEW static / thread_local in provider/src or api/src (a counter, a scratch buffer, a cache)
    is state that a new invocation might inherit: the regenerated table then differs and this obligation
    fails until the model accounts for it. *)
Theorem all_state_outside_context_is_modelled :
  map s_name (filter s_mutable StaticsGen.statics)
  = ["CONTEXT"; "OUTPUT_AND_LOG_PTRS"; "LOG_RET_AREA"; "INTERNED_STRING_CACHE"]%string.
Proof. vm_compute. reflexivity. Qed.

(** the model's initialize: everything of [struct Context] is the default except the input and the
    interner (the other three fields are not part of [struct Context]) *)
Theorem init_resets : forall (CAP : nat) (c : ctx) (b : list N),
  do_init CAP c b =
  {| cin := b; crs := rinit; cw := mirror Writer.init (cint c); cint := cint c; clog := Ring.init 0 CAP;
     ccache := ccache c; cdst := cdst c; cidst := cidst c; cret := cret c |}.
Proof. reflexivity. Qed.

(** * Example: a history with reads, a finished write, a second invocation with an abandoned
    object, a rejected write, a log that wrapped, interning, a stale destination; then a script that
    reads, interns, looks up by id, writes (also by id), logs, finalizes. *)
Definition doc : list N := [130; 161; 97; 1; 161; 98; 162; 104; 105].   (* {"a":1,"b":"hi"} *)

Definition hist : list step :=
  [ SInit [147; 1; 2; 3]; SRead RRoot; SRead (RIdx (Some 0) 1); SWrite (Writer.OBool 1); SFinalize;
    SInternDest 3; SInternCopy [102; 111; 111]; SLogPlan 6; SLogCopy [1; 2; 3; 4; 5; 6];
    SInit doc; SRead RRoot; SWrite (Writer.OStartObj 2); SStrDest 1; SStrCopy [107]; SWrite (Writer.OBool 0);
    SWrite Writer.OFinObj; SLogPlan 5; SLogCopy [7; 8; 9; 10; 11]; SInternDest 2; SStrDest 4; SIStr 0; SIStr 9 ].

Definition script : list call :=
  [ KInit doc; KRead RRoot; KIntern [98]; KIntern [97]; KReadIProp (Some 0) 0; KRead (RStr (Some 1));
    KReadIProp (Some 0) 1; KReadIProp (Some 0) 2; KWrite (Writer.OStartObj 1); KWrite (Writer.OIStr 1);
    KStr [104; 105]; KWrite Writer.OFinObj; KWrite Writer.ONull; KLog [33; 34; 35]; KLoad [98]; KWrite (Writer.OIStr 2);
    KView; KFinalize; KOut ].

Example C13_example_fresh :
  snd (srun 64 false 8 script (c0 8) []) =
  [ ObUnit; ObRead (OVal (AObj (0, []) 2)); ObIntern 0 0; ObUnit; ObIntern 1 1; ObUnit;
    ObRead (OVal (AStr (0, [SVal 1]) 2)); ObRead (OBytes (Some [104; 105])); ObRead (OVal (ANum 4607182418800017408));
    ObBadRef; ObW Writer.WOk; ObW Writer.WOk; ObDest Writer.WOk (Some 4); ObUnit; ObW Writer.WOk;
    ObW (Writer.WErr 4); ObPlan {| Ring.p_so := 0; Ring.p_d1 := 0; Ring.p_n1 := 3; Ring.p_d2 := None; Ring.p_n2 := 0 |};
    ObUnit; ObId 2; ObW (Writer.WErr 4); ObBytes [33; 34; 35]; ObFin 0 [129; 161; 97; 162; 104; 105];
    ObBytes [129; 161; 97; 162; 104; 105] ].
Proof. vm_compute. reflexivity. Qed.

Example C13_example_after_history :
  snd (srun 64 false 8 script (fst (lrun 64 false 8 hist (c0 8))) []) =
  map (shift_id 2 5) (snd (srun 64 false 8 script (c0 8) [])).
Proof. vm_compute. reflexivity. Qed.

Example C13_instance :
  map erase_id (snd (srun 64 false 8 (KInit doc :: tl script) (fst (lrun 64 false 8 hist (c0 8))) []))
  = map erase_id (snd (srun 64 false 8 (KInit doc :: tl script) (c0 8) [])).
Proof. exact (C13 64 false 8 hist doc (tl script)). Qed.

Example C13_shift_instance_hyp : forallb (fun s => negb (is_load s)) hist = true.
Proof. vm_compute. reflexivity. Qed.

Example C13_shift_instance :
  let c1 := fst (lrun 64 false 8 hist (c0 8)) in
  snd (srun 64 false 8 (KInit doc :: tl script) c1 [])
  = map (shift_id (lenN (spans (cint c1))) (lenN (ibuf (cint c1)))) (snd (srun 64 false 8 (KInit doc :: tl script) (c0 8) [])).
Proof. exact (C13_shift_noload 64 false 8 hist doc (tl script) C13_shift_instance_hyp). Qed.
