(** Property C01 (lazy input reader = eager decode, history independent): final statements.

    For every well-formed document [w] (any nesting, any header width including non-minimal ones),
    every pointer width [W] the encoded document fits in, both overflow modes, and EVERY finite
    sequence of read calls (each call's scope is any earlier output: revisits, out-of-order,
    interleaved siblings, error values, roots fetched again), the model of the Rust code returns
    exactly the outputs of [spec_run], which is defined on the wire tree only: each answer depends
    on the document and the position asked for, never on the visiting history.  The right-hand side
    contains no panic / out-of-fuel outcome, so the model never panics and the fuel suffices.
    Exclusion: documents containing a NaN float ([no_nan]): the Rust code panics on those (F1). *)
From Coq Require Import NArith ZArith List Bool.
From SFV Require Import Base.Bytes Base.F64 Msgpack.Wire Read.Lazy Read.ReadRun Read.ReadSpec Read.ReadFuel Read.ReadProofs.
From SFV Require Import Base.RsPrelude Read.LazyTypes Gen.LazyNewGen Read.LazyNewGenEq.
Import ListNotations.
Open Scope N_scope.

Theorem C01 : forall (W : N) (trap : bool) (w : wire),
  wf w = true -> no_nan w = true -> lenN (enc w) < 2 ^ W ->
  forall ops : list rop, refs_ok ops = true ->
  outs (run W trap (fuel_for w ops) (enc w) ops) = spec_run w ops.
Proof. exact ReadProofs.C01. Qed.

(** The same without the hypothesis on scope indices (a dangling index is a garbage scope on both sides). *)
Theorem C01_strong : forall (W : N) (trap : bool) (w : wire),
  wf w = true -> no_nan w = true -> lenN (enc w) < 2 ^ W ->
  forall ops : list rop, outs (run W trap (fuel_for w ops) (enc w) ops) = spec_run w ops.
Proof. exact ReadProofs.C01_strong. Qed.

(** * Examples *)
Definition s (l : list N) : wire := WStr FixStr l.

(** map16 with 5 pairs, array32 with 3 elements, 5 as u64, "hi" behind str16, "b" behind str8,
    duplicate key "a", empty containers, empty key. *)
Definition doc : wire :=
  WMap L16 [ (s [97], WArr L32 [WInt U64 5; WArr LFix [WNil; WBool true; WArr LFix []]; WStr Str16 [104; 105]]);
             (WStr Str8 [98], WMap LFix []);
             (s [97], WInt I64 (-3));
             (s [99], WMap LFix [(s [120], WF64 0x3ff0000000000000); (s [121], WF32 0x3fc00000)]);
             (s [], WInt NFix (-1)) ].

(** descend half-way into child 1 of the array, ask for sibling 2, revisit child 1, second root ... *)
Definition hist : list rop :=
  [ RRoot; RIdx (Some 0) 0; RIdx (Some 1) 1; RIdx (Some 2) 1; RIdx (Some 1) 2; RIdx (Some 2) 2;
    RIdx (Some 2) 0; RProp (Some 0) [97]; RProp (Some 0) [99]; RProp (Some 8) [121]; RProp (Some 8) [120];
    RProp (Some 0) []; RProp (Some 0) [122]; RKey (Some 0) 2; RStr (Some 13); RLen (Some 13); RLen (Some 0);
    RLen (Some 3); RIdx (Some 0) 9; RIdx (Some 5) 0; RIdx (Some 3) 0; RKey (Some 1) 0; RProp (Some 1) [97];
    RProp None [97]; RIdx None 0; RKey None 0; RRoot; RIdx (Some 26) 4; RKey (Some 26) 4; RStr (Some 28);
    RStr (Some 4); RIdx (Some 0) 1; RIdx (Some 31) 0; RIdx (Some 1) 0; RIdx (Some 26) 2 ].

Example C01_hyps : wf doc = true /\ no_nan doc = true /\ lenN (enc doc) < 2 ^ 32 /\ refs_ok hist = true.
Proof. vm_compute. repeat split; reflexivity. Qed.

Example C01_example_run :
  outs (run 32 true (fuel_for doc hist) (enc doc) hist) = spec_run doc hist.
Proof. vm_compute. reflexivity. Qed.

Example C01_example_answers :
  firstn 8 (spec_run doc hist) =
  [ OVal (AObj (0, []) 5); OVal (AArr (0, [SVal 0]) 3); OVal (AArr (0, [SVal 0; SIdx 1]) 3);
    OVal (ABool true); OVal (AStr (0, [SVal 0; SIdx 2]) 2); OVal (AArr (0, [SVal 0; SIdx 1; SIdx 2]) 0);
    OVal ANull; OVal (AArr (0, [SVal 0]) 3) ].
Proof. vm_compute. reflexivity. Qed.

(** the instance of the theorem *)
Example C01_instance :
  outs (run 32 true (fuel_for doc hist) (enc doc) hist) = spec_run doc hist.
Proof. apply C01; vm_compute; reflexivity. Qed.

(** a second document: every integer format (non-minimal ones included), floats, array16, map32,
    nested empty containers; pointer width 64, overflow checks off; out-of-order and repeated visits *)
Definition doc2 : wire :=
  WArr L16 [ WInt PFix 5; WInt NFix (-7); WInt U8 5; WInt U16 5; WInt U32 70000; WInt U64 18446744073709551615;
             WInt I8 (-128); WInt I16 (-3); WInt I32 2147483647; WInt I64 (-9223372036854775808);
             WF32 0xc0490fdb; WF64 0x400921fb54442d18;
             WMap L32 [ (WStr Str32 [107], WArr LFix [WMap LFix []; WArr L32 []]); (WStr Str16 [], WNil) ];
             WBool false ].
Definition hist2 : list rop :=
  [ RRoot; RIdx (Some 0) 12; RIdx (Some 1) 0; RIdx (Some 2) 1; RIdx (Some 0) 13; RIdx (Some 0) 5;
    RIdx (Some 0) 9; RIdx (Some 0) 10; RIdx (Some 0) 11; RIdx (Some 2) 0; RLen (Some 9); RKey (Some 1) 1;
    RStr (Some 11); RProp (Some 1) []; RProp (Some 1) [107]; RIdx (Some 0) 1; RIdx (Some 0) 6; RIdx (Some 0) 14;
    RIdx (Some 3) 0; RKey (Some 9) 0; RRoot; RIdx (Some 20) 4 ].

Example C01_hyps2 : wf doc2 = true /\ no_nan doc2 = true /\ lenN (enc doc2) < 2 ^ 64 /\ refs_ok hist2 = true.
Proof. vm_compute. repeat split; reflexivity. Qed.
Example C01_example_run2 :
  outs (run 64 false (fuel_for doc2 hist2) (enc doc2) hist2) = spec_run doc2 hist2.
Proof. vm_compute. reflexivity. Qed.
Example C01_example_answers2 :
  firstn 8 (skipn 4 (spec_run doc2 hist2)) =
  [ OVal (ABool false); OVal (ANum 0x43f0000000000000); OVal (ANum 0xc3e0000000000000);
    OVal (ANum 0xc00921fb60000000); OVal (ANum 0x400921fb54442d18); OVal (AObj (0, [SIdx 12; SVal 0; SIdx 0]) 0);
    OLen (Some 0); OVal (AStr (0, [SIdx 12; SKey 1]) 0) ].
Proof. vm_compute. reflexivity. Qed.

(** * The header decoder [lz_new] IS the code (tie by translation, T8)

    [Gen/LazyNewGen.v] is regenerated on every run from provider/src/read/lazy_value_ref.rs by translators/rs2v: the
    bounds-checked [Cursor] reads ([read_marker], [read_u8] ... [read_u64], [read_i8] ... [read_i64], [read_f32],
    [read_f64]), [LazyValueRef::new_number], [new_string] and [LazyValueRef::new], the decoder of ONE value header --
    the function on which the whole lazy-reader model (and, as [hdr], the sequential-decoder specification of C08)
    rests.  For every input made of bytes that does not fill the address space, EVERY position (also beyond the
    input), both overflow modes and every pointer width of at least 32 bits, the translated Rust returns exactly what
    [lz_new] returns ([same_res]: the same lazy node and end position, or the same error code) and never panics.
    [rmp::Marker::from_u8] is modelled by hand ([Read/LazyTypes.v]). *)
Theorem C01_code_new : forall W trap bs pos,
  Forall (fun b => b < 256) bs -> lenN bs + 9 < 2 ^ W -> 32 <= W ->
  same_res (LazyValueRef_new W trap bs pos) (lz_new W trap bs pos).
Proof. exact lazy_new_eq. Qed.

Theorem C01_code_new_never_panics : forall W trap bs pos,
  Forall (fun b => b < 256) bs -> lenN bs + 9 < 2 ^ W -> 32 <= W ->
  exists r, LazyValueRef_new W trap bs pos = GOk r.
Proof. exact lazy_new_never_panics. Qed.

(** what [same_res] says *)
Theorem C01_code_same_res_meaning : forall g h,
  same_res g h <-> match g, h with
                   | GOk (ROk (v, e)), Ok (l, e') => conv v = l /\ e = e'
                   | GOk (RErr c), Err c' => c = c'
                   | _, _ => False
                   end.
Proof. intros. reflexivity. Qed.
