(** Property C01 (lazy input reader = eager decode, history independent): final statements.

    For every well-formed document [w] (any nesting, any header width including non-minimal ones),
    every pointer width [W] the encoded document fits in, both overflow modes, and EVERY finite
    sequence of read calls (each call's scope is any earlier output: revisits, out-of-order,
    interleaved siblings, error values, roots fetched again), the model of the Rust code returns
    exactly the outputs of [spec_run], which is defined on the wire tree only: each answer depends
    on the document and the position asked for, never on the visiting history.  The right-hand side
    contains no panic / out-of-fuel outcome, so the model never panics and the fuel suffices.
    Exclusion: documents containing a NaN float ([no_nan]): the Rust code panics on those (F1). *)
From Coq Require Import NArith ZArith List Bool.
From SFV Require Import Base.Bytes Base.F64 Msgpack.Wire Read.Lazy Read.ReadRun Read.ReadSpec Read.ReadFuel Read.ReadProofs.
From SFV Require Import Base.RsPrelude Read.LazyTypes Gen.LazyNewGen Read.LazyNewGenEq Read.SeqCorollaries.
From SFV Require Import Gen.LazyLoopsGen Read.ReadSafe Read.ReadRobust Read.LazyLoopsStmt Read.LoopsEq Read.GenRun Read.GenRunEq Gen.ReadAbiGen Read.ReadAbiEq Read.AbiCall Read.AbiCallEq.
Import ListNotations.
Open Scope N_scope.

Theorem C01 : forall (W : N) (trap : bool) (w : wire),
  wf w = true -> no_nan w = true -> lenN (enc w) < 2 ^ W ->
  forall ops : list rop, refs_ok ops = true ->
  outs (run W trap (fuel_for w ops) (enc w) ops) = spec_run w ops.
Proof. exact ReadProofs.C01. Qed.

(** The same without the hypothesis on scope indices (a dangling index is a garbage scope on both sides). *)
Theorem C01_strong : forall (W : N) (trap : bool) (w : wire),
  wf w = true -> no_nan w = true -> lenN (enc w) < 2 ^ W ->
  forall ops : list rop, outs (run W trap (fuel_for w ops) (enc w) ops) = spec_run w ops.
Proof. exact ReadProofs.C01_strong. Qed.

(** * Examples *)
Definition s (l : list N) : wire := WStr FixStr l.

(** map16 with 5 pairs, array32 with 3 elements, 5 as u64, "hi" behind str16, "b" behind str8,
    duplicate key "a", empty containers, empty key. *)
Definition doc : wire :=
  WMap L16 [ (s [97], WArr L32 [WInt U64 5; WArr LFix [WNil; WBool true; WArr LFix []]; WStr Str16 [104; 105]]);
             (WStr Str8 [98], WMap LFix []);
             (s [97], WInt I64 (-3));
             (s [99], WMap LFix [(s [120], WF64 0x3ff0000000000000); (s [121], WF32 0x3fc00000)]);
             (s [], WInt NFix (-1)) ].

(** descend half-way into child 1 of the array, ask for sibling 2, revisit child 1, second root ... *)
Definition hist : list rop :=
  [ RRoot; RIdx (Some 0) 0; RIdx (Some 1) 1; RIdx (Some 2) 1; RIdx (Some 1) 2; RIdx (Some 2) 2;
    RIdx (Some 2) 0; RProp (Some 0) [97]; RProp (Some 0) [99]; RProp (Some 8) [121]; RProp (Some 8) [120];
    RProp (Some 0) []; RProp (Some 0) [122]; RKey (Some 0) 2; RStr (Some 13); RLen (Some 13); RLen (Some 0);
    RLen (Some 3); RIdx (Some 0) 9; RIdx (Some 5) 0; RIdx (Some 3) 0; RKey (Some 1) 0; RProp (Some 1) [97];
    RProp None [97]; RIdx None 0; RKey None 0; RRoot; RIdx (Some 26) 4; RKey (Some 26) 4; RStr (Some 28);
    RStr (Some 4); RIdx (Some 0) 1; RIdx (Some 31) 0; RIdx (Some 1) 0; RIdx (Some 26) 2 ].

Example C01_hyps : wf doc = true /\ no_nan doc = true /\ lenN (enc doc) < 2 ^ 32 /\ refs_ok hist = true.
Proof. vm_compute. repeat split; reflexivity. Qed.

Example C01_example_run :
  outs (run 32 true (fuel_for doc hist) (enc doc) hist) = spec_run doc hist.
Proof. vm_compute. reflexivity. Qed.

Example C01_example_answers :
  firstn 8 (spec_run doc hist) =
  [ OVal (AObj (0, []) 5); OVal (AArr (0, [SVal 0]) 3); OVal (AArr (0, [SVal 0; SIdx 1]) 3);
    OVal (ABool true); OVal (AStr (0, [SVal 0; SIdx 2]) 2); OVal (AArr (0, [SVal 0; SIdx 1; SIdx 2]) 0);
    OVal ANull; OVal (AArr (0, [SVal 0]) 3) ].
Proof. vm_compute. reflexivity. Qed.

(** the instance of the theorem *)
Example C01_instance :
  outs (run 32 true (fuel_for doc hist) (enc doc) hist) = spec_run doc hist.
Proof. apply C01; vm_compute; reflexivity. Qed.

(** a second document: every integer format (non-minimal ones included), floats, array16, map32,
    nested empty containers; pointer width 64, overflow checks off; out-of-order and repeated visits *)
Definition doc2 : wire :=
  WArr L16 [ WInt PFix 5; WInt NFix (-7); WInt U8 5; WInt U16 5; WInt U32 70000; WInt U64 18446744073709551615;
             WInt I8 (-128); WInt I16 (-3); WInt I32 2147483647; WInt I64 (-9223372036854775808);
             WF32 0xc0490fdb; WF64 0x400921fb54442d18;
             WMap L32 [ (WStr Str32 [107], WArr LFix [WMap LFix []; WArr L32 []]); (WStr Str16 [], WNil) ];
             WBool false ].
Definition hist2 : list rop :=
  [ RRoot; RIdx (Some 0) 12; RIdx (Some 1) 0; RIdx (Some 2) 1; RIdx (Some 0) 13; RIdx (Some 0) 5;
    RIdx (Some 0) 9; RIdx (Some 0) 10; RIdx (Some 0) 11; RIdx (Some 2) 0; RLen (Some 9); RKey (Some 1) 1;
    RStr (Some 11); RProp (Some 1) []; RProp (Some 1) [107]; RIdx (Some 0) 1; RIdx (Some 0) 6; RIdx (Some 0) 14;
    RIdx (Some 3) 0; RKey (Some 9) 0; RRoot; RIdx (Some 20) 4 ].

Example C01_hyps2 : wf doc2 = true /\ no_nan doc2 = true /\ lenN (enc doc2) < 2 ^ 64 /\ refs_ok hist2 = true.
Proof. vm_compute. repeat split; reflexivity. Qed.
Example C01_example_run2 :
  outs (run 64 false (fuel_for doc2 hist2) (enc doc2) hist2) = spec_run doc2 hist2.
Proof. vm_compute. reflexivity. Qed.
Example C01_example_answers2 :
  firstn 8 (skipn 4 (spec_run doc2 hist2)) =
  [ OVal (ABool false); OVal (ANum 0x43f0000000000000); OVal (ANum 0xc3e0000000000000);
    OVal (ANum 0xc00921fb60000000); OVal (ANum 0x400921fb54442d18); OVal (AObj (0, [SIdx 12; SVal 0; SIdx 0]) 0);
    OLen (Some 0); OVal (AStr (0, [SIdx 12; SKey 1]) 0) ].
Proof. vm_compute. reflexivity. Qed.

(** * The header decoder [lz_new] IS the code (tie by translation, T8)

    [Gen/LazyNewGen.v] is regenerated on every run from provider/src/read/lazy_value_ref.rs by translators/rs2v: the
    bounds-checked [Cursor] reads ([read_marker], [read_u8] ... [read_u64], [read_i8] ... [read_i64], [read_f32],
    [read_f64]), [LazyValueRef::new_number], [new_string] and [LazyValueRef::new], the decoder of ONE value header --
    the function on which the whole lazy-reader model (and, as [hdr], the sequential-decoder specification of C08)
    rests.  For every input made of bytes that does not fill the address space, EVERY position (also beyond the
    input), both overflow modes and every pointer width of at least 32 bits, the translated Rust returns exactly what
    [lz_new] returns ([same_res]: the same lazy node and end position, or the same error code) and never panics.
    [rmp::Marker::from_u8] is modelled by hand ([Read/LazyTypes.v]). *)
Theorem C01_code_new : forall W trap bs pos,
  Forall (fun b => b < 256) bs -> lenN bs + 9 < 2 ^ W -> 32 <= W ->
  same_res (LazyValueRef_new W trap bs pos) (lz_new W trap bs pos).
Proof. exact lazy_new_eq. Qed.

Theorem C01_code_new_never_panics : forall W trap bs pos,
  Forall (fun b => b < 256) bs -> lenN bs + 9 < 2 ^ W -> 32 <= W ->
  exists r, LazyValueRef_new W trap bs pos = GOk r.
Proof. exact lazy_new_never_panics. Qed.

(** what [same_res] says *)
Theorem C01_code_same_res_meaning : forall g h,
  same_res g h <-> match g, h with
                   | GOk (ROk (v, e)), Ok (l, e') => conv v = l /\ e = e'
                   | GOk (RErr c), Err c' => c = c'
                   | _, _ => False
                   end.
Proof. intros. reflexivity. Qed.

(** * The loops of the lazy reader ARE the code (tie by translation, T8 with [--fuel])

    [Gen/LazyLoopsGen.v] is regenerated on every run from provider/src/read/lazy_value_ref.rs: [ArrayRef::get_at_index],
    [ObjectRef::get_at_index], [ObjectRef::get_property], the three mutually recursive [finish_processing] and the methods of
    [LazyValueRef] the exported read functions call ([get_at_index], [get_key_at_index], [get_object_property],
    [get_value_length], [get_utf8_str_addr]) -- one mutual [Fixpoint] on fuel, every Rust [for] loop a member of it.
    For every input of bytes that does not fill the address space, every node satisfying the invariant [sane] of reachable
    reader states ([C01_code_loops_reachable]: every node of every state any call sequence reaches does), every argument, both
    overflow modes, every hand-model fuel [f] with which the model function does not run out, and every generated fuel
    [g >= 2 f + k], the translated Rust returns the model function's new node ([conv]), its error code, and a reference that is
    the element / pair / value at the position the model's handle arithmetic uses; a panic on one side is a panic on the
    other, and the translation never reports its own [P_fuel].  [len < 2 ^ W] says that the length field is a [usize].
    ([sim] is spelled out by [C01_code_sim_meaning].) *)
Theorem C01_code_finish : forall W trap bs, Forall (fun b => b < 256) bs /\ lenN bs + 9 < 2 ^ W /\ 32 <= W ->
  forall f v p, sane (lenN bs) p (conv v) -> snd (finish W trap f bs (conv v)) <> OutOfFuel ->
  forall g, (2 * f + 0 <= g)%nat ->
  sim conv (fun _ (a b : option N) => a = b)
      (LazyValueRef_finish_processing W trap g v bs) (finish W trap f bs (conv v)).
Proof. exact loops_finish. Qed.

Theorem C01_code_arr_get : forall W trap bs, Forall (fun b => b < 256) bs /\ lenN bs + 9 < 2 ^ W /\ 32 <= W ->
  forall f len es e idx p, sane (lenN bs) p (LArr len (map conv es) e) -> len < 2 ^ W ->
  snd (arr_get W trap f bs len (map conv es) e idx) <> OutOfFuel ->
  forall g, (2 * f + 1 <= g)%nat ->
  sim conv_arr (fun a' x (_ : unit) => nthN (ArrayRef_processed_elements a') idx = Some x)
      (ArrayRef_get_at_index W trap g (mkArrayRef len es e) idx bs)
      (arr_get W trap f bs len (map conv es) e idx).
Proof. exact loops_arr_get. Qed.

Theorem C01_code_obj_get : forall W trap bs, Forall (fun b => b < 256) bs /\ lenN bs + 9 < 2 ^ W /\ 32 <= W ->
  forall f len es e idx p, sane (lenN bs) p (LObj len (map convp es) e) -> len < 2 ^ W ->
  snd (obj_get W trap f bs len (map convp es) e idx) <> OutOfFuel ->
  forall g, (2 * f + 1 <= g)%nat ->
  sim conv_obj (fun o' x (_ : unit) => nthN (ObjectRef_processed_elements o') idx = Some x)
      (ObjectRef_get_at_index W trap g (mkObjectRef len es e) idx bs)
      (obj_get W trap f bs len (map convp es) e idx).
Proof. exact loops_obj_get. Qed.

Theorem C01_code_obj_prop : forall W trap bs, Forall (fun b => b < 256) bs /\ lenN bs + 9 < 2 ^ W /\ 32 <= W ->
  forall f key len es e p, sane (lenN bs) p (LObj len (map convp es) e) -> len < 2 ^ W ->
  snd (obj_prop W trap f bs key len (map convp es) e) <> OutOfFuel ->
  forall g, (2 * f + 1 <= g)%nat ->
  sim conv_obj
      (fun o' (ov : option LazyValueRef) (oi : option N) =>
         match ov, oi with
         | Some v, Some i => exists k, nthN (ObjectRef_processed_elements o') i = Some (k, v)
         | None, None => True
         | _, _ => False
         end)
      (ObjectRef_get_property W trap g (mkObjectRef len es e) key bs)
      (obj_prop W trap f bs key len (map convp es) e).
Proof. exact loops_obj_prop. Qed.

(** the methods of [LazyValueRef] that the exported functions call, against what [get_at_index] / [get_obj_key_at_index] /
    [get_obj_prop] of the reader model do with the node behind the handle (dispatch on the node kind, the error codes
    NotIndexable / NotAnObject, the child handle [SIdx] / [SVal] / [SKey]) *)
Theorem C01_code_get_at_index : forall W trap bs, Forall (fun b => b < 256) bs /\ lenN bs + 9 < 2 ^ W /\ 32 <= W ->
  forall f v idx p, sane (lenN bs) p (conv v) ->
  match conv v with LArr len _ _ | LObj len _ _ => len | _ => 0 end < 2 ^ W ->
  let hand := match conv v with
              | LArr len es e => arr_get W trap f bs len es e idx
              | LObj len es e => obj_get W trap f bs len es e idx
              | _ => (conv v, Err E_NotIndexable)
              end in
  snd hand <> OutOfFuel ->
  forall g, (2 * f + 2 <= g)%nat ->
  sim conv (fun v' x (_ : unit) =>
              get_node (conv v') [match conv v' with LArr _ _ _ => SIdx idx | _ => SVal idx end] = Some (conv x))
      (LazyValueRef_get_at_index W trap g v idx bs) hand.
Proof. exact loops_get_at_index. Qed.

Theorem C01_code_get_key_at_index : forall W trap bs, Forall (fun b => b < 256) bs /\ lenN bs + 9 < 2 ^ W /\ 32 <= W ->
  forall f v idx p, sane (lenN bs) p (conv v) ->
  match conv v with LArr len _ _ | LObj len _ _ => len | _ => 0 end < 2 ^ W ->
  let hand := match conv v with
              | LObj len es e => obj_get W trap f bs len es e idx
              | _ => (conv v, Err E_NotAnObject)
              end in
  snd hand <> OutOfFuel ->
  forall g, (2 * f + 2 <= g)%nat ->
  sim conv (fun v' x (_ : unit) => get_node (conv v') [SKey idx] = Some (conv x))
      (LazyValueRef_get_key_at_index W trap g v idx bs) hand.
Proof. exact loops_get_key_at_index. Qed.

Theorem C01_code_get_object_property : forall W trap bs, Forall (fun b => b < 256) bs /\ lenN bs + 9 < 2 ^ W /\ 32 <= W ->
  forall f v key p, sane (lenN bs) p (conv v) ->
  match conv v with LArr len _ _ | LObj len _ _ => len | _ => 0 end < 2 ^ W ->
  let hand := match conv v with
              | LObj len es e => obj_prop W trap f bs key len es e
              | _ => (conv v, Err E_NotAnObject)
              end in
  snd hand <> OutOfFuel ->
  forall g, (2 * f + 2 <= g)%nat ->
  sim conv (fun v' (ov : option LazyValueRef) (oi : option N) =>
              match ov, oi with
              | Some x, Some i => get_node (conv v') [SVal i] = Some (conv x)
              | None, None => True
              | _, _ => False
              end)
      (LazyValueRef_get_object_property W trap g v key bs) hand.
Proof. exact loops_get_object_property. Qed.

Theorem C01_code_value_length : forall W trap g v,
  LazyValueRef_get_value_length W trap (S g) v =
  GOk (match conv v with LStr _ len | LArr len _ _ | LObj len _ _ => len | _ => 0 end).
Proof. exact loops_get_value_length. Qed.

Theorem C01_code_str_addr : forall W trap g v bs,
  LazyValueRef_get_utf8_str_addr W trap (S g) v bs =
  match conv v with
  | LStr ptr _ => if lenN bs <? ptr then GPanic P_slice else GOk ptr
  | _ => GOk 0
  end.
Proof. exact loops_str_addr. Qed.

(** every node of every state the reader model reaches satisfies the invariant assumed above *)
Theorem C01_code_loops_reachable : forall W trap bs ops, lenN bs < 2 ^ W -> Forall (fun b => b < 256) bs ->
  forall h n, node_of (roots (run W trap (fuel_bs bs) bs ops)) h = Some n -> exists p, sane (lenN bs) p n.
Proof. exact loops_reachable_sane. Qed.

Theorem C01_code_sim_meaning : forall (S A B : Type) (cv : S -> lz) (R : S -> A -> B -> Prop) g h,
  sim cv R g h <->
  match g with
  | GOk (s', ROk a) => cv s' = fst h /\ exists b, snd h = Ok b /\ R s' a b
  | GOk (s', RErr c) => cv s' = fst h /\ snd h = Err c
  | GPanic site => site <> P_fuel /\ exists s, snd h = Panic s
  end.
Proof. exact (@sim_meaning). Qed.

(** non-vacuity: the generated loops run on a concrete nested document and agree with the model, with the fuel of the statements *)
Example C01_code_loops_example :
  let bs := [0x94; 0x01; 0x92; 0x02; 0x92; 0x03; 0x91; 0x04; 0x81; 0xa1; 0x61; 0x92; 0x05; 0x06; 0x07] in
  match LazyValueRef_new 32 true bs 0 with
  | GOk (ROk (root, _)) =>
      snd (finish 32 true 12 bs (conv root)) = Ok (Some 15) /\
      match LazyValueRef_finish_processing 32 true 24 root bs with
      | GOk (v', r) => conv v' = fst (finish 32 true 12 bs (conv root)) /\ r = ROk (Some 15)
      | GPanic _ => False
      end
  | _ => False
  end.
Proof. vm_compute. repeat split; reflexivity. Qed.

(** * Whole call sequences on the translated reader

    [Read/GenRun.v] runs a sequence of read calls with every node operation done by the TRANSLATED Rust function
    ([LazyValueRef_new], [LazyValueRef_get_at_index], [_get_key_at_index], [_get_object_property], [_get_value_length],
    [_get_utf8_str_addr], hence the translated loops and [finish_processing] below them) over trees of the translated type;
    what stays hand-written there is the bookkeeping that models raw addresses (handles as paths into the forest of roots, the
    position of the pair a by-name lookup returns a reference to, the NaN-box of the answer).  [C01_code_run]: for EVERY input
    of bytes that does not fill the address space and EVERY call sequence, its outputs are exactly the outputs of the reader
    model and its trees are the model's under [conv] -- so C01, C08 and C11, proved about the model, are statements about
    traces of the translated code: [C01_code_reads] is C01 itself with [g_run] in place of the model. *)
Theorem C01_code_run : forall W trap bs ops,
  Forall (fun b => b < 256) bs -> lenN bs + 9 < 2 ^ W -> 32 <= W ->
  gouts (g_run W trap bs ops) = outs (run W trap (fuel_bs bs) bs ops) /\
  map conv (groots (g_run W trap bs ops)) = roots (run W trap (fuel_bs bs) bs ops).
Proof. exact gen_run_eq. Qed.

Theorem C01_code_reads : forall (W : N) (trap : bool) (w : wire),
  wf w = true -> no_nan w = true -> lenN (enc w) + 9 < 2 ^ W -> 32 <= W ->
  forall ops : list rop, gouts (g_run W trap (enc w) ops) = spec_run w ops.
Proof.
  intros W trap w Hwf Hnn HW H32 ops.
  destruct (gen_run_eq W trap (enc w) ops (SeqCorollaries.enc_bytes w Hwf) HW H32) as [E _].
  rewrite E. apply (ReadProofs.C01_strong W trap w Hwf Hnn).
  apply N.le_lt_trans with (lenN (enc w) + 9); [apply N.le_add_r|exact HW].
Qed.

Example C01_code_run_example :
  let bs := [0x82; 0xa1; 0x61; 0x92; 0x05; 0xa1; 0x62; 0xa1; 0x62; 0xc3] in
  gouts (g_run 32 true bs [RRoot; RProp (Some 0) [0x61]; RIdx (Some 1) 1; RStr (Some 2); RKey (Some 0) 1; RIdx (Some 1) 7]) =
  [OVal (AObj (0, []) 2); OVal (AArr (0, [SVal 0]) 2); OVal (AStr (0, [SVal 0; SIdx 1]) 1); OBytes (Some [0x62]);
   OVal (AStr (0, [SKey 1]) 1); OVal (AErr E_IndexOOB)].
Proof. vm_compute. reflexivity. Qed.

(** * The exported read functions (provider/src/read.rs): scope decode, dispatch, error codes -- regenerated (Gen/ReadAbiGen.v)

    The six exported functions that take a NaN-boxed scope or a node address are regenerated by T8 with the raw-address
    dereference ([LazyValueRef::mut_from_raw] = oracle [node_at]) and the node operations as oracle parameters (what those DO is
    [C01_code_run] and the theorems above).  For EVERY oracle instance whose error codes are [usize] values, every context and every
    scope bit pattern, at both pointer widths, each translated function is a closed-form dispatch on the model's [try_decode] of
    the scope: which kinds are accepted, which error code each other kind gets (NotAnObject / NotIndexable; an undecodable scope
    is DecodeError for the by-name reads and ReadError for the indexed ones), null for a missing property, [usize::MAX] from the
    length query.  [C01_code_abi_model_dispatch] / [C01_code_abi_codes]: the reader model answers the same scope classes with the same
    codes.  (The statements are the types of the lemmas of Read/ReadAbiEq.v, printed in full in coq/pins/C01.golden.) *)
Theorem C01_code_abi_get_obj_prop : ltac:(let t := type of @abi_get_obj_prop_eq in exact t).
Proof. exact @abi_get_obj_prop_eq. Qed.
Theorem C01_code_abi_get_interned_obj_prop : ltac:(let t := type of @abi_get_interned_obj_prop_eq in exact t).
Proof. exact @abi_get_interned_obj_prop_eq. Qed.
Theorem C01_code_abi_get_interned_obj_prop_as_by_name : ltac:(let t := type of @abi_get_interned_obj_prop_as_by_name in exact t).
Proof. exact @abi_get_interned_obj_prop_as_by_name. Qed.
Theorem C01_code_abi_get_at_index : ltac:(let t := type of @abi_get_at_index_eq in exact t).
Proof. exact @abi_get_at_index_eq. Qed.
Theorem C01_code_abi_get_obj_key_at_index : ltac:(let t := type of @abi_get_obj_key_at_index_eq in exact t).
Proof. exact @abi_get_obj_key_at_index_eq. Qed.
Theorem C01_code_abi_get_val_len : ltac:(let t := type of @abi_get_val_len_eq in exact t).
Proof. exact @abi_get_val_len_eq. Qed.
Theorem C01_code_abi_get_utf8_str_addr : ltac:(let t := type of @abi_get_utf8_str_addr_eq in exact t).
Proof. exact @abi_get_utf8_str_addr_eq. Qed.
Theorem C01_code_abi_model_dispatch : ltac:(let t := type of @model_scope_dispatch in exact t).
Proof. exact @model_scope_dispatch. Qed.
Theorem C01_code_abi_model_val_len : ltac:(let t := type of @model_val_len_dispatch in exact t).
Proof. exact @model_val_len_dispatch. Qed.
Theorem C01_code_abi_codes : ltac:(let t := type of @abi_codes_agree in exact t).
Proof. exact @abi_codes_agree. Qed.

(** * The exported read functions at the ABI level, both translations plugged together (Read/AbiCall.v)

    [abi_get_at_index], [abi_get_obj_key_at_index], [abi_get_obj_prop], [abi_get_val_len] are the translated exported functions
    of provider/src/read.rs (Gen/ReadAbiGen.v) with their oracles INSTANTIATED by the translated node operations
    (Gen/LazyLoopsGen.v) on the forest of Read/GenRun.v; the only thing left abstract is the address of a node (any map [addr]
    from handles to addresses with a left inverse).  For every reachable state of [g_run] and a scope that is the NaN box of an
    earlier answer [a] ([bits_of_answer]: what [LazyValueRef::encode] / [NanBox::error] / [NanBox::null] / [NanBox::number] return)
    each returns the NaN box of what the corresponding call of Read/GenRun.v returns -- NaN-boxed scope in, NaN-boxed answer out;
    an undecodable scope gets the documented error.  Explicit hypotheses (see Read/AbiCallEq.v): [answer_wf] (the address of the
    scope's handle is a non-null usize, numbers are not NaN, error codes are usize values), [answer_live] (the node behind the
    handle is in the forest: proved for strings, [C01_code_abi_call_live_str]; for containers the arena never frees, which the
    model has no invariant for on arbitrary bytes), [out_wf] (the call's own error code is a usize value).
    (The statements are the types of the lemmas of Read/AbiCallEq.v, printed in full in coq/pins/C01.golden.) *)
Theorem C01_code_abi_call_get_at_index : ltac:(let t := type of @abi_call_get_at_index in exact t).
Proof. exact @abi_call_get_at_index. Qed.
Theorem C01_code_abi_call_get_obj_key_at_index : ltac:(let t := type of @abi_call_get_obj_key_at_index in exact t).
Proof. exact @abi_call_get_obj_key_at_index. Qed.
Theorem C01_code_abi_call_get_obj_prop : ltac:(let t := type of @abi_call_get_obj_prop in exact t).
Proof. exact @abi_call_get_obj_prop. Qed.
Theorem C01_code_abi_call_get_val_len : ltac:(let t := type of @abi_call_get_val_len in exact t).
Proof. exact @abi_call_get_val_len. Qed.
Theorem C01_code_abi_call_get_at_index_garbage : ltac:(let t := type of @abi_call_get_at_index_garbage in exact t).
Proof. exact @abi_call_get_at_index_garbage. Qed.
Theorem C01_code_abi_call_get_obj_key_at_index_garbage : ltac:(let t := type of @abi_call_get_obj_key_at_index_garbage in exact t).
Proof. exact @abi_call_get_obj_key_at_index_garbage. Qed.
Theorem C01_code_abi_call_get_obj_prop_garbage : ltac:(let t := type of @abi_call_get_obj_prop_garbage in exact t).
Proof. exact @abi_call_get_obj_prop_garbage. Qed.
Theorem C01_code_abi_call_get_val_len_garbage : ltac:(let t := type of @abi_call_get_val_len_garbage in exact t).
Proof. exact @abi_call_get_val_len_garbage. Qed.
Theorem C01_code_abi_call_live_str : ltac:(let t := type of @answer_live_str in exact t).
Proof. exact @answer_live_str. Qed.
