(** Hand-written support for the T8 translation of core/src/read.rs (Gen/NanBoxFnGen.v): the three
    items of the Rust source that are derive-macro output or closures, which translators/rs2v does not
    translate, expressed over the regenerated tables of Gen/NanBoxGen.v:
      - [NanBox::tag] + [Tag::from_val] ([u8::try_from] then [strum::FromRepr]): the tag field if it is
        the discriminant of a [Tag] variant;
      - [Tag::as_val] ([*self as Val]): the discriminant itself;
      - [ErrorCode::from_repr(x).unwrap_or(d)] ([strum::FromRepr]). *)
From Coq Require Import NArith Bool List.
From SFV Require Import Gen.NanBoxGen NanBox.NanBox.
Open Scope N_scope.

Definition nb_tag_opt (W : N) (v : N) : option N := tag_of W v.
Definition tag_as_val (W : N) (t : N) : N := t.
Definition ErrorCode_from_repr_or (W : N) (v d : N) : N :=
  if existsb (fun p => snd p =? v) (ErrorCode_variants W) then v else d.
