(** Exhaustive evaluation of the W = 32 decision table over the decision-relevant bits
    (13-bit prefix x 4-bit tag; the sign and the payload are covered by spot sweeps here and by the
    structural theorem [classify_correct_32]).  This is an independent, purely computational
    cross-check of [NanBoxProofs.classify_correct_32]: it runs the model itself ([try_decode],
    [is_boxed], with the generated constants) on 2^17 + 768 bit patterns. *)
From Coq Require Import NArith ZArith Lia List Bool ZifyNat ZifyN ZifyBool.
From SFV Require Import Gen.NanBoxGen Base.F64 NanBox.NanBox NanBox.NanBoxProofs.
Import ListNotations.
Open Scope N_scope.

Definition N_range (n : N) : list N := map N.of_nat (seq 0 (N.to_nat n)).

Lemma In_N_range n x : x < n -> In x (N_range n).
Proof.
  intros H. unfold N_range. apply in_map_iff. exists (N.to_nat x). split; [lia|].
  apply in_seq. lia.
Qed.

Definition check32 (sign : bool) (pre tag pay : N) : bool :=
  let v := mk_val32 sign pre tag pay in
  Bool.eqb (is_boxed 32 v) (pre =? 8191) &&
  kind_eqb (kind_of (try_decode 32 v)) (classify pre tag sign).

(** all 2^13 prefixes x all 2^4 tags (sign 0, payload 0) *)
Definition row32 (pre : N) : bool := forallb (fun tag => check32 false pre tag 0) (N_range 16).
Definition sweep32 : bool := forallb row32 (N_range 8192).

(** both signs, extreme payloads, around the boundary prefixes *)
Definition sweep32_spot : bool :=
  forallb (fun sign => forallb (fun pre => forallb (fun tag => forallb (fun pay =>
    check32 sign pre tag pay) [0; 2^32 - 1; 2^32; 2^46 - 1]) (N_range 16))
    [0; 1; 4095; 4096; 8190; 8191]) [false; true].

(* stated in the unfolded form on purpose: unifying [sweep32] with [forallb _ _] later would
   make the unifier evaluate the whole sweep with the slow lazy machine *)
Lemma sweep32_ok : forallb row32 (N_range 8192) = true.
Proof. vm_cast_no_check (eq_refl true). Qed.

Lemma sweep32_spot_ok : sweep32_spot = true.
Proof. vm_compute. reflexivity. Qed.

Lemma forallb_In {A} (f : A -> bool) l x : forallb f l = true -> In x l -> f x = true.
Proof. intros H. exact (proj1 (forallb_forall f l) H x). Qed.

Lemma sweep32_lifted pre tag : pre < 2^13 -> tag < 16 ->
  is_boxed 32 (mk_val32 false pre tag 0) = (pre =? 8191) /\
  kind_of (try_decode 32 (mk_val32 false pre tag 0)) = classify pre tag false.
Proof.
  intros Hp Ht. change (2^13) with 8192 in Hp.
  pose proof (forallb_In row32 (N_range 8192) pre sweep32_ok (In_N_range 8192 pre Hp)) as R.
  unfold row32 in R.
  pose proof (forallb_In _ (N_range 16) tag R (In_N_range 16 tag Ht)) as S.
  cbv beta in S. unfold check32 in S. cbv zeta in S.
  apply andb_true_iff in S. destruct S as [S1 S2].
  split; [apply eqb_prop; exact S1 | apply kind_eqb_eq; exact S2].
Qed.
