(** The NaN-box model over which C06 is proved (NanBox/NanBox.v) IS the Rust code, at BOTH pointer widths:
    [NanBox::encode], the seven constructors and [NanBox::try_decode] of core/src/read.rs, regenerated
    from the source by translator T8 into Gen/NanBoxFnGen.v (arithmetic at the widths of the Rust types:
    [Val] = 2W bits, [usize] = W bits, shifts checked against the width, casts truncating, the
    [#[cfg(target_pointer_width)]] lets selected by W), compute exactly what the model's functions
    compute, for every argument in the range of its Rust type and both overflow modes.

    Not translated (hand-written in NanBox/NanBoxExt.v over the regenerated tables): [NanBox::tag] +
    [Tag::from_val] and the two [strum::FromRepr] derives. *)
From Coq Require Import NArith Bool List Lia.
From SFV Require Import Base.Bytes Base.F64 Base.RsPrelude Gen.NanBoxGen NanBox.NanBox NanBox.NanBoxExt Gen.NanBoxFnGen.
Import ListNotations.
Open Scope N_scope.

Definition conv_val (v : value_ref) : ValueRef :=
  match v with
  | VNull => ValueRef_Null
  | VBool b => ValueRef_Bool b
  | VNumber x => ValueRef_Number x
  | VString p l => ValueRef_String p l
  | VObject p l => ValueRef_Object p l
  | VArray p l => ValueRef_Array p l
  | VError c => ValueRef_Error c
  end.

(** [Result<ValueRef, _>]: the error text is not observable; the model's [DPanic] is never produced. *)
Definition conv_dec (d : decoded) : gres (option ValueRef) :=
  match d with
  | DOk v => GOk (Some (conv_val v))
  | DErr => GOk None
  | DPanic => GPanic 0
  end.

Definition agree_opt (g : gres N) (h : option N) : Prop :=
  match g, h with
  | GOk a, Some b => a = b
  | GPanic _, None => True
  | _, _ => False
  end.

Lemma is_nan_same bits : is_nan bits = f64_is_nan bits.
Proof.
  unfold is_nan, decode, f64_is_nan, f_expo, f_mant. cbv zeta.
  destruct ((bits / 2 ^ 52) mod 2 ^ 11 =? 2047).
  - destruct (bits mod 2 ^ 52 =? 0); reflexivity.
  - destruct ((bits / 2 ^ 52) mod 2 ^ 11 =? 0); reflexivity.
Qed.

Lemma tag_of_in W v t : tag_of W v = Some t -> existsb (fun p => snd p =? t) (Tag_variants W) = true.
Proof.
  unfold tag_of. cbv zeta.
  set (t0 := N.shiftr (N.land v (PAYLOAD_MASK W)) (VALUE_SIZE W)).
  destruct (t0 <? 256); cbn [andb]; [|discriminate].
  destruct (existsb (fun p => snd p =? t0) (Tag_variants W)) eqn:E; [|discriminate].
  intros H. injection H as <-. exact E.
Qed.

(** closed side conditions, by computation, at each width *)
Ltac side W :=
  replace (F64_OFFSET W <? 2 * W) with true by (vm_compute; reflexivity);
  replace (VALUE_ENCODING_SIZE W <? 2 * W) with true by (vm_compute; reflexivity);
  replace (VALUE_SIZE W <? 2 * W) with true by (vm_compute; reflexivity).

Lemma pow_2w_32 : 2 ^ (2 * 32) = 2 ^ 64. Proof. reflexivity. Qed.

Section Eq.
Variable trap : bool.

Lemma encode_eq_w W : W = 32 \/ W = 64 -> forall ptr len tag, ptr < 2 ^ W ->
  NanBox_encode W trap ptr len tag = GOk (encode W ptr len tag).
Proof.
  intros HW ptr len tag Hp.
  assert (Hp2 : ptr < 2 ^ (2 * W)).
  { eapply N.lt_le_trans; [exact Hp|]. apply N.pow_le_mono_r; lia. }
  assert (Hm : N.min len (MAX_VALUE_LENGTH W) < 2 ^ (2 * W)).
  { apply N.min_lt_iff. right. destruct HW as [-> | ->]; vm_compute; reflexivity. }
  unfold NanBox_encode, encode, u_shl, u_cast, tag_as_val, wrap_val, val_bits.
  rewrite (N.mod_small ptr) by exact Hp2.
  rewrite (N.mod_small (N.min len (MAX_VALUE_LENGTH W))) by exact Hm.
  destruct HW as [-> | ->].
  - side 32. cbn [gbind]. reflexivity.
  - side 64. cbn [gbind]. reflexivity.
Qed.

Lemma number_eq_w W : W = 32 \/ W = 64 -> forall bits, bits < 2 ^ 64 ->
  agree_opt (NanBox_number W trap bits) (nb_number W bits).
Proof.
  intros HW bits Hb.
  assert (Hb2 : bits < 2 ^ (2 * W)).
  { eapply N.lt_le_trans; [exact Hb|]. apply N.pow_le_mono_r; destruct HW as [-> | ->]; lia. }
  unfold NanBox_number, nb_number, u_shl, u_cast, wrap_val, val_bits.
  rewrite is_nan_same. rewrite (N.mod_small bits) by exact Hb2.
  destruct (f64_is_nan bits); cbn [negb agree_opt]; [exact I|].
  destruct HW as [-> | ->].
  - side 32. cbn [gbind agree_opt]. reflexivity.
  - side 64. cbn [gbind agree_opt]. reflexivity.
Qed.

(** the tag chain: same tests in the same order; the final arm of the translated [match] (no variant) is
    unreachable because [tag_of] only returns discriminants of [Tag] *)
Lemma chain_eq W (t ptr len val : N) :
  existsb (fun p => snd p =? t) (Tag_variants W) = true ->
  (if t =? TAG_Bool W then GOk (Some (ValueRef_Bool (negb (ptr =? 0))))
   else if t =? TAG_Null W then GOk (Some ValueRef_Null)
   else if t =? TAG_Number W then GOk None
   else if t =? TAG_Array W then GOk (Some (ValueRef_Array ptr len))
   else if t =? TAG_String W then GOk (Some (ValueRef_String ptr len))
   else if t =? TAG_Object W then GOk (Some (ValueRef_Object ptr len))
   else if t =? TAG_Error W then GOk (Some (ValueRef_Error (ErrorCode_from_repr_or W val (EC_Unknown W))))
   else GPanic P_match)
  = conv_dec
  (if t =? TAG_Bool W then DOk (VBool (negb (ptr =? 0)))
   else if t =? TAG_Null W then DOk VNull
   else if t =? TAG_Number W then DErr
   else if t =? TAG_Array W then DOk (VArray ptr len)
   else if t =? TAG_String W then DOk (VString ptr len)
   else if t =? TAG_Object W then DOk (VObject ptr len)
   else if t =? TAG_Error W then DOk (VError (error_of_repr W val))
   else DErr).
Proof.
  intros Hin.
  destruct (t =? TAG_Bool W) eqn:E1; [reflexivity|].
  destruct (t =? TAG_Null W) eqn:E2; [reflexivity|].
  destruct (t =? TAG_Number W) eqn:E3; [reflexivity|].
  destruct (t =? TAG_Array W) eqn:E4; [reflexivity|].
  destruct (t =? TAG_String W) eqn:E5; [reflexivity|].
  destruct (t =? TAG_Object W) eqn:E6; [reflexivity|].
  destruct (t =? TAG_Error W) eqn:E7; [reflexivity|].
  exfalso. unfold Tag_variants in Hin. cbn [existsb snd] in Hin.
  rewrite (N.eqb_sym (TAG_Null W) t), (N.eqb_sym (TAG_Bool W) t), (N.eqb_sym (TAG_Number W) t),
    (N.eqb_sym (TAG_String W) t), (N.eqb_sym (TAG_Object W) t), (N.eqb_sym (TAG_Array W) t),
    (N.eqb_sym (TAG_Error W) t) in Hin.
  rewrite E1, E2, E3, E4, E5, E6, E7 in Hin. discriminate Hin.
Qed.

Lemma try_decode_eq_w W : W = 32 \/ W = 64 -> forall v, v < 2 ^ (2 * W) ->
  NanBox_try_decode W trap v = conv_dec (try_decode W v).
Proof.
  intros HW v Hv.
  unfold NanBox_try_decode, try_decode, u_shr, u_cast, nb_tag_opt.
  destruct (negb (N.land v (NAN_MASK W) =? NAN_MASK W)).
  - destruct HW as [-> | ->].
    + (* W = 32: Val = u64, the bits are the double *)
      change (32 =? 32) with true. cbv iota. cbn [conv_dec conv_val].
      replace (F64_OFFSET 32) with 0 by (vm_compute; reflexivity).
      rewrite N.shiftr_0_r. rewrite pow_2w_32 in Hv. rewrite (N.mod_small v) by exact Hv. reflexivity.
    + change (64 =? 32) with false. cbv iota. side 64. cbn [gbind conv_dec conv_val]. reflexivity.
  - cbv zeta.
    assert (Hs : VALUE_ENCODING_SIZE W <? 2 * W = true) by (destruct HW as [-> | ->]; vm_compute; reflexivity).
    rewrite Hs. cbn [gbind].
    destruct (tag_of W v) as [t|] eqn:E; [|reflexivity].
    apply chain_eq. exact (tag_of_in W v t E).
Qed.

(** the constructors are [encode] with the variant's discriminant *)
Lemma ctor_eq_w W : W = 32 \/ W = 64 -> forall ptr len, ptr < 2 ^ W ->
  NanBox_string W trap ptr len = GOk (nb_string W ptr len) /\
  NanBox_obj W trap ptr len = GOk (nb_obj W ptr len) /\
  NanBox_array W trap ptr len = GOk (nb_array W ptr len).
Proof.
  intros HW ptr len Hp. unfold NanBox_string, NanBox_obj, NanBox_array, nb_string, nb_obj, nb_array.
  rewrite !(encode_eq_w W HW) by exact Hp. cbn [gbind]. repeat split.
Qed.

Lemma scalar_ctor_eq_w W : W = 32 \/ W = 64 ->
  (forall b, NanBox_bool W trap b = GOk (nb_bool W b)) /\
  NanBox_null W trap = GOk (nb_null W) /\
  (forall code, code < 2 ^ W -> NanBox_error W trap code = GOk (nb_error W code)).
Proof.
  intros HW. unfold NanBox_bool, NanBox_null, NanBox_error, nb_bool, nb_null, nb_error.
  assert (H0 : 0 < 2 ^ W) by (destruct HW as [-> | ->]; vm_compute; reflexivity).
  assert (H1 : 1 < 2 ^ W) by (destruct HW as [-> | ->]; vm_compute; reflexivity).
  repeat split.
  - intros b. cbv zeta. rewrite (encode_eq_w W HW) by (destruct b; assumption). cbn [gbind]. reflexivity.
  - rewrite (encode_eq_w W HW) by exact H0. cbn [gbind]. reflexivity.
  - intros code Hc. rewrite (encode_eq_w W HW) by exact Hc. cbn [gbind]. reflexivity.
Qed.

End Eq.

Example gen_nanbox_example :
  NanBox_string 32 true 0x1234 70000 = GOk (0x7FFC000000000000 + 3 * 2 ^ 46 + 16383 * 2 ^ 32 + 0x1234)
  /\ NanBox_try_decode 32 true (0x7FFC000000000000 + 3 * 2 ^ 46 + 16383 * 2 ^ 32 + 0x1234) = GOk (Some (ValueRef_String 0x1234 16383))
  /\ NanBox_try_decode 64 false (0x7FFC800000000000 * 2 ^ 64) = GOk None.
Proof. repeat split; vm_compute; reflexivity. Qed.
