(** Model of core/src/read.rs [NanBox]: encode / constructors / try_decode over [N], for a pointer
    width [W] (usize::BITS; Val::BITS = 2W).  Every mask, size and discriminant comes from the
    REGENERATED file SFV.Gen.NanBoxGen (translator T1); only the function bodies are transcribed
    by hand (validated by the C06 correspondence at W = 64 natively and W = 32 under Miri). *)
From Coq Require Import NArith Bool List.
From SFV Require Import Gen.NanBoxGen Base.F64.
Open Scope N_scope.

Section W.
Variable W : N.

Definition val_bits : N := 2 * W.
Definition wrap_val (x : N) : N := x mod 2 ^ val_bits.

(** [fn encode(ptr: usize, len: usize, tag: Tag) -> Self] ([tag] is the discriminant). *)
Definition encode (ptr len tag : N) : N :=
  let trimmed_len := N.min len (MAX_VALUE_LENGTH W) in
  let val := N.lor (wrap_val (N.shiftl trimmed_len (VALUE_ENCODING_SIZE W))) (N.land ptr (POINTER_MASK W)) in
  N.lor (N.lor (NAN_MASK W) (wrap_val (N.shiftl tag (VALUE_SIZE W)))) val.

Definition nb_bool (b : bool) : N := encode (if b then 1 else 0) 0 (TAG_Bool W).
Definition nb_null : N := encode 0 0 (TAG_Null W).
Definition nb_string (ptr len : N) : N := encode ptr len (TAG_String W).
Definition nb_obj (ptr len : N) : N := encode ptr len (TAG_Object W).
Definition nb_array (ptr len : N) : N := encode ptr len (TAG_Array W).
Definition nb_error (code : N) : N := encode code 0 (TAG_Error W).

(** [fn number(val: f64)]: [None] is the [assert!(!val.is_nan())] panic. *)
Definition nb_number (bits : N) : option N :=
  if is_nan bits then None else Some (wrap_val (N.shiftl bits (F64_OFFSET W))).

Inductive value_ref :=
| VNull | VBool (b : bool) | VNumber (bits : N)
| VString (ptr len : N) | VObject (ptr len : N) | VArray (ptr len : N)
| VError (code : N).

Inductive decoded :=
| DOk (v : value_ref)
| DErr                       (* Err(_): unknown tag *)
| DPanic.                    (* unused since the repair (was: unreachable!("Number values are not NaN-boxed.")) *)

(** [ErrorCode::from_repr(val as usize).unwrap_or(ErrorCode::Unknown)] *)
Definition error_of_repr (v : N) : N :=
  if existsb (fun p => snd p =? v) (ErrorCode_variants W) then v else EC_Unknown W.

(** [fn tag(&self)] + [Tag::from_val]: the discriminant if it is one of the enum's, else None. *)
Definition tag_of (v : N) : option N :=
  let t := N.shiftr (N.land v (PAYLOAD_MASK W)) (VALUE_SIZE W) in
  if (t <? 256) && existsb (fun p => snd p =? t) (Tag_variants W) then Some t else None.

(** [fn try_decode(&self)] *)
Definition try_decode (v : N) : decoded :=
  if negb (N.land v (NAN_MASK W) =? NAN_MASK W) then
    DOk (VNumber ((N.shiftr v (F64_OFFSET W)) mod 2 ^ 64))
  else
    let val := N.land v (VALUE_MASK W) in
    let ptr := (N.land val (POINTER_MASK W)) mod 2 ^ W in
    let len := (N.shiftr val (VALUE_ENCODING_SIZE W)) mod 2 ^ W in
    match tag_of v with
    | None => DErr
    | Some t =>
        if t =? TAG_Bool W then DOk (VBool (negb (ptr =? 0)))
        else if t =? TAG_Null W then DOk VNull
        else if t =? TAG_Number W then DErr
        else if t =? TAG_Array W then DOk (VArray ptr len)
        else if t =? TAG_String W then DOk (VString ptr len)
        else if t =? TAG_Object W then DOk (VObject ptr len)
        else if t =? TAG_Error W then DOk (VError (error_of_repr (val mod 2 ^ W)))
        else DErr
    end.

Definition is_boxed (v : N) : bool := N.land v (NAN_MASK W) =? NAN_MASK W.

End W.
