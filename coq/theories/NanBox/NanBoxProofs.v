(** Proofs about the NaN-box model (SFV.NanBox.NanBox) for both pointer widths W = 32 and W = 64.
    The generated constants (SFV.Gen.NanBoxGen) are used only through their VALUES at W = 32 / 64,
    established by [vm_compute] in the [layout] records [K32] / [K64]. *)
From Coq Require Import NArith ZArith Lia List Bool ZifyN ZifyBool.
From SFV Require Import Gen.NanBoxGen Base.F64 NanBox.NanBox.
Import ListNotations.
Open Scope N_scope.
Ltac Zify.zify_post_hook ::= Z.div_mod_to_equations.

(* ------------------------------------------------------------------ *)
(** * Generic bit facts *)

Lemma lor_disjoint_add a b k : b < 2^k -> N.lor (a * 2^k) b = a * 2^k + b.
Proof.
  intros Hb.
  assert (Z : N.land (a * 2^k) b = 0).
  { apply N.bits_inj_0. intro n. rewrite N.land_spec.
    destruct (N.ltb_spec n k).
    - rewrite N.mul_pow2_bits_low; auto.
    - destruct (N.eq_dec b 0) as [->|Hb0]; [rewrite N.bits_0; apply andb_false_r|].
      rewrite (N.bits_above_log2 b n); [apply andb_false_r|].
      apply N.lt_le_trans with k; auto. apply N.log2_lt_pow2; lia. }
  rewrite <- N.lxor_lor by exact Z. symmetry. apply N.add_nocarry_lxor. exact Z.
Qed.

(** Masking with a shifted block of ones extracts a bit field. *)
Lemma land_ones_shifted v k s :
  N.land v (N.ones k * 2^s) = ((v / 2^s) mod 2^k) * 2^s.
Proof.
  apply N.bits_inj. intro n. rewrite N.land_spec.
  destruct (N.ltb_spec n s) as [Hn|Hn].
  - rewrite !N.mul_pow2_bits_low by assumption. apply andb_false_r.
  - rewrite !N.mul_pow2_bits_high by assumption.
    rewrite <- N.land_ones, N.land_spec, <- N.shiftr_div_pow2, N.shiftr_spec by apply N.le_0_l.
    replace (n - s + s) with n by lia. reflexivity.
Qed.

(* ------------------------------------------------------------------ *)
(** * The values of the generated constants *)

Record layout (W VB O VS PS LEN : N) : Prop := {
  k_off  : F64_OFFSET W = O;
  k_ps   : PAYLOAD_SIZE W = PS;
  k_vs   : VALUE_SIZE W = VS;
  k_ves  : VALUE_ENCODING_SIZE W = W;
  k_vls  : VALUE_LENGTH_SIZE W = LEN;
  k_ts   : TAG_SIZE W = 4;
  k_nan  : NAN_MASK W = 8191 * 2^PS;
  k_pay  : PAYLOAD_MASK W = N.ones PS;
  k_val  : VALUE_MASK W = N.ones VS;
  k_ptr  : POINTER_MASK W = N.ones W;
  k_tagm : TAG_MASK W = 15 * 2^VS;
  k_max  : MAX_VALUE_LENGTH W = 2^LEN - 1;
  k_bits : val_bits W = VB;
  k_tnull : TAG_Null W = 0;
  k_tbool : TAG_Bool W = 1;
  k_tnum  : TAG_Number W = 2;
  k_tstr  : TAG_String W = 3;
  k_tobj  : TAG_Object W = 4;
  k_tarr  : TAG_Array W = 5;
  k_terr  : TAG_Error W = 15;
  k_tags  : map snd (Tag_variants W) = [0; 1; 2; 3; 4; 5; 15];
  k_ecs   : map snd (ErrorCode_variants W) = [0; 1; 2; 3; 4; 5; 6; 7];
  k_unk   : EC_Unknown W = 7
}.

Lemma K32 : layout 32 64 0 46 50 14.
Proof. split; vm_compute; reflexivity. Qed.

Lemma K64 : layout 64 128 64 110 114 46.
Proof. split; vm_compute; reflexivity. Qed.

(* ------------------------------------------------------------------ *)
(** * T1: arithmetic layout of [encode] *)

Ltac encode_arith_tac K W VS PS LEN :=
  let p := fresh "p" in let l := fresh "l" in let t := fresh "t" in
  let Hp := fresh "Hp" in let Ht := fresh "Ht" in let tl := fresh "tl" in let Hl := fresh "Hl" in
  intros p l t Hp Ht; unfold encode, wrap_val;
  rewrite (k_bits _ _ _ _ _ _ K), (k_max _ _ _ _ _ _ K), (k_ves _ _ _ _ _ _ K),
          (k_ptr _ _ _ _ _ _ K), (k_nan _ _ _ _ _ _ K), (k_vs _ _ _ _ _ _ K);
  assert (Hl : N.min l (2^LEN - 1) < 2^LEN) by lia;
  set (tl := N.min l (2^LEN - 1)) in *;
  rewrite N.land_ones, (N.mod_small p) by assumption;
  rewrite !N.shiftl_mul_pow2;
  rewrite (N.mod_small (tl * 2^W)) by lia;
  rewrite (N.mod_small (t * 2^VS)) by lia;
  rewrite (lor_disjoint_add tl p W) by assumption;
  rewrite (lor_disjoint_add 8191 (t * 2^VS) PS) by lia;
  replace (8191 * 2^PS + t * 2^VS) with ((8191 * 16 + t) * 2^VS) by lia;
  rewrite (lor_disjoint_add _ (tl * 2^W + p) VS) by lia;
  lia.

Lemma encode_arith_32 : forall p l t, p < 2^32 -> t < 16 ->
  encode 32 p l t = 8191 * 2^50 + t * 2^46 + N.min l (2^14 - 1) * 2^32 + p.
Proof. encode_arith_tac K32 32 46 50 14. Qed.

Lemma encode_arith_64 : forall p l t, p < 2^64 -> t < 16 ->
  encode 64 p l t = 8191 * 2^114 + t * 2^110 + N.min l (2^46 - 1) * 2^64 + p.
Proof. encode_arith_tac K64 64 110 114 46. Qed.

(* ------------------------------------------------------------------ *)
(** * Decoding in terms of bit fields *)

Lemma eqb_mul_pow2 a b k : (a * 2^k =? b * 2^k) = (a =? b).
Proof.
  assert (2^k <> 0) by (apply N.pow_nonzero; discriminate).
  destruct (N.eqb_spec a b) as [->|Hne]; [apply N.eqb_refl|].
  apply N.eqb_neq. intro E. apply N.mul_cancel_r in E; auto.
Qed.

Definition tag_lookup (W t : N) : option N :=
  if (t <? 256) && existsb (fun p => snd p =? t) (Tag_variants W) then Some t else None.

Definition dispatch (W : N) (nc : decoded) (ot : option N) (b : bool) (ptr len ec : N) : decoded :=
  match ot with
  | None => DErr
  | Some t =>
     if t =? TAG_Bool W then DOk (VBool b)
     else if t =? TAG_Null W then DOk VNull
     else if t =? TAG_Number W then nc
     else if t =? TAG_Array W then DOk (VArray ptr len)
     else if t =? TAG_String W then DOk (VString ptr len)
     else if t =? TAG_Object W then DOk (VObject ptr len)
     else if t =? TAG_Error W then DOk (VError ec)
     else DErr
  end.

Definition try_decode_gen (W : N) (nc : decoded) (v : N) : decoded :=
  if negb (N.land v (NAN_MASK W) =? NAN_MASK W) then
    DOk (VNumber ((N.shiftr v (F64_OFFSET W)) mod 2 ^ 64))
  else
    let val := N.land v (VALUE_MASK W) in
    let ptr := (N.land val (POINTER_MASK W)) mod 2 ^ W in
    let len := (N.shiftr val (VALUE_ENCODING_SIZE W)) mod 2 ^ W in
    dispatch W nc (tag_lookup W (N.shiftr (N.land v (PAYLOAD_MASK W)) (VALUE_SIZE W)))
             (negb (ptr =? 0)) ptr len (error_of_repr W (val mod 2 ^ W)).

(** [nc] is the outcome for the Number tag under a NaN prefix: [DErr] in the (repaired) Rust code,
    [DPanic] ([unreachable!]) before commit 529b7f9. *)
Lemma try_decode_is_gen W v : try_decode W v = try_decode_gen W DErr v.
Proof. reflexivity. Qed.

Lemma tag_of_lookup W v :
  tag_of W v = tag_lookup W (N.shiftr (N.land v (PAYLOAD_MASK W)) (VALUE_SIZE W)).
Proof. reflexivity. Qed.

Definition spec_dispatch (nc : decoded) (t : N) (b : bool) (ptr len ec : N) : decoded :=
  match t with
  | 0 => DOk VNull
  | 1 => DOk (VBool b)
  | 2 => nc
  | 3 => DOk (VString ptr len)
  | 4 => DOk (VObject ptr len)
  | 5 => DOk (VArray ptr len)
  | 15 => DOk (VError ec)
  | _ => DErr
  end.

Definition spec_tag_lookup (t : N) : option N :=
  match t with
  | 0 | 1 | 2 | 3 | 4 | 5 | 15 => Some t
  | _ => None
  end.

Lemma lt16_cases t : t < 16 ->
  t = 0 \/ t = 1 \/ t = 2 \/ t = 3 \/ t = 4 \/ t = 5 \/ t = 6 \/ t = 7 \/ t = 8 \/ t = 9 \/
  t = 10 \/ t = 11 \/ t = 12 \/ t = 13 \/ t = 14 \/ t = 15.
Proof. lia. Qed.

Ltac cases16 H := apply lt16_cases in H; repeat (destruct H as [H|H]); subst.

Lemma dispatch_ok_32 nc t b ptr len ec : t < 16 ->
  dispatch 32 nc (tag_lookup 32 t) b ptr len ec = spec_dispatch nc t b ptr len ec.
Proof. intro H. cases16 H; vm_compute; reflexivity. Qed.
Lemma dispatch_ok_64 nc t b ptr len ec : t < 16 ->
  dispatch 64 nc (tag_lookup 64 t) b ptr len ec = spec_dispatch nc t b ptr len ec.
Proof. intro H. cases16 H; vm_compute; reflexivity. Qed.
Lemma tag_lookup_ok_32 t : t < 16 -> tag_lookup 32 t = spec_tag_lookup t.
Proof. intro H. cases16 H; vm_compute; reflexivity. Qed.
Lemma tag_lookup_ok_64 t : t < 16 -> tag_lookup 64 t = spec_tag_lookup t.
Proof. intro H. cases16 H; vm_compute; reflexivity. Qed.

(** Bit fields of a [Val] (sizes are the generated constants). *)
Definition f_pre (W v : N) : N := (v / 2 ^ PAYLOAD_SIZE W) mod 2 ^ 13.
Definition f_tag (W v : N) : N := (v / 2 ^ VALUE_SIZE W) mod 2 ^ TAG_SIZE W.
Definition f_len (W v : N) : N := (v / 2 ^ W) mod 2 ^ VALUE_LENGTH_SIZE W.
Definition f_ptr (W v : N) : N := v mod 2 ^ W.

Definition decode_fields (W : N) (nc : decoded) (v : N) : decoded :=
  if f_pre W v =? 8191 then
    spec_dispatch nc (f_tag W v) (negb (f_ptr W v =? 0)) (f_ptr W v) (f_len W v)
                  (error_of_repr W (f_ptr W v))
  else DOk (VNumber ((v / 2 ^ F64_OFFSET W) mod 2 ^ 64)).

Ltac kk K :=
  rewrite ?(k_bits _ _ _ _ _ _ K), ?(k_max _ _ _ _ _ _ K), ?(k_ves _ _ _ _ _ _ K),
          ?(k_ptr _ _ _ _ _ _ K), ?(k_nan _ _ _ _ _ _ K), ?(k_vs _ _ _ _ _ _ K),
          ?(k_ps _ _ _ _ _ _ K), ?(k_off _ _ _ _ _ _ K), ?(k_vls _ _ _ _ _ _ K),
          ?(k_ts _ _ _ _ _ _ K), ?(k_pay _ _ _ _ _ _ K), ?(k_val _ _ _ _ _ _ K).

Ltac is_boxed_tac K PS :=
  intro v; unfold is_boxed, f_pre; kk K;
  change (8191 * 2^PS) with (N.ones 13 * 2^PS);
  rewrite land_ones_shifted; change (N.ones 13) with 8191;
  apply eqb_mul_pow2.

Lemma is_boxed_pre_32 : forall v, is_boxed 32 v = (f_pre 32 v =? 8191).
Proof. is_boxed_tac K32 50. Qed.
Lemma is_boxed_pre_64 : forall v, is_boxed 64 v = (f_pre 64 v =? 8191).
Proof. is_boxed_tac K64 114. Qed.

Ltac fields_tac K W VS PS LEN isb disp :=
  intros nc v; unfold try_decode_gen, decode_fields;
  change (N.land v (NAN_MASK W) =? NAN_MASK W) with (is_boxed W v);
  rewrite isb; unfold f_pre, f_tag, f_ptr, f_len; kk K;
  rewrite !N.land_ones, !N.shiftr_div_pow2;
  replace ((v mod 2^PS) / 2^VS) with ((v / 2^VS) mod 2^4) by lia;
  replace (((v mod 2^VS) mod 2^W) mod 2^W) with (v mod 2^W) by lia;
  replace (((v mod 2^VS) / 2^W) mod 2^W) with ((v / 2^W) mod 2^LEN) by lia;
  replace ((v mod 2^VS) mod 2^W) with (v mod 2^W) by lia;
  destruct ((v / 2^PS) mod 2^13 =? 8191); cbn [negb]; [|reflexivity];
  apply disp; lia.

Lemma try_decode_gen_fields_32 : forall nc v, try_decode_gen 32 nc v = decode_fields 32 nc v.
Proof. fields_tac K32 32 46 50 14 is_boxed_pre_32 dispatch_ok_32. Qed.
Lemma try_decode_gen_fields_64 : forall nc v, try_decode_gen 64 nc v = decode_fields 64 nc v.
Proof. fields_tac K64 64 110 114 46 is_boxed_pre_64 dispatch_ok_64. Qed.

(* ------------------------------------------------------------------ *)
(** * Fields of an encoded value; round trips *)

(** [encode] only looks at the low W bits of the pointer. *)
Ltac encode_mask_tac K :=
  intros p l t; unfold encode; kk K; rewrite !N.land_ones, N.mod_mod by (apply N.pow_nonzero; discriminate);
  reflexivity.
Lemma encode_mask_32 : forall p l t, encode 32 p l t = encode 32 (p mod 2^32) l t.
Proof. encode_mask_tac K32. Qed.
Lemma encode_mask_64 : forall p l t, encode 64 p l t = encode 64 (p mod 2^64) l t.
Proof. encode_mask_tac K64. Qed.

Ltac fields_encode_tac K LEN arith :=
  intros p l t Hp Ht; rewrite (arith p l t Hp Ht);
  unfold f_pre, f_tag, f_len, f_ptr; kk K;
  assert (Hl : N.min l (2^LEN - 1) < 2^LEN) by lia;
  set (tl := N.min l (2^LEN - 1)) in *; clearbody tl;
  repeat split; lia.

Lemma fields_encode_32 : forall p l t, p < 2^32 -> t < 16 ->
  f_pre 32 (encode 32 p l t) = 8191 /\ f_tag 32 (encode 32 p l t) = t /\
  f_len 32 (encode 32 p l t) = N.min l (MAX_VALUE_LENGTH 32) /\ f_ptr 32 (encode 32 p l t) = p.
Proof. fields_encode_tac K32 14 encode_arith_32. Qed.
Lemma fields_encode_64 : forall p l t, p < 2^64 -> t < 16 ->
  f_pre 64 (encode 64 p l t) = 8191 /\ f_tag 64 (encode 64 p l t) = t /\
  f_len 64 (encode 64 p l t) = N.min l (MAX_VALUE_LENGTH 64) /\ f_ptr 64 (encode 64 p l t) = p.
Proof. fields_encode_tac K64 46 encode_arith_64. Qed.

Ltac decode_encode_tac flds gen :=
  intros nc p l t Hp Ht; rewrite gen; unfold decode_fields;
  destruct (flds p l t Hp Ht) as (-> & -> & -> & ->); reflexivity.

Lemma decode_encode_32 : forall nc p l t, p < 2^32 -> t < 16 ->
  try_decode_gen 32 nc (encode 32 p l t) =
  spec_dispatch nc t (negb (p =? 0)) p (N.min l (MAX_VALUE_LENGTH 32)) (error_of_repr 32 p).
Proof. decode_encode_tac fields_encode_32 try_decode_gen_fields_32. Qed.
Lemma decode_encode_64 : forall nc p l t, p < 2^64 -> t < 16 ->
  try_decode_gen 64 nc (encode 64 p l t) =
  spec_dispatch nc t (negb (p =? 0)) p (N.min l (MAX_VALUE_LENGTH 64)) (error_of_repr 64 p).
Proof. decode_encode_tac fields_encode_64 try_decode_gen_fields_64. Qed.

Definition width (W : N) : Prop := W = 32 \/ W = 64.

(** Combined form (both widths). *)
Lemma decode_encode W : width W -> forall nc p l t, p < 2^W -> t < 16 ->
  try_decode_gen W nc (encode W p l t) =
  spec_dispatch nc t (negb (p =? 0)) p (N.min l (MAX_VALUE_LENGTH W)) (error_of_repr W p).
Proof. intros [-> | ->]; [exact decode_encode_32 | exact decode_encode_64]. Qed.

Lemma layout_of_width W : width W -> exists VB O VS PS LEN, layout W VB O VS PS LEN.
Proof. intros [-> | ->]; do 5 eexists; [exact K32 | exact K64]. Qed.

(** * T2: pointer / length round trips (for the model parameterised by the Number-tag outcome) *)
Section RoundTrip.
Variable W : N.
Hypothesis HW : width W.
Variable nc : decoded.

Lemma gen_string p l : p < 2^W ->
  try_decode_gen W nc (nb_string W p l) = DOk (VString p (N.min l (MAX_VALUE_LENGTH W))).
Proof.
  intros Hp. destruct (layout_of_width W HW) as (VB & O & VS & PS & LEN & K).
  unfold nb_string. rewrite decode_encode by (rewrite ?(k_tstr _ _ _ _ _ _ K); auto; lia).
  rewrite (k_tstr _ _ _ _ _ _ K). reflexivity.
Qed.

Lemma gen_obj p l : p < 2^W ->
  try_decode_gen W nc (nb_obj W p l) = DOk (VObject p (N.min l (MAX_VALUE_LENGTH W))).
Proof.
  intros Hp. destruct (layout_of_width W HW) as (VB & O & VS & PS & LEN & K).
  unfold nb_obj. rewrite decode_encode by (rewrite ?(k_tobj _ _ _ _ _ _ K); auto; lia).
  rewrite (k_tobj _ _ _ _ _ _ K). reflexivity.
Qed.

Lemma gen_array p l : p < 2^W ->
  try_decode_gen W nc (nb_array W p l) = DOk (VArray p (N.min l (MAX_VALUE_LENGTH W))).
Proof.
  intros Hp. destruct (layout_of_width W HW) as (VB & O & VS & PS & LEN & K).
  unfold nb_array. rewrite decode_encode by (rewrite ?(k_tarr _ _ _ _ _ _ K); auto; lia).
  rewrite (k_tarr _ _ _ _ _ _ K). reflexivity.
Qed.

Lemma gen_null : try_decode_gen W nc (nb_null W) = DOk VNull.
Proof.
  destruct (layout_of_width W HW) as (VB & O & VS & PS & LEN & K).
  assert (0 < 2^W) by (destruct HW as [-> | ->]; lia).
  unfold nb_null. rewrite decode_encode by (rewrite ?(k_tnull _ _ _ _ _ _ K); auto; lia).
  rewrite (k_tnull _ _ _ _ _ _ K). reflexivity.
Qed.

Lemma gen_bool b : try_decode_gen W nc (nb_bool W b) = DOk (VBool b).
Proof.
  destruct (layout_of_width W HW) as (VB & O & VS & PS & LEN & K).
  assert (H1 : 1 < 2^W) by (destruct HW as [-> | ->]; lia).
  assert (H0 : 0 < 2^W) by (destruct HW as [-> | ->]; lia).
  unfold nb_bool.
  rewrite decode_encode; [ | assumption | destruct b; assumption | rewrite (k_tbool _ _ _ _ _ _ K); lia].
  rewrite (k_tbool _ _ _ _ _ _ K). destruct b; reflexivity.
Qed.

Lemma gen_error_raw c : c < 2^W ->
  try_decode_gen W nc (nb_error W c) = DOk (VError (error_of_repr W c)).
Proof.
  intros Hc. destruct (layout_of_width W HW) as (VB & O & VS & PS & LEN & K).
  unfold nb_error. rewrite decode_encode by (rewrite ?(k_terr _ _ _ _ _ _ K); auto; lia).
  rewrite (k_terr _ _ _ _ _ _ K). reflexivity.
Qed.
End RoundTrip.

Lemma error_of_repr_known W c : In c (map snd (ErrorCode_variants W)) -> error_of_repr W c = c.
Proof.
  intros Hin. unfold error_of_repr.
  destruct (existsb _ _) eqn:E; [reflexivity|].
  apply in_map_iff in Hin. destruct Hin as (x & Hx & Hin).
  assert (existsb (fun p => snd p =? c) (ErrorCode_variants W) = true).
  { apply existsb_exists. exists x. split; auto. subst. apply N.eqb_refl. }
  congruence.
Qed.

Lemma error_of_repr_unknown W c : ~ In c (map snd (ErrorCode_variants W)) -> error_of_repr W c = EC_Unknown W.
Proof.
  intros Hin. unfold error_of_repr.
  destruct (existsb _ _) eqn:E; [|reflexivity].
  apply existsb_exists in E. destruct E as (x & Hx & E). apply N.eqb_eq in E. subst.
  exfalso. apply Hin. apply in_map. exact Hx.
Qed.

Lemma known_code_lt W : width W -> forall c, In c (map snd (ErrorCode_variants W)) -> c < 2^W.
Proof.
  intros HW c Hin. destruct (layout_of_width W HW) as (VB & O & VS & PS & LEN & K).
  rewrite (k_ecs _ _ _ _ _ _ K) in Hin. cbn [In] in Hin.
  destruct HW as [-> | ->]; lia.
Qed.

(* ------------------------------------------------------------------ *)
(** * T4 / T5: numbers versus boxed values *)

Lemma is_nan_spec bits : is_nan bits = (f_expo bits =? 2047) && negb (f_mant bits =? 0).
Proof.
  unfold is_nan, decode.
  destruct (f_expo bits =? 2047); [destruct (f_mant bits =? 0); reflexivity|].
  destruct (f_expo bits =? 0); reflexivity.
Qed.

Lemma not_boxed_number W v : is_boxed W v = false ->
  try_decode W v = DOk (VNumber (N.shiftr v (F64_OFFSET W) mod 2^64)).
Proof.
  intros H. unfold try_decode. change (N.land v (NAN_MASK W) =? NAN_MASK W) with (is_boxed W v).
  rewrite H. reflexivity.
Qed.

Lemma not_boxed_number_gen W nc v : is_boxed W v = false ->
  try_decode_gen W nc v = DOk (VNumber (N.shiftr v (F64_OFFSET W) mod 2^64)).
Proof.
  intros H. unfold try_decode_gen. change (N.land v (NAN_MASK W) =? NAN_MASK W) with (is_boxed W v).
  rewrite H. reflexivity.
Qed.

Ltac number_tac K isb :=
  let bits := fresh "bits" in let Hb := fresh "Hb" in let Hn := fresh "Hn" in let Hnb := fresh "Hnb" in
  intros bits Hb Hn; unfold nb_number; rewrite Hn; eexists; split; [reflexivity|];
  rewrite is_nan_spec in Hn; unfold f_expo, f_mant in Hn;
  unfold wrap_val; kk K; rewrite N.shiftl_mul_pow2;
  rewrite N.mod_small by lia;
  split; [lia|];
  match goal with |- ?A /\ _ => assert (Hnb : A) end;
  [ rewrite isb; unfold f_pre; kk K; apply N.eqb_neq;
    apply andb_false_iff in Hn; destruct Hn as [Hn|Hn];
    [ apply N.eqb_neq in Hn; lia | apply negb_false_iff in Hn; apply N.eqb_eq in Hn; lia ]
  | split; [exact Hnb|];
    rewrite (not_boxed_number _ _ Hnb); kk K; rewrite N.shiftr_div_pow2;
    do 2 f_equal; lia ].

Lemma number_roundtrip_32 : forall bits, bits < 2^64 -> is_nan bits = false ->
  exists v, nb_number 32 bits = Some v /\ v < 2^64 /\ is_boxed 32 v = false /\
            try_decode 32 v = DOk (VNumber bits).
Proof. number_tac K32 is_boxed_pre_32. Qed.

Lemma number_roundtrip_64 : forall bits, bits < 2^64 -> is_nan bits = false ->
  exists v, nb_number 64 bits = Some v /\ v < 2^128 /\ is_boxed 64 v = false /\
            try_decode 64 v = DOk (VNumber bits).
Proof. number_tac K64 is_boxed_pre_64. Qed.

Lemma number_nan_panics W bits : is_nan bits = true -> nb_number W bits = None.
Proof. intros H. unfold nb_number. rewrite H. reflexivity. Qed.

Ltac boxed_tac K W isb flds mask :=
  let p := fresh "p" in let l := fresh "l" in let t := fresh "t" in let Ht := fresh "Ht" in let Hp := fresh "Hp" in
  intros p l t Ht; rewrite mask, isb;
  assert (Hp : p mod 2^W < 2^W) by (apply N.mod_lt; discriminate);
  destruct (flds (p mod 2^W) l t Hp Ht) as (-> & _); reflexivity.

Lemma encode_is_boxed_32 : forall p l t, t < 16 -> is_boxed 32 (encode 32 p l t) = true.
Proof. boxed_tac K32 32 is_boxed_pre_32 fields_encode_32 encode_mask_32. Qed.
Lemma encode_is_boxed_64 : forall p l t, t < 16 -> is_boxed 64 (encode 64 p l t) = true.
Proof. boxed_tac K64 64 is_boxed_pre_64 fields_encode_64 encode_mask_64. Qed.

Ltac nanview_tac K W LEN arith mask :=
  let p := fresh "p" in let l := fresh "l" in let t := fresh "t" in let Ht := fresh "Ht" in let Hp := fresh "Hp" in
  let Hl := fresh "Hl" in let tl := fresh "tl" in let q := fresh "q" in
  intros p l t Ht; rewrite mask;
  assert (Hp : p mod 2^W < 2^W) by (apply N.mod_lt; discriminate);
  rewrite (arith _ l t Hp Ht); kk K;
  assert (Hl : N.min l (2^LEN - 1) < 2^LEN) by lia;
  set (tl := N.min l (2^LEN - 1)) in *; clearbody tl;
  set (q := p mod 2^W) in *; clearbody q;
  rewrite is_nan_spec, N.shiftr_div_pow2; unfold f_expo, f_mant;
  apply andb_true_iff; split;
  [ apply N.eqb_eq; lia | apply negb_true_iff; apply N.eqb_neq; lia ].

Lemma encode_f64_view_nan_32 : forall p l t, t < 16 ->
  is_nan (N.shiftr (encode 32 p l t) (F64_OFFSET 32) mod 2^64) = true.
Proof. nanview_tac K32 32 14 encode_arith_32 encode_mask_32. Qed.
Lemma encode_f64_view_nan_64 : forall p l t, t < 16 ->
  is_nan (N.shiftr (encode 64 p l t) (F64_OFFSET 64) mod 2^64) = true.
Proof. nanview_tac K64 64 46 encode_arith_64 encode_mask_64. Qed.

(* ------------------------------------------------------------------ *)
(** * T6: totality / exact characterisation of every outcome *)

Ltac tag_of_fields_tac K VS PS lk :=
  let v := fresh "v" in
  intro v; rewrite tag_of_lookup; unfold f_tag; kk K;
  rewrite N.land_ones, N.shiftr_div_pow2;
  replace ((v mod 2^PS) / 2^VS) with ((v / 2^VS) mod 2^4) by lia;
  apply lk; lia.

Lemma tag_of_fields_32 : forall v, tag_of 32 v = spec_tag_lookup (f_tag 32 v).
Proof. tag_of_fields_tac K32 46 50 tag_lookup_ok_32. Qed.
Lemma tag_of_fields_64 : forall v, tag_of 64 v = spec_tag_lookup (f_tag 64 v).
Proof. tag_of_fields_tac K64 110 114 tag_lookup_ok_64. Qed.

Lemma f_tag_lt W : width W -> forall v, f_tag W v < 16.
Proof.
  intros HW v. destruct (layout_of_width W HW) as (VB & O & VS & PS & LEN & K).
  unfold f_tag. rewrite (k_ts _ _ _ _ _ _ K). apply N.mod_lt. discriminate.
Qed.

Definition gen_cases_stmt (W : N) : Prop := forall nc v,
  (is_boxed W v = false /\
   try_decode_gen W nc v = DOk (VNumber (N.shiftr v (F64_OFFSET W) mod 2^64)))
  \/ (is_boxed W v = true /\ tag_of W v = None /\ try_decode_gen W nc v = DErr)
  \/ (is_boxed W v = true /\ tag_of W v = Some (TAG_Number W) /\ try_decode_gen W nc v = nc)
  \/ (is_boxed W v = true /\ (exists t, tag_of W v = Some t /\ t <> TAG_Number W) /\
      exists x, try_decode_gen W nc v = DOk x).

Ltac gen_cases_tac K W isb flds tof :=
  let nc := fresh "nc" in let v := fresh "v" in let B := fresh "B" in let Ht := fresh "Ht" in
  let t := fresh "t" in
  intros nc v; destruct (is_boxed W v) eqn:B;
  [ right | left; split; [reflexivity | apply not_boxed_number_gen; exact B] ];
  rewrite flds; unfold decode_fields; rewrite <- isb, B, tof;
  assert (Ht : f_tag W v < 16) by (apply f_tag_lt; unfold width; auto);
  generalize dependent (f_tag W v); intros t Ht;
  rewrite (k_tnum _ _ _ _ _ _ K);
  cases16 Ht; cbn [spec_dispatch spec_tag_lookup];
  first [ left; repeat split; reflexivity
        | right; left; repeat split; reflexivity
        | right; right; split; [reflexivity|];
          split; [eexists; split; [reflexivity | discriminate] | eexists; reflexivity] ].

Lemma gen_cases_32 : gen_cases_stmt 32.
Proof. gen_cases_tac K32 32 is_boxed_pre_32 try_decode_gen_fields_32 tag_of_fields_32. Qed.
Lemma gen_cases_64 : gen_cases_stmt 64.
Proof. gen_cases_tac K64 64 is_boxed_pre_64 try_decode_gen_fields_64 tag_of_fields_64. Qed.

Lemma gen_cases W : width W -> gen_cases_stmt W.
Proof. intros [-> | ->]; [exact gen_cases_32 | exact gen_cases_64]. Qed.

Section Outcomes.
Variable W : N.
Hypothesis HW : width W.

(** Outcomes of the model parameterised by the outcome [nc] of the Number tag under a NaN prefix. *)
Lemma gen_eq_nc_iff nc v : (forall x, nc <> DOk x) -> nc <> DErr ->
  (try_decode_gen W nc v = nc <-> is_boxed W v = true /\ tag_of W v = Some (TAG_Number W)).
Proof.
  intros Hok Herr.
  destruct (gen_cases W HW nc v) as [(B & E)|[(B & T & E)|[(B & T & E)|(B & (t & T & Tn) & (x & E))]]];
    rewrite E; split; intros H; try (destruct H; congruence); auto.
Qed.

Lemma gen_err_iff_panicking v :
  try_decode_gen W DPanic v = DErr <-> is_boxed W v = true /\ tag_of W v = None.
Proof.
  destruct (gen_cases W HW DPanic v) as [(B & E)|[(B & T & E)|[(B & T & E)|(B & (t & T & Tn) & (x & E))]]];
    rewrite E; split; intros H; try (destruct H; congruence); auto; discriminate.
Qed.

Lemma gen_err_iff_fixed v :
  try_decode_gen W DErr v = DErr <->
  is_boxed W v = true /\ (tag_of W v = None \/ tag_of W v = Some (TAG_Number W)).
Proof.
  destruct (gen_cases W HW DErr v) as [(B & E)|[(B & T & E)|[(B & T & E)|(B & (t & T & Tn) & (x & E))]]];
    rewrite E; split; intros H; try discriminate; auto.
  - destruct H; congruence.
  - destruct H as [_ [H|H]]; congruence.
Qed.

(** The repaired function never panics. *)
Lemma gen_fixed_total v : try_decode_gen W DErr v <> DPanic.
Proof.
  destruct (gen_cases W HW DErr v) as [(B & E)|[(B & T & E)|[(B & T & E)|(B & (t & T & Tn) & (x & E))]]];
    rewrite E; discriminate.
Qed.

Lemma tag_of_none_iff v : tag_of W v = None <-> ~ In (f_tag W v) (map snd (Tag_variants W)).
Proof.
  destruct (layout_of_width W HW) as (VB & O & VS & PS & LEN & K).
  rewrite (k_tags _ _ _ _ _ _ K).
  assert (E : tag_of W v = spec_tag_lookup (f_tag W v))
    by (destruct HW as [-> | ->]; [apply tag_of_fields_32 | apply tag_of_fields_64]).
  rewrite E. pose proof (f_tag_lt W HW v) as Ht.
  generalize dependent (f_tag W v). intros t _ Ht.
  cases16 Ht; cbn [spec_tag_lookup In]; split; intros H; try discriminate; try lia;
    try reflexivity; try (exfalso; apply H; lia).
Qed.

End Outcomes.

(* ------------------------------------------------------------------ *)
(** * T7: the decision-relevant bits (sign, 13-bit prefix, 4-bit tag) *)

Inductive kind :=
| KNumber | KNull | KBool | KString | KObject | KArray | KError | KDecodeErr | KPanic.

Definition kind_of (d : decoded) : kind :=
  match d with
  | DOk VNull => KNull
  | DOk (VBool _) => KBool
  | DOk (VNumber _) => KNumber
  | DOk (VString _ _) => KString
  | DOk (VObject _ _) => KObject
  | DOk (VArray _ _) => KArray
  | DOk (VError _) => KError
  | DErr => KDecodeErr
  | DPanic => KPanic
  end.

Definition kind_eqb (a b : kind) : bool :=
  match a, b with
  | KNumber, KNumber | KNull, KNull | KBool, KBool | KString, KString | KObject, KObject
  | KArray, KArray | KError, KError | KDecodeErr, KDecodeErr | KPanic, KPanic => true
  | _, _ => false
  end.

Lemma kind_eqb_eq a b : kind_eqb a b = true -> a = b.
Proof. destruct a, b; simpl; congruence. Qed.

(** The documented decision table; [nk] is the kind produced by tag 2 under a NaN prefix
    ([KPanic] for the present code, [KDecodeErr] after the repair).  The sign bit is irrelevant. *)
Definition classify_gen (nk : kind) (prefix13 tag4 : N) (sign : bool) : kind :=
  if prefix13 =? 8191 then
    match tag4 with
    | 0 => KNull | 1 => KBool | 2 => nk | 3 => KString | 4 => KObject | 5 => KArray
    | 15 => KError
    | _ => KDecodeErr
    end
  else KNumber.

Definition classify : N -> N -> bool -> kind := classify_gen KDecodeErr.
Definition classify_old : N -> N -> bool -> kind := classify_gen KPanic.

Definition mk_val32 (sign : bool) (prefix13 tag4 payload : N) : N :=
  (if sign then 2^63 else 0) + prefix13 * 2^50 + tag4 * 2^46 + payload.
Definition mk_val64 (sign : bool) (prefix13 tag4 payload : N) : N :=
  (if sign then 2^127 else 0) + prefix13 * 2^114 + tag4 * 2^110 + payload.

Ltac classify_tac K mk isb flds :=
  let nc := fresh "nc" in let sign := fresh "sign" in let pre := fresh "pre" in
  let tag := fresh "tag" in let pay := fresh "pay" in
  let Hpre := fresh "Hpre" in let Htag := fresh "Htag" in let Hpay := fresh "Hpay" in
  let E1 := fresh "E1" in let E2 := fresh "E2" in
  intros nc sign pre tag pay Hpre Htag Hpay;
  match goal with |- context [is_boxed ?W ?v] =>
    assert (E1 : f_pre W v = pre) by (unfold f_pre, mk; kk K; destruct sign; lia);
    assert (E2 : f_tag W v = tag) by (unfold f_tag, mk; kk K; destruct sign; lia)
  end;
  rewrite flds, isb; unfold decode_fields; rewrite E1, E2;
  split; [reflexivity|]; unfold classify_gen;
  destruct (pre =? 8191); [ | reflexivity];
  cases16 Htag; reflexivity.

Lemma classify_gen_32 : forall nc sign pre tag pay, pre < 2^13 -> tag < 16 -> pay < 2^46 ->
  is_boxed 32 (mk_val32 sign pre tag pay) = (pre =? 8191) /\
  kind_of (try_decode_gen 32 nc (mk_val32 sign pre tag pay)) = classify_gen (kind_of nc) pre tag sign.
Proof. classify_tac K32 mk_val32 is_boxed_pre_32 try_decode_gen_fields_32. Qed.

Lemma classify_gen_64 : forall nc sign pre tag pay, pre < 2^13 -> tag < 16 -> pay < 2^110 ->
  is_boxed 64 (mk_val64 sign pre tag pay) = (pre =? 8191) /\
  kind_of (try_decode_gen 64 nc (mk_val64 sign pre tag pay)) = classify_gen (kind_of nc) pre tag sign.
Proof. classify_tac K64 mk_val64 is_boxed_pre_64 try_decode_gen_fields_64. Qed.


(** Every value below 2^(2W) is of the form [mk_val..] (so the tables above cover everything). *)
Lemma mk_val32_surj v : v < 2^64 ->
  exists sign pre tag pay, pre < 2^13 /\ tag < 16 /\ pay < 2^46 /\ v = mk_val32 sign pre tag pay.
Proof.
  intros Hv.
  exists (negb (v / 2^63 =? 0)), ((v / 2^50) mod 2^13), ((v / 2^46) mod 16), (v mod 2^46).
  unfold mk_val32. destruct (N.eqb_spec (v / 2^63) 0); cbn [negb]; lia.
Qed.

Lemma mk_val64_surj v : v < 2^128 ->
  exists sign pre tag pay, pre < 2^13 /\ tag < 16 /\ pay < 2^110 /\ v = mk_val64 sign pre tag pay.
Proof.
  intros Hv.
  exists (negb (v / 2^127 =? 0)), ((v / 2^114) mod 2^13), ((v / 2^110) mod 16), (v mod 2^110).
  unfold mk_val64. destruct (N.eqb_spec (v / 2^127) 0); cbn [negb]; lia.
Qed.

(* ------------------------------------------------------------------ *)
(** * Constants (T1) *)

Lemma max_value_length_32 : MAX_VALUE_LENGTH 32 = 2^14 - 1.
Proof. exact (k_max _ _ _ _ _ _ K32). Qed.
Lemma max_value_length_64 : MAX_VALUE_LENGTH 64 = 2^46 - 1.
Proof. exact (k_max _ _ _ _ _ _ K64). Qed.

Lemma max_value_length_ge W : width W -> 2^14 - 1 <= MAX_VALUE_LENGTH W.
Proof. intros [-> | ->]; [rewrite max_value_length_32 | rewrite max_value_length_64]; lia. Qed.

Lemma encode_layout_32 p l t : p < 2^32 -> t < 16 ->
  encode 32 p l t = 0x7FFC000000000000 + t * 2^46 + N.min l 16383 * 2^32 + p.
Proof. intros Hp Ht. rewrite encode_arith_32 by assumption. change (2^14 - 1) with 16383. lia. Qed.

Lemma encode_sign_32 p l t : t < 16 -> encode 32 p l t < 2^63.
Proof.
  intros Ht. rewrite encode_mask_32.
  assert (Hp : p mod 2^32 < 2^32) by (apply N.mod_lt; discriminate).
  rewrite encode_arith_32 by assumption. lia.
Qed.

Lemma encode_layout_64 p l t : p < 2^64 -> t < 16 ->
  encode 64 p l t = 8191 * 2^114 + t * 2^110 + N.min l (2^46 - 1) * 2^64 + p.
Proof. exact (encode_arith_64 p l t). Qed.

Lemma encode_sign_64 p l t : t < 16 -> encode 64 p l t < 2^127.
Proof.
  intros Ht. rewrite encode_mask_64.
  assert (Hp : p mod 2^64 < 2^64) by (apply N.mod_lt; discriminate).
  rewrite encode_arith_64 by assumption. lia.
Qed.

(* ------------------------------------------------------------------ *)
(** * Width-generic forms of T4 / T5 *)

Lemma number_roundtrip W : width W -> forall bits, bits < 2^64 -> is_nan bits = false ->
  exists v, nb_number W bits = Some v /\ v < 2^(2*W) /\ is_boxed W v = false /\
            try_decode W v = DOk (VNumber bits).
Proof. intros [-> | ->]; [exact number_roundtrip_32 | exact number_roundtrip_64]. Qed.

Lemma encode_is_boxed W : width W -> forall p l t, t < 16 -> is_boxed W (encode W p l t) = true.
Proof. intros [-> | ->]; [exact encode_is_boxed_32 | exact encode_is_boxed_64]. Qed.

Lemma encode_f64_view_nan W : width W -> forall p l t, t < 16 ->
  is_nan (N.shiftr (encode W p l t) (F64_OFFSET W) mod 2^64) = true.
Proof. intros [-> | ->]; [exact encode_f64_view_nan_32 | exact encode_f64_view_nan_64]. Qed.

Lemma not_boxed_is_number W v : is_boxed W v = false -> exists bits, try_decode W v = DOk (VNumber bits).
Proof. intros H. eexists. apply not_boxed_number. exact H. Qed.

(* ------------------------------------------------------------------ *)
(** * THE MODEL ([try_decode] = [try_decode_gen _ DErr]); everything is derived from the [gen_*]
    lemmas, which hold for any outcome [nc] of the Number tag under a NaN prefix. *)

Section Model.
Variable W : N.
Hypothesis HW : width W.

Lemma decode_string p l : p < 2^W ->
  try_decode W (nb_string W p l) = DOk (VString p (N.min l (MAX_VALUE_LENGTH W))).
Proof. rewrite try_decode_is_gen. apply gen_string, HW. Qed.
Lemma decode_obj p l : p < 2^W ->
  try_decode W (nb_obj W p l) = DOk (VObject p (N.min l (MAX_VALUE_LENGTH W))).
Proof. rewrite try_decode_is_gen. apply gen_obj, HW. Qed.
Lemma decode_array p l : p < 2^W ->
  try_decode W (nb_array W p l) = DOk (VArray p (N.min l (MAX_VALUE_LENGTH W))).
Proof. rewrite try_decode_is_gen. apply gen_array, HW. Qed.

Lemma decode_string_exact p l : p < 2^W -> l <= 2^14 - 1 ->
  try_decode W (nb_string W p l) = DOk (VString p l).
Proof. intros Hp Hl. rewrite decode_string by assumption. pose proof (max_value_length_ge W HW). do 2 f_equal. lia. Qed.
Lemma decode_obj_exact p l : p < 2^W -> l <= 2^14 - 1 ->
  try_decode W (nb_obj W p l) = DOk (VObject p l).
Proof. intros Hp Hl. rewrite decode_obj by assumption. pose proof (max_value_length_ge W HW). do 2 f_equal. lia. Qed.
Lemma decode_array_exact p l : p < 2^W -> l <= 2^14 - 1 ->
  try_decode W (nb_array W p l) = DOk (VArray p l).
Proof. intros Hp Hl. rewrite decode_array by assumption. pose proof (max_value_length_ge W HW). do 2 f_equal. lia. Qed.

Lemma decode_string_saturates p l : p < 2^W -> MAX_VALUE_LENGTH W < l ->
  try_decode W (nb_string W p l) = DOk (VString p (MAX_VALUE_LENGTH W)).
Proof. intros Hp Hl. rewrite decode_string by assumption. do 2 f_equal. lia. Qed.
Lemma decode_obj_saturates p l : p < 2^W -> MAX_VALUE_LENGTH W < l ->
  try_decode W (nb_obj W p l) = DOk (VObject p (MAX_VALUE_LENGTH W)).
Proof. intros Hp Hl. rewrite decode_obj by assumption. do 2 f_equal. lia. Qed.
Lemma decode_array_saturates p l : p < 2^W -> MAX_VALUE_LENGTH W < l ->
  try_decode W (nb_array W p l) = DOk (VArray p (MAX_VALUE_LENGTH W)).
Proof. intros Hp Hl. rewrite decode_array by assumption. do 2 f_equal. lia. Qed.

Lemma decode_bool b : try_decode W (nb_bool W b) = DOk (VBool b).
Proof. rewrite try_decode_is_gen. apply gen_bool, HW. Qed.
Lemma decode_null : try_decode W (nb_null W) = DOk VNull.
Proof. rewrite try_decode_is_gen. apply gen_null, HW. Qed.

Lemma decode_error_known c : In c (map snd (ErrorCode_variants W)) ->
  try_decode W (nb_error W c) = DOk (VError c).
Proof.
  intros Hin. rewrite try_decode_is_gen, gen_error_raw by (auto using known_code_lt).
  rewrite error_of_repr_known by assumption. reflexivity.
Qed.
Lemma decode_error_other c : c < 2^W -> ~ In c (map snd (ErrorCode_variants W)) ->
  try_decode W (nb_error W c) = DOk (VError (EC_Unknown W)).
Proof.
  intros Hc Hin. rewrite try_decode_is_gen, gen_error_raw by assumption.
  rewrite error_of_repr_unknown by assumption. reflexivity.
Qed.

Lemma try_decode_err_iff v :
  try_decode W v = DErr <->
  is_boxed W v = true /\ (tag_of W v = None \/ tag_of W v = Some (TAG_Number W)).
Proof. rewrite try_decode_is_gen. apply gen_err_iff_fixed, HW. Qed.

(** ... in terms of the 4 tag bits: an error exactly for the tags that carry no boxed value
    (everything except Null, Bool, String, Object, Array, Error). *)
Lemma try_decode_err_iff_bits v :
  try_decode W v = DErr <->
  is_boxed W v = true /\ ~ In (f_tag W v) [0; 1; 3; 4; 5; 15].
Proof.
  rewrite try_decode_err_iff.
  destruct (layout_of_width W HW) as (VB & O & VS & PS & LEN & K).
  assert (E : tag_of W v = spec_tag_lookup (f_tag W v))
    by (destruct HW as [-> | ->]; [apply tag_of_fields_32 | apply tag_of_fields_64]).
  rewrite E, (k_tnum _ _ _ _ _ _ K). pose proof (f_tag_lt W HW v) as Ht.
  generalize dependent (f_tag W v). intros t _ Ht.
  cases16 Ht; cbn [spec_tag_lookup In]; split; intros [B H]; split; auto;
    try (intro; lia); try (destruct H; discriminate); try (exfalso; apply H; lia); auto.
Qed.

(** Totality: decoding never crashes. *)
Lemma try_decode_total v : try_decode W v <> DPanic.
Proof. rewrite try_decode_is_gen. apply gen_fixed_total, HW. Qed.

Lemma try_decode_outcomes v :
  (exists x, try_decode W v = DOk x) \/ try_decode W v = DErr.
Proof. pose proof (try_decode_total v). destruct (try_decode W v); eauto. congruence. Qed.
End Model.

Lemma classify_correct_32 sign pre tag pay : pre < 2^13 -> tag < 16 -> pay < 2^46 ->
  is_boxed 32 (mk_val32 sign pre tag pay) = (pre =? 8191) /\
  kind_of (try_decode 32 (mk_val32 sign pre tag pay)) = classify pre tag sign.
Proof. intros. rewrite try_decode_is_gen. apply (classify_gen_32 DErr); assumption. Qed.

Lemma classify_correct_64 sign pre tag pay : pre < 2^13 -> tag < 16 -> pay < 2^110 ->
  is_boxed 64 (mk_val64 sign pre tag pay) = (pre =? 8191) /\
  kind_of (try_decode 64 (mk_val64 sign pre tag pay)) = classify pre tag sign.
Proof. intros. rewrite try_decode_is_gen. apply (classify_gen_64 DErr); assumption. Qed.

(* ------------------------------------------------------------------ *)
(** * Historical: the behaviour before the repair (commit 529b7f9).
    [try_decode_old] is [try_decode] with [unreachable!] for the Number tag; it crashed exactly on
    NaN-prefixed values tagged 2. *)

Definition try_decode_old (W v : N) : decoded :=
  if negb (N.land v (NAN_MASK W) =? NAN_MASK W) then
    DOk (VNumber ((N.shiftr v (F64_OFFSET W)) mod 2 ^ 64))
  else
    let val := N.land v (VALUE_MASK W) in
    let ptr := (N.land val (POINTER_MASK W)) mod 2 ^ W in
    let len := (N.shiftr val (VALUE_ENCODING_SIZE W)) mod 2 ^ W in
    match tag_of W v with
    | None => DErr
    | Some t =>
        if t =? TAG_Bool W then DOk (VBool (negb (ptr =? 0)))
        else if t =? TAG_Null W then DOk VNull
        else if t =? TAG_Number W then DPanic
        else if t =? TAG_Array W then DOk (VArray ptr len)
        else if t =? TAG_String W then DOk (VString ptr len)
        else if t =? TAG_Object W then DOk (VObject ptr len)
        else if t =? TAG_Error W then DOk (VError (error_of_repr W (val mod 2 ^ W)))
        else DErr
    end.

Lemma try_decode_old_is_gen W v : try_decode_old W v = try_decode_gen W DPanic v.
Proof. reflexivity. Qed.

Lemma try_decode_old_panic_iff W : width W -> forall v,
  try_decode_old W v = DPanic <-> is_boxed W v = true /\ tag_of W v = Some (TAG_Number W).
Proof. intros HW v. rewrite try_decode_old_is_gen. apply gen_eq_nc_iff; [exact HW | discriminate | discriminate]. Qed.

Lemma try_decode_old_err_iff W : width W -> forall v,
  try_decode_old W v = DErr <-> is_boxed W v = true /\ ~ In (f_tag W v) (map snd (Tag_variants W)).
Proof. intros HW v. rewrite try_decode_old_is_gen, gen_err_iff_panicking, tag_of_none_iff by exact HW. reflexivity. Qed.

Lemma try_decode_old_panic_witness_32 : try_decode_old 32 0x7FFC800000000000 = DPanic.
Proof. vm_compute. reflexivity. Qed.
Lemma try_decode_old_panic_witness_64 : try_decode_old 64 (0x7FFC800000000000 * 2^64) = DPanic.
Proof. vm_compute. reflexivity. Qed.

(** The repair changed nothing else. *)
Lemma try_decode_old_agrees W : width W -> forall v,
  try_decode_old W v <> DPanic -> try_decode W v = try_decode_old W v.
Proof.
  intros HW v. rewrite try_decode_is_gen, try_decode_old_is_gen.
  pose proof (f_tag_lt W HW v) as Ht.
  destruct HW as [-> | ->];
    [rewrite !try_decode_gen_fields_32 | rewrite !try_decode_gen_fields_64];
    unfold decode_fields;
    (match goal with |- context [f_pre ?w v =? 8191] => destruct (f_pre w v =? 8191) end; [|reflexivity]);
    match goal with |- context [f_tag ?w v] => generalize dependent (f_tag w v) end;
    intros t Ht; cases16 Ht; cbn [spec_dispatch]; intros H; try reflexivity; congruence.
Qed.
