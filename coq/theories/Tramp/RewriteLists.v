(** C07 proofs, part 1: list / string-set lemmas, and the walrus look-ups of the model
    (get_func, remove_first, rename_first) expressed with [find], [remove_first] and [upd_first]. *)
From Coq Require Import NArith List String Bool Arith Lia.
From SFV Require Import Abi.AbiTypes Tramp.RewriteTypes Tramp.Rewrite Tramp.RewriteWf.
Import ListNotations.
Open Scope string_scope.
Open Scope list_scope.

(** ---- string sets *)
Lemma mem_In n l : mem n l = true <-> In n l.
Proof.
  unfold mem. rewrite existsb_exists. split.
  - intros [x [Hx He]]. apply String.eqb_eq in He. subst. exact Hx.
  - intros H. exists n. split; [exact H | apply String.eqb_refl].
Qed.

Lemma mem_false_In n l : mem n l = false <-> ~ In n l.
Proof.
  split.
  - intros H Hi. apply mem_In in Hi. congruence.
  - intros H. destruct (mem n l) eqn:E; [|reflexivity]. apply mem_In in E. contradiction.
Qed.

Lemma mem_app n a b : mem n (a ++ b) = mem n a || mem n b.
Proof. unfold mem. apply existsb_app. Qed.

Lemma subset_mem a b : subset a b = true -> forall n, mem n a = true -> mem n b = true.
Proof.
  unfold subset. rewrite forallb_forall. intros H n Hn. apply H. apply mem_In. exact Hn.
Qed.

Lemma same_set_mem a b : same_set a b = true -> forall n, mem n a = mem n b.
Proof.
  unfold same_set. intros H n. apply andb_prop in H. destruct H as [H1 H2].
  destruct (mem n a) eqn:Ea.
  - symmetry. eapply subset_mem; eauto.
  - destruct (mem n b) eqn:Eb; [|reflexivity].
    rewrite (subset_mem _ _ H2 n Eb) in Ea. discriminate.
Qed.

Lemma mem_names_lookup {A} n (t : list (string * A)) :
  mem n (names t) = match lookup n t with Some _ => true | None => false end.
Proof.
  induction t as [|[k v] r IH]; [reflexivity|].
  unfold names, mem in *. cbn [map fst existsb lookup].
  rewrite String.eqb_sym. destruct (String.eqb k n); [reflexivity | exact IH].
Qed.

Lemma lookup_In {A} n (t : list (string * A)) v : lookup n t = Some v -> In (n, v) t.
Proof.
  induction t as [|[k w] r IH]; cbn [lookup]; [discriminate|].
  destruct (String.eqb k n) eqn:E.
  - intros H. injection H as H. subst. apply String.eqb_eq in E. subst. left. reflexivity.
  - intros H. right. apply IH. exact H.
Qed.

Lemma tys_eqb_eq a : forall b, tys_eqb a b = true -> a = b.
Proof.
  induction a as [|x a IH]; intros [|y b] H; cbn [tys_eqb] in H; try discriminate; [reflexivity|].
  apply andb_prop in H. destruct H as [H1 H2]. f_equal; [|apply IH; exact H2].
  destruct x, y; cbn in H1; congruence.
Qed.

Lemma tys_eqb_refl a : tys_eqb a a = true.
Proof. induction a as [|x a IH]; [reflexivity|]. cbn [tys_eqb]. rewrite IH. destruct x; reflexivity. Qed.

(** ---- find / existsb *)
Lemma find_none_existsb {A} (p : A -> bool) l : find p l = None <-> existsb p l = false.
Proof.
  induction l as [|x r IH]; cbn [find existsb]; [tauto|].
  destruct (p x); cbn [orb]; [split; discriminate | exact IH].
Qed.

Lemma existsb_find {A} (p : A -> bool) l : existsb p l = true -> exists x, find p l = Some x /\ In x l /\ p x = true.
Proof.
  intros H. destruct (find p l) eqn:E.
  - exists a. split; [reflexivity|]. apply find_some in E. exact E.
  - apply find_none_existsb in E. congruence.
Qed.

Lemma existsb_false_forall {A} (p : A -> bool) l : existsb p l = false <-> forall x, In x l -> p x = false.
Proof.
  split.
  - intros H x Hx. destruct (p x) eqn:E; [|reflexivity].
    assert (existsb p l = true) by (apply existsb_exists; eauto). congruence.
  - intros H. destruct (existsb p l) eqn:E; [|reflexivity].
    apply existsb_exists in E. destruct E as [x [Hx Hp]]. rewrite (H x Hx) in Hp. discriminate.
Qed.

Lemma find_app {A} (p : A -> bool) l l' :
  find p (l ++ l') = match find p l with Some x => Some x | None => find p l' end.
Proof. induction l as [|x r IH]; cbn [find app]; [reflexivity|]. destruct (p x); [reflexivity | exact IH]. Qed.

Lemma find_ext {A} (p q : A -> bool) l : (forall x, In x l -> p x = q x) -> find p l = find q l.
Proof.
  induction l as [|x r IH]; intros H; [reflexivity|]. cbn [find].
  rewrite (H x (or_introl eq_refl)). rewrite IH; [reflexivity|]. intros y Hy. apply H. right. exact Hy.
Qed.

(** ---- N sets *)
Lemma memN_In x l : memN x l = true <-> In x l.
Proof.
  unfold memN. rewrite existsb_exists. split.
  - intros [y [Hy He]]. apply N.eqb_eq in He. subst. exact Hy.
  - intros H. exists x. split; [exact H | apply N.eqb_refl].
Qed.

Lemma nodupN_NoDup l : nodupN l = true <-> NoDup l.
Proof.
  induction l as [|x r IH]; cbn [nodupN].
  - split; [constructor | reflexivity].
  - rewrite andb_true_iff, negb_true_iff, IH, NoDup_cons_iff. split.
    + intros [H1 H2]. split; [|exact H2]. intros Hi. apply memN_In in Hi. congruence.
    + intros [H1 H2]. split; [|exact H2]. destruct (memN x r) eqn:E; [|reflexivity].
      apply memN_In in E. contradiction.
Qed.

Lemma NoDup_snoc {A} (l : list A) x : NoDup l -> ~ In x l -> NoDup (l ++ [x]).
Proof.
  induction l as [|y r IH]; intros Hn Hi; cbn [app].
  - constructor; [intros []|constructor].
  - apply NoDup_cons_iff in Hn. destruct Hn as [H1 H2]. constructor.
    + rewrite in_app_iff. intros [H|[H|[]]]; [contradiction|]. subst. apply Hi. left. reflexivity.
    + apply IH; [exact H2|]. intros H. apply Hi. right. exact H.
Qed.

(** ---- remove_first *)
Lemma remove_first_app {A} (p : A -> bool) l l' :
  existsb p l = true -> remove_first p (l ++ l') = remove_first p l ++ l'.
Proof.
  induction l as [|x r IH]; cbn [existsb remove_first app]; [discriminate|].
  destruct (p x); cbn [orb]; [reflexivity|]. intros H. rewrite IH by exact H. reflexivity.
Qed.

Lemma remove_first_none {A} (p : A -> bool) l : existsb p l = false -> remove_first p l = l.
Proof.
  induction l as [|x r IH]; cbn [existsb remove_first]; [reflexivity|].
  destruct (p x); cbn [orb]; [discriminate|]. intros H. rewrite IH by exact H. reflexivity.
Qed.

Lemma In_remove_first {A} (p : A -> bool) l x : In x (remove_first p l) -> In x l.
Proof.
  induction l as [|y r IH]; cbn [remove_first]; [tauto|].
  destruct (p y); intros H; [right; exact H|]. destruct H as [H|H]; [left; exact H | right; apply IH; exact H].
Qed.

Lemma In_remove_first_or {A} (p : A -> bool) l x : In x l -> In x (remove_first p l) \/ find p l = Some x.
Proof.
  induction l as [|y r IH]; cbn [remove_first find In]; [tauto|].
  intros [H|H].
  - subst. destruct (p x); [right; reflexivity | left; left; reflexivity].
  - destruct (p y); [left; exact H|]. destruct (IH H) as [H'|H']; [left; right; exact H' | right; exact H'].
Qed.

Lemma remove_first_ext {A} (p q : A -> bool) l : (forall x, In x l -> p x = q x) -> remove_first p l = remove_first q l.
Proof.
  induction l as [|x r IH]; intros H; [reflexivity|]. cbn [remove_first].
  rewrite (H x (or_introl eq_refl)). rewrite IH; [reflexivity|]. intros y Hy. apply H. right. exact Hy.
Qed.

Lemma remove_first_count {A} (p : A -> bool) l :
  existsb p l = true -> S (List.length (filter p (remove_first p l))) = List.length (filter p l).
Proof.
  induction l as [|x r IH]; cbn [existsb remove_first filter]; [discriminate|].
  destruct (p x) eqn:E; cbn [orb]; [reflexivity|]. intros H. cbn [filter]. rewrite E. apply IH. exact H.
Qed.

Lemma remove_first_flat_map {A B} (p : A -> bool) (f : A -> list B) l :
  (forall x, p x = true -> f x = []) -> flat_map f (remove_first p l) = flat_map f l.
Proof.
  intros H. induction l as [|x r IH]; cbn [remove_first flat_map]; [reflexivity|].
  destruct (p x) eqn:E; [rewrite (H x E); reflexivity|]. cbn [flat_map]. rewrite IH. reflexivity.
Qed.

(** ---- upd_first *)
Lemma upd_first_none {A} (p : A -> bool) g l : existsb p l = false -> upd_first p g l = l.
Proof.
  induction l as [|x r IH]; cbn [existsb upd_first]; [reflexivity|].
  destruct (p x); cbn [orb]; [discriminate|]. intros H. rewrite IH by exact H. reflexivity.
Qed.

Lemma upd_first_flat_map {A B} (p : A -> bool) g (f : A -> list B) l :
  (forall x, p x = true -> f (g x) = f x) -> flat_map f (upd_first p g l) = flat_map f l.
Proof.
  intros H. induction l as [|x r IH]; cbn [upd_first flat_map]; [reflexivity|].
  destruct (p x) eqn:E; cbn [flat_map]; [rewrite (H x E); reflexivity | rewrite IH; reflexivity].
Qed.

Lemma upd_first_count {A} (p : A -> bool) g l :
  (forall x, p x = true -> p (g x) = false) ->
  existsb p l = true -> S (List.length (filter p (upd_first p g l))) = List.length (filter p l).
Proof.
  intros Hg. induction l as [|x r IH]; cbn [existsb upd_first filter]; [discriminate|].
  destruct (p x) eqn:E; cbn [orb].
  - intros _. cbn [filter]. rewrite (Hg x E). reflexivity.
  - intros H. cbn [filter]. rewrite E. apply IH. exact H.
Qed.

Lemma In_upd_first {A} (p : A -> bool) g l x :
  In x (upd_first p g l) -> In x l \/ exists y, In y l /\ p y = true /\ x = g y.
Proof.
  induction l as [|y r IH]; cbn [upd_first]; [tauto|].
  destruct (p y) eqn:E; intros [H|H].
  - right. exists y. split; [left; reflexivity|]. split; [exact E | symmetry; exact H].
  - left. right. exact H.
  - left. left. exact H.
  - destruct (IH H) as [H'|[z [Hz1 Hz2]]]; [left; right; exact H'|]. right. exists z. split; [right; exact Hz1 | exact Hz2].
Qed.

Lemma map_upd_first {A B} (p : A -> bool) g (h : A -> B) l :
  (forall x, h (g x) = h x) -> map h (upd_first p g l) = map h l.
Proof.
  intros H. induction l as [|x r IH]; cbn [upd_first map]; [reflexivity|].
  destruct (p x); cbn [map]; [rewrite H; reflexivity | rewrite IH; reflexivity].
Qed.

(** ---- flat_map *)
Lemma flat_map_singleton {A} (f : A -> list A) l : (forall x, In x l -> f x = [x]) -> flat_map f l = l.
Proof.
  induction l as [|x r IH]; intros H; [reflexivity|]. cbn [flat_map].
  rewrite (H x (or_introl eq_refl)). cbn [app]. rewrite IH; [reflexivity|]. intros y Hy. apply H. right. exact Hy.
Qed.

Lemma flat_map_flat_map {A B D} (f : A -> list B) (g : B -> list D) l :
  flat_map g (flat_map f l) = flat_map (fun x => flat_map g (f x)) l.
Proof.
  induction l as [|x r IH]; [reflexivity|]. cbn [flat_map]. rewrite flat_map_app, IH. reflexivity.
Qed.

Lemma flat_map_ext_in {A B} (f g : A -> list B) l : (forall x, In x l -> f x = g x) -> flat_map f l = flat_map g l.
Proof.
  induction l as [|x r IH]; intros H; [reflexivity|]. cbn [flat_map].
  rewrite (H x (or_introl eq_refl)), IH; [reflexivity|]. intros y Hy. apply H. right. exact Hy.
Qed.

Lemma filter_flat_map {A B} (q : B -> bool) (f : A -> list B) l :
  filter q (flat_map f l) = flat_map (fun x => filter q (f x)) l.
Proof.
  induction l as [|x r IH]; [reflexivity|]. cbn [flat_map]. rewrite filter_app, IH. reflexivity.
Qed.

(** ---- the model's look-ups *)
Section L.
Variable C : cfg.
Notation P := (c_provider C).

Lemma hit_true X i : hit C X i = true <-> is_func i = true /\ i_mod i = P /\ i_name i = X.
Proof.
  unfold hit, named. rewrite !andb_true_iff, !String.eqb_eq. tauto.
Qed.

Lemma hit_kind X i : hit C X i = true -> exists fid, i_kind i = KFunc fid.
Proof.
  intros H. apply hit_true in H. destruct H as [H _]. unfold is_func in H.
  destruct (i_kind i); try discriminate. eauto.
Qed.

Lemma get_func_find l X :
  get_func l P X = match find (hit C X) l with
                   | Some i => match i_kind i with KFunc f => Some f | _ => None end
                   | None => None
                   end.
Proof.
  induction l as [|i r IH]; [reflexivity|]. cbn [get_func find]. unfold hit at 1, is_func.
  destruct (i_kind i) eqn:K; cbn [andb]; try exact IH.
  destruct (named P X i); [rewrite K; reflexivity | exact IH].
Qed.

Lemma get_func_none l X : get_func l P X = None <-> existsb (hit C X) l = false.
Proof.
  rewrite get_func_find, <- find_none_existsb. destruct (find (hit C X) l) eqn:E; [|tauto].
  apply find_some in E. destruct E as [_ E]. apply hit_kind in E. destruct E as [fid E]. rewrite E.
  split; discriminate.
Qed.

Lemma get_func_some l X fid :
  get_func l P X = Some fid -> exists i, find (hit C X) l = Some i /\ In i l /\ hit C X i = true /\ i_kind i = KFunc fid.
Proof.
  rewrite get_func_find. destruct (find (hit C X) l) eqn:E; [|discriminate].
  pose proof (find_some _ _ E) as [Hi Hh]. destruct (i_kind i) eqn:K; try discriminate.
  intros H. injection H as H. subst. exists i. auto.
Qed.

Lemma get_func_exists l X : existsb (hit C X) l = true -> exists fid, get_func l P X = Some fid.
Proof.
  intros H. destruct (get_func l P X) eqn:E; [eauto|]. apply get_func_none in E. congruence.
Qed.

(** ids of function imports *)
Lemma ifids_app a b : ifids (a ++ b) = ifids a ++ ifids b.
Proof. unfold ifids. apply flat_map_app. Qed.
Lemma imids_app a b : imids (a ++ b) = imids a ++ imids b.
Proof. unfold imids. apply flat_map_app. Qed.

Lemma In_ifids l fid : In fid (ifids l) <-> exists i, In i l /\ i_kind i = KFunc fid.
Proof.
  unfold ifids. rewrite in_flat_map. split.
  - intros [i [Hi Hk]]. exists i. split; [exact Hi|]. destruct (i_kind i); cbn in Hk; try tauto.
    destruct Hk as [Hk|[]]. subst. reflexivity.
  - intros [i [Hi Hk]]. exists i. split; [exact Hi|]. rewrite Hk. left. reflexivity.
Qed.

Lemma In_ifids_existsb l fid : In fid (ifids l) <-> existsb (imports_func fid) l = true.
Proof.
  rewrite In_ifids, existsb_exists. split.
  - intros [i [Hi Hk]]. exists i. split; [exact Hi|]. unfold imports_func. rewrite Hk. apply N.eqb_refl.
  - intros [i [Hi Hk]]. exists i. split; [exact Hi|]. unfold imports_func in Hk.
    destruct (i_kind i); try discriminate. apply N.eqb_eq in Hk. subst. reflexivity.
Qed.

Lemma same_kinds_ifids l : forall l', map i_kind l' = map i_kind l -> ifids l' = ifids l /\ imids l' = imids l.
Proof.
  induction l as [|i r IH]; intros [|i' r'] H; cbn [map] in H; try discriminate; [split; reflexivity|].
  injection H as H1 H2. destruct (IH r' H2) as [E1 E2]. unfold ifids, imids in *. cbn [flat_map].
  rewrite H1, E1, E2. split; reflexivity.
Qed.

(** the import [replace_imported_func] deletes is the one [get_func] found *)
Lemma remove_first_fid l X fid :
  NoDup (ifids l) -> get_func l P X = Some fid ->
  remove_first (imports_func fid) l = remove_first (hit C X) l.
Proof.
  induction l as [|i r IH]; intros Hn Hg; [reflexivity|].
  cbn [get_func] in Hg. cbn [remove_first]. unfold imports_func at 1, hit at 1, is_func.
  unfold ifids in Hn. cbn [flat_map] in Hn. fold (ifids r) in Hn.
  destruct (i_kind i) eqn:K; cbn [andb kfid app] in *.
  - destruct (named P X i) eqn:Nm.
    + injection Hg as Hg. subst. rewrite N.eqb_refl. reflexivity.
    + apply NoDup_cons_iff in Hn. destruct Hn as [Hn1 Hn2].
      destruct (N.eqb fid0 fid) eqn:E.
      * apply N.eqb_eq in E. subst. exfalso. apply Hn1.
        apply get_func_some in Hg. destruct Hg as [j [_ [Hj [_ Hk]]]]. apply In_ifids. eauto.
      * rewrite IH by assumption. reflexivity.
  - rewrite IH by assumption. reflexivity.
  - rewrite IH by assumption. reflexivity.
Qed.

Lemma ifids_remove_first l fid :
  NoDup (ifids l) ->
  NoDup (ifids (remove_first (imports_func fid) l)) /\
  (forall g, In g (ifids (remove_first (imports_func fid) l)) <-> In g (ifids l) /\ g <> fid) /\
  imids (remove_first (imports_func fid) l) = imids l.
Proof.
  induction l as [|i r IH]; intros Hn.
  - cbn. split; [constructor|]. split; [tauto | reflexivity].
  - unfold ifids, imids in *. cbn [flat_map remove_first] in *. unfold imports_func at 1 3 5.
    destruct (i_kind i) eqn:K; cbn [kfid kmid app] in *.
    + apply NoDup_cons_iff in Hn. destruct Hn as [Hn1 Hn2]. destruct (N.eqb fid0 fid) eqn:E.
      * apply N.eqb_eq in E. subst. split; [exact Hn2|]. split; [|reflexivity].
        intros g. split.
        -- intros Hg. split; [right; exact Hg|]. intros ->. contradiction.
        -- intros [[Hg|Hg] Hne]; [congruence | exact Hg].
      * apply N.eqb_neq in E. destruct (IH Hn2) as [I1 [I2 I3]].
        cbn [flat_map]. rewrite K. cbn [kfid kmid app]. split; [|split; [|exact I3]].
        -- constructor; [|exact I1]. intros Hi. apply I2 in Hi. tauto.
        -- intros g. cbn [In]. rewrite I2. split; [intros [H|H]; [subst; tauto | tauto] | tauto].
    + destruct (IH Hn) as [I1 [I2 I3]]. cbn [flat_map]. rewrite K. cbn [kfid kmid app].
      split; [exact I1|]. split; [exact I2 | rewrite I3; reflexivity].
    + destruct (IH Hn) as [I1 [I2 I3]]. cbn [flat_map]. rewrite K. cbn [kfid kmid app].
      split; [exact I1|]. split; [exact I2 | rewrite I3; reflexivity].
Qed.

(** rename_first, when it succeeds, renames the first hit *)
Lemma rename_first_ok X Y l : forall l' b,
  rename_first P X Y l = Ok (l', b) -> l' = upd_first (hit C X) (ren Y) l.
Proof.
  induction l as [|i r IH]; intros l' b H; cbn [rename_first] in H.
  - injection H as H _. subst. reflexivity.
  - cbn [upd_first]. unfold hit at 1. destruct (named P X i) eqn:Nm.
    + destruct (is_func i) eqn:F; [|discriminate]. injection H as H _. subst. reflexivity.
    + rewrite andb_false_r. destruct (rename_first P X Y r) as [[r' b']|e] eqn:E; [|discriminate].
      injection H as H _. subst. f_equal. eapply IH. reflexivity.
Qed.

Lemma rename_first_progress X Y l :
  (forall i, In i l -> named P X i = true -> is_func i = true) -> exists l' b, rename_first P X Y l = Ok (l', b).
Proof.
  induction l as [|i r IH]; intros H; cbn [rename_first]; [eauto|].
  destruct (named P X i) eqn:Nm.
  - rewrite (H i (or_introl eq_refl) Nm). eauto.
  - destruct IH as [l' [b E]]; [intros j Hj; apply H; right; exact Hj|]. rewrite E. eauto.
Qed.

Lemma rename_first_quiet X Y l :
  (forall i, In i l -> named P X i = false) -> rename_first P X Y l = Ok (l, false).
Proof.
  induction l as [|i r IH]; intros H; cbn [rename_first]; [reflexivity|].
  rewrite (H i (or_introl eq_refl)). rewrite IH; [reflexivity|]. intros j Hj. apply H. right. exact Hj.
Qed.

Lemma hit_ren X Y i : X <> Y -> hit C X (ren Y i) = false.
Proof.
  intros H. unfold hit, named, ren. cbn [i_mod i_name].
  destruct (String.eqb Y X) eqn:E; [apply String.eqb_eq in E; congruence|].
  rewrite !andb_false_r. reflexivity.
Qed.

End L.
