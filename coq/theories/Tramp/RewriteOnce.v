(** C07 proofs, part 3: one pass of the loop body ([once]), the loop of one IMPORTS entry
    ([entry_loop], with the fuel argument), the whole table ([fold_left step]). Generic in the tables:
    any [cfg] with [cfg_ok C = true]. *)
From Coq Require Import NArith List String Bool Arith Lia.
From SFV Require Import Abi.AbiTypes Tramp.RewriteTypes Tramp.Rewrite Tramp.RewriteWf Tramp.RewriteLists Tramp.RewriteWfProofs.
Import ListNotations.
Open Scope string_scope.
Open Scope list_scope.

Section O.
Variable C : cfg.
Hypothesis Hok : cfg_ok C = true.
Notation P := (c_provider C).

(** ---- cfg_ok, part by part *)
Lemma ok_loops : c_loops C = true.
Proof. unfold cfg_ok in Hok. rewrite !andb_true_iff in Hok. tauto. Qed.

Lemma ok_new on : In on (c_imports C) -> ~ In (snd on) (origs C).
Proof.
  unfold cfg_ok in Hok. rewrite !andb_true_iff in Hok. destruct Hok as [[[_ H] _] _].
  rewrite forallb_forall in H. intros Hi. specialize (H on Hi). apply negb_true_iff in H.
  apply mem_false_In. exact H.
Qed.

Lemma ok_add n : In n (add_names C) -> ~ In n (origs C).
Proof.
  unfold cfg_ok in Hok. rewrite !andb_true_iff in Hok. destruct Hok as [[_ H] _].
  rewrite forallb_forall in H. intros Hi. specialize (H n Hi). apply negb_true_iff in H.
  apply mem_false_In. exact H.
Qed.

Lemma ok_looked sp : In sp (c_specs C) -> s_looked sp = s_orig sp.
Proof.
  unfold cfg_ok in Hok. rewrite !andb_true_iff in Hok. destruct Hok as [_ H].
  rewrite forallb_forall in H. intros Hi. apply String.eqb_eq. apply H. exact Hi.
Qed.

Lemma In_origs on : In on (c_imports C) -> In (fst on) (origs C).
Proof. intros H. unfold origs. apply in_map. exact H. Qed.

Lemma ok_neq on : In on (c_imports C) -> fst on <> snd on.
Proof. intros H E. apply (ok_new on H). rewrite <- E. apply In_origs. exact H. Qed.

Lemma spec_for_some X sp : spec_for C X = Some sp -> In sp (c_specs C) /\ s_orig sp = X.
Proof.
  unfold spec_for. intros H. apply find_some in H. destruct H as [H1 H2]. apply String.eqb_eq in H2. tauto.
Qed.

(** ---- the per-import transformers *)
Lemma hit_orig X i : hit C X i = true -> In X (origs C) -> i_mod i = P /\ In (i_name i) (origs C).
Proof. intros H Ho. apply hit_true in H. destruct H as [_ [H1 H2]]. subst X. tauto. Qed.

Lemma addable_not_hit on i : In on (c_imports C) -> addable C i -> hit C (fst on) i = false.
Proof.
  intros Hon [_ Hn]. destruct (hit C (fst on) i) eqn:E; [|reflexivity].
  apply hit_true in E. destruct E as [_ [_ E]]. exfalso. apply (ok_add _ Hn). rewrite E. apply In_origs. exact Hon.
Qed.

Lemma t_on_addable on l : In on (c_imports C) -> Forall (addable C) l -> flat_map (t_on C on) l = l.
Proof.
  intros Hon Hl. apply flat_map_singleton. intros i Hi. rewrite Forall_forall in Hl.
  unfold t_on. rewrite (addable_not_hit on i Hon (Hl i Hi)). reflexivity.
Qed.

Lemma t_on_nohit on l : existsb (hit C (fst on)) l = false -> flat_map (t_on C on) l = l.
Proof.
  intros H. apply flat_map_singleton. intros i Hi. unfold t_on.
  rewrite (proj1 (existsb_false_forall _ _) H i Hi). reflexivity.
Qed.

Lemma step1_t on l : In on (c_imports C) -> flat_map (t_on C on) (step1 C on l) = flat_map (t_on C on) l.
Proof.
  intros Hon. unfold step1. destruct (spec_for C (fst on)) eqn:S.
  - apply remove_first_flat_map. intros i Hi. unfold t_on. rewrite Hi, S. reflexivity.
  - apply upd_first_flat_map. intros i Hi. unfold t_on. rewrite Hi, S.
    rewrite (hit_ren C _ _ i (ok_neq on Hon)). reflexivity.
Qed.

Lemma t_all_nohit E i : (forall on, In on E -> hit C (fst on) i = false) -> t_all C E i = [i].
Proof.
  induction E as [|on E IH]; intros H; [reflexivity|]. cbn [t_all].
  rewrite (H on (or_introl eq_refl)). apply IH. intros on' Hon'. apply H. right. exact Hon'.
Qed.

Lemma t_all_addable E l : incl E (c_imports C) -> Forall (addable C) l -> flat_map (t_all C E) l = l.
Proof.
  intros HE Hl. apply flat_map_singleton. intros i Hi. rewrite Forall_forall in Hl.
  apply t_all_nohit. intros on Hon. apply addable_not_hit; auto.
Qed.

Lemma ren_nohit E Y i : incl E (c_imports C) -> ~ In Y (origs C) -> forall on, In on E -> hit C (fst on) (ren Y i) = false.
Proof.
  intros HE HY on Hon. destruct (hit C (fst on) (ren Y i)) eqn:E'; [|reflexivity].
  apply hit_true in E'. destruct E' as [_ [_ E']]. cbn [ren i_name] in E'. exfalso. apply HY. rewrite E'.
  apply In_origs. apply HE. exact Hon.
Qed.

Lemma t_all_cons on E i :
  In on (c_imports C) -> incl E (c_imports C) -> flat_map (t_all C E) (t_on C on i) = t_all C (on :: E) i.
Proof.
  intros Hon HE. cbn [t_all]. unfold t_on. destruct (hit C (fst on) i) eqn:H.
  - destruct (spec_for C (fst on)); [reflexivity|]. cbn [flat_map]. rewrite app_nil_r.
    apply t_all_nohit. apply ren_nohit; [exact HE | apply ok_new; exact Hon].
  - cbn [flat_map]. apply app_nil_r.
Qed.

Lemma t_all_cases E i i' :
  In i' (t_all C E i) ->
  (i' = i /\ forall on, In on E -> hit C (fst on) i = false) \/
  (exists on, In on E /\ hit C (fst on) i = true /\ spec_for C (fst on) = None /\ i' = ren (snd on) i).
Proof.
  induction E as [|on E IH]; cbn [t_all]; intros H.
  - destruct H as [H|[]]. left. split; [symmetry; exact H | intros on []].
  - destruct (hit C (fst on) i) eqn:Hh.
    + unfold t_on in H. rewrite Hh in H. destruct (spec_for C (fst on)) eqn:S; [destruct H|].
      destruct H as [H|[]]. right. exists on. split; [left; reflexivity|]. auto.
    + destruct (IH H) as [[H1 H2]|[on' [H1 H2]]].
      * left. split; [exact H1|]. intros on' [<-|Hon']; auto.
      * right. exists on'. split; [right; exact H1 | exact H2].
Qed.

(** ---- signatures seen through [pres] *)
Lemma good_sig_fwd sp m m' i : pres m m' -> good_sig_b sp m i = true -> good_sig_b sp m' i = true.
Proof.
  intros Pr. unfold good_sig_b. destruct (i_kind i); auto.
  destruct (sig_of m fid) as [s|] eqn:E; [|discriminate]. rewrite (pr_sig _ _ Pr _ _ E). auto.
Qed.

Lemma good_sig_bwd sp m m' i :
  wfP m -> In i (imports m) -> pres m m' -> good_sig_b sp m' i = true -> good_sig_b sp m i = true.
Proof.
  intros W Hi Pr. unfold good_sig_b. destruct (i_kind i) eqn:K; auto.
  assert (In fid (ifids (imports m))) as Hf by (apply In_ifids; eauto).
  pose proof (wf_imp_kind m W) as Kd. rewrite Forall_forall in Kd. specialize (Kd fid Hf).
  apply kind_of_sig_of in Kd. destruct Kd as [s E]. rewrite E, (pr_sig _ _ Pr _ _ E). auto.
Qed.

(** ---- rename_first fails only on a non-function *)
Lemma rename_first_err X Y l e :
  rename_first P X Y l = Err e -> exists i, In i l /\ named P X i = true /\ is_func i = false.
Proof.
  induction l as [|i r IH]; cbn [rename_first]; [discriminate|].
  destruct (named P X i) eqn:Nm.
  - destruct (is_func i) eqn:F; [discriminate|]. intros _. exists i. split; [left; reflexivity | auto].
  - destruct (rename_first P X Y r) as [[r' b]|e'] eqn:E; [discriminate|]. intros H'.
    destruct (IH H') as [j [Hj Hj']]. exists j. split; [right; exact Hj | exact Hj'].
Qed.

(** ---- one pass of the loop body, all outcomes *)
Definition once_post (on : string * string) (m : module) (r : res (module * cells)) : Prop :=
  match r with
  | Ok mc1 =>
      exists ai, imports (fst mc1) = step1 C on (imports m) ++ ai /\ Forall (addable C) ai /\
                 wfP (fst mc1) /\ pres m (fst mc1) /\
                 (forall sp i, spec_for C (fst on) = Some sp -> find (hit C (fst on)) (imports m) = Some i ->
                               good_sig_b sp m i = true)
  | Err _ =>
      (spec_for C (fst on) = None /\ exists i, In i (imports m) /\ named P (fst on) i = true /\ is_func i = false) \/
      (exists sp i, spec_for C (fst on) = Some sp /\ find (hit C (fst on)) (imports m) = Some i /\ good_sig_b sp m i = false)
  end.

Lemma once_cases on m cl : wfP m -> In on (c_imports C) -> once_post on m (once C on (m, cl)).
Proof.
  intros W Hon. unfold once, once_post, step1. destruct (spec_for C (fst on)) as [sp|] eqn:S.
  - destruct (spec_for_some _ _ S) as [Hsp Ho]. unfold emit_one. rewrite (ok_looked sp Hsp), Ho.
    destruct (get_func (imports m) P (fst on)) as [fid|] eqn:G.
    + destruct (get_func_some C _ _ _ G) as [i0 [Hfind [Hi0 [Hh Hk]]]].
      assert (In fid (ifids (imports m))) as Hfid by (apply In_ifids; eauto).
      pose proof (wf_imp_kind m W) as Kd. rewrite Forall_forall in Kd. specialize (Kd fid Hfid).
      destruct (kind_of_sig_of _ _ _ Kd) as [[ps rs] Hs]. rewrite Hs.
      destruct (tys_eqb ps (s_params sp)) eqn:T1; cbn [negb].
      2:{ right. exists sp, i0. split; [reflexivity|]. split; [exact Hfind|].
          unfold good_sig_b. rewrite Hk, Hs, T1. reflexivity. }
      destruct (tys_eqb rs (s_results sp)) eqn:T2; cbn [negb].
      2:{ right. exists sp, i0. split; [reflexivity|]. split; [exact Hfind|].
          unfold good_sig_b. rewrite Hk, Hs, T1, T2. reflexivity. }
      destruct (add_import_func m P (s_new sp) (s_new_sig sp)) as [m1 f1] eqn:A1.
      pose proof (add_import_func_grows C _ _ _ _ _ (In_s_new C sp Hsp) A1) as G1.
      pose proof (helpers_grow C (s_helpers sp) (m1, cl)) as G2.
      destruct (fold_left (do_helper C) (s_helpers sp) (m1, cl)) as [m2 cl2]. cbn [fst] in G2.
      pose proof (grows_trans C _ _ _ G1 G2) as G12.
      destruct (gr_imp C _ _ G12) as [ai [Hai Hadd]].
      assert (In fid (ifids (imports m2))) as Hfid2 by (rewrite Hai, ifids_app; apply in_app_iff; left; exact Hfid).
      destruct (replace_ok m2 fid (GGlue (fst on)) (gr_wf C _ _ G12 W) Hfid2) as [m3 [R1 [R2 [R3 R4]]]].
      rewrite R1. cbn [fst]. exists ai. split; [|split; [exact Hadd|split; [exact R3|split]]].
      * rewrite R2, Hai. rewrite remove_first_app by (apply In_ifids_existsb; exact Hfid).
        rewrite (remove_first_fid C _ _ _ (wf_imp_nodup m W) G). reflexivity.
      * eapply pres_trans; [apply (grows_pres C); exact G12 | exact R4].
      * intros sp' i Hsp' Hf. injection Hsp' as <-. rewrite Hfind in Hf. injection Hf as <-.
        unfold good_sig_b. rewrite Hk, Hs, T1, T2. reflexivity.
    + cbn [fst]. exists []. rewrite app_nil_r. apply get_func_none in G.
      split; [symmetry; apply remove_first_none; exact G|].
      split; [constructor|]. split; [exact W|]. split; [apply pres_refl|].
      intros sp' i _ Hf. apply find_none_existsb in G. congruence.
  - destruct (rename_first P (fst on) (snd on) (imports m)) as [[l' b]|e] eqn:R.
    + cbn [fst]. apply rename_first_ok in R. exists []. rewrite app_nil_r.
      assert (map i_kind l' = map i_kind (imports m)) as Hk.
      { rewrite R. apply map_upd_first. intros; reflexivity. }
      destruct (with_imports_ok m l' W Hk) as [W' Pr].
      split; [exact R|]. split; [constructor|]. split; [exact W'|]. split; [exact Pr|]. intros sp i H. discriminate.
    + left. split; [reflexivity|]. eapply rename_first_err. exact R.
Qed.

Lemma entry_loop_S k on mc :
  entry_loop C (S k) on mc =
  match once C on mc with
  | Err e => Err e
  | Ok mc' => if c_loops C && (match get_func (imports (fst mc')) P (fst on) with Some _ => true | None => false end)
              then entry_loop C k on mc' else Ok mc'
  end.
Proof. reflexivity. Qed.

(** ---- the loop of one IMPORTS entry: what a successful run has done *)
Lemma loop_ok on (Hon : In on (c_imports C)) k : forall m cl m' cl',
  entry_loop C k on (m, cl) = Ok (m', cl') -> wfP m ->
  exists ai, imports m' = flat_map (t_on C on) (imports m) ++ ai /\ Forall (addable C) ai /\ wfP m' /\ pres m m' /\
             (forall sp i, spec_for C (fst on) = Some sp -> In i (imports m) -> hit C (fst on) i = true ->
                           good_sig_b sp m i = true).
Proof.
  induction k as [|k IH]; intros m cl m' cl' H W; cbn [entry_loop] in H; [discriminate|].
  pose proof (once_cases on m cl W Hon) as O.
  destruct (once C on (m, cl)) as [[m1 cl1]|e]; [|discriminate]. cbn [once_post fst] in O, H.
  destruct O as [ai1 [I1 [A1 [W1 [P1 S1]]]]]. rewrite ok_loops in H. cbn [andb] in H.
  assert (exists ai2, imports m' = flat_map (t_on C on) (imports m1) ++ ai2 /\ Forall (addable C) ai2 /\ wfP m' /\ pres m1 m' /\
             (forall sp i, spec_for C (fst on) = Some sp -> In i (imports m1) -> hit C (fst on) i = true ->
                           good_sig_b sp m1 i = true)) as [ai2 [I2 [A2 [W2 [P2 S2]]]]].
  { destruct (get_func (imports m1) P (fst on)) eqn:G.
    - eapply IH; eauto.
    - injection H as <- <-. apply get_func_none in G. exists []. rewrite app_nil_r.
      split; [symmetry; apply t_on_nohit; exact G|]. split; [constructor|]. split; [exact W1|].
      split; [apply pres_refl|]. intros sp i _ Hi Hh.
      rewrite (proj1 (existsb_false_forall _ _) G i Hi) in Hh. discriminate. }
  exists (ai1 ++ ai2). split; [|split; [apply Forall_app; auto|split; [exact W2|split; [eapply pres_trans; eauto|]]]].
  - rewrite I2, I1, flat_map_app, (step1_t on _ Hon), (t_on_addable on ai1 Hon A1), app_assoc. reflexivity.
  - intros sp i Hsp Hi Hh. destruct (In_remove_first_or (hit C (fst on)) _ _ Hi) as [Hr|Hf].
    + apply (good_sig_bwd sp m m1 i W Hi P1). apply S2; [exact Hsp| |exact Hh].
      rewrite I1. apply in_app_iff. left. unfold step1. rewrite Hsp. exact Hr.
    + eapply S1; eauto.
Qed.

(** ---- the whole table *)
Lemma fold_err E e : fold_left (step C) E (Err e) = Err e.
Proof. induction E as [|on E IH]; [reflexivity | exact IH]. Qed.

Lemma fold_ok E : incl E (c_imports C) -> forall m cl m' cl',
  fold_left (step C) E (Ok (m, cl)) = Ok (m', cl') -> wfP m ->
  exists ai, imports m' = flat_map (t_all C E) (imports m) ++ ai /\ Forall (addable C) ai /\ wfP m' /\ pres m m' /\
             (forall i sp, In i (imports m) -> i_mod i = P -> is_func i = true -> In (i_name i) (map fst E) ->
                           spec_for C (i_name i) = Some sp -> good_sig_b sp m i = true).
Proof.
  induction E as [|on E IH]; intros HE m cl m' cl' H W.
  - cbn [fold_left] in H. injection H as <- <-. exists []. rewrite app_nil_r.
    split; [symmetry; apply flat_map_singleton; reflexivity|]. split; [constructor|]. split; [exact W|].
    split; [apply pres_refl|]. intros i sp _ _ _ [].
  - assert (Hon : In on (c_imports C)) by (apply HE; left; reflexivity).
    assert (HE' : incl E (c_imports C)) by (intros x Hx; apply HE; right; exact Hx).
    cbn [fold_left step] in H.
    destruct (entry_loop C (S (S (Datatypes.length (imports m)))) on (m, cl)) as [[m1 cl1]|e] eqn:L;
      [|rewrite fold_err in H; discriminate].
    destruct (loop_ok on Hon _ _ _ _ _ L W) as [ai1 [I1 [A1 [W1 [P1 S1]]]]].
    destruct (IH HE' _ _ _ _ H W1) as [ai2 [I2 [A2 [W2 [P2 S2]]]]].
    exists (ai1 ++ ai2). split; [|split; [apply Forall_app; auto|split; [exact W2|split; [eapply pres_trans; eauto|]]]].
    + rewrite I2, I1, flat_map_app, flat_map_flat_map, (t_all_addable E ai1 HE' A1), app_assoc.
      f_equal. f_equal. apply flat_map_ext_in. intros i _. apply t_all_cons; assumption.
    + intros i sp Hi Hm Hf Hn Hsp. cbn [map] in Hn.
      destruct (String.eqb (fst on) (i_name i)) eqn:En.
      * apply String.eqb_eq in En. rewrite <- En in Hsp. apply (S1 sp i Hsp Hi).
        apply hit_true. auto.
      * apply String.eqb_neq in En. destruct Hn as [Hn|Hn]; [contradiction|].
        apply (good_sig_bwd sp m m1 i W Hi P1). apply S2; auto.
        rewrite I1. apply in_app_iff. left. apply in_flat_map. exists i. split; [exact Hi|].
        unfold t_on. destruct (hit C (fst on) i) eqn:Hh; [|left; reflexivity].
        apply hit_true in Hh. destruct Hh as [_ [_ Hh]]. congruence.
Qed.

(** ---- progress: a module the tables accept is processed without error, within the fuel *)
Lemma ready_In m i :
  ready_b C m = true -> In i (imports m) -> i_mod i = P -> In (i_name i) (origs C) ->
  is_func i = true /\ forall sp, spec_for C (i_name i) = Some sp -> good_sig_b sp m i = true.
Proof.
  unfold ready_b. rewrite forallb_forall. intros H Hi Hm Hn. specialize (H i Hi).
  rewrite Hm, String.eqb_refl, (proj2 (mem_In _ _) Hn) in H. cbn [andb negb orb] in H.
  apply andb_prop in H. destruct H as [H1 H2]. split; [exact H1|]. intros sp Hsp. rewrite Hsp in H2. exact H2.
Qed.

(** where the imports of the next state come from *)
Definition prov (m m1 : module) : Prop :=
  forall i', In i' (imports m1) -> In i' (imports m) \/ ~ (i_mod i' = P /\ In (i_name i') (origs C)).

Lemma ready_prov m m1 : ready_b C m = true -> prov m m1 -> pres m m1 -> ready_b C m1 = true.
Proof.
  intros R Pv Pr. unfold ready_b. apply forallb_forall. intros i' Hi'.
  destruct (String.eqb (i_mod i') P && mem (i_name i') (origs C)) eqn:E; [|reflexivity]. cbn [negb orb].
  apply andb_prop in E. destruct E as [E1 E2]. apply String.eqb_eq in E1. apply mem_In in E2.
  destruct (Pv i' Hi') as [Hi|Hn]; [|exfalso; apply Hn; tauto].
  destruct (ready_In m i' R Hi E1 E2) as [F G]. rewrite F. cbn [andb].
  destruct (spec_for C (i_name i')) as [sp|] eqn:S; [|reflexivity].
  eapply good_sig_fwd; [exact Pr | apply G; reflexivity].
Qed.

Lemma addable_prov i : addable C i -> ~ (i_mod i = P /\ In (i_name i) (origs C)).
Proof. intros [_ H] [_ H']. exact (ok_add _ H H'). Qed.

Lemma prov_step1 on m m1 ai :
  In on (c_imports C) -> imports m1 = step1 C on (imports m) ++ ai -> Forall (addable C) ai -> prov m m1.
Proof.
  intros Hon I A i' Hi'. rewrite I in Hi'. apply in_app_iff in Hi'. destruct Hi' as [Hi'|Hi'].
  - unfold step1 in Hi'. destruct (spec_for C (fst on)).
    + left. eapply In_remove_first. exact Hi'.
    + destruct (In_upd_first _ _ _ _ Hi') as [H|[y [_ [_ ->]]]]; [left; exact H|].
      right. intros [_ H]. cbn [ren i_name] in H. exact (ok_new on Hon H).
  - right. apply addable_prov. rewrite Forall_forall in A. apply A. exact Hi'.
Qed.

Lemma prov_t_on on m m1 ai :
  In on (c_imports C) -> imports m1 = flat_map (t_on C on) (imports m) ++ ai -> Forall (addable C) ai -> prov m m1.
Proof.
  intros Hon I A i' Hi'. rewrite I in Hi'. apply in_app_iff in Hi'. destruct Hi' as [Hi'|Hi'].
  - apply in_flat_map in Hi'. destruct Hi' as [i [Hi Ht]]. unfold t_on in Ht.
    destruct (hit C (fst on) i).
    + destruct (spec_for C (fst on)); [destruct Ht|]. destruct Ht as [<-|[]].
      right. intros [_ H]. cbn [ren i_name] in H. exact (ok_new on Hon H).
    + destruct Ht as [<-|[]]. left. exact Hi.
  - right. apply addable_prov. rewrite Forall_forall in A. apply A. exact Hi'.
Qed.

Lemma cnt_app X a b : cnt C X (a ++ b) = cnt C X a + cnt C X b.
Proof. unfold cnt. rewrite filter_app, app_length. reflexivity. Qed.

Lemma cnt_zero X l : existsb (hit C X) l = false -> cnt C X l = 0.
Proof.
  intros H. unfold cnt. rewrite (filter_all_false (hit C X) l); [reflexivity|].
  apply Forall_forall. apply existsb_false_forall. exact H.
Qed.

Lemma cnt_le X l : cnt C X l <= Datatypes.length l.
Proof.
  unfold cnt. induction l as [|i r IH]; cbn [filter Datatypes.length]; [lia|].
  destruct (hit C X i); cbn [Datatypes.length]; lia.
Qed.

Lemma addable_nohits on ai : In on (c_imports C) -> Forall (addable C) ai -> existsb (hit C (fst on)) ai = false.
Proof.
  intros Hon A. apply existsb_false_forall. intros i Hi. rewrite Forall_forall in A.
  apply addable_not_hit; auto.
Qed.

Lemma step1_cnt on l :
  In on (c_imports C) -> existsb (hit C (fst on)) l = true -> S (cnt C (fst on) (step1 C on l)) = cnt C (fst on) l.
Proof.
  intros Hon H. unfold step1, cnt. destruct (spec_for C (fst on)).
  - apply remove_first_count. exact H.
  - apply upd_first_count; [|exact H]. intros i _. apply hit_ren. apply ok_neq. exact Hon.
Qed.

Lemma step1_nohit on l : existsb (hit C (fst on)) l = false -> step1 C on l = l.
Proof.
  intros H. unfold step1. destruct (spec_for C (fst on)); [apply remove_first_none | apply upd_first_none]; exact H.
Qed.

Lemma once_progress on m cl :
  In on (c_imports C) -> wfP m -> ready_b C m = true -> exists m1 cl1, once C on (m, cl) = Ok (m1, cl1).
Proof.
  intros Hon W R. pose proof (once_cases on m cl W Hon) as O.
  destruct (once C on (m, cl)) as [[m1 cl1]|e]; [eauto|]. exfalso. cbn [once_post] in O.
  destruct O as [[_ [i [Hi [Hn Hf]]]]|[sp [i [Hsp [Hfind Hg]]]]].
  - unfold named in Hn. apply andb_prop in Hn. destruct Hn as [N1 N2].
    apply String.eqb_eq in N1. apply String.eqb_eq in N2.
    destruct (ready_In m i R Hi N1) as [F _]; [rewrite N2; apply In_origs; exact Hon | congruence].
  - apply find_some in Hfind. destruct Hfind as [Hi Hh]. apply hit_true in Hh. destruct Hh as [_ [N1 N2]].
    destruct (ready_In m i R Hi N1) as [_ G]; [rewrite N2; apply In_origs; exact Hon|].
    rewrite N2 in G. rewrite (G sp Hsp) in Hg. discriminate.
Qed.

Lemma loop_progress on (Hon : In on (c_imports C)) k : forall m cl,
  wfP m -> ready_b C m = true -> cnt C (fst on) (imports m) <= k ->
  exists m' cl', entry_loop C (S k) on (m, cl) = Ok (m', cl').
Proof.
  induction k as [|k IH]; intros m cl W R Hc.
  - rewrite entry_loop_S. destruct (once_progress on m cl Hon W R) as [m1 [cl1 O]].
    pose proof (once_cases on m cl W Hon) as Po. rewrite O in *. cbn [once_post fst] in Po.
    destruct Po as [ai [I [A _]]]. rewrite ok_loops. cbn [andb fst].
    destruct (get_func (imports m1) P (fst on)) eqn:G; [|do 2 eexists; reflexivity]. exfalso.
    assert (existsb (hit C (fst on)) (imports m1) = true) as Hx.
    { destruct (existsb (hit C (fst on)) (imports m1)) eqn:E; [reflexivity|]. apply get_func_none in E. congruence. }
    rewrite I, existsb_app, (addable_nohits on ai Hon A), orb_false_r in Hx.
    destruct (existsb (hit C (fst on)) (imports m)) eqn:E.
    + pose proof (step1_cnt on _ Hon E). lia.
    + rewrite (step1_nohit on _ E) in Hx. congruence.
  - rewrite entry_loop_S. destruct (once_progress on m cl Hon W R) as [m1 [cl1 O]].
    pose proof (once_cases on m cl W Hon) as Po. rewrite O in *. cbn [once_post fst] in Po.
    destruct Po as [ai [I [A [W1 [P1 _]]]]]. rewrite ok_loops. cbn [andb fst].
    destruct (get_func (imports m1) P (fst on)) eqn:G; [|do 2 eexists; reflexivity].
    apply IH; [exact W1 | eapply ready_prov; [exact R | eapply prov_step1; eauto | exact P1] |].
    rewrite I, cnt_app, (cnt_zero _ ai (addable_nohits on ai Hon A)).
    destruct (existsb (hit C (fst on)) (imports m)) eqn:E.
    + pose proof (step1_cnt on _ Hon E). lia.
    + rewrite (step1_nohit on _ E). rewrite (cnt_zero _ _ E). lia.
Qed.

Lemma fold_progress E : incl E (c_imports C) -> forall m cl,
  wfP m -> ready_b C m = true -> exists m' cl', fold_left (step C) E (Ok (m, cl)) = Ok (m', cl').
Proof.
  induction E as [|on E IH]; intros HE m cl W R; [cbn; eauto|].
  assert (Hon : In on (c_imports C)) by (apply HE; left; reflexivity).
  assert (HE' : incl E (c_imports C)) by (intros x Hx; apply HE; right; exact Hx).
  cbn [fold_left step].
  destruct (loop_progress on Hon (S (Datatypes.length (imports m))) m cl W R) as [m1 [cl1 L]].
  { pose proof (cnt_le (fst on) (imports m)). lia. }
  rewrite L. destruct (loop_ok on Hon _ _ _ _ _ L W) as [ai [I [A [W1 [P1 _]]]]].
  apply IH; [exact HE' | exact W1 |]. eapply ready_prov; [exact R | eapply prov_t_on; eauto | exact P1].
Qed.

(** ---- nothing to do: the module comes back as it is *)
Lemma quiet_In l i : quiet_b C l = true -> In i l -> i_mod i = P -> ~ In (i_name i) (origs C).
Proof.
  unfold quiet_b. rewrite forallb_forall. intros H Hi Hm Hn. specialize (H i Hi).
  rewrite Hm, String.eqb_refl, (proj2 (mem_In _ _) Hn) in H. discriminate.
Qed.

Lemma quiet_named on l i : In on (c_imports C) -> quiet_b C l = true -> In i l -> named P (fst on) i = false.
Proof.
  intros Hon Q Hi. destruct (named P (fst on) i) eqn:E; [|reflexivity]. unfold named in E.
  apply andb_prop in E. destruct E as [E1 E2]. apply String.eqb_eq in E1. apply String.eqb_eq in E2.
  exfalso. apply (quiet_In l i Q Hi E1). rewrite E2. apply In_origs. exact Hon.
Qed.

Lemma once_quiet on m cl : In on (c_imports C) -> quiet_b C (imports m) = true -> once C on (m, cl) = Ok (m, cl).
Proof.
  intros Hon Q. unfold once. destruct (spec_for C (fst on)) as [sp|] eqn:S.
  - destruct (spec_for_some _ _ S) as [Hsp Ho]. unfold emit_one. rewrite (ok_looked sp Hsp), Ho.
    assert (get_func (imports m) P (fst on) = None) as ->; [|reflexivity].
    apply get_func_none. apply existsb_false_forall. intros i Hi. unfold hit.
    rewrite (quiet_named on _ i Hon Q Hi). apply andb_false_r.
  - rewrite rename_first_quiet by (intros i Hi; eapply quiet_named; eauto).
    rewrite with_imports_same. reflexivity.
Qed.

Lemma loop_quiet on k m cl :
  In on (c_imports C) -> quiet_b C (imports m) = true -> entry_loop C (S k) on (m, cl) = Ok (m, cl).
Proof.
  intros Hon Q. rewrite entry_loop_S. rewrite (once_quiet on m cl Hon Q). cbn [fst].
  assert (get_func (imports m) P (fst on) = None) as ->; [|rewrite andb_false_r; reflexivity].
  apply get_func_none. apply existsb_false_forall. intros i Hi. unfold hit.
  rewrite (quiet_named on _ i Hon Q Hi). apply andb_false_r.
Qed.

Lemma fold_quiet E m cl :
  incl E (c_imports C) -> quiet_b C (imports m) = true -> fold_left (step C) E (Ok (m, cl)) = Ok (m, cl).
Proof.
  induction E as [|on E IH]; intros HE Q; [reflexivity|]. cbn [fold_left step].
  rewrite loop_quiet; [|apply HE; left; reflexivity | exact Q].
  apply IH; [|exact Q]. intros x Hx. apply HE. right. exact Hx.
Qed.

End O.
