(** C07: well-formedness of the abstract module (what walrus guarantees for any parsed module),
    the decidable conditions on the tool's tables the generic proofs need, and the executable
    descriptions of what one IMPORTS entry / the whole IMPORTS table does to the import list.
    Definitions only; the proofs are in RewriteLists.v, RewriteWfProofs.v, RewriteOnce.v, RewriteProofs.v. *)
From Coq Require Import NArith List String Bool.
From SFV Require Import Abi.AbiTypes Tramp.RewriteTypes Tramp.Rewrite.
Import ListNotations.
Open Scope string_scope.

(** ---- function / memory ids mentioned by an import list *)
Definition kfid (k : ikind) : list N := match k with KFunc f => [f] | _ => [] end.
Definition kmid (k : ikind) : list N := match k with KMem x => [x] | _ => [] end.
Definition ifids (l : list import) : list N := flat_map (fun i => kfid (i_kind i)) l.
Definition imids (l : list import) : list N := flat_map (fun i => kmid (i_kind i)) l.

Definition memN (x : N) (l : list N) : bool := existsb (N.eqb x) l.
Fixpoint nodupN (l : list N) : bool :=
  match l with [] => true | x :: r => negb (memN x r) && nodupN r end.

Definition is_imported_kind (k : option fkind) : bool := match k with Some FImported => true | _ => false end.
Definition is_own (f : func) : bool := match f_kind f with FOwn => true | _ => false end.

(** ---- well-formed module, executable *)
Definition wf_module_b (m : module) : bool :=
  nodupN (map f_id (funcs m)) &&
  forallb (fun f => N.ltb (f_id f) (next_func m)) (funcs m) &&
  nodupN (map m_id (mems m)) &&
  forallb (fun x => N.ltb (m_id x) (next_mem m)) (mems m) &&
  forallb (fun fid => is_imported_kind (kind_of m fid)) (ifids (imports m)) &&
  nodupN (ifids (imports m)) &&
  forallb (fun f => match f_kind f with FImported => memN (f_id f) (ifids (imports m)) | _ => true end) (funcs m) &&
  forallb (fun mid => existsb (fun x => N.eqb (m_id x) mid && m_imported x) (mems m)) (imids (imports m)).

Definition wf_module (m : module) : Prop := wf_module_b m = true.

(** ... and the same, part by part, as propositions (equivalent: RewriteWfProofs.wf_module_iff) *)
Record wfP (m : module) : Prop := {
  wf_fid_nodup : NoDup (map f_id (funcs m));                       (* function ids pairwise distinct *)
  wf_fid_lt : Forall (fun f => (f_id f < next_func m)%N) (funcs m);  (* ... and below the next fresh id *)
  wf_mid_nodup : NoDup (map m_id (mems m));
  wf_mid_lt : Forall (fun x => (m_id x < next_mem m)%N) (mems m);
  wf_imp_kind : Forall (fun fid => kind_of m fid = Some FImported) (ifids (imports m));
                                                                    (* an import KFunc fid refers to an imported function *)
  wf_imp_nodup : NoDup (ifids (imports m));                        (* distinct function imports, distinct ids *)
  wf_imported_has : Forall (fun f => f_kind f = FImported -> In (f_id f) (ifids (imports m))) (funcs m);
                                                                    (* every imported function has its import *)
  wf_mem_imp : Forall (fun mid => exists x, In x (mems m) /\ m_id x = mid /\ m_imported x = true) (imids (imports m))
}.

Section Cfg.
Variable C : cfg.

(** ---- conditions on the tool's tables *)
Definition origs : list string := map fst (c_imports C).
(** the names of the imports the tool can ADD *)
Definition add_names : list string := map s_new (c_specs C) ++ [fst (c_alloc C); c_pmem C].

(** structural: the tool loops; nothing it renames to / adds carries an original name; an emit_*
    function looks for the import its match arm is named after *)
Definition cfg_ok : bool :=
  c_loops C &&
  forallb (fun on => negb (mem (snd on) origs)) (c_imports C) &&
  forallb (fun n => negb (mem n origs)) add_names &&
  forallb (fun sp => String.eqb (s_looked sp) (s_orig sp)) (c_specs C).

(** every name the tool can produce is a name its own unexpected-import test tolerates (idempotence) *)
Definition cfg_stable : bool :=
  forallb (known_name C) add_names &&
  forallb (fun on => match spec_for C (fst on) with Some _ => true | None => known_name C (snd on) end) (c_imports C).

(** the list of names [known_name] accepts *)
Definition klist : list string :=
  flat_map (fun on => fst on :: (if c_accept_new C && negb (c_skip_empty_new C && String.eqb (snd on) "") then [snd on] else []))
           (c_imports C) ++ c_extra C.

(** ---- what the tool does to the import list *)
(** a FUNCTION import of the provider namespace named X *)
Definition hit (X : string) (i : import) : bool := is_func i && named (c_provider C) X i.
Definition ren (nw : string) (i : import) : import := {| i_mod := i_mod i; i_name := nw; i_kind := i_kind i |}.

(** one IMPORTS entry on one import, when the entry has run to completion *)
Definition t_on (on : string * string) (i : import) : list import :=
  if hit (fst on) i then match spec_for C (fst on) with Some _ => [] | None => [ren (snd on) i] end else [i].
(** a list of IMPORTS entries, in order, on one import: the first entry that hits decides *)
Fixpoint t_all (E : list (string * string)) (i : import) : list import :=
  match E with [] => [i] | on :: E' => if hit (fst on) i then t_on on i else t_all E' i end.

Fixpoint upd_first {A} (p : A -> bool) (f : A -> A) (l : list A) : list A :=
  match l with [] => [] | x :: r => if p x then f x :: r else x :: upd_first p f r end.
(** one pass of the loop body on the import list (without what it appends) *)
Definition step1 (on : string * string) (l : list import) : list import :=
  match spec_for C (fst on) with
  | Some _ => remove_first (hit (fst on)) l
  | None => upd_first (hit (fst on)) (ren (snd on)) l
  end.
Definition cnt (X : string) (l : list import) : nat := List.length (filter (hit X) l).

(** the signature test of an emit_* function *)
Definition good_sig_b (sp : sspec) (m : module) (i : import) : bool :=
  match i_kind i with
  | KFunc fid => match sig_of m fid with
                 | Some (ps, rs) => tys_eqb ps (s_params sp) && tys_eqb rs (s_results sp)
                 | None => false
                 end
  | _ => true
  end.

(** an import the tool may append *)
Definition addable (i : import) : Prop := i_mod i = c_provider C /\ In (i_name i) add_names.

(** a provider-namespace import carrying an original name is a function (no "kind mismatch") *)
Definition no_kind_mismatch_b (l : list import) : bool :=
  negb (existsb (fun i => String.eqb (i_mod i) (c_provider C) && mem (i_name i) origs && negb (is_func i)) l).

(** every provider-namespace import carrying an original name is a function, with the signature its
    emit_* function validates: the table-level form of "the specification accepts" *)
Definition ready_b (m : module) : bool :=
  forallb (fun i => negb (String.eqb (i_mod i) (c_provider C) && mem (i_name i) origs) ||
                    (is_func i && match spec_for C (i_name i) with Some sp => good_sig_b sp m i | None => true end))
          (imports m).

(** nothing left for the tool to do: no provider-namespace import carries an original name *)
Definition quiet_b (l : list import) : bool :=
  forallb (fun i => negb (String.eqb (i_mod i) (c_provider C) && mem (i_name i) origs)) l.

End Cfg.

(** what the tool leaves alone / guarantees besides the imports *)
Record pres (m m' : module) : Prop := {
  pr_rest : rest m' = rest m;
  pr_mems : own_mems m' = own_mems m;
  pr_own : filter is_own (funcs m') = filter is_own (funcs m);
  pr_sig : forall fid s, sig_of m fid = Some s -> sig_of m' fid = Some s
}.
