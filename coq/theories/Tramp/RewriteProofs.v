(** C07 proofs, part 4: what [apply] does, for any tables with [cfg_ok C = true]. *)
From Coq Require Import NArith List String Bool Arith Lia.
From SFV Require Import Abi.AbiTypes Tramp.RewriteTypes Tramp.Rewrite Tramp.RewriteWf Tramp.RewriteLists
  Tramp.RewriteWfProofs Tramp.RewriteOnce.
Import ListNotations.
Open Scope string_scope.
Open Scope list_scope.

Lemma existsb_ext' {A} (p q : A -> bool) l : (forall x, p x = q x) -> existsb p l = existsb q l.
Proof. intros H. induction l as [|x r IH]; [reflexivity|]. cbn [existsb]. rewrite H, IH. reflexivity. Qed.

Lemma length_one {A} (l : list A) : Datatypes.length l = 1 -> exists x, l = [x].
Proof. destruct l as [|x [|y r]]; cbn; try discriminate. eauto. Qed.

Lemma filter_flat_map_pointwise {A} (q : A -> bool) (f : A -> list A) l :
  (forall x, filter q (f x) = filter q [x]) -> filter q (flat_map f l) = filter q l.
Proof.
  intros H. induction l as [|x r IH]; [reflexivity|]. cbn [flat_map]. rewrite filter_app, H, IH. cbn [filter].
  destruct (q x); reflexivity.
Qed.

(** the names [known_name] accepts, as a list *)
Lemma known_name_klist C n : known_name C n = mem n (klist C).
Proof.
  unfold known_name, klist. rewrite mem_app. f_equal.
  induction (c_imports C) as [|on r IH]; [reflexivity|]. cbn [existsb flat_map]. rewrite mem_app, <- IH.
  f_equal. unfold mem at 1. cbn [existsb]. rewrite (String.eqb_sym n (fst on)). f_equal.
  unfold new_name_matches.
  destruct (c_accept_new C); cbn [andb]; [|reflexivity].
  destruct (c_skip_empty_new C && String.eqb (snd on) ""); cbn [negb andb existsb].
  - apply andb_false_r.
  - rewrite andb_true_r, orb_false_r. apply String.eqb_sym.
Qed.

Section A.
Variable C : cfg.
Hypothesis Hok : cfg_ok C = true.
Notation P := (c_provider C).
Notation E := (c_imports C).

(** ---- the outcomes of apply *)
Lemma apply_inv m m' :
  apply C m = Ok m' ->
  (own_mems m = [] /\ m' = m) \/
  (exists x cl', own_mems m = [x] /\ find (unexpected C) (imports m) = None /\ find (unsupported C) (imports m) = None /\
                 fold_left (step C) E (Ok (m, cells0)) = Ok (m', cl')).
Proof.
  unfold apply. destruct (own_mems m) as [|x [|y r]].
  - intros H. injection H as <-. left. auto.
  - destruct (find (unexpected C) (imports m)); [discriminate|].
    destruct (find (unsupported C) (imports m)); [discriminate|].
    destruct (fold_left (step C) E (Ok (m, cells0))) as [[m1 cl1]|e]; [|discriminate].
    intros H. injection H as <-. right. exists x, cl1. auto.
  - discriminate.
Qed.

Lemma apply_refused_unexpected m x :
  own_mems m = [x] -> existsb (unexpected C) (imports m) = true -> exists e, apply C m = Err e.
Proof.
  intros Hm H. unfold apply. rewrite Hm. destruct (existsb_find _ _ H) as [i [Hf _]]. rewrite Hf. eauto.
Qed.

Lemma apply_refused_unsupported m x :
  own_mems m = [x] -> existsb (unsupported C) (imports m) = true -> exists e, apply C m = Err e.
Proof.
  intros Hm H. unfold apply. rewrite Hm. destruct (find (unexpected C) (imports m)); [eauto|].
  destruct (existsb_find _ _ H) as [i [Hf _]]. rewrite Hf. eauto.
Qed.

(** ---- shape of a successful run *)
Lemma apply_shape m m' :
  wfP m -> apply C m = Ok m' ->
  (own_mems m = [] /\ m' = m) \/
  (exists x ai, own_mems m = [x] /\ existsb (unexpected C) (imports m) = false /\ existsb (unsupported C) (imports m) = false /\
     imports m' = flat_map (t_all C E) (imports m) ++ ai /\ Forall (addable C) ai /\ wfP m' /\ pres m m').
Proof.
  intros W H. destruct (apply_inv m m' H) as [?|[x [cl' [Hm [U1 [U2 F]]]]]]; [left; assumption|]. right.
  destruct (fold_ok C Hok E (incl_refl _) _ _ _ _ F W) as [ai [I [A [W' [Pr _]]]]].
  exists x, ai. apply find_none_existsb in U1. apply find_none_existsb in U2. auto 10.
Qed.

Lemma apply_wf m m' : wfP m -> apply C m = Ok m' -> wfP m'.
Proof.
  intros W H. destruct (apply_shape m m' W H) as [[_ ->]|[x [ai [_ [_ [_ [_ [_ [W' _]]]]]]]]]; assumption.
Qed.

Definition foreign (i : import) : bool := negb (String.eqb (i_mod i) P).

Lemma t_all_foreign L i : filter foreign (t_all C L i) = filter foreign [i].
Proof.
  induction L as [|on L IH]; [reflexivity|]. cbn [t_all]. destruct (hit C (fst on) i) eqn:H; [|exact IH].
  unfold t_on. rewrite H. apply hit_true in H. destruct H as [_ [H _]].
  assert (foreign i = false) as Hf by (unfold foreign; rewrite H, String.eqb_refl; reflexivity).
  cbn [filter]. rewrite Hf. destruct (spec_for C (fst on)); [reflexivity|].
  cbn [filter]. unfold foreign, ren. cbn [i_mod]. rewrite H, String.eqb_refl. reflexivity.
Qed.

Lemma apply_pres m m' :
  wfP m -> apply C m = Ok m' -> pres m m' /\ filter foreign (imports m') = filter foreign (imports m).
Proof.
  intros W H. destruct (apply_shape m m' W H) as [[_ ->]|[x [ai [_ [_ [_ [I [A [_ Pr]]]]]]]]].
  - split; [apply pres_refl | reflexivity].
  - split; [exact Pr|]. rewrite I, filter_app. rewrite (filter_all_false foreign ai).
    + rewrite app_nil_r. apply filter_flat_map_pointwise. intros i. apply t_all_foreign.
    + eapply Forall_impl; [|exact A]. intros i [Hi _]. unfold foreign. rewrite Hi, String.eqb_refl. reflexivity.
Qed.

Lemma origs_entry n : In n (origs C) -> exists on, In on E /\ fst on = n.
Proof. unfold origs. intros H. apply in_map_iff in H. destruct H as [on [H1 H2]]. eauto. Qed.

(** where an import of the result comes from *)
Lemma result_import m m' ai i' :
  imports m' = flat_map (t_all C E) (imports m) ++ ai -> Forall (addable C) ai -> In i' (imports m') ->
  (addable C i') \/
  (In i' (imports m) /\ forall on, In on E -> hit C (fst on) i' = false) \/
  (exists i on, In i (imports m) /\ In on E /\ hit C (fst on) i = true /\ spec_for C (fst on) = None /\ i' = ren (snd on) i).
Proof.
  intros I A Hi'. rewrite I in Hi'. apply in_app_iff in Hi'. destruct Hi' as [Hi'|Hi'].
  - apply in_flat_map in Hi'. destruct Hi' as [i [Hi Ht]].
    destruct (t_all_cases C E i i' Ht) as [[-> Hn]|[on [H1 [H2 [H3 H4]]]]].
    + right. left. auto.
    + right. right. exists i, on. auto.
  - left. rewrite Forall_forall in A. apply A. exact Hi'.
Qed.

Lemma apply_trampolined m m' :
  wfP m -> own_mems m <> [] -> apply C m = Ok m' ->
  forall i, In i (imports m') -> i_mod i = P -> is_func i = true -> ~ In (i_name i) (origs C).
Proof.
  intros W Hne H i' Hi' Hm Hf Hn. destruct (apply_shape m m' W H) as [[Hm0 _]|[x [ai [_ [_ [_ [I [A _]]]]]]]]; [contradiction|].
  destruct (result_import m m' ai i' I A Hi') as [Ha|[[_ Hno]|[i [on [_ [Hon [_ [_ ->]]]]]]]].
  - destruct Ha as [_ Ha]. exact (ok_add C Hok _ Ha Hn).
  - destruct (origs_entry _ Hn) as [on [Hon Hfst]]. specialize (Hno on Hon).
    assert (hit C (fst on) i' = true) by (apply hit_true; auto). congruence.
  - cbn [ren i_name] in Hn. exact (ok_new C Hok on Hon Hn).
Qed.

(** ---- every function import an emit_* function is responsible for is signature-checked *)
Lemma apply_bad_sig m x i sp :
  wfP m -> own_mems m = [x] -> In i (imports m) -> i_mod i = P -> is_func i = true -> In (i_name i) (origs C) ->
  spec_for C (i_name i) = Some sp -> good_sig_b sp m i = false -> exists e, apply C m = Err e.
Proof.
  intros W Hm Hi Hmod Hf Hn Hsp Hbad. destruct (apply C m) as [m'|e] eqn:H; [|eauto]. exfalso.
  destruct (apply_inv m m' H) as [[H0 _]|[x' [cl' [_ [_ [_ F]]]]]]; [congruence|].
  destruct (fold_ok C Hok E (incl_refl _) _ _ _ _ F W) as [ai [_ [_ [_ [_ S]]]]].
  rewrite (S i sp Hi Hmod Hf Hn Hsp) in Hbad. discriminate.
Qed.

(** ---- a module the tables accept is accepted *)
Lemma apply_accepts m x :
  wfP m -> own_mems m = [x] -> existsb (unexpected C) (imports m) = false -> existsb (unsupported C) (imports m) = false ->
  ready_b C m = true -> exists m', apply C m = Ok m'.
Proof.
  intros W Hm U1 U2 R. unfold apply. rewrite Hm.
  rewrite (proj2 (find_none_existsb _ _) U1), (proj2 (find_none_existsb _ _) U2).
  destruct (fold_progress C Hok E (incl_refl _) m cells0 W R) as [m' [cl' F]]. rewrite F. eauto.
Qed.

(** ---- idempotence *)
Hypothesis Hst : cfg_stable C = true.

Lemma st_add n : In n (add_names C) -> known_name C n = true.
Proof.
  unfold cfg_stable in Hst. apply andb_prop in Hst. destruct Hst as [H _]. rewrite forallb_forall in H. apply H.
Qed.

Lemma st_new on : In on E -> spec_for C (fst on) = None -> known_name C (snd on) = true.
Proof.
  unfold cfg_stable in Hst. apply andb_prop in Hst. destruct Hst as [_ H]. rewrite forallb_forall in H.
  intros Hon S. specialize (H on Hon). rewrite S in H. exact H.
Qed.

Lemma apply_idem m m' :
  wfP m -> no_kind_mismatch_b C (imports m) = true -> apply C m = Ok m' -> apply C m' = Ok m'.
Proof.
  intros W K H. destruct (apply_shape m m' W H) as [[Hm0 ->]|[x [ai [Hm [U1 [U2 [I [A [W' Pr]]]]]]]]]; [exact H|].
  unfold no_kind_mismatch_b in K. apply negb_true_iff in K.
  pose proof (proj1 (existsb_false_forall _ _) K) as K'.
  pose proof (proj1 (existsb_false_forall _ _) U1) as U1'.
  pose proof (proj1 (existsb_false_forall _ _) U2) as U2'.
  unfold apply. rewrite (pr_mems _ _ Pr), Hm.
  assert (find (unexpected C) (imports m') = None) as ->.
  { apply find_none_existsb. apply existsb_false_forall. intros i' Hi'.
    destruct (result_import m m' ai i' I A Hi') as [[Ha1 Ha2]|[[Hi _]|[i [on [Hi [Hon [_ [S ->]]]]]]]].
    - unfold unexpected. rewrite (st_add _ Ha2). apply andb_false_r.
    - apply U1'. exact Hi.
    - unfold unexpected, ren. cbn [i_mod i_name]. rewrite (st_new on Hon S). apply andb_false_r. }
  assert (find (unsupported C) (imports m') = None) as ->.
  { apply find_none_existsb. apply existsb_false_forall. intros i' Hi'.
    destruct (result_import m m' ai i' I A Hi') as [[Ha1 Ha2]|[[Hi _]|[i [on [Hi [Hon [_ [S ->]]]]]]]].
    - unfold unsupported. rewrite Ha1, String.eqb_refl. apply andb_false_r.
    - apply U2'. exact Hi.
    - exact (U2' i Hi). }
  rewrite (fold_quiet C Hok E m' cells0 (incl_refl _)); [reflexivity|].
  unfold quiet_b. apply forallb_forall. intros i' Hi'. apply negb_true_iff.
  destruct (String.eqb (i_mod i') P && mem (i_name i') (origs C)) eqn:Eq; [|reflexivity]. exfalso.
  apply andb_prop in Eq. destruct Eq as [E1 E2]. apply String.eqb_eq in E1. apply mem_In in E2.
  destruct (result_import m m' ai i' I A Hi') as [[_ Ha2]|[[Hi Hno]|[i [on [Hi [Hon [_ [S ->]]]]]]]].
  - exact (ok_add C Hok _ Ha2 E2).
  - destruct (origs_entry _ E2) as [on [Hon Hfst]]. specialize (Hno on Hon).
    assert (is_func i' = true) as Hf.
    { specialize (K' i' Hi). cbn beta in K'. rewrite E1, String.eqb_refl, (proj2 (mem_In _ _) E2) in K'. cbn [andb] in K'.
      apply negb_false_iff in K'. exact K'. }
    assert (hit C (fst on) i' = true) by (apply hit_true; auto). congruence.
  - cbn [ren i_name] in E2. exact (ok_new C Hok on Hon E2).
Qed.

End A.

(** ---- the effect of the whole table on one import, by table look-up *)
Lemma t_all_lookup C L i :
  t_all C L i =
  if is_func i && String.eqb (i_mod i) (c_provider C) then
    match lookup (i_name i) L with
    | Some nw => match spec_for C (i_name i) with Some _ => [] | None => [ren nw i] end
    | None => [i]
    end
  else [i].
Proof.
  induction L as [|[k nw] L IH]; cbn [t_all lookup fst].
  - destruct (is_func i && String.eqb (i_mod i) (c_provider C)); reflexivity.
  - assert (hit C k i = (is_func i && String.eqb (i_mod i) (c_provider C)) && String.eqb (i_name i) k) as Hh.
    { unfold hit, named. apply andb_assoc. }
    unfold t_on. cbn [fst snd]. rewrite Hh, IH, (String.eqb_sym k (i_name i)).
    destruct (is_func i && String.eqb (i_mod i) (c_provider C)) eqn:B; cbn [andb]; [|reflexivity].
    destruct (String.eqb (i_name i) k) eqn:Ek; [|reflexivity].
    apply String.eqb_eq in Ek. rewrite Ek. reflexivity.
Qed.
