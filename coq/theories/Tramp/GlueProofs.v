(** C04 -- proofs about the trampoline's generated glue ([GlueGen.funcs]) by symbolic execution of
    the [WasmMini] interpreter.  No function index is mentioned: wrappers are found by name
    ([widx], evaluated by [vm_compute]) and the interpreter is driven one instruction at a time by
    the step lemmas / tactic [wm_steps] of [WasmMiniFacts] on the concrete [funcs]; [N] arithmetic
    and the memory operations are never unfolded.  (Whole-term [cbn]/[lazy] normalisation of [exec]
    blows up on the log glue: it keeps executing continuations under stuck bounds checks.) *)
From Coq Require Import NArith List Bool String Lia Arith.
From SFV Require Import Tramp.WasmMini Tramp.WasmMiniFacts Gen.GlueGen Tramp.GlueSpec.
Import ListNotations.
Open Scope string_scope.
Open Scope N_scope.

(** side conditions of the symbolic execution: memory bounds *)
Ltac side := rewrite ?msize_mcopy; first [assumption | lia].
(** start the symbolic execution of [invoke fuel (widx name) args ...] for [fuel >= glue_fuel] *)
Ltac start Hf :=
  apply (invoke_mono _ _ _ glue_fuel); [|exact Hf];
  unfold invoke, finished;
  match goal with
  | |- context [widx ?n] => let i := eval vm_compute in (widx n) in change (widx n) with i
  end;
  unfold glue_fuel; cbn [rev List.app].

(** * Memory facts *)
Lemma mget_mcopy_in d s da sa n x :
  in_range da n x -> mget (mcopy d s da sa n) x = mget s (sa + (x - da)).
Proof.
  intros [H1 H2]. unfold mcopy. cbn [mget].
  replace (da <=? x) with true by (symmetry; apply N.leb_le; lia).
  replace (x <? da + n) with true by (symmetry; apply N.ltb_lt; lia). reflexivity.
Qed.

Lemma mget_mcopy_out d s da sa n x :
  ~ in_range da n x -> mget (mcopy d s da sa n) x = mget d x.
Proof.
  intros H. unfold mcopy, in_range in *. cbn [mget].
  destruct (N.leb_spec da x); cbn [andb]; [|reflexivity].
  destruct (N.ltb_spec x (da + n)); [|reflexivity]. exfalso. apply H. lia.
Qed.

Lemma mcopy_zero d s da sa x : mget (mcopy d s da sa 0) x = mget d x.
Proof. apply mget_mcopy_out. unfold in_range. lia. Qed.

Lemma bytes_at_ext m m' a a' n :
  (forall i, i < n -> mget m (a + i) = mget m' (a' + i)) -> bytes_at m a n = bytes_at m' a' n.
Proof.
  intros H. unfold bytes_at. apply map_ext_in. intros i Hi. apply in_seq in Hi. apply H. lia.
Qed.

Lemma bytes_at_mcopy d s da sa n : bytes_at (mcopy d s da sa n) da n = bytes_at s sa n.
Proof.
  apply bytes_at_ext. intros i Hi. rewrite mget_mcopy_in by (unfold in_range; lia).
  f_equal. lia.
Qed.

Lemma bytes_at_length m a n : List.length (bytes_at m a n) = N.to_nat n.
Proof. unfold bytes_at. rewrite map_length, seq_length. reflexivity. Qed.

Lemma bytes_at_nth m a n i : i < n -> nth (N.to_nat i) (bytes_at m a n) 0 = mget m (a + i).
Proof.
  intros H. unfold bytes_at. set (f := fun i => mget m (a + N.of_nat i)).
  rewrite nth_indep with (d' := f O) by (rewrite map_length, seq_length; lia).
  rewrite map_nth. rewrite seq_nth by lia. unfold f. cbn [plus]. rewrite N2Nat.id. reflexivity.
Qed.

(** [mcopy] is exactly "these bytes := those bytes, everything else (and the size) unchanged" *)
Lemma copied_mcopy d s da sa n : copied (mcopy d s da sa n) d s da sa n.
Proof.
  split; [apply bytes_at_mcopy|]. split; [reflexivity|]. intros x Hx. apply mget_mcopy_out, Hx.
Qed.

Lemma load32_mcopy_out d s da sa n ea :
  n = 0 \/ da + n <= ea \/ ea + 4 <= da ->
  load32 (mcopy d s da sa n) ea = load32 d ea.
Proof.
  intros H. unfold load32.
  rewrite !mget_mcopy_out by (unfold in_range; lia). reflexivity.
Qed.

(** * Unpacking the i64 answer of the packed-string imports *)
Lemma hi_word hi lo : hi < 2 ^ 32 -> lo < 2 ^ 32 ->
  wrap32 (N.shiftr (hi * 2 ^ 32 + lo) ((32 mod 2 ^ 64) mod 64)) = hi.
Proof.
  intros. change ((32 mod 2 ^ 64) mod 64) with 32. rewrite N.shiftr_div_pow2. unfold wrap32.
  rewrite N.div_add_l by lia. rewrite N.div_small by lia. rewrite N.add_0_r. apply N.mod_small; lia.
Qed.
Lemma lo_word hi lo : lo < 2 ^ 32 -> wrap32 (hi * 2 ^ 32 + lo) = lo.
Proof. intros. unfold wrap32. rewrite N.add_comm, N.mod_add by lia. apply N.mod_small; lia. Qed.
Lemma wrap32_small x : x < 2 ^ 32 -> wrap32 x = x.
Proof. intros. unfold wrap32. apply N.mod_small; assumption. Qed.

(** * The traced oracle *)
Lemma traced_call {P} (o : oracle_t P) name args m ps r m' ps' tr :
  o name args m ps = Some (r, m', ps') ->
  traced o name args m (tr, ps) = Some (r, m', (tr ++ [(name, args, m)], ps'))%list.
Proof. intros H. unfold traced. cbn [fst snd]. rewrite H. reflexivity. Qed.

Section Glue.
  Context {P : Type} (oracle : oracle_t P).
  Notation invoke := (invoke P oracle funcs).

  (** ** (c) output_new_utf8_str / (d) intern_utf8_str *)
  Ltac packed_proof :=
    intros [Hc Hhi Hlo Hs Hd] fuel Hf; unfold i32 in *;
    start Hf; wm_steps side;
    rewrite ?hi_word, ?lo_word by assumption; wm_steps side.

  Theorem out_str_spec gm pm ps ptr len hi lo pm' ps' :
    packed_str_conv oracle "_shopify_function_output_new_utf8_str" gm pm ps ptr len hi lo pm' ps' ->
    forall fuel, (glue_fuel <= fuel)%nat ->
    invoke fuel (widx n_out_str) [I32 ptr; I32 len] gm pm ps
    = finished [I32 hi] gm (mcopy pm' gm lo ptr len) ps'.
  Proof. packed_proof. Qed.

  Theorem intern_str_spec gm pm ps ptr len hi lo pm' ps' :
    packed_str_conv oracle "_shopify_function_intern_utf8_str" gm pm ps ptr len hi lo pm' ps' ->
    forall fuel, (glue_fuel <= fuel)%nat ->
    invoke fuel (widx n_intern_str) [I32 ptr; I32 len] gm pm ps
    = finished [I32 hi] gm (mcopy pm' gm lo ptr len) ps'.
  Proof. packed_proof. Qed.

  (** ** (a) input_read_utf8_str *)
  Theorem read_str_spec gm pm ps src out len addr ps' :
    read_str_conv oracle gm pm ps src out len addr ps' ->
    forall fuel, (glue_fuel <= fuel)%nat ->
    invoke fuel (widx n_read_str) [I32 src; I32 out; I32 len] gm pm ps
    = finished [] (mcopy gm pm out addr len) pm ps'.
  Proof.
    intros [Hc Hs Hd] fuel Hf. start Hf. wm_steps side.
  Qed.

  (** ** (b) input_get_obj_prop *)
  Theorem obj_prop_spec gm pm ps scope ptr len blk ps1 v pm2 ps2 :
    obj_prop_conv oracle gm pm ps scope ptr len blk ps1 v pm2 ps2 ->
    forall fuel, (glue_fuel <= fuel)%nat ->
    invoke fuel (widx n_get_obj_prop) [I64 scope; I32 ptr; I32 len] gm pm ps
    = finished [I64 v] gm pm2 ps2.
  Proof.
    intros [Ha Hb Hs Hc] fuel Hf. start Hf. wm_steps side.
  Qed.

  (** ** (e) log_new_utf8_str *)
  Theorem log_str_spec gm pm ps ptr len area pm' ps' src_off dst1 len1 dst2 len2 :
    log_conv oracle gm pm ps ptr len area pm' ps' src_off dst1 len1 dst2 len2 ->
    (len1 <> len -> log_plan_not_clobbered area dst1 len1) ->
    forall fuel, (glue_fuel <= fuel)%nat ->
    invoke fuel (widx n_log_str) [I32 ptr; I32 len] gm pm ps
    = finished [] gm (log_result pm' gm ptr len src_off dst1 len1 dst2 len2) ps'.
  Proof.
    intros [Hc Ha W0 W1 W2 W3 W4 Hw1 Hs1 Hd1 Hw2 Hs2 Hd2] Hnc fuel Hf. unfold i32 in *.
    unfold log_result.
    destruct (N.eqb_spec len1 len) as [E|E].
    - start Hf. wm_steps side.
      all: rewrite ?N.add_0_r, ?W0, ?W1, ?W2.
      all: rewrite ?(wrap32_small (ptr + src_off)) by assumption.
      all: wm_steps side.
    - specialize (Hnc E). specialize (Hw2 E). specialize (Hs2 E). specialize (Hd2 E).
      unfold log_plan_not_clobbered in Hnc.
      start Hf. wm_steps side.
      all: rewrite ?N.add_0_r, ?W0, ?W1, ?W2.
      all: rewrite ?(wrap32_small (ptr + src_off)) by assumption.
      all: wm_steps side.
      all: rewrite ?load32_mcopy_out by lia.
      all: rewrite ?W3, ?W4.
      all: rewrite ?(wrap32_small (ptr + src_off + len1)) by assumption.
      all: wm_steps side.
  Qed.
End Glue.

(** * What the specs mean for the bytes: corollaries in terms of [copied] *)
Section Effects.
  Context {P : Type} (oracle : oracle_t P).
  Notation invoke := (invoke P oracle funcs).

  (** (c)/(d), every status: exactly [len] bytes go from guest [ptr] to provider [lo]; nothing else
      in the provider's memory (as the provider left it) changes; the guest's memory is untouched;
      the HIGH word is returned. *)
  Corollary out_str_effect gm pm ps ptr len hi lo pm' ps' :
    packed_str_conv oracle "_shopify_function_output_new_utf8_str" gm pm ps ptr len hi lo pm' ps' ->
    forall fuel, (glue_fuel <= fuel)%nat ->
    exists s', invoke fuel (widx n_out_str) [I32 ptr; I32 len] gm pm ps = Some s' /\
      stack s' = [I32 hi] /\ g s' = gm /\ pstate s' = ps' /\ copied (p s') pm' gm lo ptr len.
  Proof.
    intros H fuel Hf. eexists. split; [apply out_str_spec; eassumption|].
    cbn [stack g p pstate]. repeat split; try reflexivity; apply copied_mcopy.
  Qed.

  Corollary intern_str_effect gm pm ps ptr len hi lo pm' ps' :
    packed_str_conv oracle "_shopify_function_intern_utf8_str" gm pm ps ptr len hi lo pm' ps' ->
    forall fuel, (glue_fuel <= fuel)%nat ->
    exists s', invoke fuel (widx n_intern_str) [I32 ptr; I32 len] gm pm ps = Some s' /\
      stack s' = [I32 hi] /\ g s' = gm /\ pstate s' = ps' /\ copied (p s') pm' gm lo ptr len.
  Proof.
    intros H fuel Hf. eexists. split; [apply intern_str_spec; eassumption|].
    cbn [stack g p pstate]. repeat split; try reflexivity; apply copied_mcopy.
  Qed.

  (** the accepted case (status 0) *)
  Corollary out_str_accepted gm pm ps ptr len lo pm' ps' :
    packed_str_conv oracle "_shopify_function_output_new_utf8_str" gm pm ps ptr len 0 lo pm' ps' ->
    forall fuel, (glue_fuel <= fuel)%nat ->
    exists s', invoke fuel (widx n_out_str) [I32 ptr; I32 len] gm pm ps = Some s' /\
      stack s' = [I32 0] /\ g s' = gm /\ pstate s' = ps' /\
      bytes_at (p s') lo len = bytes_at gm ptr len /\ agree_outside pm' (p s') lo len.
  Proof. intros H fuel Hf. exact (out_str_effect _ _ _ _ _ _ _ _ _ H fuel Hf). Qed.

  (** (a) *)
  Corollary read_str_effect gm pm ps src out len addr ps' :
    read_str_conv oracle gm pm ps src out len addr ps' ->
    forall fuel, (glue_fuel <= fuel)%nat ->
    exists s', invoke fuel (widx n_read_str) [I32 src; I32 out; I32 len] gm pm ps = Some s' /\
      stack s' = [] /\ p s' = pm /\ pstate s' = ps' /\ copied (g s') gm pm out addr len.
  Proof.
    intros H fuel Hf. eexists. split; [apply read_str_spec; eassumption|].
    cbn [stack g p pstate]. repeat split; try reflexivity; apply copied_mcopy.
  Qed.

  (** (b): the name bytes the provider is asked about are the guest's *)
  Lemma obj_prop_name_bytes gm pm blk ptr len :
    bytes_at (mcopy pm gm blk ptr len) blk len = bytes_at gm ptr len /\
    agree_outside pm (mcopy pm gm blk ptr len) blk len.
  Proof. apply copied_mcopy. Qed.

  (** (e) in terms of bytes: first segment, then (if any) second segment *)
  Corollary log_str_effect gm pm ps ptr len area pm' ps' src_off dst1 len1 dst2 len2 :
    log_conv oracle gm pm ps ptr len area pm' ps' src_off dst1 len1 dst2 len2 ->
    (len1 <> len -> log_plan_not_clobbered area dst1 len1) ->
    (len1 = len -> len2 = 0) ->
    forall fuel, (glue_fuel <= fuel)%nat ->
    exists s' pm1, invoke fuel (widx n_log_str) [I32 ptr; I32 len] gm pm ps = Some s' /\
      stack s' = [] /\ g s' = gm /\ pstate s' = ps' /\
      copied pm1 pm' gm dst1 (ptr + src_off) len1 /\
      copied (p s') pm1 gm dst2 (ptr + src_off + len1) len2.
  Proof.
    intros H Hnc Hconv fuel Hf. eexists. exists (mcopy pm' gm dst1 (ptr + src_off) len1).
    split; [eapply log_str_spec; eassumption|].
    cbn [stack g p pstate]. repeat split; try reflexivity; try apply copied_mcopy.
    all: unfold log_result; destruct (N.eqb_spec len1 len) as [E|E].
    - rewrite (Hconv E). reflexivity.
    - apply bytes_at_mcopy.
    - reflexivity.
    - reflexivity.
    - reflexivity.
    - intros x Hx. apply mget_mcopy_out, Hx.
  Qed.
End Effects.

(** (c)/(d) for an arbitrary i64 answer [r]: status/id = [r / 2^32], destination = [r mod 2^32] *)
Lemma packed_of_raw {P} (oracle : oracle_t P) pname gm pm ps ptr len r pm' ps' :
  oracle pname [I32 len] pm ps = Some ([I64 r], pm', ps') -> r < 2 ^ 64 ->
  ptr + len <= msize gm -> r mod 2 ^ 32 + len <= msize pm' ->
  packed_str_conv oracle pname gm pm ps ptr len (r / 2 ^ 32) (r mod 2 ^ 32) pm' ps'.
Proof.
  intros Hc Hr Hs Hd. split; try assumption; unfold i32.
  - rewrite Hc. do 3 f_equal. f_equal. f_equal. rewrite (N.div_mod r (2 ^ 32)) at 1 by lia. lia.
  - apply N.div_lt_upper_bound; [lia|]. change (2 ^ 32 * 2 ^ 32) with (2 ^ 64). exact Hr.
  - apply N.mod_lt. lia.
Qed.

(** * "Exactly these provider calls": the same theorems over the call-recording oracle *)
Section Traced.
  Context {P : Type} (oracle : oracle_t P).
  Notation tinvoke := (invoke (list call_rec * P) (traced oracle) funcs).

  Theorem read_str_calls gm pm ps src out len addr ps' tr :
    read_str_conv oracle gm pm ps src out len addr ps' ->
    forall fuel, (glue_fuel <= fuel)%nat ->
    tinvoke fuel (widx n_read_str) [I32 src; I32 out; I32 len] gm pm (tr, ps)
    = finished [] (mcopy gm pm out addr len) pm
        (tr ++ [("_shopify_function_input_get_utf8_str_addr", [I32 src], pm)], ps')%list.
  Proof.
    intros [Hc Hs Hd]. apply read_str_spec. split; try assumption. apply traced_call, Hc.
  Qed.

  Theorem obj_prop_calls gm pm ps scope ptr len blk ps1 v pm2 ps2 tr :
    obj_prop_conv oracle gm pm ps scope ptr len blk ps1 v pm2 ps2 ->
    forall fuel, (glue_fuel <= fuel)%nat ->
    tinvoke fuel (widx n_get_obj_prop) [I64 scope; I32 ptr; I32 len] gm pm (tr, ps)
    = finished [I64 v] gm pm2
        ((tr ++ [("_shopify_function_alloc", [I32 len], pm)])
            ++ [("_shopify_function_input_get_obj_prop", [I64 scope; I32 blk; I32 len],
                 mcopy pm gm blk ptr len)], ps2)%list.
  Proof.
    intros [Ha Hb Hs Hc].
    apply obj_prop_spec
      with (blk := blk) (ps1 := (tr ++ [("_shopify_function_alloc", [I32 len], pm)], ps1)%list).
    split; try assumption; apply traced_call; assumption.
  Qed.

  Theorem out_str_calls gm pm ps ptr len hi lo pm' ps' tr :
    packed_str_conv oracle "_shopify_function_output_new_utf8_str" gm pm ps ptr len hi lo pm' ps' ->
    forall fuel, (glue_fuel <= fuel)%nat ->
    tinvoke fuel (widx n_out_str) [I32 ptr; I32 len] gm pm (tr, ps)
    = finished [I32 hi] gm (mcopy pm' gm lo ptr len)
        (tr ++ [("_shopify_function_output_new_utf8_str", [I32 len], pm)], ps')%list.
  Proof.
    intros [Hc Hhi Hlo Hs Hd]. apply out_str_spec. split; try assumption. apply traced_call, Hc.
  Qed.

  Theorem intern_str_calls gm pm ps ptr len hi lo pm' ps' tr :
    packed_str_conv oracle "_shopify_function_intern_utf8_str" gm pm ps ptr len hi lo pm' ps' ->
    forall fuel, (glue_fuel <= fuel)%nat ->
    tinvoke fuel (widx n_intern_str) [I32 ptr; I32 len] gm pm (tr, ps)
    = finished [I32 hi] gm (mcopy pm' gm lo ptr len)
        (tr ++ [("_shopify_function_intern_utf8_str", [I32 len], pm)], ps')%list.
  Proof.
    intros [Hc Hhi Hlo Hs Hd]. apply intern_str_spec. split; try assumption. apply traced_call, Hc.
  Qed.

  Theorem log_str_calls gm pm ps ptr len area pm' ps' src_off dst1 len1 dst2 len2 tr :
    log_conv oracle gm pm ps ptr len area pm' ps' src_off dst1 len1 dst2 len2 ->
    (len1 <> len -> log_plan_not_clobbered area dst1 len1) ->
    forall fuel, (glue_fuel <= fuel)%nat ->
    tinvoke fuel (widx n_log_str) [I32 ptr; I32 len] gm pm (tr, ps)
    = finished [] gm (log_result pm' gm ptr len src_off dst1 len1 dst2 len2)
        (tr ++ [("_shopify_function_log_new_utf8_str", [I32 len], pm)], ps')%list.
  Proof.
    intros [Hc Ha W0 W1 W2 W3 W4 Hw1 Hs1 Hd1 Hw2 Hs2 Hd2] Hnc.
    apply log_str_spec with (area := area); [|assumption].
    split; try assumption. apply traced_call, Hc.
  Qed.
End Traced.

(** * The recorded defect: a REJECTED string write still writes *)
Theorem out_str_rejected_writes :
  exists (oracle : oracle_t unit) gm pm ptr len hi lo,
    (* the provider rejects: non-zero status, and leaves its own memory exactly as it was *)
    packed_str_conv oracle "_shopify_function_output_new_utf8_str" gm pm tt ptr len hi lo pm tt /\
    hi <> 0 /\ 0 < len /\
    exists s', invoke unit oracle funcs glue_fuel (widx n_out_str) [I32 ptr; I32 len] gm pm tt = Some s' /\
      stack s' = [I32 hi] /\
      (* ... yet the provider's memory after the call differs from before *)
      exists a, mget (p s') a <> mget pm a.
Proof.
  exists rejecting_oracle, all7_gm, zero_pm, 16, 5, 1, 0.
  assert (C : packed_str_conv rejecting_oracle "_shopify_function_output_new_utf8_str"
                all7_gm zero_pm tt 16 5 1 0 zero_pm tt).
  { split; try reflexivity; vm_compute; congruence. }
  split; [exact C|]. split; [discriminate|]. split; [reflexivity|].
  eexists. split; [apply (out_str_spec _ _ _ _ _ _ _ _ _ _ C); apply le_n|].
  split; [reflexivity|]. exists 0. vm_compute. discriminate.
Qed.

(** * (e) without the non-interference hypothesis the log spec is FALSE *)
Theorem log_plan_clobbered_witness :
  exists (oracle : oracle_t unit) gm pm ptr len area pm' src_off dst1 len1 dst2 len2,
    log_conv oracle gm pm tt ptr len area pm' tt src_off dst1 len1 dst2 len2 /\
    len1 <> len /\ ~ log_plan_not_clobbered area dst1 len1 /\
    exists s', invoke unit oracle funcs glue_fuel (widx n_log_str) [I32 ptr; I32 len] gm pm tt = Some s' /\
      exists a, mget (p s') a <> mget (log_result pm' gm ptr len src_off dst1 len1 dst2 len2) a.
Proof.
  exists clobber_oracle, clobber_gm, zero_pm, 0, 12, 1000, clobber_pm, 0, 1012, 8, 2000, 4.
  split.
  { split; try reflexivity;
      try (match goal with |- (_ <> _) -> _ => intros _ end); vm_compute; congruence. }
  split; [discriminate|]. split.
  { unfold log_plan_not_clobbered. lia. }
  eexists. split; [vm_compute; reflexivity|].
  exists 2000. vm_compute. discriminate.
Qed.

(** * (f) the scalar imports: pure pass-through *)
Lemma vtype_eqb_eq a b : vtype_eqb a b = true -> a = b.
Proof. destruct a, b; (reflexivity || discriminate). Qed.

Lemma vts_eqb_eq : forall a b, vts_eqb a b = true -> a = b.
Proof.
  induction a as [|x a IH]; destruct b as [|y b]; cbn [vts_eqb]; intros H; try discriminate; [reflexivity|].
  apply andb_prop in H. destruct H as [H1 H2]. f_equal; [apply vtype_eqb_eq, H1 | apply IH, H2].
Qed.

Lemma body_target_sound : forall n i b k,
  body_target i n b = Some k -> b = (map LocalGet (seq i n) ++ [Call k])%list.
Proof.
  induction n as [|n IH]; intros i b k H.
  - destruct b as [|[] [|? ?]]; cbn [body_target] in H; try discriminate. injection H as ->. reflexivity.
  - destruct b as [|[] b]; cbn [body_target] in H; try discriminate.
    destruct (Nat.eqb_spec i i0) as [<-|]; [|discriminate].
    cbn [seq map List.app]. f_equal. apply IH, H.
Qed.

Lemma passthrough_ok_sound name : passthrough_ok name = true ->
  exists w k fd params results,
    lookup name wrappers = Some w /\ lookup name api_sigs = Some (params, results) /\
    nth_error funcs w = Some (Local fd) /\
    fbody fd = (map LocalGet (seq 0 (List.length params)) ++ [Call k])%list /\
    fparams fd = params /\ flocals fd = [] /\ fresults fd = results /\
    nth_error funcs k = Some (Import provider_module ("_" ++ name) params results).
Proof.
  unfold passthrough_ok.
  destruct (lookup name wrappers) as [w|] eqn:Ew; [|discriminate].
  destruct (lookup name api_sigs) as [[params results]|] eqn:Es; [|discriminate].
  destruct (nth_error funcs w) as [[|fd]|] eqn:Ef; try discriminate.
  destruct (body_target 0 (List.length params) (fbody fd)) as [k|] eqn:Eb;
    [|rewrite andb_false_r; discriminate].
  destruct (nth_error funcs k) as [[m nm ps' rs'|]|] eqn:Ek; try (rewrite andb_false_r; discriminate).
  intros H.
  repeat match goal with
  | H : _ && _ = true |- _ => apply andb_prop in H; destruct H
  end.
  destruct (flocals fd) eqn:El; [|discriminate].
  exists w, k, fd, params, results.
  repeat match goal with
  | H : vts_eqb _ _ = true |- _ => apply vts_eqb_eq in H
  | H : String.eqb _ _ = true |- _ => apply String.eqb_eq in H
  end.
  subst. repeat split; try reflexivity; try assumption. apply body_target_sound, Eb.
Qed.

Lemma scalar_names_ok : forallb passthrough_ok scalar_names = true.
Proof. vm_compute. reflexivity. Qed.

Lemma scalar_names_spec name :
  In name scalar_names <-> In name (map fst api_sigs) /\ ~ In name string_names.
Proof.
  unfold scalar_names. rewrite filter_In. unfold is_string_name.
  split; intros [H1 H2]; (split; [exact H1|]).
  - intros Hin. apply negb_true_iff in H2.
    assert (E : existsb (String.eqb name) string_names = true)
      by (apply existsb_exists; exists name; split; [exact Hin | apply String.eqb_refl]).
    congruence.
  - apply negb_true_iff. destruct (existsb (String.eqb name) string_names) eqn:E; [|reflexivity].
    apply existsb_exists in E. destruct E as [x [Hx E]]. apply String.eqb_eq in E. subst x. contradiction.
Qed.

(** Every API import other than the five string-carrying ones: the wrapper's call reaches the import
    ["_" ++ name] with exactly the same arguments, and the outcome is exactly the provider's: same
    results, the provider's new memory and state, guest memory untouched. *)
Theorem scalar_passthrough name : In name scalar_names ->
  exists params results, lookup name api_sigs = Some (params, results) /\
  forall (P : Type) (oracle : oracle_t P) args gm pm ps,
    List.length args = List.length params ->
    (forall res pm' ps' fuel,
       oracle ("_" ++ name) args pm ps = Some (res, pm', ps') ->
       List.length res = List.length results ->
       (List.length params + 3 <= fuel)%nat ->
       invoke P oracle funcs fuel (widx name) args gm pm ps = finished (rev res) gm pm' ps') /\
    (oracle ("_" ++ name) args pm ps = None ->
       invoke P oracle funcs (List.length params + 3) (widx name) args gm pm ps = None).
Proof.
  intros Hin.
  pose proof (proj1 (forallb_forall _ _) scalar_names_ok name Hin) as Hok.
  destruct (passthrough_ok_sound name Hok)
    as (w & k & fd & params & results & Ew & Es & Ef & Eb & Ep & El & Er & Ek).
  exists params, results. split; [exact Es|].
  intros P oracle args gm pm ps Ha.
  pose proof (passthrough_call P oracle funcs w k fd _ _ params results args gm pm ps
                Ef Eb Ep El Er Ek Ha) as Hcall.
  unfold widx. rewrite Ew.
  replace (List.length params + 3)%nat with (S (List.length params + 2)) by lia.
  split.
  - intros res pm' ps' fuel Ho Hr Hf. rewrite Ho in Hcall.
    apply (invoke_mono _ _ _ (S (List.length params + 2))); [|lia].
    rewrite Hcall. unfold finished. rewrite <- Hr, <- rev_length, firstn_all. reflexivity.
  - intros Ho. rewrite Ho in Hcall. exact Hcall.
Qed.

(** * Structure of the trampolined module *)
Lemma structure_ok_true : structure_ok = true.
Proof. vm_compute. reflexivity. Qed.

Lemma mem_str_In n l : mem_str n l = true <-> In n l.
Proof.
  unfold mem_str. rewrite existsb_exists. split.
  - intros [x [Hx E]]. apply String.eqb_eq in E. subst. exact Hx.
  - intros H. exists n. split; [exact H | apply String.eqb_refl].
Qed.

Lemma lookup_In {A} n (v : A) l : In (n, v) l -> exists v', lookup n l = Some v'.
Proof.
  induction l as [|[k x] l IH]; cbn [In lookup]; [contradiction|].
  intros [E|H].
  - injection E as -> ->. rewrite String.eqb_refl. eauto.
  - destruct (String.eqb k n); eauto.
Qed.

Theorem structure :
  (* every function import is from the provider module *)
  (forall m n ps rs, In (Import m n ps rs) funcs -> m = provider_module) /\
  (* the only memory import is the provider's; the guest keeps its own single memory *)
  memory_imports = [(provider_module, "memory")] /\ own_memories = 1%nat /\
  (* the wrapped API names are exactly the API's names *)
  (forall name, In name (map fst wrappers) <-> In name (map fst api_sigs)) /\
  (* every wrapper has the public signature of its import *)
  (forall name w, In (name, w) wrappers ->
     exists fd ps rs, nth_error funcs w = Some (Local fd) /\ lookup name api_sigs = Some (ps, rs) /\
                      fparams fd = ps /\ fresults fd = rs).
Proof.
  pose proof structure_ok_true as H. unfold structure_ok in H.
  apply andb_prop in H. destruct H as [H H4].
  apply andb_prop in H. destruct H as [H H3].
  apply andb_prop in H. destruct H as [H1 H2].
  rewrite forallb_forall in H1, H2, H3, H4.
  split; [|split; [reflexivity|split; [reflexivity|split]]].
  - intros m n ps rs Hin. specialize (H1 _ Hin). cbn [import_from_provider] in H1.
    apply String.eqb_eq, H1.
  - intros name. split; intros Hin; apply mem_str_In; auto.
  - intros name w Hin.
    specialize (H4 _ Hin). unfold wrapper_sig_ok in H4. cbn [fst snd] in H4.
    destruct (nth_error funcs w) as [[|fd]|]; try discriminate.
    destruct (lookup name api_sigs) as [[ps rs]|]; try discriminate.
    apply andb_prop in H4. destruct H4 as [E1 E2].
    apply vts_eqb_eq in E1, E2. exists fd, ps, rs. auto.
Qed.
