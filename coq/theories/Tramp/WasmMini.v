(** A big-step interpreter for the WebAssembly subset the trampoline emits
    (local.get/set/tee, call, i32/i64.const, i64.shr_u, i32.wrap_i64, i32.add, i32.ne/eq/eqz, drop,
    if/else, i32.load (memory, offset), memory.copy (dst memory, src memory)) over TWO linear
    memories (the guest's own and the provider's imported one).  Calls to imported functions go
    to an ORACLE (a Section variable): the provider, about which the glue theorems assume only the
    low-level conventions.  Hand-written semantics, validated against wasmtime by the C04
    correspondence (not against a mechanised Wasm spec: none is installed). *)
From Coq Require Import NArith List Bool String.
Import ListNotations.
Open Scope N_scope.

Inductive vtype := TI32 | TI64 | TF64.
Inductive val := I32 (n : N) | I64 (n : N) | F64 (bits : N).
Inductive memid := Guest | Prov.

Inductive instr :=
| LocalGet (i : nat) | LocalSet (i : nat) | LocalTee (i : nat)
| Call (f : nat)
| I32Const (n : N) | I64Const (n : N)
| I64ShrU | I32WrapI64 | I32Add | I32Ne | I32Eq | I32Eqz | Drop
| If (t e : list instr)
| I32Load (m : memid) (off : N)
| MemoryCopy (dst src : memid).

(** A linear memory: its size in bytes and its contents (bytes, as a function of the address). *)
Record mem := { msize : N; mget : N -> N }.

(** memory.copy semantics: [n] bytes from [s] at [sa] to [d] at [da] (source read before writing). *)
Definition mcopy (d s : mem) (da sa n : N) : mem :=
  {| msize := msize d;
     mget := fun a => if (da <=? a) && (a <? da + n) then mget s (sa + (a - da)) else mget d a |}.

Record fdef := { fparams : list vtype; flocals : list vtype; fresults : list vtype; fbody : list instr }.
Inductive func :=
| Import (module name : string) (params results : list vtype)
| Local (f : fdef).

Definition zero_of (t : vtype) : val := match t with TI32 => I32 0 | TI64 => I64 0 | TF64 => F64 0 end.

(** Machine state: operand stack (top first), locals of the current frame, the two memories and
    the provider's abstract state (whatever the oracle needs to remember). *)
Record st (P : Type) := { stack : list val; locals : list val; g : mem; p : mem; pstate : P }.
Arguments stack {P}. Arguments locals {P}. Arguments g {P}. Arguments p {P}. Arguments pstate {P}.

Section Sem.
  Variable P : Type.
  (** [oracle name args provider_memory provider_state = Some (results, provider_memory', state')];
      [None] = the provider traps. *)
  Variable oracle : string -> list val -> mem -> P -> option (list val * mem * P).
  Variable funcs : list func.

  Definition wrap32 (n : N) : N := n mod 2 ^ 32.

  Fixpoint set_nth {A} (l : list A) (i : nat) (x : A) : list A :=
    match l, i with
    | [], _ => []
    | _ :: t, O => x :: t
    | h :: t, S j => h :: set_nth t j x
    end.

  Definition getm (s : st P) (m : memid) : mem := match m with Guest => g s | Prov => p s end.
  Definition setm (s : st P) (m : memid) (v : mem) : st P :=
    match m with
    | Guest => {| stack := stack s; locals := locals s; g := v; p := p s; pstate := pstate s |}
    | Prov => {| stack := stack s; locals := locals s; g := g s; p := v; pstate := pstate s |}
    end.
  Definition with_stack (s : st P) (k : list val) : st P :=
    {| stack := k; locals := locals s; g := g s; p := p s; pstate := pstate s |}.
  Definition with_locals (s : st P) (l : list val) : st P :=
    {| stack := stack s; locals := l; g := g s; p := p s; pstate := pstate s |}.

  (** pop [n] arguments: the LAST argument is on top of the stack. *)
  Fixpoint take_args (n : nat) (k : list val) (acc : list val) : option (list val * list val) :=
    match n with
    | O => Some (acc, k)
    | S n' => match k with [] => None | v :: k' => take_args n' k' (v :: acc) end
    end.

  Definition load32 (m : mem) (ea : N) : N :=
    mget m ea + 256 * mget m (ea + 1) + 65536 * mget m (ea + 2) + 16777216 * mget m (ea + 3).

  (** [None] = trap (or out of fuel). *)
  Fixpoint exec (fuel : nat) (is : list instr) (s : st P) {struct fuel} : option (st P) :=
    match fuel with
    | O => None
    | S fuel' =>
      match is with
      | [] => Some s
      | i :: rest =>
        let continue s' := exec fuel' rest s' in
        match i, stack s with
        | LocalGet n, k => match nth_error (locals s) n with Some v => continue (with_stack s (v :: k)) | None => None end
        | LocalSet n, v :: k => continue (with_stack (with_locals s (set_nth (locals s) n v)) k)
        | LocalTee n, v :: k => continue (with_locals s (set_nth (locals s) n v))
        | I32Const n, k => continue (with_stack s (I32 (wrap32 n) :: k))
        | I64Const n, k => continue (with_stack s (I64 (n mod 2 ^ 64) :: k))
        | I64ShrU, I64 b :: I64 a :: k => continue (with_stack s (I64 (N.shiftr a (b mod 64)) :: k))
        | I32WrapI64, I64 a :: k => continue (with_stack s (I32 (wrap32 a) :: k))
        | I32Add, I32 b :: I32 a :: k => continue (with_stack s (I32 (wrap32 (a + b)) :: k))
        | I32Ne, I32 b :: I32 a :: k => continue (with_stack s (I32 (if a =? b then 0 else 1) :: k))
        | I32Eq, I32 b :: I32 a :: k => continue (with_stack s (I32 (if a =? b then 1 else 0) :: k))
        | I32Eqz, I32 a :: k => continue (with_stack s (I32 (if a =? 0 then 1 else 0) :: k))
        | Drop, _ :: k => continue (with_stack s k)
        | If t e, I32 c :: k =>
            match exec fuel' (if c =? 0 then e else t) (with_stack s k) with
            | Some s' => continue s'
            | None => None
            end
        | I32Load m off, I32 a :: k =>
            let ea := a + off in
            if ea + 4 <=? msize (getm s m) then continue (with_stack s (I32 (load32 (getm s m) ea) :: k))
            else None
        | MemoryCopy d sr, I32 n :: I32 sa :: I32 da :: k =>
            if (sa + n <=? msize (getm s sr)) && (da + n <=? msize (getm s d)) then
              continue (with_stack (setm s d (mcopy (getm s d) (getm s sr) da sa n)) k)
            else None
        | Call f, k =>
            match nth_error funcs f with
            | Some (Local fd) =>
                match take_args (List.length (fparams fd)) k [] with
                | Some (args, k') =>
                    let frame := {| stack := []; locals := args ++ map zero_of (flocals fd); g := g s; p := p s; pstate := pstate s |} in
                    match exec fuel' (fbody fd) frame with
                    | Some s' =>
                        continue {| stack := firstn (List.length (fresults fd)) (stack s') ++ k'; locals := locals s;
                                    g := g s'; p := p s'; pstate := pstate s' |}
                    | None => None
                    end
                | None => None
                end
            | Some (Import _ name params _) =>
                match take_args (List.length params) k [] with
                | Some (args, k') =>
                    match oracle name args (p s) (pstate s) with
                    | Some (res, p', ps') => continue {| stack := rev res ++ k'; locals := locals s; g := g s; p := p'; pstate := ps' |}
                    | None => None
                    end
                | None => None
                end
            | None => None
            end
        | _, _ => None
        end
      end
    end.

  (** Call function [f] with [args] (first argument first) from an empty frame. *)
  Definition invoke (fuel : nat) (f : nat) (args : list val) (gm pm : mem) (ps : P) : option (st P) :=
    exec fuel [Call f] {| stack := rev args; locals := []; g := gm; p := pm; pstate := ps |}.
End Sem.
