(** Generic facts about the [WasmMini] interpreter (any oracle, any function list):
    fuel monotonicity, and one "step lemma" per instruction in continuation-passing form, from
    which the tactic [wm_steps] builds a controlled symbolic execution. *)
From Coq Require Import NArith List Bool String Lia Arith.
From SFV Require Import Tramp.WasmMini.
Import ListNotations.
Open Scope N_scope.

Lemma msize_mcopy d s da sa n : msize (mcopy d s da sa n) = msize d.
Proof. reflexivity. Qed.

Section Facts.
  Variable P : Type.
  Variable oracle : string -> list val -> mem -> P -> option (list val * mem * P).
  Variable funcs : list func.
  Notation exec := (exec P oracle funcs).
  Notation invoke := (invoke P oracle funcs).
  Notation mk k l gm pm ps := {| stack := k; locals := l; g := gm; p := pm; pstate := ps |}.

  (** More fuel never changes a successful run. *)
  Lemma exec_mono : forall f is s s', exec f is s = Some s' ->
    forall f', (f <= f')%nat -> exec f' is s = Some s'.
  Proof.
    induction f as [|f IH]; intros is s s' H f' Hle; [discriminate|].
    destruct f' as [|f']; [lia|]. assert (Hle' : (f <= f')%nat) by lia.
    destruct is as [|i rest]; [exact H|].
    cbn [WasmMini.exec] in *.
    destruct i;
    repeat match goal with
    | H : match ?x with _ => _ end = Some _ |- _ =>
        match x with
        | WasmMini.exec _ _ _ f ?is ?s =>
            let E := fresh "E" in destruct x eqn:E; [rewrite (IH _ _ _ E f' Hle') | discriminate]
        | _ => destruct x eqn:?; try discriminate
        end
    | H : (if ?x then _ else _) = Some _ |- _ => destruct x eqn:?; try discriminate
    | H : (let (_, _) := ?x in _) = Some _ |- _ => destruct x eqn:?
    end; eauto.
  Qed.

  Lemma invoke_mono f i args gm pm ps s' :
    invoke f i args gm pm ps = Some s' -> forall f', (f <= f')%nat -> invoke f' i args gm pm ps = Some s'.
  Proof. unfold WasmMini.invoke. apply exec_mono. Qed.

  (** ** Step lemmas: [exec (S f) (i :: r) s = X] follows from [exec f r s' = X] *)
  Section Steps.
    Variables (f : nat) (r : list instr) (k l : list val) (gm pm : mem) (ps : P) (X : option (st P)).

    Lemma s_nil s : exec (S f) [] s = Some s.
    Proof. reflexivity. Qed.

    Lemma s_local_get n v :
      nth_error l n = Some v ->
      exec f r (mk (v :: k) l gm pm ps) = X -> exec (S f) (LocalGet n :: r) (mk k l gm pm ps) = X.
    Proof. intros H <-. simpl. rewrite H. reflexivity. Qed.

    Lemma s_local_set n v :
      exec f r (mk k (set_nth l n v) gm pm ps) = X -> exec (S f) (LocalSet n :: r) (mk (v :: k) l gm pm ps) = X.
    Proof. intros <-. reflexivity. Qed.

    Lemma s_local_tee n v :
      exec f r (mk (v :: k) (set_nth l n v) gm pm ps) = X -> exec (S f) (LocalTee n :: r) (mk (v :: k) l gm pm ps) = X.
    Proof. intros <-. reflexivity. Qed.

    Lemma s_i32_const n :
      exec f r (mk (I32 (wrap32 n) :: k) l gm pm ps) = X -> exec (S f) (I32Const n :: r) (mk k l gm pm ps) = X.
    Proof. intros <-. reflexivity. Qed.

    Lemma s_i64_const n :
      exec f r (mk (I64 (n mod 2 ^ 64) :: k) l gm pm ps) = X -> exec (S f) (I64Const n :: r) (mk k l gm pm ps) = X.
    Proof. intros <-. reflexivity. Qed.

    Lemma s_i64_shr_u a b :
      exec f r (mk (I64 (N.shiftr a (b mod 64)) :: k) l gm pm ps) = X ->
      exec (S f) (I64ShrU :: r) (mk (I64 b :: I64 a :: k) l gm pm ps) = X.
    Proof. intros <-. reflexivity. Qed.

    Lemma s_i32_wrap_i64 a :
      exec f r (mk (I32 (wrap32 a) :: k) l gm pm ps) = X -> exec (S f) (I32WrapI64 :: r) (mk (I64 a :: k) l gm pm ps) = X.
    Proof. intros <-. reflexivity. Qed.

    Lemma s_i32_add a b :
      exec f r (mk (I32 (wrap32 (a + b)) :: k) l gm pm ps) = X ->
      exec (S f) (I32Add :: r) (mk (I32 b :: I32 a :: k) l gm pm ps) = X.
    Proof. intros <-. reflexivity. Qed.

    Lemma s_i32_ne a b :
      exec f r (mk (I32 (if a =? b then 0 else 1) :: k) l gm pm ps) = X ->
      exec (S f) (I32Ne :: r) (mk (I32 b :: I32 a :: k) l gm pm ps) = X.
    Proof. intros <-. reflexivity. Qed.
    Lemma s_i32_ne_eq a b : a = b ->
      exec f r (mk (I32 0 :: k) l gm pm ps) = X -> exec (S f) (I32Ne :: r) (mk (I32 b :: I32 a :: k) l gm pm ps) = X.
    Proof. intros -> <-. simpl. rewrite N.eqb_refl. reflexivity. Qed.
    Lemma s_i32_ne_neq a b : a <> b ->
      exec f r (mk (I32 1 :: k) l gm pm ps) = X -> exec (S f) (I32Ne :: r) (mk (I32 b :: I32 a :: k) l gm pm ps) = X.
    Proof. intros H <-. simpl. apply N.eqb_neq in H. rewrite H. reflexivity. Qed.

    Lemma s_i32_eq a b :
      exec f r (mk (I32 (if a =? b then 1 else 0) :: k) l gm pm ps) = X ->
      exec (S f) (I32Eq :: r) (mk (I32 b :: I32 a :: k) l gm pm ps) = X.
    Proof. intros <-. reflexivity. Qed.

    Lemma s_i32_eqz a :
      exec f r (mk (I32 (if a =? 0 then 1 else 0) :: k) l gm pm ps) = X ->
      exec (S f) (I32Eqz :: r) (mk (I32 a :: k) l gm pm ps) = X.
    Proof. intros <-. reflexivity. Qed.

    Lemma s_drop v :
      exec f r (mk k l gm pm ps) = X -> exec (S f) (Drop :: r) (mk (v :: k) l gm pm ps) = X.
    Proof. intros <-. reflexivity. Qed.

    Lemma s_if_else t e c k2 l2 gm2 pm2 ps2 : c = 0 ->
      exec f e (mk k l gm pm ps) = Some (mk k2 l2 gm2 pm2 ps2) ->
      exec f r (mk k2 l2 gm2 pm2 ps2) = X ->
      exec (S f) (If t e :: r) (mk (I32 c :: k) l gm pm ps) = X.
    Proof. intros -> H <-. simpl. unfold with_stack. simpl. rewrite H. reflexivity. Qed.

    Lemma s_if_then t e c k2 l2 gm2 pm2 ps2 : c <> 0 ->
      exec f t (mk k l gm pm ps) = Some (mk k2 l2 gm2 pm2 ps2) ->
      exec f r (mk k2 l2 gm2 pm2 ps2) = X ->
      exec (S f) (If t e :: r) (mk (I32 c :: k) l gm pm ps) = X.
    Proof.
      intros Hc H <-. apply N.eqb_neq in Hc. simpl. rewrite Hc. unfold with_stack. simpl. rewrite H. reflexivity.
    Qed.

    Lemma s_load_prov off a :
      a + off + 4 <= msize pm ->
      exec f r (mk (I32 (load32 pm (a + off)) :: k) l gm pm ps) = X ->
      exec (S f) (I32Load Prov off :: r) (mk (I32 a :: k) l gm pm ps) = X.
    Proof. intros H <-. apply N.leb_le in H. simpl. rewrite H. reflexivity. Qed.

    Lemma s_load_guest off a :
      a + off + 4 <= msize gm ->
      exec f r (mk (I32 (load32 gm (a + off)) :: k) l gm pm ps) = X ->
      exec (S f) (I32Load Guest off :: r) (mk (I32 a :: k) l gm pm ps) = X.
    Proof. intros H <-. apply N.leb_le in H. simpl. rewrite H. reflexivity. Qed.

    Lemma s_copy_to_prov n sa da :
      sa + n <= msize gm -> da + n <= msize pm ->
      exec f r (mk k l gm (mcopy pm gm da sa n) ps) = X ->
      exec (S f) (MemoryCopy Prov Guest :: r) (mk (I32 n :: I32 sa :: I32 da :: k) l gm pm ps) = X.
    Proof. intros H1 H2 <-. apply N.leb_le in H1, H2. simpl. rewrite H1, H2. reflexivity. Qed.

    Lemma s_copy_to_guest n sa da :
      sa + n <= msize pm -> da + n <= msize gm ->
      exec f r (mk k l (mcopy gm pm da sa n) pm ps) = X ->
      exec (S f) (MemoryCopy Guest Prov :: r) (mk (I32 n :: I32 sa :: I32 da :: k) l gm pm ps) = X.
    Proof. intros H1 H2 <-. apply N.leb_le in H1, H2. simpl. rewrite H1, H2. reflexivity. Qed.

    Lemma s_call_local i fd args k' k2 l2 gm2 pm2 ps2 :
      nth_error funcs i = Some (Local fd) ->
      take_args (List.length (fparams fd)) k [] = Some (args, k') ->
      exec f (fbody fd) (mk [] (args ++ map zero_of (flocals fd)) gm pm ps) = Some (mk k2 l2 gm2 pm2 ps2) ->
      exec f r (mk (firstn (List.length (fresults fd)) k2 ++ k') l gm2 pm2 ps2) = X ->
      exec (S f) (Call i :: r) (mk k l gm pm ps) = X.
    Proof. intros H1 H2 H3 <-. simpl. rewrite H1, H2, H3. reflexivity. Qed.

    Lemma s_call_import i m nm params results args k' res pm' ps' :
      nth_error funcs i = Some (Import m nm params results) ->
      take_args (List.length params) k [] = Some (args, k') ->
      oracle nm args pm ps = Some (res, pm', ps') ->
      exec f r (mk (rev res ++ k') l gm pm' ps') = X ->
      exec (S f) (Call i :: r) (mk k l gm pm ps) = X.
    Proof. intros H1 H2 H3 <-. simpl. rewrite H1, H2, H3. reflexivity. Qed.

    Lemma s_call_import_trap i m nm params results args k' :
      nth_error funcs i = Some (Import m nm params results) ->
      take_args (List.length params) k [] = Some (args, k') ->
      oracle nm args pm ps = None ->
      exec (S f) (Call i :: r) (mk k l gm pm ps) = None.
    Proof. intros H1 H2 H3. simpl. rewrite H1, H2, H3. reflexivity. Qed.
  End Steps.

  (** ** A wrapper whose body is [local.get 0 .. n-1; call k] with [k] an import *)
  Lemma take_args_app : forall (a : list val) k acc,
    take_args (List.length a) (a ++ k) acc = Some (rev a ++ acc, k)%list.
  Proof.
    induction a as [|v a IH]; intros k acc; [reflexivity|].
    cbn [List.length take_args List.app]. rewrite IH. cbn [rev]. rewrite <- app_assoc. reflexivity.
  Qed.

  Lemma take_args_rev args k :
    take_args (List.length args) (rev args ++ k) [] = Some (args, k).
  Proof.
    rewrite <- (rev_length args). rewrite take_args_app. rewrite rev_involutive, app_nil_r. reflexivity.
  Qed.

  Lemma exec_local_gets : forall post pre l f r k gm pm ps,
    l = (pre ++ post)%list ->
    exec (List.length post + f) (map LocalGet (seq (List.length pre) (List.length post)) ++ r) (mk k l gm pm ps)
    = exec f r (mk (rev post ++ k) l gm pm ps).
  Proof.
    induction post as [|v post IH]; intros pre l f r k gm pm ps Hl; [reflexivity|].
    cbn [List.length seq map List.app plus].
    eapply s_local_get.
    { subst l. rewrite nth_error_app2 by lia. rewrite Nat.sub_diag. reflexivity. }
    replace (S (List.length pre)) with (List.length (pre ++ [v])) by (rewrite app_length; cbn; lia).
    rewrite (IH (pre ++ [v])%list) by (subst l; rewrite <- app_assoc; reflexivity).
    cbn [rev]. rewrite <- app_assoc. reflexivity.
  Qed.

  Lemma passthrough_call w k fd m nm params results args gm pm ps :
    nth_error funcs w = Some (Local fd) ->
    fbody fd = (map LocalGet (seq 0 (List.length params)) ++ [Call k])%list ->
    fparams fd = params -> flocals fd = [] -> fresults fd = results ->
    nth_error funcs k = Some (Import m nm params results) ->
    List.length args = List.length params ->
    invoke (S (List.length params + 2)) w args gm pm ps =
    match oracle nm args pm ps with
    | Some (res, pm', ps') => Some (mk (firstn (List.length results) (rev res)) [] gm pm' ps')
    | None => None
    end.
  Proof.
    intros Hw Hb Hp Hl Hr Hk Ha. unfold WasmMini.invoke.
    cbn [WasmMini.exec stack]. rewrite Hw, Hp, <- Ha.
    rewrite <- (app_nil_r (rev args)), take_args_rev.
    cbn [g p pstate locals]. rewrite Hl, Hb. cbn [map]. rewrite <- Ha.
    rewrite (exec_local_gets args [] (args ++ [])%list 2) by (rewrite app_nil_r; reflexivity).
    cbn [WasmMini.exec stack]. rewrite Hk, <- Ha, take_args_rev.
    cbn [g p pstate locals].
    destruct (oracle nm args pm ps) as [[[res pm'] ps']|]; [|reflexivity].
    cbn [stack g p pstate]. rewrite Hr, !app_nil_r.
    replace (List.length args + 2)%nat with (S (S (List.length args))) by lia. reflexivity.
  Qed.
End Facts.

(** normalise the bookkeeping produced by a step (never touches [N] arithmetic) *)
Ltac wm_norm :=
  cbn [fbody fparams flocals fresults List.length List.app List.map zero_of firstn rev set_nth].

(** one instruction; [side] solves bounds side conditions *)
Ltac wm_step side :=
  (* never step a continuation whose state still depends on an unfinished callee *)
  lazymatch goal with
  | |- WasmMini.exec _ _ _ _ _ ?s = _ => tryif has_evar s then fail "pending callee" else idtac
  end;
  lazymatch goal with
  | |- WasmMini.exec _ _ _ _ [] _ = _ => reflexivity
  | |- WasmMini.exec _ _ _ _ (LocalGet _ :: _) _ = _ => eapply s_local_get; [reflexivity|]
  | |- WasmMini.exec _ _ _ _ (LocalSet _ :: _) _ = _ => eapply s_local_set; wm_norm
  | |- WasmMini.exec _ _ _ _ (LocalTee _ :: _) _ = _ => eapply s_local_tee; wm_norm
  | |- WasmMini.exec _ _ _ _ (I32Const _ :: _) _ = _ => eapply s_i32_const
  | |- WasmMini.exec _ _ _ _ (I64Const _ :: _) _ = _ => eapply s_i64_const
  | |- WasmMini.exec _ _ _ _ (I64ShrU :: _) _ = _ => eapply s_i64_shr_u
  | |- WasmMini.exec _ _ _ _ (I32WrapI64 :: _) _ = _ => eapply s_i32_wrap_i64
  | |- WasmMini.exec _ _ _ _ (I32Add :: _) _ = _ => eapply s_i32_add
  | |- WasmMini.exec _ _ _ _ (I32Ne :: _) _ = _ =>
      first [ eapply s_i32_ne_eq; [solve [side]|] | eapply s_i32_ne_neq; [solve [side]|] | eapply s_i32_ne ]
  | |- WasmMini.exec _ _ _ _ (I32Eq :: _) _ = _ => eapply s_i32_eq
  | |- WasmMini.exec _ _ _ _ (I32Eqz :: _) _ = _ => eapply s_i32_eqz
  | |- WasmMini.exec _ _ _ _ (Drop :: _) _ = _ => eapply s_drop
  | |- WasmMini.exec _ _ _ _ (I32Load Prov _ :: _) _ = _ => eapply s_load_prov; [solve [side]|]
  | |- WasmMini.exec _ _ _ _ (I32Load Guest _ :: _) _ = _ => eapply s_load_guest; [solve [side]|]
  | |- WasmMini.exec _ _ _ _ (MemoryCopy Prov Guest :: _) _ = _ =>
      eapply s_copy_to_prov; [solve [side] | solve [side] |]
  | |- WasmMini.exec _ _ _ _ (MemoryCopy Guest Prov :: _) _ = _ =>
      eapply s_copy_to_guest; [solve [side] | solve [side] |]
  | |- WasmMini.exec _ _ _ _ (If _ _ :: _) _ = _ =>
      first [ eapply s_if_else; [reflexivity | repeat (wm_step side) |]
            | eapply s_if_then; [solve [side | discriminate] | repeat (wm_step side) |] ]
  | |- WasmMini.exec _ _ _ _ (Call _ :: _) _ = _ =>
      first [ eapply s_call_import; [reflexivity | reflexivity | eassumption | wm_norm]
            | eapply s_call_local; [reflexivity | reflexivity | wm_norm; repeat (wm_step side) | wm_norm] ]
  end.
Ltac wm_steps side := repeat (wm_step side).
