(** Vocabulary of the rewrite model (C07): an abstract Wasm module as walrus represents it
    (arena ids, imports in arena order, functions imported / own / generated), the tables the
    model is parametric in (regenerated from trampoline/src/lib.rs into Gen/TrampGen.v by T7). *)
From Coq Require Import NArith List String Bool.
From SFV Require Import Abi.AbiTypes.
Import ListNotations.

(** helpers an emit_* function requests (OnceCell-memoised in TrampolineCodegen) *)
Inductive helper := HToGuest | HToProvider | HAlloc | HProvMem.

(** one string-carrying import = one emit_* function *)
Record sspec := {
  s_orig : string;          (* the IMPORTS entry whose match arm calls the function *)
  s_looked : string;        (* the name it passes to imports.get_func *)
  s_params : list vtype;    (* the signature it validates *)
  s_results : list vtype;
  s_new : string;           (* the low-level import it adds ... *)
  s_new_sig : sig;          (* ... with this type *)
  s_helpers : list helper   (* helpers requested, in source order *)
}.

Record cfg := {
  c_provider : string;
  c_prefix : string;
  c_imports : list (string * string);
  c_extra : list string;
  c_accept_new : bool;
  c_skip_empty_new : bool;
  c_specs : list sspec;
  c_alloc : string * sig;
  c_pmem : string;
  c_loops : bool            (* apply() repeats an IMPORTS entry while a function import of that name is left *)
}.

(** ---- abstract module *)
Inductive ikind := KFunc (fid : N) | KMem (mid : N) | KOther (tag : N).
Record import := { i_mod : string; i_name : string; i_kind : ikind }.

Inductive gen_fn := GGlue (orig : string) | GToGuest | GToProvider | GAlloc.
Inductive fkind := FImported | FOwn | FGen (g : gen_fn).
Record func := { f_id : N; f_sig : sig; f_kind : fkind }.
Record memory := { m_id : N; m_imported : bool }.

Record module := {
  imports : list import;     (* arena order = order of the emitted import section *)
  funcs : list func;
  mems : list memory;
  next_func : N;
  next_mem : N;
  rest : N                   (* everything the tool never looks at: bodies of own functions, globals, tables,
                                elements, data, exports, start -- opaque *)
}.

Inductive error :=
| EMultiMem | EUnexpected (name : string) | EUnsupported (module_name : string)
| EParams (name : string) | EResults (name : string) | ENotFunc | EInternal | EFuel.

Inductive res (A : Type) := Ok (a : A) | Err (e : error).
Arguments Ok {A} a.
Arguments Err {A} e.
