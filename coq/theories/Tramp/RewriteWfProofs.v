(** C07 proofs, part 2: reflection of [wf_module_b]; the walrus primitives of the model
    (add_import_func / add_import_memory / add_local_func / replace_imported_func / renaming)
    keep a module well-formed and leave alone what the tool must leave alone. *)
From Coq Require Import NArith List String Bool Arith Lia.
From SFV Require Import Abi.AbiTypes Tramp.RewriteTypes Tramp.Rewrite Tramp.RewriteWf Tramp.RewriteLists.
Import ListNotations.
Open Scope string_scope.
Open Scope list_scope.

(** ---- reflection *)
Lemma forallb_Forall {A} (p : A -> bool) (Q : A -> Prop) l :
  (forall x, p x = true <-> Q x) -> (forallb p l = true <-> Forall Q l).
Proof.
  intros H. rewrite forallb_forall, Forall_forall. split; intros H' x Hx; apply H, H', Hx.
Qed.

Lemma is_imported_kind_true k : is_imported_kind k = true <-> k = Some FImported.
Proof. destruct k as [[]|]; cbn; split; congruence. Qed.

Lemma wf_module_iff m : wf_module m <-> wfP m.
Proof.
  unfold wf_module, wf_module_b. rewrite !andb_true_iff.
  rewrite !nodupN_NoDup.
  rewrite (forallb_Forall _ (fun f => (f_id f < next_func m)%N)) by (intros; apply N.ltb_lt).
  rewrite (forallb_Forall _ (fun x => (m_id x < next_mem m)%N)) by (intros; apply N.ltb_lt).
  rewrite (forallb_Forall _ (fun fid => kind_of m fid = Some FImported)) by (intros; apply is_imported_kind_true).
  rewrite (forallb_Forall _ (fun f => f_kind f = FImported -> In (f_id f) (ifids (imports m)))).
  2:{ intros f. destruct (f_kind f); try (split; [discriminate | reflexivity]).
      rewrite memN_In. tauto. }
  rewrite (forallb_Forall _ (fun mid => exists x, In x (mems m) /\ m_id x = mid /\ m_imported x = true)).
  2:{ intros mid. rewrite existsb_exists. split; intros [x [Hx H]]; exists x; (split; [exact Hx|]).
      - apply andb_prop in H. destruct H as [H1 H2]. apply N.eqb_eq in H1. tauto.
      - destruct H as [H1 H2]. rewrite H2, andb_true_r. apply N.eqb_eq. exact H1. }
  split.
  - intros [[[[[[[H1 H2] H3] H4] H5] H6] H7] H8]. constructor; assumption.
  - intros [H1 H2 H3 H4 H5 H6 H7 H8]. tauto.
Qed.

(** ---- functions by id *)
Notation byid fid := (fun f : func => N.eqb (f_id f) fid).

Lemma find_fresh l n : Forall (fun f => (f_id f < n)%N) l -> find (byid n) l = None.
Proof.
  intros H. apply find_none_existsb. apply existsb_false_forall. intros f Hf.
  rewrite Forall_forall in H. specialize (H f Hf). apply N.eqb_neq. lia.
Qed.

Lemma f_id_set_kind fid k f : f_id (set_kind fid k f) = f_id f.
Proof. unfold set_kind. destruct (N.eqb (f_id f) fid); reflexivity. Qed.
Lemma f_sig_set_kind fid k f : f_sig (set_kind fid k f) = f_sig f.
Proof. unfold set_kind. destruct (N.eqb (f_id f) fid); reflexivity. Qed.

Lemma find_set_kind fid k g l :
  find (byid g) (map (set_kind fid k) l) = option_map (set_kind fid k) (find (byid g) l).
Proof.
  induction l as [|f r IH]; [reflexivity|]. cbn [map find]. rewrite f_id_set_kind.
  destruct (N.eqb (f_id f) g); [reflexivity | exact IH].
Qed.

Lemma find_unique l f0 fid :
  NoDup (map f_id l) -> find (byid fid) l = Some f0 -> forall f, In f l -> f_id f = fid -> f = f0.
Proof.
  induction l as [|x r IH]; cbn [map find]; intros Hn Hf f Hi He; [destruct Hi|].
  apply NoDup_cons_iff in Hn. destruct Hn as [Hn1 Hn2].
  destruct (N.eqb (f_id x) fid) eqn:E.
  - injection Hf as Hf. subst x. apply N.eqb_eq in E. destruct Hi as [Hi|Hi]; [symmetry; exact Hi|].
    exfalso. apply Hn1. apply in_map_iff. exists f. split; [congruence | exact Hi].
  - destruct Hi as [Hi|Hi]; [subst x; apply N.eqb_neq in E; contradiction|]. eapply IH; eauto.
Qed.

Lemma find_self l f : NoDup (map f_id l) -> In f l -> find (byid (f_id f)) l = Some f.
Proof.
  induction l as [|x r IH]; cbn [map find]; intros Hn Hi; [destruct Hi|].
  apply NoDup_cons_iff in Hn. destruct Hn as [Hn1 Hn2].
  destruct Hi as [Hi|Hi].
  - subst x. rewrite N.eqb_refl. reflexivity.
  - destruct (N.eqb (f_id x) (f_id f)) eqn:E; [|apply IH; assumption].
    apply N.eqb_eq in E. exfalso. apply Hn1. rewrite E. apply in_map. exact Hi.
Qed.

Lemma kind_of_sig_of m fid k : kind_of m fid = Some k -> exists s, sig_of m fid = Some s.
Proof. unfold kind_of, sig_of. destruct (find (byid fid) (funcs m)); [eauto | discriminate]. Qed.

(** the id of a function import is the id of a function, below the next fresh id *)
Lemma wf_ifid_lt m fid : wfP m -> In fid (ifids (imports m)) -> (fid < next_func m)%N.
Proof.
  intros W H. pose proof (wf_imp_kind m W) as K. rewrite Forall_forall in K. specialize (K fid H).
  unfold kind_of in K. destruct (find (byid fid) (funcs m)) eqn:E; [|discriminate].
  apply find_some in E. destruct E as [Hi He]. apply N.eqb_eq in He. subst fid.
  pose proof (wf_fid_lt m W) as L. rewrite Forall_forall in L. apply L. exact Hi.
Qed.

(** ---- pres *)
Lemma pres_refl m : pres m m.
Proof. constructor; auto. Qed.

Lemma pres_trans a b c : pres a b -> pres b c -> pres a c.
Proof.
  intros [A1 A2 A3 A4] [B1 B2 B3 B4]. constructor; try congruence. intros fid s H. apply B4, A4, H.
Qed.

(** ---- growing a module (appending imports, functions, memories) *)
Section G.
Variable C : cfg.
Notation P := (c_provider C).

Record grows (m m' : module) : Prop := {
  gr_imp : exists ai, imports m' = imports m ++ ai /\ Forall (addable C) ai;
  gr_fun : exists fs, funcs m' = funcs m ++ fs /\ Forall (fun f => is_own f = false) fs;
  gr_mem : exists ms, mems m' = mems m ++ ms /\ Forall (fun x => m_imported x = true) ms;
  gr_rest : rest m' = rest m;
  gr_wf : wfP m -> wfP m'
}.

Lemma grows_refl m : grows m m.
Proof.
  constructor; auto; [exists [] | exists [] | exists []]; rewrite app_nil_r; split; auto.
Qed.

Lemma grows_trans a b c : grows a b -> grows b c -> grows a c.
Proof.
  intros [[ai [A1 A1']] [fs [A2 A2']] [ms [A3 A3']] A4 A5] [[ai' [B1 B1']] [fs' [B2 B2']] [ms' [B3 B3']] B4 B5].
  constructor.
  - exists (ai ++ ai'). rewrite B1, A1, app_assoc. split; [reflexivity | apply Forall_app; auto].
  - exists (fs ++ fs'). rewrite B2, A2, app_assoc. split; [reflexivity | apply Forall_app; auto].
  - exists (ms ++ ms'). rewrite B3, A3, app_assoc. split; [reflexivity | apply Forall_app; auto].
  - congruence.
  - auto.
Qed.

Lemma filter_all_false {A} (p : A -> bool) l : Forall (fun x => p x = false) l -> filter p l = [].
Proof.
  induction l as [|x r IH]; intros H; [reflexivity|]. inversion H; subst. cbn [filter].
  rewrite H2. apply IH. exact H3.
Qed.

Lemma grows_pres m m' : grows m m' -> pres m m'.
Proof.
  intros [_ [fs [F1 F2]] [ms [M1 M2]] R _]. constructor.
  - exact R.
  - unfold own_mems. rewrite M1, filter_app. rewrite (filter_all_false _ ms), app_nil_r; [reflexivity|].
    eapply Forall_impl; [|exact M2]. intros x Hx. cbn. rewrite Hx. reflexivity.
  - rewrite F1, filter_app, (filter_all_false _ fs F2), app_nil_r. reflexivity.
  - intros fid s. unfold sig_of. rewrite F1, find_app.
    destruct (find (byid fid) (funcs m)); [auto | discriminate].
Qed.

Lemma grows_kind m m' fid k : grows m m' -> kind_of m fid = Some k -> kind_of m' fid = Some k.
Proof.
  intros [_ [fs [F1 _]] _ _ _]. unfold kind_of. rewrite F1, find_app.
  destruct (find (byid fid) (funcs m)); [auto | discriminate].
Qed.

Lemma add_import_func_grows m n s m1 f1 :
  In n (add_names C) -> add_import_func m P n s = (m1, f1) -> grows m m1.
Proof.
  intros Hn H. unfold add_import_func in H. injection H as <- <-. constructor; cbn [imports funcs mems rest].
  - eexists. split; [reflexivity|]. constructor; [|constructor]. split; [reflexivity | exact Hn].
  - eexists. split; [reflexivity|]. constructor; [reflexivity | constructor].
  - exists []. rewrite app_nil_r. split; [reflexivity | constructor].
  - reflexivity.
  - intros W. destruct W as [W1 W2 W3 W4 W5 W6 W7 W8].
    assert (Hfresh : ~ In (next_func m) (ifids (imports m))).
    { intros Hi. rewrite Forall_forall in W5. specialize (W5 _ Hi). unfold kind_of in W5.
      rewrite (find_fresh _ _ W2) in W5. discriminate. }
    constructor; cbn [imports funcs mems next_func next_mem].
    + rewrite map_app. cbn [map f_id]. apply NoDup_snoc; [exact W1|].
      intros Hi. apply in_map_iff in Hi. destruct Hi as [f [He Hf]].
      rewrite Forall_forall in W2. specialize (W2 f Hf). lia.
    + apply Forall_app. split.
      * eapply Forall_impl; [|exact W2]. cbn beta. intros f Hf. lia.
      * constructor; [cbn [f_id]; lia | constructor].
    + exact W3.
    + exact W4.
    + rewrite ifids_app. apply Forall_app. split.
      * eapply Forall_impl; [|exact W5]. cbn beta. intros fid. unfold kind_of. cbn [funcs]. rewrite find_app.
        destruct (find (byid fid) (funcs m)); [auto | discriminate].
      * cbn. constructor; [|constructor]. unfold kind_of. cbn [funcs]. rewrite find_app, (find_fresh _ _ W2).
        cbn [find f_id]. rewrite N.eqb_refl. reflexivity.
    + rewrite ifids_app. cbn. apply NoDup_snoc; assumption.
    + apply Forall_app. split.
      * eapply Forall_impl; [|exact W7]. cbn beta. intros f Hf Hk. rewrite ifids_app. apply in_app_iff. left. auto.
      * constructor; [|constructor]. intros _. rewrite ifids_app. apply in_app_iff. right. cbn. left. reflexivity.
    + rewrite imids_app. cbn. rewrite app_nil_r. exact W8.
Qed.

Lemma add_import_memory_grows m n m1 x1 :
  In n (add_names C) -> add_import_memory m P n = (m1, x1) -> grows m m1.
Proof.
  intros Hn H. unfold add_import_memory in H. injection H as <- <-. constructor; cbn [imports funcs mems rest].
  - eexists. split; [reflexivity|]. constructor; [|constructor]. split; [reflexivity | exact Hn].
  - exists []. rewrite app_nil_r. split; [reflexivity | constructor].
  - eexists. split; [reflexivity|]. constructor; [reflexivity | constructor].
  - reflexivity.
  - intros W. destruct W as [W1 W2 W3 W4 W5 W6 W7 W8].
    constructor; cbn [imports funcs mems next_func next_mem].
    + exact W1.
    + exact W2.
    + rewrite map_app. cbn [map m_id]. apply NoDup_snoc; [exact W3|].
      intros Hi. apply in_map_iff in Hi. destruct Hi as [f [He Hf]].
      rewrite Forall_forall in W4. specialize (W4 f Hf). lia.
    + apply Forall_app. split.
      * eapply Forall_impl; [|exact W4]. cbn beta. intros f Hf. lia.
      * constructor; [cbn [m_id]; lia | constructor].
    + rewrite ifids_app. cbn. rewrite app_nil_r. exact W5.
    + rewrite ifids_app. cbn. rewrite app_nil_r. exact W6.
    + eapply Forall_impl; [|exact W7]. cbn beta. intros f Hf Hk. rewrite ifids_app. apply in_app_iff. left. auto.
    + rewrite imids_app. apply Forall_app. split.
      * eapply Forall_impl; [|exact W8]. cbn beta. intros mid [x [Hx Hx']]. exists x. split; [|exact Hx'].
        apply in_app_iff. left. exact Hx.
      * cbn. constructor; [|constructor]. eexists. split; [apply in_app_iff; right; left; reflexivity|].
        split; reflexivity.
Qed.

Lemma add_local_func_grows m s g m1 f1 : add_local_func m s g = (m1, f1) -> grows m m1.
Proof.
  intros H. unfold add_local_func in H. injection H as <- <-. constructor; cbn [imports funcs mems rest].
  - exists []. rewrite app_nil_r. split; [reflexivity | constructor].
  - eexists. split; [reflexivity|]. constructor; [reflexivity | constructor].
  - exists []. rewrite app_nil_r. split; [reflexivity | constructor].
  - reflexivity.
  - intros W. destruct W as [W1 W2 W3 W4 W5 W6 W7 W8].
    constructor; cbn [imports funcs mems next_func next_mem].
    + rewrite map_app. cbn [map f_id]. apply NoDup_snoc; [exact W1|].
      intros Hi. apply in_map_iff in Hi. destruct Hi as [f [He Hf]].
      rewrite Forall_forall in W2. specialize (W2 f Hf). lia.
    + apply Forall_app. split.
      * eapply Forall_impl; [|exact W2]. cbn beta. intros f Hf. lia.
      * constructor; [cbn [f_id]; lia | constructor].
    + exact W3.
    + exact W4.
    + eapply Forall_impl; [|exact W5]. cbn beta. intros fid. unfold kind_of. cbn [funcs]. rewrite find_app.
      destruct (find (byid fid) (funcs m)); [auto | discriminate].
    + exact W6.
    + apply Forall_app. split; [exact W7|]. constructor; [|constructor]. cbn [f_kind]. discriminate.
    + exact W8.
Qed.

(** ---- the OnceCell helpers *)
Lemma In_pmem : In (c_pmem C) (add_names C).
Proof. unfold add_names. apply in_app_iff. right. right. left. reflexivity. Qed.
Lemma In_alloc : In (fst (c_alloc C)) (add_names C).
Proof. unfold add_names. apply in_app_iff. right. left. reflexivity. Qed.
Lemma In_s_new sp : In sp (c_specs C) -> In (s_new sp) (add_names C).
Proof. intros H. unfold add_names. apply in_app_iff. left. apply in_map. exact H. Qed.

Lemma provider_memory_grows mc : grows (fst mc) (fst (provider_memory C mc)).
Proof.
  destruct mc as [m cl]. unfold provider_memory. destruct (cl_pmem cl); [apply grows_refl|].
  destruct (add_import_memory m P (c_pmem C)) as [m' mid] eqn:E. cbn [fst].
  eapply add_import_memory_grows; [apply In_pmem | exact E].
Qed.

Lemma memcpy_to_guest_grows mc : grows (fst mc) (fst (memcpy_to_guest C mc)).
Proof.
  unfold memcpy_to_guest. pose proof (provider_memory_grows mc) as G.
  destruct (provider_memory C mc) as [m cl]. cbn [fst] in G. destruct (cl_to_guest cl); [exact G|].
  destruct (add_local_func m copy_sig GToGuest) as [m' fid] eqn:E. cbn [fst].
  eapply grows_trans; [exact G|]. eapply add_local_func_grows. exact E.
Qed.

Lemma memcpy_to_provider_grows mc : grows (fst mc) (fst (memcpy_to_provider C mc)).
Proof.
  unfold memcpy_to_provider. pose proof (provider_memory_grows mc) as G.
  destruct (provider_memory C mc) as [m cl]. cbn [fst] in G. destruct (cl_to_provider cl); [exact G|].
  destruct (add_local_func m copy_sig GToProvider) as [m' fid] eqn:E. cbn [fst].
  eapply grows_trans; [exact G|]. eapply add_local_func_grows. exact E.
Qed.

Lemma alloc_import_grows mc : grows (fst mc) (fst (alloc_import C mc)).
Proof.
  destruct mc as [m cl]. unfold alloc_import. destruct (cl_alloc_imp cl); [apply grows_refl|].
  destruct (add_import_func m P (fst (c_alloc C)) (snd (c_alloc C))) as [m' fid] eqn:E. cbn [fst].
  eapply add_import_func_grows; [apply In_alloc | exact E].
Qed.

Lemma emit_alloc_grows mc : grows (fst mc) (fst (emit_alloc C mc)).
Proof.
  unfold emit_alloc. pose proof (alloc_import_grows mc) as G.
  destruct (alloc_import C mc) as [m cl]. cbn [fst] in G. destruct (cl_alloc cl); [exact G|].
  destruct (add_local_func m (snd (c_alloc C)) GAlloc) as [m' fid] eqn:E. cbn [fst].
  eapply grows_trans; [exact G|]. eapply add_local_func_grows. exact E.
Qed.

Lemma do_helper_grows mc h : grows (fst mc) (fst (do_helper C mc h)).
Proof.
  destruct h; cbn [do_helper];
    [apply memcpy_to_guest_grows | apply memcpy_to_provider_grows | apply emit_alloc_grows | apply provider_memory_grows].
Qed.

Lemma helpers_grow hs : forall mc, grows (fst mc) (fst (fold_left (do_helper C) hs mc)).
Proof.
  induction hs as [|h r IH]; intros mc; cbn [fold_left]; [apply grows_refl|].
  eapply grows_trans; [apply do_helper_grows | apply IH].
Qed.

End G.

(** ---- replace_imported_func *)
Lemma replace_ok m fid g :
  wfP m -> In fid (ifids (imports m)) ->
  exists m3, replace_imported_func m fid g = Ok m3 /\
             imports m3 = remove_first (imports_func fid) (imports m) /\ wfP m3 /\ pres m m3.
Proof.
  intros W Hi. pose proof W as [W1 W2 W3 W4 W5 W6 W7 W8].
  unfold replace_imported_func.
  rewrite (proj1 (In_ifids_existsb _ _) Hi). cbn [negb].
  pose proof W5 as K. rewrite Forall_forall in K. pose proof (K fid Hi) as Kf. rewrite Kf.
  eexists. split; [reflexivity|]. cbn [imports]. split; [reflexivity|].
  destruct (ifids_remove_first (imports m) fid W6) as [R1 [R2 R3]].
  unfold kind_of in Kf. destruct (find (byid fid) (funcs m)) as [f0|] eqn:Ef; [|discriminate].
  injection Kf as Kf.
  split.
  - constructor; cbn [imports funcs mems next_func next_mem].
    + rewrite map_map. erewrite map_ext; [exact W1|]. intros f. apply f_id_set_kind.
    + apply Forall_forall. intros f Hf. apply in_map_iff in Hf. destruct Hf as [f' [<- Hf']].
      rewrite f_id_set_kind. rewrite Forall_forall in W2. apply W2. exact Hf'.
    + exact W3.
    + exact W4.
    + apply Forall_forall. intros h Hh. apply R2 in Hh. destruct Hh as [Hh Hne].
      specialize (K h Hh). unfold kind_of in *. cbn [funcs]. rewrite find_set_kind.
      destruct (find (byid h) (funcs m)) as [f|] eqn:E; [|discriminate]. cbn [option_map].
      apply find_some in E. destruct E as [_ E]. apply N.eqb_eq in E. unfold set_kind.
      destruct (N.eqb (f_id f) fid) eqn:E'; [apply N.eqb_eq in E'; congruence | exact K].
    + exact R1.
    + apply Forall_forall. intros f Hf. apply in_map_iff in Hf. destruct Hf as [f' [<- Hf']].
      rewrite f_id_set_kind. unfold set_kind. destruct (N.eqb (f_id f') fid) eqn:E'; cbn [f_kind]; [discriminate|].
      intros Hk. apply R2. apply N.eqb_neq in E'. split; [|exact E'].
      rewrite Forall_forall in W7. apply W7; assumption.
    + rewrite R3. exact W8.
  - constructor; cbn [rest mems funcs].
    + reflexivity.
    + reflexivity.
    + assert (forall l, (forall f, In f l -> In f (funcs m)) ->
                        filter is_own (map (set_kind fid (FGen g)) l) = filter is_own l) as Hl.
      { induction l as [|f r IH]; intros Hsub; [reflexivity|]. cbn [map filter].
        rewrite IH by (intros x Hx; apply Hsub; right; exact Hx).
        unfold set_kind at 1 2. destruct (N.eqb (f_id f) fid) eqn:E'; [|reflexivity].
        apply N.eqb_eq in E'. pose proof (find_unique _ _ _ W1 Ef f (Hsub f (or_introl eq_refl)) E') as Hf0.
        assert (is_own f = false) as -> by (unfold is_own; rewrite Hf0, Kf; reflexivity).
        unfold is_own. cbn [f_kind]. reflexivity. }
      apply Hl. auto.
    + intros h s. unfold sig_of. cbn [funcs]. rewrite find_set_kind.
      destruct (find (byid h) (funcs m)); cbn [option_map]; [|discriminate].
      rewrite f_sig_set_kind. auto.
Qed.

(** ---- renaming imports *)
Lemma with_imports_ok m l :
  wfP m -> map i_kind l = map i_kind (imports m) -> wfP (with_imports m l) /\ pres m (with_imports m l).
Proof.
  intros [W1 W2 W3 W4 W5 W6 W7 W8] H. destruct (same_kinds_ifids _ _ H) as [E1 E2]. split.
  - constructor; unfold with_imports; cbn [imports funcs mems next_func next_mem]; try rewrite E1; try rewrite E2; assumption.
  - constructor; unfold with_imports; cbn [rest]; try reflexivity. auto.
Qed.

Lemma with_imports_same m : with_imports m (imports m) = m.
Proof. destruct m; reflexivity. Qed.
