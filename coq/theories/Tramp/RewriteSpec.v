(** C07, declarative side: which modules the property says must be refused, stated on the PUBLIC
    description of the ABI (the WAT table, the provider's low-level exports), not on the tool's tables. *)
From Coq Require Import NArith List String Bool.
From SFV Require Import Abi.AbiTypes Tramp.RewriteTypes Tramp.Rewrite.
Import ListNotations.
Open Scope string_scope.

(** the imports that carry a string (property C04/C07: property name in, string value out, output
    string in, interned string in, log message in) *)
Definition string_carrying : list string :=
  ["shopify_function_input_read_utf8_str"; "shopify_function_input_get_obj_prop"; "shopify_function_output_new_utf8_str";
   "shopify_function_intern_utf8_str"; "shopify_function_log_new_utf8_str"].

Inductive verdict := VUnchanged | VAccept | VReject | VEither.

Section Spec.
Variable provider : string.          (* the API namespace *)
Variable prefix : string.            (* what every version of it starts with *)
Variable public : table.             (* the public API: name -> signature *)
Variable lowlevel : list string.     (* what the provider itself exports for trampolined guests (functions and "memory") *)

Definition api_ns (i : import) : bool := String.eqb (i_mod i) provider.
Definition unknown_name (i : import) : bool :=
  api_ns i && negb (mem (i_name i) (names public) || mem (i_name i) lowlevel).
Definition other_version (i : import) : bool := String.prefix prefix (i_mod i) && negb (api_ns i).
Definition bad_string_sig (m : module) (i : import) : bool :=
  api_ns i && mem (i_name i) string_carrying &&
  match i_kind i with
  | KFunc fid => match sig_of m fid, lookup (i_name i) public with
                 | Some s, Some s' => negb (sig_eqb s s')
                 | _, _ => true
                 end
  | _ => false
  end.
(** an API function name imported as something that is not a function: the property does not say *)
Definition kind_mismatch (i : import) : bool := api_ns i && mem (i_name i) (names public) && negb (is_func i).

Definition spec_verdict (m : module) : verdict :=
  match own_mems m with
  | [] => VUnchanged
  | _ :: _ :: _ => VReject
  | [_] =>
      if existsb unknown_name (imports m) || existsb other_version (imports m) || existsb (bad_string_sig m) (imports m) then VReject
      else if existsb kind_mismatch (imports m) then VEither
      else VAccept
  end.

(** what an accepted module must look like afterwards, import by import: foreign imports untouched,
    scalar API imports renamed to the underscore name with the same type, string-carrying ones gone *)
Definition expected_import (i : import) : option import :=
  if api_ns i && is_func i && mem (i_name i) (names public) then
    if mem (i_name i) string_carrying then None
    else Some {| i_mod := i_mod i; i_name := "_" ++ i_name i; i_kind := i_kind i |}
  else Some i.
Definition expected_prefix (m : module) : list import :=
  flat_map (fun i => match expected_import i with Some j => [j] | None => [] end) (imports m).

End Spec.
