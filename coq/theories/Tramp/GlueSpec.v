(** C04 -- specification vocabulary for the trampoline's generated glue.

    DEFINITIONS ONLY (no proofs).  The object of study is [GlueGen.funcs], the function list of a
    guest that imports the whole API, after the REAL trampoline ([/repo/trampoline/src/lib.rs]) has
    rewritten it, decoded into the [WasmMini] syntax.  Nothing below mentions a function index
    literally: indices are looked up by name in [GlueGen.wrappers].

    The provider is an ORACLE ([oracle_t]): the theorems are parametric in it and assume only what it
    answers to the call(s) the glue makes ("the low-level conventions"), packaged here as records of
    hypotheses, one per string-carrying import. *)
From Coq Require Import NArith List Bool String.
From SFV Require Import Tramp.WasmMini Gen.GlueGen.
Import ListNotations.
Open Scope string_scope.
Open Scope N_scope.

(** * Looking things up by name *)
Fixpoint lookup {A} (n : string) (l : list (string * A)) : option A :=
  match l with
  | [] => None
  | (k, v) :: t => if String.eqb k n then Some v else lookup n t
  end.

(** index of the exported wrapper [w_<name>] of API import [name] (its body is
    [local.get 0..n-1; call k], [k] = what the guest's import [name] became). *)
Definition widx (name : string) : nat :=
  match lookup name wrappers with Some i => i | None => O end.

(** the five string-carrying imports (constants [INPUT_READ_UTF8_STR] ... [LOG_STR] of lib.rs) *)
Definition n_read_str : string := "shopify_function_input_read_utf8_str".
Definition n_get_obj_prop : string := "shopify_function_input_get_obj_prop".
Definition n_out_str : string := "shopify_function_output_new_utf8_str".
Definition n_intern_str : string := "shopify_function_intern_utf8_str".
Definition n_log_str : string := "shopify_function_log_new_utf8_str".
Definition string_names : list string := [n_read_str; n_get_obj_prop; n_out_str; n_intern_str; n_log_str].
Definition is_string_name (n : string) : bool := existsb (String.eqb n) string_names.
(** every other API import: merely renamed *)
Definition scalar_names : list string := filter (fun n => negb (is_string_name n)) (map fst api_sigs).

(** * The provider as an oracle *)
Definition oracle_t (P : Type) : Type := string -> list val -> mem -> P -> option (list val * mem * P).

(** An oracle that additionally records every call made to it (name, arguments, the provider memory it
    saw), used to state "exactly these provider calls, in this order". *)
Definition call_rec : Type := (string * list val * mem)%type.
Definition traced {P} (o : oracle_t P) : oracle_t (list call_rec * P) :=
  fun name args m st =>
    match o name args m (snd st) with
    | Some (r, m', ps') => Some (r, m', (List.app (fst st) [(name, args, m)], ps'))
    | None => None
    end.

(** fuel that suffices for every wrapper call (the interpreter consumes one unit per instruction of a
    sequence and per nesting level; the longest run, the two-segment log glue, needs 43) *)
Definition glue_fuel : nat := 48%nat.

(** the outcome of a completed top-level call *)
Definition finished {P} (results : list val) (gm pm : mem) (ps : P) : option (st P) :=
  Some {| stack := results; locals := []; g := gm; p := pm; pstate := ps |}.

(** * Observing memories *)
Definition in_range (a n x : N) : Prop := a <= x /\ x < a + n.
(** the [n] bytes of [m] starting at [a] *)
Definition bytes_at (m : mem) (a n : N) : list N :=
  map (fun i => mget m (a + N.of_nat i)) (seq 0 (N.to_nat n)).
(** [m'] is [m] except possibly inside [a, a+n) *)
Definition agree_outside (m m' : mem) (a n : N) : Prop :=
  msize m' = msize m /\ forall x, ~ in_range a n x -> mget m' x = mget m x.
(** same size, same bytes *)
Definition mem_eq (m m' : mem) : Prop := msize m' = msize m /\ forall x, mget m' x = mget m x.
(** [d'] is [d] with [da, da+n) := [s] at [sa, sa+n), and nothing else changed *)
Definition copied (d' d s : mem) (da sa n : N) : Prop :=
  bytes_at d' da n = bytes_at s sa n /\ agree_outside d d' da n.

(** * The low-level provider conventions, one record per string-carrying import.
    [i32 x] = "[x] is an i32 value". *)
Definition i32 (x : N) : Prop := x < 2 ^ 32.

Section Conventions.
  Context {P : Type} (oracle : oracle_t P).

  (** (a) [read_utf8_str(src, out, len)]: the provider maps the string handle/address [src] to the
      address [addr] of the bytes in ITS memory, without changing that memory. *)
  Record read_str_conv (gm pm : mem) (ps : P) (src out len addr : N) (ps' : P) : Prop := {
    rs_call : oracle "_shopify_function_input_get_utf8_str_addr" [I32 src] pm ps = Some ([I32 addr], pm, ps');
    rs_src_in : addr + len <= msize pm;
    rs_dst_in : out + len <= msize gm }.

  (** (b) [get_obj_prop(scope, ptr, len)]: [_shopify_function_alloc len] returns a block [blk] (memory
      untouched), then [_shopify_function_input_get_obj_prop scope blk len] is asked ON THE PROVIDER
      MEMORY INTO WHICH THE NAME HAS BEEN COPIED and answers [v], leaving memory [pm2]. *)
  Record obj_prop_conv (gm pm : mem) (ps : P) (scope ptr len blk : N) (ps1 : P) (v : N) (pm2 : mem) (ps2 : P) : Prop := {
    op_alloc : oracle "_shopify_function_alloc" [I32 len] pm ps = Some ([I32 blk], pm, ps1);
    op_blk_in : blk + len <= msize pm;
    op_src_in : ptr + len <= msize gm;
    op_call : oracle "_shopify_function_input_get_obj_prop" [I64 scope; I32 blk; I32 len]
                     (mcopy pm gm blk ptr len) ps1 = Some ([I64 v], pm2, ps2) }.

  (** (c),(d) [output_new_utf8_str(ptr, len)] / [intern_utf8_str(ptr, len)]: the provider import
      [pname] answers the packed i64 [hi * 2^32 + lo] (hi = status / id, lo = destination address)
      and leaves memory [pm']. *)
  Record packed_str_conv (pname : string) (gm pm : mem) (ps : P) (ptr len hi lo : N) (pm' : mem) (ps' : P) : Prop := {
    pk_call : oracle pname [I32 len] pm ps = Some ([I64 (hi * 2 ^ 32 + lo)], pm', ps');
    pk_hi : i32 hi;
    pk_lo : i32 lo;
    pk_src_in : ptr + len <= msize gm;
    pk_dst_in : lo + len <= msize pm' }.

  (** (e) [log_new_utf8_str(ptr, len)]: the provider answers the address [area] of a five-word plan
      (src_off, dst1, len1, dst2, len2) in its memory [pm']. *)
  Record log_conv (gm pm : mem) (ps : P) (ptr len area : N) (pm' : mem) (ps' : P)
                  (src_off dst1 len1 dst2 len2 : N) : Prop := {
    lg_call : oracle "_shopify_function_log_new_utf8_str" [I32 len] pm ps = Some ([I32 area], pm', ps');
    lg_area_in : area + 20 <= msize pm';
    lg_w0 : load32 pm' area = src_off;
    lg_w1 : load32 pm' (area + 4) = dst1;
    lg_w2 : load32 pm' (area + 8) = len1;
    lg_w3 : load32 pm' (area + 12) = dst2;
    lg_w4 : load32 pm' (area + 16) = len2;
    (* no 32-bit wrap-around of the guest source addresses *)
    lg_nowrap1 : i32 (ptr + src_off);
    (* first segment in bounds *)
    lg_src1_in : ptr + src_off + len1 <= msize gm;
    lg_dst1_in : dst1 + len1 <= msize pm';
    (* second segment (only used when len1 <> len) *)
    lg_nowrap2 : len1 <> len -> i32 (ptr + src_off + len1);
    lg_src2_in : len1 <> len -> ptr + src_off + len1 + len2 <= msize gm;
    lg_dst2_in : len1 <> len -> dst2 + len2 <= msize pm' }.

  (** the second pair of plan words is loaded AFTER the first copy: the first copy's destination must
      not overlap the plan words at [area+12, area+20) *)
  Definition log_plan_not_clobbered (area dst1 len1 : N) : Prop :=
    len1 = 0 \/ dst1 + len1 <= area + 12 \/ area + 20 <= dst1.
End Conventions.

(** provider memory after the log glue *)
Definition log_result (pm' gm : mem) (ptr len src_off dst1 len1 dst2 len2 : N) : mem :=
  let pm1 := mcopy pm' gm dst1 (ptr + src_off) len1 in
  if len1 =? len then pm1 else mcopy pm1 gm dst2 (ptr + src_off + len1) len2.

(** * Structural checkers (decided by computation on [funcs] / [wrappers] / [api_sigs]) *)
Definition vtype_eqb (a b : vtype) : bool :=
  match a, b with TI32, TI32 | TI64, TI64 | TF64, TF64 => true | _, _ => false end.
Fixpoint vts_eqb (a b : list vtype) : bool :=
  match a, b with
  | [], [] => true
  | x :: a', y :: b' => vtype_eqb x y && vts_eqb a' b'
  | _, _ => false
  end.

(** [body_target i n b = Some k] iff [b = local.get i; ...; local.get (i+n-1); call k] *)
Fixpoint body_target (i n : nat) (b : list instr) : option nat :=
  match n, b with
  | O, [Call k] => Some k
  | S n', LocalGet j :: b' => if Nat.eqb i j then body_target (S i) n' b' else None
  | _, _ => None
  end.

(** the wrapper of [name] has the public signature, no extra locals, body [local.get 0..n-1; call k],
    and [funcs[k]] is the import ["_" ++ name] of the provider module with the same signature *)
Definition passthrough_ok (name : string) : bool :=
  match lookup name wrappers, lookup name api_sigs with
  | Some w, Some (ps, rs) =>
      match nth_error funcs w with
      | Some (Local fd) =>
          vts_eqb (fparams fd) ps && vts_eqb (fresults fd) rs
          && (match flocals fd with [] => true | _ => false end)
          && match body_target 0 (List.length ps) (fbody fd) with
             | Some k =>
                 match nth_error funcs k with
                 | Some (Import m nm ps' rs') =>
                     String.eqb m provider_module && String.eqb nm ("_" ++ name)
                     && vts_eqb ps' ps && vts_eqb rs' rs
                 | _ => false
                 end
             | None => false
             end
      | _ => false
      end
  | _, _ => false
  end.

Definition import_from_provider (f : func) : bool :=
  match f with Import m _ _ _ => String.eqb m provider_module | Local _ => true end.

Definition wrapper_sig_ok (e : string * nat) : bool :=
  match nth_error funcs (snd e), lookup (fst e) api_sigs with
  | Some (Local fd), Some (ps, rs) => vts_eqb (fparams fd) ps && vts_eqb (fresults fd) rs
  | _, _ => false
  end.

Definition mem_str (n : string) (l : list string) : bool := existsb (String.eqb n) l.

Definition structure_ok : bool :=
  forallb import_from_provider funcs
  && forallb (fun n => mem_str n (map fst api_sigs)) (map fst wrappers)
  && forallb (fun n => mem_str n (map fst wrappers)) (map fst api_sigs)
  && forallb wrapper_sig_ok wrappers.

(** * Concrete witnesses / example inputs (memories as simple functions, 64 KiB each) *)
Definition ex_gm : mem := {| msize := 65536; mget := fun a => (a * 7 + 1) mod 256 |}.
Definition ex_pm : mem := {| msize := 65536; mget := fun a => (a * 3 + 2) mod 256 |}.

(** a provider memory holding the five-word little-endian plan [ws] at [area], zero elsewhere *)
Definition le32 (w : N) : list N := [w mod 256; (w / 256) mod 256; (w / 65536) mod 256; (w / 16777216) mod 256].
Definition plan_mem (area : N) (ws : list N) : mem :=
  {| msize := 65536;
     mget := fun a => if (area <=? a) && (a <? area + 20)
                      then nth (N.to_nat (a - area)) (flat_map le32 ws) 0 else 0 |}.

(** A provider that REJECTS every string write: status 1 (an error), null destination, its memory
    untouched -- what [allocate_utf8_str] in provider/src/write.rs does when the write state machine
    refuses a string ([return (result, std::ptr::null())]). *)
Definition rejecting_oracle : oracle_t unit :=
  fun name args m _ =>
    if String.eqb name "_shopify_function_output_new_utf8_str" then Some ([I64 (1 * 2 ^ 32 + 0)], m, tt)
    else None.
Definition all7_gm : mem := {| msize := 65536; mget := fun _ => 7 |}.
Definition zero_pm : mem := {| msize := 65536; mget := fun _ => 0 |}.

(** A log provider whose plan sends the first segment ONTO the plan's own last two words:
    plan at 1000 = (src_off 0, dst1 1012, len1 8, dst2 2000, len2 4), message length 12. *)
Definition clobber_pm : mem := plan_mem 1000 [0; 1012; 8; 2000; 4].
Definition clobber_oracle : oracle_t unit :=
  fun name args m _ =>
    if String.eqb name "_shopify_function_log_new_utf8_str" then Some ([I32 1000], clobber_pm, tt) else None.
(** guest message: its first 8 bytes read, as two little-endian words, (3000, 4) *)
Definition clobber_gm : mem :=
  {| msize := 65536; mget := fun a => nth (N.to_nat a) [184; 11; 0; 0; 4; 0; 0; 0; 65; 66; 67; 68] 9 |}.

(** an example provider: fixed answers, provider state = number of calls so far *)
Definition ex_log_pm : mem := plan_mem 1000 [2; 50; 3; 60; 4].
Definition ex_oracle : oracle_t nat :=
  fun name args m n =>
    if String.eqb name "_shopify_function_output_new_utf8_str" then Some ([I64 (0 * 2 ^ 32 + 100)], m, S n)
    else if String.eqb name "_shopify_function_intern_utf8_str" then Some ([I64 (5 * 2 ^ 32 + 100)], m, S n)
    else if String.eqb name "_shopify_function_input_get_utf8_str_addr" then Some ([I32 200], m, S n)
    else if String.eqb name "_shopify_function_alloc" then Some ([I32 300], m, S n)
    else if String.eqb name "_shopify_function_input_get_obj_prop" then Some ([I64 77], m, S n)
    else if String.eqb name "_shopify_function_log_new_utf8_str" then Some ([I32 1000], ex_log_pm, S n)
    else if String.eqb name "_shopify_function_output_new_f64" then
      match args with [F64 b] => Some ([I32 (b mod 2)], m, S n) | _ => None end
    else None.
