(** C07 model: TrampolineCodegen::new + apply (trampoline/src/lib.rs) over the abstract module of
    RewriteTypes.v, with walrus's calls as model functions:
      imports.find          = first import with that module and name, whatever its kind
      imports.get_func      = first FUNCTION import with that module and name
      add_import_func/memory= fresh arena id, appended to the import arena
      replace_imported_func = the function keeps its id and type, becomes a generated local function,
                              its import is deleted
    Everything is parametric in [cfg] (instantiated with the regenerated Gen/TrampGen.v). The
    check order, the early returns and the OnceCell memoisation are transcribed as written. *)
From Coq Require Import NArith List String Bool.
From SFV Require Import Abi.AbiTypes Tramp.RewriteTypes.
Import ListNotations.
Open Scope string_scope.

Section Model.
Variable C : cfg.

Definition own_mems (m : module) : list memory := filter (fun x => negb (m_imported x)) (mems m).

(** ---- the two refusal tests of apply() *)
Definition new_name_matches (nw n : string) : bool :=
  c_accept_new C && String.eqb nw n && negb (c_skip_empty_new C && String.eqb nw "").
Definition known_name (n : string) : bool :=
  existsb (fun on => String.eqb (fst on) n || new_name_matches (snd on) n) (c_imports C) || mem n (c_extra C).
Definition unexpected (i : import) : bool := String.eqb (i_mod i) (c_provider C) && negb (known_name (i_name i)).
Definition unsupported (i : import) : bool := String.prefix (c_prefix C) (i_mod i) && negb (String.eqb (i_mod i) (c_provider C)).

(** ---- walrus *)
Definition named (md n : string) (i : import) : bool := String.eqb (i_mod i) md && String.eqb (i_name i) n.
Definition is_func (i : import) : bool := match i_kind i with KFunc _ => true | _ => false end.

Fixpoint get_func (l : list import) (md n : string) : option N :=
  match l with
  | [] => None
  | i :: r => match i_kind i with
              | KFunc fid => if named md n i then Some fid else get_func r md n
              | _ => get_func r md n
              end
  end.

Definition sig_of (m : module) (fid : N) : option sig :=
  match find (fun f => N.eqb (f_id f) fid) (funcs m) with Some f => Some (f_sig f) | None => None end.
Definition kind_of (m : module) (fid : N) : option fkind :=
  match find (fun f => N.eqb (f_id f) fid) (funcs m) with Some f => Some (f_kind f) | None => None end.

Definition add_import_func (m : module) (md n : string) (s : sig) : module * N :=
  let fid := next_func m in
  ({| imports := imports m ++ [{| i_mod := md; i_name := n; i_kind := KFunc fid |}];
      funcs := funcs m ++ [{| f_id := fid; f_sig := s; f_kind := FImported |}];
      mems := mems m; next_func := N.succ fid; next_mem := next_mem m; rest := rest m |}, fid).

Definition add_import_memory (m : module) (md n : string) : module * N :=
  let mid := next_mem m in
  ({| imports := imports m ++ [{| i_mod := md; i_name := n; i_kind := KMem mid |}];
      funcs := funcs m;
      mems := mems m ++ [{| m_id := mid; m_imported := true |}];
      next_func := next_func m; next_mem := N.succ mid; rest := rest m |}, mid).

Definition add_local_func (m : module) (s : sig) (g : gen_fn) : module * N :=
  let fid := next_func m in
  ({| imports := imports m;
      funcs := funcs m ++ [{| f_id := fid; f_sig := s; f_kind := FGen g |}];
      mems := mems m; next_func := N.succ fid; next_mem := next_mem m; rest := rest m |}, fid).

Definition imports_func (fid : N) (i : import) : bool := match i_kind i with KFunc g => N.eqb g fid | _ => false end.

Fixpoint remove_first {A} (p : A -> bool) (l : list A) : list A :=
  match l with [] => [] | x :: r => if p x then r else x :: remove_first p r end.

Definition set_kind (fid : N) (k : fkind) (f : func) : func :=
  if N.eqb (f_id f) fid then {| f_id := f_id f; f_sig := f_sig f; f_kind := k |} else f.

Definition replace_imported_func (m : module) (fid : N) (g : gen_fn) : res module :=
  if negb (existsb (imports_func fid) (imports m)) then Err EInternal
  else match kind_of m fid with
       | Some FImported =>
           Ok {| imports := remove_first (imports_func fid) (imports m);
                 funcs := map (set_kind fid (FGen g)) (funcs m);
                 mems := mems m; next_func := next_func m; next_mem := next_mem m; rest := rest m |}
       | _ => Err EInternal
       end.

(** ---- TrampolineCodegen's OnceCells *)
Record cells := { cl_pmem : option N; cl_to_guest : option N; cl_to_provider : option N; cl_alloc_imp : option N; cl_alloc : option N }.
Definition cells0 : cells := {| cl_pmem := None; cl_to_guest := None; cl_to_provider := None; cl_alloc_imp := None; cl_alloc := None |}.

Definition copy_sig : sig := ([TI32; TI32; TI32], []).

Definition provider_memory (mc : module * cells) : module * cells :=
  let '(m, cl) := mc in
  match cl_pmem cl with
  | Some _ => mc
  | None => let '(m', mid) := add_import_memory m (c_provider C) (c_pmem C) in
            (m', {| cl_pmem := Some mid; cl_to_guest := cl_to_guest cl; cl_to_provider := cl_to_provider cl; cl_alloc_imp := cl_alloc_imp cl; cl_alloc := cl_alloc cl |})
  end.

Definition memcpy_to_guest (mc : module * cells) : module * cells :=
  let '(m, cl) := provider_memory mc in
  match cl_to_guest cl with
  | Some _ => (m, cl)
  | None => let '(m', fid) := add_local_func m copy_sig GToGuest in
            (m', {| cl_pmem := cl_pmem cl; cl_to_guest := Some fid; cl_to_provider := cl_to_provider cl; cl_alloc_imp := cl_alloc_imp cl; cl_alloc := cl_alloc cl |})
  end.

Definition memcpy_to_provider (mc : module * cells) : module * cells :=
  let '(m, cl) := provider_memory mc in
  match cl_to_provider cl with
  | Some _ => (m, cl)
  | None => let '(m', fid) := add_local_func m copy_sig GToProvider in
            (m', {| cl_pmem := cl_pmem cl; cl_to_guest := cl_to_guest cl; cl_to_provider := Some fid; cl_alloc_imp := cl_alloc_imp cl; cl_alloc := cl_alloc cl |})
  end.

Definition alloc_import (mc : module * cells) : module * cells :=
  let '(m, cl) := mc in
  match cl_alloc_imp cl with
  | Some _ => mc
  | None => let '(m', fid) := add_import_func m (c_provider C) (fst (c_alloc C)) (snd (c_alloc C)) in
            (m', {| cl_pmem := cl_pmem cl; cl_to_guest := cl_to_guest cl; cl_to_provider := cl_to_provider cl; cl_alloc_imp := Some fid; cl_alloc := cl_alloc cl |})
  end.

Definition emit_alloc (mc : module * cells) : module * cells :=
  let '(m, cl) := alloc_import mc in
  match cl_alloc cl with
  | Some _ => (m, cl)
  | None => let '(m', fid) := add_local_func m (snd (c_alloc C)) GAlloc in
            (m', {| cl_pmem := cl_pmem cl; cl_to_guest := cl_to_guest cl; cl_to_provider := cl_to_provider cl; cl_alloc_imp := cl_alloc_imp cl; cl_alloc := Some fid |})
  end.

Definition do_helper (mc : module * cells) (h : helper) : module * cells :=
  match h with
  | HToGuest => memcpy_to_guest mc
  | HToProvider => memcpy_to_provider mc
  | HAlloc => emit_alloc mc
  | HProvMem => provider_memory mc
  end.

(** ---- one emit_* function, once. The boolean says whether an import was replaced. *)
Definition emit_one (sp : sspec) (mc : module * cells) : res (module * cells * bool) :=
  let '(m, cl) := mc in
  match get_func (imports m) (c_provider C) (s_looked sp) with
  | None => Ok (m, cl, false)
  | Some fid =>
      match sig_of m fid with
      | None => Err EInternal
      | Some (ps, rs) =>
          if negb (tys_eqb ps (s_params sp)) then Err (EParams (s_orig sp))
          else if negb (tys_eqb rs (s_results sp)) then Err (EResults (s_orig sp))
          else
            let '(m1, _) := add_import_func m (c_provider C) (s_new sp) (s_new_sig sp) in
            let '(m2, cl2) := fold_left do_helper (s_helpers sp) (m1, cl) in
            match replace_imported_func m2 fid (GGlue (s_orig sp)) with
            | Ok m3 => Ok (m3, cl2, true)
            | Err e => Err e
            end
      end
  end.

(** ---- rename_imported_func, once *)
Fixpoint rename_first (md n nw : string) (l : list import) : res (list import * bool) :=
  match l with
  | [] => Ok ([], false)
  | i :: r =>
      if named md n i then
        (if is_func i then Ok ({| i_mod := i_mod i; i_name := nw; i_kind := i_kind i |} :: r, true) else Err ENotFunc)
      else match rename_first md n nw r with
           | Ok (r', b) => Ok (i :: r', b)
           | Err e => Err e
           end
  end.

Definition with_imports (m : module) (l : list import) : module :=
  {| imports := l; funcs := funcs m; mems := mems m; next_func := next_func m; next_mem := next_mem m; rest := rest m |}.

Definition spec_for (orig : string) : option sspec := find (fun sp => String.eqb (s_orig sp) orig) (c_specs C).

(** the body of `for (original, new) in IMPORTS`, once: the match arm *)
Definition once (on : string * string) (mc : module * cells) : res (module * cells) :=
  let '(m, cl) := mc in
  match spec_for (fst on) with
  | Some sp => match emit_one sp (m, cl) with Ok (m', cl', _) => Ok (m', cl') | Err e => Err e end
  | None => match rename_first (c_provider C) (fst on) (snd on) (imports m) with
            | Ok (l, _) => Ok (with_imports m l, cl)
            | Err e => Err e
            end
  end.

(** ... and, when the tool loops ([c_loops]), again as long as a FUNCTION import of that name is left *)
Fixpoint entry_loop (fuel : nat) (on : string * string) (mc : module * cells) : res (module * cells) :=
  match fuel with
  | O => Err EFuel
  | S k => match once on mc with
           | Err e => Err e
           | Ok mc' =>
               if c_loops C && (match get_func (imports (fst mc')) (c_provider C) (fst on) with Some _ => true | None => false end)
               then entry_loop k on mc' else Ok mc'
           end
  end.

Definition step (mc : res (module * cells)) (on : string * string) : res (module * cells) :=
  match mc with
  | Err e => Err e
  | Ok (m, cl) => entry_loop (S (S (List.length (imports m)))) on (m, cl)
  end.

(** TrampolineCodegen::new(module)?.apply() *)
Definition apply (m : module) : res module :=
  match own_mems m with
  | [] => Ok m
  | _ :: _ :: _ => Err EMultiMem
  | [_] =>
      match find unexpected (imports m) with
      | Some i => Err (EUnexpected (i_name i))
      | None =>
          match find unsupported (imports m) with
          | Some i => Err (EUnsupported (i_mod i))
          | None => match fold_left step (c_imports C) (Ok (m, cells0)) with
                    | Ok (m', _) => Ok m'
                    | Err e => Err e
                    end
          end
      end
  end.

End Model.
