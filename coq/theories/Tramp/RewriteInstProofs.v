(** C07 proofs, part 5: the regenerated tables of the tool (Gen/TrampGen.v) satisfy the table
    conditions and agree with the public description of the ABI (Gen/AbiGen.v); the property
    statements for [tool = apply the_cfg] against the declarative [spec]. *)
From Coq Require Import NArith List String Bool Arith Lia.
From SFV Require Import Abi.AbiTypes Tramp.RewriteTypes Tramp.Rewrite Tramp.RewriteSpec Gen.TrampGen Gen.AbiGen
  Tramp.RewriteInst Tramp.RewriteWf Tramp.RewriteLists Tramp.RewriteWfProofs Tramp.RewriteOnce Tramp.RewriteProofs.
Import ListNotations.
Open Scope string_scope.
Open Scope list_scope.

(** ---- closed facts about the tables, by computation *)
Lemma the_cfg_ok : cfg_ok the_cfg = true.
Proof. vm_compute. reflexivity. Qed.

Lemma the_cfg_stable : cfg_stable the_cfg = true.
Proof. vm_compute. reflexivity. Qed.

Lemma provider_agrees : c_provider the_cfg = AbiGen.wat_module.
Proof. reflexivity. Qed.

Lemma prefix_agrees : c_prefix the_cfg = spec_prefix.
Proof. reflexivity. Qed.

(** the names the tool tolerates in the API namespace = public API names + the provider's low-level names *)
Lemma known_set : same_set (klist the_cfg) (names AbiGen.wat_table ++ lowlevel) = true.
Proof. vm_compute. reflexivity. Qed.

(** the original names of IMPORTS = the public API names *)
Lemma origs_set : same_set (origs the_cfg) (names AbiGen.wat_table) = true.
Proof. vm_compute. reflexivity. Qed.

(** the emit_* functions = the string-carrying imports *)
Lemma specs_set : same_set (map s_orig (c_specs the_cfg)) string_carrying = true.
Proof. vm_compute. reflexivity. Qed.

Lemma specs_nodup : nodup_b (map s_orig (c_specs the_cfg)) = true /\ nodup_b (origs the_cfg) = true.
Proof. split; vm_compute; reflexivity. Qed.

(** per IMPORTS entry: an emit_* function exactly for the string-carrying names, and it validates the
    PUBLIC signature; every other entry renames to "_" ++ name *)
Definition entry_check (on : string * string) : bool :=
  match spec_for the_cfg (fst on) with
  | Some sp => mem (fst on) string_carrying &&
               match lookup (fst on) AbiGen.wat_table with
               | Some s' => sig_eqb s' (s_params sp, s_results sp)
               | None => false
               end
  | None => negb (mem (fst on) string_carrying) && String.eqb (snd on) (String.append "_" (fst on))
  end.

Lemma entries_checked : forallb entry_check (c_imports the_cfg) = true.
Proof. vm_compute. reflexivity. Qed.

Lemma sc_origs : forallb (fun n => mem n (origs the_cfg)) string_carrying = true.
Proof. vm_compute. reflexivity. Qed.

(** whatever the tool adds is a low-level export of the provider *)
Lemma add_lowlevel : forallb (fun n => mem n lowlevel) (add_names the_cfg) = true.
Proof. vm_compute. reflexivity. Qed.

(** ---- lifted to all strings *)
Lemma known_agrees n : known_name the_cfg n = mem n (names AbiGen.wat_table) || mem n lowlevel.
Proof. rewrite known_name_klist, (same_set_mem _ _ known_set), mem_app. reflexivity. Qed.

Lemma origs_agree n : mem n (origs the_cfg) = mem n (names AbiGen.wat_table).
Proof. apply same_set_mem. exact origs_set. Qed.

Lemma specs_agree n : mem n (map s_orig (c_specs the_cfg)) = mem n string_carrying.
Proof. apply same_set_mem. exact specs_set. Qed.

Lemma sig_eqb_eq a b : sig_eqb a b = true -> a = b.
Proof.
  destruct a as [a1 a2], b as [b1 b2]. unfold sig_eqb. cbn [fst snd]. intros H. apply andb_prop in H.
  destruct H as [H1 H2]. apply tys_eqb_eq in H1. apply tys_eqb_eq in H2. congruence.
Qed.

Lemma entry_fact k nw :
  lookup k (c_imports the_cfg) = Some nw ->
  match spec_for the_cfg k with
  | Some sp => mem k string_carrying = true /\ lookup k AbiGen.wat_table = Some (s_params sp, s_results sp)
  | None => mem k string_carrying = false /\ nw = String.append "_" k
  end.
Proof.
  intros H. apply lookup_In in H. pose proof entries_checked as Hc. rewrite forallb_forall in Hc.
  specialize (Hc _ H). unfold entry_check in Hc. cbn [fst snd] in Hc.
  destruct (spec_for the_cfg k) as [sp|].
  - apply andb_prop in Hc. destruct Hc as [H1 H2]. split; [exact H1|].
    destruct (lookup k AbiGen.wat_table) as [s'|]; [|discriminate]. apply sig_eqb_eq in H2. subst s'. reflexivity.
  - apply andb_prop in Hc. destruct Hc as [H1 H2]. apply negb_true_iff in H1. apply String.eqb_eq in H2. auto.
Qed.

Lemma origs_lookup n : In n (origs the_cfg) -> exists nw, lookup n (c_imports the_cfg) = Some nw.
Proof.
  intros H. apply mem_In in H. change (origs the_cfg) with (names (c_imports the_cfg)) in H.
  rewrite mem_names_lookup in H. destruct (lookup n (c_imports the_cfg)); [eauto | discriminate].
Qed.

Lemma unexpected_agrees i : unexpected the_cfg i = unknown_name AbiGen.wat_module AbiGen.wat_table lowlevel i.
Proof. unfold unexpected, unknown_name, api_ns. rewrite known_agrees. reflexivity. Qed.

Lemma unsupported_agrees i : unsupported the_cfg i = other_version AbiGen.wat_module spec_prefix i.
Proof. reflexivity. Qed.

Lemma kind_mismatch_agrees l :
  no_kind_mismatch_b the_cfg l = negb (existsb (kind_mismatch AbiGen.wat_module AbiGen.wat_table) l).
Proof.
  unfold no_kind_mismatch_b. f_equal. apply existsb_ext'. intros i. unfold kind_mismatch, api_ns.
  rewrite origs_agree. reflexivity.
Qed.

(** the effect of the whole table on one import is what the specification prescribes *)
Lemma t_all_expected i :
  t_all the_cfg (c_imports the_cfg) i =
  match expected_import AbiGen.wat_module AbiGen.wat_table i with Some j => [j] | None => [] end.
Proof.
  rewrite t_all_lookup. unfold expected_import, api_ns. rewrite (andb_comm (String.eqb _ _) (is_func i)).
  change (c_provider the_cfg) with AbiGen.wat_module.
  destruct (is_func i && String.eqb (i_mod i) AbiGen.wat_module); cbn [andb]; [|reflexivity].
  rewrite <- origs_agree. change (origs the_cfg) with (names (c_imports the_cfg)). rewrite mem_names_lookup.
  destruct (lookup (i_name i) (c_imports the_cfg)) as [nw|] eqn:L; [|reflexivity].
  pose proof (entry_fact _ _ L) as F. destruct (spec_for the_cfg (i_name i)).
  - destruct F as [F _]. rewrite F. reflexivity.
  - destruct F as [F ->]. rewrite F. reflexivity.
Qed.

Lemma spec_imports_t_all m : flat_map (t_all the_cfg (c_imports the_cfg)) (imports m) = spec_imports m.
Proof. unfold spec_imports, expected_prefix. apply flat_map_ext_in. intros i _. apply t_all_expected. Qed.

(** ---- the property statements *)
Lemma L_wf_preserved m m' : wf_module m -> tool m = Ok m' -> wf_module m'.
Proof. intros W H. apply wf_module_iff. apply wf_module_iff in W. exact (apply_wf the_cfg the_cfg_ok m m' W H). Qed.

Lemma L_unknown_name_rejected m :
  Datatypes.length (own_mems m) = 1%nat ->
  existsb (unknown_name AbiGen.wat_module AbiGen.wat_table lowlevel) (imports m) = true -> exists e, tool m = Err e.
Proof.
  intros H1 H2. destruct (length_one _ H1) as [x Hx]. apply (apply_refused_unexpected the_cfg m x Hx).
  rewrite (existsb_ext' _ _ _ unexpected_agrees). exact H2.
Qed.

Lemma L_other_version_rejected m :
  Datatypes.length (own_mems m) = 1%nat ->
  existsb (other_version AbiGen.wat_module spec_prefix) (imports m) = true -> exists e, tool m = Err e.
Proof.
  intros H1 H2. destruct (length_one _ H1) as [x Hx]. apply (apply_refused_unsupported the_cfg m x Hx).
  rewrite (existsb_ext' _ _ _ unsupported_agrees). exact H2.
Qed.

Lemma bad_sig_unpack m i :
  bad_string_sig AbiGen.wat_module AbiGen.wat_table m i = true ->
  i_mod i = c_provider the_cfg /\ is_func i = true /\ In (i_name i) (origs the_cfg) /\
  exists sp, spec_for the_cfg (i_name i) = Some sp /\ good_sig_b sp m i = false.
Proof.
  unfold bad_string_sig, api_ns. intros H. apply andb_prop in H. destruct H as [H H3].
  apply andb_prop in H. destruct H as [H1 H2]. apply String.eqb_eq in H1.
  assert (In (i_name i) (origs the_cfg)) as Ho.
  { pose proof sc_origs as S. rewrite forallb_forall in S. apply mem_In. apply S. apply mem_In. exact H2. }
  destruct (origs_lookup _ Ho) as [nw L]. pose proof (entry_fact _ _ L) as F.
  split; [exact H1|]. unfold is_func, good_sig_b.
  destruct (i_kind i) as [fid| |]; try discriminate. split; [reflexivity|]. split; [exact Ho|].
  destruct (spec_for the_cfg (i_name i)) as [sp|]; [|destruct F; congruence].
  exists sp. split; [reflexivity|]. destruct F as [_ F]. rewrite F in H3.
  destruct (sig_of m fid) as [[ps rs]|]; [|reflexivity].
  apply negb_true_iff in H3. exact H3.
Qed.

Lemma L_bad_signature_rejected m :
  wf_module m -> Datatypes.length (own_mems m) = 1%nat ->
  existsb (bad_string_sig AbiGen.wat_module AbiGen.wat_table m) (imports m) = true -> exists e, tool m = Err e.
Proof.
  intros W H1 H2. apply wf_module_iff in W. destruct (length_one _ H1) as [x Hx].
  apply existsb_exists in H2. destruct H2 as [i [Hi Hb]].
  destruct (bad_sig_unpack m i Hb) as [Hm [Hf [Ho [sp [Hsp Hg]]]]].
  exact (apply_bad_sig the_cfg the_cfg_ok m x i sp W Hx Hi Hm Hf Ho Hsp Hg).
Qed.

Lemma accept_ready m :
  existsb (bad_string_sig AbiGen.wat_module AbiGen.wat_table m) (imports m) = false ->
  existsb (kind_mismatch AbiGen.wat_module AbiGen.wat_table) (imports m) = false ->
  ready_b the_cfg m = true.
Proof.
  intros B K. unfold ready_b. apply forallb_forall. intros i Hi.
  pose proof (proj1 (existsb_false_forall _ _) B i Hi) as Bi.
  pose proof (proj1 (existsb_false_forall _ _) K i Hi) as Ki.
  destruct (String.eqb (i_mod i) (c_provider the_cfg) && mem (i_name i) (origs the_cfg)) eqn:Eq; [|reflexivity].
  cbn [negb orb]. apply andb_prop in Eq. destruct Eq as [E1 E2].
  unfold kind_mismatch, api_ns in Ki. change AbiGen.wat_module with (c_provider the_cfg) in Ki.
  rewrite E1, <- origs_agree, E2 in Ki. cbn [andb] in Ki. apply negb_false_iff in Ki. rewrite Ki. cbn [andb].
  destruct (spec_for the_cfg (i_name i)) as [sp|] eqn:S; [|reflexivity].
  apply mem_In in E2. destruct (origs_lookup _ E2) as [nw L]. pose proof (entry_fact _ _ L) as F. rewrite S in F.
  destruct F as [F1 F2]. unfold bad_string_sig, api_ns in Bi. change AbiGen.wat_module with (c_provider the_cfg) in Bi.
  rewrite E1, F1, F2 in Bi. cbn [andb] in Bi. unfold good_sig_b.
  destruct (i_kind i) as [fid| |]; try reflexivity.
  destruct (sig_of m fid) as [[ps rs]|]; [|discriminate]. apply negb_false_iff in Bi. exact Bi.
Qed.

Lemma L_verdict m :
  wf_module m ->
  match spec m with
  | VUnchanged => tool m = Ok m
  | VReject => exists e, tool m = Err e
  | VAccept => exists m', tool m = Ok m'
  | VEither => True
  end.
Proof.
  intros W. unfold spec, spec_verdict. destruct (own_mems m) as [|x [|y r]] eqn:Hm.
  - unfold tool, apply. rewrite Hm. reflexivity.
  - assert (Datatypes.length (own_mems m) = 1%nat) as H1 by (rewrite Hm; reflexivity).
    destruct (existsb (unknown_name AbiGen.wat_module AbiGen.wat_table lowlevel) (imports m)) eqn:U; cbn [orb].
    { apply L_unknown_name_rejected; assumption. }
    destruct (existsb (other_version AbiGen.wat_module spec_prefix) (imports m)) eqn:V; cbn [orb].
    { apply L_other_version_rejected; assumption. }
    destruct (existsb (bad_string_sig AbiGen.wat_module AbiGen.wat_table m) (imports m)) eqn:B.
    { apply L_bad_signature_rejected; assumption. }
    destruct (existsb (kind_mismatch AbiGen.wat_module AbiGen.wat_table) (imports m)) eqn:K; [exact I|].
    apply wf_module_iff in W. apply (apply_accepts the_cfg the_cfg_ok m x W Hm).
    + rewrite (existsb_ext' _ _ _ unexpected_agrees). exact U.
    + rewrite (existsb_ext' _ _ _ unsupported_agrees). exact V.
    + apply accept_ready; assumption.
  - exists EMultiMem. unfold tool, apply. rewrite Hm. reflexivity.
Qed.

Lemma L_preserves m m' :
  wf_module m -> tool m = Ok m' ->
  rest m' = rest m /\ own_mems m' = own_mems m /\
  filter (fun f => match f_kind f with FOwn => true | _ => false end) (funcs m') =
  filter (fun f => match f_kind f with FOwn => true | _ => false end) (funcs m) /\
  (forall f, In f (funcs m) -> exists f', In f' (funcs m') /\ f_id f' = f_id f /\ f_sig f' = f_sig f) /\
  filter (fun i => negb (String.eqb (i_mod i) AbiGen.wat_module)) (imports m') =
  filter (fun i => negb (String.eqb (i_mod i) AbiGen.wat_module)) (imports m).
Proof.
  intros W H. apply wf_module_iff in W. destruct (apply_pres the_cfg the_cfg_ok m m' W H) as [[P1 P2 P3 P4] F].
  split; [exact P1|]. split; [exact P2|]. split; [exact P3|]. split; [|exact F].
  intros f Hf. pose proof (find_self _ f (wf_fid_nodup m W) Hf) as Hs.
  assert (sig_of m (f_id f) = Some (f_sig f)) as Hsig by (unfold sig_of; rewrite Hs; reflexivity).
  apply P4 in Hsig. unfold sig_of in Hsig.
  destruct (find (fun f0 => N.eqb (f_id f0) (f_id f)) (funcs m')) as [f'|] eqn:Ef; [|discriminate].
  apply find_some in Ef. destruct Ef as [Hi He]. apply N.eqb_eq in He. exists f'.
  split; [exact Hi|]. split; [exact He | congruence].
Qed.

Lemma L_imports_general m m' :
  wf_module m -> own_mems m <> [] -> tool m = Ok m' ->
  exists added, imports m' = spec_imports m ++ added /\
                Forall (fun i => i_mod i = AbiGen.wat_module /\ In (i_name i) lowlevel) added.
Proof.
  intros W Hne H. apply wf_module_iff in W.
  destruct (apply_shape the_cfg the_cfg_ok m m' W H) as [[H0 _]|[x [ai [_ [_ [_ [I [A _]]]]]]]]; [contradiction|].
  exists ai. split; [rewrite I, spec_imports_t_all; reflexivity|].
  eapply Forall_impl; [|exact A]. intros i [H1 H2]. split; [exact H1|].
  pose proof add_lowlevel as L. rewrite forallb_forall in L. apply mem_In. apply L. exact H2.
Qed.

Lemma L_imports_as_prescribed m m' :
  wf_module m -> spec m = VAccept -> tool m = Ok m' ->
  exists added, imports m' = spec_imports m ++ added /\
                Forall (fun i => i_mod i = AbiGen.wat_module /\ In (i_name i) lowlevel) added.
Proof.
  intros W S H. apply L_imports_general; [exact W| |exact H].
  intros H0. unfold spec, spec_verdict in S. rewrite H0 in S. discriminate.
Qed.

Lemma L_fully_trampolined m m' :
  wf_module m -> own_mems m <> [] -> tool m = Ok m' ->
  forall i, In i (imports m') -> i_mod i = AbiGen.wat_module -> is_func i = true ->
            mem (i_name i) (names AbiGen.wat_table) = false.
Proof.
  intros W Hne H i Hi Hm Hf. apply wf_module_iff in W. rewrite <- origs_agree. apply mem_false_In.
  exact (apply_trampolined the_cfg the_cfg_ok m m' W Hne H i Hi Hm Hf).
Qed.

Lemma L_idempotent m m' :
  wf_module m -> existsb (kind_mismatch AbiGen.wat_module AbiGen.wat_table) (imports m) = false ->
  tool m = Ok m' -> tool m' = Ok m'.
Proof.
  intros W K H. apply wf_module_iff in W. apply (apply_idem the_cfg the_cfg_ok the_cfg_stable m m' W); [|exact H].
  rewrite kind_mismatch_agrees, K. reflexivity.
Qed.
