(** The rewrite model and its specification instantiated with the REGENERATED tables:
    Gen/TrampGen.v (translator T7, from trampoline/src/lib.rs) for the tool,
    Gen/AbiGen.v (translator T3: public WAT, provider exports) for the specification. *)
From Coq Require Import NArith List String Bool.
From SFV Require Import Abi.AbiTypes Tramp.RewriteTypes Tramp.Rewrite Tramp.RewriteSpec Gen.TrampGen Gen.AbiGen.
Import ListNotations.
Open Scope string_scope.

Definition the_cfg : cfg :=
  {| c_provider := TrampGen.provider_module; c_prefix := TrampGen.version_prefix; c_imports := TrampGen.imports_table;
     c_extra := TrampGen.extra_allowed; c_accept_new := TrampGen.accepts_new_names; c_skip_empty_new := TrampGen.skips_empty_new_names;
     c_specs := TrampGen.string_specs; c_alloc := TrampGen.alloc_import; c_pmem := TrampGen.provider_memory_name;
     c_loops := TrampGen.entry_loops |}.

Definition tool (m : module) : res module := apply the_cfg m.

(** the specification's view of the namespace: the public WAT and what the provider exports for guests *)
Definition spec_prefix : string := "shopify_function_v".
Definition lowlevel : list string := filter (String.prefix "_") (names AbiGen.provider_exports) ++ ["memory"].
Definition spec (m : module) : verdict := spec_verdict AbiGen.wat_module spec_prefix AbiGen.wat_table lowlevel m.
Definition spec_imports (m : module) : list import := expected_prefix AbiGen.wat_module AbiGen.wat_table m.
