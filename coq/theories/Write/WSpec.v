(** SPEC of the output writer: an abstract document builder (executable, independent of state.rs).
    A partial document is a stack of open containers (innermost first) holding their finished
    children; a finished child is delivered to its parent, the finished outermost value becomes
    the root.  [spec_step] gives the documented status of each call; a rejected call returns the
    state unchanged.  [flatten] is the byte image of a partial document. *)
From Coq Require Import NArith ZArith List Bool.
From SFV Require Import Base.Bytes Msgpack.Rmp Msgpack.Tree Gen.CodesGen Write.Writer.
Import ListNotations.
Open Scope N_scope.

Inductive frame :=
| FObj (declared : N) (done : list (list N * tree)) (pending : option (list N))
| FArr (declared : N) (done : list tree).

Record sstate := {
  frames : list frame;      (* open containers, innermost first *)
  root : option tree        (* the finished document *)
}.

Definition sinit : sstate := {| frames := []; root := None |}.

(** What an operation offers. *)
Inductive offer :=
| VScalar (t : tree)        (* a non-string scalar *)
| VString (s : list N)
| VStartObj (n : N)
| VStartArr (n : N)
| VFinObj
| VFinArr
| VInvalid.                 (* interned id out of range: precondition violated, no documented status *)

Definition offer_of (interned : list (list N)) (op : wop) : offer :=
  match op with
  | OBool v => VScalar (TBool (negb (v =? 0)))
  | ONull => VScalar TNull
  | OI32 z => VScalar (TInt z)
  | OF64 b => VScalar (TF64 b)
  | OStr s => VString s
  | OIStr id => match nthN interned id with Some s => VString s | None => VInvalid end
  | OStartObj n => VStartObj n
  | OFinObj => VFinObj
  | OStartArr n => VStartArr n
  | OFinArr => VFinArr
  end.

(** May a value be offered here?  [is_str]: the value is a string (the only thing a key can be). *)
Definition may_offer (is_str : bool) (s : sstate) : N :=
  match frames s with
  | [] => match root s with None => WR_Ok | Some _ => WR_ValueAlreadyWritten end
  | FArr d done :: _ => if lenN done <? d then WR_Ok else WR_ArrayLengthError
  | FObj d done (Some _) :: _ => WR_Ok                                   (* value position *)
  | FObj d done None :: _ =>                                             (* key position *)
      if is_str then (if lenN done <? d then WR_Ok else WR_ObjectLengthError)
      else WR_ExpectedKey
  end.

(** A finished value [v] goes to the innermost open container, or becomes the root. *)
Definition deliver (v : tree) (fs : list frame) : sstate :=
  match fs with
  | [] => {| frames := []; root := Some v |}
  | FArr d done :: fs' => {| frames := FArr d (done ++ [v]) :: fs'; root := None |}
  | FObj d done (Some k) :: fs' => {| frames := FObj d (done ++ [(k, v)]) None :: fs'; root := None |}
  | FObj d done None :: fs' => {| frames := fs; root := None |}          (* not used: see [may_offer] *)
  end.

(** A string is a key at a key position and a value elsewhere. *)
Definition deliver_str (k : list N) (fs : list frame) : sstate :=
  match fs with
  | FObj d done None :: fs' => {| frames := FObj d done (Some k) :: fs'; root := None |}
  | _ => deliver (TStr k) fs
  end.

Definition spec_step (interned : list (list N)) (s : sstate) (op : wop) : sstate * N :=
  match offer_of interned op with
  | VScalar v =>
      let st := may_offer false s in
      if st =? WR_Ok then (deliver v (frames s), WR_Ok) else (s, st)
  | VString k =>
      let st := may_offer true s in
      if st =? WR_Ok then (deliver_str k (frames s), WR_Ok) else (s, st)
  | VStartObj n =>
      let st := may_offer false s in
      if st =? WR_Ok then ({| frames := FObj n [] None :: frames s; root := None |}, WR_Ok) else (s, st)
  | VStartArr n =>
      let st := may_offer false s in
      if st =? WR_Ok then ({| frames := FArr n [] :: frames s; root := None |}, WR_Ok) else (s, st)
  | VFinObj =>
      match frames s with
      | FObj d done None :: fs =>
          if lenN done =? d then (deliver (TObj done) fs, WR_Ok) else (s, WR_ObjectLengthError)
      | FObj _ _ (Some _) :: _ => (s, WR_ObjectLengthError)
      | _ => (s, WR_NotAnObject)
      end
  | VFinArr =>
      match frames s with
      | FArr d done :: fs =>
          if lenN done =? d then (deliver (TArr done) fs, WR_Ok) else (s, WR_ArrayLengthError)
      | _ => (s, WR_NotAnArray)
      end
  | VInvalid => (s, WR_IoError)     (* unspecified; the implementation panics (index out of bounds) *)
  end.

(** The bytes a partial document has produced so far. *)
Definition enc_frame (f : frame) : list N :=
  match f with
  | FArr d done => write_array_len (d mod 2 ^ 32) ++ flat_map enc_tree done
  | FObj d done pend =>
      write_map_len (d mod 2 ^ 32) ++ flat_map enc_pair done
      ++ match pend with Some k => enc_str k | None => [] end
  end.

Definition flatten (s : sstate) : list N :=
  match root s with Some t => enc_tree t | None => [] end
  ++ flat_map enc_frame (rev (frames s)).

Definition spec_complete (s : sstate) : Prop := frames s = [] /\ root s <> None.

Definition spec_completeb (s : sstate) : bool :=
  match frames s, root s with [], Some _ => true | _, _ => false end.

(** Documented result of the native finalize. *)
Definition spec_finalize (s : sstate) : N * list N :=
  if spec_completeb s then (WR_Ok, flatten s) else (WR_ValueNotFinished, []).

(** Running a list of operations (the interner does not change). *)
Definition spec_run (interned : list (list N)) (ops : list wop) : sstate * list N :=
  fold_left (fun '(s, rs) op => let '(s', r) := spec_step interned s op in (s', rs ++ [r])) ops (sinit, []).
