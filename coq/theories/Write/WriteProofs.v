(** PROOFS: the writer model (Write/Writer.v) refines the abstract document builder (Write/WSpec.v).
    All statements are for an arbitrary pointer width [W] and overflow mode [trap]. *)
From Coq Require Import NArith ZArith Lia List Bool Arith ZifyNat ZifyN ZifyBool.
From SFV Require Import Base.Bytes Msgpack.Rmp Msgpack.Tree Msgpack.TreeProofs Gen.CodesGen
  Write.Writer Write.WSpec Write.Grammar Write.WGuard.
Import ListNotations.
Open Scope N_scope.
Ltac Zify.zify_post_hook ::= Z.div_mod_to_equations.

(** * Status codes: only their distinctness from [WR_Ok] is used *)

Definition res_of_code (st : N) : wres := if st =? WR_Ok then WOk else WErr st.

Lemma ne_ExpectedKey : (WR_ExpectedKey =? WR_Ok) = false. Proof. reflexivity. Qed.
Lemma ne_ObjectLengthError : (WR_ObjectLengthError =? WR_Ok) = false. Proof. reflexivity. Qed.
Lemma ne_ValueAlreadyWritten : (WR_ValueAlreadyWritten =? WR_Ok) = false. Proof. reflexivity. Qed.
Lemma ne_NotAnObject : (WR_NotAnObject =? WR_Ok) = false. Proof. reflexivity. Qed.
Lemma ne_ArrayLengthError : (WR_ArrayLengthError =? WR_Ok) = false. Proof. reflexivity. Qed.
Lemma ne_NotAnArray : (WR_NotAnArray =? WR_Ok) = false. Proof. reflexivity. Qed.
Lemma ne_IoError : (WR_IoError =? WR_Ok) = false. Proof. reflexivity. Qed.
Lemma ne_ValueNotFinished : (WR_ValueNotFinished =? WR_Ok) = false. Proof. reflexivity. Qed.

Ltac codes :=
  rewrite ?N.eqb_refl, ?ne_ExpectedKey, ?ne_ObjectLengthError, ?ne_ValueAlreadyWritten,
    ?ne_NotAnObject, ?ne_ArrayLengthError, ?ne_NotAnArray, ?ne_IoError.

Lemma res_of_code_ok st : res_of_code st = WOk <-> st = WR_Ok.
Proof.
  unfold res_of_code. destruct (N.eqb_spec st WR_Ok); split; intro H; try congruence; discriminate.
Qed.

(** * C03_frame: a rejected (or panicking) call changes nothing -- unconditional *)

Section WP.
Variable W : N.
Variable trap : bool.

Notation step := (step W trap).

Lemma commit_frame c r st b : snd (commit c r st b) <> WOk -> fst (commit c r st b) = c.
Proof. destruct r; cbn [commit fst snd]; congruence. Qed.

Theorem C03_frame c op : snd (step c op) <> WOk -> fst (step c op) = c.
Proof.
  destruct op; cbn [Writer.step]; unfold write_str;
    try apply commit_frame.
  - destruct (nthN (interned c) id); [apply commit_frame|reflexivity].
  - destruct (st_start W trap (Object len 0) (wstate c) (wstack c)). apply commit_frame.
  - destruct (st_finish_object (wstate c) (wstack c)). apply commit_frame.
  - destruct (st_start W trap (Array len 0) (wstate c) (wstack c)). apply commit_frame.
  - destruct (st_finish_array (wstate c) (wstack c)). apply commit_frame.
Qed.

(** The bytes an accepted operation appends. *)
Definition op_bytes (it : list (list N)) (op : wop) : list N :=
  match op with
  | OBool v => write_bool (negb (v =? 0))
  | ONull => write_nil
  | OI32 z => write_sint z
  | OF64 b => write_f64 b
  | OStr s => enc_str s
  | OIStr id => match nthN it id with Some s => enc_str s | None => [] end
  | OStartObj n => write_map_len (n mod 2 ^ 32)
  | OStartArr n => write_array_len (n mod 2 ^ 32)
  | OFinObj | OFinArr => []
  end.

Lemma commit_out c r st b :
  snd (commit c r st b) = WOk ->
  out (fst (commit c r st b)) = out c ++ b /\ interned (fst (commit c r st b)) = interned c.
Proof. destruct r; cbn [commit fst snd out interned]; intro H; try discriminate. split; reflexivity. Qed.

Lemma step_out c op :
  snd (step c op) = WOk ->
  out (fst (step c op)) = out c ++ op_bytes (interned c) op
  /\ interned (fst (step c op)) = interned c.
Proof.
  destruct op; cbn [Writer.step op_bytes]; unfold write_str, enc_str;
    try apply commit_out.
  - destruct (nthN (interned c) id); [apply commit_out|cbn [snd]; discriminate].
  - destruct (st_start W trap (Object len 0) (wstate c) (wstack c)). apply commit_out.
  - destruct (st_finish_object (wstate c) (wstack c)). apply commit_out.
  - destruct (st_start W trap (Array len 0) (wstate c) (wstack c)). apply commit_out.
  - destruct (st_finish_array (wstate c) (wstack c)). apply commit_out.
Qed.

Lemma step_interned c op : interned (fst (step c op)) = interned c.
Proof.
  destruct (snd (step c op)) eqn:E.
  - apply step_out. exact E.
  - rewrite C03_frame by congruence. reflexivity.
  - rewrite C03_frame by congruence. reflexivity.
Qed.

(** * The abstraction: implementation state and stack as a function of the abstract document *)

Definition st_inner (f : frame) : state :=
  match f with
  | FArr d done => Array d (lenN done)
  | FObj d done None => Object d (2 * lenN done)
  | FObj d done (Some _) => Object d (2 * lenN done + 1)
  end.

(** A container with an open child: the child's slot is already claimed. *)
Definition st_parent (f : frame) : state :=
  match f with
  | FArr d done => Array d (lenN done + 1)
  | FObj d done _ => Object d (2 * lenN done + 2)
  end.

Definition abs_state (s : sstate) : state * list state :=
  match frames s with
  | [] => (match root s with None => Start | Some _ => End end, [])
  | f :: fs => (st_inner f, map st_parent fs)
  end.

(** Invariant of reachable abstract states (uses the no-overflow guard on declared lengths). *)
Definition inner_ok (f : frame) : Prop :=
  match f with
  | FArr d done => lenN done <= d /\ d < 2 ^ W
  | FObj d done None => lenN done <= d /\ 2 * d < 2 ^ W
  | FObj d done (Some _) => lenN done < d /\ 2 * d < 2 ^ W
  end.

Definition parent_ok (f : frame) : Prop :=
  match f with
  | FArr d done => lenN done < d /\ d < 2 ^ W
  | FObj d done (Some _) => lenN done < d /\ 2 * d < 2 ^ W
  | FObj d done None => False
  end.

Definition inv (s : sstate) : Prop :=
  match frames s with
  | [] => True
  | f :: fs => root s = None /\ inner_ok f /\ Forall parent_ok fs
  end.

(** The guard: declared lengths fit the arithmetic of state.rs
    ([length * 2] in [finish_object]; array lengths are [usize]). *)
Definition op_guard (op : wop) : Prop :=
  match op with
  | OStartObj l => 2 * l < 2 ^ W
  | OStartArr l => l < 2 ^ W
  | _ => True
  end.

(** Interned ids must have been handed out by the interner. *)
Definition op_ids (it : list (list N)) (op : wop) : Prop :=
  match op with OIStr id => id < lenN it | _ => True end.

(** ** Arithmetic of the state machine *)

Lemma add_w_small a : a + 1 < 2 ^ W -> add_w W trap a 1 = Some (a + 1).
Proof. intro H. unfold add_w. destruct (N.ltb_spec (a + 1) (2 ^ W)); [reflexivity|lia]. Qed.

(** finish_object's test since the repair of F8: parity and number of complete pairs (no multiplication) *)
Lemma fin_even l n : (negb ((2 * n) mod 2 =? 0) || negb (2 * n / 2 =? l)) = negb (2 * n =? 2 * l).
Proof.
  replace ((2 * n) mod 2) with 0 by lia. replace (2 * n / 2) with n by lia. cbn [N.eqb negb orb].
  destruct (N.eqb_spec n l), (N.eqb_spec (2 * n) (2 * l)); try reflexivity; lia.
Qed.
Lemma fin_odd l n : (negb ((2 * n + 1) mod 2 =? 0) || negb ((2 * n + 1) / 2 =? l)) = true.
Proof. replace ((2 * n + 1) mod 2) with 1 by lia. reflexivity. Qed.

Lemma ows_even l n : 2 * l < 2 ^ W ->
  obj_write_string W trap l (2 * n)
  = if n <? l then SOk (Object l (2 * n + 1)) else SErr WR_ObjectLengthError.
Proof.
  intro H. unfold obj_write_string.
  replace (2 * n / 2) with n by (symmetry; rewrite N.mul_comm; apply N.div_mul; lia).
  destruct (N.leb_spec l n), (N.ltb_spec n l); try lia; [reflexivity|].
  rewrite add_w_small by lia. reflexivity.
Qed.

Lemma ows_odd l n : 2 * l < 2 ^ W -> n < l ->
  obj_write_string W trap l (2 * n + 1) = SOk (Object l (2 * n + 2)).
Proof.
  intros H Hn. unfold obj_write_string.
  replace ((2 * n + 1) / 2) with n by lia.
  destruct (N.leb_spec l n); [lia|].
  rewrite add_w_small by lia. do 2 f_equal. lia.
Qed.

Lemma owns_even l n : obj_write_non_string W trap l (2 * n) = SErr WR_ExpectedKey.
Proof.
  unfold obj_write_non_string.
  replace ((2 * n) mod 2) with 0 by lia. reflexivity.
Qed.

Lemma owns_odd l n : 2 * l < 2 ^ W -> n < l ->
  obj_write_non_string W trap l (2 * n + 1) = SOk (Object l (2 * n + 2)).
Proof.
  intros H Hn. unfold obj_write_non_string.
  replace ((2 * n + 1) mod 2) with 1 by lia. cbn [N.eqb Pos.eqb].
  rewrite add_w_small by lia. do 2 f_equal. lia.
Qed.

Lemma awv l n : l < 2 ^ W ->
  arr_write_value W trap l n
  = if n <? l then SOk (Array l (n + 1)) else SErr WR_ArrayLengthError.
Proof.
  intro H. unfold arr_write_value.
  destruct (N.leb_spec l n), (N.ltb_spec n l); try lia; [reflexivity|].
  rewrite add_w_small by lia. reflexivity.
Qed.

Lemma nthN_lt {A} (l : list A) n : n < lenN l -> exists x, nthN l n = Some x.
Proof.
  revert n. induction l as [|x l IH]; intros n H.
  - rewrite lenN_nil in H. lia.
  - cbn [nthN]. destruct (N.eqb_spec n 0); [eexists; reflexivity|].
    apply IH. rewrite lenN_cons in H. lia.
Qed.

Lemma lenN_snoc {A} (l : list A) x : lenN (l ++ [x]) = lenN l + 1.
Proof. rewrite lenN_app, lenN_cons, lenN_nil. lia. Qed.

(** ** One step: statuses agree and the abstraction is preserved *)

Lemma abs_step c s op :
  (wstate c, wstack c) = abs_state s -> inv s -> op_guard op -> op_ids (interned c) op ->
  snd (step c op) = res_of_code (snd (spec_step (interned c) s op)) /\
  (wstate (fst (step c op)), wstack (fst (step c op))) = abs_state (fst (spec_step (interned c) s op)).
Proof.
  intros Habs Hinv Hg Hid.
  destruct c as [ws wk o it]. cbn [wstate wstack interned] in *.
  destruct s as [fs rt]. unfold abs_state, inv in *. cbn [frames root] in *.
  destruct fs as [|[d done [k|]|d done] fs]; [destruct rt as [t|]|..];
    apply pair_equal_spec in Habs; destruct Habs as [-> ->].
  all: destruct op; cbn [op_ids op_guard] in Hid, Hg;
    try (destruct (nthN_lt _ _ Hid) as [sx Hx]);
    cbn [Writer.step interned]; unfold spec_step, offer_of; try rewrite Hx; unfold write_str;
    cbn [may_offer frames root wstate wstack interned out st_write_non_string_scalar st_write_string
         st_start st_finish_object st_finish_array st_inner]; codes.
  all: try (destruct Hinv as (-> & [H1 H2] & HP)).
  all: rewrite ?ows_even, ?owns_even, ?awv by assumption.
  all: rewrite ?ows_odd, ?owns_odd by assumption.
  all: rewrite ?fin_even, ?fin_odd.
  all: cbn [commit fst snd wstate wstack frames root deliver deliver_str st_inner map]; unfold res_of_code; codes.
  all: try (split; reflexivity).
  all: repeat match goal with
         | |- context [if ?a <? ?b then _ else _] => destruct (N.ltb_spec a b)
         end; codes; cbn [commit fst snd wstate wstack frames root st_inner map]; codes.
  all: try (split; reflexivity).
  all: repeat match goal with
         | |- context [negb (?a =? ?b)] => destruct (N.eqb_spec a b); try lia
         | |- context [lenN ?a =? ?b] => destruct (N.eqb_spec (lenN a) b); try lia
         end; cbn [negb commit fst snd wstate wstack frames root st_inner map]; codes.
  all: try (split; reflexivity).
  all: rewrite ?lenN_snoc.
  all: try (split; [reflexivity|]; f_equal; f_equal; lia).
  all: destruct fs as [|[d' done' [k'|]|d' done'] fs];
    cbn [map pop_or_end deliver commit fst snd wstate wstack frames root st_inner st_parent];
    try (split; reflexivity).
  all: try (exfalso; inversion HP as [|? ? HP1 HP2]; exact HP1).
  all: rewrite ?lenN_snoc.
  all: split; [reflexivity|]; f_equal; f_equal; lia.
Qed.


(** * The abstract builder on its own: invariant, bytes, tokens, well-formedness *)

Definition mk (fs : list frame) : sstate := {| frames := fs; root := None |}.

Definition pair_tokens (kv : list N * tree) : list token := KStr (fst kv) :: tokens (snd kv).

Definition frame_tokens (f : frame) : list token :=
  match f with
  | FArr d done => KStartArr d :: flat_map tokens done
  | FObj d done pend =>
      KStartObj d :: flat_map pair_tokens done
      ++ match pend with Some k => [KStr k] | None => [] end
  end.

(** The tokens of a partial document (the analogue of [flatten]). *)
Definition stokens (s : sstate) : list token :=
  match root s with Some t => tokens t | None => [] end
  ++ flat_map frame_tokens (rev (frames s)).

Definition pair_wf (kv : list N * tree) : Prop := wf_str (fst kv) = true /\ wf_tree (snd kv) = true.

Definition frame_wf (f : frame) : Prop :=
  match f with
  | FArr d done => d < 2 ^ 32 /\ Forall (fun t => wf_tree t = true) done
  | FObj d done pend =>
      d < 2 ^ 32 /\ Forall pair_wf done /\ match pend with Some k => wf_str k = true | None => True end
  end.

Definition swf (s : sstate) : Prop :=
  Forall frame_wf (frames s) /\ match root s with Some t => wf_tree t = true | None => True end.

(** Where a value / a string may go. *)
Definition can_take (fs : list frame) : Prop :=
  match fs with
  | [] => True
  | FArr d done :: _ => lenN done < d
  | FObj _ _ (Some _) :: _ => True
  | FObj _ _ None :: _ => False
  end.

Definition can_take_str (fs : list frame) : Prop :=
  match fs with
  | FObj d done None :: _ => lenN done < d
  | _ => can_take fs
  end.

Lemma tokens_obj l : tokens (TObj l) = KStartObj (lenN l) :: flat_map pair_tokens l ++ [KFinObj].
Proof.
  cbn [tokens]. f_equal. f_equal. apply flat_map_ext. intros [k v]. reflexivity.
Qed.

Lemma flatten_cons f fs : flatten (mk (f :: fs)) = flatten (mk fs) ++ enc_frame f.
Proof.
  unfold flatten, mk. cbn [root frames rev app]. rewrite flat_map_app. cbn [flat_map].
  rewrite app_nil_r. reflexivity.
Qed.

Lemma stokens_cons f fs : stokens (mk (f :: fs)) = stokens (mk fs) ++ frame_tokens f.
Proof.
  unfold stokens, mk. cbn [root frames rev app]. rewrite flat_map_app. cbn [flat_map].
  rewrite app_nil_r. reflexivity.
Qed.

Lemma may_offer_false_ok s :
  inv s -> may_offer false s = WR_Ok -> s = mk (frames s) /\ can_take (frames s).
Proof.
  destruct s as [fs rt]. unfold inv, may_offer, mk. cbn [frames root].
  destruct fs as [|[d done [k|]|d done] fs].
  - destruct rt; intros _ H; [exfalso; revert H; apply N.eqb_neq, ne_ValueAlreadyWritten|].
    split; reflexivity.
  - intros (-> & _) _. split; [reflexivity|exact I].
  - intros _ H. exfalso; revert H; apply N.eqb_neq, ne_ExpectedKey.
  - intros (-> & _). cbn [can_take]. destruct (N.ltb_spec (lenN done) d) as [HL|HL]; intro HA.
    + split; [reflexivity|assumption].
    + exfalso; revert HA; apply N.eqb_neq, ne_ArrayLengthError.
Qed.

Lemma may_offer_true_ok s :
  inv s -> may_offer true s = WR_Ok -> s = mk (frames s) /\ can_take_str (frames s).
Proof.
  destruct s as [fs rt]. unfold inv, may_offer, mk. cbn [frames root].
  destruct fs as [|[d done [k|]|d done] fs].
  - destruct rt; intros _ H; [exfalso; revert H; apply N.eqb_neq, ne_ValueAlreadyWritten|].
    split; reflexivity.
  - intros (-> & _) _. split; [reflexivity|exact I].
  - intros (-> & _). cbn [can_take_str]. destruct (N.ltb_spec (lenN done) d) as [HL|HL]; intro HA.
    + split; [reflexivity|assumption].
    + exfalso; revert HA; apply N.eqb_neq, ne_ObjectLengthError.
  - intros (-> & _). cbn [can_take_str can_take]. destruct (N.ltb_spec (lenN done) d) as [HL|HL]; intro HA.
    + split; [reflexivity|assumption].
    + exfalso; revert HA; apply N.eqb_neq, ne_ArrayLengthError.
Qed.

(** ** Delivering a value *)

Lemma deliver_inv v fs : inv (mk fs) -> can_take fs -> inv (deliver v fs).
Proof.
  unfold inv, mk. cbn [frames root].
  destruct fs as [|[d done [k|]|d done] fs]; cbn [deliver can_take frames root inner_ok];
    try exact (fun _ _ => I).
  - intros (_ & [H1 H2] & HP) _. rewrite lenN_snoc. repeat split; try assumption; lia.
  - intros _ [].
  - intros (_ & [H1 H2] & HP) H. rewrite lenN_snoc. repeat split; try assumption; lia.
Qed.

Lemma deliver_flat v fs : can_take fs -> flatten (deliver v fs) = flatten (mk fs) ++ enc_tree v.
Proof.
  destruct fs as [|[d done [k|]|d done] fs]; cbn [deliver can_take]; intro H.
  - unfold flatten, mk. cbn [root frames rev flat_map]. rewrite app_nil_r. reflexivity.
  - fold (mk (FObj d (done ++ [(k, v)]) None :: fs)). rewrite !flatten_cons, <- app_assoc. f_equal.
    cbn [enc_frame]. rewrite flat_map_app. cbn [flat_map]. unfold enc_pair at 2. cbn [fst snd].
    rewrite !app_nil_r, <- !app_assoc. reflexivity.
  - destruct H.
  - fold (mk (FArr d (done ++ [v]) :: fs)). rewrite !flatten_cons, <- app_assoc. f_equal.
    cbn [enc_frame]. rewrite flat_map_app. cbn [flat_map].
    rewrite !app_nil_r, <- !app_assoc. reflexivity.
Qed.

Lemma deliver_tokens v fs : can_take fs -> stokens (deliver v fs) = stokens (mk fs) ++ tokens v.
Proof.
  destruct fs as [|[d done [k|]|d done] fs]; cbn [deliver can_take]; intro H.
  - unfold stokens, mk. cbn [root frames rev flat_map]. rewrite app_nil_r. reflexivity.
  - fold (mk (FObj d (done ++ [(k, v)]) None :: fs)). rewrite !stokens_cons, <- app_assoc. f_equal.
    cbn [frame_tokens]. rewrite flat_map_app. cbn [flat_map]. unfold pair_tokens at 2. cbn [fst snd].
    rewrite !app_nil_r. cbn [app]. rewrite <- ?app_assoc. reflexivity.
  - destruct H.
  - fold (mk (FArr d (done ++ [v]) :: fs)). rewrite !stokens_cons, <- app_assoc. f_equal.
    cbn [frame_tokens]. rewrite flat_map_app. cbn [flat_map].
    rewrite !app_nil_r. cbn [app]. rewrite <- ?app_assoc. reflexivity.
Qed.

Lemma deliver_wf v fs : swf (mk fs) -> wf_tree v = true -> swf (deliver v fs).
Proof.
  unfold swf, mk. cbn [frames root]. intros [HF _] Hv.
  destruct fs as [|[d done [k|]|d done] fs]; cbn [deliver frames root].
  - split; [constructor|exact Hv].
  - inversion HF as [|? ? HF1 HF']; subst. destruct HF1 as (Hd & Hdone & Hk). split; [|exact I].
    constructor; [|exact HF']. repeat split; try assumption.
    apply Forall_app. split; [assumption|]. constructor; [split; assumption|constructor].
  - split; [assumption|exact I].
  - inversion HF as [|? ? HF1 HF']; subst. destruct HF1 as (Hd & Hdone). split; [|exact I].
    constructor; [|exact HF']. split; [assumption|].
    apply Forall_app. split; [assumption|]. constructor; [assumption|constructor].
Qed.

(** ** Delivering a string (key or value) *)

Lemma deliver_str_inv k fs : inv (mk fs) -> can_take_str fs -> inv (deliver_str k fs).
Proof.
  destruct fs as [|[d done [k'|]|d done] fs]; cbn [deliver_str can_take_str];
    try apply deliver_inv.
  unfold inv, mk. cbn [frames root inner_ok]. intros (_ & [H1 H2] & HP) H. repeat split; assumption.
Qed.

Lemma deliver_str_flat k fs :
  can_take_str fs -> flatten (deliver_str k fs) = flatten (mk fs) ++ enc_str k.
Proof.
  destruct fs as [|[d done [k'|]|d done] fs]; cbn [deliver_str can_take_str];
    try apply (deliver_flat (TStr k)).
  intros _. fold (mk (FObj d done (Some k) :: fs)). rewrite !flatten_cons, <- app_assoc. f_equal.
  cbn [enc_frame]. rewrite !app_nil_r, <- !app_assoc. reflexivity.
Qed.

Lemma deliver_str_tokens k fs :
  can_take_str fs -> stokens (deliver_str k fs) = stokens (mk fs) ++ [KStr k].
Proof.
  destruct fs as [|[d done [k'|]|d done] fs]; cbn [deliver_str can_take_str];
    try apply (deliver_tokens (TStr k)).
  intros _. fold (mk (FObj d done (Some k) :: fs)). rewrite !stokens_cons, <- app_assoc. f_equal.
  cbn [frame_tokens]. rewrite !app_nil_r. cbn [app]. rewrite <- ?app_assoc. reflexivity.
Qed.

Lemma deliver_str_wf k fs : swf (mk fs) -> wf_str k = true -> swf (deliver_str k fs).
Proof.
  destruct fs as [|[d done [k'|]|d done] fs]; cbn [deliver_str];
    try apply (deliver_wf (TStr k)).
  unfold swf, mk. cbn [frames root]. intros [HF _] Hk. split; [|exact I].
  inversion HF as [|? ? HF1 HF']; subst. destruct HF1 as (Hd & Hdone & _).
  constructor; [|exact HF']. repeat split; assumption.
Qed.

(** ** Opening and closing a container *)

Lemma push_inv f fs : inv (mk fs) -> can_take fs -> inner_ok f -> inv (mk (f :: fs)).
Proof.
  unfold inv, mk. cbn [frames root]. intros Hi Hc Hf. split; [reflexivity|]. split; [exact Hf|].
  destruct fs as [|[d done [k|]|d done] fs]; cbn [can_take] in Hc.
  - constructor.
  - destruct Hi as (_ & [H1 H2] & HP). constructor; [split; assumption|assumption].
  - destruct Hc.
  - destruct Hi as (_ & [H1 H2] & HP). constructor; [split; assumption|assumption].
Qed.

Lemma pop_inv fs : Forall parent_ok fs -> inv (mk fs) /\ can_take fs.
Proof.
  unfold inv, mk. cbn [frames root]. intro HP.
  destruct fs as [|[d done [k|]|d done] fs]; [split; exact I|..];
    inversion HP as [|? ? HP1 HP2]; subst; cbn [parent_ok] in HP1; try destruct HP1 as [H1 H2];
    cbn [can_take inner_ok]; repeat split; try assumption; lia.
Qed.

Lemma fin_arr_enc d done : lenN done = d -> enc_tree (TArr done) = enc_frame (FArr d done).
Proof. intros <-. reflexivity. Qed.

Lemma fin_obj_enc d done : lenN done = d -> enc_tree (TObj done) = enc_frame (FObj d done None).
Proof. intros <-. rewrite enc_tree_obj. cbn [enc_frame]. rewrite app_nil_r. reflexivity. Qed.

Lemma fin_arr_tokens d done :
  lenN done = d -> tokens (TArr done) = frame_tokens (FArr d done) ++ [KFinArr].
Proof. intros <-. reflexivity. Qed.

Lemma fin_obj_tokens d done :
  lenN done = d -> tokens (TObj done) = frame_tokens (FObj d done None) ++ [KFinObj].
Proof. intros <-. rewrite tokens_obj. cbn [frame_tokens]. rewrite app_nil_r. reflexivity. Qed.

(** ** One step of the abstract builder *)

Lemma spec_frame it s op : snd (spec_step it s op) <> WR_Ok -> fst (spec_step it s op) = s.
Proof.
  unfold spec_step.
  destruct (offer_of it op);
    try (destruct (N.eqb_spec (may_offer false s) WR_Ok); cbn [fst snd]; congruence);
    try (destruct (N.eqb_spec (may_offer true s) WR_Ok); cbn [fst snd]; congruence).
  - destruct (frames s) as [|[d done [k|]|d done] fs]; try reflexivity.
    destruct (lenN done =? d); cbn [fst snd]; congruence.
  - destruct (frames s) as [|[d done [k|]|d done] fs]; try reflexivity.
    destruct (lenN done =? d); cbn [fst snd]; congruence.
Qed.

Lemma spec_step_props it s op :
  inv s -> op_guard op -> snd (spec_step it s op) = WR_Ok ->
  let s' := fst (spec_step it s op) in
  inv s' /\ flatten s' = flatten s ++ op_bytes it op /\
  exists tk, tok_of_op it op = Some tk /\ stokens s' = stokens s ++ [tk].
Proof.
  intros Hinv Hg. unfold spec_step.
  assert (SC : forall v b tk, enc_tree v = b -> tokens v = [tk] ->
     snd (if may_offer false s =? WR_Ok then (deliver v (frames s), WR_Ok) else (s, may_offer false s)) = WR_Ok ->
     let s' := fst (if may_offer false s =? WR_Ok then (deliver v (frames s), WR_Ok) else (s, may_offer false s)) in
     inv s' /\ flatten s' = flatten s ++ b /\ stokens s' = stokens s ++ [tk]).
  { intros v b tk Hb Htk. destruct (N.eqb_spec (may_offer false s) WR_Ok) as [E|E]; cbn [fst snd]; [intros _|congruence].
    destruct (may_offer_false_ok s Hinv E) as [Hs Hc]. clear E. destruct s as [fs rt]. cbn [frames] in *.
    unfold mk in Hs. injection Hs as ->. fold (mk fs) in *.
    rewrite <- Hb, <- Htk. split; [|split].
    - apply deliver_inv; assumption.
    - apply deliver_flat; assumption.
    - apply deliver_tokens; assumption. }
  assert (ST : forall k,
     snd (if may_offer true s =? WR_Ok then (deliver_str k (frames s), WR_Ok) else (s, may_offer true s)) = WR_Ok ->
     let s' := fst (if may_offer true s =? WR_Ok then (deliver_str k (frames s), WR_Ok) else (s, may_offer true s)) in
     inv s' /\ flatten s' = flatten s ++ enc_str k /\ stokens s' = stokens s ++ [KStr k]).
  { intros k. destruct (N.eqb_spec (may_offer true s) WR_Ok) as [E|E]; cbn [fst snd]; [intros _|congruence].
    destruct (may_offer_true_ok s Hinv E) as [Hs Hc]. clear E. destruct s as [fs rt]. cbn [frames] in *.
    unfold mk in Hs. injection Hs as ->. fold (mk fs) in *.
    split; [|split].
    - apply deliver_str_inv; assumption.
    - apply deliver_str_flat; assumption.
    - apply deliver_str_tokens; assumption. }
  assert (SP : forall f b tk, inner_ok f -> enc_frame f = b -> frame_tokens f = [tk] ->
     snd (if may_offer false s =? WR_Ok then (mk (f :: frames s), WR_Ok) else (s, may_offer false s)) = WR_Ok ->
     let s' := fst (if may_offer false s =? WR_Ok then (mk (f :: frames s), WR_Ok) else (s, may_offer false s)) in
     inv s' /\ flatten s' = flatten s ++ b /\ stokens s' = stokens s ++ [tk]).
  { intros f b tk Hf Hb Htk. destruct (N.eqb_spec (may_offer false s) WR_Ok) as [E|E]; cbn [fst snd]; [intros _|congruence].
    destruct (may_offer_false_ok s Hinv E) as [Hs Hc]. clear E. destruct s as [fs rt]. cbn [frames] in *.
    unfold mk in Hs. injection Hs as ->. fold (mk fs) in *.
    rewrite <- Hb, <- Htk. split; [|split].
    - apply push_inv; assumption.
    - apply flatten_cons.
    - apply stokens_cons. }
  destruct op; cbn [offer_of op_bytes tok_of_op op_guard] in *.
  - intro H. match type of H with context [deliver ?v _] =>
      destruct (SC v _ _ eq_refl eq_refl H) as (A & B & C) end. eauto.
  - intro H. match type of H with context [deliver ?v _] =>
      destruct (SC v _ _ eq_refl eq_refl H) as (A & B & C) end. eauto.
  - intro H. match type of H with context [deliver ?v _] =>
      destruct (SC v _ _ eq_refl eq_refl H) as (A & B & C) end. eauto.
  - intro H. match type of H with context [deliver ?v _] =>
      destruct (SC v _ _ eq_refl eq_refl H) as (A & B & C) end. eauto.
  - intro H. destruct (ST _ H) as (A & B & C). eauto.
  - destruct (nthN it id) as [k|].
    + intro H. destruct (ST _ H) as (A & B & C). eauto.
    + cbn [snd]. intro H. exfalso. revert H. apply N.eqb_neq, ne_IoError.
  - intro H. fold (mk (FObj len [] None :: frames s)) in *.
    destruct (SP (FObj len [] None) (write_map_len (len mod 2 ^ 32)) (KStartObj len)) as (A & B & C);
      try assumption; try reflexivity.
    + cbn [inner_ok]. rewrite lenN_nil. lia.
    + cbn [enc_frame flat_map]. rewrite !app_nil_r. reflexivity.
    + eauto.
  - (* finish object *)
    destruct s as [fs rt]. unfold inv in Hinv. cbn [frames root] in *.
    destruct fs as [|[d done [k|]|d done] fs]; cbn [snd];
      try (intro H; exfalso; revert H; apply N.eqb_neq; first [apply ne_NotAnObject|apply ne_ObjectLengthError]).
    destruct (N.eqb_spec (lenN done) d) as [E|E]; cbn [fst snd];
      [intros _|intro H; exfalso; revert H; apply N.eqb_neq, ne_ObjectLengthError].
    destruct Hinv as (-> & _ & HP). destruct (pop_inv fs HP) as [Hi Hc]. split; [|split].
    + apply deliver_inv; assumption.
    + rewrite deliver_flat by assumption. fold (mk (FObj d done None :: fs)).
      rewrite flatten_cons, (fin_obj_enc d) by assumption. rewrite app_nil_r. reflexivity.
    + eexists; split; [reflexivity|]. rewrite deliver_tokens by assumption.
      fold (mk (FObj d done None :: fs)).
      rewrite stokens_cons, (fin_obj_tokens d) by assumption. rewrite app_assoc. reflexivity.
  - intro H. fold (mk (FArr len [] :: frames s)) in *.
    destruct (SP (FArr len []) (write_array_len (len mod 2 ^ 32)) (KStartArr len)) as (A & B & C);
      try assumption; try reflexivity.
    + cbn [inner_ok]. rewrite lenN_nil. lia.
    + cbn [enc_frame flat_map]. rewrite !app_nil_r. reflexivity.
    + eauto.
  - (* finish array *)
    destruct s as [fs rt]. unfold inv in Hinv. cbn [frames root] in *.
    destruct fs as [|[d done [k|]|d done] fs]; cbn [snd];
      try (intro H; exfalso; revert H; apply N.eqb_neq; first [apply ne_NotAnArray|apply ne_ArrayLengthError]).
    destruct (N.eqb_spec (lenN done) d) as [E|E]; cbn [fst snd];
      [intros _|intro H; exfalso; revert H; apply N.eqb_neq, ne_ArrayLengthError].
    destruct Hinv as (-> & _ & HP). destruct (pop_inv fs HP) as [Hi Hc]. split; [|split].
    + apply deliver_inv; assumption.
    + rewrite deliver_flat by assumption. fold (mk (FArr d done :: fs)).
      rewrite flatten_cons, (fin_arr_enc d) by assumption. rewrite app_nil_r. reflexivity.
    + eexists; split; [reflexivity|]. rewrite deliver_tokens by assumption.
      fold (mk (FArr d done :: fs)).
      rewrite stokens_cons, (fin_arr_tokens d) by assumption. rewrite app_assoc. reflexivity.
Qed.

(** ** Well-formedness of what is built (needs the value ranges of the ABI) *)

Definition op_wf (it : list (list N)) (op : wop) : Prop :=
  match op with
  | OI32 z => (- 2 ^ 31 <= z < 2 ^ 31)%Z
  | OF64 b => b < 2 ^ 64
  | OStr s => wf_str s = true
  | OIStr id => forall s, nthN it id = Some s -> wf_str s = true
  | OStartObj n | OStartArr n => n < 2 ^ 32
  | _ => True
  end.

Lemma forallb_Forall {A} (f : A -> bool) l : Forall (fun x => f x = true) l -> forallb f l = true.
Proof. intro H. apply forallb_forall. apply Forall_forall. exact H. Qed.

Lemma spec_step_wf it s op :
  inv s -> swf s -> op_wf it op -> snd (spec_step it s op) = WR_Ok ->
  swf (fst (spec_step it s op)).
Proof.
  intros Hinv Hwf Hop. unfold spec_step.
  assert (SC : forall v, wf_tree v = true ->
     snd (if may_offer false s =? WR_Ok then (deliver v (frames s), WR_Ok) else (s, may_offer false s)) = WR_Ok ->
     swf (fst (if may_offer false s =? WR_Ok then (deliver v (frames s), WR_Ok) else (s, may_offer false s)))).
  { intros v Hv. destruct (N.eqb_spec (may_offer false s) WR_Ok) as [E|E]; cbn [fst snd]; [intros _|congruence].
    destruct (may_offer_false_ok s Hinv E) as [Hs Hc]. rewrite Hs in Hwf. apply deliver_wf; assumption. }
  assert (ST : forall k, wf_str k = true ->
     snd (if may_offer true s =? WR_Ok then (deliver_str k (frames s), WR_Ok) else (s, may_offer true s)) = WR_Ok ->
     swf (fst (if may_offer true s =? WR_Ok then (deliver_str k (frames s), WR_Ok) else (s, may_offer true s)))).
  { intros k Hk. destruct (N.eqb_spec (may_offer true s) WR_Ok) as [E|E]; cbn [fst snd]; [intros _|congruence].
    destruct (may_offer_true_ok s Hinv E) as [Hs Hc]. rewrite Hs in Hwf. apply deliver_str_wf; assumption. }
  assert (SP : forall f, frame_wf f ->
     snd (if may_offer false s =? WR_Ok then (mk (f :: frames s), WR_Ok) else (s, may_offer false s)) = WR_Ok ->
     swf (fst (if may_offer false s =? WR_Ok then (mk (f :: frames s), WR_Ok) else (s, may_offer false s)))).
  { intros f Hf. destruct (N.eqb_spec (may_offer false s) WR_Ok) as [E|E]; cbn [fst snd]; [intros _|congruence].
    destruct Hwf as [HF _]. split; [|exact I]. cbn [mk frames]. constructor; assumption. }
  destruct op; cbn [offer_of op_wf] in *.
  - apply SC. reflexivity.
  - apply SC. reflexivity.
  - apply SC. cbn [wf_tree].
    assert ((2 ^ 31 = 2147483648)%Z) as E31 by reflexivity.
    assert ((2 ^ 63 = 9223372036854775808)%Z) as E63 by reflexivity.
    assert ((2 ^ 64 = 18446744073709551616)%Z) as E64 by reflexivity.
    rewrite E31 in Hop. rewrite E63, E64. lia.
  - apply SC. cbn [wf_tree]. apply N.ltb_lt. exact Hop.
  - apply ST. exact Hop.
  - destruct (nthN it id) as [k|].
    + apply ST. apply Hop. reflexivity.
    + cbn [snd]. intro H. exfalso. revert H. apply N.eqb_neq, ne_IoError.
  - apply (SP (FObj len [] None)). cbn [frame_wf]. repeat split; [exact Hop|constructor].
  - destruct s as [fs rt]. unfold inv in Hinv. cbn [frames root] in *.
    destruct fs as [|[d done [k|]|d done] fs]; cbn [snd];
      try (intro H; exfalso; revert H; apply N.eqb_neq; first [apply ne_NotAnObject|apply ne_ObjectLengthError]).
    destruct (N.eqb_spec (lenN done) d) as [E|E]; cbn [fst snd];
      [intros _|intro H; exfalso; revert H; apply N.eqb_neq, ne_ObjectLengthError].
    destruct Hwf as [HF _]. cbn [frames] in HF. inversion HF as [|? ? HF1 HF']; subst.
    destruct HF1 as (Hd & Hdone & _).
    apply deliver_wf; [split; [exact HF'|exact I]|].
    cbn [wf_tree]. apply andb_true_intro. split; [apply N.ltb_lt; exact Hd|].
    apply forallb_Forall. eapply Forall_impl; [|exact Hdone].
    intros [k v] [Hk Hv]. cbn [fst snd] in *. rewrite Hk, Hv. reflexivity.
  - apply (SP (FArr len [])). cbn [frame_wf]. split; [exact Hop|constructor].
  - destruct s as [fs rt]. unfold inv in Hinv. cbn [frames root] in *.
    destruct fs as [|[d done [k|]|d done] fs]; cbn [snd];
      try (intro H; exfalso; revert H; apply N.eqb_neq; first [apply ne_NotAnArray|apply ne_ArrayLengthError]).
    destruct (N.eqb_spec (lenN done) d) as [E|E]; cbn [fst snd];
      [intros _|intro H; exfalso; revert H; apply N.eqb_neq, ne_ArrayLengthError].
    destruct Hwf as [HF _]. cbn [frames] in HF. inversion HF as [|? ? HF1 HF']; subst.
    destruct HF1 as (Hd & Hdone).
    apply deliver_wf; [split; [exact HF'|exact I]|].
    cbn [wf_tree]. apply andb_true_intro. split; [apply N.ltb_lt; exact Hd|].
    apply forallb_Forall. exact Hdone.
Qed.

(** * Reachable states: any finite sequence of write operations and interner calls from [init] *)

Notation accepted_tok := (accepted_tok W trap).

(** [reach P c s tk]: [c] is reached from [init] by operations each satisfying the precondition
    [P] (in the context it is issued in); [s] is the abstract document built by the same
    operations and [tk] the tokens of exactly the accepted ones, in call order. *)
Inductive reach (P : wctx -> wop -> Prop) : wctx -> sstate -> list token -> Prop :=
| reach_init : reach P init sinit []
| reach_intern c s tk str : reach P c s tk -> reach P (fst (intern c str)) s tk
| reach_op c s tk op :
    reach P c s tk -> P c op ->
    reach P (fst (step c op)) (fst (spec_step (interned c) s op)) (tk ++ accepted_tok c op).

(** Preconditions: the no-overflow guard and valid interned ids; for C02 also the ABI's ranges. *)
Definition op_ok (c : wctx) (op : wop) : Prop := op_guard op /\ op_ids (interned c) op.
Definition op_ok_wf (c : wctx) (op : wop) : Prop := op_ok c op /\ op_wf (interned c) op.

(** The refinement relation. *)
Definition R (c : wctx) (s : sstate) (tk : list token) : Prop :=
  (wstate c, wstack c) = abs_state s /\ out c = flatten s /\ inv s /\ tk = stokens s.

Lemma R_step c s tk op :
  R c s tk -> op_ok c op ->
  snd (step c op) = res_of_code (snd (spec_step (interned c) s op)) /\
  R (fst (step c op)) (fst (spec_step (interned c) s op)) (tk ++ accepted_tok c op).
Proof.
  intros (Habs & Hout & Hinv & Htk) [Hg Hid].
  destruct (abs_step c s op Habs Hinv Hg Hid) as [Hst Habs'].
  split; [exact Hst|].
  unfold accepted_tok.
  destruct (N.eqb_spec (snd (spec_step (interned c) s op)) WR_Ok) as [E|E].
  - assert (Hok : snd (step c op) = WOk) by (rewrite Hst; apply res_of_code_ok; exact E).
    destruct (step_out c op Hok) as [Ho _].
    destruct (spec_step_props (interned c) s op Hinv Hg E) as (Hi' & Hf' & tk0 & Ht0 & Htk').
    rewrite Hok, Ht0. repeat split; try assumption.
    + rewrite Ho, Hf', Hout. reflexivity.
    + rewrite Htk', Htk. reflexivity.
  - assert (Hno : snd (step c op) <> WOk).
    { rewrite Hst. intro H. apply res_of_code_ok in H. contradiction. }
    rewrite (C03_frame c op Hno), (spec_frame _ _ _ E).
    destruct (snd (step c op)); [contradiction| |]; rewrite app_nil_r; repeat split; assumption.
Qed.

Section Reach.
Variable P : wctx -> wop -> Prop.
Hypothesis P_ok : forall c op, P c op -> op_ok c op.

Theorem reach_R c s tk : reach P c s tk -> R c s tk.
Proof.
  induction 1 as [|c s tk str H IH|c s tk op H IH HP].
  - repeat split.
  - exact IH.
  - apply R_step; [exact IH|apply P_ok; exact HP].
Qed.

(** (1) every call returns exactly the documented status *)
Theorem C03_status c s tk op :
  reach P c s tk -> P c op ->
  snd (step c op) = res_of_code (snd (spec_step (interned c) s op)).
Proof. intros H HP. apply (R_step c s tk op); [apply reach_R; exact H|apply P_ok; exact HP]. Qed.

(** in particular no panic site is reached *)
Corollary C03_no_panic c s tk op : reach P c s tk -> P c op -> forall site, snd (step c op) <> WPanic site.
Proof.
  intros H HP site. rewrite (C03_status c s tk op H HP). unfold res_of_code.
  destruct (_ =? _); discriminate.
Qed.

(** (3) the output is the byte image of the abstract document *)
Theorem C03_out c s tk : reach P c s tk -> out c = flatten s.
Proof. intro H. apply (reach_R c s tk H). Qed.

(** (4) completeness *)
Lemma st_inner_not_end f : st_inner f <> End.
Proof. destruct f as [d done [k|]|d done]; discriminate. Qed.

Theorem C03_complete c s tk :
  reach P c s tk ->
  (wstate c = End <-> spec_complete s) /\
  (spec_complete s -> finalize c = (WR_Ok, out c)) /\
  (~ spec_complete s -> finalize c = (WR_ValueNotFinished, [])).
Proof.
  intro H. destruct (reach_R c s tk H) as (Habs & _).
  assert (E : wstate c = End <-> spec_complete s).
  { assert (Hs : wstate c = fst (abs_state s)) by (rewrite <- Habs; reflexivity). rewrite Hs.
    unfold abs_state, spec_complete. destruct (frames s) as [|f fs]; cbn [fst].
    - destruct (root s); split; intro H0; try discriminate; try (split; congruence).
      destruct H0 as [_ H0]. congruence.
    - split; intro H0; [exfalso; exact (st_inner_not_end f H0)|destruct H0; discriminate]. }
  split; [exact E|]. unfold finalize. split; intro HC.
  - apply E in HC. rewrite HC. reflexivity.
  - destruct (wstate c) eqn:Ew; try reflexivity. exfalso. apply HC, E. reflexivity.
Qed.

End Reach.

(** (5) C02: a complete output is exactly the value that was written *)
Theorem reach_swf c s tk : reach op_ok_wf c s tk -> swf s.
Proof.
  induction 1 as [|c s tk str H IH|c s tk op H IH [HP HW]].
  - split; [constructor|exact I].
  - exact IH.
  - destruct (reach_R op_ok_wf (fun _ _ H => proj1 H) c s tk H) as (_ & _ & Hinv & _).
    destruct (N.eqb_spec (snd (spec_step (interned c) s op)) WR_Ok) as [E|E].
    + apply spec_step_wf; assumption.
    + rewrite spec_frame by exact E. exact IH.
Qed.

Theorem C02_main c s tk :
  reach op_ok_wf c s tk -> spec_complete s ->
  exists t, root s = Some t /\ out c = enc_tree t /\ wf_tree t = true /\
            dec_tree (S (length (out c))) (out c) 0 = Some (t, lenN (out c)) /\
            tk = tokens t.
Proof.
  intros H [Hf Hr].
  destruct (reach_R op_ok_wf (fun _ _ H => proj1 H) c s tk H) as (_ & Hout & _ & Htk).
  destruct (reach_swf c s tk H) as [_ Hw].
  destruct (root s) as [t|] eqn:Er; [|congruence].
  assert (Ho : out c = enc_tree t).
  { rewrite Hout. unfold flatten. rewrite Er, Hf. cbn [rev flat_map]. apply app_nil_r. }
  exists t. repeat split; try assumption.
  - rewrite Ho. apply dec_enc_whole. exact Hw.
  - rewrite Htk. unfold stokens. rewrite Er, Hf. cbn [rev flat_map]. apply app_nil_r.
Qed.

(** * The decidable scope checks and the executable joint run *)

Lemma op_guardb_ok op : op_guardb W op = true -> op_guard op.
Proof. destruct op; cbn [op_guardb op_guard]; intro H; try exact I; apply N.ltb_lt; exact H. Qed.

Lemma op_idsb_ok it op : op_idsb it op = true -> op_ids it op.
Proof. destruct op; cbn [op_idsb op_ids]; intro H; try exact I; apply N.ltb_lt; exact H. Qed.

Lemma op_wfb_ok it op : op_wfb it op = true -> op_wf it op.
Proof.
  destruct op; cbn [op_wfb op_wf]; intro H; try exact I; try (apply N.ltb_lt; exact H); try exact H.
  - apply andb_prop in H. destruct H as [H1 H2]. apply Z.leb_le in H1. apply Z.ltb_lt in H2. split; assumption.
  - intros s Hs. rewrite Hs in H. exact H.
Qed.

Lemma exec_reach (wf : bool) acts : forall c s tk,
  reach (if wf then op_ok_wf else op_ok) c s tk ->
  acts_okb_from W trap wf acts c = true ->
  let '(c', s', tk') := exec_from W trap acts c s tk in
  reach (if wf then op_ok_wf else op_ok) c' s' tk'.
Proof.
  induction acts as [|[op|str] acts IH]; intros c s tk H Hok; cbn [exec_from acts_okb_from] in *.
  - exact H.
  - apply andb_prop in Hok. destruct Hok as [Hok Hr]. apply andb_prop in Hok. destruct Hok as [Hok H3].
    apply andb_prop in Hok. destruct Hok as [H1 H2].
    apply IH; [|exact Hr]. apply reach_op; [exact H|].
    apply op_guardb_ok in H1. apply op_idsb_ok in H2.
    destruct wf; [split; [split; assumption|apply op_wfb_ok; exact H3]|split; assumption].
  - apply IH; [|exact Hok]. apply reach_intern. exact H.
Qed.

Corollary exec_reach_init (wf : bool) acts :
  acts_okb W trap wf acts = true ->
  let '(c', s', tk') := exec W trap acts in
  reach (if wf then op_ok_wf else op_ok) c' s' tk'.
Proof. intro H. apply exec_reach; [apply reach_init|exact H]. Qed.

(** [Writer.run] is the joint run without interner calls. *)
Lemma run_exec ops :
  fst (run W trap ops) = fst (fst (exec W trap (map AOp ops))).
Proof.
  unfold run, exec.
  assert (G : forall c rs s tk,
    fst (fold_left (fun '(c, rs) op => let '(c', r) := step c op in (c', rs ++ [r])) ops (c, rs))
    = fst (fst (exec_from W trap (map AOp ops) c s tk))).
  { induction ops as [|op ops IH]; intros c rs s tk; cbn [fold_left map exec_from].
    - reflexivity.
    - destruct (step c op) as [c' r] eqn:E. cbn [fst]. apply IH. }
  apply G.
Qed.

End WP.

(** * The guard at the two pointer widths *)

Definition len_below (b : N) (op : wop) : Prop :=
  match op with OStartObj l | OStartArr l => l < b | _ => True end.

Lemma op_guard_w64 op : len_below (2 ^ 32) op -> op_guard 64 op.
Proof.
  assert (E32 : 2 ^ 32 = 4294967296) by reflexivity.
  assert (E64 : 2 ^ 64 = 18446744073709551616) by reflexivity.
  destruct op; cbn [len_below op_guard]; rewrite ?E32, ?E64; intro H; try exact I; lia.
Qed.

Lemma op_guard_w32 op : len_below (2 ^ 31) op -> op_guard 32 op.
Proof.
  assert (E31 : 2 ^ 31 = 2147483648) by reflexivity.
  assert (E32 : 2 ^ 32 = 4294967296) by reflexivity.
  destruct op; cbn [len_below op_guard]; rewrite ?E31, ?E32; intro H; try exact I; lia.
Qed.
