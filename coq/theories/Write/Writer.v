(** Model of provider/src/write/state.rs (State, ObjectState, ArrayState) and provider/src/write.rs
    (Context::write_* / start_* / finish_* / allocate_utf8_str, finalize), transcribed by hand:
    same order of checks and mutations, explicit pointer width [W] and overflow mode [trap]
    (debug builds panic on overflow, release builds wrap).  Status numbers come from the
    regenerated SFV.Gen.CodesGen.  A string write is header + payload in one step (the zero
    placeholder followed by the glue's copy). *)
From Coq Require Import NArith ZArith List Bool.
From SFV Require Import Base.Bytes Msgpack.Rmp Gen.CodesGen.
Import ListNotations.
Open Scope N_scope.

Inductive state :=
| Start
| Object (length num_inserted : N)
| Array (length num_inserted : N)
| End.

Definition state_eqb (a b : state) : bool :=
  match a, b with
  | Start, Start | End, End => true
  | Object l1 n1, Object l2 n2 | Array l1 n1, Array l2 n2 => (l1 =? l2) && (n1 =? n2)
  | _, _ => false
  end.

Record wctx := {
  wstate : state;
  wstack : list state;          (* write_parent_state_stack, top first *)
  out : list N;                 (* output_bytes *)
  interned : list (list N)      (* the interner's strings, by id *)
}.

Definition init : wctx := {| wstate := Start; wstack := []; out := []; interned := [] |}.

Inductive wres := WOk | WErr (code : N) | WPanic (site : N).

(** Panic sites *)
Definition P_mul_overflow : N := 1.      (* state.rs finish_object: length * 2 *)
Definition P_add_overflow : N := 2.      (* num_inserted += 1 *)
Definition P_interner_index : N := 3.    (* string_interner.rs get: spans[id] *)

Section W.
Variable W : N.          (* usize::BITS *)
Variable trap : bool.    (* overflow-checks on (debug) *)

Definition add_w (a b : N) : option N :=
  let r := a + b in if r <? 2 ^ W then Some r else if trap then None else Some (r mod 2 ^ W).
Definition mul_w (a b : N) : option N :=
  let r := a * b in if r <? 2 ^ W then Some r else if trap then None else Some (r mod 2 ^ W).

(** A state-machine step result: new state (and stack) plus status; [None] = panic (state as left). *)
Inductive sres := SOk (s : state) | SErr (code : N) | SPanic (site : N).

(** ObjectState::write_string *)
Definition obj_write_string (len ins : N) : sres :=
  if len <=? ins / 2 then SErr WR_ObjectLengthError
  else match add_w ins 1 with Some i => SOk (Object len i) | None => SPanic P_add_overflow end.
(** ObjectState::write_non_string_value *)
Definition obj_write_non_string (len ins : N) : sres :=
  if ins mod 2 =? 0 then SErr WR_ExpectedKey
  else match add_w ins 1 with Some i => SOk (Object len i) | None => SPanic P_add_overflow end.
(** ArrayState::write_value *)
Definition arr_write_value (len ins : N) : sres :=
  if len <=? ins then SErr WR_ArrayLengthError
  else match add_w ins 1 with Some i => SOk (Array len i) | None => SPanic P_add_overflow end.

(** State::write_string *)
Definition st_write_string (s : state) : sres :=
  match s with
  | Start => SOk End
  | Object l i => obj_write_string l i
  | Array l i => arr_write_value l i
  | End => SErr WR_ValueAlreadyWritten
  end.
(** State::write_non_string_scalar *)
Definition st_write_non_string_scalar (s : state) : sres :=
  match s with
  | Start => SOk End
  | Object l i => obj_write_non_string l i
  | Array l i => arr_write_value l i
  | End => SErr WR_ValueAlreadyWritten
  end.

(** State::start_object / start_array: [mk] builds the child state. Returns new (state, stack). *)
Definition st_start (mk : state) (s : state) (stack : list state) : sres * list state :=
  match s with
  | Start => (SOk mk, stack)
  | Object l i =>
      match obj_write_non_string l i with
      | SOk parent => (SOk mk, parent :: stack)       (* swap_and_push *)
      | r => (r, stack)
      end
  | Array l i =>
      match arr_write_value l i with
      | SOk parent => (SOk mk, parent :: stack)
      | r => (r, stack)
      end
  | End => (SErr WR_ValueAlreadyWritten, stack)
  end.

Definition pop_or_end (stack : list state) : state * list state :=
  match stack with [] => (End, []) | p :: t => (p, t) end.

(** State::finish_object *)
Definition st_finish_object (s : state) (stack : list state) : sres * list state :=
  match s with
  | Object l i =>
      (* `!num_inserted.is_multiple_of(2) || num_inserted / 2 != length` (no multiplication since the repair of F8) *)
      if negb (i mod 2 =? 0) || negb (i / 2 =? l) then (SErr WR_ObjectLengthError, stack)
      else let '(p, t) := pop_or_end stack in (SOk p, t)
  | _ => (SErr WR_NotAnObject, stack)
  end.
(** State::finish_array *)
Definition st_finish_array (s : state) (stack : list state) : sres * list state :=
  match s with
  | Array l i =>
      if negb (i =? l) then (SErr WR_ArrayLengthError, stack)
      else let '(p, t) := pop_or_end stack in (SOk p, t)
  | _ => (SErr WR_NotAnArray, stack)
  end.

(** The ten write operations of the ABI (provider side). *)
Inductive wop :=
| OBool (v : N)            (* u32; non-zero = true *)
| ONull
| OI32 (z : Z)
| OF64 (bits : N)
| OStr (s : list N)        (* output_new_utf8_str(len) + the glue's copy *)
| OIStr (id : N)           (* output_new_interned_utf8_str(id) *)
| OStartObj (len : N)
| OFinObj
| OStartArr (len : N)
| OFinArr.

Definition commit (c : wctx) (r : sres) (stack : list state) (bytes : list N) : wctx * wres :=
  match r with
  | SOk s => ({| wstate := s; wstack := stack; out := out c ++ bytes; interned := interned c |}, WOk)
  | SErr code => (c, WErr code)
  | SPanic site => (c, WPanic site)
  end.

Definition write_str (c : wctx) (s : list N) : wctx * wres :=
  commit c (st_write_string (wstate c)) (wstack c) (write_str_len (lenN s mod 2 ^ 32) ++ s).

Definition step (c : wctx) (op : wop) : wctx * wres :=
  match op with
  | OBool v => commit c (st_write_non_string_scalar (wstate c)) (wstack c) (write_bool (negb (v =? 0)))
  | ONull => commit c (st_write_non_string_scalar (wstate c)) (wstack c) write_nil
  | OI32 z => commit c (st_write_non_string_scalar (wstate c)) (wstack c) (write_sint z)
  | OF64 b => commit c (st_write_non_string_scalar (wstate c)) (wstack c) (write_f64 b)
  | OStr s => write_str c s
  | OIStr id =>
      match nthN (interned c) id with
      | None => (c, WPanic P_interner_index)
      | Some s => write_str c s
      end
  | OStartObj len =>
      let '(r, st) := st_start (Object len 0) (wstate c) (wstack c) in
      commit c r st (write_map_len (len mod 2 ^ 32))
  | OFinObj => let '(r, st) := st_finish_object (wstate c) (wstack c) in commit c r st []
  | OStartArr len =>
      let '(r, st) := st_start (Array len 0) (wstate c) (wstack c) in
      commit c r st (write_array_len (len mod 2 ^ 32))
  | OFinArr => let '(r, st) := st_finish_array (wstate c) (wstack c) in commit c r st []
  end.

(** shopify_function_output_finalize_and_return_msgpack_bytes (native). *)
Definition finalize (c : wctx) : N * list N :=
  if state_eqb (wstate c) End then (WR_Ok, out c) else (WR_ValueNotFinished, []).

(** shopify_function_intern_utf8_str(len) + the glue's copy: returns the fresh id. *)
Definition intern (c : wctx) (s : list N) : wctx * N :=
  ({| wstate := wstate c; wstack := wstack c; out := out c; interned := interned c ++ [s] |}, lenN (interned c)).

Definition run (ops : list wop) : wctx * list wres :=
  fold_left (fun '(c, rs) op => let '(c', r) := step c op in (c', rs ++ [r])) ops (init, []).

End W.
