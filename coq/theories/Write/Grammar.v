(** SPEC, declarative reading: a document is the token sequence of a tree; the accepted write
    calls, in call order, are its tokens. (Executable.) *)
From Coq Require Import NArith ZArith List Bool.
From SFV Require Import Base.Bytes Msgpack.Tree Write.Writer.
Import ListNotations.
Open Scope N_scope.

Inductive scalar := SNull | SBool (b : bool) | SInt (z : Z) | SF64 (bits : N).

Inductive token :=
| KScalar (x : scalar)
| KStr (s : list N)
| KStartObj (n : N)
| KFinObj
| KStartArr (n : N)
| KFinArr.

Fixpoint tokens (t : tree) : list token :=
  match t with
  | TNull => [KScalar SNull]
  | TBool b => [KScalar (SBool b)]
  | TInt z => [KScalar (SInt z)]
  | TF64 b => [KScalar (SF64 b)]
  | TStr s => [KStr s]
  | TArr l => KStartArr (lenN l) :: flat_map tokens l ++ [KFinArr]
  | TObj l =>
      KStartObj (lenN l)
      :: flat_map (fun kv => let '(k, v) := kv in KStr k :: tokens v) l ++ [KFinObj]
  end.

(** The token a write operation stands for ([None]: interned id out of range). *)
Definition tok_of_op (interned : list (list N)) (op : wop) : option token :=
  match op with
  | OBool v => Some (KScalar (SBool (negb (v =? 0))))
  | ONull => Some (KScalar SNull)
  | OI32 z => Some (KScalar (SInt z))
  | OF64 b => Some (KScalar (SF64 b))
  | OStr s => Some (KStr s)
  | OIStr id => match nthN interned id with Some s => Some (KStr s) | None => None end
  | OStartObj n => Some (KStartObj n)
  | OFinObj => Some KFinObj
  | OStartArr n => Some (KStartArr n)
  | OFinArr => Some KFinArr
  end.

(** A token sequence can still be completed to a document. *)
Definition viable (ts : list token) : Prop := exists t rest, tokens t = ts ++ rest.
