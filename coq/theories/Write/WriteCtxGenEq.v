(** The writer model over which C02/C03 are proved ([Writer.step]) IS the Rust code of provider/src/write.rs:
    every method of [impl Context] -- write_bool / write_nil / write_i32 / write_f64 / allocate_utf8_str /
    start_object / finish_object / start_array / finish_array / write_interned_utf8_str -- regenerated from the
    source by translator T8 into Gen/WriteCtxGen.v (calling the regenerated state machine Gen/StateGen.v, the
    regenerated interner Gen/InternGen.v and the rmp encoders of Msgpack/Rmp.v), does what the model's [step]
    does on the related context: same status; on acceptance the related new context (state, stack, output
    bytes, interner); on rejection the context exactly as it was; or both panic.

    Hand-written parts that remain: the exported wrappers ([bool != 0], the packing of (status, pointer)), the
    rmp 0.8.15 encoders (Msgpack/Rmp.v) and, for a string write, the glue's copy into the returned destination
    ([apply_copy] below: exactly [vec_write] at the pointer handed back). *)
From Coq Require Import NArith ZArith List Bool Lia.
From SFV Require Import Base.Bytes Base.BytesProofs Base.RsPrelude Gen.CodesGen Msgpack.Rmp Write.Writer
  Gen.StateGen Write.StateGenEq Ctx.Interner Ctx.InternerProofs Gen.InternGen Ctx.InternGenEq Gen.WriteCtxGen.
From SFV Require NanBox.NanBoxProofs.
Import ListNotations.
Open Scope N_scope.

Definition unconv_i (g : StringInterner) : interner :=
  {| ibuf := StringInterner_buf g; spans := StringInterner_spans g |}.

(** the generated context and the model's context describe the same writer *)
Record R (gc : Context) (c : wctx) : Prop := {
  R_state : StateGenEq.conv (Context_write_state gc) = wstate c;
  R_stack : conv_stack (Context_write_parent_state_stack gc) = wstack c;
  R_out : Context_output_bytes gc = out c;
  R_int : wf_i (unconv_i (Context_string_interner gc)) (interned c)
}.

Definition agree_ctx (gc : Context) (c : wctx) (g : gres (Context * N)) (h : wctx * wres) : Prop :=
  match g, h with
  | GOk (gc', code), (c', WOk) => code = WR_Ok /\ R gc' c'
  | GOk (gc', code), (c', WErr code') => code = code' /\ code <> WR_Ok /\ gc' = gc /\ c' = c
  | GPanic _, (_, WPanic _) => True
  | _, _ => False
  end.

Lemma vec_overwrite_same b : forall off s, vec_overwrite b off s = overwrite b off s.
Proof. induction b as [|x t IH]; intros off s; cbn [vec_overwrite overwrite]; [reflexivity|].
  destruct (off =? 0); [destruct s; [reflexivity|rewrite IH; reflexivity]|rewrite IH; reflexivity]. Qed.

Lemma offsets_bound ss : forall o0 id o l, nthN (offsets o0 ss) id = Some (o, l) -> o + l <= o0 + lenN (concat ss).
Proof.
  induction ss as [|s t IH]; intros o0 id o l E; cbn [offsets nthN concat] in E |- *; [discriminate|].
  rewrite lenN_app. destruct (id =? 0).
  - injection E as <- <-. lia.
  - apply IH in E. lia.
Qed.

Section W.
Variable W : N.
Variable trap : bool.

Ltac use_state H :=
  match goal with
  | |- context [gbind ?g _] =>
      match type of H with
      | agree1 _ ?g' ?h' => destruct g as [[s' code]|]; destruct h'; cbn [agree1] in H; try contradiction; cbn [gbind]
      | agree2 _ _ ?g' ?h' => destruct g as [[[s' stk'] code]|]; destruct h' as [[?|?|?] hstk]; cbn [agree2] in H; try contradiction; cbn [gbind]
      end
  end.

(** scalar writes: [bytes] is what the encoder appends *)
Lemma scalar_eq gc c bytes :
  R gc c ->
  agree_ctx gc c
    (gbind (State_write_non_string_scalar W trap (Context_write_state gc)) (fun '(o, r) =>
       let self := Context_set_write_state gc o in
       if negb (r =? WR_Ok) then GOk (self, r)
       else GOk (Context_set_output_bytes self (Context_output_bytes self ++ bytes), WR_Ok)))
    (commit c (st_write_non_string_scalar W trap (wstate c)) (wstack c) bytes).
Proof.
  intros [Hs Hk Ho Hi]. destruct gc as [ws stk ob si]. cbn [Context_write_state Context_write_parent_state_stack Context_output_bytes Context_string_interner] in *.
  pose proof (gen_write_non_string_scalar_eq W trap ws) as H. rewrite <- Hs.
  use_state H.
  - destruct H as [-> Hc]. change (negb (WR_Ok =? WR_Ok)) with false. cbv iota. cbn [commit agree_ctx]. split; [reflexivity|].
    constructor; cbn; [exact Hc|exact Hk|rewrite Ho; reflexivity|exact Hi].
  - destruct H as (-> & Hne & ->). rewrite (wr_ne_eqb _ Hne). cbn [negb commit agree_ctx]. repeat split; assumption.
  - cbn [commit agree_ctx]. exact I.
Qed.

Theorem gen_ctx_write_bool gc c v : R gc c ->
  agree_ctx gc c (Context_write_bool W trap gc (negb (v =? 0))) (step W trap c (OBool v)).
Proof. intros HR. exact (scalar_eq gc c _ HR). Qed.

Theorem gen_ctx_write_nil gc c : R gc c ->
  agree_ctx gc c (Context_write_nil W trap gc) (step W trap c ONull).
Proof. intros HR. exact (scalar_eq gc c _ HR). Qed.

Theorem gen_ctx_write_i32 gc c z : R gc c ->
  agree_ctx gc c (Context_write_i32 W trap gc z) (step W trap c (OI32 z)).
Proof. intros HR. exact (scalar_eq gc c _ HR). Qed.

Theorem gen_ctx_write_f64 gc c b : R gc c ->
  agree_ctx gc c (Context_write_f64 W trap gc b) (step W trap c (OF64 b)).
Proof. intros HR. exact (scalar_eq gc c _ HR). Qed.

(** containers *)
Lemma start_eq gc c len (gs : State -> N -> list State -> gres (State * list State * N)) (mk : state) bytes :
  (forall s k, agree2 s k (gs s len k) (st_start W trap mk (StateGenEq.conv s) (conv_stack k))) ->
  R gc c ->
  agree_ctx gc c
    (gbind (gs (Context_write_state gc) len (Context_write_parent_state_stack gc)) (fun '(o1, o2, r) =>
       let self := Context_set_write_state gc o1 in
       let self := Context_set_write_parent_state_stack self o2 in
       if negb (r =? WR_Ok) then GOk (self, r)
       else GOk (Context_set_output_bytes self (Context_output_bytes self ++ bytes), WR_Ok)))
    (let '(r, st) := st_start W trap mk (wstate c) (wstack c) in commit c r st bytes).
Proof.
  intros Hgs [Hs Hk Ho Hi]. destruct gc as [ws stk ob si]. cbn [Context_write_state Context_write_parent_state_stack Context_output_bytes Context_string_interner] in *.
  pose proof (Hgs ws stk) as H. rewrite <- Hs, <- Hk.
  use_state H.
  - destruct H as (-> & Hc & Hst). change (negb (WR_Ok =? WR_Ok)) with false. cbv iota. cbn [commit agree_ctx]. split; [reflexivity|].
    constructor; cbn; [exact Hc|exact Hst|rewrite Ho; reflexivity|exact Hi].
  - destruct H as (-> & Hne & -> & -> & ->). rewrite (wr_ne_eqb _ Hne). cbn [negb commit agree_ctx]. repeat split; assumption.
  - cbn [commit agree_ctx]. exact I.
Qed.

Theorem gen_ctx_start_object gc c len : R gc c ->
  agree_ctx gc c (Context_start_object W trap gc len) (step W trap c (OStartObj len)).
Proof.
  intros HR. unfold Context_start_object, step. unfold u_cast.
  exact (start_eq gc c len (State_start_object W trap) (Object len 0) _ (fun s k => gen_start_object_eq W trap s len k) HR).
Qed.

Theorem gen_ctx_start_array gc c len : R gc c ->
  agree_ctx gc c (Context_start_array W trap gc len) (step W trap c (OStartArr len)).
Proof.
  intros HR. unfold Context_start_array, step. unfold u_cast.
  exact (start_eq gc c len (State_start_array W trap) (Array len 0) _ (fun s k => gen_start_array_eq W trap s len k) HR).
Qed.

Lemma finish_eq gc c (gf : State -> list State -> gres (State * list State * N)) (hf : state -> list state -> sres * list state) :
  (forall s k, agree2 s k (gf s k) (hf (StateGenEq.conv s) (conv_stack k))) ->
  R gc c ->
  agree_ctx gc c
    (gbind (gf (Context_write_state gc) (Context_write_parent_state_stack gc)) (fun '(o1, o2, r) =>
       let self := Context_set_write_state gc o1 in
       let self := Context_set_write_parent_state_stack self o2 in
       if negb (r =? WR_Ok) then GOk (self, r) else GOk (self, WR_Ok)))
    (let '(r, st) := hf (wstate c) (wstack c) in commit c r st []).
Proof.
  intros Hgf [Hs Hk Ho Hi]. destruct gc as [ws stk ob si]. cbn [Context_write_state Context_write_parent_state_stack Context_output_bytes Context_string_interner] in *.
  pose proof (Hgf ws stk) as H. rewrite <- Hs, <- Hk.
  use_state H.
  - destruct H as (-> & Hc & Hst). change (negb (WR_Ok =? WR_Ok)) with false. cbv iota. cbn [commit agree_ctx]. split; [reflexivity|].
    constructor; cbn; [exact Hc|exact Hst|rewrite app_nil_r; exact Ho|exact Hi].
  - destruct H as (-> & Hne & -> & -> & ->). rewrite (wr_ne_eqb _ Hne). cbn [negb commit agree_ctx]. repeat split; assumption.
  - cbn [commit agree_ctx]. exact I.
Qed.

Theorem gen_ctx_finish_object gc c : R gc c ->
  agree_ctx gc c (Context_finish_object W trap gc) (step W trap c OFinObj).
Proof. intros HR. exact (finish_eq gc c _ _ (gen_finish_object_eq W trap) HR). Qed.

Theorem gen_ctx_finish_array gc c : R gc c ->
  agree_ctx gc c (Context_finish_array W trap gc) (step W trap c OFinArr).
Proof. intros HR. exact (finish_eq gc c _ _ (gen_finish_array_eq W trap) HR). Qed.

(** strings: the provider writes the header and [len] zero bytes and hands back the destination; the glue then
    copies the string there *)
Definition apply_copy (gc : Context) (dst : option N) (s : list N) : gres Context :=
  gbind (vec_write (Context_output_bytes gc) dst s) (fun b => GOk (Context_set_output_bytes gc b)).

Definition agree_str (gc : Context) (c : wctx) (s : list N) (g : gres (Context * (N * option N))) (h : wctx * wres) : Prop :=
  match g, h with
  | GOk (gc', (code, dst)), (c', WOk) =>
      code = WR_Ok /\ exists gc'', apply_copy gc' dst s = GOk gc'' /\ R gc'' c'
  | GOk (gc', (code, dst)), (c', WErr code') => code = code' /\ code <> WR_Ok /\ gc' = gc /\ c' = c /\ dst = None
  | GPanic _, (_, WPanic _) => True
  | _, _ => False
  end.

Lemma takeN_lenN (l : list N) : takeN l (lenN l) = l.
Proof. apply takeN_all. Qed.

Theorem gen_ctx_allocate_utf8_str gc c s : R gc c ->
  lenN (out c) + 5 + lenN s < 2 ^ W ->
  agree_str gc c s (Context_allocate_utf8_str W trap gc (lenN s)) (step W trap c (OStr s)).
Proof.
  intros [Hs Hk Ho Hi] Hfit. destruct gc as [ws stk ob si]. cbn [Context_write_state Context_write_parent_state_stack Context_output_bytes Context_string_interner] in *.
  unfold Context_allocate_utf8_str, step, write_str.
  cbn [Context_write_state Context_write_parent_state_stack Context_output_bytes Context_string_interner Context_set_write_state Context_set_output_bytes].
  pose proof (gen_write_string_eq W trap ws) as H. rewrite <- Hs.
  use_state H.
  - destruct H as [-> Hc]. change (negb (WR_Ok =? WR_Ok)) with false. cbv iota. unfold u_cast.
    set (hdr := write_str_len (lenN s mod 2 ^ 32)).
    assert (Hh : lenN hdr <= 5).
    { unfold hdr, write_str_len. repeat match goal with |- context [if ?b then _ else _] => destruct b end; vm_compute; discriminate. }
    unfold u_add. cbv zeta. rewrite lenN_app.
    destruct (N.ltb_spec (lenN ob + lenN hdr + lenN s) (2 ^ W)) as [_|Hc']; [|subst ob; lia]. cbn [gbind].
    rewrite <- lenN_app, resize_grow. unfold vec_ptr_at. rewrite !lenN_app, lenN_zeros.
    destruct (N.ltb_spec (lenN ob + lenN hdr + lenN s) (lenN ob + lenN hdr)) as [Hc'|_]; [lia|]. cbn [gbind commit agree_str].
    split; [reflexivity|].
    eexists. split.
    + unfold apply_copy, vec_write, Context_set_output_bytes, Context_set_write_state. cbn [Context_output_bytes Context_write_state Context_write_parent_state_stack Context_string_interner]. rewrite !lenN_app, lenN_zeros.
      destruct (N.leb_spec (lenN ob + lenN hdr + lenN s) (lenN ob + lenN hdr + lenN s)) as [_|Hc']; [|lia]. cbn [gbind]. reflexivity.
    + unfold Context_set_output_bytes, Context_set_write_state. constructor; cbn [Context_output_bytes Context_write_state Context_write_parent_state_stack Context_string_interner commit wstate wstack out interned]; [exact Hc|exact Hk| |exact Hi].
      rewrite vec_overwrite_same. rewrite <- lenN_app.
      pose proof (overwrite_zeros (ob ++ hdr) s []) as Hz. rewrite takeN_all, !app_nil_r in Hz. rewrite Hz.
      rewrite <- Ho, <- app_assoc. reflexivity.
  - destruct H as (-> & Hne & ->). rewrite (wr_ne_eqb _ Hne). cbn [negb commit agree_str]. repeat split; assumption.
  - cbn [commit agree_str]. exact I.
Qed.

(** an interned string: the provider itself copies the interned bytes *)
Theorem gen_ctx_write_interned gc c id : R gc c ->
  (forall s, nthN (interned c) id = Some s -> lenN (out c) + 5 + lenN s < 2 ^ W) ->
  lenN (concat (interned c)) < 2 ^ W ->
  agree_ctx gc c (Context_write_interned_utf8_str W trap gc id) (step W trap c (OIStr id)).
Proof.
  intros HR Hfit Hsz. pose proof HR as [Hs Hk Ho Hi].
  unfold Context_write_interned_utf8_str, step.
  pose proof (wf_iget _ _ id Hi) as Hg.
  assert (Hsp : forall o l, nthN (spans (unconv_i (Context_string_interner gc))) id = Some (o, l) -> o + l < 2 ^ W).
  { intros o l E. destruct Hi as [_ Hsp']. rewrite Hsp' in E. pose proof (offsets_bound _ _ _ _ _ E) as Hb. lia. }
  pose proof (gen_get_eq W trap (unconv_i (Context_string_interner gc)) id Hsp) as Hget.
  replace (InternGenEq.conv (unconv_i (Context_string_interner gc))) with (Context_string_interner gc) in Hget by (destruct (Context_string_interner gc); reflexivity).
  rewrite Hg in Hget.
  destruct (StringInterner_get W trap (Context_string_interner gc) id) as [sd|]; destruct (nthN (interned c) id) as [s|] eqn:En; try contradiction; cbn [gbind].
  - subst sd.
    pose proof (gen_ctx_allocate_utf8_str gc c s HR (Hfit s eq_refl)) as Ha.
    unfold step in Ha.
    destruct (Context_allocate_utf8_str W trap gc (lenN s)) as [[gc' [code dst]]|]; destruct (write_str W trap c s) as [c' [| |]]; cbn [agree_str] in Ha; try contradiction; cbn [gbind agree_ctx].
    + destruct Ha as (-> & gc'' & Hcp & HR''). change (negb (WR_Ok =? WR_Ok)) with false. cbv iota.
      unfold apply_copy in Hcp. rewrite takeN_all.
      destruct (vec_write (Context_output_bytes gc') dst s) as [b|]; cbn [gbind] in Hcp |- *; [|discriminate].
      injection Hcp as <-. split; [reflexivity|exact HR''].
    + destruct Ha as (-> & Hne & -> & -> & ->). rewrite (wr_ne_eqb _ Hne). cbn [negb]. repeat split; assumption.
    + exact I.
  - cbn [agree_ctx]. exact I.
Qed.

End W.

(** * The exported functions [shopify_function_output_*] (the ABI entry points of provider/src/write.rs)

    Also regenerated: each is [Context::with_mut(|context| ...)] around one method, with the conversion of its
    arguments ([bool != 0]) and, for a string write, the packing of (status, pointer) into one double-width word;
    the native [finalize].  They agree with [Writer.step] / [Writer.finalize] on related contexts. *)
Section Wrappers.
Variable W : N.
Variable trap : bool.

Lemma gbind_eta2 {A B} (m : gres (A * B)) : gbind m (fun '(a, b) => GOk (a, b)) = m.
Proof. destruct m as [[a b]|]; reflexivity. Qed.

Theorem gen_abi_new_bool gc c v : R gc c ->
  agree_ctx gc c (Context_shopify_function_output_new_bool W trap gc v) (step W trap c (OBool v)).
Proof. intros HR. unfold Context_shopify_function_output_new_bool. rewrite gbind_eta2. apply gen_ctx_write_bool. exact HR. Qed.

Theorem gen_abi_new_null gc c : R gc c ->
  agree_ctx gc c (Context_shopify_function_output_new_null W trap gc) (step W trap c ONull).
Proof. intros HR. unfold Context_shopify_function_output_new_null. rewrite gbind_eta2. apply gen_ctx_write_nil. exact HR. Qed.

Theorem gen_abi_new_i32 gc c z : R gc c ->
  agree_ctx gc c (Context_shopify_function_output_new_i32 W trap gc z) (step W trap c (OI32 z)).
Proof. intros HR. unfold Context_shopify_function_output_new_i32. rewrite gbind_eta2. apply gen_ctx_write_i32. exact HR. Qed.

Theorem gen_abi_new_f64 gc c b : R gc c ->
  agree_ctx gc c (Context_shopify_function_output_new_f64 W trap gc b) (step W trap c (OF64 b)).
Proof. intros HR. unfold Context_shopify_function_output_new_f64. rewrite gbind_eta2. apply gen_ctx_write_f64. exact HR. Qed.

Theorem gen_abi_new_object gc c len : R gc c ->
  agree_ctx gc c (Context_shopify_function_output_new_object W trap gc len) (step W trap c (OStartObj len)).
Proof. intros HR. unfold Context_shopify_function_output_new_object. rewrite gbind_eta2. apply gen_ctx_start_object. exact HR. Qed.

Theorem gen_abi_new_array gc c len : R gc c ->
  agree_ctx gc c (Context_shopify_function_output_new_array W trap gc len) (step W trap c (OStartArr len)).
Proof. intros HR. unfold Context_shopify_function_output_new_array. rewrite gbind_eta2. apply gen_ctx_start_array. exact HR. Qed.

Theorem gen_abi_finish_object gc c : R gc c ->
  agree_ctx gc c (Context_shopify_function_output_finish_object W trap gc) (step W trap c OFinObj).
Proof. intros HR. unfold Context_shopify_function_output_finish_object. rewrite gbind_eta2. apply gen_ctx_finish_object. exact HR. Qed.

Theorem gen_abi_finish_array gc c : R gc c ->
  agree_ctx gc c (Context_shopify_function_output_finish_array W trap gc) (step W trap c OFinArr).
Proof. intros HR. unfold Context_shopify_function_output_finish_array. rewrite gbind_eta2. apply gen_ctx_finish_array. exact HR. Qed.

Theorem gen_abi_new_interned gc c id : R gc c ->
  (forall s, nthN (interned c) id = Some s -> lenN (out c) + 5 + lenN s < 2 ^ W) ->
  lenN (concat (interned c)) < 2 ^ W ->
  agree_ctx gc c (Context_shopify_function_output_new_interned_utf8_str W trap gc id) (step W trap c (OIStr id)).
Proof. intros HR H1 H2. unfold Context_shopify_function_output_new_interned_utf8_str. rewrite gbind_eta2. apply gen_ctx_write_interned; assumption. Qed.

(** the string write: the double-width result carries the status in its high word and the destination in its low word *)
Theorem gen_abi_new_utf8_str gc len : 0 < W ->
  match Context_allocate_utf8_str W trap gc len, Context_shopify_function_output_new_utf8_str W trap gc len with
  | GOk (gc1, (code, dst)), GOk (gc2, packed) =>
      gc2 = gc1 /\ (code < 2 ^ W -> ptr_val dst < 2 ^ W -> packed = code * 2 ^ W + ptr_val dst)
  | GPanic _, GPanic _ => True
  | _, _ => False
  end.
Proof.
  intros HW. unfold Context_shopify_function_output_new_utf8_str.
  destruct (Context_allocate_utf8_str W trap gc len) as [[gc1 [code dst]]|]; cbn [gbind]; [|exact I].
  unfold u_shl, u_cast. destruct (N.ltb_spec W (2 * W)) as [_|Hc]; [|lia]. cbn [gbind].
  split; [reflexivity|]. intros Hc Hp.
  assert (H2 : 2 ^ (2 * W) = 2 ^ W * 2 ^ W) by (rewrite <- N.pow_add_r; f_equal; lia).
  assert (Hpos : 0 < 2 ^ W) by (apply N.neq_0_lt_0, N.pow_nonzero; discriminate).
  rewrite (N.mod_small code) by (rewrite H2; nia).
  rewrite N.shiftl_mul_pow2. rewrite (N.mod_small (code * 2 ^ W)) by (rewrite H2; nia).
  apply NanBoxProofs.lor_disjoint_add. exact Hp.
Qed.

Lemma state_eqb_conv s : State_eqb s State_End = state_eqb (StateGenEq.conv s) End.
Proof. destruct s; reflexivity. Qed.

(** the native finalize: refuses unless the root value is closed, hands out the output bytes, changes nothing *)
Theorem gen_abi_finalize gc c : R gc c ->
  Context_shopify_function_output_finalize_and_return_msgpack_bytes W trap gc = GOk (gc, finalize c).
Proof.
  intros [Hs Hk Ho Hi]. unfold Context_shopify_function_output_finalize_and_return_msgpack_bytes, finalize. cbv zeta.
  rewrite state_eqb_conv, Hs. destruct (state_eqb (wstate c) End); cbn [negb]; [rewrite Ho|]; reflexivity.
Qed.

End Wrappers.
