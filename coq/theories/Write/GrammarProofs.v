(** PROOFS about the token grammar: a tree is determined by its token sequence. *)
From Coq Require Import NArith ZArith Lia List Bool.
From SFV Require Import Base.Bytes Msgpack.Tree Msgpack.TreeProofs Write.Writer Write.Grammar
  Write.WriteProofs.
Import ListNotations.
Open Scope N_scope.

Definition is_fin (k : token) : bool :=
  match k with KFinObj | KFinArr => true | _ => false end.

Lemma tokens_head t : exists h tl, tokens t = h :: tl /\ is_fin h = false.
Proof. destruct t; cbn [tokens]; eexists; eexists; split; reflexivity. Qed.

Lemma tokens_inj_gen t1 : forall t2 r1 r2,
  tokens t1 ++ r1 = tokens t2 ++ r2 -> t1 = t2 /\ r1 = r2.
Proof.
  induction t1 using tree_ind'; intros t2 r1 r2 E.
  1-5: destruct t2; cbn [tokens app] in E; try discriminate; injection E; intros; subst; split; reflexivity.
  - (* arrays *)
    destruct t2; try (cbn [tokens app] in E; discriminate).
    cbn [tokens app] in E. injection E as _ E. rewrite <- !app_assoc in E. cbn [app] in E.
    assert (G : l = l0 /\ r1 = r2).
    { clear -H E. revert l0 E. induction H as [|t l Ht Hl IH]; intros l0 E.
      - destruct l0 as [|t0 l0]; cbn [flat_map app] in E.
        + injection E as <-. split; reflexivity.
        + destruct (tokens_head t0) as (h & tl & Eh & Hh). rewrite Eh in E. cbn [app] in E.
          injection E as <- _. discriminate.
      - destruct l0 as [|t0 l0]; cbn [flat_map app] in E.
        + destruct (tokens_head t) as (h & tl & Eh & Hh). rewrite Eh in E. cbn [app] in E.
          injection E as -> _. discriminate.
        + rewrite <- !app_assoc in E. apply Ht in E. destruct E as [<- E].
          apply IH in E. destruct E as [<- <-]. split; reflexivity. }
    destruct G as [<- <-]. split; reflexivity.
  - (* objects *)
    destruct t2; try (rewrite tokens_obj in E; cbn [tokens app] in E; discriminate).
    rewrite !tokens_obj in E. cbn [app] in E. injection E as _ E.
    rewrite <- !app_assoc in E. cbn [app] in E.
    assert (G : l = l0 /\ r1 = r2).
    { clear -H E. revert l0 E. induction H as [|[k t] l Ht Hl IH]; intros l0 E.
      - destruct l0 as [|[k0 t0] l0]; cbn [flat_map app] in E.
        + injection E as <-. split; reflexivity.
        + unfold pair_tokens at 1 in E. cbn [app] in E. discriminate.
      - destruct l0 as [|[k0 t0] l0]; cbn [flat_map app] in E.
        + unfold pair_tokens at 1 in E. cbn [app] in E. discriminate.
        + unfold pair_tokens at 1 3 in E. cbn [fst snd app] in *. injection E as <- E.
          rewrite <- !app_assoc in E. apply Ht in E. destruct E as [<- E].
          apply IH in E. destruct E as [<- <-]. split; reflexivity. }
    destruct G as [<- <-]. split; reflexivity.
Qed.

Theorem tokens_inj t1 t2 : tokens t1 = tokens t2 -> t1 = t2.
Proof.
  intro E. apply (tokens_inj_gen t1 t2 [] []). rewrite !app_nil_r. exact E.
Qed.

(** * Every partial document the builder can hold is viable (padding construction) *)

From Coq Require Import ZifyNat ZifyN.
From SFV Require Import Write.WSpec Gen.CodesGen.

Definition otoks (c : option tree) : list token := match c with Some t => tokens t | None => [] end.

Lemma lenN_repeat {A} (x : A) n : lenN (repeat x (N.to_nat n)) = n.
Proof. unfold lenN. rewrite repeat_length. lia. Qed.

(** The frame closed off: the open child (if any) put in place, missing entries padded with nulls. *)
Definition fill (f : frame) (child : option tree) : tree :=
  match f with
  | FArr d done =>
      let l := done ++ match child with Some c => [c] | None => [] end in
      TArr (l ++ repeat TNull (N.to_nat (d - lenN l)))
  | FObj d done pend =>
      let l := done ++ match pend with
                       | Some k => [(k, match child with Some c => c | None => TNull end)]
                       | None => []
                       end in
      TObj (l ++ repeat ([], TNull) (N.to_nat (d - lenN l)))
  end.

Definition fill_ok (f : frame) (child : option tree) : Prop :=
  match f with
  | FArr d done => lenN done + match child with Some _ => 1 | None => 0 end <= d
  | FObj d done (Some _) => lenN done + 1 <= d
  | FObj d done None => child = None /\ lenN done <= d
  end.

Lemma fill_tokens f child :
  fill_ok f child -> exists rest, tokens (fill f child) = frame_tokens f ++ otoks child ++ rest.
Proof.
  destruct f as [d done [k|]|d done]; cbn [fill fill_ok frame_tokens]; intro H.
  - rewrite tokens_obj. rewrite lenN_app, lenN_repeat, lenN_app, lenN_cons, lenN_nil.
    replace (lenN done + (0 + 1) + (d - (lenN done + (0 + 1)))) with d by lia.
    rewrite !flat_map_app. cbn [flat_map]. unfold pair_tokens at 2. cbn [fst snd].
    destruct child as [c|]; cbn [otoks]; eexists; cbn [app]; rewrite <- !app_assoc; cbn [app];
      rewrite <- ?app_assoc; reflexivity.
  - destruct H as [-> H]. rewrite tokens_obj. rewrite lenN_app, lenN_repeat, lenN_app, lenN_nil.
    replace (lenN done + 0 + (d - (lenN done + 0))) with d by lia.
    rewrite !flat_map_app. cbn [flat_map otoks]. rewrite (app_nil_r (flat_map pair_tokens done)).
    eexists. cbn [app]. rewrite <- !app_assoc. reflexivity.
  - cbn [tokens]. rewrite lenN_app, lenN_repeat, lenN_app.
    destruct child as [c|]; cbn [otoks]; rewrite ?lenN_cons, ?lenN_nil.
    + replace (lenN done + (0 + 1) + (d - (lenN done + (0 + 1)))) with d by lia.
      rewrite !flat_map_app. cbn [flat_map]. rewrite (app_nil_r (tokens c)).
      eexists. cbn [app]. rewrite <- !app_assoc. reflexivity.
    + replace (lenN done + 0 + (d - (lenN done + 0))) with d by lia.
      rewrite !flat_map_app. cbn [flat_map]. rewrite (app_nil_r (flat_map tokens done)).
      eexists. cbn [app]. rewrite <- ?app_assoc. reflexivity.
Qed.

Section Viable.
Variable W : N.

Lemma close_parents fs : Forall (parent_ok W) fs ->
  forall c, exists t rest, tokens t = flat_map frame_tokens (rev fs) ++ tokens c ++ rest.
Proof.
  induction 1 as [|f fs Hf Hfs IH]; intro c.
  - exists c, []. cbn [rev flat_map app]. rewrite app_nil_r. reflexivity.
  - assert (FO : fill_ok f (Some c)).
    { destruct f as [d done [k|]|d done]; cbn [parent_ok fill_ok] in *; try lia. }
    destruct (fill_tokens f (Some c) FO) as [r1 E1].
    destruct (IH (fill f (Some c))) as (t & r2 & E2).
    exists t, (r1 ++ r2). rewrite E2, E1. cbn [rev otoks]. rewrite flat_map_app. cbn [flat_map].
    rewrite app_nil_r, <- !app_assoc. reflexivity.
Qed.

Lemma viable_stokens s : inv W s -> viable (stokens s).
Proof.
  destruct s as [fs rt]. unfold inv, stokens, viable. cbn [frames root].
  destruct fs as [|f fs].
  - intros _. destruct rt as [t|]; cbn [rev flat_map].
    + exists t, []. rewrite !app_nil_r. reflexivity.
    + exists TNull, (tokens TNull). reflexivity.
  - intros (-> & Hf & HP).
    assert (FO : fill_ok f None).
    { destruct f as [d done [k|]|d done]; cbn [inner_ok fill_ok] in *; try lia. split; [reflexivity|lia]. }
    destruct (fill_tokens f None FO) as [r1 E1].
    destruct (close_parents fs HP (fill f None)) as (t & r2 & E2).
    exists t, (r1 ++ r2). rewrite E2, E1. cbn [rev otoks app]. rewrite flat_map_app. cbn [flat_map].
    rewrite app_nil_r, <- !app_assoc. reflexivity.
Qed.

End Viable.

(** * A viable continuation fits the innermost open container (inversion on [tokens]) *)

Lemma fin_not_head t r h tl : tokens t ++ r = h :: tl -> is_fin h = false.
Proof.
  destruct (tokens_head t) as (h0 & tl0 & E & Hh). rewrite E. cbn [app]. intros [= <- _]. exact Hh.
Qed.

Lemma items_prefix done : forall l fin Z Y,
  is_fin fin = true ->
  flat_map tokens l ++ fin :: Z = flat_map tokens done ++ Y ->
  exists l', l = done ++ l' /\ flat_map tokens l' ++ fin :: Z = Y.
Proof.
  induction done as [|t done IH]; intros l fin Z Y Hfin E.
  - exists l. split; [reflexivity|exact E].
  - destruct l as [|t0 l0]; cbn [flat_map app] in E.
    + symmetry in E. rewrite <- app_assoc in E. apply fin_not_head in E. congruence.
    + rewrite <- !app_assoc in E. apply tokens_inj_gen in E. destruct E as [-> E].
      destruct (IH _ _ _ _ Hfin E) as (l' & -> & E'). exists l'. split; [reflexivity|exact E'].
Qed.

Lemma pairs_prefix done : forall l fin Z Y,
  is_fin fin = true ->
  flat_map pair_tokens l ++ fin :: Z = flat_map pair_tokens done ++ Y ->
  exists l', l = done ++ l' /\ flat_map pair_tokens l' ++ fin :: Z = Y.
Proof.
  induction done as [|[k t] done IH]; intros l fin Z Y Hfin E.
  - exists l. split; [reflexivity|exact E].
  - destruct l as [|[k0 t0] l0]; cbn [flat_map app] in E.
    + unfold pair_tokens at 1 in E. cbn [app] in E. injection E as -> _. discriminate.
    + unfold pair_tokens at 1 3 in E. cbn [fst snd app] in E. injection E as -> E.
      rewrite <- !app_assoc in E. apply tokens_inj_gen in E. destruct E as [-> E].
      destruct (IH _ _ _ _ Hfin E) as (l' & -> & E'). exists l'. split; [reflexivity|exact E'].
Qed.

(** What may follow, given the innermost open container. *)
Definition next_ok (f : frame) (x : list token) : Prop :=
  match f with
  | FArr d done =>
      (lenN done = d /\ exists r, x = KFinArr :: r) \/
      (lenN done <> d /\ exists t r, x = tokens t ++ r)
  | FObj d done None =>
      (lenN done = d /\ exists r, x = KFinObj :: r) \/
      (lenN done <> d /\ exists k t r, x = KStr k :: tokens t ++ r)
  | FObj d done (Some _) => exists t r, x = tokens t ++ r
  end.

Lemma frame_tokens_head f : exists n tl, frame_tokens f = n :: tl /\ (exists d, n = KStartObj d \/ n = KStartArr d).
Proof.
  destruct f as [d done p|d done]; cbn [frame_tokens]; eexists; eexists; (split; [reflexivity|]); exists d; auto.
Qed.

Lemma frames_tokens_head g gs x :
  exists n tl, flat_map frame_tokens (g :: gs) ++ x = n :: tl /\ (exists d, n = KStartObj d \/ n = KStartArr d).
Proof.
  destruct (frame_tokens_head g) as (n & tl & E & H). cbn [flat_map]. rewrite E. cbn [app].
  eexists; eexists; split; [reflexivity|exact H].
Qed.

Lemma parse_frames gs : gs <> [] -> forall t' r' x,
  tokens t' ++ r' = flat_map frame_tokens gs ++ x -> next_ok (last gs (FArr 0 [])) x.
Proof.
  induction gs as [|g gs IH]; [congruence|]. intros _ t' r' x E.
  cbn [flat_map] in E.
  destruct g as [d done pend|d done].
  - (* object frame *)
    destruct t'; try (cbn [tokens frame_tokens app] in E; discriminate).
    rewrite tokens_obj in E. cbn [frame_tokens app] in E. injection E as Hd E.
    rewrite <- !app_assoc in E. cbn [app] in E.
    apply pairs_prefix in E; [|reflexivity]. destruct E as (l' & -> & E).
    rewrite lenN_app in Hd.
    destruct pend as [k|].
    + (* a key is pending: the next pair of l' has that key *)
      destruct l' as [|[k0 t0] l']; cbn [flat_map app] in E; [discriminate|].
      unfold pair_tokens at 1 in E. cbn [fst snd app] in E. injection E as -> E.
      destruct gs as [|g' gs].
      * cbn [last next_ok flat_map app] in *. rewrite <- app_assoc in E. eauto.
      * rewrite <- app_assoc in E.
        apply (IH ltac:(discriminate) t0 _ x) in E. exact E.
    + cbn [app] in E. destruct gs as [|g' gs].
      * cbn [last next_ok flat_map app] in *.
        destruct l' as [|[k0 t0] l']; cbn [flat_map app] in E.
        -- left. rewrite lenN_nil in Hd. split; [lia|]. eauto.
        -- right. rewrite lenN_cons in Hd. split; [lia|].
           unfold pair_tokens at 1 in E. cbn [fst snd app] in E. rewrite <- app_assoc in E. eauto.
      * exfalso. destruct (frames_tokens_head g' gs x) as (n & tl & En & d0 & Hn). rewrite En in E.
        destruct l' as [|[k0 t0] l']; cbn [flat_map app] in E.
        -- injection E as <- _. destruct Hn; discriminate.
        -- unfold pair_tokens at 1 in E. cbn [app] in E. injection E as <- _. destruct Hn; discriminate.
  - (* array frame *)
    destruct t'; try (cbn [tokens frame_tokens app] in E; discriminate);
      try (rewrite tokens_obj in E; cbn [frame_tokens app] in E; discriminate).
    cbn [tokens frame_tokens app] in E. injection E as Hd E.
    rewrite <- !app_assoc in E. cbn [app] in E.
    apply items_prefix in E; [|reflexivity]. destruct E as (l' & -> & E).
    rewrite lenN_app in Hd.
    destruct gs as [|g' gs].
    + cbn [last next_ok flat_map app] in *.
      destruct l' as [|t0 l']; cbn [flat_map app] in E.
      * left. rewrite lenN_nil in Hd. split; [lia|]. eauto.
      * right. rewrite lenN_cons in Hd. split; [lia|]. rewrite <- app_assoc in E. eauto.
    + destruct l' as [|t0 l'].
      * exfalso. destruct (frames_tokens_head g' gs x) as (n & tl & En & d0 & Hn). rewrite En in E.
        cbn [flat_map app] in E. injection E as <- _. destruct Hn; discriminate.
      * cbn [flat_map app] in E. rewrite <- app_assoc in E.
        apply (IH ltac:(discriminate) t0 _ x) in E. exact E.
Qed.

(** * C03_fits: a call is accepted iff the accepted tokens plus this one can still be completed *)

Section Fits.
Variable W : N.
Variable trap : bool.

Theorem spec_fits it s op tok :
  inv W s -> op_guard W op -> tok_of_op it op = Some tok ->
  (snd (spec_step it s op) = WR_Ok <-> viable (stokens s ++ [tok])).
Proof.
  intros Hinv Hg Ht. split.
  - intro H. destruct (spec_step_props W it s op Hinv Hg H) as (Hi' & _ & tk0 & Ht0 & Htk').
    rewrite Ht in Ht0. injection Ht0 as <-. rewrite <- Htk'. apply (viable_stokens W). exact Hi'.
  - intros (t' & rest & E). destruct s as [fs rt]. unfold inv, stokens in *. cbn [frames root] in *.
    destruct fs as [|f fs].
    + cbn [rev flat_map] in E. rewrite app_nil_r in E. destruct rt as [t|].
      * exfalso. rewrite <- app_assoc in E. rewrite <- (app_nil_r (tokens t')) in E.
        apply tokens_inj_gen in E. destruct E as [_ E]. discriminate.
      * cbn [app] in E. rewrite <- (app_nil_r (tokens t')) in E. apply fin_not_head in E.
        destruct op; cbn [tok_of_op] in Ht; try (destruct (nthN it id) eqn:En; [|discriminate]);
          injection Ht as <-; try discriminate E;
          unfold spec_step, offer_of; rewrite ?En; cbn [may_offer frames root]; rewrite N.eqb_refl; reflexivity.
    + destruct Hinv as (-> & Hf & HP). cbn [app rev] in E.
      rewrite <- app_assoc in E. rewrite <- (app_nil_r (tokens t')) in E.
      apply parse_frames in E; [|destruct (rev fs); discriminate].
      rewrite last_last in E. cbn [app] in E.
      destruct f as [d done [k|]|d done]; cbn [next_ok inner_ok] in E, Hf; destruct Hf as [Hf1 Hf2];
        destruct op; cbn [tok_of_op] in Ht; try (destruct (nthN it id) eqn:En; [|discriminate]);
          injection Ht as <-;
          unfold spec_step, offer_of; rewrite ?En; cbn [may_offer frames root].
      all: try (destruct E as (t0 & r0 & E); symmetry in E; apply fin_not_head in E; discriminate E).
      all: try (destruct E as [[Hl (r0 & E)]|[Hl E]]; [try discriminate E|]).
      all: try (destruct E as (t0 & r0 & E); symmetry in E; apply fin_not_head in E; try discriminate E).
      all: try (destruct E as (k0 & t0 & r0 & E); try discriminate E).
      all: rewrite ?N.eqb_refl; try reflexivity.
      all: try (destruct (N.ltb_spec (lenN done) d); [rewrite N.eqb_refl; reflexivity|lia]).
      all: try (destruct (N.eqb_spec (lenN done) d); [reflexivity|lia]).
Qed.

Notation step := (Writer.step W trap).

Section Reach.
Variable P : wctx -> wop -> Prop.
Hypothesis P_ok : forall c op, P c op -> op_ok W c op.

Theorem C03_fits c s tk op tok :
  reach W trap P c s tk -> P c op -> tok_of_op (interned c) op = Some tok ->
  (snd (step c op) = WOk <-> viable (tk ++ [tok])).
Proof.
  intros H HP Ht.
  rewrite (C03_status W trap P P_ok c s tk op H HP), res_of_code_ok.
  destruct (reach_R W trap P P_ok c s tk H) as (_ & _ & Hinv & ->).
  apply spec_fits; [exact Hinv|apply (P_ok c op HP)|exact Ht].
Qed.

(** The document is complete exactly when the accepted tokens are the tokens of a tree. *)
Theorem C03_complete_tokens c s tk :
  reach W trap P c s tk -> (wstate c = End <-> exists t, tk = tokens t).
Proof.
  intro H. destruct (C03_complete W trap P P_ok c s tk H) as (E & _). rewrite E.
  destruct (reach_R W trap P P_ok c s tk H) as (_ & _ & Hinv & ->).
  destruct s as [fs rt]. unfold spec_complete, inv, stokens in *. cbn [frames root] in *.
  split.
  - intros [-> Hr]. destruct rt as [t|]; [|congruence]. exists t. cbn [rev flat_map]. apply app_nil_r.
  - intros [t Et]. destruct fs as [|f fs].
    + split; [reflexivity|]. destruct rt; [discriminate|]. cbn [rev flat_map app] in Et.
      destruct (tokens_head t) as (h & tl & Eh & _). rewrite Eh in Et. discriminate.
    + exfalso. destruct Hinv as (-> & Hf & HP). cbn [app rev] in Et.
      assert (E' : tokens t ++ [] = flat_map frame_tokens (rev fs ++ [f]) ++ []).
      { rewrite !app_nil_r. symmetry. exact Et. }
      apply parse_frames in E'; [|destruct (rev fs); discriminate].
      rewrite last_last in E'.
      destruct f as [d done [k|]|d done]; cbn [next_ok] in E'.
      * destruct E' as (t0 & r0 & E'). destruct (tokens_head t0) as (h & tl & Eh & _).
        rewrite Eh in E'. discriminate.
      * destruct E' as [[_ (r0 & E')]|[_ (k0 & t0 & r0 & E')]]; discriminate.
      * destruct E' as [[_ (r0 & E')]|[_ (t0 & r0 & E')]]; [discriminate|].
        destruct (tokens_head t0) as (h & tl & Eh & _). rewrite Eh in E'. discriminate.
Qed.

End Reach.

End Fits.
