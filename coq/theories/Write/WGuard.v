(** SPEC (executable): the scope of the writer theorems as decidable checks on operations, and the
    joint run of implementation model, abstract builder and accepted-token log over a list of
    actions (write operations and interner calls). *)
From Coq Require Import NArith ZArith List Bool.
From SFV Require Import Base.Bytes Msgpack.Tree Gen.CodesGen Write.Writer Write.WSpec Write.Grammar.
Import ListNotations.
Open Scope N_scope.

Inductive act := AOp (op : wop) | AIntern (s : list N).

Section W.
Variable W : N.
Variable trap : bool.

(** No-overflow guard: [length * 2] of state.rs fits [usize]; an array length is a [usize]. *)
Definition op_guardb (op : wop) : bool :=
  match op with
  | OStartObj l => 2 * l <? 2 ^ W
  | OStartArr l => l <? 2 ^ W
  | _ => true
  end.

(** The interned id was handed out by the interner. *)
Definition op_idsb (it : list (list N)) (op : wop) : bool :=
  match op with OIStr id => id <? lenN it | _ => true end.

(** The ABI's value ranges: i32, 64-bit patterns, byte strings shorter than 2^32, u32 lengths. *)
Definition op_wfb (it : list (list N)) (op : wop) : bool :=
  match op with
  | OI32 z => ((- 2 ^ 31 <=? z) && (z <? 2 ^ 31))%Z
  | OF64 b => b <? 2 ^ 64
  | OStr s => wf_str s
  | OIStr id => match nthN it id with Some s => wf_str s | None => true end
  | OStartObj n | OStartArr n => n <? 2 ^ 32
  | _ => true
  end.

(** The token an accepted operation contributes (nothing if the call was rejected). *)
Definition accepted_tok (c : wctx) (op : wop) : list token :=
  match snd (step W trap c op), tok_of_op (interned c) op with
  | WOk, Some t => [t]
  | _, _ => []
  end.

(** Run actions from a given triple (implementation, abstract document, accepted tokens). *)
Fixpoint exec_from (acts : list act) (c : wctx) (s : sstate) (tk : list token)
  : wctx * sstate * list token :=
  match acts with
  | [] => (c, s, tk)
  | AIntern str :: r => exec_from r (fst (intern c str)) s tk
  | AOp op :: r =>
      exec_from r (fst (step W trap c op)) (fst (spec_step (interned c) s op)) (tk ++ accepted_tok c op)
  end.

Definition exec (acts : list act) : wctx * sstate * list token := exec_from acts init sinit [].

(** The statuses along the run: per write operation, the model's result and the documented code. *)
Fixpoint trace_from (acts : list act) (c : wctx) (s : sstate) : list (wres * N) :=
  match acts with
  | [] => []
  | AIntern str :: r => trace_from r (fst (intern c str)) s
  | AOp op :: r =>
      (snd (step W trap c op), snd (spec_step (interned c) s op))
      :: trace_from r (fst (step W trap c op)) (fst (spec_step (interned c) s op))
  end.

Definition trace (acts : list act) : list (wres * N) := trace_from acts init sinit.

(** Every operation of the run is within the scope of the theorems ([wf]: also the value ranges). *)
Fixpoint acts_okb_from (wf : bool) (acts : list act) (c : wctx) : bool :=
  match acts with
  | [] => true
  | AIntern str :: r => acts_okb_from wf r (fst (intern c str))
  | AOp op :: r =>
      op_guardb op && op_idsb (interned c) op && (if wf then op_wfb (interned c) op else true)
      && acts_okb_from wf r (fst (step W trap c op))
  end.

Definition acts_okb (wf : bool) (acts : list act) : bool := acts_okb_from wf acts init.

End W.
