(** Whole call sequences on the translated Rust.  [gen_step] performs one ABI call on the regenerated code
    (Gen/WriteCtxGen.v): the exported function for the operation and, for a string write, the native glue's part
    (unpack status and destination from the double-width result, copy the bytes only on success -- written by hand
    here, as api/src/lib.rs provider_fallback does it).  [code_run_agrees]: for EVERY finite sequence of operations,
    from related contexts, the translated Rust returns exactly the statuses of the model [Writer.run]-style fold and
    ends in a related context (or both panic at the same call) -- so every C02/C03 theorem about the model's traces is
    a theorem about the traces of the translated code. *)
From Coq Require Import NArith ZArith List Bool Lia.
From SFV Require Import Base.Bytes Base.BytesProofs Base.RsPrelude Gen.CodesGen Msgpack.Rmp Write.Writer
  Gen.StateGen Write.StateGenEq Ctx.Interner Ctx.InternerProofs Gen.InternGen Ctx.InternGenEq Gen.WriteCtxGen Write.WriteCtxGenEq.
Import ListNotations.
Open Scope N_scope.

Lemma lenN_overwrite (b : list N) : forall off s, lenN (overwrite b off s) = lenN b.
Proof.
  induction b as [|x t IH]; intros o s0; cbn [overwrite]; [reflexivity|].
  destruct (o =? 0); [destruct s0; [reflexivity|rewrite !lenN_cons, IH; reflexivity]|rewrite !lenN_cons, IH; reflexivity].
Qed.

Lemma write_str_len_le5 n : lenN (write_str_len n) <= 5.
Proof. unfold write_str_len. repeat match goal with |- context [if ?b then _ else _] => destruct b end; vm_compute; discriminate. Qed.

Section W.
Variable W : N.
Variable trap : bool.

Definition gen_step (gc : Context) (op : wop) : gres (Context * N) :=
  match op with
  | OBool v => Context_shopify_function_output_new_bool W trap gc v
  | ONull => Context_shopify_function_output_new_null W trap gc
  | OI32 z => Context_shopify_function_output_new_i32 W trap gc z
  | OF64 b => Context_shopify_function_output_new_f64 W trap gc b
  | OStr s =>
      gbind (Context_shopify_function_output_new_utf8_str W trap gc (lenN s)) (fun '(gc1, packed) =>
        let code := packed / 2 ^ W in
        let dst := packed mod 2 ^ W in
        if code =? WR_Ok
        then gbind (vec_write (Context_output_bytes gc1) (Some dst) s) (fun b => GOk (Context_set_output_bytes gc1 b, code))
        else GOk (gc1, code))
  | OIStr id => Context_shopify_function_output_new_interned_utf8_str W trap gc id
  | OStartObj len => Context_shopify_function_output_new_object W trap gc len
  | OFinObj => Context_shopify_function_output_finish_object W trap gc
  | OStartArr len => Context_shopify_function_output_new_array W trap gc len
  | OFinArr => Context_shopify_function_output_finish_array W trap gc
  end.

(** the output (and the interned strings) fit the address space at this call *)
Definition ok_step (c : wctx) (op : wop) : bool :=
  match op with
  | OStr s => lenN (out c) + 5 + lenN s <? 2 ^ W
  | OIStr id =>
      (match nthN (interned c) id with Some s => lenN (out c) + 5 + lenN s <? 2 ^ W | None => true end)
      && (lenN (concat (interned c)) <? 2 ^ W)
  | _ => true
  end.

Hypothesis HW : 4 <= W.   (* status codes (at most 8) fit a word *)

Lemma st_write_string_codes s c : st_write_string W trap s = SErr c ->
  c = WR_ObjectLengthError \/ c = WR_ArrayLengthError \/ c = WR_ValueAlreadyWritten.
Proof.
  destruct s as [|l i|l i|]; cbn [st_write_string]; unfold obj_write_string, arr_write_value.
  - discriminate.
  - destruct (l <=? i / 2); [intros H; injection H as <-; tauto|]. destruct (add_w W trap i 1); discriminate.
  - destruct (l <=? i); [intros H; injection H as <-; tauto|]. destruct (add_w W trap i 1); discriminate.
  - intros H; injection H as <-; tauto.
Qed.

Lemma code_small c : In c [WR_Ok; WR_IoError; WR_ExpectedKey; WR_ObjectLengthError; WR_ValueAlreadyWritten; WR_NotAnObject;
                          WR_ValueNotFinished; WR_ArrayLengthError; WR_NotAnArray] -> c < 2 ^ W.
Proof.
  intros Hin. assert (H16 : 16 <= 2 ^ W) by (change 16 with (2 ^ 4); apply N.pow_le_mono_r; lia).
  cbn [In] in Hin.
  repeat (destruct Hin as [<-|Hin]; [cbv [WR_Ok WR_IoError WR_ExpectedKey WR_ObjectLengthError WR_ValueAlreadyWritten WR_NotAnObject WR_ValueNotFinished WR_ArrayLengthError WR_NotAnArray]; lia|]).
  contradiction.
Qed.

(** one call *)
Theorem code_step_agrees gc c op : R gc c -> ok_step c op = true ->
  agree_ctx gc c (gen_step gc op) (step W trap c op).
Proof.
  intros HR Hok. destruct op; cbn [gen_step].
  - apply gen_abi_new_bool; exact HR.
  - apply gen_abi_new_null; exact HR.
  - apply gen_abi_new_i32; exact HR.
  - apply gen_abi_new_f64; exact HR.
  - (* string: provider call, unpacking, copy on success *)
    cbn [ok_step] in Hok. apply N.ltb_lt in Hok.
    pose proof (gen_ctx_allocate_utf8_str W trap gc c s HR Hok) as Ha.
    assert (HW0 : 0 < W) by lia.
    pose proof (gen_abi_new_utf8_str W trap gc (lenN s) HW0) as Hp.
    destruct (Context_allocate_utf8_str W trap gc (lenN s)) as [[gc1 [code dst]]|];
      destruct (Context_shopify_function_output_new_utf8_str W trap gc (lenN s)) as [[gc2 packed]|]; try contradiction.
    + destruct Hp as [-> Hpk]. cbn [gbind].
      assert (Hpos : 0 < 2 ^ W) by (apply N.neq_0_lt_0, N.pow_nonzero; discriminate).
      destruct (step W trap c (OStr s)) as [c' [| code' | site]] eqn:Est; cbn [agree_str] in Ha; try contradiction.
      * destruct Ha as (-> & gc'' & Hcp & HR'').
        unfold apply_copy in Hcp. destruct dst as [off|]; [|cbn [vec_write gbind] in Hcp; discriminate].
        assert (Hoff : off < 2 ^ W).
        { unfold vec_write in Hcp. destruct (N.leb_spec (off + lenN s) (lenN (Context_output_bytes gc1))) as [Hle|]; [|cbn [gbind] in Hcp; discriminate].
          (* the output after the accepted write is the model's: header (at most 5 bytes) + payload *)
          cbn [gbind] in Hcp. injection Hcp as <-. destruct HR'' as [_ _ Ho'' _]. cbn [Context_output_bytes Context_set_output_bytes] in Ho''.
          assert (Hlen : lenN (Context_output_bytes gc1) = lenN (out c')).
          { rewrite <- Ho''. unfold Context_set_output_bytes. cbn [Context_output_bytes]. rewrite vec_overwrite_same, lenN_overwrite. reflexivity. }
          unfold step, write_str, commit in Est. destruct (st_write_string W trap (wstate c)); try discriminate Est. injection Est as <-.
          cbn [out] in Hlen. rewrite lenN_app, lenN_app in Hlen.
          match type of Hlen with context [write_str_len ?n] => pose proof (write_str_len_le5 n) end.
          lia. }
        rewrite (Hpk (code_small _ (or_introl eq_refl)) Hoff). cbv zeta.
        rewrite N.div_add_l by lia. rewrite (N.div_small off) by exact Hoff. rewrite N.add_0_r.
        rewrite N.add_comm, N.mod_add by lia. rewrite (N.mod_small off) by exact Hoff.
        change (WR_Ok =? WR_Ok) with true. cbv iota.
        destruct (vec_write (Context_output_bytes gc1) (Some off) s) as [b|]; cbn [gbind] in Hcp |- *; [|discriminate].
        injection Hcp as <-. cbn [agree_ctx]. split; [reflexivity|exact HR''].
      * destruct Ha as (-> & Hne & -> & -> & ->).
        assert (Hc : code' < 2 ^ W).
        { unfold step, write_str, commit in Est. destruct (st_write_string W trap (wstate c)) as [s1|cd|st] eqn:Es; try discriminate Est.
          assert (cd = code') as <- by congruence. apply code_small. pose proof (st_write_string_codes _ _ Es) as [-> | [-> | ->]]; cbn [In]; tauto. }
        rewrite (Hpk Hc Hpos). cbn [ptr_val]. rewrite N.add_0_r. cbv zeta.
        rewrite N.div_mul by lia. rewrite (wr_ne_eqb _ Hne). cbn [agree_ctx]. repeat split; assumption.
    + destruct (step W trap c (OStr s)) as [c' [| code' | site']]; cbn [agree_str] in Ha; try contradiction. cbn [gbind agree_ctx]. exact I.
  - cbn [ok_step] in Hok. apply andb_true_iff in Hok. destruct Hok as [H1 H2]. apply N.ltb_lt in H2.
    apply gen_abi_new_interned; [exact HR| |exact H2].
    intros s Hs. rewrite Hs in H1. apply N.ltb_lt in H1. exact H1.
  - apply gen_abi_new_object; exact HR.
  - apply gen_abi_finish_object; exact HR.
  - apply gen_abi_new_array; exact HR.
  - apply gen_abi_finish_array; exact HR.
Qed.

(** call sequences *)
Fixpoint gen_run (gc : Context) (ops : list wop) : gres (Context * list N) :=
  match ops with
  | [] => GOk (gc, [])
  | op :: t => gbind (gen_step gc op) (fun '(gc1, code) => gbind (gen_run gc1 t) (fun '(gc2, codes) => GOk (gc2, code :: codes)))
  end.

(** the model's fold: statuses as codes, [None] when some call panics *)
Fixpoint model_run (c : wctx) (ops : list wop) : option (wctx * list N) :=
  match ops with
  | [] => Some (c, [])
  | op :: t =>
      let '(c1, r) := step W trap c op in
      match r with
      | WPanic _ => None
      | WOk => match model_run c1 t with Some (c2, l) => Some (c2, WR_Ok :: l) | None => None end
      | WErr code => match model_run c1 t with Some (c2, l) => Some (c2, code :: l) | None => None end
      end
  end.

Fixpoint ok_run (c : wctx) (ops : list wop) : bool :=
  match ops with
  | [] => true
  | op :: t => ok_step c op && ok_run (fst (step W trap c op)) t
  end.

Theorem code_run_agrees : forall ops gc c, R gc c -> ok_run c ops = true ->
  match gen_run gc ops, model_run c ops with
  | GOk (gc', codes), Some (c', codes') => codes = codes' /\ R gc' c'
  | GPanic _, None => True
  | _, _ => False
  end.
Proof.
  induction ops as [|op t IH]; intros gc c HR Hok; cbn [gen_run model_run].
  - split; [reflexivity|exact HR].
  - cbn [ok_run] in Hok. apply andb_true_iff in Hok. destruct Hok as [Hs Ht].
    pose proof (code_step_agrees gc c op HR Hs) as Ha.
    destruct (gen_step gc op) as [[gc1 code]|gsite]; destruct (step W trap c op) as [c1 [|code'|msite]]; cbn [agree_ctx] in Ha; try contradiction; cbn [gbind fst] in *.
    + destruct Ha as [-> HR1]. specialize (IH gc1 c1 HR1 Ht).
      destruct (gen_run gc1 t) as [[gc2 codes]|]; destruct (model_run c1 t) as [[c2 l]|]; try contradiction; cbn [gbind].
      * destruct IH as [-> HR2]. split; [reflexivity|exact HR2].
      * exact I.
    + destruct Ha as (-> & Hne & -> & ->). specialize (IH gc c HR Ht).
      destruct (gen_run gc t) as [[gc2 codes]|]; destruct (model_run c t) as [[c2 l]|]; try contradiction; cbn [gbind].
      * destruct IH as [-> HR2]. split; [reflexivity|exact HR2].
      * exact I.
    + exact I.
Qed.

End W.
