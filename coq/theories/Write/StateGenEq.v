(** The write state machine of the hand-written model (Write/Writer.v, over which C02/C03 are proved)
    IS the Rust code: every function of provider/src/write/state.rs, as regenerated from the source by
    translator T8 into Gen/StateGen.v, computes what the model's function computes -- for every state,
    every stack, every declared length, every pointer width and both overflow modes.

    A change to state.rs changes Gen/StateGen.v and these theorems are re-checked against it. *)
From Coq Require Import NArith List Bool Lia.
From SFV Require Import Base.Bytes Base.RsPrelude Gen.CodesGen Gen.StateGen Msgpack.Rmp Write.Writer.
Import ListNotations.
Open Scope N_scope.

Definition conv (s : State) : state :=
  match s with
  | State_Start => Start
  | State_Object o => Object (ObjectState_length o) (ObjectState_num_inserted o)
  | State_Array a => Array (ArrayState_length a) (ArrayState_num_inserted a)
  | State_End => End
  end.

(** The Rust [Vec] is in push order, the model's stack is top first. *)
Definition conv_stack (l : list State) : list state := map conv (rev l).

(** A generated step on a state alone agrees with a model step: accepted with the same new state, or
    rejected with the same status AND the state exactly as it was, or both panic. *)
Definition agree1 (s : State) (g : gres (State * N)) (h : sres) : Prop :=
  match g, h with
  | GOk (s', c), SOk t => c = WR_Ok /\ conv s' = t
  | GOk (s', c), SErr c' => c = c' /\ c <> WR_Ok /\ s' = s
  | GPanic _, SPanic _ => True
  | _, _ => False
  end.

Definition agree2 (s : State) (stk : list State) (g : gres (State * list State * N)) (h : sres * list state) : Prop :=
  match g, h with
  | GOk (s', stk', c), (SOk t, hstk) => c = WR_Ok /\ conv s' = t /\ conv_stack stk' = hstk
  | GOk (s', stk', c), (SErr c', hstk) => c = c' /\ c <> WR_Ok /\ s' = s /\ stk' = stk /\ hstk = conv_stack stk
  | GPanic _, (SPanic _, _) => True
  | _, _ => False
  end.

Section W.
Variable W : N.
Variable trap : bool.

Lemma u_add_add_w a b :
  match u_add W trap a b, add_w W trap a b with
  | GOk x, Some y => x = y
  | GPanic _, None => True
  | _, _ => False
  end.
Proof.
  unfold u_add, add_w. destruct (a + b <? 2 ^ W); [reflexivity|]. destruct trap; [exact I|reflexivity].
Qed.

Ltac codes := try (vm_compute; discriminate); try reflexivity.

Lemma obj_write_string_eq o :
  match ObjectState_write_string W trap o, obj_write_string W trap (ObjectState_length o) (ObjectState_num_inserted o) with
  | GOk (o', c), SOk t => c = WR_Ok /\ conv (State_Object o') = t
  | GOk (o', c), SErr c' => c = c' /\ c <> WR_Ok /\ o' = o
  | GPanic _, SPanic _ => True
  | _, _ => False
  end.
Proof.
  destruct o as [l i]. unfold ObjectState_write_string, obj_write_string. cbn [ObjectState_length ObjectState_num_inserted].
  destruct (l <=? i / 2).
  - repeat split; codes.
  - pose proof (u_add_add_w i 1) as H. destruct (u_add W trap i 1), (add_w W trap i 1); try contradiction; cbn [gbind].
    + subst. repeat split.
    + exact I.
Qed.

Lemma obj_write_non_string_eq o :
  match ObjectState_write_non_string_value W trap o, obj_write_non_string W trap (ObjectState_length o) (ObjectState_num_inserted o) with
  | GOk (o', c), SOk t => c = WR_Ok /\ conv (State_Object o') = t
  | GOk (o', c), SErr c' => c = c' /\ c <> WR_Ok /\ o' = o
  | GPanic _, SPanic _ => True
  | _, _ => False
  end.
Proof.
  destruct o as [l i]. unfold ObjectState_write_non_string_value, obj_write_non_string. cbn [ObjectState_length ObjectState_num_inserted].
  destruct (i mod 2 =? 0).
  - repeat split; codes.
  - pose proof (u_add_add_w i 1) as H. destruct (u_add W trap i 1), (add_w W trap i 1); try contradiction; cbn [gbind].
    + subst. repeat split.
    + exact I.
Qed.

Lemma arr_write_value_eq a :
  match ArrayState_write_value W trap a, arr_write_value W trap (ArrayState_length a) (ArrayState_num_inserted a) with
  | GOk (a', c), SOk t => c = WR_Ok /\ conv (State_Array a') = t
  | GOk (a', c), SErr c' => c = c' /\ c <> WR_Ok /\ a' = a
  | GPanic _, SPanic _ => True
  | _, _ => False
  end.
Proof.
  destruct a as [l i]. unfold ArrayState_write_value, arr_write_value. cbn [ArrayState_length ArrayState_num_inserted].
  destruct (l <=? i).
  - repeat split; codes.
  - pose proof (u_add_add_w i 1) as H. destruct (u_add W trap i 1), (add_w W trap i 1); try contradiction; cbn [gbind].
    + subst. repeat split.
    + exact I.
Qed.

Theorem gen_write_string_eq s :
  agree1 s (State_write_string W trap s) (st_write_string W trap (conv s)).
Proof.
  destruct s as [|o|a|]; cbn [State_write_string st_write_string conv agree1].
  - repeat split.
  - pose proof (obj_write_string_eq o) as H.
    destruct (ObjectState_write_string W trap o) as [[o' c]|], (obj_write_string W trap _ _); try contradiction; cbn [gbind agree1].
    + exact H.
    + destruct H as (H1 & H2 & H3). subst. repeat split; assumption.
    + exact I.
  - pose proof (arr_write_value_eq a) as H.
    destruct (ArrayState_write_value W trap a) as [[a' c]|], (arr_write_value W trap _ _); try contradiction; cbn [gbind agree1].
    + exact H.
    + destruct H as (H1 & H2 & H3). subst. repeat split; assumption.
    + exact I.
  - repeat split; codes.
Qed.

Theorem gen_write_non_string_scalar_eq s :
  agree1 s (State_write_non_string_scalar W trap s) (st_write_non_string_scalar W trap (conv s)).
Proof.
  destruct s as [|o|a|]; cbn [State_write_non_string_scalar st_write_non_string_scalar conv agree1].
  - repeat split.
  - pose proof (obj_write_non_string_eq o) as H.
    destruct (ObjectState_write_non_string_value W trap o) as [[o' c]|], (obj_write_non_string W trap _ _); try contradiction; cbn [gbind agree1].
    + exact H.
    + destruct H as (H1 & H2 & H3). subst. repeat split; assumption.
    + exact I.
  - pose proof (arr_write_value_eq a) as H.
    destruct (ArrayState_write_value W trap a) as [[a' c]|], (arr_write_value W trap _ _); try contradiction; cbn [gbind agree1].
    + exact H.
    + destruct H as (H1 & H2 & H3). subst. repeat split; assumption.
    + exact I.
  - repeat split; codes.
Qed.

Lemma conv_stack_push stk p : conv_stack (stk ++ [p]) = conv p :: conv_stack stk.
Proof. unfold conv_stack. rewrite rev_app_distr. reflexivity. Qed.

Lemma wr_ok_eqb c : c = WR_Ok -> (c =? WR_Ok) = true.
Proof. intros ->. reflexivity. Qed.
Lemma wr_ne_eqb c : c <> WR_Ok -> (c =? WR_Ok) = false.
Proof. intros H. apply N.eqb_neq. exact H. Qed.

(** start_object / start_array: [mkg] is the child state the code builds, [mk] the model's. *)
Lemma gen_start_eq (gen : State -> N -> list State -> gres (State * list State * N)) (mkg : N -> State) :
  (forall s len stk, gen s len stk =
     match s with
     | State_Start => GOk (mkg len, stk, WR_Ok)
     | State_Object o =>
         gbind (ObjectState_write_non_string_value W trap o) (fun '(o1, r) =>
           if negb (r =? WR_Ok) then GOk (State_Object o1, stk, r)
           else gbind (State_swap_and_push W trap (State_Object o1) (mkg len) stk) (fun '(s1, stk1) => GOk (s1, stk1, WR_Ok)))
     | State_Array a =>
         gbind (ArrayState_write_value W trap a) (fun '(a1, r) =>
           if negb (r =? WR_Ok) then GOk (State_Array a1, stk, r)
           else gbind (State_swap_and_push W trap (State_Array a1) (mkg len) stk) (fun '(s1, stk1) => GOk (s1, stk1, WR_Ok)))
     | State_End => GOk (s, stk, WR_ValueAlreadyWritten)
     end) ->
  forall s len stk, agree2 s stk (gen s len stk) (st_start W trap (conv (mkg len)) (conv s) (conv_stack stk)).
Proof.
  intros Hgen s len stk. rewrite Hgen. destruct s as [|o|a|]; cbn [conv st_start agree2].
  - repeat split.
  - pose proof (obj_write_non_string_eq o) as H.
    destruct (ObjectState_write_non_string_value W trap o) as [[o' c]|], (obj_write_non_string W trap _ _); try contradiction; cbn [gbind agree2].
    + destruct H as (H1 & H2). rewrite (wr_ok_eqb _ H1). cbn [negb]. unfold State_swap_and_push. cbn [gbind agree2].
      repeat split. rewrite conv_stack_push, <- H2. reflexivity.
    + destruct H as (H1 & H2 & H3). rewrite (wr_ne_eqb _ H2). cbn [negb agree2]. subst. repeat split; assumption.
    + exact I.
  - pose proof (arr_write_value_eq a) as H.
    destruct (ArrayState_write_value W trap a) as [[a' c]|], (arr_write_value W trap _ _); try contradiction; cbn [gbind agree2].
    + destruct H as (H1 & H2). rewrite (wr_ok_eqb _ H1). cbn [negb]. unfold State_swap_and_push. cbn [gbind agree2].
      repeat split. rewrite conv_stack_push, <- H2. reflexivity.
    + destruct H as (H1 & H2 & H3). rewrite (wr_ne_eqb _ H2). cbn [negb agree2]. subst. repeat split; assumption.
    + exact I.
  - repeat split; codes.
Qed.

Theorem gen_start_object_eq s len stk :
  agree2 s stk (State_start_object W trap s len stk) (st_start W trap (Object len 0) (conv s) (conv_stack stk)).
Proof.
  apply (gen_start_eq (State_start_object W trap) (fun len => State_Object (mkObjectState len 0))).
  intros [|o|a|] l k; reflexivity.
Qed.

Theorem gen_start_array_eq s len stk :
  agree2 s stk (State_start_array W trap s len stk) (st_start W trap (Array len 0) (conv s) (conv_stack stk)).
Proof.
  apply (gen_start_eq (State_start_array W trap) (fun len => State_Array (mkArrayState len 0))).
  intros [|o|a|] l k; reflexivity.
Qed.

Lemma pop_agree stk :
  let '(top, rest) := vec_pop_or State_End stk in
  pop_or_end (conv_stack stk) = (conv top, conv_stack rest).
Proof.
  unfold vec_pop_or, conv_stack. destruct (rev stk) as [|x r] eqn:E; cbn [map pop_or_end conv rev].
  - reflexivity.
  - rewrite rev_involutive. reflexivity.
Qed.

Theorem gen_finish_object_eq s stk :
  agree2 s stk (State_finish_object W trap s stk) (st_finish_object (conv s) (conv_stack stk)).
Proof.
  destruct s as [|o|a|]; cbn [State_finish_object st_finish_object conv agree2]; try (repeat split; codes).
  destruct (negb (ObjectState_num_inserted o mod 2 =? 0) || negb (ObjectState_num_inserted o / 2 =? ObjectState_length o)).
  - cbn [agree2]. repeat split; codes.
  - pose proof (pop_agree stk) as H. destruct (vec_pop_or State_End stk) as [top rest]. rewrite H. cbn [agree2]. repeat split.
Qed.

Theorem gen_finish_array_eq s stk :
  agree2 s stk (State_finish_array W trap s stk) (st_finish_array (conv s) (conv_stack stk)).
Proof.
  destruct s as [|o|a|]; cbn [State_finish_array st_finish_array conv agree2]; try (repeat split; codes).
  destruct (negb (ArrayState_num_inserted a =? ArrayState_length a)).
  - cbn [agree2]. repeat split; codes.
  - pose proof (pop_agree stk) as H. destruct (vec_pop_or State_End stk) as [top rest]. rewrite H. cbn [agree2]. repeat split.
Qed.

End W.

(** Non-vacuity: the agreement relation relates real, different outcomes. *)
Example gen_state_example :
  State_start_object 32 true (State_Array (mkArrayState 2 1)) 3 [State_Start]
  = GOk (State_Object (mkObjectState 3 0), [State_Start; State_Array (mkArrayState 2 2)], WR_Ok)
  /\ State_write_string 32 true (State_Object (mkObjectState 1 2)) = GOk (State_Object (mkObjectState 1 2), WR_ObjectLengthError).
Proof. split; vm_compute; reflexivity. Qed.
