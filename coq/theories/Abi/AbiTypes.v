(** Vocabulary of the ABI tables (generated file Gen/AbiGen.v) and the consistency checker. *)
From Coq Require Import NArith List String Bool.
Import ListNotations.
Open Scope string_scope.

Inductive vtype := TI32 | TI64 | TF32 | TF64.
Definition vtype_eqb (a b : vtype) : bool :=
  match a, b with TI32, TI32 | TI64, TI64 | TF32, TF32 | TF64, TF64 => true | _, _ => false end.
Definition sig := (list vtype * list vtype)%type.
Definition table := list (string * sig).

Fixpoint tys_eqb (a b : list vtype) : bool :=
  match a, b with
  | [], [] => true
  | x :: a', y :: b' => vtype_eqb x y && tys_eqb a' b'
  | _, _ => false
  end.
Definition sig_eqb (a b : sig) : bool := tys_eqb (fst a) (fst b) && tys_eqb (snd a) (snd b).

Fixpoint lookup {A} (n : string) (t : list (string * A)) : option A :=
  match t with [] => None | (k, v) :: r => if String.eqb k n then Some v else lookup n r end.

Definition names {A} (t : list (string * A)) : list string := map fst t.
Definition mem (n : string) (l : list string) : bool := existsb (String.eqb n) l.
Definition subset (a b : list string) : bool := forallb (fun n => mem n b) a.
Definition same_set (a b : list string) : bool := subset a b && subset b a.
Fixpoint nodup_b (l : list string) : bool :=
  match l with [] => true | x :: r => negb (mem x r) && nodup_b r end.

(** every name of [a] is in [b] with the same signature *)
Definition table_sub (a b : table) : bool :=
  forallb (fun '(n, s) => match lookup n b with Some s' => sig_eqb s s' | None => false end) a.
Definition table_same (a b : table) : bool :=
  same_set (names a) (names b) && table_sub a b && nodup_b (names a) && nodup_b (names b).

(** numbering tables: same numbers for the same names; [ren] renames documentation names to code names *)
Definition codes_sub (ren : string -> string) (a b : list (string * N)) : bool :=
  forallb (fun '(n, v) => match lookup (ren n) b with Some v' => N.eqb v v' | None => false end) a.
