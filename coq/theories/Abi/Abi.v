(** C15: all descriptions of the ABI agree. [abi_consistent] is a boolean over the GENERATED tables
    (Gen/AbiGen.v, translator T3, regenerated from the sources and from probes of the real trampoline
    and of the header compiled now); it is decided by vm_compute: the domain is finite. *)
From Coq Require Import NArith List String Bool.
From SFV Require Import Abi.AbiTypes Gen.AbiGen Gen.NanBoxGen Gen.CodesGen.
Import ListNotations.
Open Scope string_scope.

(** 1. the same set of API functions with the same Wasm signatures in the WAT, the header as compiled
       today (and the checked-in compiled header), the Rust import block; exactly that set is accepted
       by the trampoline with those signatures. *)
Definition names_and_signatures : bool :=
  table_same wat_table header_table && table_same wat_table header_checked_in_table && table_same wat_table rust_table
  && same_set (names wat_table) trampoline_accepts.

(** 2. one import module name everywhere = "shopify_function_v" ++ the crate major version. *)
Definition module_names : bool :=
  forallb (String.eqb wat_module)
    ([header_define_module; rust_module; trampoline_module; trampoline_module_from_source; provider_module] ++ header_modules ++ trampoline_emits_modules)
  && forallb (fun '(m, _) => String.eqb m wat_module) trampoline_memory_imports
  && String.prefix "shopify_function_v" wat_module
  (* of all the spellings with the version prefix that were tried on the real tool, exactly the public name is accepted *)
  && forallb (fun '(m, acc) => Bool.eqb acc (String.eqb m wat_module)) trampoline_module_probes
  && existsb (fun '(m, acc) => acc) trampoline_module_probes && Nat.leb 3 (List.length trampoline_module_probes).

(** 3. every low-level import the trampoline emits exists in the provider with the same Wasm signature. *)
Definition emitted_imports_exist : bool := table_sub trampoline_emits provider_exports && nodup_b (names provider_exports).

(** 4. the string-carrying imports are signature-checked; unknown names (the empty name included, since
       the repair of finding F5), other versions and several memories are refused; every underscore
       name the tool lets through is something the provider really exports. *)
Definition trampoline_guards : bool :=
  subset ["shopify_function_input_read_utf8_str"; "shopify_function_input_get_obj_prop"; "shopify_function_output_new_utf8_str";
          "shopify_function_intern_utf8_str"; "shopify_function_log_new_utf8_str"] trampoline_rejects_wrong_sig
  && subset ["shopify_function_input_read_utf8_str"; "shopify_function_input_get_obj_prop"; "shopify_function_output_new_utf8_str";
          "shopify_function_intern_utf8_str"; "shopify_function_log_new_utf8_str"] trampoline_rejects_wrong_sig_dup
  && trampoline_rejects_unknown && trampoline_rejects_empty_name && trampoline_rejects_other_version && trampoline_rejects_two_memories
  && subset trampoline_accepts_lowlevel (names provider_exports).

(** 5. status, error and type-tag numbers in the documentation and header equal those in the code. *)
Definition ren_status (n : string) : string := if String.eqb n "Success" then "Ok" else n.
Definition code_tables : bool :=
  codes_sub ren_status readme_statuses core_write_results && codes_sub (fun n => n) core_write_results (map (fun '(n, v) => (ren_status n, v)) readme_statuses)
  && codes_sub (fun n => n) readme_errors (ErrorCode_variants 32)
  && codes_sub (fun n => n) (filter (fun '(n, _) => negb (String.eqb n "Unknown")) (ErrorCode_variants 32)) readme_errors
  && codes_sub (fun n => n) readme_tags (Tag_variants 32) && codes_sub (fun n => n) (Tag_variants 32) readme_tags
  && codes_sub (fun n => if String.eqb n "WRITE_RESULT_OK" then "Ok" else if String.eqb n "WRITE_RESULT_ERROR" then "IoError" else n)
       (filter (fun '(n, _) => String.prefix "WRITE_RESULT_" n) header_defines) core_write_results.

Definition abi_consistent : bool :=
  names_and_signatures && module_names && emitted_imports_exist && trampoline_guards && code_tables.
