(** Several threads, each with its own context ([thread_local!] CONTEXT, INTERNED_STRING_CACHE, the
    glue's locals), running API steps under an arbitrary interleaving.  The placement of the log
    return area (provider/src/log.rs LOG_RET_AREA) is the parameter [ret_area_global]:
    [true]  = one [static mut] shared by all threads (the code today): [SLogPlan] stores the plan,
              whose destinations point into the CALLING thread's ring buffer, in the shared area;
              [SLogCopy] reads whatever plan is in the shared area and copies to the buffer its
              destinations point into (the buffer of the thread that stored it);
    [false] = a per-thread area ([cret] of the thread's context). *)
From Coq Require Import NArith List Bool String.
From SFV Require Import Base.Bytes Ctx.Interner Ctx.Context Gen.StaticsGen.
From SFV Require Log.Ring.
Import ListNotations.
Open Scope N_scope.

Definition tid := N.

Record world := { th : tid -> ctx; shared : option (tid * Ring.plan) }.

Definition upd (f : tid -> ctx) (t : tid) (c : ctx) : tid -> ctx :=
  fun t' => if t' =? t then c else f t'.

Definition proj {A} (t : tid) (l : list (tid * A)) : list A :=
  map snd (filter (fun p => fst p =? t) l).

Section Threads.
Variable W : N.
Variable trap : bool.
Variable CAP : nat.
Variable ret_area_global : bool.

(** every thread fresh, return area [0; 5] *)
Definition w0 : world := {| th := fun _ => c0 CAP; shared := None |}.

Definition wstep_local (w : world) (t : tid) (s : step) : world * obs :=
  let '(c', o) := lstep W trap CAP (th w t) s in
  ({| th := upd (th w) t c'; shared := shared w |}, o).

Definition wstep (w : world) (t : tid) (s : step) : world * obs :=
  if ret_area_global then
    match s with
    | SLogPlan len =>
        let '(c', p) := do_log_plan CAP (th w t) len in
        ({| th := upd (th w) t c'; shared := Some (t, p) |}, ObPlan p)
    | SLogCopy m =>
        match shared w with
        | Some (owner, p) =>
            let co := th w owner in
            ({| th := upd (th w) owner (set_log co (copy_log (clog co) p m)); shared := shared w |}, ObUnit)
        | None => (w, ObUnit)
        end
    | _ => wstep_local w t s
    end
  else wstep_local w t s.

Fixpoint run_sched (sched : list (tid * step)) (w : world) : world * list (tid * obs) :=
  match sched with
  | [] => (w, [])
  | (t, s) :: rest =>
      let '(w1, o) := wstep w t s in
      let '(w2, os) := run_sched rest w1 in
      (w2, (t, o) :: os)
  end.

(** the steps of thread [t] alone, from the same world *)
Definition run_solo (t : tid) (steps : list step) (w : world) : world * list obs :=
  let '(w', os) := run_sched (map (fun s => (t, s)) steps) w in (w', map snd os).

End Threads.

(** * The generated table of statics (Gen/StaticsGen.v) *)
Definition is_global (p : placement) : bool := match p with Global => true | ThreadLocal => false end.

(** every mutable static of the two crates is thread-local: the assumption under which each
    thread's [ctx] (context, cache) is private to it *)
Definition all_mutable_thread_local (l : list static_item) : bool :=
  forallb (fun it => negb (s_mutable it) || negb (is_global (s_placement it))) l.

(** the placement the generated table gives to the log return area *)
Definition ret_area_global_of (l : list static_item) : bool :=
  existsb (fun it => String.eqb (s_name it) "LOG_RET_AREA" && s_mutable it && is_global (s_placement it)) l.
