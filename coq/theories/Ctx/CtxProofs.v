(** Invariant of the reachable per-thread contexts and the C12 facts at the context level. *)
From Coq Require Import NArith ZArith Lia List Bool Arith ZifyNat ZifyN ZifyBool.
From SFV Require Import Base.Bytes Base.BytesProofs Msgpack.Rmp Read.Lazy Read.ReadRun
  Ctx.Interner Ctx.InternerProofs Ctx.Context.
From SFV Require Write.Writer Log.Ring.
Import ListNotations.
Open Scope N_scope.

(** * The writer only carries the abstract interner along *)
Definition with_int (w : Writer.wctx) (ss : list (list N)) : Writer.wctx :=
  {| Writer.wstate := Writer.wstate w; Writer.wstack := Writer.wstack w; Writer.out := Writer.out w;
     Writer.interned := ss |}.

Lemma with_int_self w : with_int w (Writer.interned w) = w.
Proof. destruct w; reflexivity. Qed.

Lemma with_int_twice w a b : with_int (with_int w a) b = with_int w b.
Proof. reflexivity. Qed.

Lemma mirror_with_int w i : mirror w i = with_int w (istrings i).
Proof. reflexivity. Qed.

Lemma commit_with_int w ss r st bs :
  Writer.commit (with_int w ss) r st bs = (with_int (fst (Writer.commit w r st bs)) ss, snd (Writer.commit w r st bs)).
Proof. destruct r; reflexivity. Qed.

Lemma write_str_with_int W trap w ss s :
  Writer.write_str W trap (with_int w ss) s =
  (with_int (fst (Writer.write_str W trap w s)) ss, snd (Writer.write_str W trap w s)).
Proof. unfold Writer.write_str. rewrite commit_with_int. reflexivity. Qed.

Definition no_id (op : Writer.wop) : Prop := match op with Writer.OIStr _ => False | _ => True end.

Lemma step_with_int W trap w ss op : no_id op ->
  Writer.step W trap (with_int w ss) op =
  (with_int (fst (Writer.step W trap w op)) ss, snd (Writer.step W trap w op)).
Proof.
  intros H. destruct op; try contradiction; cbn [Writer.step];
    try apply commit_with_int; try apply write_str_with_int.
  - cbn [with_int Writer.wstate Writer.wstack].
    destruct (Writer.st_start W trap _ (Writer.wstate w) (Writer.wstack w)) as [r st]. apply commit_with_int.
  - cbn [with_int Writer.wstate Writer.wstack].
    destruct (Writer.st_finish_object (Writer.wstate w) (Writer.wstack w)) as [r st]. apply commit_with_int.
  - cbn [with_int Writer.wstate Writer.wstack].
    destruct (Writer.st_start W trap _ (Writer.wstate w) (Writer.wstack w)) as [r st]. apply commit_with_int.
  - cbn [with_int Writer.wstate Writer.wstack].
    destruct (Writer.st_finish_array (Writer.wstate w) (Writer.wstack w)) as [r st]. apply commit_with_int.
Qed.

Lemma commit_interned w r st bs : Writer.interned (fst (Writer.commit w r st bs)) = Writer.interned w.
Proof. destruct r; reflexivity. Qed.

Lemma step_interned W trap w op : Writer.interned (fst (Writer.step W trap w op)) = Writer.interned w.
Proof.
  destruct op; cbn [Writer.step]; unfold Writer.write_str; try apply commit_interned.
  - destruct (nthN (Writer.interned w) id); [apply commit_interned|reflexivity].
  - destruct (Writer.st_start W trap _ _ _) as [r st]. apply commit_interned.
  - destruct (Writer.st_finish_object _ _) as [r st]. apply commit_interned.
  - destruct (Writer.st_start W trap _ _ _) as [r st]. apply commit_interned.
  - destruct (Writer.st_finish_array _ _) as [r st]. apply commit_interned.
Qed.

Ltac csimp := cbn [fst snd do_read do_init set_rs set_w set_dst set_log set_ret set_idst set_int set_cache set_out
  cin crs cw cint clog ccache cdst cidst cret Writer.interned Writer.wstate Writer.wstack Writer.out with_int] in *.

Section Inv.
Variable W : N.
Variable trap : bool.
Variable CAP : nat.

Notation lstep := (lstep W trap CAP).
Notation lrun := (lrun W trap CAP).

(** * The invariant of reachable contexts.
    [prot]: pairs (id, bytes) whose copy has been performed; together with the cache entries they
    are never the target of the pending interner destination. *)
Definition guarded (c : ctx) (prot : list (N * list N)) (id : N) (s : list N) : Prop :=
  In (id, s) prot \/ In (s, id) (ccache c).

Definition pend_ok (c : ctx) (prot : list (N * list N)) (ss : list (list N)) : Prop :=
  match cidst c with
  | None => True
  | Some (d, len) =>
      exists a z r, ss = a ++ z :: r /\ d = lenN (concat a) /\ len = lenN z /\
                    forall s, ~ guarded c prot (lenN a) s
  end.

Definition Inv (prot : list (N * list N)) (c : ctx) : Prop :=
  exists ss, wf_i (cint c) ss /\ Writer.interned (cw c) = ss /\
             (forall id s, guarded c prot id s -> nthN ss id = Some s) /\ pend_ok c prot ss.

Lemma Inv_c0 : Inv [] (c0 CAP).
Proof.
  exists []. split; [apply wf_i_empty|]. split; [reflexivity|]. split.
  - intros id s [H|H]; destruct H.
  - exact I.
Qed.

Lemma nthN_replace_mid {A} (a : list A) z z' r id : id <> lenN a ->
  nthN (a ++ z' :: r) id = nthN (a ++ z :: r) id.
Proof.
  intros H. destruct (N.lt_ge_cases id (lenN a)) as [Hlt|Hge].
  - rewrite !nthN_app_l by exact Hlt. reflexivity.
  - rewrite !nthN_app_r' by exact Hge. rewrite !nthN_cons_S by lia. reflexivity.
Qed.

Lemma nthN_app_some {A} (a b : list A) id x : nthN a id = Some x -> nthN (a ++ b) id = Some x.
Proof. intros H. rewrite nthN_app_l; [exact H|]. eapply nthN_Some_lt; eauto. Qed.

Lemma lookup_In key k id : lookup key k = Some id -> In (key, id) k.
Proof.
  induction k as [|[k0 i0] k IH]; intros H; [discriminate|].
  cbn [lookup] in H. destruct (bytes_eqb k0 key) eqn:E.
  - apply bytes_eqb_eq in E. injection H as ->. subst. left. reflexivity.
  - right. apply IH, H.
Qed.

(** the interner and the cache after the glue's [intern] (used by [SLoad]) *)
Ltac isimp := unfold pend_ok, guarded in *; csimp.

Ltac keep := (split; [eassumption|]; split; [eassumption|]; split; eassumption).

Lemma Inv_step prot c s : Inv prot c -> Inv prot (fst (lstep c s)).
Proof.
  intros (ss & Hw & Hm & Hg & Hp). unfold Inv in *; isimp.
  destruct s; cbn [Context.lstep].
  - (* SInit *)
    exists ss. isimp. split; [exact Hw|]. split.
    { rewrite mirror_with_int. isimp. apply wf_istrings, Hw. }
    split; [exact Hg|exact Hp].
  - (* SRead *) exists ss. isimp. keep.
  - (* SReadIProp *)
    exists ss. unfold do_read_iprop.
    destruct (scope_of (crs c) sc) as [[]|]; try (isimp; keep).
    destruct (iget (cint c) id); isimp; keep.
  - (* SWrite *)
    exists ss. pose proof (step_interned W trap (cw c) op) as Hi.
    destruct (Writer.step W trap (cw c) op) as [w' r]. isimp.
    split; [exact Hw|]. split; [congruence|]. split; [exact Hg|exact Hp].
  - (* SStrDest *)
    exists ss. unfold do_str_dest.
    pose proof (commit_interned (cw c) (Writer.st_write_string W trap (Writer.wstate (cw c))) (Writer.wstack (cw c))
                  (write_str_len (len mod 2 ^ 32) ++ zeros len)) as Hi.
    destruct (Writer.commit _ _ _ _) as [w' r]. cbn [fst] in Hi.
    destruct r; isimp; (split; [exact Hw|]; split; [congruence|]; split; [exact Hg|exact Hp]).
  - (* SStrCopy *)
    exists ss. unfold do_str_copy. destruct (cdst c) as [[d len]|]; isimp; keep.
  - (* SIStr *)
    exists ss. unfold do_istr. destruct (iget (cint c) id) as [s|]; isimp; [|keep].
    unfold Writer.write_str.
    pose proof (commit_interned (cw c) (Writer.st_write_string W trap (Writer.wstate (cw c))) (Writer.wstack (cw c))
                  (write_str_len (lenN s mod 2 ^ 32) ++ s)) as Hi.
    destruct (Writer.commit _ _ _ _) as [w' r]. isimp.
    split; [exact Hw|]. split; [congruence|]. split; [exact Hg|exact Hp].
  - (* SInternDest *)
    unfold do_intern_dest. destruct (wf_prealloc _ _ len Hw) as [E Hw']. rewrite E in *. isimp.
    exists (ss ++ [zeros len]).
    split; [exact Hw'|]. split; [rewrite mirror_with_int; isimp; apply wf_istrings, Hw'|].
    split.
    + intros id s G. apply nthN_app_some, Hg, G.
    + exists ss, (zeros len), []. split; [reflexivity|]. split; [reflexivity|].
      split; [rewrite lenN_zeros; reflexivity|].
      intros s G. apply Hg in G. apply nthN_Some_lt in G. lia.
  - (* SInternCopy *)
    unfold do_intern_copy. destruct (cidst c) as [[d len]|] eqn:Ed; isimp; [|exists ss; rewrite Ed; keep].
    destruct Hp as (a & z & r & -> & -> & -> & Hn).
    destruct (wf_copy_region _ a z r s Hw) as (z' & Hl & Hw').
    exists (a ++ z' :: r).
    split; [exact Hw'|]. split; [rewrite mirror_with_int; isimp; apply wf_istrings, Hw'|].
    split; [|exact I].
    intros id s0 G. rewrite (nthN_replace_mid a z z' r); [apply Hg, G|].
    intros ->. apply (Hn s0). exact G.
  - (* SLogPlan *)
    unfold do_log_plan. destruct (Ring.append CAP (clog c) (N.to_nat len)) as [l' p].
    exists ss. isimp. keep.
  - (* SLogCopy *)
    exists ss. destruct (cret c); isimp; keep.
  - (* SLoad *)
    unfold do_load. destruct (lookup key (ccache c)) as [id|] eqn:El; isimp; [exists ss; keep|].
    destruct (wf_intern _ _ key Hw) as [Eid Hw']. destruct (intern (cint c) key) as [i' id]. isimp. subst id.
    exists (ss ++ [key]).
    split; [exact Hw'|]. split; [rewrite mirror_with_int; isimp; apply wf_istrings, Hw'|].
    assert (Hg' : forall id s, In (id, s) prot \/ In (s, id) ((key, lenN ss) :: ccache c) ->
                   (id = lenN ss /\ s = key) \/ (In (id, s) prot \/ In (s, id) (ccache c))).
    { intros id s [G|G]; [right; left; exact G|]. destruct G as [G|G].
      - injection G as <- <-. left. split; reflexivity.
      - right. right. exact G. }
    split.
    + intros id s G. apply Hg' in G. destruct G as [[-> ->]|G]; [apply nthN_snoc|apply nthN_app_some, Hg, G].
    + destruct (cidst c) as [[d len]|]; [|exact I].
      destruct Hp as (a & z & r & -> & -> & -> & Hn).
      exists a, z, (r ++ [key]). split; [rewrite <- app_assoc; reflexivity|]. split; [reflexivity|]. split; [reflexivity|].
      intros s G. apply Hg' in G. destruct G as [[E _]|G]; [|exact (Hn s G)].
      rewrite lenN_app, lenN_cons in E. lia.
  - (* SFinalize *)
    destruct (Writer.finalize (cw c)) as [st bs]. exists ss. keep.
  - exists ss. keep.
  - exists ss. keep.
Qed.

Lemma Inv_run prot : forall h c, Inv prot c -> Inv prot (fst (lrun h c)).
Proof.
  induction h as [|s h IH]; intros c H; [exact H|].
  cbn [Context.lrun]. pose proof (Inv_step prot c s H) as H1.
  destruct (lstep c s) as [c1 o]. cbn [fst] in H1. specialize (IH c1 H1).
  destruct (lrun h c1) as [c2 os]. exact IH.
Qed.

Lemma Inv_reachable h : Inv [] (fst (lrun h (c0 CAP))).
Proof. apply Inv_run, Inv_c0. Qed.

End Inv.

(** * C12 at the context level *)
Section C12.
Variable W : N.
Variable trap : bool.
Variable CAP : nat.

Notation lstep := (lstep W trap CAP).
Notation lrun := (lrun W trap CAP).

(** an interned property lookup is the lookup by the bytes the id resolves to *)
Theorem c12_iprop c sc id s : iget (cint c) id = Some s ->
  lstep c (SReadIProp sc id) = lstep c (SRead (RProp sc s)).
Proof.
  intros H. cbn [Context.lstep]. unfold do_read_iprop.
  destruct (scope_of (crs c) sc) as [a|] eqn:E; [destruct a|]; rewrite ?H; try reflexivity;
    unfold do_read, exec; rewrite E; reflexivity.
Qed.

(** ... and an id that was never handed out panics (only once the scope is an object) *)
Theorem c12_iprop_unknown c sc id h l : iget (cint c) id = None -> scope_of (crs c) sc = SAns (AObj h l) ->
  snd (lstep c (SReadIProp sc id)) = ObRead (OPanic Writer.P_interner_index).
Proof. intros H E. cbn [Context.lstep]. unfold do_read_iprop. rewrite E, H. reflexivity. Qed.

(** writing by id is writing the bytes (whole call) *)
Theorem c12_istr c id s : iget (cint c) id = Some s ->
  lstep c (SIStr id) = lstep c (SWrite (Writer.OStr s)).
Proof. intros H. cbn [Context.lstep Writer.step]. unfold do_istr. rewrite H. reflexivity. Qed.

Theorem c12_istr_unknown c id : iget (cint c) id = None ->
  lstep c (SIStr id) = (c, ObW (Writer.WPanic Writer.P_interner_index)).
Proof. intros H. cbn [Context.lstep]. unfold do_istr. rewrite H. reflexivity. Qed.

(** the direct string write of the glue (destination, then copy) is the whole-call string write *)
Theorem str_pair c s :
  exists d, lrun [SStrDest (lenN s); SStrCopy s] c =
    (set_dst (set_w c (fst (Writer.write_str W trap (cw c) s))) None,
     [ObDest (snd (Writer.write_str W trap (cw c) s)) d; ObUnit]).
Proof.
  cbn [Context.lrun Context.lstep]. unfold do_str_dest, Writer.write_str.
  destruct (Writer.st_write_string W trap (Writer.wstate (cw c))) as [st|code|site]; cbn [Writer.commit].
  - eexists. unfold do_str_copy. csimp. cbn [set_dst set_w set_out cdst cw Writer.out fst snd].
    rewrite takeN_all.
    replace (overwrite _ _ s) with (Writer.out (cw c) ++ write_str_len (lenN s mod 2 ^ 32) ++ s); [reflexivity|].
    pose proof (overwrite_zeros (Writer.out (cw c) ++ write_str_len (lenN s mod 2 ^ 32)) s []) as H.
    rewrite takeN_all, lenN_app, !app_nil_r, <- !app_assoc in H. symmetry. exact H.
  - eexists. unfold do_str_copy. csimp. destruct c as [? ? [] ? ? ? ? ? ?]; reflexivity.
  - eexists. unfold do_str_copy. csimp. destruct c as [? ? [] ? ? ? ? ? ?]; reflexivity.
Qed.

(** every interning call returns the number of strings interned so far on this thread, an id that
    did not resolve before; all existing ids keep their bytes; afterwards the id is protected *)
Theorem intern_pair prot c s : Inv prot c ->
  let id := lenN (Writer.interned (cw c)) in
  exists c' d, lrun [SInternDest (lenN s); SInternCopy s] c = (c', [ObIntern id d; ObUnit])
    /\ id = lenN (spans (cint c)) /\ iget (cint c) id = None
    /\ cint c' = fst (intern (cint c) s)
    /\ Inv ((id, s) :: prot) c'.
Proof.
  intros (ss & Hw & Hm & Hg & Hp). cbn zeta. rewrite Hm.
  cbn [Context.lrun Context.lstep]. unfold do_intern_dest.
  destruct (wf_prealloc _ _ (lenN s) Hw) as [E Hw']. rewrite E in *. cbn [fst] in Hw'.
  unfold do_intern_copy. csimp. rewrite takeN_all.
  pose proof (wf_copy_exact _ ss (zeros (lenN s)) [] s Hw' (eq_sym (lenN_zeros _))) as Hw2.
  eexists. eexists. split; [reflexivity|].
  split; [destruct Hw as [_ ->]; rewrite lenN_offsets; reflexivity|].
  split; [rewrite (wf_iget _ _ _ Hw); apply nthN_ge_None; lia|].
  split.
  { unfold intern, preallocate. destruct Hw as [-> ->]. rewrite lenN_offsets. reflexivity. }
  exists (ss ++ [s]). unfold pend_ok, guarded. csimp.
  split; [exact Hw2|]. split; [rewrite mirror_with_int; csimp; apply wf_istrings, Hw2|].
  split; [|exact I].
  intros id s0 [[G|G]|G].
  - injection G as <- <-. apply nthN_snoc.
  - apply nthN_app_some, Hg. left. exact G.
  - apply nthN_app_some, Hg. right. exact G.
Qed.

(** a protected id resolves to its bytes for ever: any later steps, any number of SInit, any
    number and size of strings interned afterwards *)
Theorem protected_stable prot c id s : Inv prot c -> In (id, s) prot ->
  forall h, iget (cint (fst (lrun h c))) id = Some s.
Proof.
  intros HI Hin h. destruct (Inv_run W trap CAP prot h c HI) as (ss & Hw & _ & Hg & _).
  rewrite (wf_iget _ _ _ Hw). apply Hg. left. exact Hin.
Qed.

Lemma Inv_add_cached prot c key id : Inv prot c -> In (key, id) (ccache c) -> Inv ((id, key) :: prot) c.
Proof.
  intros (ss & Hw & Hm & Hg & Hp) Hin. exists ss. split; [exact Hw|]. split; [exact Hm|].
  assert (Hg' : forall i s, guarded c ((id, key) :: prot) i s -> guarded c prot i s).
  { intros i s [[G|G]|G]; [injection G as <- <-; right; exact Hin|left; exact G|right; exact G]. }
  split; [intros i s G; apply Hg, Hg', G|].
  unfold pend_ok in *. destruct (cidst c) as [[d len]|]; [|exact I].
  destruct Hp as (a & z & r & E1 & E2 & E3 & Hn). exists a, z, r. repeat (split; [assumption|]).
  intros s G. apply (Hn s), Hg', G.
Qed.

(** CachedInternedStringId::load returns an id that resolves to the key's bytes, and caches it *)
Theorem load_valid prot c key : Inv prot c ->
  exists c' id, lstep c (SLoad key) = (c', ObId id) /\ lookup key (ccache c') = Some id
    /\ iget (cint c') id = Some key /\ Inv ((id, key) :: prot) c'.
Proof.
  intros HI. pose proof (Inv_step W trap CAP prot c (SLoad key) HI) as HI'.
  cbn [Context.lstep] in *. unfold do_load in *.
  destruct (lookup key (ccache c)) as [id|] eqn:El.
  - exists c, id. cbn [fst] in HI'. split; [reflexivity|]. split; [exact El|].
    apply lookup_In in El. pose proof (Inv_add_cached _ _ _ _ HI El) as H2. split; [|exact H2].
    apply (protected_stable _ _ _ _ H2 (or_introl eq_refl) []).
  - destruct (intern (cint c) key) as [i' id]. cbn [fst] in HI'.
    eexists. exists id. split; [reflexivity|]. csimp.
    assert (El' : lookup key ((key, id) :: ccache c) = Some id).
    { cbn [lookup]. rewrite bytes_eqb_refl. reflexivity. }
    split; [exact El'|].
    assert (Hin : In (key, id) (ccache (set_cache (set_int c i') ((key, id) :: ccache c)))) by (left; reflexivity).
    pose proof (Inv_add_cached _ _ _ _ HI' Hin) as H2. split; [|exact H2].
    apply (protected_stable _ _ _ _ H2 (or_introl eq_refl) []).
Qed.

(** the cache only grows: a cached key keeps its id under every later step *)
Lemma cache_step c s key id : lookup key (ccache c) = Some id -> lookup key (ccache (fst (lstep c s))) = Some id.
Proof.
  intros H. destruct s as [b|op|sc i|op|n|s0|i|n|s0|n|m|k0| | | ]; cbn [Context.lstep].
  - exact H.
  - exact H.
  - unfold do_read_iprop. destruct (scope_of (crs c) sc) as [[]|]; try exact H. destruct (iget (cint c) i); exact H.
  - destruct (Writer.step W trap (cw c) op). exact H.
  - unfold do_str_dest. destruct (Writer.commit _ _ _ _) as [w' []]; exact H.
  - unfold do_str_copy. destruct (cdst c) as [[]|]; exact H.
  - unfold do_istr. destruct (iget (cint c) i) as [l|]; [|exact H]. destruct (Writer.write_str W trap (cw c) l). exact H.
  - unfold do_intern_dest. destruct (preallocate (cint c) n) as [[] ?]. exact H.
  - unfold do_intern_copy. destruct (cidst c) as [[]|]; exact H.
  - unfold do_log_plan. destruct (Ring.append CAP (clog c) (N.to_nat n)). exact H.
  - destruct (cret c); exact H.
  - unfold do_load. destruct (lookup k0 (ccache c)) eqn:E; [exact H|].
    destruct (intern (cint c) k0) as [i' id']. csimp. cbn [lookup].
    destruct (bytes_eqb k0 key) eqn:Eb; [|exact H]. apply bytes_eqb_eq in Eb. congruence.
  - destruct (Writer.finalize (cw c)). exact H.
  - exact H.
  - exact H.
Qed.

Lemma cache_run key id : forall h c, lookup key (ccache c) = Some id -> lookup key (ccache (fst (lrun h c))) = Some id.
Proof.
  induction h as [|s h IH]; intros c H; [exact H|].
  cbn [Context.lrun]. pose proof (cache_step c s key id H) as H1.
  destruct (lstep c s) as [c1 o]. cbn [fst] in H1. specialize (IH c1 H1). destruct (lrun h c1). exact IH.
Qed.

(** the same id on every load within a thread, whatever happens in between, and it still
    resolves to the key's bytes *)
Theorem load_same prot c key : Inv prot c ->
  forall h, let c1 := fst (lstep c (SLoad key)) in let c2 := fst (lrun h c1) in
    snd (lstep c2 (SLoad key)) = snd (lstep c (SLoad key)) /\ fst (lstep c2 (SLoad key)) = c2
    /\ exists id, snd (lstep c (SLoad key)) = ObId id /\ iget (cint c2) id = Some key.
Proof.
  intros HI h. destruct (load_valid prot c key HI) as (c' & id & E & El & _ & HI').
  rewrite E. cbn [fst snd]. pose proof (cache_run key id h c' El) as El2.
  cbn [Context.lstep]. unfold do_load. rewrite El2. cbn [fst snd]. split; [reflexivity|]. split; [reflexivity|].
  exists id. split; [reflexivity|]. apply (protected_stable _ _ _ _ HI' (or_introl eq_refl)).
Qed.

End C12.

(** the C12 statement at the context level, assembled *)
Theorem c12_context (W : N) (trap : bool) (CAP : nat) (h1 h2 : list step) (s : list N) :
  let c1 := fst (lrun W trap CAP h1 (c0 CAP)) in
  let id := lenN (spans (cint c1)) in
  exists c2 d,
    lrun W trap CAP [SInternDest (lenN s); SInternCopy s] c1 = (c2, [ObIntern id d; ObUnit])
    /\ iget (cint c1) id = None
    /\ let c3 := fst (lrun W trap CAP h2 c2) in
       iget (cint c3) id = Some s
       /\ (forall sc, lstep W trap CAP c3 (SReadIProp sc id) = lstep W trap CAP c3 (SRead (RProp sc s)))
       /\ lstep W trap CAP c3 (SIStr id) = lstep W trap CAP c3 (SWrite (Writer.OStr s))
       /\ exists dd, lrun W trap CAP [SStrDest (lenN s); SStrCopy s] c3 =
            (set_dst (fst (lstep W trap CAP c3 (SIStr id))) None,
             [ObDest (match snd (lstep W trap CAP c3 (SIStr id)) with ObW r => r | _ => Writer.WOk end) dd; ObUnit]).
Proof.
  cbn zeta.
  destruct (intern_pair W trap CAP [] _ s (Inv_reachable W trap CAP h1)) as (c2 & d & E & Eid & Hn & _ & HI).
  cbn zeta in *. rewrite <- Eid. exists c2, d. split; [exact E|]. split; [exact Hn|].
  pose proof (protected_stable W trap CAP _ c2 _ s HI (or_introl eq_refl) h2) as Hs.
  split; [exact Hs|]. split; [intros sc; apply c12_iprop, Hs|]. split; [apply c12_istr, Hs|].
  destruct (str_pair W trap CAP (fst (lrun W trap CAP h2 c2)) s) as (dd & Ep). exists dd. rewrite Ep.
  rewrite (c12_istr W trap CAP _ _ s Hs). cbn [lstep Writer.step].
  destruct (Writer.write_str W trap _ s) as [w' r]. reflexivity.
Qed.

(** on reachable contexts the writer's abstract view agrees with the interner: the whole-call
    form [SWrite (OIStr id)] is [SIStr id] *)
Theorem swrite_oistr (W : N) (trap : bool) (CAP : nat) prot c id : Inv prot c ->
  lstep W trap CAP c (SWrite (Writer.OIStr id)) = lstep W trap CAP c (SIStr id).
Proof.
  intros (ss & Hw & Hm & _). cbn [lstep Writer.step]. unfold do_istr.
  rewrite (wf_iget _ _ _ Hw), Hm. destruct (nthN ss id) as [s|]; [reflexivity|]. destruct c; reflexivity.
Qed.

Theorem mirror_reachable (W : N) (trap : bool) (CAP : nat) h :
  let c := fst (lrun W trap CAP h (c0 CAP)) in
  Writer.interned (cw c) = istrings (cint c) /\ forall id, nthN (Writer.interned (cw c)) id = iget (cint c) id.
Proof.
  cbn zeta. destruct (Inv_reachable W trap CAP h) as (ss & Hw & Hm & _).
  rewrite Hm, (wf_istrings _ _ Hw). split; [reflexivity|]. intros id. symmetry. apply wf_iget, Hw.
Qed.
