(** EXPECTED TO FAIL TO COMPILE while provider/src/log.rs declares LOG_RET_AREA as a plain
    [static mut]; compiles once the regenerated Gen/StaticsGen.v lists every mutable static as
    ThreadLocal.  Together with Properties/C14.v [C14_statics] it yields C14 for the code. *)
From Coq Require Import NArith List Bool.
From SFV Require Import Ctx.Context Ctx.Threads Ctx.ThreadsProofs Gen.StaticsGen.

Lemma C14_hyp : all_mutable_thread_local StaticsGen.statics = true.
Proof. vm_compute. reflexivity. Qed.

Theorem C14_for_the_code :
  forall (W : N) (trap : bool) (CAP : nat) (sched : list (tid * step)) (t : tid) (w : world),
    proj t (snd (run_sched W trap CAP (ret_area_global_of StaticsGen.statics) sched w))
    = snd (run_solo W trap CAP (ret_area_global_of StaticsGen.statics) t (proj t sched) w).
Proof. exact (c14_statics C14_hyp). Qed.
