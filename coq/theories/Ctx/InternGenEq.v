(** The interner model over which C12 is proved (Ctx/Interner.v) IS the Rust code:
    [StringInterner::preallocate] and [StringInterner::get] of provider/src/string_interner.rs, regenerated
    from the source by translator T8 into Gen/InternGen.v, compute exactly the model's [preallocate] /
    [iget] -- for every interner whose buffer fits the address space (so [offset + len] does not overflow),
    every length, every id (an unknown id or a span outside the buffer is a panic in both), both overflow
    modes.  The destination pointer [buf[offset..].as_ptr()] is the offset into the buffer. *)
From Coq Require Import NArith List Bool Lia.
From SFV Require Import Base.Bytes Base.BytesProofs Base.RsPrelude Gen.InternGen Ctx.Interner Ctx.InternerProofs.
Import ListNotations.
Open Scope N_scope.

Definition conv (i : interner) : StringInterner := mkStringInterner (ibuf i) (spans i).

Lemma resize_grow (l : list N) (n : N) : vec_resize l (lenN l + n) 0 = l ++ zeros n.
Proof.
  unfold vec_resize, zeros. destruct (N.leb_spec (lenN l + n) (lenN l)) as [H|H].
  - assert (n = 0) by lia. subst n. rewrite N.add_0_r, takeN_all. cbn [N.to_nat repeat]. rewrite app_nil_r. reflexivity.
  - replace (lenN l + n - lenN l) with n by lia. reflexivity.
Qed.

Section W.
Variable W : N.
Variable trap : bool.

Theorem gen_preallocate_eq (i : interner) (len : N) :
  lenN (ibuf i) + len < 2 ^ W ->
  StringInterner_preallocate W trap (conv i) len =
  let '(i', id, off) := preallocate i len in GOk (conv i', (id, Some off)).
Proof.
  intros Hfit. unfold StringInterner_preallocate, preallocate, conv.
  cbn [StringInterner_buf StringInterner_spans StringInterner_set_buf StringInterner_set_spans ibuf spans].
  unfold u_add. cbv zeta. destruct (N.ltb_spec (lenN (ibuf i) + len) (2 ^ W)) as [_|Hc]; [|lia]. cbn [gbind].
  rewrite resize_grow. unfold vec_ptr_at. rewrite lenN_app, lenN_zeros.
  destruct (N.ltb_spec (lenN (ibuf i) + len) (lenN (ibuf i))) as [Hc|_]; [lia|]. cbn [gbind]. reflexivity.
Qed.

(** [get]: same bytes, or both panic ([None] = the model's panic) *)
Theorem gen_get_eq (i : interner) (id : N) :
  (forall o l, nthN (spans i) id = Some (o, l) -> o + l < 2 ^ W) ->
  match StringInterner_get W trap (conv i) id, iget i id with
  | GOk a, Some b => a = b
  | GPanic _, None => True
  | _, _ => False
  end.
Proof.
  intros Hfit. unfold StringInterner_get, iget, conv, vec_index. cbn [StringInterner_buf StringInterner_spans].
  destruct (nthN (spans i) id) as [[o l]|] eqn:E; cbn [gbind]; [|exact I].
  specialize (Hfit o l eq_refl).
  unfold u_add. cbv zeta. destruct (N.ltb_spec (o + l) (2 ^ W)) as [_|Hc]; [|lia]. cbn [gbind].
  unfold vec_slice.
  destruct (N.ltb_spec (o + l) o) as [Hc|_]; [lia|]. cbn [orb].
  destruct (N.ltb_spec (lenN (ibuf i)) (o + l)) as [Hout|Hin]; destruct (N.leb_spec (o + l) (lenN (ibuf i))) as [Hin'|Hout']; try lia; cbn [gbind].
  - exact I.
  - replace (o + l - o) with l by lia. reflexivity.
Qed.

(** In every state reachable by interning strings whose total size fits the address space, every id
    resolves through the translated [get] to the interned bytes. *)
Theorem gen_get_reachable (ss : list (list N)) (id : N) (s : list N) :
  lenN (concat ss) < 2 ^ W -> nthN ss id = Some s ->
  StringInterner_get W trap (conv (fst (intern_all ss))) id = GOk s.
Proof.
  intros Hfit Hid.
  pose proof (intern_get_all ss id) as Hg. rewrite Hid in Hg.
  destruct (intern_all_spec ss) as [[Hb Hs] _].
  assert (Hsp : forall o l, nthN (spans (fst (intern_all ss))) id = Some (o, l) -> o + l < 2 ^ W).
  { intros o l E. unfold iget in Hg. rewrite E in Hg.
    destruct (N.leb_spec (o + l) (lenN (ibuf (fst (intern_all ss))))) as [Hle|]; [|discriminate].
    rewrite Hb in Hle. lia. }
  pose proof (gen_get_eq (fst (intern_all ss)) id Hsp) as H.
  rewrite Hg in H. destruct (StringInterner_get W trap (conv (fst (intern_all ss))) id); [|contradiction].
  subst. reflexivity.
Qed.

End W.

Example gen_intern_example :
  StringInterner_preallocate 32 true (mkStringInterner [1; 2; 3] [(0, 3)]) 2
  = GOk (mkStringInterner [1; 2; 3; 0; 0] [(0, 3); (3, 2)], (1, Some 3))
  /\ StringInterner_get 32 true (mkStringInterner [1; 2; 3; 7; 8] [(0, 3); (3, 2)]) 1 = GOk [7; 8]
  /\ StringInterner_get 32 true (mkStringInterner [1; 2; 3] [(0, 3)]) 1 = GPanic P_index.
Proof. repeat split; vm_compute; reflexivity. Qed.
