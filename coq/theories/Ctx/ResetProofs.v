(** C13: a script that starts with [KInit] observes, after ANY earlier history on the thread, what
    it observes on a fresh thread -- up to the values of the interned ids (which deliberately
    survive), and exactly up to a uniform shift of the ids when the history's id cache is not hit. *)
From Coq Require Import NArith ZArith Lia List Bool Arith ZifyNat ZifyN ZifyBool.
From SFV Require Import Base.Bytes Base.BytesProofs Msgpack.Rmp Read.Lazy Read.ReadRun
  Ctx.Interner Ctx.InternerProofs Ctx.Context Ctx.CtxProofs.
From SFV Require Write.Writer Log.Ring.
Import ListNotations.
Open Scope N_scope.

Definition plain (o : obs) : Prop := match o with ObIntern _ _ | ObId _ => False | _ => True end.

Lemma plain_facts n B os : Forall plain os ->
  flat_map ids_of os = [] /\ map (shift_id n B) os = os.
Proof.
  induction 1 as [|o os Ho _ [IH1 IH2]]; [split; reflexivity|].
  cbn [flat_map map]. rewrite IH1, IH2. destruct o; try contradiction; split; reflexivity.
Qed.

Section Rel.
Variable W : N.
Variable trap : bool.
Variable CAP : nat.
(** [P] switches the exact (shift) part of the relation on; [n], [B]: number of strings / bytes
    interned by the history; [keyok]: the keys the script may load *)
Variable P : Prop.
Variables n B : N.
Variable keyok : list N -> Prop.

Notation lstep := (lstep W trap CAP).
Notation lrun := (lrun W trap CAP).
Notation srun := (srun W trap CAP).

Definition core_eq (c1 c2 : ctx) : Prop :=
  cin c1 = cin c2 /\ crs c1 = crs c2 /\ clog c1 = clog c2 /\
  cw c1 = with_int (cw c2) (Writer.interned (cw c1)).

Definition frame (c c' : ctx) : Prop :=
  cint c' = cint c /\ ccache c' = ccache c /\ Writer.interned (cw c') = Writer.interned (cw c).

Definition cache_ok (ss : list (list N)) (k : list (list N * N)) : Prop :=
  forall key id, In (key, id) k -> nthN ss id = Some key.

Definition side (c : ctx) (ss : list (list N)) : Prop :=
  wf_i (cint c) ss /\ Writer.interned (cw c) = ss /\ cache_ok ss (ccache c).

Definition ids_rel (ss1 ss2 : list (list N)) (ids1 ids2 : list N) : Prop :=
  Forall2 (fun a b => exists s, nthN ss1 a = Some s /\ nthN ss2 b = Some s) ids1 ids2.

Definition exact (c1 c2 : ctx) (ss1 ss2 : list (list N)) (ids1 ids2 : list N) : Prop :=
  ids1 = map (N.add n) ids2 /\ lenN ss1 = n + lenN ss2 /\ lenN (concat ss1) = B + lenN (concat ss2) /\
  forall key, keyok key -> lookup key (ccache c1) = option_map (N.add n) (lookup key (ccache c2)).

Definition Rel (c1 : ctx) (ids1 : list N) (c2 : ctx) (ids2 : list N) : Prop :=
  core_eq c1 c2 /\
  exists ss1 ss2, side c1 ss1 /\ side c2 ss2 /\ ids_rel ss1 ss2 ids1 ids2 /\
    (forall key, lookup key (ccache c1) = None -> lookup key (ccache c2) = None) /\
    (P -> exact c1 c2 ss1 ss2 ids1 ids2).

Definition obs_rel (o1 o2 : list obs) : Prop :=
  map erase_id o1 = map erase_id o2 /\ (P -> o1 = map (shift_id n B) o2).

Lemma side_frame c c' ss : frame c c' -> side c ss -> side c' ss.
Proof. intros (E1 & E2 & E3) (H1 & H2 & H3). unfold side. rewrite E1, E2, E3. auto. Qed.

(** calls that touch neither the interner nor the cache nor produce ids *)
Definition core_ok (steps : list step) : Prop :=
  forall c1 c2, core_eq c1 c2 ->
    snd (lrun steps c1) = snd (lrun steps c2) /\ Forall plain (snd (lrun steps c1)) /\
    core_eq (fst (lrun steps c1)) (fst (lrun steps c2)) /\
    frame c1 (fst (lrun steps c1)) /\ frame c2 (fst (lrun steps c2)).

Lemma rel_core steps c1 ids1 c2 ids2 : core_ok steps -> Rel c1 ids1 c2 ids2 ->
  obs_rel (snd (lrun steps c1)) (snd (lrun steps c2)) /\
  Rel (fst (lrun steps c1)) (ids1 ++ flat_map ids_of (snd (lrun steps c1)))
      (fst (lrun steps c2)) (ids2 ++ flat_map ids_of (snd (lrun steps c2))).
Proof.
  intros Hc (Hce & ss1 & ss2 & S1 & S2 & Hi & Hk & Hx).
  destruct (Hc c1 c2 Hce) as (Eo & Hp & Hce' & F1 & F2).
  rewrite <- Eo. destruct (plain_facts n B _ Hp) as [E1 E2]. rewrite E1, !app_nil_r.
  split; [split; [reflexivity|intros _; symmetry; exact E2]|].
  split; [exact Hce'|]. exists ss1, ss2.
  split; [eapply side_frame; eauto|]. split; [eapply side_frame; eauto|]. split; [exact Hi|].
  destruct F1 as (_ & K1 & _), F2 as (_ & K2 & _). rewrite K1, K2. split; [exact Hk|].
  intros p. destruct (Hx p) as (X1 & X2 & X3 & X4). unfold exact. rewrite K1, K2. auto.
Qed.

Lemma frame_refl c : frame c c.
Proof. repeat split. Qed.

Ltac ce_destruct H := destruct H as (Ei & Er & El & Ew).

Lemma core_read op : core_ok [SRead op].
Proof.
  intros c1 c2 H. ce_destruct H. cbn [Context.lrun Context.lstep]. unfold do_read. rewrite Ei, Er. csimp.
  split; [reflexivity|]. split; [repeat constructor|]. split; [unfold core_eq; csimp; auto|].
  split; unfold frame; csimp; auto.
Qed.

Lemma core_write op : no_id op -> core_ok [SWrite op].
Proof.
  intros Hn c1 c2 H. ce_destruct H. cbn [Context.lrun Context.lstep].
  remember (Writer.interned (cw c1)) as it1 eqn:Hit. rewrite Ew. rewrite step_with_int by exact Hn.
  pose proof (step_interned W trap (cw c2) op) as Hi.
  destruct (Writer.step W trap (cw c2) op) as [w' r]. csimp.
  split; [reflexivity|]. split; [repeat constructor|]. split; [unfold core_eq; csimp; auto|].
  split; unfold frame; csimp; auto.
Qed.

Lemma core_str s : core_ok [SStrDest (lenN s); SStrCopy s].
Proof.
  intros c1 c2 H. ce_destruct H. cbn [Context.lrun Context.lstep]. unfold do_str_dest.
  remember (Writer.interned (cw c1)) as it1 eqn:Hit. rewrite Ew. csimp. rewrite commit_with_int.
  pose proof (commit_interned (cw c2) (Writer.st_write_string W trap (Writer.wstate (cw c2))) (Writer.wstack (cw c2))
                (write_str_len (lenN s mod 2 ^ 32) ++ zeros (lenN s))) as Hi.
  destruct (Writer.commit (cw c2) _ _ _) as [w' r]. csimp.
  destruct r; unfold do_str_copy; csimp;
    (split; [reflexivity|]; split; [repeat constructor|]; split; [unfold core_eq; csimp; auto|];
     split; unfold frame; csimp; auto).
Qed.

Lemma core_log m : core_ok [SLogPlan (lenN m); SLogCopy m].
Proof.
  intros c1 c2 H. ce_destruct H. cbn [Context.lrun Context.lstep]. unfold do_log_plan. rewrite El.
  destruct (Ring.append CAP (clog c2) (N.to_nat (lenN m))) as [l' p]. csimp.
  split; [reflexivity|]. split; [repeat constructor|]. split; [unfold core_eq; csimp; auto|].
  split; unfold frame; csimp; auto.
Qed.

Lemma core_finalize : core_ok [SFinalize].
Proof.
  intros c1 c2 H. ce_destruct H. cbn [Context.lrun Context.lstep].
  assert (E : Writer.finalize (cw c1) = Writer.finalize (cw c2)) by (rewrite Ew; reflexivity).
  rewrite E. destruct (Writer.finalize (cw c2)) as [st bs]. csimp.
  split; [reflexivity|]. split; [repeat constructor|]. split; [unfold core_eq; auto|].
  split; apply frame_refl.
Qed.

Lemma core_view : core_ok [SView].
Proof.
  intros c1 c2 H. ce_destruct H. cbn [Context.lrun Context.lstep]. rewrite El. csimp.
  split; [reflexivity|]. split; [repeat constructor|]. split; [unfold core_eq; auto|].
  split; apply frame_refl.
Qed.

Lemma core_out : core_ok [SOut].
Proof.
  intros c1 c2 H. ce_destruct H. cbn [Context.lrun Context.lstep].
  assert (E : Writer.out (cw c1) = Writer.out (cw c2)) by (rewrite Ew; reflexivity).
  rewrite E. csimp.
  split; [reflexivity|]. split; [repeat constructor|]. split; [unfold core_eq; auto|].
  split; apply frame_refl.
Qed.

(** reading / writing through related ids *)
Lemma rel_iprop sc a b s c1 ids1 c2 ids2 : Rel c1 ids1 c2 ids2 ->
  iget (cint c1) a = Some s -> iget (cint c2) b = Some s ->
  obs_rel (snd (lrun [SReadIProp sc a] c1)) (snd (lrun [SReadIProp sc b] c2)) /\
  Rel (fst (lrun [SReadIProp sc a] c1)) (ids1 ++ flat_map ids_of (snd (lrun [SReadIProp sc a] c1)))
      (fst (lrun [SReadIProp sc b] c2)) (ids2 ++ flat_map ids_of (snd (lrun [SReadIProp sc b] c2))).
Proof.
  intros HR Ha Hb.
  assert (E1 : lrun [SReadIProp sc a] c1 = lrun [SRead (RProp sc s)] c1).
  { cbn [Context.lrun]. rewrite (c12_iprop W trap CAP c1 sc a s Ha). reflexivity. }
  assert (E2 : lrun [SReadIProp sc b] c2 = lrun [SRead (RProp sc s)] c2).
  { cbn [Context.lrun]. rewrite (c12_iprop W trap CAP c2 sc b s Hb). reflexivity. }
  rewrite E1, E2. apply rel_core; [apply core_read|exact HR].
Qed.

Lemma rel_istr a b s c1 ids1 c2 ids2 : Rel c1 ids1 c2 ids2 ->
  iget (cint c1) a = Some s -> iget (cint c2) b = Some s ->
  obs_rel (snd (lrun [SIStr a] c1)) (snd (lrun [SIStr b] c2)) /\
  Rel (fst (lrun [SIStr a] c1)) (ids1 ++ flat_map ids_of (snd (lrun [SIStr a] c1)))
      (fst (lrun [SIStr b] c2)) (ids2 ++ flat_map ids_of (snd (lrun [SIStr b] c2))).
Proof.
  intros HR Ha Hb.
  assert (E1 : lrun [SIStr a] c1 = lrun [SWrite (Writer.OStr s)] c1).
  { cbn [Context.lrun]. rewrite (c12_istr W trap CAP c1 a s Ha). reflexivity. }
  assert (E2 : lrun [SIStr b] c2 = lrun [SWrite (Writer.OStr s)] c2).
  { cbn [Context.lrun]. rewrite (c12_istr W trap CAP c2 b s Hb). reflexivity. }
  rewrite E1, E2. apply rel_core; [apply core_write; exact I|exact HR].
Qed.

Lemma ids_rel_nth ss1 ss2 ids1 ids2 : ids_rel ss1 ss2 ids1 ids2 -> forall j,
  match nthN ids1 j, nthN ids2 j with
  | Some a, Some b => exists s, nthN ss1 a = Some s /\ nthN ss2 b = Some s
  | None, None => True
  | _, _ => False
  end.
Proof.
  induction 1 as [|a b l1 l2 Hab _ IH]; intros j; [exact I|].
  cbn [nthN]. destruct (j =? 0); [exact Hab|apply IH].
Qed.

Lemma ids_rel_grow ss1 ss2 x1 x2 ids1 ids2 : ids_rel ss1 ss2 ids1 ids2 ->
  ids_rel (ss1 ++ x1) (ss2 ++ x2) ids1 ids2.
Proof.
  induction 1 as [|a b l1 l2 (s & H1 & H2) _ IH]; constructor; [|exact IH].
  exists s. split; apply nthN_app_some; assumption.
Qed.

Lemma cache_ok_grow ss x k : cache_ok ss k -> cache_ok (ss ++ x) k.
Proof. intros H key id Hin. apply nthN_app_some, H, Hin. Qed.

(** what the glue's interning call does to a context whose interner satisfies the invariant *)
Lemma intern_run c ss s : wf_i (cint c) ss ->
  let r := lrun [SInternDest (lenN s); SInternCopy s] c in
  snd r = [ObIntern (lenN ss) (lenN (concat ss)); ObUnit] /\
  wf_i (cint (fst r)) (ss ++ [s]) /\ cw (fst r) = with_int (cw c) (ss ++ [s]) /\
  ccache (fst r) = ccache c /\ cin (fst r) = cin c /\ crs (fst r) = crs c /\ clog (fst r) = clog c.
Proof.
  intros Hw. cbn zeta. cbn [Context.lrun Context.lstep]. unfold do_intern_dest.
  destruct (wf_prealloc _ _ (lenN s) Hw) as [E Hw']. rewrite E in *. cbn [fst] in Hw'.
  unfold do_intern_copy. csimp. rewrite takeN_all.
  pose proof (wf_copy_exact _ ss (zeros (lenN s)) [] s Hw' (eq_sym (lenN_zeros _))) as Hw2.
  split; [reflexivity|]. split; [exact Hw2|].
  split; [rewrite !mirror_with_int, (wf_istrings _ _ Hw2); reflexivity|]. auto.
Qed.

Lemma load_miss_run c ss key : wf_i (cint c) ss -> lookup key (ccache c) = None ->
  let r := lstep c (SLoad key) in
  snd r = ObId (lenN ss) /\
  wf_i (cint (fst r)) (ss ++ [key]) /\ cw (fst r) = with_int (cw c) (ss ++ [key]) /\
  ccache (fst r) = (key, lenN ss) :: ccache c /\ cin (fst r) = cin c /\ crs (fst r) = crs c /\ clog (fst r) = clog c.
Proof.
  intros Hw El. cbn zeta. cbn [Context.lstep]. unfold do_load. rewrite El.
  destruct (wf_intern _ _ key Hw) as [Eid Hw']. destruct (intern (cint c) key) as [i' id]. csimp. subst id.
  split; [reflexivity|]. split; [exact Hw'|].
  split; [rewrite mirror_with_int, (wf_istrings _ _ Hw'); reflexivity|]. auto.
Qed.

Lemma side_iget c ss id : side c ss -> iget (cint c) id = nthN ss id.
Proof. intros (Hw & _). apply wf_iget, Hw. Qed.

Lemma rel_intern s c1 ids1 c2 ids2 : Rel c1 ids1 c2 ids2 ->
  let st := [SInternDest (lenN s); SInternCopy s] in
  obs_rel (snd (lrun st c1)) (snd (lrun st c2)) /\
  Rel (fst (lrun st c1)) (ids1 ++ flat_map ids_of (snd (lrun st c1)))
      (fst (lrun st c2)) (ids2 ++ flat_map ids_of (snd (lrun st c2))).
Proof.
  intros (Hce & ss1 & ss2 & S1 & S2 & Hi & Hk & Hx). cbn zeta.
  destruct S1 as (Hw1 & Hm1 & Hc1), S2 as (Hw2 & Hm2 & Hc2). ce_destruct Hce.
  destruct (intern_run c1 ss1 s Hw1) as (O1 & W1 & Cw1 & K1 & I1 & R1 & L1).
  destruct (intern_run c2 ss2 s Hw2) as (O2 & W2 & Cw2 & K2 & I2 & R2 & L2).
  rewrite O1, O2. cbn [flat_map ids_of app].
  split.
  { split; [reflexivity|]. intros p. destruct (Hx p) as (_ & X2 & X3 & _). cbn [map shift_id]. rewrite X2, X3. reflexivity. }
  split.
  { unfold core_eq. rewrite I1, I2, R1, R2, L1, L2, Cw1, Cw2. repeat (split; [assumption|]).
    rewrite Ew. reflexivity. }
  exists (ss1 ++ [s]), (ss2 ++ [s]).
  split; [split; [exact W1|]; split; [rewrite Cw1; reflexivity|]; rewrite K1; apply cache_ok_grow, Hc1|].
  split; [split; [exact W2|]; split; [rewrite Cw2; reflexivity|]; rewrite K2; apply cache_ok_grow, Hc2|].
  split.
  { apply Forall2_app; [apply ids_rel_grow, Hi|]. constructor; [|constructor].
    exists s. split; apply nthN_snoc. }
  rewrite K1, K2. split; [exact Hk|].
  intros p. destruct (Hx p) as (X1 & X2 & X3 & X4). unfold exact. rewrite K1, K2.
  split; [rewrite map_app, X1; cbn [map]; rewrite X2; reflexivity|].
  split; [rewrite !lenN_app, X2; cbn [lenN length]; lia|].
  split; [rewrite !concat_app, !lenN_app, X3; lia|exact X4].
Qed.

Lemma rel_load key c1 ids1 c2 ids2 : Rel c1 ids1 c2 ids2 -> (P -> keyok key) ->
  let st := [SLoad key] in
  obs_rel (snd (lrun st c1)) (snd (lrun st c2)) /\
  Rel (fst (lrun st c1)) (ids1 ++ flat_map ids_of (snd (lrun st c1)))
      (fst (lrun st c2)) (ids2 ++ flat_map ids_of (snd (lrun st c2))).
Proof.
  intros (Hce & ss1 & ss2 & S1 & S2 & Hi & Hk & Hx) Hkey. cbn zeta.
  destruct S1 as (Hw1 & Hm1 & Hc1), S2 as (Hw2 & Hm2 & Hc2). ce_destruct Hce.
  cbn [Context.lrun].
  destruct (lookup key (ccache c1)) as [a|] eqn:L1; destruct (lookup key (ccache c2)) as [b|] eqn:L2.
  - (* hit, hit *)
    cbn [Context.lstep]. unfold do_load. rewrite L1, L2. cbn [fst snd flat_map ids_of app].
    split.
    { split; [reflexivity|]. intros p. destruct (Hx p) as (_ & _ & _ & X4).
      specialize (X4 key (Hkey p)). rewrite L1, L2 in X4. cbn [option_map] in X4. injection X4 as ->. reflexivity. }
    split; [unfold core_eq; auto|]. exists ss1, ss2.
    split; [unfold side; auto|]. split; [unfold side; auto|].
    split.
    { apply Forall2_app; [exact Hi|]. constructor; [|constructor]. exists key.
      split; [apply Hc1, lookup_In, L1|apply Hc2, lookup_In, L2]. }
    split; [exact Hk|].
    intros p. destruct (Hx p) as (X1 & X2 & X3 & X4). unfold exact.
    split; [|auto]. rewrite map_app, X1. cbn [map].
    specialize (X4 key (Hkey p)). rewrite L1, L2 in X4. cbn [option_map] in X4. injection X4 as ->. reflexivity.
  - (* hit in the history's cache only *)
    pose proof (load_miss_run c2 ss2 key Hw2 L2) as M2. cbn zeta in M2.
    destruct (lstep c2 (SLoad key)) as [c2' o2]. cbn [fst snd] in *.
    destruct M2 as (O2 & W2 & Cw2 & K2 & I2 & R2 & Lg2). subst o2.
    cbn [Context.lstep]. unfold do_load. rewrite L1. cbn [fst snd flat_map ids_of app].
    split.
    { split; [reflexivity|]. intros p. destruct (Hx p) as (_ & _ & _ & X4).
      specialize (X4 key (Hkey p)). rewrite L1, L2 in X4. discriminate X4. }
    split; [unfold core_eq; rewrite I2, R2, Lg2, Cw2; repeat (split; [assumption|]); rewrite Ew; reflexivity|].
    exists ss1, (ss2 ++ [key]).
    split; [unfold side; auto|].
    split.
    { split; [exact W2|]. split; [rewrite Cw2; reflexivity|]. rewrite K2.
      intros k0 id0 [G|G]; [injection G as <- <-; apply nthN_snoc|apply nthN_app_some, Hc2, G]. }
    split.
    { apply Forall2_app.
      - rewrite <- (app_nil_r ss1). apply ids_rel_grow, Hi.
      - constructor; [|constructor]. exists key. split; [apply Hc1, lookup_In, L1|apply nthN_snoc]. }
    rewrite K2. split.
    { intros k0 H0. cbn [lookup]. destruct (bytes_eqb key k0) eqn:Eb; [|apply Hk, H0].
      apply bytes_eqb_eq in Eb. congruence. }
    intros p. destruct (Hx p) as (_ & _ & _ & X4).
    specialize (X4 key (Hkey p)). rewrite L1, L2 in X4. discriminate X4.
  - (* impossible: cached on the fresh side only *)
    apply Hk in L1. congruence.
  - (* miss, miss *)
    pose proof (load_miss_run c1 ss1 key Hw1 L1) as M1. cbn zeta in M1.
    pose proof (load_miss_run c2 ss2 key Hw2 L2) as M2. cbn zeta in M2.
    destruct (lstep c1 (SLoad key)) as [c1' o1]. destruct (lstep c2 (SLoad key)) as [c2' o2]. cbn [fst snd] in *.
    destruct M1 as (O1 & W1 & Cw1 & K1 & I1 & R1 & Lg1). destruct M2 as (O2 & W2 & Cw2 & K2 & I2 & R2 & Lg2).
    subst o1 o2. cbn [flat_map ids_of app].
    split.
    { split; [reflexivity|]. intros p. destruct (Hx p) as (_ & X2 & _). cbn [map shift_id]. rewrite X2. reflexivity. }
    split; [unfold core_eq; rewrite I1, I2, R1, R2, Lg1, Lg2, Cw1, Cw2; repeat (split; [assumption|]); rewrite Ew; reflexivity|].
    exists (ss1 ++ [key]), (ss2 ++ [key]).
    split.
    { split; [exact W1|]. split; [rewrite Cw1; reflexivity|]. rewrite K1.
      intros k0 id0 [G|G]; [injection G as <- <-; apply nthN_snoc|apply nthN_app_some, Hc1, G]. }
    split.
    { split; [exact W2|]. split; [rewrite Cw2; reflexivity|]. rewrite K2.
      intros k0 id0 [G|G]; [injection G as <- <-; apply nthN_snoc|apply nthN_app_some, Hc2, G]. }
    split.
    { apply Forall2_app; [apply ids_rel_grow, Hi|]. constructor; [|constructor].
      exists key. split; apply nthN_snoc. }
    rewrite K1, K2. split.
    { intros k0. cbn [lookup]. destruct (bytes_eqb key k0); [discriminate|apply Hk]. }
    intros p. destruct (Hx p) as (X1 & X2 & X3 & X4). unfold exact. rewrite K1, K2.
    split; [rewrite map_app, X1; cbn [map]; rewrite X2; reflexivity|].
    split; [rewrite !lenN_app, X2; cbn [lenN length]; lia|].
    split; [rewrite !concat_app, !lenN_app, X3; lia|].
    intros k0 Hk0. cbn [lookup]. destruct (bytes_eqb key k0); [cbn [option_map]; rewrite X2; reflexivity|apply X4, Hk0].
Qed.

(** initialize_from_msgpack_bytes makes the two contexts agree on everything but the interner *)
Definition PreRel (c1 : ctx) (ids1 : list N) (c2 : ctx) (ids2 : list N) : Prop :=
  exists ss1 ss2, side c1 ss1 /\ side c2 ss2 /\ ids_rel ss1 ss2 ids1 ids2 /\
    (forall key, lookup key (ccache c1) = None -> lookup key (ccache c2) = None) /\
    (P -> exact c1 c2 ss1 ss2 ids1 ids2).

Lemma rel_init b c1 ids1 c2 ids2 : PreRel c1 ids1 c2 ids2 ->
  Rel (do_init CAP c1 b) ids1 (do_init CAP c2 b) ids2.
Proof.
  intros (ss1 & ss2 & (Hw1 & Hm1 & Hc1) & (Hw2 & Hm2 & Hc2) & Hi & Hk & Hx).
  split; [unfold core_eq, do_init; csimp; auto|].
  exists ss1, ss2. unfold side, do_init. csimp. rewrite !mirror_with_int. csimp.
  rewrite (wf_istrings _ _ Hw1), (wf_istrings _ _ Hw2).
  split; [split; [exact Hw1|split; [reflexivity|exact Hc1]]|]. split; [split; [exact Hw2|split; [reflexivity|exact Hc2]]|].
  split; [exact Hi|]. split; [exact Hk|exact Hx].
Qed.

Lemma obs_rel_app a1 a2 b1 b2 : obs_rel a1 a2 -> obs_rel b1 b2 -> obs_rel (a1 ++ b1) (a2 ++ b2).
Proof.
  intros [A1 A2] [B1 B2]. split; [rewrite !map_app; congruence|].
  intros p. rewrite map_app, <- (A2 p), <- (B2 p). reflexivity.
Qed.

Definition loads_ok (s : list call) : Prop := P -> forall key, In (KLoad key) s -> keyok key.

Lemma rel_call k c1 ids1 c2 ids2 : Rel c1 ids1 c2 ids2 -> loads_ok [k] ->
  match call_steps ids1 k, call_steps ids2 k with
  | Some st1, Some st2 =>
      obs_rel (snd (lrun st1 c1)) (snd (lrun st2 c2)) /\
      Rel (fst (lrun st1 c1)) (ids1 ++ flat_map ids_of (snd (lrun st1 c1)))
          (fst (lrun st2 c2)) (ids2 ++ flat_map ids_of (snd (lrun st2 c2)))
  | None, None => True
  | _, _ => False
  end.
Proof.
  intros HR Hl.
  assert (Hnth : forall j, match nthN ids1 j, nthN ids2 j with
                 | Some a, Some b => exists s, iget (cint c1) a = Some s /\ iget (cint c2) b = Some s
                 | None, None => True | _, _ => False end).
  { destruct HR as (_ & ss1 & ss2 & S1 & S2 & Hi & _). intros j.
    pose proof (ids_rel_nth _ _ _ _ Hi j) as H. destruct (nthN ids1 j), (nthN ids2 j); try exact H.
    rewrite (side_iget _ _ _ S1), (side_iget _ _ _ S2). exact H. }
  destruct k as [b|op|sc j|op|s|s|m|key| | | ]; cbn [call_steps].
  - (* KInit *)
    cbn [Context.lrun Context.lstep fst snd flat_map ids_of app]. rewrite !app_nil_r.
    split; [split; [reflexivity|intros _; reflexivity]|].
    apply rel_init. destruct HR as (_ & H). exact H.
  - apply rel_core; [apply core_read|exact HR].
  - specialize (Hnth j). destruct (nthN ids1 j) as [a|], (nthN ids2 j) as [b0|]; try exact Hnth.
    destruct Hnth as (s & Ha & Hb). apply (rel_iprop sc a b0 s); assumption.
  - destruct op as [v| |z|bits|s|j|len| |len| ];
      try (apply rel_core; [apply core_write; exact I|exact HR]).
    specialize (Hnth j). destruct (nthN ids1 j) as [a|], (nthN ids2 j) as [b0|]; try exact Hnth.
    destruct Hnth as (s & Ha & Hb). apply (rel_istr a b0 s); assumption.
  - apply rel_core; [apply core_str|exact HR].
  - apply rel_intern, HR.
  - apply rel_core; [apply core_log|exact HR].
  - apply rel_load; [exact HR|]. intros p. apply (Hl p). left. reflexivity.
  - apply rel_core; [apply core_finalize|exact HR].
  - apply rel_core; [apply core_view|exact HR].
  - apply rel_core; [apply core_out|exact HR].
Qed.

Lemma rel_srun : forall s c1 ids1 c2 ids2, Rel c1 ids1 c2 ids2 -> loads_ok s ->
  obs_rel (snd (srun s c1 ids1)) (snd (srun s c2 ids2)).
Proof.
  induction s as [|k s IH]; intros c1 ids1 c2 ids2 HR Hl.
  - split; [reflexivity|intros _; reflexivity].
  - assert (Hl1 : loads_ok [k]).
    { intros p key [H|[]]. apply (Hl p). left. exact H. }
    assert (Hl2 : loads_ok s).
    { intros p key H. apply (Hl p). right. exact H. }
    pose proof (rel_call k c1 ids1 c2 ids2 HR Hl1) as H. cbn [Context.srun].
    destruct (call_steps ids1 k) as [st1|], (call_steps ids2 k) as [st2|]; try contradiction.
    + destruct H as [Ho HR']. destruct (lrun st1 c1) as [c1' o1], (lrun st2 c2) as [c2' o2]. cbn [fst snd] in *.
      specialize (IH _ _ _ _ HR' Hl2).
      destruct (srun s c1' _) as [c1'' os1], (srun s c2' _) as [c2'' os2]. cbn [snd] in *.
      apply obs_rel_app; assumption.
    + specialize (IH _ _ _ _ HR Hl2).
      destruct (srun s c1 ids1) as [c1'' os1], (srun s c2 ids2) as [c2'' os2]. cbn [snd] in *.
      apply (obs_rel_app [ObBadRef] [ObBadRef]); [split; [reflexivity|intros _; reflexivity]|exact IH].
Qed.

End Rel.

Section C13.
Variable W : N.
Variable trap : bool.
Variable CAP : nat.

Notation lstep := (lstep W trap CAP).
Notation lrun := (lrun W trap CAP).
Notation srun := (srun W trap CAP).

Lemma side_reachable h : exists ss, side (fst (lrun h (c0 CAP))) ss.
Proof.
  destruct (Inv_reachable W trap CAP h) as (ss & Hw & Hm & Hg & _). exists ss.
  split; [exact Hw|]. split; [exact Hm|]. intros key id Hin. apply Hg. right. exact Hin.
Qed.

Lemma side_c0 : side (c0 CAP) [].
Proof. split; [apply wf_i_empty|]. split; [reflexivity|]. intros key id []. Qed.

Lemma srun_init b s c :
  snd (srun (KInit b :: s) c []) = ObUnit :: snd (srun s (do_init CAP c b) []).
Proof.
  cbn [Context.srun call_steps Context.lrun Context.lstep flat_map ids_of app].
  destruct (srun s (do_init CAP c b) []) as [c2 os]. reflexivity.
Qed.

(** C13, general form: after any history whatsoever, a script that starts with KInit observes
    what it observes on a fresh thread, up to the values of the interned ids / destinations *)
Theorem c13_erase (h : list step) (b : list N) (s : list call) :
  map erase_id (snd (srun (KInit b :: s) (fst (lrun h (c0 CAP))) []))
  = map erase_id (snd (srun (KInit b :: s) (c0 CAP) [])).
Proof.
  rewrite !srun_init. cbn [map]. f_equal.
  destruct (side_reachable h) as (ss1 & S1).
  apply (rel_srun W trap CAP False 0 0 (fun _ => True)).
  - apply rel_init. exists ss1, []. split; [exact S1|]. split; [exact side_c0|].
    split; [constructor|]. split; [intros; reflexivity|intros []].
  - intros [].
Qed.

(** C13, exact form: when no key the script loads is already in the thread's id cache, the
    observations are those of a fresh thread with every id shifted by the number of strings the
    history interned (and interner destinations by the number of bytes) *)
Theorem c13_shift (h : list step) (b : list N) (s : list call) :
  let c1 := fst (lrun h (c0 CAP)) in
  (forall key, In (KLoad key) s -> lookup key (ccache c1) = None) ->
  snd (srun (KInit b :: s) c1 [])
  = map (shift_id (lenN (spans (cint c1))) (lenN (ibuf (cint c1)))) (snd (srun (KInit b :: s) (c0 CAP) [])).
Proof.
  cbn zeta. intros Hk. rewrite !srun_init. cbn [map shift_id]. f_equal.
  destruct (side_reachable h) as (ss1 & S1).
  set (c1 := fst (lrun h (c0 CAP))) in *.
  apply (rel_srun W trap CAP True (lenN (spans (cint c1))) (lenN (ibuf (cint c1)))
           (fun key => lookup key (ccache c1) = None)); [|intros _; exact Hk|exact I].
  apply rel_init. exists ss1, []. split; [exact S1|]. split; [exact side_c0|].
  split; [constructor|]. split; [intros; reflexivity|]. intros _.
  destruct S1 as ((Eb & Es) & _). unfold exact. rewrite Eb, Es, lenN_offsets.
  change (@lenN (list N) []) with 0. change (@lenN N (concat [])) with 0. rewrite !N.add_0_r.
  split; [reflexivity|]. split; [reflexivity|]. split; [reflexivity|].
  intros key H. rewrite H. reflexivity.
Qed.

(** a history without SLoad leaves the id cache empty *)
Definition is_load (s : step) : bool := match s with SLoad _ => true | _ => false end.

Lemma nocache_step c s : is_load s = false -> ccache (fst (lstep c s)) = ccache c.
Proof.
  intros H. destruct s as [b|op|sc i|op|m|s0|i|m|s0|m|m|k0| | | ]; cbn [Context.lstep]; try discriminate H.
  - reflexivity.
  - reflexivity.
  - unfold do_read_iprop. destruct (scope_of (crs c) sc) as [[]|]; try reflexivity. destruct (iget (cint c) i); reflexivity.
  - destruct (Writer.step W trap (cw c) op). reflexivity.
  - unfold do_str_dest. destruct (Writer.commit _ _ _ _) as [w' []]; reflexivity.
  - unfold do_str_copy. destruct (cdst c) as [[]|]; reflexivity.
  - unfold do_istr. destruct (iget (cint c) i) as [l|]; [|reflexivity]. destruct (Writer.write_str W trap (cw c) l). reflexivity.
  - unfold do_intern_dest. destruct (preallocate (cint c) m) as [[] ?]. reflexivity.
  - unfold do_intern_copy. destruct (cidst c) as [[]|]; reflexivity.
  - unfold do_log_plan. destruct (Ring.append CAP (clog c) (N.to_nat m)). reflexivity.
  - destruct (cret c); reflexivity.
  - destruct (Writer.finalize (cw c)). reflexivity.
  - reflexivity.
  - reflexivity.
Qed.

Lemma nocache_run : forall h c, forallb (fun s => negb (is_load s)) h = true -> ccache (fst (lrun h c)) = ccache c.
Proof.
  induction h as [|s h IH]; intros c H; [reflexivity|].
  cbn [forallb] in H. apply andb_true_iff in H. destruct H as [H1 H2]. apply negb_true_iff in H1.
  cbn [Context.lrun]. pose proof (nocache_step c s H1) as E.
  destruct (lstep c s) as [c1 o]. cbn [fst] in E. specialize (IH c1 H2). destruct (lrun h c1). cbn [fst] in *. congruence.
Qed.

Theorem c13_shift_noload (h : list step) (b : list N) (s : list call) :
  forallb (fun s => negb (is_load s)) h = true ->
  let c1 := fst (lrun h (c0 CAP)) in
  snd (srun (KInit b :: s) c1 [])
  = map (shift_id (lenN (spans (cint c1))) (lenN (ibuf (cint c1)))) (snd (srun (KInit b :: s) (c0 CAP) [])).
Proof.
  intros H. apply c13_shift. intros key _. rewrite nocache_run by exact H. reflexivity.
Qed.

End C13.

(** the uniform shift is NOT what happens when the script loads a key that an earlier invocation
    on the thread already loaded: the cached id comes back *)
Definition hist_cached : list step := [SInternDest 1; SInternCopy [120]; SLoad [107]].
Definition script_cached : list call := [KInit [192]; KLoad [107]; KIntern [121]].

Lemma c13_shift_refuted_cached W trap CAP :
  let c1 := fst (lrun W trap CAP hist_cached (c0 CAP)) in
  snd (srun W trap CAP script_cached c1 []) = [ObUnit; ObId 1; ObIntern 2 2; ObUnit] /\
  map (shift_id (lenN (spans (cint c1))) (lenN (ibuf (cint c1)))) (snd (srun W trap CAP script_cached (c0 CAP) []))
    = [ObUnit; ObId 2; ObIntern 3 3; ObUnit].
Proof. vm_compute. split; reflexivity. Qed.
