(** Model of provider/src/string_interner.rs (StringInterner: buf, spans; preallocate; get) and of
    the copy the native glue performs into the destination handed back by
    [shopify_function_intern_utf8_str] (api/src/lib.rs, mod provider_fallback).  Transcribed by hand.

    Destination "pointers" are offsets into the interner's own buffer.  Sizes are unbounded [N]
    (the native glue only passes the length of a string that exists in the same address space, so
    [offset + len] cannot exceed the address space; the wrap-around of [offset + len] for a forged
    length is outside this model). *)
From Coq Require Import NArith List Bool.
From SFV Require Import Base.Bytes.
Import ListNotations.
Open Scope N_scope.

Record interner := { ibuf : list N; spans : list (N * N) }.

(** StringInterner::new *)
Definition iempty : interner := {| ibuf := []; spans := [] |}.

(** StringInterner::preallocate(len): returns the new interner, the id and the destination
    (offset of [buf[offset..]] in the buffer).
      let offset = self.buf.len(); self.buf.resize(offset + len, 0);
      let id = self.spans.len(); self.spans.push((offset, len)); *)
Definition preallocate (i : interner) (len : N) : interner * N * N :=
  let offset := lenN (ibuf i) in
  ({| ibuf := ibuf i ++ zeros len; spans := spans i ++ [(offset, len)] |}, lenN (spans i), offset).

(** StringInterner::get(id): [None] = panic ([spans[id]] out of bounds, or the slice
    [buf[offset..offset+len]] out of bounds). *)
Definition iget (i : interner) (id : N) : option (list N) :=
  match nthN (spans i) id with
  | None => None
  | Some (offset, len) =>
      if offset + len <=? lenN (ibuf i) then Some (sub (ibuf i) offset len) else None
  end.

(** [ptr::copy(src, dst, len)] into a buffer: overwrite [b] from position [off] on with the bytes
    of [s]; never changes the length of [b] (bytes that would fall outside are dropped). *)
Fixpoint overwrite (b : list N) (off : N) (s : list N) : list N :=
  match b with
  | [] => []
  | x :: t =>
      if off =? 0 then match s with [] => b | y :: s' => y :: overwrite t 0 s' end
      else x :: overwrite t (off - 1) s
  end.

(** the glue's copy of the string bytes to the destination [off] *)
Definition icopy (i : interner) (off : N) (s : list N) : interner :=
  {| ibuf := overwrite (ibuf i) off s; spans := spans i |}.

(** [shopify_function_intern_utf8_str(ptr, len)] of the native glue: preallocate + copy. *)
Definition intern (i : interner) (s : list N) : interner * N :=
  let '(i', id, off) := preallocate i (lenN s) in (icopy i' off s, id).

(** all the strings, by id (the abstract view used by Write/Writer.v: [interned]) *)
Definition istrings (i : interner) : list (list N) :=
  map (fun sp : N * N => sub (ibuf i) (fst sp) (snd sp)) (spans i).

Definition intern_all (ss : list (list N)) : interner * list N :=
  fold_left (fun '(i, ids) s => let '(i', id) := intern i s in (i', ids ++ [id])) ss (iempty, []).
