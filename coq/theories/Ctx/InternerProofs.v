(** Facts about the interner model: the invariant (buf = concatenation of the strings, spans =
    running offsets), every id resolves to its string for ever, refinement of the abstract
    [interned] list of Write/Writer.v. *)
From Coq Require Import NArith ZArith Lia List Bool Arith ZifyNat ZifyN ZifyBool.
From SFV Require Import Base.Bytes Base.BytesProofs Read.Lazy Ctx.Interner.
From SFV Require Write.Writer.
Import ListNotations.
Open Scope N_scope.

(** * Lists *)
Lemma lenN_zeros n : lenN (zeros n) = n.
Proof. unfold lenN, zeros. rewrite repeat_length. lia. Qed.

Lemma lenN_map {A B} (f : A -> B) l : lenN (map f l) = lenN l.
Proof. unfold lenN. rewrite map_length. reflexivity. Qed.

Lemma takeN_all {A} (l : list A) : takeN l (lenN l) = l.
Proof. rewrite <- (app_nil_r l) at 1. apply takeN_app. Qed.

Lemma takeN_0 {A} (l : list A) : takeN l 0 = [].
Proof. destruct l; reflexivity. Qed.

Lemma nthN_split {A} (l : list A) : forall n x, nthN l n = Some x ->
  exists a c, l = a ++ x :: c /\ lenN a = n.
Proof.
  induction l as [|y l IH]; intros n x H; [discriminate|].
  cbn [nthN] in H. destruct (N.eqb_spec n 0) as [->|Hn].
  - injection H as ->. exists [], l. split; reflexivity.
  - destruct (IH _ _ H) as (a & c & -> & Ha). exists (y :: a), c. split; [reflexivity|].
    rewrite lenN_cons. lia.
Qed.

Lemma nthN_mid {A} (a : list A) x c : nthN (a ++ x :: c) (lenN a) = Some x.
Proof. replace (lenN a) with (lenN a + 0) by lia. rewrite nthN_app_r. reflexivity. Qed.

Lemma bytes_eqb_refl a : bytes_eqb a a = true.
Proof.
  unfold bytes_eqb. rewrite N.eqb_refl. cbn [andb].
  induction a as [|x a IH]; [reflexivity|]. cbn [combine forallb]. rewrite N.eqb_refl. exact IH.
Qed.

Lemma bytes_eqb_eq a b : bytes_eqb a b = true -> a = b.
Proof.
  unfold bytes_eqb. revert b. induction a as [|x a IH]; intros [|y b] H.
  - reflexivity.
  - rewrite lenN_cons, lenN_nil in H. destruct (N.eqb_spec 0 (1 + lenN b)); [lia|discriminate].
  - rewrite lenN_cons, lenN_nil in H. destruct (N.eqb_spec (1 + lenN a) 0); [lia|discriminate].
  - apply andb_true_iff in H. destruct H as [H1 H2]. cbn [combine forallb] in H2.
    apply andb_true_iff in H2. destruct H2 as [H2 H3].
    apply N.eqb_eq in H2. subst y. f_equal. apply IH.
    apply andb_true_iff. split; [|exact H3].
    apply N.eqb_eq in H1. rewrite !lenN_cons in H1. apply N.eqb_eq. lia.
Qed.

(** * overwrite *)
Lemma overwrite_nil b : forall off, overwrite b off [] = b.
Proof.
  induction b as [|x b IH]; intros off; [reflexivity|].
  cbn [overwrite]. destruct (off =? 0); [reflexivity|]. rewrite IH. reflexivity.
Qed.

Lemma overwrite_app_l a : forall b s, overwrite (a ++ b) (lenN a) s = a ++ overwrite b 0 s.
Proof.
  induction a as [|x a IH]; intros b s; [reflexivity|].
  rewrite lenN_cons. cbn [app overwrite]. destruct (N.eqb_spec (1 + lenN a) 0); [lia|].
  replace (1 + lenN a - 1) with (lenN a) by lia. rewrite IH. reflexivity.
Qed.

(** a copy of at most [lenN z] bytes onto the region [z] leaves a region of the same length and
    nothing else changed *)
Lemma overwrite_region z : forall s c, exists z',
  lenN z' = lenN z /\ overwrite (z ++ c) 0 (takeN s (lenN z)) = z' ++ c.
Proof.
  induction z as [|x z IH]; intros s c.
  - exists []. split; [reflexivity|]. change (lenN (@nil N)) with 0. rewrite takeN_0. apply overwrite_nil.
  - destruct s as [|y s].
    + exists (x :: z). split; [reflexivity|]. cbn [takeN]. apply overwrite_nil.
    + destruct (IH s c) as (z' & Hl & He). exists (y :: z'). split.
      * rewrite !lenN_cons. lia.
      * rewrite lenN_cons. cbn [takeN]. destruct (N.eqb_spec (1 + lenN z) 0); [lia|].
        replace (1 + lenN z - 1) with (lenN z) by lia.
        cbn [app overwrite N.eqb]. rewrite He. reflexivity.
Qed.

Lemma overwrite_exact z : forall s c, lenN s = lenN z -> overwrite (z ++ c) 0 s = s ++ c.
Proof.
  induction z as [|x z IH]; intros s c H.
  - destruct s; [|rewrite lenN_cons, lenN_nil in H; lia]. apply overwrite_nil.
  - destruct s as [|y s]; [rewrite lenN_cons, lenN_nil in H; lia|].
    rewrite !lenN_cons in H. cbn [app overwrite N.eqb]. rewrite IH by lia. reflexivity.
Qed.

(** the destination handed out by a "zero-filled then copy" allocation *)
Lemma overwrite_zeros a s c : overwrite (a ++ zeros (lenN s) ++ c) (lenN a) (takeN s (lenN s)) = a ++ s ++ c.
Proof.
  rewrite overwrite_app_l, takeN_all. rewrite overwrite_exact; [reflexivity|].
  rewrite lenN_zeros. reflexivity.
Qed.

(** * The invariant *)
Fixpoint offsets (o : N) (ss : list (list N)) : list (N * N) :=
  match ss with
  | [] => []
  | s :: t => (o, lenN s) :: offsets (o + lenN s) t
  end.

Definition wf_i (i : interner) (ss : list (list N)) : Prop :=
  ibuf i = concat ss /\ spans i = offsets 0 ss.

Lemma offsets_app a : forall o b, offsets o (a ++ b) = offsets o a ++ offsets (o + lenN (concat a)) b.
Proof.
  induction a as [|s a IH]; intros o b.
  - cbn [app offsets concat]. rewrite lenN_nil, N.add_0_r. reflexivity.
  - cbn [app offsets concat]. rewrite IH, lenN_app. rewrite N.add_assoc. reflexivity.
Qed.

Lemma lenN_offsets ss : forall o, lenN (offsets o ss) = lenN ss.
Proof. induction ss as [|s t IH]; intros o; [reflexivity|]. cbn [offsets]. rewrite !lenN_cons, IH. reflexivity. Qed.

Lemma wf_i_empty : wf_i iempty [].
Proof. split; reflexivity. Qed.

Lemma wf_prealloc i ss len : wf_i i ss ->
  preallocate i len = ({| ibuf := concat ss ++ zeros len; spans := offsets 0 ss ++ [(lenN (concat ss), len)] |},
                       lenN ss, lenN (concat ss))
  /\ wf_i (fst (fst (preallocate i len))) (ss ++ [zeros len]).
Proof.
  intros [Hb Hs]. unfold preallocate. rewrite Hb, Hs, lenN_offsets. split; [reflexivity|].
  cbn [fst]. split; cbn [ibuf spans].
  - rewrite concat_app. cbn [concat]. rewrite app_nil_r. reflexivity.
  - rewrite offsets_app. cbn [offsets]. rewrite lenN_zeros, N.add_0_l. reflexivity.
Qed.

Lemma wf_iget i ss id : wf_i i ss -> iget i id = nthN ss id.
Proof.
  intros [Hb Hs]. unfold iget. rewrite Hs, Hb. destruct (nthN ss id) as [s|] eqn:E.
  - destruct (nthN_split _ _ _ E) as (a & c & -> & <-).
    rewrite offsets_app. cbn [offsets].
    rewrite <- (lenN_offsets a 0), nthN_mid, N.add_0_l.
    rewrite concat_app. cbn [concat].
    destruct (N.leb_spec (lenN (concat a) + lenN s) (lenN (concat a ++ s ++ concat c))) as [_|H].
    + rewrite sub_mid. reflexivity.
    + rewrite !lenN_app in H. lia.
  - apply nthN_None_ge in E. rewrite nthN_ge_None; [reflexivity|]. rewrite lenN_offsets. exact E.
Qed.

Lemma istrings_gen ss : forall pre post,
  map (fun sp : N * N => sub (pre ++ concat ss ++ post) (fst sp) (snd sp)) (offsets (lenN pre) ss) = ss.
Proof.
  induction ss as [|s t IH]; intros pre post; [reflexivity|].
  cbn [offsets map concat fst snd]. f_equal.
  - rewrite <- app_assoc. apply sub_mid.
  - rewrite <- lenN_app. specialize (IH (pre ++ s) post).
    rewrite <- !app_assoc in IH. rewrite <- !app_assoc. exact IH.
Qed.

Lemma wf_istrings i ss : wf_i i ss -> istrings i = ss.
Proof.
  intros [Hb Hs]. unfold istrings. rewrite Hs, Hb.
  pose proof (istrings_gen ss [] []) as H. cbn [app] in H. rewrite app_nil_r in H. exact H.
Qed.

(** the glue's copy into the region of one string (a stale or partial copy included): the region
    keeps its length, every other string is untouched *)
Lemma wf_copy_region i a z c s : wf_i i (a ++ z :: c) ->
  exists z', lenN z' = lenN z /\ wf_i (icopy i (lenN (concat a)) (takeN s (lenN z))) (a ++ z' :: c).
Proof.
  intros [Hb Hs]. destruct (overwrite_region z s (concat c)) as (z' & Hl & He).
  exists z'. split; [exact Hl|]. split; cbn [icopy ibuf spans].
  - rewrite Hb, !concat_app. cbn [concat]. rewrite overwrite_app_l, He. reflexivity.
  - rewrite Hs, !offsets_app. cbn [offsets]. rewrite Hl. reflexivity.
Qed.

Lemma wf_copy_exact i a z c s : wf_i i (a ++ z :: c) -> lenN s = lenN z ->
  wf_i (icopy i (lenN (concat a)) s) (a ++ s :: c).
Proof.
  intros [Hb Hs] Hl. split; cbn [icopy ibuf spans].
  - rewrite Hb, !concat_app. cbn [concat]. rewrite overwrite_app_l, overwrite_exact by exact Hl. reflexivity.
  - rewrite Hs, !offsets_app. cbn [offsets]. rewrite Hl. reflexivity.
Qed.

Lemma wf_intern i ss s : wf_i i ss ->
  snd (intern i s) = lenN ss /\ wf_i (fst (intern i s)) (ss ++ [s]).
Proof.
  intros H. unfold intern. destruct (wf_prealloc i ss (lenN s) H) as [E Hw]. rewrite E in *.
  cbn [fst snd] in *. split; [reflexivity|].
  apply (wf_copy_exact _ ss (zeros (lenN s)) [] s Hw). rewrite lenN_zeros. reflexivity.
Qed.

(** * Histories of interning calls *)
Definition seqN (n : nat) : list N := map N.of_nat (seq 0 n).

Lemma seqN_S n : seqN (S n) = seqN n ++ [N.of_nat n].
Proof. unfold seqN. rewrite seq_S, map_app. reflexivity. Qed.

Lemma intern_all_spec ss : wf_i (fst (intern_all ss)) ss /\ snd (intern_all ss) = seqN (length ss).
Proof.
  unfold intern_all. induction ss as [|s ss IH] using rev_ind.
  - split; [apply wf_i_empty|reflexivity].
  - rewrite fold_left_app. cbn [fold_left].
    destruct (fold_left _ ss (iempty, [])) as [i ids]. cbn [fst snd] in IH. destruct IH as [Hw Hi].
    destruct (wf_intern i ss s Hw) as [Hid Hw']. destruct (intern i s) as [i' id]. cbn [fst snd] in *.
    split; [exact Hw'|]. rewrite app_length. cbn [length]. rewrite Nat.add_1_r, seqN_S. subst. reflexivity.
Qed.

(** ids are 0, 1, 2, ... in call order *)
Theorem intern_ids_fresh ss : snd (intern_all ss) = seqN (length ss).
Proof. apply intern_all_spec. Qed.

(** every id ever returned resolves to its string, whatever was interned afterwards: for the
    history [ss ++ later], the id of the k-th string still yields it *)
Theorem intern_get_stable ss later id s :
  nthN ss id = Some s -> iget (fst (intern_all (ss ++ later))) id = Some s.
Proof.
  intros H. rewrite (wf_iget _ (ss ++ later)) by apply intern_all_spec.
  rewrite nthN_app_l; [exact H|]. eapply nthN_Some_lt; eauto.
Qed.

Theorem intern_get_all ss id : iget (fst (intern_all ss)) id = nthN ss id.
Proof. apply wf_iget, intern_all_spec. Qed.

(** an id never returned panics *)
Theorem intern_get_unknown ss id : lenN ss <= id -> iget (fst (intern_all ss)) id = None.
Proof. intros H. rewrite intern_get_all. apply nthN_ge_None, H. Qed.

(** refinement: the abstract list is exactly the image of the ids under [iget] *)
Theorem interned_refines ss :
  map (iget (fst (intern_all ss))) (snd (intern_all ss)) = map Some ss /\ istrings (fst (intern_all ss)) = ss.
Proof.
  destruct (intern_all_spec ss) as [Hw Hi]. split; [|apply wf_istrings, Hw].
  rewrite Hi. rewrite (map_ext _ (nthN ss)) by (intros; apply wf_iget, Hw).
  clear. induction ss as [|x ss IH] using rev_ind; [reflexivity|].
  rewrite app_length. cbn [length]. rewrite Nat.add_1_r, seqN_S, !map_app. cbn [map].
  change (N.of_nat (length ss)) with (lenN ss). rewrite nthN_snoc. f_equal.
  rewrite <- IH. apply map_ext_in. intros k Hk. apply nthN_app_l.
  unfold seqN in Hk. apply in_map_iff in Hk. destruct Hk as (n & <- & Hn). apply in_seq in Hn.
  unfold lenN. lia.
Qed.

(** [Writer.intern] (on the abstract list) refines the interner *)
Theorem writer_intern_refines i (c : Writer.wctx) s : wf_i i (Writer.interned c) ->
  snd (intern i s) = snd (Writer.intern c s) /\ wf_i (fst (intern i s)) (Writer.interned (fst (Writer.intern c s))).
Proof. intros H. unfold Writer.intern. cbn [fst snd Writer.interned]. apply wf_intern, H. Qed.

(** writing by id is writing the bytes *)
Lemma istr_is_str W trap (c : Writer.wctx) id s : nthN (Writer.interned c) id = Some s ->
  Writer.step W trap c (Writer.OIStr id) = Writer.step W trap c (Writer.OStr s).
Proof. intros H. cbn [Writer.step]. rewrite H. reflexivity. Qed.

Lemma istr_unknown W trap (c : Writer.wctx) id : nthN (Writer.interned c) id = None ->
  Writer.step W trap c (Writer.OIStr id) = (c, Writer.WPanic Writer.P_interner_index).
Proof. intros H. cbn [Writer.step]. rewrite H. reflexivity. Qed.

(** * Examples: three strings (one empty), growing buffer *)
Example intern_example :
  let '(i, ids) := intern_all [[104;105]; []; [1;2;3;4;5;6;7]] in
  ids = [0;1;2] /\ map (iget i) [0;1;2;3] = [Some [104;105]; Some []; Some [1;2;3;4;5;6;7]; None]
  /\ ibuf i = [104;105;1;2;3;4;5;6;7] /\ spans i = [(0,2);(2,0);(2,7)].
Proof. vm_compute. repeat split; reflexivity. Qed.
