(** C14: with a per-thread log return area every thread observes, under every schedule, exactly
    what it observes running alone; with the shared [static mut] it does not. *)
From Coq Require Import NArith Lia List Bool String.
From SFV Require Import Base.Bytes Ctx.Interner Ctx.Context Ctx.Threads Ctx.CtxProofs Gen.StaticsGen Gen.LogGen.
From SFV Require Log.Ring.
Import ListNotations.
Open Scope N_scope.

Section P.
Variable W : N.
Variable trap : bool.
Variable CAP : nat.

Lemma proj_cons_same {A} t (x : A) l : proj t ((t, x) :: l) = x :: proj t l.
Proof. unfold proj. cbn [filter fst]. rewrite N.eqb_refl. reflexivity. Qed.

Lemma proj_cons_other {A} t t' (x : A) l : t' <> t -> proj t ((t', x) :: l) = proj t l.
Proof. intros H. unfold proj. cbn [filter fst]. destruct (N.eqb_spec t' t); [contradiction|reflexivity]. Qed.

Lemma upd_same f t c : upd f t c t = c.
Proof. unfold upd. rewrite N.eqb_refl. reflexivity. Qed.

Lemma upd_other f t c t' : t' <> t -> upd f t c t' = f t'.
Proof. intros H. unfold upd. destruct (N.eqb_spec t' t); [contradiction|reflexivity]. Qed.

(** with a per-thread return area, the steps of thread [t] inside any schedule are a local run
    on [t]'s own context *)
Lemma sched_is_local t : forall sched w,
  proj t (snd (run_sched W trap CAP false sched w)) = snd (lrun W trap CAP (proj t sched) (th w t))
  /\ th (fst (run_sched W trap CAP false sched w)) t = fst (lrun W trap CAP (proj t sched) (th w t)).
Proof.
  induction sched as [|[t' s] rest IH]; intros w; [split; reflexivity|].
  cbn [run_sched]. unfold wstep, wstep_local.
  destruct (lstep W trap CAP (th w t') s) as [c' o] eqn:E.
  set (w1 := {| th := upd (th w) t' c'; shared := shared w |}).
  specialize (IH w1). destruct (run_sched W trap CAP false rest w1) as [w2 os]. cbn [fst snd] in *.
  destruct (N.eq_dec t' t) as [->|Hne].
  - rewrite !proj_cons_same. cbn [lrun]. rewrite E.
    unfold w1 in IH. cbn [th] in IH. rewrite upd_same in IH.
    destruct (lrun W trap CAP (proj t rest) c') as [c2 os']. cbn [fst snd] in *.
    destruct IH as [-> ->]. split; reflexivity.
  - rewrite !proj_cons_other by exact Hne.
    unfold w1 in IH. cbn [th] in IH. rewrite upd_other in IH by congruence. exact IH.
Qed.

Lemma solo_is_local t : forall steps w,
  snd (run_solo W trap CAP false t steps w) = snd (lrun W trap CAP steps (th w t)).
Proof.
  unfold run_solo. induction steps as [|s steps IH]; intros w; [reflexivity|].
  cbn [map run_sched]. unfold wstep, wstep_local.
  destruct (lstep W trap CAP (th w t) s) as [c' o] eqn:E.
  set (w1 := {| th := upd (th w) t c'; shared := shared w |}).
  specialize (IH w1). destruct (run_sched W trap CAP false _ w1) as [w2 os]. cbn [fst snd map] in *.
  cbn [lrun]. rewrite E. unfold w1 in IH. cbn [th] in IH. rewrite upd_same in IH.
  destruct (lrun W trap CAP steps c') as [c2 os']. cbn [snd] in *. rewrite IH. reflexivity.
Qed.

(** C14, for every starting world (in particular [w0]), every number of threads, every schedule *)
Theorem c14_local : forall (g : bool), g = false ->
  forall (sched : list (tid * step)) (t : tid) (w : world),
    proj t (snd (run_sched W trap CAP g sched w)) = snd (run_solo W trap CAP g t (proj t sched) w).
Proof.
  intros g -> sched t w. rewrite solo_is_local. apply sched_is_local.
Qed.

(** every thread's context in a reachable world satisfies the invariant *)
Lemma thread_reachable sched t :
  th (fst (run_sched W trap CAP false sched (w0 CAP))) t = fst (lrun W trap CAP (proj t sched) (c0 CAP)).
Proof. apply (sched_is_local t sched (w0 CAP)). Qed.

Lemma wstep_th w t s :
  th (fst (wstep W trap CAP false w t s)) t = fst (lstep W trap CAP (th w t) s)
  /\ snd (wstep W trap CAP false w t s) = snd (lstep W trap CAP (th w t) s).
Proof.
  unfold wstep, wstep_local. destruct (lstep W trap CAP (th w t) s) as [c' o]. cbn [fst snd th].
  rewrite upd_same. split; reflexivity.
Qed.

(** C12, threads: on every thread, a load yields an id valid on that thread whose bytes are the key *)
Theorem c12_load_threads sched t key :
  let w := fst (run_sched W trap CAP false sched (w0 CAP)) in
  exists id, snd (wstep W trap CAP false w t (SLoad key)) = ObId id
    /\ iget (cint (th (fst (wstep W trap CAP false w t (SLoad key))) t)) id = Some key.
Proof.
  cbn zeta. destruct (wstep_th (fst (run_sched W trap CAP false sched (w0 CAP))) t (SLoad key)) as [E1 E2].
  rewrite E1, E2, thread_reachable.
  destruct (load_valid W trap CAP [] _ key (Inv_reachable W trap CAP (proj t sched))) as (c' & id & E & _ & Hg & _).
  rewrite E. exists id. split; [reflexivity|exact Hg].
Qed.

(** C12, threads: two loads of the same key by the same thread, anywhere in any schedule, yield the same id *)
Theorem c12_load_same_threads sched1 sched2 t key :
  let w1 := fst (run_sched W trap CAP false sched1 (w0 CAP)) in
  let w1' := fst (wstep W trap CAP false w1 t (SLoad key)) in
  let w2 := fst (run_sched W trap CAP false sched2 w1') in
  snd (wstep W trap CAP false w2 t (SLoad key)) = snd (wstep W trap CAP false w1 t (SLoad key)).
Proof.
  cbn zeta.
  set (w1 := fst (run_sched W trap CAP false sched1 (w0 CAP))).
  destruct (wstep_th w1 t (SLoad key)) as [E1 E2].
  set (w1' := fst (wstep W trap CAP false w1 t (SLoad key))) in *.
  destruct (wstep_th (fst (run_sched W trap CAP false sched2 w1')) t (SLoad key)) as [_ E4].
  rewrite E4, E2. destruct (sched_is_local t sched2 w1') as [_ E5]. rewrite E5, E1.
  unfold w1. rewrite thread_reachable.
  apply (load_same W trap CAP [] _ key (Inv_reachable W trap CAP (proj t sched1)) (proj t sched2)).
Qed.

End P.

(** * The shared return area: thread 1 copies with thread 2's plan *)
Definition witness : list (tid * step) :=
  [ (1, SLogPlan 3); (2, SLogPlan 5); (1, SLogCopy [65; 66; 67]); (1, SView); (2, SView) ].

Lemma witness_global W trap :
  proj 1 (snd (run_sched W trap LogGen.CAPACITY true witness (w0 LogGen.CAPACITY)))
  <> snd (run_solo W trap LogGen.CAPACITY true 1 (proj 1 witness) (w0 LogGen.CAPACITY)).
Proof. vm_compute. intros H. discriminate H. Qed.

(** what each thread sees: thread 1's message is lost, and lands in thread 2's buffer *)
Lemma witness_global_obs W trap :
  snd (run_sched W trap LogGen.CAPACITY true witness (w0 LogGen.CAPACITY)) =
  [ (1, ObPlan {| Ring.p_so := 0; Ring.p_d1 := 0; Ring.p_n1 := 3; Ring.p_d2 := None; Ring.p_n2 := 0 |});
    (2, ObPlan {| Ring.p_so := 0; Ring.p_d1 := 0; Ring.p_n1 := 5; Ring.p_d2 := None; Ring.p_n2 := 0 |});
    (1, ObUnit); (1, ObBytes [0; 0; 0]); (2, ObBytes [65; 66; 67; 0; 0]) ]
  /\ snd (run_solo W trap LogGen.CAPACITY true 1 (proj 1 witness) (w0 LogGen.CAPACITY)) =
  [ ObPlan {| Ring.p_so := 0; Ring.p_d1 := 0; Ring.p_n1 := 3; Ring.p_d2 := None; Ring.p_n2 := 0 |};
    ObUnit; ObBytes [65; 66; 67] ].
Proof. vm_compute. split; reflexivity. Qed.

Theorem c14_refuted_global W trap : forall g : bool, g = true ->
  exists (sched : list (tid * step)) (t : tid),
    proj t (snd (run_sched W trap LogGen.CAPACITY g sched (w0 LogGen.CAPACITY)))
    <> snd (run_solo W trap LogGen.CAPACITY g t (proj t sched) (w0 LogGen.CAPACITY)).
Proof. intros g ->. exists witness, 1. apply witness_global. Qed.

(** * Bridge to the generated table of statics *)
Lemma amtl_ret_area (l : list static_item) :
  all_mutable_thread_local l = true -> ret_area_global_of l = false.
Proof.
  unfold all_mutable_thread_local, ret_area_global_of. induction l as [|it l IH]; intros H; [reflexivity|].
  cbn [forallb existsb] in *. apply andb_true_iff in H. destruct H as [H1 H2].
  rewrite (IH H2), orb_false_r.
  destruct (s_mutable it), (is_global (s_placement it)); cbn in H1 |- *;
    try discriminate H1; rewrite ?andb_false_r; reflexivity.
Qed.

Theorem c14_statics : all_mutable_thread_local StaticsGen.statics = true ->
  forall (W : N) (trap : bool) (CAP : nat) (sched : list (tid * step)) (t : tid) (w : world),
    proj t (snd (run_sched W trap CAP (ret_area_global_of StaticsGen.statics) sched w))
    = snd (run_solo W trap CAP (ret_area_global_of StaticsGen.statics) t (proj t sched) w).
Proof. intros H W trap CAP. apply c14_local, amtl_ret_area, H. Qed.

Theorem c14_statics_refuted : ret_area_global_of StaticsGen.statics = true ->
  forall (W : N) (trap : bool),
  exists (sched : list (tid * step)) (t : tid),
    proj t (snd (run_sched W trap LogGen.CAPACITY (ret_area_global_of StaticsGen.statics) sched (w0 LogGen.CAPACITY)))
    <> snd (run_solo W trap LogGen.CAPACITY (ret_area_global_of StaticsGen.statics) t (proj t sched) (w0 LogGen.CAPACITY)).
Proof. intros H W trap. apply c14_refuted_global, H. Qed.
