(** The per-thread invocation context of provider/src/lib.rs ([struct Context], thread_local
    CONTEXT) together with the per-thread state of the native glue in api/src/lib.rs
    (INTERNED_STRING_CACHE, the destination pointers the glue holds between a provider call and
    the copy that follows it, and a THREAD-LOCAL copy of the log return area), and the
    provider-level steps, split exactly where a provider call hands back a destination or a copy
    plan that the glue uses afterwards.

    Rust field            model field
    bump_allocator        [crs] (roots: the lazy value trees allocated in the arena; outs: the
                          Vals handed out in this invocation, which scope arguments refer to)
    input_bytes           [cin]
    output_bytes          [Writer.out (cw c)]
    write_state           [Writer.wstate (cw c)]
    write_parent_state_stack  [Writer.wstack (cw c)]
    string_interner       [cint]  ([Writer.interned (cw c)] is kept equal to [istrings (cint c)])
    logs                  [clog]

    Not part of [struct Context] (never touched by initialize_from_msgpack_bytes):
    [ccache] (INTERNED_STRING_CACHE), [cdst]/[cidst] (locals of the glue: the destination returned by
    output_new_utf8_str / intern_utf8_str, as offset in the owning buffer and length), [cret]
    (the five words of the log return area when it is per-thread).

    Destinations are offsets relative to the owning buffer: an [ObDest] offset refers to the calling
    thread's output buffer, an [ObIntern] offset to its interner buffer, the offsets of a plan to
    its log ring buffer. *)
From Coq Require Import NArith ZArith List Bool.
From Coq Require Import String.
From SFV Require Import Base.Bytes Msgpack.Rmp Gen.CodesGen Read.Lazy Read.ReadRun Ctx.Interner.
From SFV Require Write.Writer Log.Ring.
Import ListNotations.
Open Scope N_scope.

Record ctx := {
  cin : list N;
  crs : rstate;
  cw : Writer.wctx;
  cint : interner;
  clog : Ring.logs N;
  ccache : list (list N * N);
  cdst : option (N * N);
  cidst : option (N * N);
  cret : option Ring.plan
}.

(** names of the fields of the Rust [struct Context] this record models *)
Definition modelled_fields : list String.string :=
  [ "bump_allocator"; "input_bytes"; "output_bytes"; "logs"; "write_state";
    "write_parent_state_stack"; "string_interner" ]%string.

Inductive step :=
| SInit (bytes : list N)                 (* initialize_from_msgpack_bytes *)
| SRead (op : rop)                       (* the read calls; scopes = earlier read outputs of this invocation *)
| SReadIProp (sc : option N) (id : N)    (* input_get_interned_obj_prop *)
| SWrite (op : Writer.wop)               (* a whole write call (strings: header + payload at once) *)
| SStrDest (len : N)                     (* output_new_utf8_str(len): allocate_utf8_str *)
| SStrCopy (s : list N)                  (* the glue's copy to the destination, if the status was Ok *)
| SIStr (id : N)                         (* output_new_interned_utf8_str *)
| SInternDest (len : N)                  (* intern_utf8_str(len): preallocate *)
| SInternCopy (s : list N)               (* the glue's copy to the destination *)
| SLogPlan (len : N)                     (* log_new_utf8_str(len): Logs::append, plan stored in the return area *)
| SLogCopy (m : list N)                  (* the glue reads the return area and performs the copies *)
| SLoad (key : list N)                   (* CachedInternedStringId::load *)
| SFinalize                              (* output_finalize_and_return_msgpack_bytes *)
| SView                                  (* what the host reads back from the log buffer *)
| SOut.                                  (* the current output bytes *)

Inductive obs :=
| ObUnit
| ObRead (o : out)
| ObW (r : Writer.wres)
| ObDest (r : Writer.wres) (dst : option N)
| ObIntern (id : N) (dst : N)
| ObPlan (p : Ring.plan)
| ObId (id : N)
| ObFin (status : N) (bytes : list N)
| ObBytes (bs : list N)
| ObBadRef.                              (* only produced by scripts ([srun]): a reference to an id not obtained *)

(** fuel for the lazy reader, a function of the input only (as in Read/ReadSafe.v) *)
Definition rfuel (bs : list N) : nat := (4 * List.length bs + 4)%nat.

Fixpoint lookup (key : list N) (cache : list (list N * N)) : option N :=
  match cache with
  | [] => None
  | (k, id) :: t => if bytes_eqb k key then Some id else lookup key t
  end.

Definition copy_log (l : Ring.logs N) (p : Ring.plan) (m : list N) : Ring.logs N :=
  {| Ring.buf := Ring.apply_plan (Ring.buf l) p m; Ring.off := Ring.off l; Ring.len := Ring.len l |}.

Definition mirror (w : Writer.wctx) (i : interner) : Writer.wctx :=
  {| Writer.wstate := Writer.wstate w; Writer.wstack := Writer.wstack w; Writer.out := Writer.out w;
     Writer.interned := istrings i |}.

Definition set_out (w : Writer.wctx) (o : list N) : Writer.wctx :=
  {| Writer.wstate := Writer.wstate w; Writer.wstack := Writer.wstack w; Writer.out := o;
     Writer.interned := Writer.interned w |}.

Definition set_rs (c : ctx) (r : rstate) : ctx :=
  {| cin := cin c; crs := r; cw := cw c; cint := cint c; clog := clog c; ccache := ccache c;
     cdst := cdst c; cidst := cidst c; cret := cret c |}.
Definition set_w (c : ctx) (w : Writer.wctx) : ctx :=
  {| cin := cin c; crs := crs c; cw := w; cint := cint c; clog := clog c; ccache := ccache c;
     cdst := cdst c; cidst := cidst c; cret := cret c |}.
(** every change of the interner re-synchronises the writer's abstract view of it *)
Definition set_int (c : ctx) (i : interner) : ctx :=
  {| cin := cin c; crs := crs c; cw := mirror (cw c) i; cint := i; clog := clog c; ccache := ccache c;
     cdst := cdst c; cidst := cidst c; cret := cret c |}.
Definition set_log (c : ctx) (l : Ring.logs N) : ctx :=
  {| cin := cin c; crs := crs c; cw := cw c; cint := cint c; clog := l; ccache := ccache c;
     cdst := cdst c; cidst := cidst c; cret := cret c |}.
Definition set_cache (c : ctx) (k : list (list N * N)) : ctx :=
  {| cin := cin c; crs := crs c; cw := cw c; cint := cint c; clog := clog c; ccache := k;
     cdst := cdst c; cidst := cidst c; cret := cret c |}.
Definition set_dst (c : ctx) (d : option (N * N)) : ctx :=
  {| cin := cin c; crs := crs c; cw := cw c; cint := cint c; clog := clog c; ccache := ccache c;
     cdst := d; cidst := cidst c; cret := cret c |}.
Definition set_idst (c : ctx) (d : option (N * N)) : ctx :=
  {| cin := cin c; crs := crs c; cw := cw c; cint := cint c; clog := clog c; ccache := ccache c;
     cdst := cdst c; cidst := d; cret := cret c |}.
Definition set_ret (c : ctx) (p : option Ring.plan) : ctx :=
  {| cin := cin c; crs := crs c; cw := cw c; cint := cint c; clog := clog c; ccache := ccache c;
     cdst := cdst c; cidst := cidst c; cret := p |}.

Section Ctx.
Variable W : N.          (* usize::BITS *)
Variable trap : bool.    (* overflow checks on *)
Variable CAP : nat.      (* log capacity (LogGen.CAPACITY for the real code) *)

(** a fresh thread: Context::default(), empty cache, return area [0; 5] (no plan) *)
Definition c0 : ctx :=
  {| cin := []; crs := rinit; cw := Writer.init; cint := iempty; clog := Ring.init 0 CAP;
     ccache := []; cdst := None; cidst := None; cret := None |}.

(** initialize_from_msgpack_bytes: everything of [struct Context] default, input := bytes,
    the interner moved across.  (Nothing outside [struct Context] is touched.) *)
Definition do_init (c : ctx) (bytes : list N) : ctx :=
  {| cin := bytes; crs := rinit; cw := mirror Writer.init (cint c); cint := cint c;
     clog := Ring.init 0 CAP; ccache := ccache c; cdst := cdst c; cidst := cidst c; cret := cret c |}.

Definition do_read (c : ctx) (op : rop) : ctx * obs :=
  let st' := exec W trap (rfuel (cin c)) (cin c) (crs c) op in
  (set_rs c st', ObRead (last (outs st') OFuel)).

(** shopify_function_input_get_interned_obj_prop: the interner is consulted only once the scope
    has decoded as an object; the lookup is then the ordinary property lookup with the resolved
    bytes ([RProp sc name]). *)
Definition do_read_iprop (c : ctx) (sc : option N) (id : N) : ctx * obs :=
  match scope_of (crs c) sc with
  | SAns (AObj _ _) =>
      match iget (cint c) id with
      | Some name => do_read c (RProp sc name)
      | None =>
          (set_rs c {| roots := roots (crs c); outs := outs (crs c) ++ [OPanic Writer.P_interner_index] |},
           ObRead (OPanic Writer.P_interner_index))
      end
  | _ => do_read c (RProp sc [])
  end.

(** Context::allocate_utf8_str *)
Definition do_str_dest (c : ctx) (len : N) : ctx * obs :=
  let hdr := write_str_len (len mod 2 ^ 32) in
  let '(w', r) := Writer.commit (cw c) (Writer.st_write_string W trap (Writer.wstate (cw c)))
                                (Writer.wstack (cw c)) (hdr ++ zeros len) in
  match r with
  | Writer.WOk =>
      let d := lenN (Writer.out (cw c)) + lenN hdr in
      (set_dst (set_w c w') (Some (d, len)), ObDest r (Some d))
  | _ => (set_dst (set_w c w') None, ObDest r None)
  end.

Definition do_str_copy (c : ctx) (s : list N) : ctx * obs :=
  match cdst c with
  | Some (d, len) =>
      (set_dst (set_w c (set_out (cw c) (overwrite (Writer.out (cw c)) d (takeN s len)))) None, ObUnit)
  | None => (c, ObUnit)
  end.

(** Context::write_interned_utf8_str *)
Definition do_istr (c : ctx) (id : N) : ctx * obs :=
  match iget (cint c) id with
  | None => (c, ObW (Writer.WPanic Writer.P_interner_index))
  | Some s => let '(w', r) := Writer.write_str W trap (cw c) s in (set_w c w', ObW r)
  end.

Definition do_intern_dest (c : ctx) (len : N) : ctx * obs :=
  let '(i', id, d) := preallocate (cint c) len in
  (set_idst (set_int c i') (Some (d, len)), ObIntern id d).

Definition do_intern_copy (c : ctx) (s : list N) : ctx * obs :=
  match cidst c with
  | Some (d, len) => (set_idst (set_int c (icopy (cint c) d (takeN s len))) None, ObUnit)
  | None => (c, ObUnit)
  end.

(** shopify_function_log_new_utf8_str(len) with a per-thread return area *)
Definition do_log_plan (c : ctx) (len : N) : ctx * Ring.plan :=
  let '(l', p) := Ring.append CAP (clog c) (N.to_nat len) in (set_log c l', p).

(** CachedInternedStringId::load *)
Definition do_load (c : ctx) (key : list N) : ctx * obs :=
  match lookup key (ccache c) with
  | Some id => (c, ObId id)
  | None =>
      let '(i', id) := intern (cint c) key in
      (set_cache (set_int c i') ((key, id) :: ccache c), ObId id)
  end.

Definition lstep (c : ctx) (s : step) : ctx * obs :=
  match s with
  | SInit b => (do_init c b, ObUnit)
  | SRead op => do_read c op
  | SReadIProp sc id => do_read_iprop c sc id
  | SWrite op => let '(w', r) := Writer.step W trap (cw c) op in (set_w c w', ObW r)
  | SStrDest len => do_str_dest c len
  | SStrCopy s => do_str_copy c s
  | SIStr id => do_istr c id
  | SInternDest len => do_intern_dest c len
  | SInternCopy s => do_intern_copy c s
  | SLogPlan len => let '(c', p) := do_log_plan c len in (set_ret c' (Some p), ObPlan p)
  | SLogCopy m =>
      match cret c with
      | Some p => (set_log c (copy_log (clog c) p m), ObUnit)
      | None => (c, ObUnit)
      end
  | SLoad key => do_load c key
  | SFinalize => let '(st, bs) := Writer.finalize (cw c) in (c, ObFin st bs)
  | SView => (c, ObBytes (Ring.host_view CAP (clog c)))
  | SOut => (c, ObBytes (Writer.out (cw c)))
  end.

Fixpoint lrun (l : list step) (c : ctx) : ctx * list obs :=
  match l with
  | [] => (c, [])
  | s :: t => let '(c1, o) := lstep c s in let '(c2, os) := lrun t c1 in (c2, o :: os)
  end.

(** * Scripts: whole API calls of one thread (a provider call and the glue's copy are adjacent, as
    in the glue), whose id arguments refer to "the k-th id obtained in this script". *)
Inductive call :=
| KInit (bytes : list N)
| KRead (op : rop)
| KReadIProp (sc : option N) (k : N)
| KWrite (op : Writer.wop)           (* [OIStr k]: the k-th id obtained in this script *)
| KStr (s : list N)                  (* output_new_utf8_str of the glue: destination + copy *)
| KIntern (s : list N)               (* intern_utf8_str of the glue: destination + copy *)
| KLog (m : list N)                  (* log_new_utf8_str of the glue: plan + copies *)
| KLoad (key : list N)
| KFinalize | KView | KOut.

Definition call_steps (ids : list N) (k : call) : option (list step) :=
  match k with
  | KInit b => Some [SInit b]
  | KRead op => Some [SRead op]
  | KReadIProp sc j => match nthN ids j with Some id => Some [SReadIProp sc id] | None => None end
  | KWrite (Writer.OIStr j) => match nthN ids j with Some id => Some [SIStr id] | None => None end
  | KWrite op => Some [SWrite op]
  | KStr s => Some [SStrDest (lenN s); SStrCopy s]
  | KIntern s => Some [SInternDest (lenN s); SInternCopy s]
  | KLog m => Some [SLogPlan (lenN m); SLogCopy m]
  | KLoad key => Some [SLoad key]
  | KFinalize => Some [SFinalize]
  | KView => Some [SView]
  | KOut => Some [SOut]
  end.

Definition ids_of (o : obs) : list N :=
  match o with ObIntern id _ => [id] | ObId id => [id] | _ => [] end.

Fixpoint srun (l : list call) (c : ctx) (ids : list N) : ctx * list obs :=
  match l with
  | [] => (c, [])
  | k :: t =>
      match call_steps ids k with
      | None => let '(c2, os) := srun t c ids in (c2, ObBadRef :: os)
      | Some steps =>
          let '(c1, o1) := lrun steps c in
          let '(c2, os) := srun t c1 (ids ++ flat_map ids_of o1) in
          (c2, o1 ++ os)
      end
  end.

End Ctx.

(** interned ids and interner destinations are opaque handles: observations up to their values *)
Definition erase_id (o : obs) : obs :=
  match o with ObIntern _ _ => ObIntern 0 0 | ObId _ => ObId 0 | _ => o end.

(** an earlier history that interned [n] strings of [b] bytes in total shifts ids by [n] and
    interner destinations by [b] *)
Definition shift_id (n b : N) (o : obs) : obs :=
  match o with ObIntern id d => ObIntern (n + id) (b + d) | ObId id => ObId (n + id) | _ => o end.
