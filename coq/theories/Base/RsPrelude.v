(** Vocabulary of the Gallina that translator T8 (translators/rs2v) emits for the integer-only subset of
    Rust it understands: the error monad, machine arithmetic at an explicit width with both overflow
    modes (debug builds panic, release builds wrap), [Vec] as a list in push order, raw pointers into a
    buffer as offsets.  Definitions only. *)
From Coq Require Import NArith List Bool.
From SFV Require Import Base.Bytes.
Import ListNotations.
Open Scope N_scope.

Inductive gres (A : Type) :=
| GOk (a : A)
| GPanic (site : N).
Arguments GOk {A}. Arguments GPanic {A}.

(** [Result<T, E>] for a C-like error enum [E] (its discriminant) *)
Inductive rres (A : Type) :=
| ROk (a : A)
| RErr (code : N).
Arguments ROk {A}. Arguments RErr {A}.

Definition gbind {A B} (m : gres A) (f : A -> gres B) : gres B :=
  match m with
  | GOk a => f a
  | GPanic s => GPanic s
  end.

(** Panic sites *)
Definition P_add : N := 101.     (* attempt to add with overflow *)
Definition P_sub : N := 102.     (* attempt to subtract with overflow *)
Definition P_mul : N := 103.     (* attempt to multiply with overflow *)
Definition P_div0 : N := 104.    (* attempt to divide by zero / remainder with a divisor of zero *)
Definition P_shift : N := 105.   (* attempt to shift left/right with overflow *)
Definition P_index : N := 106.   (* index out of bounds *)
Definition P_slice : N := 107.   (* slice index out of range *)
Definition P_match : N := 108.   (* a `match` on a C-like enum value that is none of its variants (cannot happen for a valid value) *)
Definition P_assert (line : N) : N := 1000 + line.

(** [bits]-wide unsigned arithmetic; [trap] = overflow checks on. *)
Definition u_add (bits : N) (trap : bool) (a b : N) : gres N :=
  let r := a + b in
  if r <? 2 ^ bits then GOk r else if trap then GPanic P_add else GOk (r mod 2 ^ bits).
Definition u_sub (bits : N) (trap : bool) (a b : N) : gres N :=
  if b <=? a then GOk (a - b) else if trap then GPanic P_sub else GOk (a + 2 ^ bits - b).
Definition u_mul (bits : N) (trap : bool) (a b : N) : gres N :=
  let r := a * b in
  if r <? 2 ^ bits then GOk r else if trap then GPanic P_mul else GOk (r mod 2 ^ bits).
(** division and remainder panic on a zero divisor in every build *)
Definition u_div (bits : N) (trap : bool) (a b : N) : gres N :=
  if b =? 0 then GPanic P_div0 else GOk (a / b).
Definition u_rem (bits : N) (trap : bool) (a b : N) : gres N :=
  if b =? 0 then GPanic P_div0 else GOk (a mod b).
(** shifts: the amount must be below the width (panic when checked, masked otherwise); bits shifted out are lost *)
Definition u_shl (bits : N) (trap : bool) (a s : N) : gres N :=
  if s <? bits then GOk (N.shiftl a s mod 2 ^ bits)
  else if trap then GPanic P_shift else GOk (N.shiftl a (s mod bits) mod 2 ^ bits).
Definition u_shr (bits : N) (trap : bool) (a s : N) : gres N :=
  if s <? bits then GOk (N.shiftr a s)
  else if trap then GPanic P_shift else GOk (N.shiftr a (s mod bits)).
Definition u_not (bits : N) (a : N) : N := N.lxor a (N.ones bits).
(** [x as uN]: truncation (a widening cast of an in-range value is the identity) *)
Definition u_cast (bits : N) (a : N) : N := a mod 2 ^ bits.

(** [Vec]: a list in push order *)
Definition vec_pop_or {A} (d : A) (l : list A) : A * list A :=
  match rev l with
  | [] => (d, [])
  | x :: r => (x, rev r)
  end.
Definition vec_resize {A} (l : list A) (n : N) (z : A) : list A :=
  if n <=? lenN l then takeN l n else l ++ repeat z (N.to_nat (n - lenN l)).
Definition vec_index {A} (l : list A) (i : N) : gres A :=
  match nthN l i with Some x => GOk x | None => GPanic P_index end.
Definition vec_slice {A} (l : list A) (lo hi : N) : gres (list A) :=
  if (hi <? lo) || (lenN l <? hi) then GPanic P_slice else GOk (sub l lo (hi - lo)).
Definition vec_slice_from {A} (l : list A) (lo : N) : gres (list A) :=
  if lenN l <? lo then GPanic P_slice else GOk (dropN l lo).
(** [v[lo..].as_ptr()]: a pointer = offset into the (one) buffer, [None] = null *)
Definition vec_ptr_at {A} (l : list A) (lo : N) : gres (option N) :=
  if lenN l <? lo then GPanic P_slice else GOk (Some lo).
(** [ptr::copy_nonoverlapping(src, dst, n)] into a buffer: the destination must be a non-null offset with the whole
    range inside the buffer (anything else is undefined behaviour in Rust: a panic site here, so that a reachable
    one breaks every equivalence); the buffer keeps its length. *)
Definition P_ub : N := 109.
Fixpoint vec_overwrite (b : list N) (off : N) (s : list N) : list N :=
  match b with
  | [] => []
  | x :: t =>
      if off =? 0 then match s with [] => b | y :: s' => y :: vec_overwrite t 0 s' end
      else x :: vec_overwrite t (off - 1) s
  end.
Definition vec_write (b : list N) (dst : option N) (data : list N) : gres (list N) :=
  match dst with
  | Some off => if off + lenN data <=? lenN b then GOk (vec_overwrite b off data) else GPanic P_ub
  | None => GPanic P_ub
  end.
Definition ptr_add (p : option N) (n : N) : option N :=
  match p with Some o => Some (o + n) | None => None end.
(** a pointer as an integer: the offset into the buffer it points into; null is 0 *)
Definition ptr_val (p : option N) : N := match p with Some o => o | None => 0 end.
Definition ptr_eqb (p q : option N) : bool :=
  match p, q with
  | Some a, Some b => a =? b
  | None, None => true
  | _, _ => false
  end.

(** f64 as its bit pattern: NaN = exponent all ones and a non-zero mantissa *)
Definition f64_is_nan (b : N) : bool :=
  ((b / 2 ^ 52) mod 2 ^ 11 =? 2047) && negb (b mod 2 ^ 52 =? 0).

(** ** Loops, recursion, [Option] and slice helpers (T8 with [--fuel]) *)
(** a lifted loop body either leaves the whole function ([LRet], from `return` / `?`) or hands the loop-carried
    variables back ([LNext], from `break` or the exhausted counter) *)
Inductive lctl (R S : Type) :=
| LRet (r : R)
| LNext (s : S).
Arguments LRet {R S}. Arguments LNext {R S}.
Definition P_fuel : N := 110.    (* not a Rust panic: the fuel of a recursive translation ran out *)
Definition P_unwrap : N := 111.  (* `Option::unwrap` / `expect` on `None` *)
Definition opt_unwrap {A} (o : option A) : gres A :=
  match o with Some x => GOk x | None => GPanic P_unwrap end.
(** [v.last()] / [v.last_mut()] and the write-back through the latter *)
Definition vec_last {A} (l : list A) : option A :=
  match rev l with [] => None | x :: _ => Some x end.
Definition vec_upd_last {A} (l : list A) (x : A) : list A := removelast l ++ [x].
(** [v.iter().position(f)]: the closure may panic; it runs on the elements in order up to the first hit *)
Fixpoint vec_position_from {A} (f : A -> gres bool) (l : list A) (i : N) : gres (option N) :=
  match l with
  | [] => GOk None
  | x :: t => gbind (f x) (fun b => if b then GOk (Some i) else vec_position_from f t (i + 1))
  end.
Definition vec_position {A} (f : A -> gres bool) (l : list A) : gres (option N) := vec_position_from f l 0.
(** [a == b] on byte slices *)
Definition vec_eqb (a b : list N) : bool :=
  (lenN a =? lenN b) && forallb (fun '(x, y) => x =? y) (combine a b).
