(** Proofs about the bit-level binary64 model [SFV.Base.F64]. *)
From Coq Require Import NArith ZArith Lia Bool ZifyN ZifyBool.
From SFV Require Import Base.F64.
Ltac Zify.zify_post_hook ::= Z.div_mod_to_equations.
Open Scope N_scope.

(** * Field decomposition of a 64-bit pattern *)

Lemma f_sign_div bits : N.b2n (f_sign bits) = (bits / 2^63) mod 2.
Proof. unfold f_sign. apply N.testbit_spec'. Qed.

Lemma f_expo_lt bits : f_expo bits < 2^11.
Proof. unfold f_expo. apply N.mod_lt. discriminate. Qed.

Lemma f_mant_lt bits : f_mant bits < 2^52.
Proof. unfold f_mant. apply N.mod_lt. discriminate. Qed.

Lemma bits_fields bits : bits < 2^64 ->
  bits = (if f_sign bits then 2^63 else 0) + f_expo bits * 2^52 + f_mant bits.
Proof.
  intros H. pose proof (f_sign_div bits) as Hs. unfold f_expo, f_mant.
  destruct (f_sign bits); cbn [N.b2n] in Hs; lia.
Qed.

Lemma fields_of_sum (s : bool) (e m : N) : e < 2^11 -> m < 2^52 ->
  let bits := (if s then 2^63 else 0) + e * 2^52 + m in
  f_sign bits = s /\ f_expo bits = e /\ f_mant bits = m /\ bits < 2^64.
Proof.
  intros He Hm bits. pose proof (f_sign_div bits) as Hs. unfold f_expo, f_mant. subst bits.
  destruct s; (split; [|repeat split; try lia]).
  - destruct (f_sign _); [reflexivity|]. cbn [N.b2n] in Hs. lia.
  - destruct (f_sign _); [|reflexivity]. cbn [N.b2n] in Hs. lia.
Qed.

(** * Shape of decoded values *)

Definition fin_wf (m : N) (e : Z) : Prop :=
  (m < 2^52 /\ e = (-1074)%Z) \/ (2^52 <= m < 2^53 /\ (-1074 <= e <= 971)%Z).

Lemma FFin_inj n1 m1 e1 n2 m2 e2 : FFin n1 m1 e1 = FFin n2 m2 e2 -> n1 = n2 /\ m1 = m2 /\ e1 = e2.
Proof. intros H. injection H. auto. Qed.

Lemma decode_fin_wf bits n m e : decode bits = FFin n m e -> n = f_sign bits /\ fin_wf m e.
Proof.
  unfold decode. pose proof (f_expo_lt bits) as He. pose proof (f_mant_lt bits) as Hm.
  destruct (N.eqb_spec (f_expo bits) 2047) as [E1|E1].
  - destruct (f_mant bits =? 0); discriminate.
  - destruct (N.eqb_spec (f_expo bits) 0) as [E0|E0]; intros H; apply FFin_inj in H;
      destruct H as (<- & <- & <-); (split; [reflexivity|]).
    + left. split; [exact Hm|reflexivity].
    + right. lia.
Qed.

Lemma fin_wf_bounds m e : fin_wf m e -> m < 2^53 /\ (-1074 <= e <= 971)%Z.
Proof. unfold fin_wf. lia. Qed.

(** * Integer-valued finite doubles *)

(** [repr n m e z]: the finite value (-1)^n * m * 2^e is the integer z. *)
Definition repr (n : bool) (m : N) (e : Z) (z : Z) : Prop :=
  if (e <? 0)%Z then sgn n m = (z * 2 ^ (- e))%Z else z = (sgn n m * 2 ^ e)%Z.

Lemma repr_scaled n m e z E : repr n m e z -> (E <= e)%Z -> (E <= 0)%Z ->
  (sgn n m * 2 ^ (e - E) = z * 2 ^ (- E))%Z.
Proof.
  unfold repr. intros H H1 H2. destruct (Z.ltb_spec e 0).
  - rewrite H. rewrite <- Z.mul_assoc, <- Z.pow_add_r by lia. f_equal; f_equal; lia.
  - subst z. rewrite <- Z.mul_assoc, <- Z.pow_add_r by lia. f_equal; f_equal; lia.
Qed.

Lemma fin_cmp_repr n1 m1 e1 z1 n2 m2 e2 z2 :
  repr n1 m1 e1 z1 -> repr n2 m2 e2 z2 -> fin_cmp n1 m1 e1 n2 m2 e2 = Z.compare z1 z2.
Proof.
  intros R1 R2. unfold fin_cmp. set (e := Z.min e1 e2).
  destruct (Z.leb_spec e 0) as [L|L].
  - rewrite (repr_scaled _ _ _ _ e R1), (repr_scaled _ _ _ _ e R2) by lia.
    symmetry. apply Zmult_compare_compat_r. apply Z.lt_gt, Z.pow_pos_nonneg; lia.
  - unfold repr in R1, R2.
    destruct (Z.ltb_spec e1 0); [lia|]. destruct (Z.ltb_spec e2 0); [lia|].
    subst z1 z2.
    replace e1 with ((e1 - e) + e)%Z at 2 by lia. replace e2 with ((e2 - e) + e)%Z at 2 by lia.
    rewrite !Z.pow_add_r, !Z.mul_assoc by lia.
    apply Zmult_compare_compat_r. apply Z.lt_gt, Z.pow_pos_nonneg; lia.
Qed.

(** The finite part of [exact_int]. *)
Definition exact_fin (n : bool) (m : N) (e : Z) : option Z :=
  if (e <? 0)%Z then
    let k := Z.to_N (- e) in
    if N.land m (N.ones k) =? 0 then Some (sgn n (N.shiftr m k)) else None
  else Some (sgn n m * 2 ^ e)%Z.

Lemma exact_int_decode bits :
  exact_int bits = match decode bits with FFin n m e => exact_fin n m e | _ => None end.
Proof. reflexivity. Qed.

Lemma pow2_N_Z k : Z.of_N (2 ^ k) = (2 ^ Z.of_N k)%Z.
Proof. rewrite N2Z.inj_pow. reflexivity. Qed.

Lemma exact_fin_Some n m e z : exact_fin n m e = Some z ->
  repr n m e z /\ fin_int_part n m e = z.
Proof.
  unfold exact_fin, repr, fin_int_part. destruct (Z.ltb_spec e 0) as [L|L].
  - set (k := Z.to_N (- e)). destruct (N.eqb_spec (N.land m (N.ones k)) 0) as [E|E]; [|discriminate].
    intros H; injection H as <-. split; [|reflexivity].
    rewrite N.land_ones in E. rewrite N.shiftr_div_pow2.
    replace (- e)%Z with (Z.of_N k) by lia. rewrite <- pow2_N_Z.
    assert (P : 0 < 2 ^ k) by (apply N.neq_0_lt_0, N.pow_nonzero; discriminate).
    generalize dependent (2 ^ k). intros P E HP.
    assert (m = P * (m / P)) by (rewrite (N.div_mod m P) at 1 by lia; lia).
    generalize dependent (m / P). intros q Hq. subst m. unfold sgn. destruct n; lia.
  - intros H; injection H as <-. split; reflexivity.
Qed.

Lemma f_eq_trunc_fin n m e :
  f_eq (f_trunc (FFin n m e)) (FFin n m e) =
  match exact_fin n m e with Some _ => true | None => false end.
Proof.
  unfold exact_fin, f_trunc. destruct (Z.ltb_spec e 0) as [L|L].
  - set (k := Z.to_N (- e)). cbn [f_eq]. unfold fin_cmp.
    rewrite Z.min_r by lia. rewrite Z.sub_diag, Z.mul_1_r.
    replace (0 - e)%Z with (Z.of_N k) by lia. rewrite <- pow2_N_Z.
    rewrite N.land_ones, N.shiftr_div_pow2.
    assert (P : 0 < 2 ^ k) by (apply N.neq_0_lt_0, N.pow_nonzero; discriminate).
    generalize dependent (2 ^ k). intros P HP.
    pose proof (N.div_mod m P ltac:(lia)) as D. pose proof (N.mod_lt m P ltac:(lia)) as B.
    generalize dependent (m / P). intros q. generalize dependent (m mod P). intros r. intros B D.
    subst m. destruct (N.eqb_spec r 0) as [E|E].
    + subst r. replace (sgn n q * Z.of_N P)%Z with (sgn n (P * q + 0)) by (unfold sgn; destruct n; lia).
      rewrite Z.compare_refl. reflexivity.
    + destruct (Z.compare_spec (sgn n q * Z.of_N P) (sgn n (P * q + r))) as [C|C|C]; try reflexivity.
      exfalso. unfold sgn in C. destruct n; lia.
  - cbn [f_eq]. unfold fin_cmp. rewrite Z.compare_refl. reflexivity.
Qed.

Lemma exact_int_Some bits z : exact_int bits = Some z ->
  exists n m e, decode bits = FFin n m e /\ exact_fin n m e = Some z.
Proof.
  rewrite exact_int_decode. destruct (decode bits) as [| |n m e]; try discriminate.
  intros H. exists n, m, e. auto.
Qed.

(** * Which double is a given power of two *)

Lemma decode_fin_cases bits n m e : decode bits = FFin n m e ->
  n = f_sign bits /\
  ((f_expo bits = 0 /\ m = f_mant bits /\ e = (-1074)%Z) \/
   (0 < f_expo bits < 2047 /\ m = 2^52 + f_mant bits /\ e = (Z.of_N (f_expo bits) - 1075)%Z)).
Proof.
  unfold decode. pose proof (f_expo_lt bits) as He.
  destruct (N.eqb_spec (f_expo bits) 2047) as [E1|E1].
  - destruct (f_mant bits =? 0); discriminate.
  - destruct (N.eqb_spec (f_expo bits) 0) as [E0|E0]; intros H; apply FFin_inj in H;
      destruct H as (<- & <- & <-); (split; [reflexivity|]).
    + left. auto.
    + right. lia.
Qed.

Lemma shiftr_le m k : N.shiftr m k <= m.
Proof.
  rewrite N.shiftr_div_pow2. apply N.div_le_upper_bound.
  - apply N.pow_nonzero. discriminate.
  - assert (0 < 2 ^ k) by (apply N.neq_0_lt_0, N.pow_nonzero; discriminate). nia.
Qed.

Lemma exact_int_pow2_inv bits p : bits < 2^64 -> (53 <= p <= 1023)%Z ->
  exact_int bits = Some (2 ^ p)%Z -> bits = Z.to_N (p + 1023) * 2^52.
Proof.
  intros Hb Hp H. apply exact_int_Some in H. destruct H as (n & m & e & D & X).
  pose proof (decode_fin_wf _ _ _ _ D) as [_ WF].
  apply decode_fin_cases in D. destruct D as [Hn D].
  assert (P53 : (2 ^ 53 <= 2 ^ p)%Z) by (apply Z.pow_le_mono_r; lia).
  unfold exact_fin in X. destruct (Z.ltb_spec e 0) as [L|L].
  - exfalso. destruct (N.land m _ =? 0); [|discriminate]. injection X as X.
    pose proof (shiftr_le m (Z.to_N (- e))) as S. apply fin_wf_bounds in WF.
    unfold sgn in X. destruct n; lia.
  - injection X as X.
    assert (E : (0 < 2 ^ e)%Z) by (apply Z.pow_pos_nonneg; lia).
    destruct D as [D|(De & Dm & Dexp)]; [lia|].
    destruct n; unfold sgn in X; [exfalso; nia|].
    pose proof (f_mant_lt bits) as Hm.
    assert (p = 52 + e)%Z as ->.
    { assert (2 ^ (52 + e) <= 2 ^ p)%Z as A by (rewrite Z.pow_add_r by lia; nia).
      assert (2 ^ p < 2 ^ (53 + e))%Z as B by (rewrite Z.pow_add_r by lia; nia).
      apply Z.pow_le_mono_r_iff in A; [|lia|lia]. apply Z.pow_lt_mono_r_iff in B; lia. }
    rewrite Z.pow_add_r in X by lia.
    assert (f_mant bits = 0) as M0 by nia.
    rewrite (bits_fields bits Hb) at 1. rewrite <- Hn, M0. lia.
Qed.

(** * [N.size] *)

Lemma pow2_pos k : 0 < 2 ^ k.
Proof. apply N.neq_0_lt_0, N.pow_nonzero. discriminate. Qed.

Lemma size_bounds n : n <> 0 -> 1 <= N.size n /\ 2 ^ (N.size n - 1) <= n < 2 ^ N.size n.
Proof.
  intros H. rewrite (N.size_log2 n H). pose proof (N.log2_spec n ltac:(lia)) as S.
  replace (N.succ (N.log2 n) - 1) with (N.log2 n) by lia. lia.
Qed.

Lemma size_unique n l : 1 <= l -> 2 ^ (l - 1) <= n < 2 ^ l -> N.size n = l.
Proof.
  intros Hl H. pose proof (pow2_pos (l - 1)) as P.
  rewrite N.size_log2 by lia. rewrite (N.log2_unique n (l - 1)); [lia|lia|].
  replace (N.succ (l - 1)) with l by lia. exact H.
Qed.

Lemma size_le_iff n l : N.size n <= l <-> n < 2 ^ l.
Proof.
  destruct (N.eq_dec n 0) as [->|H].
  - cbn [N.size]. pose proof (pow2_pos l). lia.
  - pose proof (size_bounds n H) as (S1 & S2 & S3). split; intros A.
    + eapply N.lt_le_trans; [exact S3|]. apply N.pow_le_mono_r; [discriminate|exact A].
    + destruct (N.le_gt_cases (N.size n) l) as [B|B]; [exact B|exfalso].
      assert (2 ^ l <= 2 ^ (N.size n - 1)) by (apply N.pow_le_mono_r; [discriminate|lia]). lia.
Qed.

Lemma size_53 q : 2 ^ 52 <= q < 2 ^ 53 -> N.size q = 53.
Proof. intros H. apply size_unique; [lia|]. change (53 - 1) with 52. exact H. Qed.

(** * [round53]: round to nearest among m * 2^k, m < 2^53 *)

Lemma round_core half q r q' :
  q' = (if r <? half then q else if half <? r then q + 1 else if N.even q then q else q + 1) ->
  (q' = q /\ r <= half) \/ (q' = q + 1 /\ half <= r).
Proof.
  intros ->. destruct (N.ltb_spec r half); [left; lia|].
  destruct (N.ltb_spec half r); [right; lia|]. destruct (N.even q); [left|right]; lia.
Qed.

(** Between two consecutive multiples of 2^k above 2^(52+k) there is no value M * 2^E, M < 2^53. *)
Lemma gap k q M E : 1 <= k -> 2^52 <= q -> M < 2^53 ->
  M * 2 ^ E <= q * 2 ^ k \/ (q + 1) * 2 ^ k <= M * 2 ^ E.
Proof.
  intros Hk Hq HM. destruct (N.lt_ge_cases E k) as [L|L].
  - left. assert (2 ^ E <= 2 ^ (k - 1)) as A by (apply N.pow_le_mono_r; [discriminate|lia]).
    assert (2 ^ k = 2 * 2 ^ (k - 1)) as B
      by (rewrite <- N.pow_succ_r'; f_equal; lia).
    rewrite B. generalize dependent (2 ^ (k - 1)). generalize dependent (2 ^ E). intros X h A _.
    assert (M * X <= 2 ^ 53 * h) by (apply N.mul_le_mono; lia).
    assert (2 ^ 52 * (2 * h) <= q * (2 * h)) by (apply N.mul_le_mono_r; exact Hq). lia.
  - replace E with ((E - k) + k) by lia. rewrite N.pow_add_r, N.mul_assoc.
    generalize (M * 2 ^ (E - k)). intros c. generalize (2 ^ k). intros P.
    destruct (N.le_gt_cases c q) as [C|C].
    + left. apply N.mul_le_mono_r. exact C.
    + right. apply N.mul_le_mono_r. lia.
Qed.

Lemma round53_spec n m k : round53 n = (m, k) ->
  m < 2^53 /\ k + N.size m <= N.size n + 1 /\
  forall M E, M < 2^53 ->
    (Z.abs (Z.of_N (m * 2 ^ k) - Z.of_N n) <= Z.abs (Z.of_N (M * 2 ^ E) - Z.of_N n))%Z.
Proof.
  unfold round53. destruct (N.leb_spec (N.size n) 53) as [L|L].
  - intros H. apply pair_equal_spec in H. destruct H as [<- <-]. split; [apply size_le_iff; exact L|]. split; [lia|].
    intros M E _. rewrite N.pow_0_r, N.mul_1_r. lia.
  - set (l := N.size n) in *. set (k0 := l - 53).
    assert (n <> 0) as Hn by (intros ->; cbn in l; lia).
    pose proof (size_bounds n Hn) as (_ & Lo & Hi). fold l in Lo, Hi.
    assert (1 <= k0) as Hk by lia.
    replace (l - 1) with (52 + k0) in Lo by lia. replace l with (53 + k0) in Hi by lia.
    rewrite N.pow_add_r in Lo, Hi.
    rewrite N.shiftr_div_pow2, N.land_ones.
    assert (2 ^ k0 = 2 * 2 ^ (k0 - 1)) as HP by (rewrite <- N.pow_succ_r'; f_equal; lia).
    pose proof (pow2_pos (k0 - 1)) as Hh.
    assert (2 ^ (k0 + 1) = 2 * 2 ^ k0) as HP1 by (rewrite N.add_1_r, N.pow_succ_r'; reflexivity).
    pose proof (N.div_mod n (2 ^ k0) ltac:(lia)) as D.
    pose proof (N.mod_lt n (2 ^ k0) ltac:(lia)) as B.
    assert (2 ^ 52 <= n / 2 ^ k0) as Hq1 by (apply N.div_le_lower_bound; lia).
    assert (n / 2 ^ k0 < 2 ^ 53) as Hq2 by (apply N.div_lt_upper_bound; lia).
    pose proof (fun M E => gap k0 (n / 2 ^ k0) M E Hk Hq1) as G.
    set (q := n / 2 ^ k0) in *. set (r := n mod 2 ^ k0) in *. clearbody q r.
    set (half := 2 ^ (k0 - 1)) in *. clearbody half.
    match goal with |- context [if ?c =? 2 ^ 53 then _ else _] => set (q' := c) end.
    assert (k0 + 53 <= l) as Hl by lia. clearbody l. clear L.
    destruct (round_core half q r q' eq_refl) as [(Eq & Hr)|(Eq & Hr)]; clearbody q'; subst q'.
    + destruct (N.eqb_spec q (2 ^ 53)) as [E1|E1]; [lia|]. intros H. apply pair_equal_spec in H. destruct H as [<- <-].
      split; [lia|]. split; [rewrite (size_53 q); lia|].
      intros M E HM. specialize (G M E HM). clear Lo Hi.
      generalize dependent (2 ^ k0). intros P. generalize (M * 2 ^ E). intros. nia.
    + destruct (N.eqb_spec (q + 1) (2 ^ 53)) as [E1|E1]; intros H; apply pair_equal_spec in H; destruct H as [<- <-].
      * split; [lia|]. split; [change (N.size (2 ^ 52)) with 53; lia|].
        intros M E HM. specialize (G M E HM). clear Lo Hi. rewrite HP1. clear HP1.
        generalize dependent (2 ^ k0). intros P. generalize (M * 2 ^ E). intros. nia.
      * split; [lia|]. split; [rewrite (size_53 (q + 1)); lia|].
        intros M E HM. specialize (G M E HM). clear Lo Hi.
        generalize dependent (2 ^ k0). intros P. generalize (M * 2 ^ E). intros. nia.
Qed.

(** * [encode_int] and [of_int] *)

Lemma sgn_mul n a b : sgn n (a * b) = (sgn n a * Z.of_N b)%Z.
Proof. unfold sgn. destruct n; lia. Qed.

Lemma decode_encode_int neg m k : 0 < m < 2^53 -> k + N.size m <= 1024 ->
  decode (encode_int neg m k) = FFin neg (m * 2 ^ (53 - N.size m)) (Z.of_N (k + N.size m) - 53) /\
  encode_int neg m k < 2^64.
Proof.
  intros Hm Hk. unfold encode_int. destruct (N.eqb_spec m 0) as [E|_]; [lia|].
  pose proof (size_bounds m ltac:(lia)) as (L1 & Lo & Hi).
  assert (N.size m <= 53) as L53 by (apply size_le_iff; lia).
  set (l := N.size m) in *. clearbody l.
  assert (2 ^ 52 <= m * 2 ^ (53 - l) < 2 ^ 53) as Hmant.
  { assert (2 ^ 52 = 2 ^ (l - 1) * 2 ^ (53 - l)) as E52 by (rewrite <- N.pow_add_r; f_equal; lia).
    assert (2 ^ 53 = 2 ^ l * 2 ^ (53 - l)) as E53 by (rewrite <- N.pow_add_r; f_equal; lia).
    rewrite E52, E53. pose proof (pow2_pos (53 - l)). split.
    - apply N.mul_le_mono_r. exact Lo.
    - apply N.mul_lt_mono_pos_r; assumption. }
  set (mant := m * 2 ^ (53 - l)) in *. clearbody mant.
  pose proof (fields_of_sum neg (k + l + 1022) (mant - 2^52) ltac:(lia) ltac:(lia)) as F.
  cbv zeta in F. destruct F as (Fs & Fe & Fm & Fb). split; [|exact Fb].
  unfold decode. rewrite Fs, Fe, Fm.
  destruct (N.eqb_spec (k + l + 1022) 2047) as [E|_]; [lia|].
  destruct (N.eqb_spec (k + l + 1022) 0) as [E|_]; [lia|].
  f_equal; lia.
Qed.

Lemma exact_int_encode_int neg m k : m < 2^53 -> k + N.size m <= 1024 ->
  exact_int (encode_int neg m k) = Some (sgn neg m * 2 ^ Z.of_N k)%Z /\
  encode_int neg m k < 2^64 /\ is_nan (encode_int neg m k) = false.
Proof.
  intros Hm Hk. destruct (N.eq_dec m 0) as [->|Hm0].
  - unfold encode_int. rewrite N.eqb_refl. replace (sgn neg 0 * 2 ^ Z.of_N k)%Z with 0%Z
      by (unfold sgn; destruct neg; reflexivity).
    destruct neg; vm_compute; auto.
  - destruct (decode_encode_int neg m k ltac:(lia) Hk) as [D B].
    split; [|split; [exact B|unfold is_nan; rewrite D; reflexivity]].
    rewrite exact_int_decode, D. unfold exact_fin.
    assert (N.size m <= 53) as L53 by (apply size_le_iff; lia).
    set (l := N.size m) in *. clearbody l.
    destruct (Z.ltb_spec (Z.of_N (k + l) - 53) 0) as [L|L].
    + set (j := Z.to_N (- (Z.of_N (k + l) - 53))).
      replace (53 - l) with (k + j) by lia.
      rewrite N.pow_add_r, N.mul_assoc, N.land_ones, N.shiftr_div_pow2.
      pose proof (pow2_pos j) as Pj.
      rewrite N.mod_mul, N.div_mul by lia. rewrite N.eqb_refl.
      rewrite sgn_mul, pow2_N_Z. reflexivity.
    + replace (Z.of_N (k + l) - 53)%Z with (Z.of_N (k + l - 53)) by lia.
      rewrite sgn_mul, pow2_N_Z, <- Z.mul_assoc, <- Z.pow_add_r by lia.
      do 3 f_equal. lia.
Qed.

(** The value produced by [<integer> as f64], in terms of [round53]. *)
Lemma of_int_value z m k : (Z.abs z < 2 ^ 960)%Z -> round53 (Z.abs_N z) = (m, k) ->
  exact_int (of_int z) = Some (sgn (z <? 0)%Z m * 2 ^ Z.of_N k)%Z /\
  of_int z < 2^64 /\ is_nan (of_int z) = false.
Proof.
  intros Hz R. unfold of_int. rewrite R.
  destruct (round53_spec _ _ _ R) as (Hm & Hs & _).
  apply exact_int_encode_int; [exact Hm|].
  assert (N.size (Z.abs_N z) <= 960) by (apply size_le_iff; change (2 ^ 960) with (Z.to_N (2 ^ 960)); lia).
  lia.
Qed.

Lemma sgn_abs z : sgn (z <? 0)%Z (Z.abs_N z) = z.
Proof. unfold sgn. destruct (Z.ltb_spec z 0); lia. Qed.

(** Integers of magnitude up to 2^53 convert exactly. *)
Theorem of_int_exact z : (Z.abs z <= 2 ^ 53)%Z -> exact_int (of_int z) = Some z.
Proof.
  intros Hz. destruct (round53 (Z.abs_N z)) as [m k] eqn:R.
  destruct (of_int_value z m k) as (X & _); [lia|exact R|]. rewrite X. f_equal.
  destruct (round53_spec _ _ _ R) as (_ & _ & Near).
  assert (m * 2 ^ k = Z.abs_N z) as V.
  { destruct (Z.eq_dec (Z.abs z) (2 ^ 53)) as [E|E].
    - specialize (Near (2 ^ 52) 1 ltac:(lia)).
      change (2 ^ 52 * 2 ^ 1) with (Z.to_N (2 ^ 53)) in Near. lia.
    - specialize (Near (Z.abs_N z) 0 ltac:(lia)). rewrite N.pow_0_r, N.mul_1_r in Near. lia. }
  rewrite <- pow2_N_Z, <- sgn_mul, V. apply sgn_abs.
Qed.

Theorem of_int_lt_2p64 z : (Z.abs z < 2 ^ 64)%Z -> of_int z < 2^64 /\ is_nan (of_int z) = false.
Proof.
  intros Hz. destruct (round53 (Z.abs_N z)) as [m k] eqn:R.
  destruct (of_int_value z m k) as (_ & B); [|exact R|exact B].
  eapply Z.lt_trans; [exact Hz|]. apply Z.pow_lt_mono_r; lia.
Qed.

(** Every integer-valued double has magnitude M * 2^E with M < 2^53. *)
Lemma exact_int_form bits v : exact_int bits = Some v ->
  exists M E, M < 2^53 /\ Z.abs v = Z.of_N (M * 2 ^ E).
Proof.
  intros H. apply exact_int_Some in H. destruct H as (n & m & e & D & X).
  apply decode_fin_wf in D. destruct D as [_ WF]. apply fin_wf_bounds in WF. destruct WF as [Hm _].
  unfold exact_fin in X. destruct (Z.ltb_spec e 0) as [L|L].
  - destruct (N.land m _ =? 0); [|discriminate]. injection X as <-.
    pose proof (shiftr_le m (Z.to_N (- e))) as S.
    exists (N.shiftr m (Z.to_N (- e))), 0. split; [lia|].
    rewrite N.pow_0_r, N.mul_1_r. unfold sgn. destruct n; lia.
  - injection X as <-. exists m, (Z.to_N e). split; [exact Hm|].
    rewrite N2Z.inj_mul, pow2_N_Z, Z2N.id by lia.
    assert (0 < 2 ^ e)%Z by (apply Z.pow_pos_nonneg; lia).
    unfold sgn. destruct n; nia.
Qed.

(** [<integer> as f64] is a nearest integer-valued double (hence, for |z| >= 2^53 where all
    neighbouring doubles are integers, a nearest double). *)
Theorem of_int_nearest z : (Z.abs z < 2 ^ 64)%Z ->
  exists v, exact_int (of_int z) = Some v /\
  forall bits' v', bits' < 2^64 -> exact_int bits' = Some v' ->
    (Z.abs (v - z) <= Z.abs (v' - z))%Z.
Proof.
  intros Hz. destruct (round53 (Z.abs_N z)) as [m k] eqn:R.
  destruct (of_int_value z m k) as (X & _); [|exact R|].
  { eapply Z.lt_trans; [exact Hz|]. apply Z.pow_lt_mono_r; lia. }
  eexists. split; [exact X|]. intros bits' v' _ X'.
  destruct (exact_int_form _ _ X') as (M & E & HM & A).
  destruct (round53_spec _ _ _ R) as (_ & _ & Near). specialize (Near M E HM).
  rewrite <- A in Near. rewrite <- pow2_N_Z, <- sgn_mul.
  generalize dependent (m * 2 ^ k). intros a Near. clear - Near.
  unfold sgn. destruct (Z.ltb_spec z 0); lia.
Qed.

(** * [of_f32]: widening binary32 to binary64 is exact *)

(** Decoding of a binary32 pattern, same conventions as [decode]. *)
Definition decode32 (b : N) : fval :=
  let s := N.testbit b 31 in let e := (b / 2^23) mod 2^8 in let m := b mod 2^23 in
  if e =? 255 then (if m =? 0 then FInf s else FNaN)
  else if e =? 0 then FFin s m (-149)
  else FFin s (2^23 + m) (Z.of_N e - 150).

(** Same class, same sign and, when finite, the same real value
    (m2 * 2^e2 = m1 * 2^j * 2^(e1 - j) = m1 * 2^e1). *)
Definition same_value (a b : fval) : Prop :=
  match a, b with
  | FNaN, FNaN => True
  | FInf s1, FInf s2 => s1 = s2
  | FFin n1 m1 e1, FFin n2 m2 e2 =>
      n1 = n2 /\ exists j : N, m2 = m1 * 2 ^ j /\ e2 = (e1 - Z.of_N j)%Z
  | _, _ => False
  end.

Lemma norm_mant m : 0 < m < 2^53 -> 2 ^ 52 <= m * 2 ^ (53 - N.size m) < 2 ^ 53.
Proof.
  intros Hm. pose proof (size_bounds m ltac:(lia)) as (L1 & Lo & Hi).
  assert (N.size m <= 53) as L53 by (apply size_le_iff; lia).
  set (l := N.size m) in *. clearbody l.
  assert (2 ^ 52 = 2 ^ (l - 1) * 2 ^ (53 - l)) as E52 by (rewrite <- N.pow_add_r; f_equal; lia).
  assert (2 ^ 53 = 2 ^ l * 2 ^ (53 - l)) as E53 by (rewrite <- N.pow_add_r; f_equal; lia).
  rewrite E52, E53. pose proof (pow2_pos (53 - l)). split.
  - apply N.mul_le_mono_r. exact Lo.
  - apply N.mul_lt_mono_pos_r; assumption.
Qed.

Lemma decode_of_fields (s : bool) (e m : N) : e < 2^11 -> m < 2^52 ->
  decode ((if s then 2^63 else 0) + e * 2^52 + m) =
    (if e =? 2047 then (if m =? 0 then FInf s else FNaN)
     else if e =? 0 then FFin s m (-1074)
     else FFin s (2^52 + m) (Z.of_N e - 1075)) /\
  (if s then 2^63 else 0) + e * 2^52 + m < 2^64.
Proof.
  intros He Hm. pose proof (fields_of_sum s e m He Hm) as F. cbv zeta in F.
  destruct F as (Fs & Fe & Fm & Fb). split; [|exact Fb].
  unfold decode. rewrite Fs, Fe, Fm. reflexivity.
Qed.

Theorem of_f32_exact b : b < 2^32 ->
  same_value (decode32 b) (decode (of_f32 b)) /\ of_f32 b < 2^64.
Proof.
  intros Hb. unfold decode32, of_f32.
  set (s := N.testbit b 31). set (e := (b / 2^23) mod 2^8). set (m := b mod 2^23).
  assert (e < 2^8) as He by (apply N.mod_lt; discriminate).
  assert (m < 2^23) as Hm by (apply N.mod_lt; discriminate).
  clearbody s e m. clear Hb b.
  destruct (N.eqb_spec e 255) as [E1|E1]; [|destruct (N.eqb_spec e 0) as [E0|E0]].
  - destruct (decode_of_fields s 2047 (m * 2^29) ltac:(lia) ltac:(lia)) as [D B].
    split; [|exact B]. rewrite D. change (2047 =? 2047) with true. cbv iota.
    destruct (N.eqb_spec m 0) as [M0|M0]; destruct (N.eqb_spec (m * 2^29) 0) as [M1|M1];
      try lia; cbn [same_value]; auto.
  - destruct (N.eqb_spec m 0) as [M0|M0].
    + destruct (decode_of_fields s 0 0 ltac:(lia) ltac:(lia)) as [D B].
      rewrite N.mul_0_l, !N.add_0_r in D, B. split; [|exact B]. rewrite D.
      change (0 =? 2047) with false. change (0 =? 0) with true. cbv iota.
      cbn [same_value]. split; [reflexivity|]. exists 925. subst m. split; reflexivity.
    + pose proof (norm_mant m ltac:(lia)) as NM.
      assert (1 <= N.size m <= 23) as L.
      { split; [apply (size_bounds m M0)|apply size_le_iff; exact Hm]. }
      set (l := N.size m) in *. clearbody l.
      destruct (decode_of_fields s (l + 873) (m * 2 ^ (53 - l) - 2^52) ltac:(lia) ltac:(lia)) as [D B].
      split; [|exact B]. rewrite D.
      destruct (N.eqb_spec (l + 873) 2047); [lia|]. destruct (N.eqb_spec (l + 873) 0); [lia|].
      cbn [same_value]. split; [reflexivity|]. exists (53 - l). split; lia.
  - destruct (decode_of_fields s (e + 896) (m * 2^29) ltac:(lia) ltac:(lia)) as [D B].
    split; [|exact B]. rewrite D.
    destruct (N.eqb_spec (e + 896) 2047); [lia|]. destruct (N.eqb_spec (e + 896) 0); [lia|].
    cbn [same_value]. split; [reflexivity|]. exists 29. split; lia.
Qed.
