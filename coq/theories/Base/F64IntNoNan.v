(** An integer converted with [of_int] (Rust [as f64]) is never a NaN, for every 64-bit integer. *)
From Coq Require Import NArith ZArith Lia Bool ZifyN ZifyBool.
From SFV Require Import Base.F64.
Open Scope N_scope.

Lemma not_nan_small (s x : N) : (s = 0 \/ s = 2 ^ 63) -> x < 2047 * 2 ^ 52 -> is_nan (s + x) = false.
Proof.
  intros Hs Hx. unfold is_nan, decode.
  assert (E : f_expo (s + x) <> 2047).
  { unfold f_expo. change (2 ^ 52) with 4503599627370496 in *. change (2 ^ 11) with 2048.
    change (2 ^ 63) with (2048 * 4503599627370496) in Hs.
    destruct Hs as [-> | ->].
    - rewrite N.add_0_l. assert (x / 4503599627370496 < 2047) by (apply N.div_lt_upper_bound; lia).
      rewrite N.mod_small by lia. lia.
    - rewrite N.div_add_l by lia.
      assert (x / 4503599627370496 < 2047) by (apply N.div_lt_upper_bound; lia).
      set (y := x / 4503599627370496) in *.
      replace (2048 + y) with (y + 1 * 2048) by lia. rewrite N.mod_add by lia.
      rewrite N.mod_small by lia. lia. }
  destruct (N.eqb_spec (f_expo (s + x)) 2047); [contradiction|].
  destruct (f_expo (s + x) =? 0); reflexivity.
Qed.

Lemma size_le_of_lt (m b : N) : m < 2 ^ b -> N.size m <= b.
Proof.
  intros H. destruct (N.le_gt_cases (N.size m) b) as [|Hgt]; [assumption|exfalso].
  pose proof (N.size_le m) as H1.
  assert (2 ^ (N.succ b) <= 2 ^ N.size m) by (apply N.pow_le_mono_r; lia).
  rewrite N.pow_succ_r' in H0. lia.
Qed.

Lemma round53_bound (n : N) : n <= 2 ^ 64 ->
  let '(m, k) := round53 n in m < 2 ^ 53 /\ k <= 13.
Proof.
  intros Hn. unfold round53.
  destruct (N.leb_spec (N.size n) 53) as [Hl|Hl].
  - split; [|lia]. pose proof (N.size_gt n).
    eapply N.lt_le_trans; [exact H|]. apply N.pow_le_mono_r; lia.
  - set (k := N.size n - 53).
    assert (Hs : N.size n <= 65).
    { apply size_le_of_lt. eapply N.le_lt_trans; [exact Hn|]. apply N.pow_lt_mono_r; lia. }
    assert (Hq : N.shiftr n k < 2 ^ 53).
    { rewrite N.shiftr_div_pow2. apply N.div_lt_upper_bound; [apply N.pow_nonzero; lia|].
      rewrite <- N.pow_add_r. replace (k + 53) with (N.size n) by lia. apply N.size_gt. }
    set (q := N.shiftr n k) in *.
    set (q' := if N.land n (N.ones k) <? 2 ^ (k - 1) then q
               else if 2 ^ (k - 1) <? N.land n (N.ones k) then q + 1 else if N.even q then q else q + 1).
    assert (Hq' : q' <= 2 ^ 53).
    { unfold q'. destruct (_ <? _); [lia|]. destruct (_ <? _); [lia|]. destruct (N.even q); lia. }
    destruct (N.eqb_spec q' (2 ^ 53)) as [E|E].
    + split; [|lia]. apply N.pow_lt_mono_r; lia.
    + split; lia.
Qed.

Lemma encode_int_not_nan neg m k : m < 2 ^ 53 -> k <= 13 -> is_nan (encode_int neg m k) = false.
Proof.
  intros Hm Hk. unfold encode_int.
  set (s := if neg then 2 ^ 63 else 0).
  assert (Hs : s = 0 \/ s = 2 ^ 63) by (unfold s; destruct neg; auto).
  destruct (N.eqb_spec m 0) as [E|E].
  - rewrite <- (N.add_0_r s). apply not_nan_small; [exact Hs|]. change (2 ^ 52) with 4503599627370496. lia.
  - set (l := N.size m).
    assert (Hl : l <= 53) by (apply size_le_of_lt; exact Hm).
    assert (Hmant : m * 2 ^ (53 - l) < 2 ^ 53).
    { replace (2 ^ 53) with (2 ^ l * 2 ^ (53 - l)) by (rewrite <- N.pow_add_r; f_equal; lia).
      apply N.mul_lt_mono_pos_r; [|apply N.size_gt].
      assert (2 ^ (53 - l) <> 0) by (apply N.pow_nonzero; lia). lia. }
    rewrite <- N.add_assoc. apply not_nan_small; [exact Hs|].
    change (2 ^ 53) with 9007199254740992 in *. change (2 ^ 52) with 4503599627370496.
    set (mant := m * 2 ^ (53 - l)) in *. clearbody mant. lia.
Qed.

Lemma of_int_not_nan (z : Z) : (- 2 ^ 64 <= z <= 2 ^ 64)%Z -> is_nan (of_int z) = false.
Proof.
  intros Hz. unfold of_int.
  assert (Hn : Z.abs_N z <= 2 ^ 64) by lia.
  pose proof (round53_bound _ Hn) as H. destruct (round53 (Z.abs_N z)) as [m k]. destruct H as [Hm Hk].
  apply encode_int_not_nan; assumption.
Qed.
