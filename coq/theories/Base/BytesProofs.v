(** Facts about [Base.Bytes]: N-indexed list access, big-endian fields, two's complement. *)
From Coq Require Import NArith ZArith Lia List Bool Arith ZifyNat ZifyN ZifyBool.
From SFV Require Import Base.Bytes.
Import ListNotations.
Open Scope N_scope.

Lemma lenN_nil {A} : lenN (@nil A) = 0.
Proof. reflexivity. Qed.
Lemma lenN_cons {A} (x : A) l : lenN (x :: l) = 1 + lenN l.
Proof. unfold lenN. cbn [length]. lia. Qed.
Lemma lenN_app {A} (a b : list A) : lenN (a ++ b) = lenN a + lenN b.
Proof. unfold lenN. rewrite app_length. lia. Qed.
Lemma lenN_one {A} (x : A) : lenN [x] = 1.
Proof. reflexivity. Qed.

Lemma nthN_cons_0 {A} (x : A) l : nthN (x :: l) 0 = Some x.
Proof. reflexivity. Qed.
Lemma nthN_cons_S {A} (x : A) l n : 0 < n -> nthN (x :: l) n = nthN l (n - 1).
Proof. intros H. cbn [nthN]. destruct (N.eqb_spec n 0); [lia|reflexivity]. Qed.
Lemma nthN_cons_succ {A} (x : A) l n : nthN (x :: l) (1 + n) = nthN l n.
Proof. rewrite nthN_cons_S by lia. f_equal. lia. Qed.

Lemma nthN_Some_lt {A} (l : list A) : forall n x, nthN l n = Some x -> n < lenN l.
Proof.
  induction l as [|y l IH]; intros n x H; [discriminate|].
  rewrite lenN_cons. cbn [nthN] in H. destruct (N.eqb_spec n 0); [lia|].
  apply IH in H. lia.
Qed.
Lemma nthN_lt_Some {A} (l : list A) : forall n, n < lenN l -> exists x, nthN l n = Some x.
Proof.
  induction l as [|y l IH]; intros n H; [rewrite lenN_nil in H; lia|].
  rewrite lenN_cons in H. cbn [nthN]. destruct (N.eqb_spec n 0); [eauto|].
  apply IH. lia.
Qed.
Lemma nthN_None_ge {A} (l : list A) n : nthN l n = None -> lenN l <= n.
Proof.
  intros H. destruct (N.le_gt_cases (lenN l) n) as [|Hlt]; [assumption|].
  destruct (nthN_lt_Some l n Hlt) as [x Hx]. congruence.
Qed.
Lemma nthN_ge_None {A} (l : list A) n : lenN l <= n -> nthN l n = None.
Proof.
  intros H. destruct (nthN l n) eqn:E; [|reflexivity]. apply nthN_Some_lt in E. lia.
Qed.

Lemma nthN_app_l {A} (a b : list A) : forall n, n < lenN a -> nthN (a ++ b) n = nthN a n.
Proof.
  induction a as [|x a IH]; intros n H; [rewrite lenN_nil in H; lia|].
  rewrite lenN_cons in H. cbn [app nthN]. destruct (N.eqb_spec n 0); [reflexivity|].
  apply IH. lia.
Qed.
Lemma nthN_app_r {A} (a b : list A) : forall n, nthN (a ++ b) (lenN a + n) = nthN b n.
Proof.
  induction a as [|x a IH]; intros n.
  - rewrite lenN_nil. cbn [app]. replace (0 + n) with n by lia. reflexivity.
  - rewrite lenN_cons. cbn [app]. rewrite nthN_cons_S by lia.
    replace (1 + lenN a + n - 1) with (lenN a + n) by lia. apply IH.
Qed.
Lemma nthN_app_r' {A} (a b : list A) n : lenN a <= n -> nthN (a ++ b) n = nthN b (n - lenN a).
Proof. intros H. replace n with (lenN a + (n - lenN a)) at 1 by lia. apply nthN_app_r. Qed.
Lemma nthN_snoc {A} (a : list A) x : nthN (a ++ [x]) (lenN a) = Some x.
Proof. replace (lenN a) with (lenN a + 0) by lia. rewrite nthN_app_r. reflexivity. Qed.

Lemma dropN_0 {A} (l : list A) : dropN l 0 = l.
Proof. destruct l; reflexivity. Qed.
Lemma dropN_app_r {A} (a b : list A) : forall n, dropN (a ++ b) (lenN a + n) = dropN b n.
Proof.
  induction a as [|x a IH]; intros n.
  - rewrite lenN_nil. cbn [app]. replace (0 + n) with n by lia. reflexivity.
  - rewrite lenN_cons. cbn [app dropN]. destruct (N.eqb_spec (1 + lenN a + n) 0); [lia|].
    replace (1 + lenN a + n - 1) with (lenN a + n) by lia. apply IH.
Qed.
Lemma dropN_app {A} (a b : list A) : dropN (a ++ b) (lenN a) = b.
Proof. replace (lenN a) with (lenN a + 0) by lia. rewrite dropN_app_r. apply dropN_0. Qed.

Lemma takeN_app {A} (a b : list A) : takeN (a ++ b) (lenN a) = a.
Proof.
  induction a as [|x a IH].
  - rewrite lenN_nil. cbn [app]. destruct b; reflexivity.
  - rewrite lenN_cons. cbn [app takeN]. destruct (N.eqb_spec (1 + lenN a) 0); [lia|].
    replace (1 + lenN a - 1) with (lenN a) by lia. rewrite IH. reflexivity.
Qed.

Lemma sub_mid {A} (pre l post : list A) : sub (pre ++ l ++ post) (lenN pre) (lenN l) = l.
Proof. unfold sub. rewrite dropN_app. apply takeN_app. Qed.

(** * A byte string sits at a position *)
Definition at_pos (bs : list N) (s : N) (l : list N) : Prop :=
  exists pre post, bs = pre ++ l ++ post /\ lenN pre = s.

Lemma at_pos_app bs s a b : at_pos bs s (a ++ b) -> at_pos bs s a /\ at_pos bs (s + lenN a) b.
Proof.
  intros (pre & post & -> & <-). split.
  - exists pre, (b ++ post). rewrite <- app_assoc. auto.
  - exists (pre ++ a), post. rewrite <- !app_assoc. rewrite lenN_app. auto.
Qed.
Lemma at_pos_cons bs s x l : at_pos bs s (x :: l) -> nthN bs s = Some x /\ at_pos bs (s + 1) l.
Proof.
  intros H. change (x :: l) with ([x] ++ l) in H. apply at_pos_app in H. destruct H as [H1 H2].
  split; [|exact H2]. destruct H1 as (pre & post & -> & <-).
  replace (lenN pre) with (lenN pre + 0) by lia. rewrite nthN_app_r. reflexivity.
Qed.
Lemma at_pos_sub bs s l : at_pos bs s l -> sub bs s (lenN l) = l.
Proof. intros (pre & post & -> & <-). apply sub_mid. Qed.
Lemma at_pos_bound bs s l : at_pos bs s l -> s + lenN l <= lenN bs.
Proof. intros (pre & post & -> & <-). rewrite !lenN_app. lia. Qed.
Lemma at_pos_whole l : at_pos l 0 l.
Proof. exists [], []. rewrite app_nil_r. auto. Qed.

(** * Big-endian fields *)
Lemma be_length k v : length (be k v) = k.
Proof. induction k; cbn [be length]; congruence. Qed.
Lemma be_lenN k v : lenN (be k v) = N.of_nat k.
Proof. unfold lenN. rewrite be_length. reflexivity. Qed.

Lemma be_fold k : forall v acc,
  fold_left (fun a b => a * 256 + b) (be k v) acc = acc * 2 ^ (8 * N.of_nat k) + v mod 2 ^ (8 * N.of_nat k).
Proof.
  induction k as [|k IH]; intros v acc.
  - cbn [be fold_left]. change (8 * N.of_nat 0) with 0. rewrite N.pow_0_r, N.mod_1_r. lia.
  - cbn [be fold_left]. rewrite IH.
    replace (8 * N.of_nat (S k)) with (8 * N.of_nat k + 8) by lia.
    rewrite N.pow_add_r. change (2 ^ 8) with 256.
    set (P := 2 ^ (8 * N.of_nat k)).
    assert (HP : P <> 0) by (apply N.pow_nonzero; lia).
    rewrite (N.mod_mul_r v P 256) by lia. lia.
Qed.

Lemma be_val_be k v : v < 2 ^ (8 * N.of_nat k) -> be_val (be k v) = v.
Proof. intros H. unfold be_val. rewrite be_fold. rewrite N.mod_small by exact H. lia. Qed.

Lemma be_bytes k v : Forall (fun b => b < 256) (be k v).
Proof.
  induction k as [|k IH]; cbn [be]; constructor; [|exact IH].
  apply N.mod_lt. lia.
Qed.

(** * Two's complement *)
Lemma of_signed_lt_1 z : (- 2 ^ 7 <= z < 2 ^ 7)%Z -> of_signed 1 z < 2 ^ (8 * N.of_nat 1).
Proof. unfold of_signed. change (8 * N.of_nat 1) with 8. change (8 * Z.of_nat 1)%Z with 8%Z. destruct (Z.ltb_spec z 0); lia. Qed.
Lemma of_signed_lt_2 z : (- 2 ^ 15 <= z < 2 ^ 15)%Z -> of_signed 2 z < 2 ^ (8 * N.of_nat 2).
Proof. unfold of_signed. change (8 * N.of_nat 2) with 16. change (8 * Z.of_nat 2)%Z with 16%Z. destruct (Z.ltb_spec z 0); lia. Qed.
Lemma of_signed_lt_4 z : (- 2 ^ 31 <= z < 2 ^ 31)%Z -> of_signed 4 z < 2 ^ (8 * N.of_nat 4).
Proof. unfold of_signed. change (8 * N.of_nat 4) with 32. change (8 * Z.of_nat 4)%Z with 32%Z. destruct (Z.ltb_spec z 0); lia. Qed.
Lemma of_signed_lt_8 z : (- 2 ^ 63 <= z < 2 ^ 63)%Z -> of_signed 8 z < 2 ^ (8 * N.of_nat 8).
Proof. unfold of_signed. change (8 * N.of_nat 8) with 64. change (8 * Z.of_nat 8)%Z with 64%Z. destruct (Z.ltb_spec z 0); lia. Qed.

Lemma to_of_signed_1 z : (- 2 ^ 7 <= z < 2 ^ 7)%Z -> to_signed 1 (of_signed 1 z) = z.
Proof.
  intros H. unfold to_signed, of_signed. change (8 * N.of_nat 1 - 1) with 7. change (8 * Z.of_nat 1)%Z with 8%Z.
  destruct (Z.ltb_spec z 0);
    match goal with |- context [N.ltb ?a ?b] => destruct (N.ltb_spec a b) end; lia.
Qed.
Lemma to_of_signed_2 z : (- 2 ^ 15 <= z < 2 ^ 15)%Z -> to_signed 2 (of_signed 2 z) = z.
Proof.
  intros H. unfold to_signed, of_signed. change (8 * N.of_nat 2 - 1) with 15. change (8 * Z.of_nat 2)%Z with 16%Z.
  destruct (Z.ltb_spec z 0);
    match goal with |- context [N.ltb ?a ?b] => destruct (N.ltb_spec a b) end; lia.
Qed.
Lemma to_of_signed_4 z : (- 2 ^ 31 <= z < 2 ^ 31)%Z -> to_signed 4 (of_signed 4 z) = z.
Proof.
  intros H. unfold to_signed, of_signed. change (8 * N.of_nat 4 - 1) with 31. change (8 * Z.of_nat 4)%Z with 32%Z.
  destruct (Z.ltb_spec z 0);
    match goal with |- context [N.ltb ?a ?b] => destruct (N.ltb_spec a b) end; lia.
Qed.
Lemma to_of_signed_8 z : (- 2 ^ 63 <= z < 2 ^ 63)%Z -> to_signed 8 (of_signed 8 z) = z.
Proof.
  intros H. unfold to_signed, of_signed. change (8 * N.of_nat 8 - 1) with 63. change (8 * Z.of_nat 8)%Z with 64%Z.
  destruct (Z.ltb_spec z 0);
    match goal with |- context [N.ltb ?a ?b] => destruct (N.ltb_spec a b) end; lia.
Qed.
