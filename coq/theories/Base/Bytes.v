(** Byte buffers: [list N] with [N] positions; big-endian fixed-width fields. *)
From Coq Require Import NArith ZArith List.
Import ListNotations.
Open Scope N_scope.

Fixpoint nthN {A} (l : list A) (n : N) : option A :=
  match l with
  | [] => None
  | x :: t => if n =? 0 then Some x else nthN t (n - 1)
  end.

Definition lenN {A} (l : list A) : N := N.of_nat (length l).

Fixpoint dropN {A} (l : list A) (n : N) : list A :=
  match l with
  | [] => []
  | x :: t => if n =? 0 then l else dropN t (n - 1)
  end.

(** [takeN l n]: the first [n] elements (structural on the list). *)
Fixpoint takeN {A} (l : list A) (n : N) : list A :=
  match l with
  | [] => []
  | x :: t => if n =? 0 then [] else x :: takeN t (n - 1)
  end.

(** [sub bs pos len] = bs[pos .. pos+len] (shorter if the buffer ends). *)
Definition sub {A} (bs : list A) (pos len : N) : list A := takeN (dropN bs pos) len.

(** Big-endian encoding of [v] on [k] bytes (most significant first). *)
Fixpoint be (k : nat) (v : N) : list N :=
  match k with
  | O => []
  | S k' => (v / 2 ^ (8 * N.of_nat k')) mod 256 :: be k' v
  end.

(** Big-endian value of a byte list. *)
Definition be_val (l : list N) : N := fold_left (fun acc b => acc * 256 + b) l 0.

(** Two's complement: the signed value of an unsigned [k]-byte field. *)
Definition to_signed (k : nat) (v : N) : Z :=
  if v <? 2 ^ (8 * N.of_nat k - 1) then Z.of_N v else (Z.of_N v - 2 ^ (8 * Z.of_nat k))%Z.
Definition of_signed (k : nat) (z : Z) : N :=
  if (z <? 0)%Z then Z.to_N (z + 2 ^ (8 * Z.of_nat k)) else Z.to_N z.

Definition zeros (n : N) : list N := repeat 0 (N.to_nat n).
