(** IEEE-754 binary64 at the level this project needs, over [N]/[Z] only (no reals, no Flocq):
    a double is its 64-bit pattern; [decode] gives its exact value as sign * m * 2^e.
    Only *exact* operations are modelled (classification, comparison, trunc, the saturating
    float->int cast, exact widening of binary32) plus the one rounding operation the code
    uses: integer -> double conversion ([of_int], round to nearest, ties to even, which is what
    Rust's [as f64] does).  Executable; validated against the hardware in the correspondence. *)
From Coq Require Import NArith ZArith Bool.
Open Scope N_scope.

Inductive fval :=
| FNaN
| FInf (neg : bool)
| FFin (neg : bool) (m : N) (e : Z).   (* value = (-1)^neg * m * 2^e *)

Definition f_sign (bits : N) : bool := N.testbit bits 63.
Definition f_expo (bits : N) : N := (bits / 2^52) mod 2^11.
Definition f_mant (bits : N) : N := bits mod 2^52.

Definition decode (bits : N) : fval :=
  let s := f_sign bits in let e := f_expo bits in let m := f_mant bits in
  if e =? 2047 then (if m =? 0 then FInf s else FNaN)
  else if e =? 0 then FFin s m (-1074)
  else FFin s (2^52 + m) (Z.of_N e - 1075).

Definition is_nan (bits : N) : bool := match decode bits with FNaN => true | _ => false end.

(** Signed scaled integer: value of a finite double as [z * 2^e]. *)
Definition sgn (neg : bool) (m : N) : Z := if neg then (- Z.of_N m)%Z else Z.of_N m.

(** Exact comparison of two finite values m1*2^e1 ? m2*2^e2 by scaling to the smaller exponent. *)
Definition fin_cmp (n1 : bool) (m1 : N) (e1 : Z) (n2 : bool) (m2 : N) (e2 : Z) : comparison :=
  let e := Z.min e1 e2 in
  Z.compare (sgn n1 m1 * 2 ^ (e1 - e))%Z (sgn n2 m2 * 2 ^ (e2 - e))%Z.

(** IEEE [<=] and [==] (false when either side is NaN; -0 == +0). *)
Definition f_le (a b : fval) : bool :=
  match a, b with
  | FNaN, _ | _, FNaN => false
  | FInf true, _ => true
  | _, FInf false => true
  | FInf false, _ => false
  | _, FInf true => false
  | FFin n1 m1 e1, FFin n2 m2 e2 =>
      match fin_cmp n1 m1 e1 n2 m2 e2 with Gt => false | _ => true end
  end.

Definition f_eq (a b : fval) : bool :=
  match a, b with
  | FNaN, _ | _, FNaN => false
  | FInf s1, FInf s2 => Bool.eqb s1 s2
  | FInf _, _ | _, FInf _ => false
  | FFin n1 m1 e1, FFin n2 m2 e2 =>
      match fin_cmp n1 m1 e1 n2 m2 e2 with Eq => true | _ => false end
  end.

(** [f64::trunc]: round toward zero to an integer (exact). *)
Definition f_trunc (a : fval) : fval :=
  match a with
  | FFin n m e => if (e <? 0)%Z then FFin n (N.shiftr m (Z.to_N (- e))) 0 else a
  | _ => a
  end.

(** The integer part toward zero of a finite value, as a [Z]. *)
Definition fin_int_part (n : bool) (m : N) (e : Z) : Z :=
  if (e <? 0)%Z then sgn n (N.shiftr m (Z.to_N (- e))) else (sgn n m * 2 ^ e)%Z.

(** Rust's saturating [as <int>] cast from f64. *)
Definition f_cast (lo hi : Z) (a : fval) : Z :=
  match a with
  | FNaN => 0%Z
  | FInf true => lo
  | FInf false => hi
  | FFin n m e => Z.max lo (Z.min hi (fin_int_part n m e))
  end.

(** The exact integer value of a double, if it is an integer (NaN, infinities, fractions: None). *)
Definition exact_int (bits : N) : option Z :=
  match decode bits with
  | FFin n m e =>
      if (e <? 0)%Z then
        let k := Z.to_N (- e) in
        if N.land m (N.ones k) =? 0 then Some (sgn n (N.shiftr m k)) else None
      else Some (sgn n m * 2 ^ e)%Z
  | _ => None
  end.

(** Round a natural number to 53 significant bits, nearest, ties to even: n ~ m * 2^k. *)
Definition round53 (n : N) : N * N :=
  let l := N.size n in
  if l <=? 53 then (n, 0)
  else
    let k := l - 53 in
    let q := N.shiftr n k in
    let r := N.land n (N.ones k) in
    let half := 2 ^ (k - 1) in
    let q' := if r <? half then q else if half <? r then q + 1 else if N.even q then q else q + 1 in
    if q' =? 2^53 then (2^52, k + 1) else (q', k).

(** Encode the finite value (-1)^neg * m * 2^k, with m < 2^53, k >= 0, as a double. *)
Definition encode_int (neg : bool) (m k : N) : N :=
  let s := if neg then 2^63 else 0 in
  if m =? 0 then s
  else
    let l := N.size m in                      (* 1 <= l <= 53 *)
    let mant := m * 2 ^ (53 - l) in           (* 2^52 <= mant < 2^53 *)
    let biased := k + l + 1022 in             (* exponent of the leading bit = k + l - 1 *)
    s + biased * 2^52 + (mant - 2^52).

(** Rust's [<integer> as f64]. *)
Definition of_int (z : Z) : N :=
  let '(m, k) := round53 (Z.abs_N z) in encode_int (z <? 0)%Z m k.

(** Rust's [f32 as f64] (exact), on bit patterns. *)
Definition of_f32 (b : N) : N :=
  let s := if N.testbit b 31 then 2^63 else 0 in
  let e := (b / 2^23) mod 2^8 in
  let m := b mod 2^23 in
  if e =? 255 then s + 2047 * 2^52 + m * 2^29
  else if e =? 0 then
    if m =? 0 then s
    else let l := N.size m in                 (* value = m * 2^-149, leading bit at 2^(l-1-149) *)
         s + (l + 873) * 2^52 + (m * 2 ^ (53 - l) - 2^52)
  else s + (e + 896) * 2^52 + m * 2^29.
