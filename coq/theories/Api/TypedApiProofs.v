(** PROOFS: [Typed.deser] (over the eager node) = [TypedApi.deser_m] (over [ReadSpec.spec_exec] calls only). *)
From Coq Require Import NArith ZArith Lia List Bool.
From SFV Require Import Base.Bytes Base.F64 Api.IntDeser Gen.NanBoxGen Msgpack.Wire Msgpack.TreeProofs
  Read.Lazy Read.ReadRun Read.ReadSpec Read.ReadFuel Read.ReadInv Read.ReadProofs Api.Typed Api.TypedProofs Api.TypedApi.
Import ListNotations.
Open Scope N_scope.

Lemma nthN_app_l {A} (l l' : list A) : forall k x, nthN l k = Some x -> nthN (l ++ l') k = Some x.
Proof.
  induction l as [|y l IH]; intros k x H; [discriminate H|]. cbn [nthN app] in *.
  destruct (k =? 0); [exact H|apply IH; exact H].
Qed.

Lemma nthN_app_len {A} (l : list A) x : nthN (l ++ [x]) (lenN l) = Some x.
Proof.
  induction l as [|y l IH]; [reflexivity|]. cbn [nthN app]. rewrite lenN_cons.
  destruct (N.eqb_spec (lenN l + 1) 0); [lia|]. rewrite N.add_sub. exact IH.
Qed.

Lemma nthN_succ {A} (y : A) r j : nthN (y :: r) (j + 1) = nthN r j.
Proof. cbn [nthN]. destruct (N.eqb_spec (j + 1) 0); [lia|]. rewrite N.add_sub. reflexivity. Qed.

Section P.
Variable W : N.
Variable w : wire.
Implicit Types st : hist.

(** [st'] is [st] after some more ABI calls. *)
Definition ext (st st' : hist) : Prop := exists ops, st' = fold_left (spec_step w) ops st.

(** Value [k] of history [st] stands for the node [c] of the document. *)
Definition good (st : hist) (k : N) (c : wire) : Prop :=
  exists h, nthN (fst st) k = Some (OVal (ans_of h c)) /\ sel w (snd h) = Some c.

Lemma ext_refl st : ext st st.
Proof. exists []. reflexivity. Qed.

Lemma ext_trans a b c : ext a b -> ext b c -> ext a c.
Proof. intros [o1 ->] [o2 ->]. exists (o1 ++ o2). rewrite fold_left_app. reflexivity. Qed.

Lemma ext_call st op : ext st (snd (call w st op)).
Proof. exists [op]. reflexivity. Qed.

Lemma ext_prefix st st' : ext st st' -> exists l, fst st' = fst st ++ l.
Proof.
  intros [ops ->]. revert st. induction ops as [|op ops IH]; intro st; cbn [fold_left].
  - exists []. rewrite app_nil_r. reflexivity.
  - destruct (IH (spec_step w st op)) as [l E]. rewrite E.
    exists (spec_exec w (fst st) (snd st) op :: l). unfold spec_step. cbn [fst].
    rewrite <- app_assoc. reflexivity.
Qed.

Lemma good_ext st st' k c : good st k c -> ext st st' -> good st' k c.
Proof.
  intros (h & H1 & H2) HE. destruct (ext_prefix _ _ HE) as [l E]. exists h. split; [|exact H2].
  rewrite E. apply nthN_app_l. exact H1.
Qed.

Lemma out_at_call st op :
  out_at (snd (call w st op)) (fst (call w st op)) = spec_exec w (fst st) (snd st) op.
Proof. unfold call, out_at, spec_step. cbn [fst snd]. rewrite nthN_app_len. reflexivity. Qed.

Lemma ans_at_good st k h c : nthN (fst st) k = Some (OVal (ans_of h c)) -> ans_at st k = ans_of h c.
Proof. unfold ans_at. intros ->. reflexivity. Qed.

Lemma sscope_good st k h c :
  nthN (fst st) k = Some (OVal (ans_of h c)) -> sscope (fst st) (Some k) = SAns (ans_of h c).
Proof. unfold sscope. intros ->. reflexivity. Qed.

Lemma v_is_null_ok st k c : good st k c -> v_is_null st k = is_null c.
Proof. intros (h & H1 & _). unfold v_is_null. rewrite (ans_at_good _ _ _ _ H1). destruct c; reflexivity. Qed.

Lemma v_as_bool_ok st k c : good st k c -> v_as_bool st k = as_bool c.
Proof. intros (h & H1 & _). unfold v_as_bool. rewrite (ans_at_good _ _ _ _ H1). destruct c; reflexivity. Qed.

Lemma v_as_number_ok st k c : good st k c -> v_as_number st k = as_number c.
Proof. intros (h & H1 & _). unfold v_as_number. rewrite (ans_at_good _ _ _ _ H1). destruct c; reflexivity. Qed.

Lemma v_as_string_ok st k c : good st k c ->
  exists st', v_as_string w st k = (as_string c, st') /\ ext st st'.
Proof.
  intros (h & H1 & H2). unfold v_as_string. rewrite (ans_at_good _ _ _ _ H1).
  destruct c; cbn [ans_of as_string]; try (eexists; split; [reflexivity|apply ext_refl]).
  pose proof (out_at_call st (RStr (Some k))) as HO. pose proof (ext_call st (RStr (Some k))) as HE.
  destruct (call w st (RStr (Some k))) as [j st']. cbn [fst snd] in *. exists st'. split; [|exact HE].
  rewrite HO. cbn [spec_exec]. rewrite (sscope_good _ _ _ _ H1). cbn [ans_of]. rewrite H2. reflexivity.
Qed.

Lemma v_len_ok st k h c n :
  nthN (fst st) k = Some (OVal (ans_of h c)) -> sel w (snd h) = Some c ->
  (exists f l, c = WArr f l /\ n = lenN l) \/ (exists f l, c = WMap f l /\ n = lenN l) ->
  exists st', v_len W w st k n = (n, st') /\ ext st st'.
Proof.
  intros H1 H2 HC. unfold v_len. destruct (MAX_VALUE_LENGTH W <=? n); [|eexists; split; [reflexivity|apply ext_refl]].
  pose proof (out_at_call st (RLen (Some k))) as HO. pose proof (ext_call st (RLen (Some k))) as HE.
  destruct (call w st (RLen (Some k))) as [j st']. cbn [fst snd] in *. exists st'. split; [|exact HE].
  rewrite HO. cbn [spec_exec]. rewrite (sscope_good _ _ _ _ H1).
  destruct HC as [(f & l & -> & ->)|(f & l & -> & ->)]; cbn [ans_of]; rewrite H2; reflexivity.
Qed.

Lemma v_array_len_ok st k c : good st k c ->
  exists st', v_array_len W w st k = (array_len W c, st') /\ ext st st'.
Proof.
  intros (h & H1 & H2). unfold v_array_len. rewrite (ans_at_good _ _ _ _ H1).
  destruct c; cbn [ans_of array_len]; try (eexists; split; [reflexivity|apply ext_refl]).
  destruct (v_len_ok st k h (WArr f l) (lenN l) H1 H2) as (st' & E & HE); [left; eauto|].
  rewrite E. eauto.
Qed.

Lemma v_obj_len_ok st k c : good st k c ->
  exists st', v_obj_len W w st k = (obj_len W c, st') /\ ext st st'.
Proof.
  intros (h & H1 & H2). unfold v_obj_len. rewrite (ans_at_good _ _ _ _ H1).
  destruct c; cbn [ans_of obj_len]; try (eexists; split; [reflexivity|apply ext_refl]).
  destruct (v_len_ok st k h (WMap f l) (lenN l) H1 H2) as (st' & E & HE); [right; eauto|].
  rewrite E. eauto.
Qed.

Lemma good_new st o h c :
  sel w (snd h) = Some c -> good (fst st ++ [OVal (ans_of h c)], o) (lenN (fst st)) c.
Proof. intro H. exists h. split; [apply nthN_app_len|exact H]. Qed.

Lemma get_arr_ok st k f l i c' : good st k (WArr f l) -> nthN l i = Some c' ->
  good (snd (v_get_at_index w st k i)) (fst (v_get_at_index w st k i)) c' /\
  ext st (snd (v_get_at_index w st k i)).
Proof.
  intros (h & H1 & H2) Hi. split; [|apply ext_call].
  unfold v_get_at_index, call, spec_step. cbn [fst snd spec_exec]. rewrite (sscope_good _ _ _ _ H1).
  cbn [ans_of]. unfold at_child. rewrite sel_app, H2. cbn [sel]. rewrite Hi.
  apply good_new. cbn [child snd]. rewrite sel_app, H2. cbn [sel]. rewrite Hi. reflexivity.
Qed.

Lemma get_map_ok st k f l i kv : good st k (WMap f l) -> nthN l i = Some kv ->
  good (snd (v_get_at_index w st k i)) (fst (v_get_at_index w st k i)) (snd kv) /\
  ext st (snd (v_get_at_index w st k i)).
Proof.
  intros (h & H1 & H2) Hi. split; [|apply ext_call].
  unfold v_get_at_index, call, spec_step. cbn [fst snd spec_exec]. rewrite (sscope_good _ _ _ _ H1).
  cbn [ans_of]. unfold at_child. rewrite sel_app, H2. cbn [sel]. rewrite Hi.
  apply good_new. cbn [child snd]. rewrite sel_app, H2. cbn [sel]. rewrite Hi. reflexivity.
Qed.

Lemma get_key_ok st k f l i kv : good st k (WMap f l) -> nthN l i = Some kv ->
  exists st', v_get_obj_key_at_index w st k i = (as_string (fst kv), st') /\ ext st st'.
Proof.
  intros (h & H1 & H2) Hi. unfold v_get_obj_key_at_index. rewrite (ans_at_good _ _ _ _ H1). cbn [ans_of].
  assert (G : good (snd (call w st (RKey (Some k) i))) (fst (call w st (RKey (Some k) i))) (fst kv)).
  { unfold call, spec_step. cbn [fst snd spec_exec]. rewrite (sscope_good _ _ _ _ H1).
    cbn [ans_of]. unfold at_child. rewrite sel_app, H2. cbn [sel]. rewrite Hi.
    apply good_new. cbn [child snd]. rewrite sel_app, H2. cbn [sel]. rewrite Hi. reflexivity. }
  pose proof (ext_call st (RKey (Some k) i)) as HE.
  destruct (call w st (RKey (Some k) i)) as [j st1]. cbn [fst snd] in *.
  destruct (v_as_string_ok st1 j (fst kv) G) as (st' & E & HE'). rewrite E.
  exists st'. split; [reflexivity|apply (ext_trans _ _ _ HE HE')].
Qed.

(** [f] (over calls) computes [g] (over the node). *)
Definition fspec (f : N -> hist -> option value * hist) (g : wire -> option value) : Prop :=
  forall k st c, good st k c -> exists st', f k st = (g c, st') /\ ext st st'.

Lemma loop_vec_ok f g k fm l : fspec f g -> forall rest i st,
  good st k (WArr fm l) -> (forall j, nthN rest j = nthN l (i + j)) ->
  exists st', loop_vec w f k (length rest) i st = (deser_list g rest, st') /\ ext st st'.
Proof.
  intro HF. induction rest as [|x rest IH]; intros i st HG HS; cbn [length loop_vec deser_list].
  - eexists. split; [reflexivity|apply ext_refl].
  - assert (Hi : nthN l i = Some x) by (rewrite <- (N.add_0_r i), <- HS; reflexivity).
    destruct (get_arr_ok st k fm l i x HG Hi) as [G1 E1].
    destruct (v_get_at_index w st k i) as [j st1]. cbn [fst snd] in *.
    destruct (HF j st1 x G1) as (st2 & E & E2). rewrite E.
    pose proof (ext_trans _ _ _ E1 E2) as E12.
    destruct (g x) as [v|]; [|exists st2; split; [reflexivity|exact E12]].
    destruct (IH (i + 1) st2 (good_ext _ _ _ _ HG E12)) as (st3 & E' & E3).
    { intro j'. rewrite <- (nthN_succ x rest j'), HS. f_equal. lia. }
    rewrite E'. exists st3. split; [|apply (ext_trans _ _ _ E12 E3)].
    destruct (deser_list g rest); reflexivity.
Qed.

Lemma loop_map_ok f g k fm l : fspec f g -> forall rest i acc st,
  good st k (WMap fm l) -> (forall j, nthN rest j = nthN l (i + j)) ->
  exists st', loop_map w f k (length rest) i acc st = (deser_entries g rest acc, st') /\ ext st st'.
Proof.
  intro HF. induction rest as [|kv rest IH]; intros i acc st HG HS; cbn [length loop_map deser_entries].
  - eexists. split; [reflexivity|apply ext_refl].
  - assert (Hi : nthN l i = Some kv) by (rewrite <- (N.add_0_r i), <- HS; reflexivity).
    destruct (get_key_ok st k fm l i kv HG Hi) as (st1 & E & E1). rewrite E.
    destruct (as_string (fst kv)) as [key|]; [|exists st1; split; [reflexivity|exact E1]].
    destruct (get_map_ok st1 k fm l i kv (good_ext _ _ _ _ HG E1) Hi) as [G2 E2].
    destruct (v_get_at_index w st1 k i) as [j st2]. cbn [fst snd] in *.
    destruct (HF j st2 (snd kv) G2) as (st3 & E' & E3). rewrite E'.
    pose proof (ext_trans _ _ _ E1 (ext_trans _ _ _ E2 E3)) as E13.
    destruct (g (snd kv)) as [v|]; [|exists st3; split; [reflexivity|exact E13]].
    destruct (IH (i + 1) (map_insert key v acc) st3 (good_ext _ _ _ _ HG E13)) as (st4 & E'' & E4).
    { intro j'. rewrite <- (nthN_succ kv rest j'), HS. f_equal. lia. }
    rewrite E''. exists st4. split; [reflexivity|apply (ext_trans _ _ _ E13 E4)].
Qed.

Fixpoint tuple_m (k : N) (ts : list ty) (i : N) (st : hist) : option (list value) * hist :=
  match ts with
  | [] => (Some [], st)
  | t' :: ts' =>
      let '(j, sta) := v_get_at_index w st k i in
      match deser_m W w t' j sta with
      | (Some v, stb) =>
          match tuple_m k ts' (i + 1) stb with
          | (Some vs, stc) => (Some (v :: vs), stc)
          | (None, stc) => (None, stc)
          end
      | (None, stb) => (None, stb)
      end
  end.

Lemma deser_m_TTuple ts k st :
  deser_m W w (TTuple ts) k st =
  match v_array_len W w st k with
  | (Some len, st1) =>
      if negb (len =? lenN ts) then (None, st1)
      else let '(r, st2) := tuple_m k ts 0 st1 in (option_map VTuple r, st2)
  | (None, st1) => (None, st1)
  end.
Proof.
  cbn [deser_m]. destruct (v_array_len W w st k) as [[len|] st1]; [|reflexivity].
  destruct (negb (len =? lenN ts)); [reflexivity|].
  match goal with |- (let '(_, _) := ?X in _) = (let '(_, _) := ?Y in _) =>
    assert (H : X = Y); [|rewrite H; reflexivity] end.
  generalize 0 as i. generalize st1 as s. clear st st1.
  induction ts as [|t' ts IH]; intros s i; cbn [tuple_m]; [reflexivity|].
  destruct (v_get_at_index w s k i) as [j sta]. destruct (deser_m W w t' j sta) as [[v|] stb]; [|reflexivity].
  rewrite IH. reflexivity.
Qed.

Lemma tuple_m_ok k fm l ts :
  Forall (fun t' => fspec (deser_m W w t') (deser W t')) ts -> forall rest i st,
  good st k (WArr fm l) -> (forall j, nthN rest j = nthN l (i + j)) -> length rest = length ts ->
  exists st', tuple_m k ts i st = (deser_tuple W ts rest, st') /\ ext st st'.
Proof.
  induction 1 as [|t' ts Ht _ IH]; intros [|x rest] i st HG HS HL; try discriminate HL;
    cbn [tuple_m deser_tuple].
  - eexists. split; [reflexivity|apply ext_refl].
  - assert (Hi : nthN l i = Some x) by (rewrite <- (N.add_0_r i), <- HS; reflexivity).
    destruct (get_arr_ok st k fm l i x HG Hi) as [G1 E1].
    destruct (v_get_at_index w st k i) as [j st1]. cbn [fst snd] in *.
    destruct (Ht j st1 x G1) as (st2 & E & E2). rewrite E.
    pose proof (ext_trans _ _ _ E1 E2) as E12.
    destruct (deser W t' x) as [v|]; [|exists st2; split; [reflexivity|exact E12]].
    destruct (IH rest (i + 1) st2 (good_ext _ _ _ _ HG E12)) as (st3 & E' & E3).
    { intro j'. rewrite <- (nthN_succ x rest j'), HS. f_equal. lia. }
    { cbn [length] in HL. congruence. }
    rewrite E'. exists st3. split; [|apply (ext_trans _ _ _ E12 E3)].
    destruct (deser_tuple W ts rest); reflexivity.
Qed.

Lemma to_nat_lenN {A} (l : list A) : N.to_nat (lenN l) = length l.
Proof. unfold lenN. apply Nnat.Nat2N.id. Qed.

Lemma lenN_eq_length {A B} (l : list A) (m : list B) : lenN l = lenN m -> length l = length m.
Proof. unfold lenN. intro H. apply Nnat.Nat2N.inj. exact H. Qed.

Theorem deser_m_ok : forall t, fspec (deser_m W w t) (deser W t).
Proof.
  induction t as [| | | | |u IH|u IH|u IH|ts IH|n u IH|i] using ty_ind'; intros k st c HG.
  - cbn [deser_m deser]. rewrite (v_is_null_ok _ _ _ HG). eexists. split; [reflexivity|apply ext_refl].
  - cbn [deser_m deser]. rewrite (v_as_bool_ok _ _ _ HG). eexists. split; [reflexivity|apply ext_refl].
  - cbn [deser_m deser]. unfold deser_num_m, deser_num. rewrite (v_as_number_ok _ _ _ HG).
    eexists. split; [reflexivity|apply ext_refl].
  - cbn [deser_m deser]. rewrite (v_as_number_ok _ _ _ HG). eexists. split; [reflexivity|apply ext_refl].
  - cbn [deser_m deser]. destruct (v_as_string_ok _ _ _ HG) as (st' & E & HE). rewrite E. eauto.
  - cbn [deser_m deser]. rewrite (v_is_null_ok _ _ _ HG).
    destruct (is_null c); [eexists; split; [reflexivity|apply ext_refl]|].
    destruct (IH k st c HG) as (st' & E & HE). rewrite E. eauto.
  - cbn [deser_m deser]. destruct (v_array_len_ok _ _ _ HG) as (st1 & E & E1). rewrite E.
    destruct (array_len W c) as [len|] eqn:EL; [|eauto].
    apply array_len_Some in EL. destruct EL as (fm & l & -> & ->). cbn [items]. rewrite to_nat_lenN.
    destruct (loop_vec_ok _ _ k fm l IH l 0 st1 (good_ext _ _ _ _ HG E1)) as (st2 & E' & E2); [reflexivity|].
    rewrite E'. exists st2. split; [reflexivity|apply (ext_trans _ _ _ E1 E2)].
  - cbn [deser_m deser]. destruct (v_obj_len_ok _ _ _ HG) as (st1 & E & E1). rewrite E.
    destruct (obj_len W c) as [len|] eqn:EL; [|eauto].
    apply obj_len_Some in EL. destruct EL as (fm & l & -> & ->). cbn [entries]. rewrite to_nat_lenN.
    destruct (loop_map_ok _ _ k fm l IH l 0 [] st1 (good_ext _ _ _ _ HG E1)) as (st2 & E' & E2); [reflexivity|].
    rewrite E'. exists st2. split; [reflexivity|apply (ext_trans _ _ _ E1 E2)].
  - rewrite deser_m_TTuple, deser_TTuple. destruct (v_array_len_ok _ _ _ HG) as (st1 & E & E1). rewrite E.
    destruct (array_len W c) as [len|] eqn:EL; [|eauto].
    apply array_len_Some in EL. destruct EL as (fm & l & -> & ->). cbn [items].
    destruct (N.eqb_spec (lenN l) (lenN ts)) as [EQ|NE]; cbn [negb]; [|eauto].
    destruct (tuple_m_ok k fm l ts IH l 0 st1 (good_ext _ _ _ _ HG E1)) as (st2 & E' & E2);
      [reflexivity|apply lenN_eq_length; exact EQ|].
    rewrite E'. exists st2. split; [reflexivity|apply (ext_trans _ _ _ E1 E2)].
  - cbn [deser_m deser]. destruct (v_array_len_ok _ _ _ HG) as (st1 & E & E1). rewrite E.
    destruct (array_len W c) as [len|] eqn:EL; [|eauto].
    apply array_len_Some in EL. destruct EL as (fm & l & -> & ->). cbn [items].
    destruct (negb (lenN l =? n)); [eauto|]. rewrite to_nat_lenN.
    destruct (loop_vec_ok _ _ k fm l IH l 0 st1 (good_ext _ _ _ _ HG E1)) as (st2 & E' & E2); [reflexivity|].
    rewrite E'. exists st2. split; [reflexivity|apply (ext_trans _ _ _ E1 E2)].
  - cbn [deser_m deser]. unfold deser_num_m, deser_num. rewrite (v_as_number_ok _ _ _ HG).
    eexists. split; [reflexivity|apply ext_refl].
Qed.

(** [deser] on the whole document is the Deserialize impl run against [spec_exec] answers only, and
    the outputs it consumed are [spec_run] of the calls it made (a root fetch, then [ops]). *)
Theorem deser_via_spec t :
  exists ops, fst (deser_root W w t) = deser W t w /\
              fst (snd (deser_root W w t)) = spec_run w (RRoot :: ops).
Proof.
  unfold deser_root. cbn [call hinit fst snd].
  assert (G : good (spec_step w ([], 0) RRoot) 0 w).
  { exists (0, []). split; reflexivity. }
  destruct (deser_m_ok t 0 _ w G) as (st' & E & [ops HE]).
  change (lenN (@nil out)) with 0. unfold hinit. rewrite E. exists ops. cbn [fst snd]. split; [reflexivity|].
  rewrite HE. reflexivity.
Qed.

End P.

(** With Properties/C01: the outputs consumed are those of the lazy reader on the encoded document. *)
Theorem deser_via_lazy (W : N) (trap : bool) (w : wire) (t : ty) :
  wf w = true -> no_nan w = true -> lenN (enc w) < 2 ^ W ->
  exists ops, fst (deser_root W w t) = deser W t w /\
              fst (snd (deser_root W w t))
              = outs (run W trap (ReadFuel.fuel_for w (RRoot :: ops)) (enc w) (RRoot :: ops)).
Proof.
  intros Hwf Hnn Hlen. destruct (deser_via_spec W w t) as (ops & A & B). exists ops. split; [exact A|].
  rewrite B. symmetry. apply ReadProofs.C01_strong; assumption.
Qed.
