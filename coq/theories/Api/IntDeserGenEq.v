(** The integer-deserialisation model over which C10 is proved ([IntDeser.deser_int]) IS the Rust code: the body of
    [impl_deserialize_for_int!] (api/src/read.rs), instantiated for the ten integer types exactly as the macro
    expander does and translated by T8 into Gen/IntDeserGen.v ([n.trunc() == n], the two range guards against
    [MIN as f64] / [MAX as f64], the saturating [as] cast; on the decoded doubles and casts of Base/F64.v), computes
    [deser_int] -- for every 64-bit pattern, every target type, both pointer widths. *)
From Coq Require Import NArith ZArith Bool.
From SFV Require Import Base.F64 Base.RsPrelude Api.IntDeser Api.IntDeserExt Gen.IntDeserGen.
Open Scope N_scope.

(** the translated instantiation for a target type *)
Definition gen_deser (t : intty) : N -> bool -> Value -> gres (rres Z) :=
  match t with
  | I8 => IntDeser_deserialize_i8 | I16 => IntDeser_deserialize_i16 | I32 => IntDeser_deserialize_i32 | I64 => IntDeser_deserialize_i64
  | U8 => IntDeser_deserialize_u8 | U16 => IntDeser_deserialize_u16 | U32 => IntDeser_deserialize_u32 | U64 => IntDeser_deserialize_u64
  | Usize => IntDeser_deserialize_usize | Isize => IntDeser_deserialize_isize
  end.

Definition res_of (o : option Z) : rres Z :=
  match o with Some z => ROk z | None => RErr APIERR_InvalidType end.

Theorem gen_deser_number : forall W trap t bits,
  gen_deser t W trap (mkValue (Some (decode bits))) = GOk (res_of (deser_int W t bits)).
Proof.
  intros W trap t bits.
  destruct t; unfold gen_deser, IntDeser_deserialize_i8, IntDeser_deserialize_i16, IntDeser_deserialize_i32, IntDeser_deserialize_i64,
    IntDeser_deserialize_u8, IntDeser_deserialize_u16, IntDeser_deserialize_u32, IntDeser_deserialize_u64,
    IntDeser_deserialize_usize, IntDeser_deserialize_isize, value_as_number, deser_int; cbn [Value_n gbind]; cbv zeta;
  match goal with |- context [if ?c then _ else _] => destruct c end; reflexivity.
Qed.

(** a value that is not a number (as_number = None) is an invalid type for every integer target *)
Theorem gen_deser_not_a_number : forall W trap t,
  gen_deser t W trap (mkValue None) = GOk (RErr APIERR_InvalidType).
Proof. intros W trap t. destruct t; reflexivity. Qed.

Example gen_deser_example :
  IntDeser_deserialize_u8 32 true (mkValue (Some (decode 0x406fe00000000000))) = GOk (ROk 255%Z)          (* 255.0 *)
  /\ IntDeser_deserialize_u8 32 true (mkValue (Some (decode 0x4070000000000000))) = GOk (RErr APIERR_InvalidType)   (* 256.0 *)
  /\ IntDeser_deserialize_i8 32 true (mkValue (Some (decode 0xbff8000000000000))) = GOk (RErr APIERR_InvalidType).  (* -1.5 *)
Proof. repeat split; vm_compute; reflexivity. Qed.
