(** Model of the length logic of api/src/lib.rs [Value::as_string / array_len / obj_len]:
      let len = if len == NanBox::MAX_VALUE_LENGTH { get_val_len(bits) } else { len };
      if len == usize::MAX { None } else { Some(len) }            (array_len / obj_len)
    [inl] is the inline length field of the handle, [vlen] what the length query returns. *)
From Coq Require Import NArith.
From SFV Require Import Gen.NanBoxGen.
Open Scope N_scope.

Definition api_len (W : N) (inl : N) (vlen : option N) : option N :=
  let l := if inl =? MAX_VALUE_LENGTH W then (match vlen with Some n => n | None => 2 ^ W - 1 end) else inl in
  if l =? 2 ^ W - 1 then None else Some l.

(** [as_string] reads [len] bytes: the same selection without the usize::MAX test. *)
Definition api_str_len (W : N) (inl : N) (vlen : option N) : N :=
  if inl =? MAX_VALUE_LENGTH W then (match vlen with Some n => n | None => 2 ^ W - 1 end) else inl.
