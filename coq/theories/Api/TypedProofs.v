(** PROOFS about the typed layer model [SFV.Api.Typed] (property C09). *)
From Coq Require Import NArith ZArith Lia List Bool Permutation.
From SFV Require Import Base.Bytes Base.F64 Base.F64Proofs Base.F64IntNoNan Api.IntDeser Api.IntDeserProofs
  Msgpack.Rmp Msgpack.Tree Msgpack.TreeProofs Msgpack.Wire Gen.CodesGen Write.Writer Write.WSpec Write.Grammar
  Write.WGuard Write.WriteProofs Write.GrammarProofs Read.ReadSpec Api.Typed.
Import ListNotations.
Open Scope N_scope.

(** * Induction principles for the nested types *)

Lemma value_ind' (P : value -> Prop) :
  P VUnit -> (forall b, P (VBool b)) -> (forall z, P (VI32 z)) -> (forall b, P (VF64 b)) ->
  (forall s, P (VStr s)) -> P VNone -> (forall v, P v -> P (VSome v)) ->
  (forall l, Forall P l -> P (VVec l)) ->
  (forall l, Forall (fun kv => P (snd kv)) l -> P (VMap l)) ->
  (forall l, Forall P l -> P (VTuple l)) -> (forall z, P (VInt z)) ->
  forall v, P v.
Proof.
  intros H1 H2 H3 H4 H5 H6 H7 H8 H9 H10 H11.
  fix IH 1. intros [|b|z|b|s| |v|l|l|l|z];
    [apply H1|apply H2|apply H3|apply H4|apply H5|apply H6| | | | |apply H11].
  - apply H7, IH.
  - apply H8. induction l as [|x l IHl]; constructor; [apply IH|exact IHl].
  - apply H9. induction l as [|[k x] l IHl]; constructor; [apply IH|exact IHl].
  - apply H10. induction l as [|x l IHl]; constructor; [apply IH|exact IHl].
Qed.

Lemma ty_ind' (P : ty -> Prop) :
  P TUnit -> P TBool -> P TI32 -> P TF64 -> P TStr ->
  (forall t, P t -> P (TOpt t)) -> (forall t, P t -> P (TVec t)) -> (forall t, P t -> P (TMap t)) ->
  (forall l, Forall P l -> P (TTuple l)) -> (forall n t, P t -> P (TArr n t)) ->
  (forall i, P (TInt i)) -> forall t, P t.
Proof.
  intros H1 H2 H3 H4 H5 H6 H7 H8 H9 H10 H11.
  fix IH 1. intros [| | | | |t|t|t|l|n t|i];
    [apply H1|apply H2|apply H3|apply H4|apply H5| | | | | |apply H11].
  - apply H6, IH.
  - apply H7, IH.
  - apply H8, IH.
  - apply H9. induction l as [|x l IHl]; constructor; [apply IH|exact IHl].
  - apply H10, IH.
Qed.

Lemma tree_ind' (P : tree -> Prop) :
  P TNull -> (forall b, P (Tree.TBool b)) -> (forall z, P (Tree.TInt z)) -> (forall b, P (Tree.TF64 b)) ->
  (forall s, P (Tree.TStr s)) -> (forall l, Forall P l -> P (Tree.TArr l)) ->
  (forall l, Forall (fun kv => P (snd kv)) l -> P (TObj l)) -> forall t, P t.
Proof.
  intros H1 H2 H3 H4 H5 H6 H7.
  fix IH 1. intros [|b|z|b|s|l|l]; [apply H1|apply H2|apply H3|apply H4|apply H5| | ].
  - apply H6. induction l as [|x l IHl]; constructor; [apply IH|exact IHl].
  - apply H7. induction l as [|[k x] l IHl]; constructor; [apply IH|exact IHl].
Qed.

(** * Small facts *)

Lemma beq_true a : forall b, beq a b = true <-> a = b.
Proof.
  induction a as [|x a IH]; intros [|y b]; cbn [beq]; split; intro H; try discriminate; try reflexivity.
  - apply andb_prop in H. destruct H as [H1 H2]. apply N.eqb_eq in H1. apply IH in H2. congruence.
  - injection H as -> ->. rewrite N.eqb_refl. cbn [andb]. apply IH. reflexivity.
Qed.

Lemma beq_refl a : beq a a = true.
Proof. apply beq_true. reflexivity. Qed.

Lemma lenN_map {A B} (f : A -> B) l : lenN (map f l) = lenN l.
Proof. unfold lenN. rewrite map_length. reflexivity. Qed.

Lemma forallb_Forall' {A} (f : A -> bool) l : forallb f l = true <-> Forall (fun x => f x = true) l.
Proof. rewrite forallb_forall, Forall_forall. reflexivity. Qed.

Lemma pow31 : 2 ^ 31 = 2147483648. Proof. reflexivity. Qed.
Lemma pow32 : 2 ^ 32 = 4294967296. Proof. reflexivity. Qed.
Lemma pow64 : 2 ^ 64 = 18446744073709551616. Proof. reflexivity. Qed.

Lemma len_opt_small W n : (W = 32 \/ W = 64) -> n < 2 ^ 31 -> len_opt W n = Some n.
Proof.
  intros HW Hn. unfold len_opt. rewrite pow31 in Hn.
  destruct (N.eqb_spec n (2 ^ W - 1)) as [E|E]; [|reflexivity].
  exfalso. destruct HW as [-> | ->]; [rewrite pow32 in E|rewrite pow64 in E]; lia.
Qed.

(** * [canon] is the wire tree of the canonical encoding *)

Lemma enc_canon_int z : enc_int (int_fmt z) z = write_sint z.
Proof.
  unfold int_fmt, write_sint.
  destruct ((-32 <=? z) && (z <? 0))%Z eqn:E1.
  { cbn [enc_int]. rewrite of_signed_1. apply andb_prop in E1. destruct E1 as [_ E1]. rewrite E1. reflexivity. }
  destruct ((-128 <=? z) && (z <? -32))%Z; [reflexivity|].
  destruct ((-32768 <=? z) && (z <? -128))%Z; [reflexivity|].
  destruct ((-2147483648 <=? z) && (z <? -32768))%Z; [reflexivity|].
  destruct (z <? -2147483648)%Z; [reflexivity|].
  destruct ((0 <=? z) && (z <? 128))%Z; [reflexivity|].
  destruct (z <? 256)%Z; [reflexivity|].
  destruct (z <? 65536)%Z; [reflexivity|].
  destruct (z <? 4294967296)%Z; reflexivity.
Qed.

Lemma wf_canon_int z : (- 2 ^ 63 <= z < 2 ^ 64)%Z -> wf_int (int_fmt z) z = true.
Proof.
  intro Hz. unfold int_fmt.
  destruct ((-32 <=? z) && (z <? 0))%Z eqn:E1; [exact E1|].
  destruct ((-128 <=? z) && (z <? -32))%Z eqn:E2; [cbn [wf_int]; lia|].
  destruct ((-32768 <=? z) && (z <? -128))%Z eqn:E3; [cbn [wf_int]; lia|].
  destruct ((-2147483648 <=? z) && (z <? -32768))%Z eqn:E4; [cbn [wf_int]; lia|].
  destruct (z <? -2147483648)%Z eqn:E5; [cbn [wf_int]; lia|].
  destruct ((0 <=? z) && (z <? 128))%Z eqn:E6; [exact E6|].
  destruct (z <? 256)%Z eqn:E7; [cbn [wf_int]; lia|].
  destruct (z <? 65536)%Z eqn:E8; [cbn [wf_int]; lia|].
  destruct (z <? 4294967296)%Z eqn:E9; cbn [wf_int]; lia.
Qed.

Lemma enc_canon_str s : lenN s < 2 ^ 32 -> enc (canon_str s) = enc_str s.
Proof.
  intro H. unfold canon_str, enc_str. cbn [enc]. rewrite N.mod_small by exact H.
  f_equal. unfold str_hdr, str_fmt, write_str_len.
  destruct (lenN s <? 32); [reflexivity|]. destruct (lenN s <? 256); [reflexivity|].
  destruct (lenN s <? 65536); reflexivity.
Qed.

Lemma wf_canon_str s : wf_str s = true -> wf (canon_str s) = true /\ is_wstr (canon_str s) = true.
Proof.
  unfold wf_str, canon_str. intro H. apply andb_prop in H. destruct H as [H1 H2].
  split; [|reflexivity]. cbn [wf]. rewrite H2, andb_true_r. apply N.ltb_lt in H1. rewrite pow32 in H1.
  unfold str_fmt.
  destruct (N.ltb_spec (lenN s) 32); [cbn [str_max]; lia|].
  destruct (N.ltb_spec (lenN s) 256); [cbn [str_max]; lia|].
  destruct (N.ltb_spec (lenN s) 65536); cbn [str_max]; [|rewrite pow32]; lia.
Qed.

Lemma arr_hdr_canon n : n < 2 ^ 32 -> arr_hdr (len_fmt n) n = write_array_len (n mod 2 ^ 32).
Proof.
  intro H. rewrite N.mod_small by exact H. unfold arr_hdr, len_fmt, write_array_len.
  destruct (n <? 16); [reflexivity|]. destruct (n <? 65536); reflexivity.
Qed.

Lemma map_hdr_canon n : n < 2 ^ 32 -> map_hdr (len_fmt n) n = write_map_len (n mod 2 ^ 32).
Proof.
  intro H. rewrite N.mod_small by exact H. unfold map_hdr, len_fmt, write_map_len.
  destruct (n <? 16); [reflexivity|]. destruct (n <? 65536); reflexivity.
Qed.

Lemma len_fmt_max n : n < 2 ^ 32 -> n < len_max (len_fmt n).
Proof.
  rewrite pow32. intro H. unfold len_fmt.
  destruct (N.ltb_spec n 16); [cbn [len_max]; lia|].
  destruct (N.ltb_spec n 65536); cbn [len_max]; [|rewrite pow32]; lia.
Qed.

Lemma flat_map_ext_Forall {A B} (f g : A -> list B) l :
  Forall (fun x => f x = g x) l -> flat_map f l = flat_map g l.
Proof. induction 1 as [|x l H _ IH]; cbn [flat_map]; [reflexivity|rewrite H, IH; reflexivity]. Qed.

Theorem enc_canon t : wf_tree t = true -> enc (canon t) = enc_tree t.
Proof.
  induction t as [|b|z|b|s|l IH|l IH] using tree_ind'; intro Hwf; cbn [canon enc enc_tree wf_tree] in *.
  - reflexivity.
  - reflexivity.
  - apply enc_canon_int.
  - reflexivity.
  - apply enc_canon_str. apply wf_str_len. exact Hwf.
  - apply andb_prop in Hwf. destruct Hwf as [Hl Hf]. apply N.ltb_lt in Hl.
    rewrite lenN_map, arr_hdr_canon by exact Hl. f_equal.
    rewrite flat_map_concat_map, map_map, <- flat_map_concat_map.
    apply flat_map_ext_Forall. rewrite forallb_forall in Hf. rewrite Forall_forall in *.
    intros x Hx. apply IH; [exact Hx|apply Hf; exact Hx].
  - apply andb_prop in Hwf. destruct Hwf as [Hl Hf]. apply N.ltb_lt in Hl.
    rewrite lenN_map, map_hdr_canon by exact Hl. f_equal.
    rewrite flat_map_concat_map, map_map, <- flat_map_concat_map.
    apply flat_map_ext_Forall. rewrite forallb_forall in Hf. rewrite Forall_forall in *.
    intros [k x] Hx. specialize (Hf _ Hx). specialize (IH _ Hx). cbn [fst snd] in *.
    apply andb_prop in Hf. destruct Hf as [Hk Hv].
    rewrite enc_canon_str by (apply wf_str_len; exact Hk). rewrite IH by exact Hv. reflexivity.
Qed.

Theorem wf_canon t : wf_tree t = true -> wf (canon t) = true.
Proof.
  induction t as [|b|z|b|s|l IH|l IH] using tree_ind'; intro Hwf; cbn [canon wf wf_tree] in *.
  - reflexivity.
  - reflexivity.
  - apply wf_canon_int. apply andb_prop in Hwf. destruct Hwf as [H1 H2]. lia.
  - exact Hwf.
  - apply wf_canon_str. exact Hwf.
  - apply andb_prop in Hwf. destruct Hwf as [Hl Hf]. apply N.ltb_lt in Hl.
    rewrite lenN_map. apply andb_true_intro. split; [apply N.ltb_lt, len_fmt_max; exact Hl|].
    rewrite forallb_forall in *. rewrite Forall_forall in IH. intros w Hw.
    apply in_map_iff in Hw. destruct Hw as (x & <- & Hx). apply IH; [exact Hx|apply Hf; exact Hx].
  - apply andb_prop in Hwf. destruct Hwf as [Hl Hf]. apply N.ltb_lt in Hl.
    rewrite lenN_map. apply andb_true_intro. split; [apply N.ltb_lt, len_fmt_max; exact Hl|].
    rewrite forallb_forall in *. rewrite Forall_forall in IH. intros w Hw.
    apply in_map_iff in Hw. destruct Hw as ([k x] & <- & Hx). specialize (Hf _ Hx). specialize (IH _ Hx).
    cbn [fst snd] in *. apply andb_prop in Hf. destruct Hf as [Hk Hv].
    destruct (wf_canon_str k Hk) as [A B]. rewrite A, B, IH by exact Hv. reflexivity.
Qed.

(** * The tree of a typed value is well formed *)

Definition W_ok (W : N) : Prop := W = 32 \/ W = 64.

Lemma int_range_64 W i z : W_ok W -> (int_min W i <= z <= int_max W i)%Z -> (- 2 ^ 63 <= z < 2 ^ 64)%Z.
Proof.
  intros [-> | ->] H; destruct i; unfold int_min, int_max, int_bits, int_signed in H;
    cbn [Z.of_N] in H; lia.
Qed.

Lemma wf_str_of s : bytes_ok s = true -> lenN s < 2 ^ 32 -> wf_str s = true.
Proof.
  intros H1 H2. unfold wf_str. apply andb_true_intro. split; [apply N.ltb_lt; exact H2|exact H1].
Qed.

Theorem wf_tree_of W v : W_ok W -> forall t,
  has_type_w W v t = true -> bounded v = true -> wf_tree (tree_of v) = true.
Proof.
  intro HW. induction v as [|b|z|b|s| |v IH|l IH|l IH|l IH|z] using value_ind'; intros t HT HB.
  - reflexivity.
  - reflexivity.
  - destruct t; try discriminate HT. cbn [has_type_w] in HT. cbn [tree_of wf_tree]. lia.
  - destruct t; try discriminate HT. exact HT.
  - destruct t; try discriminate HT. cbn [has_type_w bounded tree_of wf_tree] in *.
    apply wf_str_of; [exact HT|apply N.ltb_lt; exact HB].
  - reflexivity.
  - destruct t; try discriminate HT. cbn [has_type_w bounded tree_of] in *. apply (IH t); assumption.
  - cbn [bounded tree_of wf_tree] in *. apply andb_prop in HB. destruct HB as [HL HB].
    apply N.ltb_lt in HL. rewrite pow31 in HL. rewrite lenN_map.
    apply andb_true_intro. split; [apply N.ltb_lt; rewrite pow32; lia|].
    assert (HF : exists u, forallb (fun x => has_type_w W x u) l = true).
    { destruct t; try discriminate HT; cbn [has_type_w] in HT.
      - exists t. exact HT.
      - exists t. apply andb_prop in HT. apply HT. }
    destruct HF as [u HF]. rewrite forallb_forall in *. rewrite Forall_forall in IH.
    intros w Hw. apply in_map_iff in Hw. destruct Hw as (x & <- & Hx).
    apply (IH x Hx u); [apply HF|apply HB]; exact Hx.
  - destruct t; try discriminate HT. cbn [has_type_w bounded tree_of wf_tree] in *.
    apply andb_prop in HB. destruct HB as [HL HB]. apply andb_prop in HT. destruct HT as [_ HT].
    apply N.ltb_lt in HL. rewrite pow31 in HL. rewrite lenN_map.
    apply andb_true_intro. split; [apply N.ltb_lt; rewrite pow32; lia|].
    rewrite forallb_forall in *. rewrite Forall_forall in IH.
    intros w Hw. apply in_map_iff in Hw. destruct Hw as ([k x] & <- & Hx).
    specialize (HT _ Hx). specialize (HB _ Hx). specialize (IH _ Hx). cbn [snd] in IH.
    apply andb_prop in HT. destruct HT as [T1 T2]. apply andb_prop in HB. destruct HB as [B1 B2].
    rewrite (wf_str_of k T1) by (apply N.ltb_lt; exact B1). apply (IH t); assumption.
  - destruct t as [| | | | | | | |ts| |]; try discriminate HT. cbn [bounded tree_of wf_tree] in *.
    apply andb_prop in HB. destruct HB as [HL HB].
    apply N.ltb_lt in HL. rewrite pow31 in HL. rewrite lenN_map.
    apply andb_true_intro. split; [apply N.ltb_lt; rewrite pow32; lia|]. clear HL.
    cbn [has_type_w] in HT. revert ts HT. induction IH as [|x l Hx _ IHl]; intros ts HT; [reflexivity|].
    destruct ts as [|t' ts]; [discriminate HT|]. apply andb_prop in HT. destruct HT as [T1 T2].
    cbn [forallb] in HB. apply andb_prop in HB. destruct HB as [B1 B2].
    cbn [map forallb]. rewrite (Hx t' T1 B1). apply (IHl B2 ts T2).
  - destruct t; try discriminate HT. cbn [has_type_w tree_of wf_tree] in *.
    pose proof (int_range_64 W i z HW). lia.
Qed.

(** * Unfolding the nested fixpoints over tuples *)

Fixpoint has_type_tuple (W : N) (l : list value) (ts : list ty) : bool :=
  match l, ts with
  | [], [] => true
  | x :: l', t' :: ts' => has_type_w W x t' && has_type_tuple W l' ts'
  | _, _ => false
  end.

Lemma has_type_VTuple W l ts : has_type_w W (VTuple l) (TTuple ts) = has_type_tuple W l ts.
Proof.
  cbn [has_type_w]. revert ts. induction l as [|x l IH]; intros [|t' ts]; cbn [has_type_tuple]; try reflexivity.
  rewrite IH. reflexivity.
Qed.

Lemma has_type_tuple_len W l : forall ts, has_type_tuple W l ts = true -> lenN l = lenN ts.
Proof.
  induction l as [|x l IH]; intros [|t' ts] H; try discriminate H; [reflexivity|].
  cbn [has_type_tuple] in H. apply andb_prop in H. destruct H as [_ H].
  rewrite !lenN_cons, (IH ts H). reflexivity.
Qed.

Fixpoint deser_tuple (W : N) (ts : list ty) (l : list wire) : option (list value) :=
  match ts, l with
  | [], [] => Some []
  | t' :: ts', x :: l' =>
      match deser W t' x with
      | Some v => match deser_tuple W ts' l' with Some vs => Some (v :: vs) | None => None end
      | None => None
      end
  | _, _ => None
  end.

Lemma deser_TTuple W ts w :
  deser W (TTuple ts) w =
  match array_len W w with
  | Some len => if negb (len =? lenN ts) then None else option_map VTuple (deser_tuple W ts (items w))
  | None => None
  end.
Proof.
  cbn [deser]. destruct (array_len W w) as [len|]; [|reflexivity].
  destruct (negb (len =? lenN ts)); [reflexivity|]. f_equal.
  generalize (items w) as l. induction ts as [|t' ts IH]; intros [|x l]; cbn [deser_tuple]; try reflexivity.
  destruct (deser W t' x); [|reflexivity]. rewrite IH. reflexivity.
Qed.

(** * Round trip over the eager document *)

Lemma deser_int_of_int W i z :
  W_ok W -> (int_min W i <= z <= int_max W i)%Z -> (Z.abs z <= 2 ^ 53)%Z ->
  deser_int W i (of_int z) = Some z.
Proof.
  intros HW Hr Ha.
  pose proof (of_int_exact z Ha) as X.
  assert (Hb : of_int z < 2 ^ 64) by (apply of_int_lt_2p64; lia).
  assert (NK : ~ known W i (of_int z)).
  { intros [_ K]. rewrite X in K. injection K as K. lia. }
  pose proof (deser_int_exact_or_fails W i (of_int z) HW Hb NK) as D.
  destruct (deser_int W i (of_int z)) as [x|].
  - destruct D as [D _]. rewrite X in D. symmetry. exact D.
  - exfalso. exact (D z Hr X).
Qed.

Lemma i32_range W : int_min W IntDeser.I32 = (- 2 ^ 31)%Z /\ int_max W IntDeser.I32 = (2 ^ 31 - 1)%Z.
Proof. split; reflexivity. Qed.

Lemma not_null W x u :
  has_type_w W x u = true -> nullable u = false -> is_null (canon (tree_of x)) = false.
Proof.
  destruct x, u; intros H HN; try discriminate H; try discriminate HN; reflexivity.
Qed.

Lemma deser_list_rt (f : wire -> option value) l :
  Forall (fun x => f (canon (tree_of x)) = Some x) l ->
  deser_list f (map canon (map tree_of l)) = Some l.
Proof.
  induction 1 as [|x l H _ IH]; cbn [map deser_list]; [reflexivity|]. rewrite H, IH. reflexivity.
Qed.

Lemma distinctb_NoDup ks : distinctb ks = true <-> NoDup ks.
Proof.
  induction ks as [|k r IH]; cbn [distinctb]; split; intro H; try reflexivity; try constructor.
  - apply andb_prop in H. destruct H as [H1 H2]. intro HI.
    apply negb_true_iff in H1. assert (existsb (beq k) r = true); [|congruence].
    apply existsb_exists. exists k. split; [exact HI|apply beq_refl].
  - apply IH. apply andb_prop in H. apply H.
  - inversion H as [|? ? H1 H2]; subst. apply andb_true_intro. split; [|apply IH; exact H2].
    apply negb_true_iff. destruct (existsb (beq k) r) eqn:E; [|reflexivity].
    apply existsb_exists in E. destruct E as (k' & HI & E). apply beq_true in E. subst k'. contradiction.
Qed.

Lemma map_insert_fresh k v acc : ~ In k (map fst acc) -> map_insert k v acc = acc ++ [(k, v)].
Proof.
  induction acc as [|[k' v'] r IH]; intro H; cbn [map_insert app]; [reflexivity|].
  cbn [map fst In] in H. destruct (beq k' k) eqn:E.
  - apply beq_true in E. exfalso. apply H. left. exact E.
  - rewrite IH; [reflexivity|]. intro HI. apply H. right. exact HI.
Qed.

Definition canon_pair (kv : list N * tree) : wire * wire := let '(k, x) := kv in (canon_str k, canon x).
Definition tree_pair (kv : list N * value) : list N * tree := let '(k, x) := kv in (k, tree_of x).

Lemma deser_entries_rt (f : wire -> option value) l : forall acc,
  Forall (fun kv => f (canon (tree_of (snd kv))) = Some (snd kv)) l ->
  NoDup (map fst (acc ++ l)) ->
  deser_entries f (map canon_pair (map tree_pair l)) acc = Some (acc ++ l).
Proof.
  induction l as [|[k x] l IH]; intros acc HF HD; cbn [map deser_entries].
  - rewrite app_nil_r. reflexivity.
  - inversion HF as [|? ? H1 H2]; subst. cbn [snd fst tree_pair canon_pair as_string canon_str] in *.
    rewrite H1. rewrite map_insert_fresh.
    + rewrite IH; [rewrite <- app_assoc; reflexivity|exact H2|rewrite <- app_assoc; exact HD].
    + rewrite map_app in HD. cbn [map fst] in HD. apply NoDup_remove_2 in HD.
      intro HI. apply HD. apply in_or_app. left. exact HI.
Qed.

Theorem roundtrip W : W_ok W -> forall v t,
  has_type_w W v t = true -> bounded v = true -> opt_ok t = true ->
  deser W t (canon (tree_of v)) = Some v.
Proof.
  intro HW. induction v as [|b|z|b|s| |v IH|l IH|l IH|l IH|z] using value_ind'; intros t HT HB HO.
  - destruct t; try discriminate HT. reflexivity.
  - destruct t; try discriminate HT. reflexivity.
  - destruct t; try discriminate HT. cbn [has_type_w] in HT.
    cbn [deser tree_of canon]. unfold deser_num. cbn [as_number num_of].
    rewrite deser_int_of_int; [reflexivity|exact HW| |lia].
    destruct (i32_range W) as [-> ->]. lia.
  - destruct t; try discriminate HT. reflexivity.
  - destruct t; try discriminate HT. reflexivity.
  - destruct t; try discriminate HT. reflexivity.
  - destruct t; try discriminate HT. cbn [has_type_w bounded opt_ok] in *.
    apply andb_prop in HO. destruct HO as [HN HO]. apply negb_true_iff in HN.
    cbn [deser tree_of]. rewrite (not_null W v t HT HN), (IH t HT HB HO). reflexivity.
  - cbn [bounded] in HB. apply andb_prop in HB. destruct HB as [HL HB]. apply N.ltb_lt in HL.
    assert (HF : forall u, forallb (fun x => has_type_w W x u) l = true -> opt_ok u = true ->
                 deser_list (deser W u) (map canon (map tree_of l)) = Some l).
    { intros u HU HOu. apply deser_list_rt. rewrite forallb_forall in HU, HB. rewrite Forall_forall in *.
      intros x Hx. apply IH; [exact Hx|apply HU; exact Hx|apply HB; exact Hx|exact HOu]. }
    destruct t; try discriminate HT; cbn [has_type_w opt_ok] in *.
    + cbn [deser tree_of canon array_len items]. rewrite !lenN_map, (len_opt_small W _ HW HL).
      rewrite (HF t HT HO). reflexivity.
    + apply andb_prop in HT. destruct HT as [HN HT].
      cbn [deser tree_of canon array_len items]. rewrite !lenN_map, (len_opt_small W _ HW HL).
      rewrite HN. cbn [negb]. rewrite (HF t HT HO). reflexivity.
  - destruct t; try discriminate HT. cbn [has_type_w bounded opt_ok] in *.
    apply andb_prop in HB. destruct HB as [HL HB]. apply N.ltb_lt in HL.
    apply andb_prop in HT. destruct HT as [HD HT]. apply distinctb_NoDup in HD.
    cbn [deser tree_of canon obj_len entries]. rewrite !lenN_map, (len_opt_small W _ HW HL).
    fold canon_pair. fold tree_pair.
    rewrite (deser_entries_rt (deser W t) l []); [reflexivity| |exact HD].
    rewrite forallb_forall in HT, HB. rewrite Forall_forall in *.
    intros [k x] Hx. specialize (HT _ Hx). specialize (HB _ Hx). cbn [snd] in *.
    apply andb_prop in HT. apply andb_prop in HB.
    apply (IH _ Hx); [apply HT|apply HB|exact HO].
  - destruct t as [| | | | | | | |ts| |]; try discriminate HT.
    rewrite has_type_VTuple in HT. cbn [bounded opt_ok] in *.
    apply andb_prop in HB. destruct HB as [HL HB]. apply N.ltb_lt in HL.
    rewrite deser_TTuple. cbn [tree_of canon array_len items].
    rewrite !lenN_map, (len_opt_small W _ HW HL), (has_type_tuple_len W l ts HT), N.eqb_refl.
    cbn [negb]. clear HL.
    assert (G : deser_tuple W ts (map canon (map tree_of l)) = Some l); [|rewrite G; reflexivity].
    revert ts HT HO. induction IH as [|x l Hx _ IHl]; intros [|t' ts] HT HO; try discriminate HT; [reflexivity|].
    cbn [has_type_tuple forallb] in *. apply andb_prop in HT. apply andb_prop in HB. apply andb_prop in HO.
    cbn [map deser_tuple]. rewrite (Hx t') by tauto. rewrite (IHl (proj2 HB) ts) by tauto. reflexivity.
  - destruct t; try discriminate HT. cbn [has_type_w bounded] in *.
    cbn [deser tree_of canon]. unfold deser_num. cbn [as_number num_of].
    rewrite deser_int_of_int; [reflexivity|exact HW|lia|lia].
Qed.

(** * Write side: the calls of [ser v] are the tokens of [tree_of v], all accepted *)

Notation T0 := (tok_of_op []).

Lemma map_flat_map {A B C} (h : B -> C) (f : A -> list B) l :
  map h (flat_map f l) = flat_map (fun x => map h (f x)) l.
Proof. induction l as [|x l IH]; cbn [flat_map map]; [reflexivity|]. rewrite map_app, IH. reflexivity. Qed.

Lemma flat_map_map {A B C} (g : A -> B) (f : B -> list C) l :
  flat_map f (map g l) = flat_map (fun x => f (g x)) l.
Proof. induction l as [|x l IH]; cbn [flat_map map]; [reflexivity|]. rewrite IH. reflexivity. Qed.

Lemma ser_tokens W v : forall t,
  has_type_w W v t = true -> writable t = true ->
  map T0 (ser v) = map Some (tokens (tree_of v)).
Proof.
  induction v as [|b|z|b|s| |v IH|l IH|l IH|l IH|z] using value_ind'; intros t HT HWr;
    try (destruct t; try discriminate HT; reflexivity).
  - destruct b; reflexivity.
  - destruct t; try discriminate HT. cbn [has_type_w writable ser tree_of] in *. apply (IH t); assumption.
  - assert (HF : exists u, forallb (fun x => has_type_w W x u) l = true /\ writable u = true).
    { destruct t; try discriminate HT; cbn [has_type_w writable] in *.
      - exists t. split; assumption.
      - exists t. apply andb_prop in HT. split; [apply HT|assumption]. }
    destruct HF as (u & HU & HWu). cbn [ser tree_of tokens map]. rewrite lenN_map. f_equal.
    rewrite !map_app. f_equal. rewrite !map_flat_map, flat_map_map.
    apply flat_map_ext_Forall. rewrite forallb_forall in HU. rewrite Forall_forall in *.
    intros x Hx. apply (IH x Hx u); [apply HU; exact Hx|exact HWu].
  - destruct t; try discriminate HT. cbn [has_type_w writable] in *.
    apply andb_prop in HT. destruct HT as [_ HT].
    cbn [ser tree_of tokens map]. rewrite lenN_map. f_equal.
    rewrite !map_app. f_equal. rewrite !map_flat_map, flat_map_map.
    apply flat_map_ext_Forall. rewrite forallb_forall in HT. rewrite Forall_forall in *.
    intros [k x] Hx. specialize (HT _ Hx). specialize (IH _ Hx). cbn [snd] in IH.
    apply andb_prop in HT. cbn [map]. f_equal. apply (IH t); [apply HT|exact HWr].
  - destruct t; try discriminate HT. discriminate HWr.
  - destruct t; try discriminate HT. discriminate HWr.
Qed.

(** Each call is within the scope of C02/C03, whatever the context (no interned strings). *)
Definition op_static (W : N) (op : wop) : Prop :=
  op_guard W op /\ op_wf [] op /\ match op with OIStr _ => False | _ => True end.

Lemma op_static_ok W c op : interned c = [] -> op_static W op -> op_ok_wf W c op.
Proof.
  intros Hi (G & Wf & NI). unfold op_ok_wf, op_ok. rewrite Hi. split; [split; [exact G|]|exact Wf].
  destruct op; try exact I. contradiction.
Qed.

Lemma pow_W_ge W : W_ok W -> 2 ^ 32 <= 2 ^ W.
Proof. intros [-> | ->]; [apply N.le_refl|rewrite pow32, pow64; lia]. Qed.

Lemma ser_static W v : W_ok W -> forall t,
  has_type_w W v t = true -> bounded v = true -> Forall (op_static W) (ser v).
Proof.
  intro HW. pose proof (pow_W_ge W HW) as HP. rewrite pow32 in HP.
  induction v as [|b|z|b|s| |v IH|l IH|l IH|l IH|z] using value_ind'; intros t HT HB; cbn [ser].
  - repeat constructor.
  - repeat constructor.
  - destruct t; try discriminate HT. cbn [has_type_w] in HT. repeat constructor; cbn [op_wf]; lia.
  - destruct t; try discriminate HT. cbn [has_type_w] in HT. repeat constructor. cbn [op_wf]. apply N.ltb_lt. exact HT.
  - destruct t; try discriminate HT. cbn [has_type_w bounded] in *. repeat constructor. cbn [op_wf].
    apply wf_str_of; [exact HT|apply N.ltb_lt; exact HB].
  - repeat constructor.
  - destruct t; try discriminate HT. cbn [has_type_w bounded] in *. apply (IH t); assumption.
  - cbn [bounded] in HB. apply andb_prop in HB. destruct HB as [HL HB]. apply N.ltb_lt in HL. rewrite pow31 in HL.
    assert (HF : exists u, forallb (fun x => has_type_w W x u) l = true).
    { destruct t; try discriminate HT; cbn [has_type_w] in HT.
      - exists t. exact HT.
      - exists t. apply andb_prop in HT. apply HT. }
    destruct HF as [u HU]. constructor.
    + repeat split; cbn [op_guard op_wf]; [lia|rewrite pow32; lia].
    + apply Forall_app. split; [|repeat constructor].
      apply Forall_flat_map. rewrite forallb_forall in HU, HB. rewrite Forall_forall in *.
      intros x Hx. apply (IH x Hx u); [apply HU|apply HB]; exact Hx.
  - destruct t; try discriminate HT. cbn [has_type_w bounded] in *.
    apply andb_prop in HB. destruct HB as [HL HB]. apply N.ltb_lt in HL. rewrite pow31 in HL.
    apply andb_prop in HT. destruct HT as [_ HT]. constructor.
    + repeat split; cbn [op_guard op_wf]; [lia|rewrite pow32; lia].
    + apply Forall_app. split; [|repeat constructor].
      apply Forall_flat_map. rewrite forallb_forall in HT, HB. rewrite Forall_forall in *.
      intros [k x] Hx. specialize (HT _ Hx). specialize (HB _ Hx). specialize (IH _ Hx). cbn [snd] in IH.
      apply andb_prop in HT. apply andb_prop in HB. constructor.
      * repeat split. cbn [op_wf]. apply wf_str_of; [apply HT|apply N.ltb_lt; apply HB].
      * apply (IH t); [apply HT|apply HB].
  - constructor.
  - constructor.
Qed.

Section Run.
Variable W : N.
Variable trap : bool.

Notation reachw := (reach W trap (op_ok_wf W)).
Let P_ok : forall c op, op_ok_wf W c op -> op_ok W c op := fun _ _ H => proj1 H.

(** Issuing, from a reachable context, calls whose tokens continue the accepted ones towards a
    document: every call is accepted. *)
Lemma run_tokens ops : forall c s tk toks rest t,
  reachw c s tk -> interned c = [] ->
  map T0 ops = map Some toks -> tokens t = tk ++ toks ++ rest ->
  Forall (op_static W) ops ->
  exists c' s', ser_run W trap ops c = (c', WOk) /\ reachw c' s' (tk ++ toks) /\ interned c' = [].
Proof.
  induction ops as [|op ops IH]; intros c s tk toks rest t HR Hi HM HT HS.
  - destruct toks; [|discriminate HM]. exists c, s. rewrite app_nil_r. repeat split; assumption.
  - destruct toks as [|tok toks]; [discriminate HM|]. cbn [map] in HM. injection HM as Htok HM.
    inversion HS as [|? ? HS1 HS2]; subst.
    pose proof (op_static_ok W c op Hi HS1) as HP.
    assert (Hok : snd (step W trap c op) = WOk).
    { apply (GrammarProofs.C03_fits W trap (op_ok_wf W) P_ok c s tk op tok HR HP).
      - rewrite Hi. exact Htok.
      - exists t, (toks ++ rest). rewrite HT, <- app_assoc. reflexivity. }
    pose proof (reach_op W trap (op_ok_wf W) c s tk op HR HP) as HR'.
    assert (Hacc : accepted_tok W trap c op = [tok]).
    { unfold accepted_tok. rewrite Hok, Hi, Htok. reflexivity. }
    rewrite Hacc in HR'.
    destruct (IH (fst (step W trap c op)) _ (tk ++ [tok]) toks rest t HR') as (c' & s' & E & R' & I');
      try assumption.
    + rewrite step_interned. exact Hi.
    + rewrite HT, <- app_assoc. reflexivity.
    + exists c', s'. cbn [ser_run]. destruct (step W trap c op) as [c1 st] eqn:Es. cbn [fst snd] in *.
      rewrite Hok. rewrite <- app_assoc in R'. repeat split; assumption.
Qed.

(** [Writer.run] (which does not stop at errors) on a sequence that [ser_run] completes. *)
Lemma ser_run_run ops : forall c c' rs,
  ser_run W trap ops c = (c', WOk) ->
  fold_left (fun '(c, rs) op => let '(c', r) := step W trap c op in (c', rs ++ [r])) ops (c, rs)
  = (c', rs ++ repeat WOk (length ops)).
Proof.
  induction ops as [|op ops IH]; intros c c' rs H; cbn [ser_run fold_left length repeat] in *.
  - injection H as ->. rewrite app_nil_r. reflexivity.
  - destruct (step W trap c op) as [c1 st]. destruct st; try discriminate H.
    rewrite (IH c1 c' _ H), <- app_assoc. reflexivity.
Qed.

Theorem ser_complete t ops :
  map T0 ops = map Some (tokens t) -> Forall (op_static W) ops ->
  exists c, ser_run W trap ops init = (c, WOk) /\ wstate c = End /\ out c = enc_tree t /\
            finalize c = (WR_Ok, enc_tree t) /\ run W trap ops = (c, repeat WOk (length ops)).
Proof.
  intros HM HS.
  destruct (run_tokens ops init sinit [] (tokens t) [] t) as (c & s & E & R & _);
    try assumption; try reflexivity.
  { apply reach_init. } { rewrite app_nil_r. reflexivity. }
  cbn [app] in R. exists c.
  assert (HE : wstate c = End).
  { apply (GrammarProofs.C03_complete_tokens W trap (op_ok_wf W) P_ok c s _ R). exists t. reflexivity. }
  destruct (WriteProofs.C03_complete W trap _ P_ok c s _ R) as (E1 & F & _).
  destruct (C02_main W trap c s _ R (proj1 E1 HE)) as (t' & _ & O & _ & _ & Tk).
  apply tokens_inj in Tk. subst t'.
  repeat split; try assumption.
  - rewrite <- O. apply F, E1, HE.
  - unfold run. rewrite (ser_run_run ops init c [] E). reflexivity.
Qed.

End Run.

Theorem ser_correct W trap v t :
  W_ok W -> has_type_w W v t = true -> writable t = true -> bounded v = true ->
  exists c, ser_run W trap (ser v) init = (c, WOk) /\ wstate c = End /\
            out c = enc_tree (tree_of v) /\ finalize c = (WR_Ok, enc_tree (tree_of v)) /\
            run W trap (ser v) = (c, repeat WOk (length (ser v))).
Proof.
  intros HW HT HWr HB. apply ser_complete.
  - apply (ser_tokens W v t HT HWr).
  - apply (ser_static W v HW t HT HB).
Qed.

(** * No coercion: what [deser] accepts is what [matches] describes *)

Fixpoint matches_tuple (W : N) (ts : list ty) (l : list wire) : bool :=
  match ts, l with
  | [], [] => true
  | t' :: ts', x :: l' => matches W t' x && matches_tuple W ts' l'
  | _, _ => false
  end.

Lemma matches_TTuple W ts d :
  matches W (TTuple ts) d =
  match d with WArr _ l => (lenN l =? lenN ts) && matches_tuple W ts l | _ => false end.
Proof.
  cbn [matches]. destruct d; try reflexivity. f_equal.
  revert l. induction ts as [|t' ts IH]; intros [|x l]; cbn [matches_tuple]; try reflexivity.
  rewrite IH. reflexivity.
Qed.

Fixpoint known_free_tuple (W : N) (ts : list ty) (l : list wire) : bool :=
  match ts, l with
  | t' :: ts', x :: l' => known_free W t' x && known_free_tuple W ts' l'
  | _, _ => true
  end.

Lemma known_free_TTuple W ts d : known_free W (TTuple ts) d = known_free_tuple W ts (items d).
Proof.
  cbn [known_free]. generalize (items d) as l.
  induction ts as [|t' ts IH]; intros [|x l]; cbn [known_free_tuple]; try reflexivity.
  rewrite IH. reflexivity.
Qed.

Lemma knownb_spec W i bits : knownb W i bits = true <-> known W i bits.
Proof.
  unfold knownb, known. split.
  - intro H. apply andb_prop in H. destruct H as [H1 H2]. apply N.eqb_eq in H1. split; [exact H1|].
    destruct (exact_int bits) as [z|]; [|discriminate H2]. apply Z.eqb_eq in H2. congruence.
  - intros [H1 H2]. rewrite H1, H2, N.eqb_refl, Z.eqb_refl. reflexivity.
Qed.

Lemma as_number_is d : as_number d = if is_number d then Some (num_of d) else None.
Proof. destruct d; reflexivity. Qed.

Lemma wf_int_abs f z : wf_int f z = true -> (Z.abs z < 2 ^ 64)%Z.
Proof. destruct f; cbn [wf_int]; lia. Qed.

Lemma num_of_lt d : wf d = true -> is_number d = true -> num_of d < 2 ^ 64.
Proof.
  destruct d; intros Hwf Hn; try discriminate Hn; cbn [wf num_of] in *.
  - apply of_int_lt_2p64. apply (wf_int_abs f). exact Hwf.
  - apply of_f32_exact. apply N.ltb_lt. exact Hwf.
  - apply N.ltb_lt. exact Hwf.
Qed.

Lemma deser_num_matches W i d x :
  W_ok W -> wf d = true -> knownb W i (num_of d) = false ->
  deser_num W i d = Some x -> int_matches W i d = true.
Proof.
  intros HW Hwf HK. unfold deser_num, int_matches. rewrite as_number_is.
  destruct (is_number d) eqn:En; [|discriminate]. intro HD. cbn [andb].
  assert (NK : ~ known W i (num_of d)).
  { intro K. apply knownb_spec in K. congruence. }
  pose proof (deser_int_exact_or_fails W i _ HW (num_of_lt d Hwf En) NK) as D.
  rewrite HD in D. destruct D as [-> R]. lia.
Qed.

Lemma matches_deser_num W i d :
  W_ok W -> wf d = true -> int_matches W i d = true -> exists x, deser_num W i d = Some x.
Proof.
  intros HW Hwf. unfold deser_num, int_matches. rewrite as_number_is.
  destruct (is_number d) eqn:En; [|discriminate]. cbn [andb].
  destruct (exact_int (num_of d)) as [z|] eqn:X; [|discriminate]. intro R.
  assert (NK : ~ known W i (num_of d)).
  { intros [_ K]. rewrite X in K. injection K as K. lia. }
  pose proof (deser_int_exact_or_fails W i _ HW (num_of_lt d Hwf En) NK) as D.
  destruct (deser_int W i (num_of d)) as [x|]; [exists x; reflexivity|].
  exfalso. apply (D z); [lia|exact X].
Qed.

Lemma deser_list_all f (P : wire -> Prop) l : forall vs,
  deser_list f l = Some vs -> (forall x v, In x l -> f x = Some v -> P x) -> Forall P l.
Proof.
  induction l as [|x l IH]; intros vs H HP; [constructor|]. cbn [deser_list] in H.
  destruct (f x) as [v|] eqn:E; [|discriminate H].
  destruct (deser_list f l) as [vs'|] eqn:E'; [|discriminate H].
  constructor; [apply (HP x v); [left; reflexivity|exact E]|].
  apply (IH vs' eq_refl). intros y w Hy. apply HP. right. exact Hy.
Qed.

Lemma deser_entries_all f (P : wire * wire -> Prop) l : forall acc m,
  deser_entries f l acc = Some m ->
  (forall kv v, In kv l -> is_wstr (fst kv) = true -> f (snd kv) = Some v -> P kv) -> Forall P l.
Proof.
  induction l as [|kv l IH]; intros acc m H HP; [constructor|]. cbn [deser_entries] in H.
  destruct (as_string (fst kv)) as [k|] eqn:Ek; [|discriminate H].
  destruct (f (snd kv)) as [v|] eqn:E; [|discriminate H].
  constructor.
  - apply (HP kv v); [left; reflexivity| |exact E]. destruct (fst kv); try discriminate Ek. reflexivity.
  - apply (IH _ _ H). intros y w Hy. apply HP. right. exact Hy.
Qed.

Lemma deser_list_ex f l : Forall (fun x => exists v, f x = Some v) l -> exists vs, deser_list f l = Some vs.
Proof.
  induction 1 as [|x l [v Hv] _ [vs IH]]; cbn [deser_list]; [eexists; reflexivity|].
  rewrite Hv, IH. eexists; reflexivity.
Qed.

Lemma deser_entries_ex f l :
  Forall (fun kv => is_wstr (fst kv) = true /\ exists v, f (snd kv) = Some v) l ->
  forall acc, exists m, deser_entries f l acc = Some m.
Proof.
  induction 1 as [|kv l [Hk [v Hv]] _ IH]; intro acc; cbn [deser_entries]; [eexists; reflexivity|].
  destruct (fst kv); try discriminate Hk. cbn [as_string]. rewrite Hv. apply IH.
Qed.

Lemma array_len_Some W d n : array_len W d = Some n -> exists f l, d = WArr f l /\ n = lenN l.
Proof.
  destruct d; try discriminate. cbn [array_len]. unfold len_opt. destruct (_ =? _); [discriminate|].
  intro H. injection H as <-. eauto.
Qed.

Lemma obj_len_Some W d n : obj_len W d = Some n -> exists f l, d = WMap f l /\ n = lenN l.
Proof.
  destruct d; try discriminate. cbn [obj_len]. unfold len_opt. destruct (_ =? _); [discriminate|].
  intro H. injection H as <-. eauto.
Qed.

Lemma option_map_Some {A B} (g : A -> B) o b : option_map g o = Some b -> exists a, o = Some a.
Proof. destruct o; [eauto|discriminate]. Qed.

Theorem deser_matches W : W_ok W -> forall t d v,
  wf d = true -> known_free W t d = true -> deser W t d = Some v -> matches W t d = true.
Proof.
  intro HW. induction t as [| | | | |u IH|u IH|u IH|ts IH|n u IH|i] using ty_ind'; intros d v Hwf HK HD.
  - cbn [deser matches] in *. destruct (is_null d); [reflexivity|discriminate HD].
  - cbn [deser matches] in *. destruct d; try discriminate HD. reflexivity.
  - cbn [deser matches known_free] in *. apply option_map_Some in HD. destruct HD as [x HD].
    apply negb_true_iff in HK. apply (deser_num_matches W _ d x HW Hwf HK HD).
  - cbn [deser matches] in *. rewrite as_number_is in HD. destruct (is_number d); [reflexivity|discriminate HD].
  - cbn [deser matches] in *. destruct d; try discriminate HD. reflexivity.
  - cbn [deser matches known_free] in *. destruct (is_null d); [reflexivity|]. cbn [orb] in *.
    apply option_map_Some in HD. destruct HD as [x HD]. apply (IH d x Hwf HK HD).
  - cbn [deser matches known_free] in *. destruct (array_len W d) as [n|] eqn:EL; [|discriminate HD].
    apply array_len_Some in EL. destruct EL as (f & l & -> & _). cbn [items wf] in *.
    apply andb_prop in Hwf. destruct Hwf as [_ Hwf].
    apply option_map_Some in HD. destruct HD as [vs HD].
    apply forallb_Forall'. apply (deser_list_all _ _ _ _ HD).
    rewrite forallb_forall in Hwf, HK. intros x w Hx. apply IH; [apply Hwf|apply HK]; exact Hx.
  - cbn [deser matches known_free] in *. destruct (obj_len W d) as [n|] eqn:EL; [|discriminate HD].
    apply obj_len_Some in EL. destruct EL as (f & l & -> & _). cbn [entries wf] in *.
    apply andb_prop in Hwf. destruct Hwf as [_ Hwf].
    apply option_map_Some in HD. destruct HD as [m HD].
    apply forallb_Forall'. apply (deser_entries_all _ _ _ _ _ HD).
    rewrite forallb_forall in Hwf, HK. intros kv w Hx Hs Hf. rewrite Hs. cbn [andb].
    specialize (Hwf _ Hx). apply andb_prop in Hwf. destruct Hwf as [_ Hwf].
    apply (IH _ w Hwf (HK _ Hx) Hf).
  - rewrite deser_TTuple in HD. rewrite matches_TTuple. rewrite known_free_TTuple in HK.
    destruct (array_len W d) as [n|] eqn:EL; [|discriminate HD].
    apply array_len_Some in EL. destruct EL as (f & l & -> & ->). cbn [items wf] in *.
    apply andb_prop in Hwf. destruct Hwf as [_ Hwf].
    destruct (lenN l =? lenN ts); [|discriminate HD]. cbn [negb andb] in *.
    apply option_map_Some in HD. destruct HD as [vs HD]. clear v.
    revert l vs Hwf HK HD. induction IH as [|t' ts Ht _ IHts]; intros [|x l] vs Hwf HK HD;
      cbn [deser_tuple matches_tuple known_free_tuple forallb] in *; try discriminate HD; [reflexivity|].
    apply andb_prop in Hwf. apply andb_prop in HK.
    destruct (deser W t' x) as [v|] eqn:E; [|discriminate HD].
    destruct (deser_tuple W ts l) as [vs'|] eqn:E'; [|discriminate HD].
    rewrite (Ht x v) by tauto. rewrite (IHts l vs') by tauto. reflexivity.
  - cbn [deser matches known_free] in *. destruct (array_len W d) as [m|] eqn:EL; [|discriminate HD].
    apply array_len_Some in EL. destruct EL as (f & l & -> & ->). cbn [items wf] in *.
    apply andb_prop in Hwf. destruct Hwf as [_ Hwf].
    destruct (lenN l =? n); [|discriminate HD]. cbn [negb andb] in *.
    apply option_map_Some in HD. destruct HD as [vs HD].
    apply forallb_Forall'. apply (deser_list_all _ _ _ _ HD).
    rewrite forallb_forall in Hwf, HK. intros x w Hx. apply IH; [apply Hwf|apply HK]; exact Hx.
  - cbn [deser matches known_free] in *. apply option_map_Some in HD. destruct HD as [x HD].
    apply negb_true_iff in HK. apply (deser_num_matches W _ d x HW Hwf HK HD).
Qed.

Lemma len_opt_ok W n : (n =? 2 ^ W - 1) = false -> len_opt W n = Some n.
Proof. unfold len_opt. intros ->. reflexivity. Qed.

Theorem matches_deser W : W_ok W -> forall t d,
  wf d = true -> lens_ok W d = true -> matches W t d = true -> exists v, deser W t d = Some v.
Proof.
  intro HW. induction t as [| | | | |u IH|u IH|u IH|ts IH|n u IH|i] using ty_ind'; intros d Hwf HL HM.
  - cbn [deser matches] in *. rewrite HM. eauto.
  - cbn [deser matches] in *. destruct d; try discriminate HM. cbn [as_bool option_map]. eauto.
  - cbn [deser matches] in *. destruct (matches_deser_num W _ d HW Hwf HM) as [x ->]. cbn [option_map]. eauto.
  - cbn [deser matches] in *. rewrite as_number_is, HM. cbn [option_map]. eauto.
  - cbn [deser matches] in *. destruct d; try discriminate HM. cbn [as_string option_map]. eauto.
  - cbn [deser matches] in *. destruct (is_null d); [eauto|]. cbn [orb] in HM.
    destruct (IH d Hwf HL HM) as [x ->]. cbn [option_map]. eauto.
  - cbn [deser matches] in *. destruct d; try discriminate HM. cbn [array_len items wf lens_ok] in *.
    apply andb_prop in Hwf. destruct Hwf as [_ Hwf]. apply andb_prop in HL. destruct HL as [HL1 HL].
    apply negb_true_iff in HL1. rewrite (len_opt_ok _ _ HL1).
    destruct (deser_list_ex (deser W u) l) as [vs ->]; [|cbn [option_map]; eauto].
    rewrite forallb_forall in Hwf, HL, HM. apply Forall_forall. intros x Hx. apply IH; auto.
  - cbn [deser matches] in *. destruct d; try discriminate HM. cbn [obj_len entries wf lens_ok] in *.
    apply andb_prop in Hwf. destruct Hwf as [_ Hwf]. apply andb_prop in HL. destruct HL as [HL1 HL].
    apply negb_true_iff in HL1. rewrite (len_opt_ok _ _ HL1).
    destruct (deser_entries_ex (deser W u) l) with (acc := @nil (list N * value)) as [m ->];
      [|cbn [option_map]; eauto].
    rewrite forallb_forall in Hwf, HL, HM. apply Forall_forall. intros kv Hx.
    specialize (Hwf _ Hx). specialize (HL _ Hx). specialize (HM _ Hx).
    apply andb_prop in HM. destruct HM as [HM1 HM2]. apply andb_prop in Hwf. destruct Hwf as [_ Hwf].
    split; [exact HM1|]. apply IH; assumption.
  - rewrite deser_TTuple. rewrite matches_TTuple in HM. destruct d; try discriminate HM.
    cbn [array_len items wf lens_ok] in *.
    apply andb_prop in Hwf. destruct Hwf as [_ Hwf]. apply andb_prop in HL. destruct HL as [HL1 HL].
    apply andb_prop in HM. destruct HM as [HM1 HM].
    apply negb_true_iff in HL1. rewrite (len_opt_ok _ _ HL1), HM1. cbn [negb].
    assert (G : exists vs, deser_tuple W ts l = Some vs); [|destruct G as [vs ->]; cbn [option_map]; eauto].
    clear HL1 HM1. revert l Hwf HL HM. induction IH as [|t' ts Ht _ IHts]; intros [|x l] Hwf HL HM;
      cbn [deser_tuple matches_tuple forallb] in *; try discriminate HM; [eauto|].
    apply andb_prop in Hwf. apply andb_prop in HL. apply andb_prop in HM.
    destruct (Ht x) as [v ->]; try tauto. destruct (IHts l) as [vs ->]; try tauto. eauto.
  - cbn [deser matches] in *. destruct d; try discriminate HM. cbn [array_len items wf lens_ok] in *.
    apply andb_prop in Hwf. destruct Hwf as [_ Hwf]. apply andb_prop in HL. destruct HL as [HL1 HL].
    apply andb_prop in HM. destruct HM as [HM1 HM].
    apply negb_true_iff in HL1. rewrite (len_opt_ok _ _ HL1), HM1. cbn [negb].
    destruct (deser_list_ex (deser W u) l) as [vs ->]; [|cbn [option_map]; eauto].
    rewrite forallb_forall in Hwf, HL, HM. apply Forall_forall. intros x Hx. apply IH; auto.
  - cbn [deser matches] in *. destruct (matches_deser_num W _ d HW Hwf HM) as [x ->]. cbn [option_map]. eauto.
Qed.

(** At W = 64 a well-formed document has no container of [usize::MAX] entries. *)
Lemma lens_ok_64 d : wf d = true -> lens_ok 64 d = true.
Proof.
  assert (LM : forall f, len_max f <= 2 ^ 32) by (intros []; cbn [len_max]; rewrite ?pow32; lia).
  revert d. fix IH 1. intros [|b|f z|b|b|f s|f l|f l] Hwf; try reflexivity; cbn [wf lens_ok] in *.
  - apply andb_prop in Hwf. destruct Hwf as [H1 H2]. apply N.ltb_lt in H1. specialize (LM f).
    apply andb_true_intro. split.
    + apply negb_true_iff, N.eqb_neq. rewrite pow64. rewrite pow32 in LM. lia.
    + clear H1. induction l as [|x l IHl]; [reflexivity|]. cbn [forallb] in *.
      apply andb_prop in H2. destruct H2 as [A B]. rewrite (IH x A), (IHl B). reflexivity.
  - apply andb_prop in Hwf. destruct Hwf as [H1 H2]. apply N.ltb_lt in H1. specialize (LM f).
    apply andb_true_intro. split.
    + apply negb_true_iff, N.eqb_neq. rewrite pow64. rewrite pow32 in LM. lia.
    + clear H1. induction l as [|[k x] l IHl]; [reflexivity|]. cbn [forallb fst snd] in *.
      apply andb_prop in H2. destruct H2 as [A B]. apply andb_prop in A. destruct A as [_ A].
      rewrite (IH x A), (IHl B). reflexivity.
Qed.

(** * serde_json's view, NaN-freedom *)

Theorem json_of_tree_of v : finite_val v = true -> json_of v = tree_of v.
Proof.
  induction v as [|b|z|b|s| |v IH|l IH|l IH|l IH|z] using value_ind'; intro HF;
    cbn [json_of tree_of finite_val] in *; try reflexivity.
  - rewrite HF. reflexivity.
  - apply IH, HF.
  - f_equal. apply map_ext_Forall. rewrite forallb_forall in HF. rewrite Forall_forall in *. auto.
  - f_equal. apply map_ext_Forall. rewrite forallb_forall in HF. rewrite Forall_forall in *.
    intros [k x] Hx. specialize (HF _ Hx). specialize (IH _ Hx). cbn [snd] in *. rewrite IH by exact HF. reflexivity.
  - f_equal. apply map_ext_Forall. rewrite forallb_forall in HF. rewrite Forall_forall in *. auto.
Qed.

Lemma finite_not_nan b : is_finite b = true -> is_nan b = false.
Proof.
  unfold is_finite, is_nan, decode. intro H. apply negb_true_iff in H. rewrite H.
  destruct (f_expo b =? 0); reflexivity.
Qed.

Lemma finite_nan_free v : finite_val v = true -> nan_free v = true.
Proof.
  induction v as [|b|z|b|s| |v IH|l IH|l IH|l IH|z] using value_ind'; intro HF;
    cbn [nan_free finite_val] in *; try reflexivity.
  - rewrite finite_not_nan by exact HF. reflexivity.
  - apply IH, HF.
  - rewrite forallb_forall in *. rewrite Forall_forall in IH. auto.
  - rewrite forallb_forall in *. rewrite Forall_forall in IH. intros [k x] Hx. apply (IH _ Hx), (HF _ Hx).
  - rewrite forallb_forall in *. rewrite Forall_forall in IH. auto.
Qed.

Theorem no_nan_canon v : nan_free v = true -> no_nan (canon (tree_of v)) = true.
Proof.
  induction v as [|b|z|b|s| |v IH|l IH|l IH|l IH|z] using value_ind'; intro HF;
    cbn [nan_free tree_of canon no_nan] in *; try reflexivity; try exact HF.
  - apply IH, HF.
  - rewrite forallb_forall in *. rewrite Forall_forall in IH. intros w Hw.
    apply in_map_iff in Hw. destruct Hw as (y & <- & Hy). apply in_map_iff in Hy. destruct Hy as (x & <- & Hx). auto.
  - rewrite forallb_forall in *. rewrite Forall_forall in IH. intros w Hw.
    apply in_map_iff in Hw. destruct Hw as ([k' y] & <- & Hy). apply in_map_iff in Hy.
    destruct Hy as ([k x] & E & Hx). injection E as <- <-. cbn [fst snd canon_str no_nan andb].
    apply (IH _ Hx), (HF _ Hx).
  - rewrite forallb_forall in *. rewrite Forall_forall in IH. intros w Hw.
    apply in_map_iff in Hw. destruct Hw as (y & <- & Hy). apply in_map_iff in Hy. destruct Hy as (x & <- & Hx). auto.
Qed.

(** * Equality of values up to the order of map entries *)

Fixpoint veq (a b : value) {struct a} : Prop :=
  match a, b with
  | VSome x, VSome y => veq x y
  | VVec l, VVec m | VTuple l, VTuple m =>
      (fix go (l m : list value) : Prop :=
         match l, m with
         | [], [] => True
         | x :: l', y :: m' => veq x y /\ go l' m'
         | _, _ => False
         end) l m
  | VMap l, VMap m =>
      exists m0, Permutation m0 m /\
      (fix go (l m : list (list N * value)) : Prop :=
         match l, m with
         | [], [] => True
         | (k, x) :: l', q :: m' => k = fst q /\ veq x (snd q) /\ go l' m'
         | _, _ => False
         end) l m0
  | _, _ => a = b
  end.

Definition pair_eq (p q : list N * value) : Prop := fst p = fst q /\ veq (snd p) (snd q).

Lemma veq_go_list l : forall m,
  (fix go (l m : list value) : Prop :=
     match l, m with
     | [], [] => True
     | x :: l', y :: m' => veq x y /\ go l' m'
     | _, _ => False
     end) l m <-> Forall2 veq l m.
Proof.
  induction l as [|x l IH]; intros [|y m]; (split; [intro H|intro H; inversion H; subst]);
    try contradiction; try exact I; try constructor.
  - apply H.
  - apply IH, H.
  - assumption.
  - apply IH. assumption.
Qed.

Lemma veq_go_pairs l : forall m,
  (fix go (l m : list (list N * value)) : Prop :=
     match l, m with
     | [], [] => True
     | (k, x) :: l', q :: m' => k = fst q /\ veq x (snd q) /\ go l' m'
     | _, _ => False
     end) l m <-> Forall2 pair_eq l m.
Proof.
  induction l as [|[k x] l IH]; intros [|q m]; (split; [intro H|intro H; inversion H as [|? ? ? ? HH HT]; subst]);
    try contradiction; try exact I; try constructor.
  - split; apply H.
  - apply IH, H.
  - apply HH.
  - split; [apply HH|apply IH; exact HT].
Qed.

Lemma veq_VVec l b : veq (VVec l) b <-> exists m, b = VVec m /\ Forall2 veq l m.
Proof.
  destruct b; cbn [veq]; try (split; [discriminate|intros (m & E & _); discriminate E]).
  rewrite veq_go_list. split; [eauto|intros (m & E & H); injection E as ->; exact H].
Qed.

Lemma veq_VTuple l b : veq (VTuple l) b <-> exists m, b = VTuple m /\ Forall2 veq l m.
Proof.
  destruct b; cbn [veq]; try (split; [discriminate|intros (m & E & _); discriminate E]).
  rewrite veq_go_list. split; [eauto|intros (m & E & H); injection E as ->; exact H].
Qed.

Lemma veq_VMap l b :
  veq (VMap l) b <-> exists m m0, b = VMap m /\ Permutation m0 m /\ Forall2 pair_eq l m0.
Proof.
  destruct b; cbn [veq]; try (split; [discriminate|intros (m & m0 & E & _); discriminate E]).
  split.
  - intros (m0 & HP & H). apply veq_go_pairs in H. eauto.
  - intros (m & m0 & E & HP & H). injection E as ->. exists m0. split; [exact HP|apply veq_go_pairs; exact H].
Qed.

Lemma veq_VSome x b : veq (VSome x) b <-> exists y, b = VSome y /\ veq x y.
Proof.
  destruct b; cbn [veq]; try (split; [discriminate|intros (m & E & _); discriminate E]).
  split; [eauto|intros (y & E & H); injection E as ->; exact H].
Qed.

Theorem veq_refl v : veq v v.
Proof.
  induction v as [|b|z|b|s| |v IH|l IH|l IH|l IH|z] using value_ind'; try reflexivity.
  - exact IH.
  - apply veq_VVec. exists l. split; [reflexivity|]. induction IH; constructor; assumption.
  - apply veq_VMap. exists l, l. split; [reflexivity|]. split; [apply Permutation_refl|].
    induction IH; constructor; [split; [reflexivity|assumption]|assumption].
  - apply veq_VTuple. exists l. split; [reflexivity|]. induction IH; constructor; assumption.
Qed.

(** A permutation of the entries of a map (at the top level) is [veq]. *)
Lemma veq_perm l m : Permutation l m -> veq (VMap l) (VMap m).
Proof.
  intro H. apply veq_VMap. exists m, l. split; [reflexivity|]. split; [exact H|].
  clear H. induction l as [|p l IH]; constructor; [split; [reflexivity|apply veq_refl]|exact IH].
Qed.

Lemma Forall2_length {A B} (R : A -> B -> Prop) l m : Forall2 R l m -> length l = length m.
Proof. induction 1; cbn [length]; congruence. Qed.

Lemma Forall2_pair_keys l m : Forall2 pair_eq l m -> map fst l = map fst m.
Proof. induction 1 as [|p q l m [H _] _ IH]; cbn [map]; [reflexivity|]. rewrite H, IH. reflexivity. Qed.

(** Typing and the size scope do not depend on the order of map entries. *)
Theorem has_type_veq W a : forall b t, veq a b -> has_type_w W a t = true -> has_type_w W b t = true.
Proof.
  induction a as [|b0|z|b0|s| |v IH|l IH|l IH|l IH|z] using value_ind'; intros b t HE HT;
    try (cbn [veq] in HE; subst b; exact HT).
  - apply veq_VSome in HE. destruct HE as (y & -> & HE). destruct t; try discriminate HT.
    cbn [has_type_w] in *. apply (IH y t HE HT).
  - apply veq_VVec in HE. destruct HE as (m & -> & HE).
    assert (G : forall u, forallb (fun x => has_type_w W x u) l = true ->
                          forallb (fun x => has_type_w W x u) m = true).
    { intro u. clear HT. induction HE as [|x y l m Hxy _ IHl]; [reflexivity|]. cbn [forallb].
      inversion IH as [|? ? Hx IH']; subst. intro H. apply andb_prop in H. destruct H as [H1 H2].
      rewrite (Hx y u Hxy H1), (IHl IH' H2). reflexivity. }
    assert (L : lenN m = lenN l) by (unfold lenN; rewrite (Forall2_length _ _ _ HE); reflexivity).
    destruct t; try discriminate HT; cbn [has_type_w] in *.
    + apply G, HT.
    + apply andb_prop in HT. destruct HT as [H1 H2]. rewrite L, H1, (G t H2). reflexivity.
  - apply veq_VMap in HE. destruct HE as (m & m0 & -> & HP & HE). destruct t; try discriminate HT.
    cbn [has_type_w] in *. apply andb_prop in HT. destruct HT as [HD HF].
    apply andb_true_intro. split.
    + apply distinctb_NoDup. apply distinctb_NoDup in HD.
      apply (Permutation_NoDup (l := map fst m0)); [apply Permutation_map; exact HP|].
      rewrite <- (Forall2_pair_keys _ _ HE). exact HD.
    + apply forallb_Forall'. apply (Permutation_Forall HP). clear HP HD.
      induction HE as [|[k x] [k' y] l m0 [Hk Hxy] _ IHl]; [constructor|]. cbn [fst snd] in *. subst k'.
      inversion IH as [|? ? Hx IH']; subst. cbn [forallb snd] in *.
      apply andb_prop in HF. destruct HF as [H1 H2]. apply andb_prop in H1. destruct H1 as [H0 H1].
      constructor; [rewrite H0, (Hx y t Hxy H1); reflexivity|apply IHl; assumption].
  - apply veq_VTuple in HE. destruct HE as (m & -> & HE).
    destruct t as [| | | | | | | |ts| |]; try discriminate HT. rewrite has_type_VTuple in *.
    revert ts HT. induction HE as [|x y l m Hxy _ IHl]; intros [|t' ts] HT; try discriminate HT; [reflexivity|].
    inversion IH as [|? ? Hx IH']; subst. cbn [has_type_tuple] in *.
    apply andb_prop in HT. destruct HT as [H1 H2]. rewrite (Hx y t' Hxy H1), (IHl IH' ts H2). reflexivity.
Qed.

Theorem bounded_veq a : forall b, veq a b -> bounded a = true -> bounded b = true.
Proof.
  induction a as [|b0|z|b0|s| |v IH|l IH|l IH|l IH|z] using value_ind'; intros b HE HB;
    try (cbn [veq] in HE; subst b; exact HB).
  - apply veq_VSome in HE. destruct HE as (y & -> & HE). cbn [bounded] in *. apply (IH y HE HB).
  - apply veq_VVec in HE. destruct HE as (m & -> & HE). cbn [bounded] in *.
    assert (L : lenN m = lenN l) by (unfold lenN; rewrite (Forall2_length _ _ _ HE); reflexivity).
    apply andb_prop in HB. destruct HB as [H1 H2]. rewrite L, H1. cbn [andb]. clear L H1.
    induction HE as [|x y l m Hxy _ IHl]; [reflexivity|]. inversion IH as [|? ? Hx IH']; subst.
    cbn [forallb] in *. apply andb_prop in H2. destruct H2 as [A B]. rewrite (Hx y Hxy A), (IHl IH' B). reflexivity.
  - apply veq_VMap in HE. destruct HE as (m & m0 & -> & HP & HE). cbn [bounded] in *.
    assert (L : lenN m = lenN l).
    { unfold lenN. rewrite <- (Permutation_length HP), (Forall2_length _ _ _ HE). reflexivity. }
    apply andb_prop in HB. destruct HB as [H1 H2]. rewrite L, H1. cbn [andb]. clear L H1.
    apply forallb_Forall'. apply (Permutation_Forall HP). clear HP.
    induction HE as [|[k x] [k' y] l m0 [Hk Hxy] _ IHl]; [constructor|]. cbn [fst snd] in *. subst k'.
    inversion IH as [|? ? Hx IH']; subst. cbn [forallb snd] in *.
    apply andb_prop in H2. destruct H2 as [A B]. apply andb_prop in A. destruct A as [A0 A1].
    constructor; [rewrite A0, (Hx y Hxy A1); reflexivity|apply IHl; assumption].
  - apply veq_VTuple in HE. destruct HE as (m & -> & HE). cbn [bounded] in *.
    assert (L : lenN m = lenN l) by (unfold lenN; rewrite (Forall2_length _ _ _ HE); reflexivity).
    apply andb_prop in HB. destruct HB as [H1 H2]. rewrite L, H1. cbn [andb]. clear L H1.
    induction HE as [|x y l m Hxy _ IHl]; [reflexivity|]. inversion IH as [|? ? Hx IH']; subst.
    cbn [forallb] in *. apply andb_prop in H2. destruct H2 as [A B]. rewrite (Hx y Hxy A), (IHl IH' B). reflexivity.
Qed.

(** The pointer width only matters for [TInt]: on writable types [has_type_w W] is [has_type]. *)
Theorem has_type_w_writable W v : forall t, writable t = true -> has_type_w W v t = has_type v t.
Proof.
  unfold has_type.
  induction v as [|b|z|b|s| |v IH|l IH|l IH|l IH|z] using value_ind'; intros t HWr;
    try (destruct t; reflexivity).
  - destruct t; try reflexivity. cbn [has_type_w writable] in *. apply IH, HWr.
  - assert (G : forall u, writable u = true ->
              forallb (fun x => has_type_w W x u) l = forallb (fun x => has_type_w 64 x u) l).
    { intros u Hu. induction IH as [|x l Hx _ IHl]; [reflexivity|]. cbn [forallb]. rewrite (Hx u Hu), IHl. reflexivity. }
    destruct t; try reflexivity; cbn [has_type_w writable] in *; rewrite (G t HWr); reflexivity.
  - destruct t; try reflexivity. cbn [has_type_w writable] in *. f_equal.
    induction IH as [|[k x] l Hx _ IHl]; [reflexivity|]. cbn [forallb snd] in *. rewrite (Hx t HWr), IHl. reflexivity.
  - destruct t; try reflexivity. discriminate HWr.
  - destruct t; try reflexivity. discriminate HWr.
Qed.

(** * The executable comparison [veqb] is sound for [veq] (maps with pairwise distinct keys) *)

Theorem veqb_veq a : forall b W t,
  veqb a b = true -> has_type_w W a t = true -> has_type_w W b t = true -> veq a b.
Proof.
  induction a as [|b0|z|b0|s| |v IH|l IH|l IH|l IH|z] using value_ind'; intros b W t HE HA HB.
  - destruct b; try discriminate HE. reflexivity.
  - destruct b; try discriminate HE. cbn [veqb veq] in *. apply eqb_prop in HE. congruence.
  - destruct b; try discriminate HE. cbn [veqb veq] in *. apply Z.eqb_eq in HE. congruence.
  - destruct b; try discriminate HE. cbn [veqb veq] in *. apply N.eqb_eq in HE. congruence.
  - destruct b; try discriminate HE. cbn [veqb veq] in *. apply beq_true in HE. congruence.
  - destruct b; try discriminate HE. reflexivity.
  - destruct b; try discriminate HE. cbn [veqb veq] in *. destruct t; try discriminate HA.
    apply (IH b W t HE HA HB).
  - destruct b as [| | | | | | |m| | |]; try discriminate HE. cbn [veqb] in HE.
    apply veq_VVec. exists m. split; [reflexivity|].
    assert (exists u, forallb (fun x => has_type_w W x u) l = true /\ forallb (fun x => has_type_w W x u) m = true) as (u & HL & HM).
    { destruct t; try discriminate HA; cbn [has_type_w] in *.
      - eauto.
      - apply andb_prop in HA. apply andb_prop in HB. exists t. split; [apply HA|apply HB]. }
    clear HA HB. revert m HE HM. induction IH as [|x l Hx _ IHl]; intros [|y m] HE HM; try discriminate HE; [constructor|].
    cbn [forallb] in *. apply andb_prop in HE. apply andb_prop in HL. apply andb_prop in HM.
    constructor; [apply (Hx y W u); tauto|apply IHl; tauto].
  - destruct b as [| | | | | | | |m| |]; try discriminate HE. cbn [veqb] in HE.
    destruct t; try discriminate HA. cbn [has_type_w] in *.
    apply andb_prop in HE. destruct HE as [HLen HE]. apply N.eqb_eq in HLen.
    apply andb_prop in HA. destruct HA as [DA FA]. apply andb_prop in HB. destruct HB as [DB FB].
    apply distinctb_NoDup in DA. apply distinctb_NoDup in DB.
    (* the matching entries of [m], in the order of [l] *)
    assert (EX : exists m0, Forall2 pair_eq l m0 /\ incl m0 m).
    { clear DA HLen. rewrite forallb_forall in FA, FB. revert HE FA.
      induction IH as [|[k x] l Hx _ IHl]; intros HE FA; [exists []; split; [constructor|intros ? []]|].
      cbn [forallb] in HE. apply andb_prop in HE. destruct HE as [H1 H2].
      apply existsb_exists in H1. destruct H1 as (q & Hq & H1). apply andb_prop in H1. destruct H1 as [K V].
      apply beq_true in K.
      destruct IHl as (m0 & F2 & INC); [exact H2|intros y Hy; apply FA; right; exact Hy|].
      exists (q :: m0). split.
      - constructor; [|exact F2]. split; [exact K|]. cbn [snd] in *.
        pose proof (FA _ (or_introl eq_refl)) as TA. cbn in TA. apply andb_prop in TA.
        pose proof (FB _ Hq) as TB. destruct q as [k' y]. apply andb_prop in TB. cbn [snd] in *.
        apply (Hx y W t); tauto.
      - intros p [<-|Hp]; [exact Hq|apply INC; exact Hp]. }
    destruct EX as (m0 & F2 & INC). apply veq_VMap. exists m, m0. split; [reflexivity|]. split; [|exact F2].
    assert (ND0 : NoDup (map fst m0)) by (rewrite <- (Forall2_pair_keys _ _ F2); exact DA).
    apply NoDup_Permutation_bis.
    + apply (NoDup_map_inv fst). exact ND0.
    + apply Nat.eq_le_incl. rewrite <- (Forall2_length _ _ _ F2). symmetry. apply Nnat.Nat2N.inj. exact HLen.
    + exact INC.
  - destruct b as [| | | | | | | | |m|]; try discriminate HE. cbn [veqb] in HE.
    apply veq_VTuple. exists m. split; [reflexivity|].
    destruct t as [| | | | | | | |ts| |]; try discriminate HA. rewrite has_type_VTuple in *.
    revert m ts HE HA HB. induction IH as [|x l Hx _ IHl]; intros [|y m] [|t' ts] HE HA HB;
      try discriminate HE; try discriminate HA; try discriminate HB; [constructor|].
    cbn [has_type_tuple] in *. apply andb_prop in HE. apply andb_prop in HA. apply andb_prop in HB.
    constructor; [apply (Hx y W t'); tauto|apply (IHl m ts); tauto].
  - destruct b; try discriminate HE. cbn [veqb veq] in *. apply Z.eqb_eq in HE. congruence.
Qed.
