(** Model of api/src/read.rs [impl_deserialize_for_int!]:
      value.as_number().and_then(|n|
        if n.trunc() == n && n >= <$ty>::MIN as f64 && n <= <$ty>::MAX as f64 { Some(n as $ty) } else { None })
    on 64-bit patterns, for the ten target types; [W] is the pointer width for usize/isize. *)
From Coq Require Import NArith ZArith Bool.
From SFV Require Import Base.F64.

Inductive intty := I8 | I16 | I32 | I64 | U8 | U16 | U32 | U64 | Usize | Isize.

Definition int_bits (W : N) (t : intty) : N :=
  match t with I8 | U8 => 8 | I16 | U16 => 16 | I32 | U32 => 32 | I64 | U64 => 64 | Usize | Isize => W end%N.
Definition int_signed (t : intty) : bool :=
  match t with I8 | I16 | I32 | I64 | Isize => true | _ => false end.
Definition int_min (W : N) (t : intty) : Z :=
  if int_signed t then (- 2 ^ (Z.of_N (int_bits W t) - 1))%Z else 0%Z.
Definition int_max (W : N) (t : intty) : Z :=
  if int_signed t then (2 ^ (Z.of_N (int_bits W t) - 1) - 1)%Z else (2 ^ Z.of_N (int_bits W t) - 1)%Z.

Definition deser_int (W : N) (t : intty) (bits : N) : option Z :=
  let n := decode bits in
  if f_eq (f_trunc n) n
     && f_le (decode (of_int (int_min W t))) n
     && f_le n (decode (of_int (int_max W t)))
  then Some (f_cast (int_min W t) (int_max W t) n)
  else None.
