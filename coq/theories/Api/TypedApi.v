(** MODEL (executable): the Deserialize impls of api/src/read.rs written against the ABI calls only.

    [Typed.deser] reads a node of the eager document directly.  Here the same impls are transcribed
    one level lower: a [Value] is (the index [k] of) an earlier output of the read ABI -- the NanBox
    it carries is that output's [answer] -- and every access to the document is one call
    [ReadSpec.spec_exec] answers ([RIdx] = get_at_index, [RKey] = get_obj_key_at_index,
    [RLen] = get_val_len, [RStr] = get_utf8_str_addr + copy), threaded through the call history
    exactly as [ReadSpec.spec_run] does.  [TypedApiProofs.deser_via_spec] shows both agree, so
    [Typed.deser] inspects the document solely through the Value-level calls; with Properties/C01
    the lazy reader gives the same outputs for the same calls on the encoded document. *)
From Coq Require Import NArith ZArith List Bool.
From SFV Require Import Base.Bytes Base.F64 Api.IntDeser Gen.NanBoxGen Msgpack.Wire Read.Lazy Read.ReadRun
  Read.ReadSpec Api.Typed.
Import ListNotations.
Open Scope N_scope.

(** Outputs so far and number of roots fetched (the state of [ReadSpec.spec_step]). *)
Definition hist : Type := (list out * N)%type.
Definition hinit : hist := ([], 0).

Section M.
Variable W : N.
Variable w : wire.      (* the document behind the ABI *)

(** One ABI call: the index its output gets in the history, and the new history. *)
Definition call (st : hist) (op : rop) : N * hist := (lenN (fst st), spec_step w st op).

(** The NanBox of Value [k], decoded. *)
Definition ans_at (st : hist) (k : N) : answer :=
  match nthN (fst st) k with Some (OVal a) => a | _ => AErr 0 end.
Definition out_at (st : hist) (k : N) : out :=
  match nthN (fst st) k with Some o => o | None => OVal (AErr 0) end.

Definition v_is_null (st : hist) (k : N) : bool :=
  match ans_at st k with ANull => true | _ => false end.
Definition v_as_bool (st : hist) (k : N) : option bool :=
  match ans_at st k with ABool b => Some b | _ => None end.
Definition v_as_number (st : hist) (k : N) : option N :=
  match ans_at st k with ANum n => Some n | _ => None end.

(** [as_string]: copy the bytes out ([None] in the [OBytes None] case stands for reading from
    address 0, which no handle produced by the reader leads to). *)
Definition v_as_string (st : hist) (k : N) : option (list N) * hist :=
  match ans_at st k with
  | AStr _ _ =>
      let '(j, st') := call st (RStr (Some k)) in
      (match out_at st' j with OBytes (Some s) => Some s | _ => None end, st')
  | _ => (None, st)
  end.

(** The NanBox stores [min(len, MAX_VALUE_LENGTH)]; at the maximum the true length is fetched
    with get_val_len ([OLen None] = usize::MAX). *)
Definition v_len (st : hist) (k : N) (len : N) : N * hist :=
  if MAX_VALUE_LENGTH W <=? len then
    let '(j, st') := call st (RLen (Some k)) in
    (match out_at st' j with OLen (Some n) => n | _ => 2 ^ W - 1 end, st')
  else (len, st).

Definition v_array_len (st : hist) (k : N) : option N * hist :=
  match ans_at st k with
  | AArr _ len => let '(n, st') := v_len st k len in (len_opt W n, st')
  | _ => (None, st)
  end.
Definition v_obj_len (st : hist) (k : N) : option N * hist :=
  match ans_at st k with
  | AObj _ len => let '(n, st') := v_len st k len in (len_opt W n, st')
  | _ => (None, st)
  end.

(** [get_at_index]: the new Value *)
Definition v_get_at_index (st : hist) (k i : N) : N * hist := call st (RIdx (Some k) i).

Definition v_get_obj_key_at_index (st : hist) (k i : N) : option (list N) * hist :=
  match ans_at st k with
  | AObj _ _ => let '(j, st') := call st (RKey (Some k) i) in v_as_string st' j
  | _ => (None, st)
  end.

(** [for i in 0..len { vec.push(T::deserialize(&value.get_at_index(i))?) }]; [n] iterations left *)
Fixpoint loop_vec (f : N -> hist -> option value * hist) (k : N) (n : nat) (i : N) (st : hist)
  : option (list value) * hist :=
  match n with
  | O => (Some [], st)
  | S n' =>
      let '(j, st1) := v_get_at_index st k i in
      match f j st1 with
      | (Some v, st2) =>
          match loop_vec f k n' (i + 1) st2 with
          | (Some vs, st3) => (Some (v :: vs), st3)
          | (None, st3) => (None, st3)
          end
      | (None, st2) => (None, st2)
      end
  end.

(** [for i in 0..obj_len { key = get_obj_key_at_index(i).ok_or(..)?; value = get_at_index(i);
                          map.insert(key, T::deserialize(&value)?) }] *)
Fixpoint loop_map (f : N -> hist -> option value * hist) (k : N) (n : nat) (i : N)
    (acc : list (list N * value)) (st : hist) : option (list (list N * value)) * hist :=
  match n with
  | O => (Some acc, st)
  | S n' =>
      match v_get_obj_key_at_index st k i with
      | (None, st1) => (None, st1)
      | (Some key, st1) =>
          let '(j, st2) := v_get_at_index st1 k i in
          match f j st2 with
          | (Some v, st3) => loop_map f k n' (i + 1) (map_insert key v acc) st3
          | (None, st3) => (None, st3)
          end
      end
  end.

Definition deser_num_m (i : intty) (st : hist) (k : N) : option Z :=
  match v_as_number st k with Some n => deser_int W i n | None => None end.

Fixpoint deser_m (t : ty) (k : N) (st : hist) {struct t} : option value * hist :=
  match t with
  | TUnit => (if v_is_null st k then Some VUnit else None, st)
  | TBool => (option_map VBool (v_as_bool st k), st)
  | TI32 => (option_map VI32 (deser_num_m IntDeser.I32 st k), st)
  | TInt i => (option_map VInt (deser_num_m i st k), st)
  | TF64 => (option_map VF64 (v_as_number st k), st)
  | TStr => let '(r, st') := v_as_string st k in (option_map VStr r, st')
  | TOpt u =>
      if v_is_null st k then (Some VNone, st)
      else let '(r, st') := deser_m u k st in (option_map VSome r, st')
  | TVec u =>
      match v_array_len st k with
      | (Some len, st1) =>
          let '(r, st2) := loop_vec (deser_m u) k (N.to_nat len) 0 st1 in (option_map VVec r, st2)
      | (None, st1) => (None, st1)
      end
  | TMap u =>
      match v_obj_len st k with
      | (Some len, st1) =>
          let '(r, st2) := loop_map (deser_m u) k (N.to_nat len) 0 [] st1 in (option_map VMap r, st2)
      | (None, st1) => (None, st1)
      end
  | TTuple ts =>
      match v_array_len st k with
      | (Some len, st1) =>
          if negb (len =? lenN ts) then (None, st1)
          else
            let '(r, st2) :=
              (fix go (ts : list ty) (i : N) (st : hist) : option (list value) * hist :=
                 match ts with
                 | [] => (Some [], st)
                 | t' :: ts' =>
                     let '(j, sta) := v_get_at_index st k i in
                     match deser_m t' j sta with
                     | (Some v, stb) =>
                         match go ts' (i + 1) stb with
                         | (Some vs, stc) => (Some (v :: vs), stc)
                         | (None, stc) => (None, stc)
                         end
                     | (None, stb) => (None, stb)
                     end
                 end) ts 0 st1 in
            (option_map VTuple r, st2)
      | (None, st1) => (None, st1)
      end
  | TArr n u =>
      match v_array_len st k with
      | (Some len, st1) =>
          if negb (len =? n) then (None, st1)
          else let '(r, st2) := loop_vec (deser_m u) k (N.to_nat len) 0 st1 in (option_map VVec r, st2)
      | (None, st1) => (None, st1)
      end
  end.

(** [T::deserialize(&context.input_get()?)] on a fresh history. *)
Definition deser_root (t : ty) : option value * hist :=
  let '(k, st) := call hinit RRoot in deser_m t k st.

End M.
