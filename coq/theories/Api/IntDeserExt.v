(** Hand-written support for the T8 translation of the macro body of [impl_deserialize_for_int!]
    (api/src/read.rs -> Gen/IntDeserGen.v): the value being deserialised is represented by what
    [Value::as_number] returns for it (the decoded double of a Number, [None] for any other kind), and
    [Error::InvalidType] by a code. *)
From Coq Require Import NArith.
From SFV Require Import Base.F64.
Open Scope N_scope.

Record Value := mkValue { Value_n : option fval }.
Definition value_as_number (W : N) (v : Value) : option fval := Value_n v.
Definition APIERR_InvalidType : N := 1.
