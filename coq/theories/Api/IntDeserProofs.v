(** Proofs about the integer deserialisation macro model [SFV.Api.IntDeser]. *)
From Coq Require Import NArith ZArith Lia Bool ZifyN ZifyBool.
From SFV Require Import Base.F64 Base.F64Proofs Api.IntDeser.
Open Scope Z_scope.

Lemma f_le_repr n1 m1 e1 z1 n2 m2 e2 z2 :
  repr n1 m1 e1 z1 -> repr n2 m2 e2 z2 -> f_le (FFin n1 m1 e1) (FFin n2 m2 e2) = (z1 <=? z2).
Proof.
  intros R1 R2. cbn [f_le]. rewrite (fin_cmp_repr _ _ _ _ _ _ _ _ R1 R2). reflexivity.
Qed.

(** The macro, as a function of the exact integer value of its input: [cmin]/[cmax] are the
    values of the two range constants after their conversion to f64. *)
Lemma deser_int_char W t bits cmin cmax :
  exact_int (of_int (int_min W t)) = Some cmin ->
  exact_int (of_int (int_max W t)) = Some cmax ->
  deser_int W t bits =
  match exact_int bits with
  | Some z => if (cmin <=? z) && (z <=? cmax)
              then Some (Z.max (int_min W t) (Z.min (int_max W t) z)) else None
  | None => None
  end.
Proof.
  intros Hmin Hmax.
  destruct (exact_int_Some _ _ Hmin) as (n1 & m1 & e1 & D1 & X1).
  destruct (exact_int_Some _ _ Hmax) as (n2 & m2 & e2 & D2 & X2).
  apply exact_fin_Some in X1, X2. destruct X1 as [R1 _], X2 as [R2 _].
  unfold deser_int. rewrite D1, D2, exact_int_decode.
  destruct (decode bits) as [|s|n m e].
  - reflexivity.
  - destruct s; cbn [f_trunc f_eq f_le Bool.eqb andb]; reflexivity.
  - rewrite f_eq_trunc_fin. destruct (exact_fin n m e) as [z|] eqn:X; [|reflexivity].
    apply exact_fin_Some in X. destruct X as [R P].
    rewrite (f_le_repr _ _ _ _ _ _ _ _ R1 R), (f_le_repr _ _ _ _ _ _ _ _ R R2).
    cbn [andb f_cast]. rewrite P. reflexivity.
Qed.

(** [MIN as f64] is exact for all ten types; [MAX as f64] is exact except for the 64-bit types,
    where it rounds up by one (to 2^63 resp. 2^64). *)
Lemma range_consts W t : (W = 32 \/ W = 64)%N ->
  exact_int (of_int (int_min W t)) = Some (int_min W t) /\
  (exact_int (of_int (int_max W t)) = Some (int_max W t) \/
   (int_bits W t = 64%N /\ exact_int (of_int (int_max W t)) = Some (int_max W t + 1))).
Proof. intros [->| ->]; destruct t; vm_compute; auto. Qed.

(** The class of inputs on which the macro is wrong. *)
Definition known (W : N) (t : intty) (bits : N) : Prop :=
  int_bits W t = 64%N /\ exact_int bits = Some (int_max W t + 1).

Lemma deser_int_exact_or_fails W t bits :
  (W = 32 \/ W = 64)%N -> (bits < 2^64)%N -> ~ known W t bits ->
  match deser_int W t bits with
  | Some x => exact_int bits = Some x /\ int_min W t <= x <= int_max W t
  | None => forall x, int_min W t <= x <= int_max W t -> exact_int bits <> Some x
  end.
Proof.
  intros HW _ NK. destruct (range_consts W t HW) as (Hmin & Hmax). unfold known in NK.
  destruct Hmax as [Hmax|(Hb & Hmax)]; rewrite (deser_int_char _ _ _ _ _ Hmin Hmax);
    clear Hmin Hmax; set (lo := int_min W t) in *; set (hi := int_max W t) in *; clearbody lo hi;
    destruct (exact_int bits) as [z|]; try (intros x _; discriminate).
  - destruct (Z.leb_spec lo z); destruct (Z.leb_spec z hi); cbn [andb].
    + split; [f_equal|]; lia.
    + intros x Hx E. injection E as E. lia.
    + intros x Hx E. injection E as E. lia.
    + intros x Hx E. injection E as E. lia.
  - assert (z <> hi + 1) as NE by (intros ->; apply NK; auto).
    destruct (Z.leb_spec lo z); destruct (Z.leb_spec z (hi + 1)); cbn [andb].
    + split; [f_equal|]; lia.
    + intros x Hx E. injection E as E. lia.
    + intros x Hx E. injection E as E. lia.
    + intros x Hx E. injection E as E. lia.
Qed.

Lemma known_iff W t bits : (W = 32 \/ W = 64)%N -> (bits < 2^64)%N ->
  (known W t bits <->
   (t = I64 /\ bits = 0x43E0000000000000%N) \/
   (t = U64 /\ bits = 0x43F0000000000000%N) \/
   (W = 64%N /\ t = Isize /\ bits = 0x43E0000000000000%N) \/
   (W = 64%N /\ t = Usize /\ bits = 0x43F0000000000000%N)).
Proof.
  intros HW Hb. unfold known. split.
  - intros [B X].
    assert (S : forall p, (53 <= p <= 1023) -> exact_int bits = Some (2 ^ p) ->
                          bits = (Z.to_N (p + 1023) * 2^52)%N)
      by (intros p; apply exact_int_pow2_inv; assumption).
    destruct HW as [->| ->]; destruct t; try discriminate B.
    + left. split; [reflexivity|]. apply (S 63); [lia|exact X].
    + right; left. split; [reflexivity|]. apply (S 64); [lia|exact X].
    + left. split; [reflexivity|]. apply (S 63); [lia|exact X].
    + right; left. split; [reflexivity|]. apply (S 64); [lia|exact X].
    + right; right; right. repeat split. apply (S 64); [lia|exact X].
    + right; right; left. repeat split. apply (S 63); [lia|exact X].
  - intros [(-> & ->)|[(-> & ->)|[(-> & -> & ->)|(-> & -> & ->)]]];
      (destruct HW as [->| ->] || idtac); vm_compute; split; reflexivity.
Qed.

(** The defect: 2^63 is accepted as an i64 and clamped to i64::MAX. *)
Lemma deser_int_refuted : exists t bits, (bits < 2^64)%N /\ known 64 t bits /\
  exists x, deser_int 64 t bits = Some x /\ exact_int bits <> Some x.
Proof.
  exists I64, 0x43E0000000000000%N. split; [reflexivity|]. split; [split; reflexivity|].
  exists 9223372036854775807. split; [vm_compute; reflexivity|]. vm_compute. discriminate.
Qed.

(** Every member of the known class is accepted and clamped to MAX (so the class is exactly
    the set of wrong answers, not an over-approximation). *)
Lemma known_all_wrong W t bits : (W = 32 \/ W = 64)%N -> (bits < 2^64)%N -> known W t bits ->
  deser_int W t bits = Some (int_max W t) /\ exact_int bits = Some (int_max W t + 1).
Proof.
  intros HW Hb K. pose proof K as [_ X]. split; [|exact X].
  apply (known_iff W t bits HW Hb) in K.
  destruct K as [(-> & ->)|[(-> & ->)|[(-> & -> & ->)|(-> & -> & ->)]]];
    (destruct HW as [->| ->] || idtac); vm_compute; reflexivity.
Qed.
