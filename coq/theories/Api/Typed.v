(** MODEL (executable) of the typed layer of the api crate:
      api/src/write.rs : trait Serialize and its impls, Context::write_object / write_array
      api/src/read.rs  : trait Deserialize and its impls
    over the Value API of api/src/lib.rs (is_null, as_bool, as_number, as_string, array_len,
    obj_len, get_at_index, get_obj_key_at_index).

    A Rust type of the supported family is a [ty], a Rust value of such a type a [value]
    (no dependent types: [has_type] relates the two).  A [HashMap] has no order: a [VMap] lists its
    entries in the order an iteration happens to yield them; [ser] emits them in that order, the
    theorems quantify over every order ([veq] / [veqb]: equality up to the order of map entries).

    Write side: [ser v] is the sequence of ABI calls [v.serialize(ctx)] issues if none fails;
    every call site uses [?] (or returns the status), so the first non-Ok status aborts the whole
    serialisation: [ser_run] runs the calls through [Writer.step] and stops there.

    Read side: [deser W t w] is [T::deserialize(&value)] where [value] is a Value standing for the
    node [w] of the EAGERLY decoded document (Read/ReadSpec.v gives the answers of the Value-level
    calls on a wire node: [ans_of], [num_of], [sel]; Properties/C01 shows the lazy reader returns
    exactly those).  [None] = [Err(Error::InvalidType)], the only error there is.

    Not modelled: [char], [BTreeMap] (same code as HashMap), [impl Deserialize for Value]. *)
From Coq Require Import NArith ZArith List Bool.
From SFV Require Import Base.Bytes Base.F64 Api.IntDeser Msgpack.Tree Msgpack.Wire Write.Writer
  Read.ReadSpec.
Import ListNotations.
Open Scope N_scope.

(** * Types and values *)

(** [TI32] is [i32] (the only integer with a Serialize impl; read and write side); [TInt i] is
    one of the ten integer targets of [impl_deserialize_for_int!] (read side only);
    [TTuple] (arity 2..=10) and [TArr n] ([T; n], n in 0..=32) exist on the read side only
    (a [TArr] value is written through its slice). *)
Inductive ty :=
| TUnit | TBool | TI32 | TF64 | TStr
| TOpt (t : ty) | TVec (t : ty) | TMap (t : ty)
| TTuple (l : list ty) | TArr (n : N) (t : ty) | TInt (i : intty).

Inductive value :=
| VUnit | VBool (b : bool) | VI32 (z : Z) | VF64 (bits : N) | VStr (s : list N)
| VNone | VSome (v : value)
| VVec (l : list value)                   (* Vec<T>, &[T], [T; n] *)
| VMap (l : list (list N * value))        (* HashMap<String, T>, entries in iteration order *)
| VTuple (l : list value)
| VInt (z : Z).                           (* a value of one of the ten integer types *)

Definition bytes_ok (s : list N) : bool := forallb (fun b => b <? 256) s.

(** Pairwise distinct keys. *)
Fixpoint distinctb (ks : list (list N)) : bool :=
  match ks with
  | [] => true
  | k :: r => negb (existsb (beq k) r) && distinctb r
  end.

(** [v] is a value of type [t]; [W] (pointer width) only matters for [TInt Usize/Isize]. *)
Fixpoint has_type_w (W : N) (v : value) (t : ty) {struct v} : bool :=
  match v, t with
  | VUnit, TUnit => true
  | VBool _, TBool => true
  | VI32 z, TI32 => ((- 2 ^ 31 <=? z) && (z <? 2 ^ 31))%Z
  | VF64 b, TF64 => b <? 2 ^ 64
  | VStr s, TStr => bytes_ok s
  | VNone, TOpt _ => true
  | VSome x, TOpt u => has_type_w W x u
  | VVec l, TVec u => forallb (fun x => has_type_w W x u) l
  | VVec l, TArr n u => (lenN l =? n) && forallb (fun x => has_type_w W x u) l
  | VMap l, TMap u =>
      distinctb (map fst l)
      && forallb (fun kv => let '(k, x) := kv in bytes_ok k && has_type_w W x u) l
  | VTuple l, TTuple ts =>
      (fix go (l : list value) (ts : list ty) : bool :=
         match l, ts with
         | [], [] => true
         | x :: l', t' :: ts' => has_type_w W x t' && go l' ts'
         | _, _ => false
         end) l ts
  | VInt z, TInt i => ((int_min W i <=? z) && (z <=? int_max W i))%Z
  | _, _ => false
  end.

Definition has_type (v : value) (t : ty) : bool := has_type_w 64 v t.

(** Size scope of the theorems: every collection has fewer than 2^31 entries, every string fewer
    than 2^32 bytes, every [VInt] is exactly representable as a double (|z| <= 2^53). *)
Fixpoint bounded (v : value) : bool :=
  match v with
  | VStr s => lenN s <? 2 ^ 32
  | VSome x => bounded x
  | VVec l | VTuple l => (lenN l <? 2 ^ 31) && forallb bounded l
  | VMap l =>
      (lenN l <? 2 ^ 31)
      && forallb (fun kv => let '(k, x) := kv in (lenN k <? 2 ^ 32) && bounded x) l
  | VInt z => (Z.abs z <=? 2 ^ 53)%Z
  | _ => true
  end.

(** There is a Serialize impl. *)
Fixpoint writable (t : ty) : bool :=
  match t with
  | TUnit | TBool | TI32 | TF64 | TStr => true
  | TOpt u | TVec u | TMap u | TArr _ u => writable u
  | TTuple _ | TInt _ => false
  end.

(** There is a Deserialize impl (arities). *)
Fixpoint readable (t : ty) : bool :=
  match t with
  | TOpt u | TVec u | TMap u => readable u
  | TArr n u => (n <=? 32) && readable u
  | TTuple ts => (2 <=? lenN ts) && (lenN ts <=? 10) && forallb readable ts
  | _ => true
  end.

(** A type one of whose values is written as null. *)
Definition nullable (t : ty) : bool :=
  match t with TUnit | TOpt _ => true | _ => false end.

(** No [Option<U>] with [U] nullable anywhere inside ([Some(())], [Some(None)] are written as
    null and read back as [None]). *)
Fixpoint opt_ok (t : ty) : bool :=
  match t with
  | TOpt u => negb (nullable u) && opt_ok u
  | TVec u | TMap u | TArr _ u => opt_ok u
  | TTuple ts => forallb opt_ok ts
  | _ => true
  end.

(** Scope of the round trip through the typed Serialize impls. *)
Definition ser_ok (t : ty) : bool := writable t && opt_ok t.

(** * Write side: api/src/write.rs *)

(** The ABI calls of [v.serialize(ctx)], in order (if none fails):
      bool -> write_bool([value as u32]); () and None -> write_null; i32 -> write_i32;
      f64 -> write_f64; str/String -> write_utf8_str; Some(v) -> v.serialize;
      Vec / slice -> write_array(.., self.len()): new_array(len), the items, finish_array;
      HashMap -> write_object(.., self.len()): new_object(len), per entry in iteration order the
      key (as a str) then the value, finish_object.
    [VTuple], [VInt]: no Serialize impl (excluded by [writable]); no calls. *)
Fixpoint ser (v : value) : list wop :=
  match v with
  | VUnit | VNone => [ONull]
  | VBool b => [OBool (if b then 1 else 0)]
  | VI32 z => [OI32 z]
  | VF64 b => [OF64 b]
  | VStr s => [OStr s]
  | VSome x => ser x
  | VVec l => OStartArr (lenN l) :: flat_map ser l ++ [OFinArr]
  | VMap l =>
      OStartObj (lenN l)
      :: flat_map (fun kv => let '(k, x) := kv in OStr k :: ser x) l ++ [OFinObj]
  | VTuple _ | VInt _ => []
  end.

(** Run the calls; the first status other than Ok is returned at once ([?] at every level of
    write_array / write_object / the item loops), later calls are not issued. *)
Fixpoint ser_run (W : N) (trap : bool) (ops : list wop) (c : wctx) : wctx * wres :=
  match ops with
  | [] => (c, WOk)
  | op :: r =>
      let '(c', st) := step W trap c op in
      match st with WOk => ser_run W trap r c' | _ => (c', st) end
  end.

(** [value.serialize(&mut ctx)] on a fresh context, then the native finalize. *)
Definition serialize (W : N) (trap : bool) (v : value) : wres * (N * list N) :=
  let '(c, st) := ser_run W trap (ser v) init in (st, finalize c).

(** * The document a value describes *)

(** MessagePack tree of [v]: () and None are nil, [Some v] is [v], sequences are arrays, maps
    are maps (entries in the order listed), integers are integers, doubles are float64. *)
Fixpoint tree_of (v : value) : tree :=
  match v with
  | VUnit | VNone => TNull
  | VBool b => Tree.TBool b
  | VI32 z | VInt z => Tree.TInt z
  | VF64 b => Tree.TF64 b
  | VStr s => Tree.TStr s
  | VSome x => tree_of x
  | VVec l | VTuple l => Tree.TArr (map tree_of l)
  | VMap l => TObj (map (fun kv => let '(k, x) := kv in (k, tree_of x)) l)
  end.

Definition is_finite (bits : N) : bool := negb (f_expo bits =? 2047).

(** [serde_json::to_value] of the Rust value (serde's impls: unit and None -> Null, Some(v) -> v,
    integers -> Number, f64 -> Number if finite and Null otherwise, String -> String,
    Vec / slice / array / tuple -> Array, HashMap -> Object), as a tree
    (JSON numbers: integer -> [TInt], float -> [TF64]; the entries of an Object are listed in
    the order of the [VMap]; a JSON object has no order). *)
Fixpoint json_of (v : value) : tree :=
  match v with
  | VUnit => TNull
  | VNone => TNull
  | VSome x => json_of x
  | VBool b => Tree.TBool b
  | VI32 z => Tree.TInt z
  | VInt z => Tree.TInt z
  | VF64 b => if is_finite b then Tree.TF64 b else TNull
  | VStr s => Tree.TStr s
  | VVec l => Tree.TArr (map json_of l)
  | VTuple l => Tree.TArr (map json_of l)
  | VMap l => TObj (map (fun kv => let '(k, x) := kv in (k, json_of x)) l)
  end.

(** Every double inside is finite. *)
Fixpoint finite_val (v : value) : bool :=
  match v with
  | VF64 b => is_finite b
  | VSome x => finite_val x
  | VVec l | VTuple l => forallb finite_val l
  | VMap l => forallb (fun kv => let '(k, x) := kv in finite_val x) l
  | _ => true
  end.

(** No double inside is a NaN. *)
Fixpoint nan_free (v : value) : bool :=
  match v with
  | VF64 b => negb (is_nan b)
  | VSome x => nan_free x
  | VVec l | VTuple l => forallb nan_free l
  | VMap l => forallb (fun kv => let '(k, x) := kv in nan_free x) l
  | _ => true
  end.

(** The formats the encoders of Rmp.v choose. *)
Definition int_fmt (z : Z) : intfmt :=
  if ((-32 <=? z) && (z <? 0))%Z then NFix
  else if ((-128 <=? z) && (z <? -32))%Z then Wire.I8
  else if ((-32768 <=? z) && (z <? -128))%Z then Wire.I16
  else if ((-2147483648 <=? z) && (z <? -32768))%Z then Wire.I32
  else if (z <? -2147483648)%Z then Wire.I64
  else if ((0 <=? z) && (z <? 128))%Z then PFix
  else if (z <? 256)%Z then Wire.U8
  else if (z <? 65536)%Z then Wire.U16
  else if (z <? 4294967296)%Z then Wire.U32
  else Wire.U64.

Definition str_fmt (n : N) : strfmt :=
  if n <? 32 then FixStr else if n <? 256 then Str8 else if n <? 65536 then Str16 else Str32.

Definition len_fmt (n : N) : lenfmt :=
  if n <? 16 then LFix else if n <? 65536 then L16 else L32.

Definition canon_str (s : list N) : wire := WStr (str_fmt (lenN s)) s.

(** The wire tree of the canonical encoding: [enc (canon t) = enc_tree t] for well-formed [t]. *)
Fixpoint canon (t : tree) : wire :=
  match t with
  | TNull => WNil
  | Tree.TBool b => WBool b
  | Tree.TInt z => WInt (int_fmt z) z
  | Tree.TF64 b => WF64 b
  | Tree.TStr s => canon_str s
  | Tree.TArr l => WArr (len_fmt (lenN l)) (map canon l)
  | TObj l => WMap (len_fmt (lenN l)) (map (fun kv => let '(k, x) := kv in (canon_str k, canon x)) l)
  end.

(** * The Value API on a node of the eager document (api/src/lib.rs over ReadSpec's answers) *)

Definition is_null (w : wire) : bool := match w with WNil => true | _ => false end.
Definition as_bool (w : wire) : option bool := match w with WBool b => Some b | _ => None end.
(** integers and floats alike: the number as a double ([ReadSpec.num_of]) *)
Definition as_number (w : wire) : option N :=
  match w with WInt _ _ | WF32 _ | WF64 _ => Some (num_of w) | _ => None end.
Definition as_string (w : wire) : option (list N) :=
  match w with WStr _ s => Some s | _ => None end.
(** [if len == usize::MAX { None } else { Some(len) }] *)
Definition len_opt (W : N) (len : N) : option N := if len =? 2 ^ W - 1 then None else Some len.
Definition array_len (W : N) (w : wire) : option N :=
  match w with WArr _ l => len_opt W (lenN l) | _ => None end.
Definition obj_len (W : N) (w : wire) : option N :=
  match w with WMap _ l => len_opt W (lenN l) | _ => None end.
(** [None]: an error Value (index out of bounds / not indexable) *)
Definition get_at_index (w : wire) (i : N) : option wire :=
  match w with
  | WArr _ l => nthN l i
  | WMap _ l => match nthN l i with Some kv => Some (snd kv) | None => None end
  | _ => None
  end.
Definition get_obj_key_at_index (w : wire) (i : N) : option (list N) :=
  match w with
  | WMap _ l => match nthN l i with Some kv => as_string (fst kv) | None => None end
  | _ => None
  end.

(** The values [get_at_index(0..len)] yields on an array, the (key, value) pairs
    [get_obj_key_at_index(i)], [get_at_index(i)] for [i in 0..len] address on an object. *)
Definition items (w : wire) : list wire := match w with WArr _ l => l | _ => [] end.
Definition entries (w : wire) : list (wire * wire) := match w with WMap _ l => l | _ => [] end.

(** * Read side: api/src/read.rs *)

(** [HashMap::insert]: a key already present keeps its place and gets the new value. *)
Fixpoint map_insert (k : list N) (v : value) (m : list (list N * value)) : list (list N * value) :=
  match m with
  | [] => [(k, v)]
  | (k', v') :: r => if beq k' k then (k, v) :: r else (k', v') :: map_insert k v r
  end.

Section Deser.
Variable W : N.

(** [for i in 0..len { vec.push(T::deserialize(&value.get_at_index(i))?) }] *)
Fixpoint deser_list (f : wire -> option value) (l : list wire) : option (list value) :=
  match l with
  | [] => Some []
  | x :: r =>
      match f x with
      | Some v => match deser_list f r with Some vs => Some (v :: vs) | None => None end
      | None => None
      end
  end.

(** [for i in 0..len { let key = get_obj_key_at_index(i).ok_or(InvalidType)?;
                       let value = get_at_index(i); map.insert(key, T::deserialize(&value)?) }] *)
Fixpoint deser_entries (f : wire -> option value) (l : list (wire * wire))
    (acc : list (list N * value)) : option (list (list N * value)) :=
  match l with
  | [] => Some acc
  | kv :: r =>
      match as_string (fst kv) with
      | None => None
      | Some k =>
          match f (snd kv) with
          | Some v => deser_entries f r (map_insert k v acc)
          | None => None
          end
      end
  end.

Definition deser_num (i : intty) (w : wire) : option Z :=
  match as_number w with Some n => deser_int W i n | None => None end.

Fixpoint deser (t : ty) (w : wire) {struct t} : option value :=
  match t with
  | TUnit => if is_null w then Some VUnit else None
  | TBool => option_map VBool (as_bool w)
  | TI32 => option_map VI32 (deser_num IntDeser.I32 w)
  | TInt i => option_map VInt (deser_num i w)
  | TF64 => option_map VF64 (as_number w)
  | TStr => option_map VStr (as_string w)
  | TOpt u => if is_null w then Some VNone else option_map VSome (deser u w)
  | TVec u =>
      match array_len W w with
      | Some _ => option_map VVec (deser_list (deser u) (items w))
      | None => None
      end
  | TMap u =>
      match obj_len W w with
      | Some _ => option_map VMap (deser_entries (deser u) (entries w) [])
      | None => None
      end
  | TTuple ts =>
      match array_len W w with
      | Some len =>
          if negb (len =? lenN ts) then None
          else option_map VTuple
                 ((fix go (ts : list ty) (l : list wire) : option (list value) :=
                     match ts, l with
                     | [], [] => Some []
                     | t' :: ts', x :: l' =>
                         match deser t' x with
                         | Some v => match go ts' l' with Some vs => Some (v :: vs) | None => None end
                         | None => None
                         end
                     | _, _ => None
                     end) ts (items w))
      | None => None
      end
  | TArr n u =>
      match array_len W w with
      | Some len =>
          if negb (len =? n) then None
          else option_map VVec (deser_list (deser u) (items w))
      | None => None
      end
  end.

End Deser.

(** * The JSON shape of a type (SPEC, readable): which documents a type accepts *)

Definition is_number (w : wire) : bool :=
  match w with WInt _ _ | WF32 _ | WF64 _ => true | _ => false end.

(** A number whose value (as a double) is exactly an integer within the range of [i]. *)
Definition int_matches (W : N) (i : intty) (w : wire) : bool :=
  is_number w &&
  match exact_int (num_of w) with
  | Some z => ((int_min W i <=? z) && (z <=? int_max W i))%Z
  | None => false
  end.

Fixpoint matches (W : N) (t : ty) (d : wire) {struct t} : bool :=
  match t with
  | TUnit => is_null d
  | TBool => match d with WBool _ => true | _ => false end
  | TI32 => int_matches W IntDeser.I32 d
  | TInt i => int_matches W i d
  | TF64 => is_number d
  | TStr => is_wstr d
  | TOpt u => is_null d || matches W u d
  | TVec u => match d with WArr _ l => forallb (matches W u) l | _ => false end
  | TMap u =>
      match d with
      | WMap _ l => forallb (fun kv => is_wstr (fst kv) && matches W u (snd kv)) l
      | _ => false
      end
  | TTuple ts =>
      match d with
      | WArr _ l =>
          (lenN l =? lenN ts) &&
          (fix go (ts : list ty) (l : list wire) : bool :=
             match ts, l with
             | [], [] => true
             | t' :: ts', x :: l' => matches W t' x && go ts' l'
             | _, _ => false
             end) ts l
      | _ => false
      end
  | TArr n u => match d with WArr _ l => (lenN l =? n) && forallb (matches W u) l | _ => false end
  end.

(** C10's exception class, decidable: a 64-bit target and the double MAX + 1. *)
Definition knownb (W : N) (i : intty) (bits : N) : bool :=
  (int_bits W i =? 64) &&
  match exact_int bits with Some z => (z =? int_max W i + 1)%Z | None => false end.

(** No integer target of [t] meets its exception double in [d]. *)
Fixpoint known_free (W : N) (t : ty) (d : wire) {struct t} : bool :=
  match t with
  | TI32 => negb (knownb W IntDeser.I32 (num_of d))
  | TInt i => negb (knownb W i (num_of d))
  | TOpt u => is_null d || known_free W u d
  | TVec u | TArr _ u => forallb (known_free W u) (items d)
  | TMap u => forallb (fun kv => known_free W u (snd kv)) (entries d)
  | TTuple ts =>
      (fix go (ts : list ty) (l : list wire) : bool :=
         match ts, l with
         | t' :: ts', x :: l' => known_free W t' x && go ts' l'
         | _, _ => true
         end) ts (items d)
  | _ => true
  end.

(** No array / map of the document has exactly [usize::MAX] entries (impossible at W = 64 for a
    well-formed document; at W = 32 such a document does not fit the address space). *)
Fixpoint lens_ok (W : N) (d : wire) : bool :=
  match d with
  | WArr _ l => negb (lenN l =? 2 ^ W - 1) && forallb (lens_ok W) l
  | WMap _ l =>
      negb (lenN l =? 2 ^ W - 1) && forallb (fun kv => lens_ok W (snd kv)) l
  | _ => true
  end.

(** * Equality of values up to the order of map entries (executable) *)
Fixpoint veqb (a b : value) {struct a} : bool :=
  match a, b with
  | VUnit, VUnit | VNone, VNone => true
  | VBool x, VBool y => Bool.eqb x y
  | VI32 x, VI32 y | VInt x, VInt y => (x =? y)%Z
  | VF64 x, VF64 y => x =? y
  | VStr x, VStr y => beq x y
  | VSome x, VSome y => veqb x y
  | VVec l, VVec m | VTuple l, VTuple m =>
      (fix go (l m : list value) : bool :=
         match l, m with
         | [], [] => true
         | x :: l', y :: m' => veqb x y && go l' m'
         | _, _ => false
         end) l m
  | VMap l, VMap m =>
      (lenN l =? lenN m)
      && forallb (fun kv => let '(k, x) := kv in
                   existsb (fun kv' => beq k (fst kv') && veqb x (snd kv')) m) l
  | _, _ => false
  end.
