#!/usr/bin/env python3
"""T3: regenerate coq/theories/Gen/AbiGen.v: the ABI as each artefact describes it.
  - the public WAT (parsed with wat/wasmparser by harness_wasm abigen)
  - the C header AS COMPILED NOW by clang to wasm32 (import section of the result)
  - the Rust `extern "C"` block of api/src/lib.rs (regex; types mapped to wasm value types)
  - what the REAL trampoline accepts / rejects / emits (probed through TrampolineCodegen::apply)
  - what the provider exports (decorate_for_target! items -> `_name`, #[export_name] items)
  - module-name strings and the code tables (README, header #defines, core enums)"""
import json, os, re, subprocess, sys
sys.path.insert(0, os.path.dirname(__file__))
from tcommon import write_if_changed, TranslatorError
import gen_nanbox, gen_codes

RUST2WASM = {"usize": "i32", "isize": "i32", "u32": "i32", "i32": "i32", "WriteResult": "i32", "InternedStringId": "i32",
             "shopify_function_wasm_api_core::InternedStringId": "i32", "Val": "i64", "DoubleUsize": "i64", "u64": "i64", "i64": "i64", "f64": "f64", "f32": "f32"}

def wasm_ty(t):
    t = " ".join(t.split())
    if t.startswith("*const") or t.startswith("*mut"):
        return "i32"
    if t in RUST2WASM:
        return RUST2WASM[t]
    raise TranslatorError(f"T3: no wasm mapping for Rust type `{t}`")

def parse_sig(args, ret):
    ps = []
    for a in [x for x in args.split(",") if x.strip()]:
        ps.append(wasm_ty(a.split(":", 1)[1]))
    rs = [] if ret is None or ret.strip() in ("", "()") else [wasm_ty(ret)]
    return [ps, rs]

def rust_extern(repo):
    src = open(os.path.join(repo, "api/src/lib.rs")).read()
    m = re.search(r'#\[link\(wasm_import_module\s*=\s*"([^"]+)"\)\]\s*extern\s+"C"\s*\{(.*?)\n\}', src, re.S)
    if not m:
        raise TranslatorError("T3: extern \"C\" block with #[link(wasm_import_module = ..)] not found in api/src/lib.rs")
    body = re.sub(r"//[^\n]*", "", m.group(2))
    fns = []
    for f in re.finditer(r"fn\s+([a-z_0-9]+)\s*\((.*?)\)\s*(?:->\s*([^;]+?))?\s*;", body, re.S):
        fns.append([f.group(1), parse_sig(f.group(2), f.group(3))])
    if not fns:
        raise TranslatorError("T3: no functions in the extern block")
    return m.group(1), fns

def provider_exports(repo):
    out = []
    import glob
    for f in sorted(glob.glob(os.path.join(repo, "provider/src/**/*.rs"), recursive=True)):
        src = open(f).read()
        src = re.sub(r"//[^\n]*", "", src)
        for m in re.finditer(r"decorate_for_target!\s*\{\s*(?:#\[doc[^\]]*\]\s*)*fn\s+([a-z_0-9]+)\s*\((.*?)\)\s*->\s*([^{]+?)\s*\{", src, re.S):
            out.append(["_" + m.group(1), parse_sig(m.group(2), m.group(3))])
        for m in re.finditer(r'#\[export_name\s*=\s*"([^"]+)"\]\s*(?:pub\s+)?(?:unsafe\s+)?extern\s+"C"\s+fn\s+[a-z_0-9]+\s*\((.*?)\)\s*(?:->\s*([^{]+?))?\s*\{', src, re.S):
            out.append([m.group(1), parse_sig(m.group(2), m.group(3))])
    if not out:
        raise TranslatorError("T3: no provider exports found")
    return out

def cargo_major(repo, crate):
    t = open(os.path.join(repo, crate, "Cargo.toml")).read()
    m = re.search(r'^version\s*=\s*"(\d+)\.', t, re.M)
    if not m:
        raise TranslatorError(f"T3: no version in {crate}/Cargo.toml")
    return m.group(1)

def module_const(repo, path):
    src = open(os.path.join(repo, path)).read()
    m = re.search(r'PROVIDER_MODULE_NAME\s*:\s*&str\s*=\s*concat!\(\s*"([^"]+)"\s*,\s*env!\(\s*"CARGO_PKG_VERSION_MAJOR"\s*\)\s*\)', src)
    if m:
        return m.group(1) + cargo_major(repo, path.split("/")[0])
    m = re.search(r'PROVIDER_MODULE_NAME\s*:\s*&str\s*=\s*"([^"]+)"', src)
    if m:
        return m.group(1)
    raise TranslatorError(f"T3: PROVIDER_MODULE_NAME not found in {path}")

def readme_tables(repo):
    t = open(os.path.join(repo, "api/README.md")).read()
    def section(title):
        m = re.search(re.escape(title) + r"(.*?)(?:\n##|\Z)", t, re.S)
        if not m:
            raise TranslatorError(f"T3: README section `{title}` not found")
        return [[x.group(2), int(x.group(1))] for x in re.finditer(r"^- \*\*(\d+)\*\*: `([A-Za-z]+)`", m.group(1), re.M)]
    return {"tags": section("### Value Types"), "errors": section("### Read Error Codes"), "statuses": section("### Write Status Codes")}

def header_info(repo):
    h = open(os.path.join(repo, "api/src/shopify_function.h")).read()
    defs = {m.group(1): m.group(2) for m in re.finditer(r"^#define\s+([A-Z_]+)\s+(\S+)", h, re.M)}
    mod = defs.get("SHOPIFY_FUNCTION_IMPORT_MODULE", "").strip('"')
    return mod, {k: int(v) for k, v in defs.items() if re.fullmatch(r"\d+", v)}

def probes(repo, cache):
    os.makedirs(cache, exist_ok=True)
    hw = os.path.join(cache, "header_now.wasm")
    c = subprocess.run(["clang", "--target=wasm32-unknown-unknown", "-I", os.path.join(repo, "api/src"), "-nostdlib", "-Wl,--no-entry", "-Wl,--export-all",
                        "-Wl,--allow-undefined", "-o", hw, os.path.join(repo, "api/src/test_data/header_test.c")], capture_output=True, text=True)
    if c.returncode != 0:
        raise TranslatorError("T3: clang could not compile api/src/test_data/header_test.c against the header: " + c.stderr[-500:])
    tool = os.path.join(os.path.dirname(__file__), "..", ".cache", "target", "release", "sfv_harness_wasm")
    p = subprocess.run([tool, "abigen", repo, hw], capture_output=True, text=True)
    if p.returncode != 0:
        raise TranslatorError("T3: abigen probe failed: " + p.stderr[-800:])
    return json.loads(p.stdout)

def q(s): return '"%s"' % s
def sigc(s): return "([%s], [%s])" % ("; ".join("T" + x.upper() for x in s[0]), "; ".join("T" + x.upper() for x in s[1]))
def table(rows): return "[" + ";\n   ".join(f"({q(n)}, {sigc(s)})" for n, s in rows) + "]"
def codes(rows): return "[" + "; ".join(f"({q(n)}, {v})" for n, v in rows) + "]"
def strs(l): return "[" + "; ".join(q(x) for x in l) + "]"
def b(x): return "true" if x else "false"

def generate(repo, out, cache=None):
    cache = cache or os.path.join(os.path.dirname(__file__), "..", ".cache", "abi")
    pr = probes(repo, cache)
    rust_mod, rust_fns = rust_extern(repo)
    exports = provider_exports(repo)
    prov_mod = module_const(repo, "provider/src/lib.rs")
    tramp_mod_src = module_const(repo, "trampoline/src/lib.rs")
    hdr_mod, hdr_defs = header_info(repo)
    rd = readme_tables(repo)
    nb = gen_nanbox.parse_enum_values(repo) if hasattr(gen_nanbox, "parse_enum_values") else None
    wr, _ = gen_codes.parse_write_result(repo)
    header_mods = sorted({m for m, _, _ in pr["header"]})
    text = f"""(* GENERATED by translators/gen_abi.py (translator T3) -- do not edit *)
From Coq Require Import NArith List String.
From SFV Require Import Abi.AbiTypes.
Import ListNotations.
Open Scope string_scope.
Open Scope N_scope.

(* api/src/shopify_function.wat *)
Definition wat_module : string := {q(pr['wat_module'])}.
Definition wat_table : table :=
  {table(pr['wat'])}.

(* api/src/shopify_function.h compiled NOW by clang (--target=wasm32) through test_data/header_test.c: import section *)
Definition header_modules : list string := {strs(header_mods)}.
Definition header_define_module : string := {q(hdr_mod)}.
Definition header_table : table :=
  {table([[n, s] for _, n, s in pr['header']])}.
(* the checked-in api/src/test_data/header_test.wasm *)
Definition header_checked_in_table : table :=
  {table([[n, s] for _, n, s in pr.get('header_checked_in', [])])}.

(* api/src/lib.rs: #[link(wasm_import_module = ..)] extern "C" block, Rust types mapped to wasm value types *)
Definition rust_module : string := {q(rust_mod)}.
Definition rust_table : table :=
  {table(rust_fns)}.

(* the REAL trampoline, probed: names accepted with the public signature; names rejected with a wrong one *)
Definition trampoline_module : string := {q(pr['trampoline_module'])}.
Definition trampoline_module_from_source : string := {q(tramp_mod_src)}.
Definition trampoline_accepts : list string := {strs(pr['trampoline_accepts'])}.
Definition trampoline_rejects_wrong_sig : list string := {strs(pr['trampoline_rejects_wrong_sig'])}.
(* the same wrong signature as a SECOND import of the name, after a canonical first one *)
Definition trampoline_rejects_wrong_sig_dup : list string := {strs(pr['trampoline_rejects_wrong_sig_dup'])}.
(* `_<public name>` imports the tool lets through unchanged *)
Definition trampoline_accepts_lowlevel : list string := {strs(pr['trampoline_accepts_lowlevel'])}.
Definition trampoline_rejects_unknown : bool := {b(pr['unknown_rejected'])}.
Definition trampoline_rejects_empty_name : bool := {b(pr['empty_name_rejected'])}.
Definition trampoline_rejects_other_version : bool := {b(pr['other_version_rejected'])}.
Definition trampoline_rejects_two_memories : bool := {b(pr['two_memories_rejected'])}.
(* probes of the real tool: a guest importing shopify_function_input_get from <module> -> accepted? *)
Definition trampoline_module_probes : list (string * bool) := [{"; ".join('("%s", %s)' % (m.replace('"', '""'), b(a)) for m, a in pr['module_probes'])}].
(* every function import of the trampolined all-imports guest *)
Definition trampoline_emits_modules : list string := {strs(sorted({m for m, _, _ in pr['trampoline_emits']}))}.
Definition trampoline_emits : table :=
  {table([[n, s] for _, n, s in pr['trampoline_emits']])}.
Definition trampoline_memory_imports : list (string * string) := [{"; ".join(f"({q(m)}, {q(n)})" for m, n in pr['trampoline_memory_imports'])}].

(* provider: decorate_for_target! items (exported as `_name` on wasm) and #[export_name] items *)
Definition provider_module : string := {q(prov_mod)}.
Definition provider_exports : table :=
  {table(exports)}.

(* code tables *)
Definition readme_tags : list (string * N) := {codes(rd['tags'])}.
Definition readme_errors : list (string * N) := {codes(rd['errors'])}.
Definition readme_statuses : list (string * N) := {codes(rd['statuses'])}.
Definition header_defines : list (string * N) := {codes(sorted(hdr_defs.items()))}.
Definition core_write_results : list (string * N) := {codes(wr)}.
"""
    changed = write_if_changed(out, text)
    return changed, {"wat": len(pr["wat"]), "header": len(pr["header"]), "rust": len(rust_fns), "trampoline_accepts": len(pr["trampoline_accepts"]),
                     "provider_exports": len(exports), "modules": [pr["wat_module"], hdr_mod, rust_mod, pr["trampoline_module"], prov_mod],
                     "empty_name_rejected": pr["empty_name_rejected"]}

if __name__ == "__main__":
    repo = sys.argv[1] if len(sys.argv) > 1 else "/repo"
    out = sys.argv[2] if len(sys.argv) > 2 else os.path.join(os.path.dirname(__file__), "../coq/theories/Gen/AbiGen.v")
    print(generate(repo, out))
