#!/usr/bin/env python3
"""T1: regenerate coq/theories/Gen/NanBoxGen.v from core/src/read.rs.

Every `const` of `impl NanBox` is translated into a Coq function of the pointer width W
(usize::BITS = W, Val::BITS = 2W) with the Rust integer type's wrap-around made explicit;
the discriminants of `Tag` and `ErrorCode` are emitted as tables.  The const-expression grammar
handled: integer literals, Self::X / NanBox::X, Val::BITS, usize::BITS, u64::BITS ..., unary ! and -,
`as T`, * / %, + -, << >>, &, ^, |, parentheses.  Anything else is a translator error
(= a broken tie, reported by the check)."""
import re, sys, os
sys.path.insert(0, os.path.dirname(__file__))
from tcommon import write_if_changed, TranslatorError, line_of

INT_TYPES = {"u8": 8, "u16": 16, "u32": 32, "u64": 64, "u128": 128, "i8": 8, "i16": 16, "i32": 32, "i64": 64}


def bits_of(ty):
    """Coq term for the bit width of a Rust type, as a function of W."""
    if ty in INT_TYPES:
        return str(INT_TYPES[ty])
    if ty == "usize" or ty == "isize":
        return "W"
    if ty == "Val":
        return "(2 * W)"
    raise TranslatorError(f"T1: unknown integer type {ty}")


TOK = re.compile(r"\s*(?:(0x[0-9a-fA-F_]+|[0-9][0-9_]*)(?:_?(u8|u16|u32|u64|u128|usize|i32|i64))?|([A-Za-z_][A-Za-z0-9_]*(?:::[A-Za-z_][A-Za-z0-9_]*)*)|(<<|>>|[-+*/%&|^!()]))")


def tokenize(s):
    pos, out = 0, []
    s = s.strip()
    while pos < len(s):
        m = TOK.match(s, pos)
        if not m or m.end() == pos:
            raise TranslatorError(f"T1: cannot tokenize const expression at: {s[pos:pos+30]!r}")
        if m.group(1):
            out.append(("num", int(m.group(1).replace("_", ""), 0), m.group(2)))
        elif m.group(3):
            out.append(("id", m.group(3), None))
        else:
            out.append(("op", m.group(4), None))
        pos = m.end()
    return out


class Parser:
    """Precedence climbing; produces an AST: ('num',v) ('const',name) ('bitsof',ty) ('un',op,e) ('bin',op,l,r) ('as',e,ty)."""
    LEVELS = [["|"], ["^"], ["&"], ["<<", ">>"], ["+", "-"], ["*", "/", "%"]]

    def __init__(self, toks):
        self.t, self.i = toks, 0

    def peek(self):
        return self.t[self.i] if self.i < len(self.t) else (None, None, None)

    def eat(self):
        x = self.t[self.i]; self.i += 1; return x

    def parse(self):
        e = self.level(0)
        if self.i != len(self.t):
            raise TranslatorError(f"T1: trailing tokens in const expression: {self.t[self.i:]}")
        return e

    def level(self, k):
        if k == len(self.LEVELS):
            return self.cast()
        l = self.level(k + 1)
        while self.peek()[0] == "op" and self.peek()[1] in self.LEVELS[k]:
            op = self.eat()[1]
            r = self.level(k + 1)
            l = ("bin", op, l, r)
        return l

    def cast(self):
        e = self.unary()
        while self.peek()[0] == "id" and self.peek()[1] == "as":
            self.eat()
            ty = self.eat()
            if ty[0] != "id":
                raise TranslatorError("T1: expected a type after `as`")
            e = ("as", e, ty[1])
        return e

    def unary(self):
        k, v, suf = self.peek()
        if k == "op" and v in ("!", "-"):
            self.eat()
            return ("un", v, self.unary())
        return self.atom()

    def atom(self):
        k, v, suf = self.eat()
        if k == "num":
            return ("num", v, suf)
        if k == "op" and v == "(":
            e = self.level(0)
            k2, v2, _ = self.eat()
            if v2 != ")":
                raise TranslatorError("T1: expected )")
            return e
        if k == "id":
            parts = v.split("::")
            if len(parts) == 2 and parts[1] == "BITS":
                return ("bitsof", parts[0])
            if len(parts) == 2 and parts[0] in ("Self", "NanBox"):
                return ("const", parts[1])
            raise TranslatorError(f"T1: unsupported identifier {v} in const expression")
        raise TranslatorError(f"T1: unexpected token {v!r}")


def infer(e, consts):
    """Bottom-up type of an expression when it is determined (else None = takes the expected type)."""
    k = e[0]
    if k == "num":
        return e[2]
    if k == "const":
        if e[1] not in consts:
            raise TranslatorError(f"T1: reference to unknown const {e[1]}")
        return consts[e[1]][0]
    if k == "bitsof":
        return "u32"
    if k == "as":
        return e[2]
    if k == "un":
        return infer(e[2], consts)
    if k == "bin":
        if e[1] in ("<<", ">>"):
            return infer(e[2], consts)
        return infer(e[2], consts) or infer(e[3], consts)
    return None


def emit(e, ty, consts):
    """Coq term (N) of expression e evaluated at Rust type ty (wrap-around explicit)."""
    k = e[0]
    B = bits_of(ty)
    if k == "num":
        return str(e[1])
    if k == "const":
        cty = consts[e[1]][0]
        if cty != ty:
            raise TranslatorError(f"T1: const {e[1]} of type {cty} used at type {ty} without a cast")
        return f"({e[1]} W)"
    if k == "bitsof":
        return bits_of(e[1])
    if k == "as":
        inner_ty = infer(e[1], consts) or e[2]
        return f"(({emit(e[1], inner_ty, consts)}) mod 2 ^ {bits_of(e[2])})"
    if k == "un":
        if e[1] == "!":
            return f"(N.lxor ({emit(e[2], ty, consts)}) (N.ones {B}))"
        raise TranslatorError("T1: unary minus in an unsigned const expression")
    if k == "bin":
        op, l, r = e[1], e[2], e[3]
        if op in ("<<", ">>"):
            rty = infer(r, consts) or "u32"
            L, R = emit(l, ty, consts), emit(r, rty, consts)
            if op == "<<":
                return f"((N.shiftl ({L}) ({R})) mod 2 ^ {B})"
            return f"(N.shiftr ({L}) ({R}))"
        L, R = emit(l, ty, consts), emit(r, ty, consts)
        if op == "+":
            return f"(({L} + {R}) mod 2 ^ {B})"
        if op == "-":
            return f"({L} - {R})"      # an underflow here is a compile error in Rust const evaluation
        if op == "*":
            return f"(({L} * {R}) mod 2 ^ {B})"
        if op == "/":
            return f"({L} / {R})"
        if op == "%":
            return f"({L} mod {R})"
        if op == "&":
            return f"(N.land {L} {R})"
        if op == "|":
            return f"(N.lor {L} {R})"
        if op == "^":
            return f"(N.lxor {L} {R})"
    raise TranslatorError(f"T1: cannot emit {e}")


def parse_enum(src, name, consts_for_eval):
    m = re.search(r"enum\s+" + name + r"\s*\{(.*?)\n\}", src, re.S)
    if not m:
        raise TranslatorError(f"T1: enum {name} not found in core/src/read.rs")
    body = re.sub(r"//[^\n]*", "", m.group(1))
    body = re.sub(r"#\[[^\]]*\]", "", body)
    out, nxt = [], 0
    for item in body.split(","):
        item = item.strip()
        if not item:
            continue
        mm = re.match(r"([A-Za-z_][A-Za-z0-9_]*)\s*(?:=\s*(.+))?$", item, re.S)
        if not mm:
            raise TranslatorError(f"T1: cannot parse variant {item!r} of enum {name}")
        if mm.group(2):
            expr = mm.group(2).strip()
            if re.fullmatch(r"[0-9_]+", expr):
                val = ("lit", int(expr.replace("_", "")))
            else:
                ast = Parser(tokenize(expr)).parse()
                val = ("expr", ast)
        else:
            val = ("lit", nxt) if isinstance(nxt, int) else ("succ", nxt)
        out.append((mm.group(1), val))
        nxt = val[1] + 1 if val[0] == "lit" else None
    return out, line_of(src, m.start())


def generate(repo, out):
    path = os.path.join(repo, "core/src/read.rs")
    src = open(path).read()
    m = re.search(r"impl\s+NanBox\s*\{", src)
    if not m:
        raise TranslatorError("T1: `impl NanBox {` not found")
    # take the impl body up to the first fn
    body = src[m.end():]
    consts, order = {}, []
    for cm in re.finditer(r"(?:pub\s+)?const\s+([A-Z_0-9]+)\s*:\s*([A-Za-z0-9_]+)\s*=\s*(.*?);", body, re.S):
        if "fn " in body[:cm.start()].split("const")[-1] and False:
            break
        name, ty, expr = cm.group(1), cm.group(2), " ".join(cm.group(3).split())
        if name in consts:
            continue
        consts[name] = (ty, expr, line_of(src, m.end() + cm.start()))
        order.append(name)
    if not order:
        raise TranslatorError("T1: no consts found in impl NanBox")
    # dependency order
    deps = {n: set(re.findall(r"(?:Self|NanBox)::([A-Z_0-9]+)", consts[n][1])) for n in order}
    done, sorted_names = set(), []
    while len(sorted_names) < len(order):
        progress = False
        for n in order:
            if n not in done and deps[n] <= done:
                sorted_names.append(n); done.add(n); progress = True
        if not progress:
            raise TranslatorError("T1: cyclic or unresolved const dependencies: " + str({n: deps[n] - done for n in order if n not in done}))
    lines = ["(* GENERATED by translators/gen_nanbox.py from core/src/read.rs -- do not edit *)",
             "From Coq Require Import NArith List String.", "Import ListNotations.", "Open Scope N_scope.", "",
             "(* W = usize::BITS (pointer width); Val::BITS = 2 * W *)", ""]
    for n in sorted_names:
        ty, expr, ln = consts[n]
        ast = Parser(tokenize(expr)).parse()
        term = emit(ast, ty, consts)
        lines.append(f"(* core/src/read.rs:{ln}: const {n}: {ty} = {expr}; *)")
        lines.append(f"Definition {n} (W : N) : N := {term}.")
        lines.append("")
    lines.append("Definition const_types : list (string * string) := [" +
                 "; ".join(f'("{n}"%string, "{consts[n][0]}"%string)' for n in sorted_names) + "].")
    lines.append("")
    info = {"consts": len(sorted_names)}
    for enum, prefix in (("Tag", "TAG_"), ("ErrorCode", "EC_")):
        variants, ln = parse_enum(src, enum, consts)
        lines.append(f"(* core/src/read.rs:{ln}: enum {enum} *)")
        names = []
        for vname, val in variants:
            if val[0] == "lit":
                term = str(val[1])
            elif val[0] == "expr":
                ety = infer(val[1], consts) or "u8"
                term = emit(val[1], ety, consts)
            else:
                raise TranslatorError(f"T1: implicit discriminant after a non-literal one in enum {enum}")
            lines.append(f"Definition {prefix}{vname} (W : N) : N := {term}.")
            names.append(vname)
        lines.append(f"Definition {enum}_variants (W : N) : list (string * N) := [" +
                     "; ".join(f'("{v}"%string, {prefix}{v} W)' for v in names) + "].")
        lines.append("")
        info[enum] = names
    text = "\n".join(lines) + "\n"
    return write_if_changed(out, text), info


if __name__ == "__main__":
    repo = sys.argv[1] if len(sys.argv) > 1 else "/repo"
    out = sys.argv[2] if len(sys.argv) > 2 else os.path.join(os.path.dirname(__file__), "../coq/theories/Gen/NanBoxGen.v")
    print(generate(repo, out))
