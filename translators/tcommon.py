import os
class TranslatorError(Exception):
    pass
def write_if_changed(path, text):
    old = None
    if os.path.exists(path):
        old = open(path).read()
    if old != text:
        os.makedirs(os.path.dirname(path), exist_ok=True)
        with open(path, "w") as f:
            f.write(text)
        return True
    return False
def line_of(src, pos):
    return src.count("\n", 0, pos) + 1
