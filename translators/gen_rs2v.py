#!/usr/bin/env python3
"""T8: regenerate Gallina MODELS of whole Rust functions from /repo's source with translators/rs2v
(a syn-based translator for an imperative integer-only subset of Rust).  One entry per generated file."""
import os, subprocess, sys
sys.path.insert(0, os.path.dirname(__file__))
from tcommon import TranslatorError

HERE = os.path.dirname(os.path.abspath(__file__))
VERIF = os.path.dirname(HERE)
CACHE = os.path.join(VERIF, ".cache")
TOOLCHAIN = "stable-x86_64-unknown-linux-gnu"

TARGETS = {
    # provider/src/write/state.rs: the whole write state machine (C03, C02)
    "StateGen": {
        "src": "provider/src/write/state.rs",
        "args": ["--types", "State,ObjectState,ArrayState", "--extern-enum", "WriteResult=WR_", "--import", "Gen.CodesGen", "--derive-eq"],
    },
    # provider/src/log.rs: Logs::append (the copy plan) and Logs::read_ptrs (what the host reads) (C05)
    "LogFnGen": {
        "src": "provider/src/log.rs",
        "args": ["--types", "Logs"],
    },
    # core/src/read.rs: NanBox constructors, encode and try_decode (C06); the masks and discriminants are T1's
    "NanBoxFnGen": {
        "src": "core/src/read.rs",
        "args": ["--types", "NanBox,ValueRef", "--newtype", "NanBox", "--assoc-consts-of-w", "", "--extern-consts-of-w",
                 "--extern-enum", "Tag=TAG_", "--extern-enum", "ErrorCode=EC_",
                 "--extern-method", "NanBox::tag=nb_tag_opt", "--extern-method", "Tag::as_val=tag_as_val",
                 "--only", "encode,bool,null,number,string,obj,error,array,try_decode,to_bits,from_bits",
                 "--import", "Gen.NanBoxGen", "--import", "NanBox.NanBoxExt"],
    },
    # provider/src/string_interner.rs: StringInterner::preallocate and ::get (C12)
    "InternGen": {
        "src": "provider/src/string_interner.rs",
        "args": ["--types", "StringInterner", "--alias", "InternedStringId=usize", "--only", "preallocate,get"],
    },
    # provider/src/write.rs: every method of `impl Context` (which state transition and which bytes each ABI call makes) and the
    # exported functions shopify_function_output_* incl. the native finalize (argument conversions, packing of status and pointer) (C03, C02)
    "WriteCtxGen": {
        "src": "provider/src/write.rs",
        "args": ["--types", "", "--struct", "Context{write_state:State;write_parent_state_stack:Vec<State>;output_bytes:Vec<u8>;string_interner:StringInterner}",
                 "--also", "{repo}/provider/src/write/state.rs:State,ObjectState,ArrayState", "--also", "{repo}/provider/src/string_interner.rs:StringInterner",
                 "--alias", "InternedStringId=usize", "--alias", "DoubleUsize=Val", "--extern-enum", "WriteResult=WR_",
                 "--wrappers", "Context", "--skip", "verif_output_bytes",
                 "--append-fn", "encode::write_bool=write_bool", "--append-fn", "encode::write_nil=write_nil", "--append-fn", "encode::write_sint=write_sint",
                 "--append-fn", "encode::write_f64=write_f64", "--append-fn", "encode::write_str_len=write_str_len",
                 "--append-fn", "encode::write_map_len=write_map_len", "--append-fn", "encode::write_array_len=write_array_len",
                 "--ptr-buffer", "output_bytes", "--import", "Gen.CodesGen", "--import", "Gen.StateGen", "--import", "Gen.InternGen", "--import", "Msgpack.Rmp"],
    },
    # provider/src/read/lazy_value_ref.rs: the bounds-checked cursor reads and LazyValueRef::new, the decoder of ONE value header
    # (the basis of the lazy reader model and of the sequential-decoder spec) (C01, C08, C11)
    "LazyNewGen": {
        "src": "provider/src/read/lazy_value_ref.rs",
        "args": ["--types", "Cursor", "--impl-of", "LazyValueRef",
                 "--only", "new,read_marker,read_f32,read_f64,read_i8,read_u8,read_i16,read_u16,read_i32,read_u32,read_i64,read_u64,new_number,new_string",
                 "--extern-enum", "ErrorCode=EC_", "--extern-consts-of-w",
                 "--foreign", "Marker{Null;True;False;FixPos(u8);FixNeg(i8);U8;U16;U32;U64;I8;I16;I32;I64;F32;F64;FixStr(u8);Str8;Str16;Str32;FixArray(u8);Array16;Array32;FixMap(u8);Map16;Map32;Other}",
                 "--foreign", "StringRef{ptr:usize;len:usize}",
                 "--foreign", "ArrayRef{len:usize;processed_elements:Vec<LazyValueRef>;end_position_of_last_processed_element:usize}",
                 "--foreign", "ObjectRef{len:usize;processed_elements:Vec<(LazyValueRef,LazyValueRef)>;end_position_of_last_processed_element:usize}",
                 "--foreign", "LazyValueRef{Null;Bool(bool);Number(f64);String(StringRef);Array(ArrayRef);Object(ObjectRef)}",
                 "--extern-fn", "Marker::from_u8=marker_of_u8:Marker", "--drop-param", "bump",
                 "--import", "Gen.NanBoxGen", "--import", "Base.F64", "--import", "Read.LazyTypes"],
    },
    # provider/src/read/lazy_value_ref.rs: the LOOPS of the lazy reader - ArrayRef/ObjectRef::get_at_index, ObjectRef::get_property,
    # the three finish_processing (mutually recursive), and the methods of LazyValueRef the exported functions call - as one mutual
    # Fixpoint on fuel with the `for` loops lifted (C01, C08, C11)
    "LazyLoopsGen": {
        "src": "provider/src/read/lazy_value_ref.rs",
        "args": ["--types", "", "--impl-of", "LazyValueRef,ArrayRef,ObjectRef", "--fuel",
                 "--only", "get_at_index,get_property,finish_processing,get_value_length,get_utf8_str_addr,get_key_at_index,get_object_property",
                 "--use", "new", "--extern-enum", "ErrorCode=EC_", "--extern-consts-of-w",
                 "--foreign", "StringRef{ptr:usize;len:usize}",
                 "--foreign", "ArrayRef{len:usize;processed_elements:Vec<LazyValueRef>;end_position_of_last_processed_element:usize}",
                 "--foreign", "ObjectRef{len:usize;processed_elements:Vec<(LazyValueRef,LazyValueRef)>;end_position_of_last_processed_element:usize}",
                 "--foreign", "LazyValueRef{Null;Bool(bool);Number(f64);String(StringRef);Array(ArrayRef);Object(ObjectRef)}",
                 "--drop-param", "bump", "--import", "Gen.NanBoxGen", "--import", "Read.LazyTypes", "--import", "Gen.LazyNewGen"],
    },
    # provider/src/read.rs: the six exported read functions that take a scope / a node address: NaN-box decode of the scope, dispatch
    # on the kind, error codes, boxing of the answer; the raw-address dereference and the node operations are oracle parameters (C01)
    "ReadAbiGen": {
        "src": "provider/src/read.rs",
        "args": ["--types", "", "--struct", "Context{input_bytes:Vec<u8>;bump_allocator:();string_interner:StringInterner}",
                 "--also", "{repo}/core/src/read.rs:NanBox,ValueRef", "--also", "{repo}/provider/src/string_interner.rs:StringInterner",
                 "--newtype", "NanBox", "--alias", "NanBoxValueRef=ValueRef", "--alias", "InternedStringId=usize",
                 "--assoc-consts-of-w", "", "--extern-enum", "ErrorCode=EC_", "--extern-consts-of-w", "--wrappers", "Context",
                 "--only", "shopify_function_input_get_obj_prop,shopify_function_input_get_interned_obj_prop,shopify_function_input_get_at_index,"
                           "shopify_function_input_get_obj_key_at_index,shopify_function_input_get_val_len,shopify_function_input_get_utf8_str_addr",
                 "--foreign", "NodeRef{addr:usize}",
                 "--extern-fn", "LazyValueRef::mut_from_raw=node_at:Result<NodeRef,ErrorCode>",
                 "--extern-fn", "std::slice::from_raw_parts=guest_bytes:Vec<u8>",
                 "--extern-method", "NodeRef::get_object_property=node_get_prop:Result<Option<NodeRef>,ErrorCode>",
                 "--extern-method", "NodeRef::get_at_index=node_get_at_index:Result<NodeRef,ErrorCode>",
                 "--extern-method", "NodeRef::get_key_at_index=node_get_key_at_index:Result<NodeRef,ErrorCode>",
                 "--extern-method", "NodeRef::encode=node_encode:Val", "--extern-method", "NodeRef::get_value_length=node_value_length:usize",
                 "--extern-method", "NodeRef::get_utf8_str_addr=node_str_addr:usize",
                 "--import", "Gen.NanBoxGen", "--import", "NanBox.NanBoxExt", "--import", "Gen.NanBoxFnGen", "--import", "Gen.InternGen", "--import", "Read.NodeRefTy",
                 "--oracle", "node_at:N -> rres NodeRef", "--oracle", "guest_bytes:N -> N -> list N",
                 "--oracle", "node_get_prop:N -> NodeRef -> list N -> list N -> unit -> rres (option NodeRef)",
                 "--oracle", "node_get_at_index:N -> NodeRef -> N -> list N -> unit -> rres NodeRef",
                 "--oracle", "node_get_key_at_index:N -> NodeRef -> N -> list N -> unit -> rres NodeRef",
                 "--oracle", "node_encode:N -> NodeRef -> N", "--oracle", "node_value_length:N -> NodeRef -> N",
                 "--oracle", "node_str_addr:N -> NodeRef -> list N -> N"],
    },
    # api/src/read.rs: the body of impl_deserialize_for_int! instantiated for its ten integer types (C10)
    "IntDeserGen": {
        "src": "api/src/read.rs",
        "pre": "int_deser",
        "args": ["--types", "IntDeser", "--f64-decoded", "--extern-enum", "Error=APIERR_",
                 "--foreign", "Value{n:Option<f64>}", "--extern-method", "Value::as_number=value_as_number:Option<f64>",
                 "--import", "Base.F64", "--import", "Api.IntDeser", "--import", "Api.IntDeserExt"],
    },
    # api/src/lib.rs: Value::array_len / obj_len - the inline length, the sentinel and the length query (C11) - and the accessors
    # that only look at the handle: as_bool, is_null, as_number, is_obj, is_array, as_error (C06)
    "ApiLenGen": {
        "src": "api/src/lib.rs",
        "args": ["--types", "Value", "--only", "array_len,obj_len,as_bool,is_null,as_number,is_obj,is_array,as_error", "--also", "{repo}/core/src/read.rs:NanBox,ValueRef", "--newtype", "NanBox",
                 "--assoc-consts-of-w", "", "--extern-enum", "ErrorCode=EC_", "--extern-consts-of-w",
                 "--extern-fn", "shopify_function_input_get_val_len=ffi_get_val_len:usize", "--oracle", "ffi_get_val_len:N -> N",
                 "--import", "Gen.NanBoxGen", "--import", "NanBox.NanBoxExt", "--import", "Gen.NanBoxFnGen"],
    },
}


def pre_int_deser(repo, src_path):
    """The macro body of `impl_deserialize_for_int!` as ten inherent functions of a unit struct (textual instantiation
    of `$ty`, what the macro expander does), so that it can be parsed as ordinary Rust."""
    import re
    src = open(src_path).read()
    m = re.search(r"macro_rules!\s*impl_deserialize_for_int\s*\{\s*\(\$ty:ty\)\s*=>\s*\{(.*?)\n\s*\};\s*\}", src, re.S)
    if not m:
        raise TranslatorError("T8: macro impl_deserialize_for_int!($ty:ty) not found in api/src/read.rs")
    body = m.group(1)
    f = re.search(r"fn\s+deserialize\s*\(\s*value\s*:\s*&Value\s*\)\s*->\s*Result<Self,\s*Error>\s*(\{.*\})\s*\}\s*$", body.strip(), re.S)
    if not f:
        raise TranslatorError("T8: `fn deserialize(value: &Value) -> Result<Self, Error>` not found inside impl_deserialize_for_int!")
    fbody = f.group(1)
    tys = re.findall(r"^impl_deserialize_for_int!\((\w+)\);", src, re.M)
    if len(tys) < 1:
        raise TranslatorError("T8: no instantiation of impl_deserialize_for_int! found")
    line = src[:m.start()].count("\n") + 1
    out = "// instantiations of impl_deserialize_for_int! (api/src/read.rs:%d) for %s\nstruct IntDeser;\nimpl IntDeser {\n" % (line, ", ".join(tys))
    for t in tys:
        out += "    fn deserialize_%s(value: &Value) -> Result<%s, Error> %s\n" % (t, t, fbody.replace("<$ty>", "<%s>" % t).replace("$ty", t))
    out += "}\n"
    d = os.path.join(CACHE, "rs2v")
    os.makedirs(d, exist_ok=True)
    path = os.path.join(d, "int_deser.rs")
    open(path, "w").write(out)
    return path, {"instantiated_for": tys}


def binary():
    """Build rs2v (offline, from the cargo cache) if its sources changed."""
    cdir = os.path.join(HERE, "rs2v")
    env = dict(os.environ, RUSTUP_TOOLCHAIN=TOOLCHAIN, CARGO_NET_OFFLINE="true",
               CARGO_TARGET_DIR=os.path.join(CACHE, "target"))
    env.pop("RUSTFLAGS", None)
    p = subprocess.run(["cargo", "build", "--offline", "--release", "-q"], cwd=cdir, env=env,
                       stdout=subprocess.PIPE, stderr=subprocess.STDOUT, text=True, timeout=900)
    if p.returncode != 0:
        raise TranslatorError("T8: rs2v does not build: " + p.stdout[-1500:])
    return os.path.join(CACHE, "target", "release", "rs2v")


def generate(repo, name, coq_dir=None):
    t = TARGETS[name]
    out = os.path.join(coq_dir or os.path.join(VERIF, "coq"), "theories", "Gen", name + ".v")
    src, extra = os.path.join(repo, t["src"]), {}
    if t.get("pre"):
        src, extra = globals()["pre_" + t["pre"]](repo, src)
    p = subprocess.run([binary(), "--src", src, "--out", out] + [a.replace("{repo}", repo) for a in t["args"]],
                       stdout=subprocess.PIPE, stderr=subprocess.STDOUT, text=True, timeout=120)
    if p.returncode != 0:
        raise TranslatorError(p.stdout.strip()[-800:] or "T8: rs2v failed")
    n = sum(1 for l in open(out) if l.startswith(("Definition ", "Fixpoint ", "with ")) and "(W : N) (trap : bool)" in l)
    return dict({"file": "Gen/" + name + ".v", "source": t["src"], "functions_translated": n}, **extra)


if __name__ == "__main__":
    repo = sys.argv[1] if len(sys.argv) > 1 else "/repo"
    for n in (sys.argv[2:] or TARGETS):
        print(generate(repo, n))
