#!/usr/bin/env python3
"""T7: regenerate coq/theories/Gen/TrampGen.v from trampoline/src/lib.rs: the tables the rewrite model
(coq/theories/Tramp/Rewrite.v) is parametric in.
  - IMPORTS (original name, new name), in source order, constants resolved
  - PROVIDER_MODULE_NAME (prefix literal + CARGO_PKG_VERSION_MAJOR of trampoline/Cargo.toml) and the
    `starts_with("...")` version prefix used by apply()
  - the extra names apply() tolerates (`import.name != "..."` literals of the unexpected-import test)
  - per emit_* function: the import it looks up, the signature it validates, the low-level import it
    adds (name + signature) and the helpers it requests, in source order
  - which IMPORTS entries apply() dispatches to which emit_* function (the match arms)"""
import os, re, sys
sys.path.insert(0, os.path.dirname(__file__))
from tcommon import write_if_changed, TranslatorError, line_of

VT = {"I32": "TI32", "I64": "TI64", "F32": "TF32", "F64": "TF64"}


def strip_comments(src):
    return re.sub(r"//[^\n]*", "", src)


def valtypes(txt, where):
    out = []
    for t in re.findall(r"ValType::([A-Za-z0-9]+)", txt):
        if t not in VT:
            raise TranslatorError(f"T7: unsupported ValType::{t} in {where}")
        out.append(VT[t])
    return out


def fn_body(src, name):
    m = re.search(r"fn\s+" + re.escape(name) + r"\s*\(", src)
    if not m:
        raise TranslatorError(f"T7: fn {name} not found in trampoline/src/lib.rs")
    i = src.index("{", m.end())
    depth, j = 0, i
    while j < len(src):
        if src[j] == "{":
            depth += 1
        elif src[j] == "}":
            depth -= 1
            if depth == 0:
                return src[i:j + 1], line_of(src, m.start())
        j += 1
    raise TranslatorError(f"T7: unbalanced braces in fn {name}")


def generate(repo, out):
    path = os.path.join(repo, "trampoline/src/lib.rs")
    raw = open(path).read()
    # the test module is not part of the tool
    cut = raw.find("#[cfg(test)]")
    src = strip_comments(raw[:cut] if cut >= 0 else raw)
    consts = dict(re.findall(r'const\s+([A-Z_0-9]+)\s*:\s*&str\s*=\s*"([^"]*)"\s*;', src))

    def lit(tok, where):
        tok = tok.strip()
        if tok.startswith('"') and tok.endswith('"'):
            return tok[1:-1]
        if tok in consts:
            return consts[tok]
        raise TranslatorError(f"T7: cannot resolve string `{tok}` in {where}")

    m = re.search(r"static\s+IMPORTS\s*:\s*&\[\(&str,\s*&str\)\]\s*=\s*&\[(.*?)\];", src, re.S)
    if not m:
        raise TranslatorError("T7: `static IMPORTS: &[(&str, &str)] = &[...]` not found")
    imports = []
    for a, b in re.findall(r"\(\s*([A-Z_0-9]+|\"[^\"]*\")\s*,\s*([A-Z_0-9]+|\"[^\"]*\")\s*,?\s*\)", m.group(1)):
        imports.append((lit(a, "IMPORTS"), lit(b, "IMPORTS")))
    if not imports:
        raise TranslatorError("T7: IMPORTS is empty or unparsable")
    imports_line = line_of(raw, raw.find("static IMPORTS"))

    m = re.search(r'PROVIDER_MODULE_NAME\s*:\s*&str\s*=\s*concat!\(\s*"([^"]*)"\s*,\s*env!\("CARGO_PKG_VERSION_MAJOR"\)\s*\)', src)
    if m:
        cargo = open(os.path.join(repo, "trampoline/Cargo.toml")).read()
        v = re.search(r'^\s*version\s*=\s*"(\d+)\.', cargo, re.M)
        if not v:
            ws = open(os.path.join(repo, "Cargo.toml")).read()
            v = re.search(r'^\s*version\s*=\s*"(\d+)\.', ws, re.M) if re.search(r"version\.workspace\s*=\s*true|version\s*=\s*\{\s*workspace", cargo) else None
        if not v:
            raise TranslatorError("T7: cannot determine the trampoline crate's major version")
        provider = m.group(1) + v.group(1)
    else:
        m = re.search(r'PROVIDER_MODULE_NAME\s*:\s*&str\s*=\s*"([^"]*)"', src)
        if not m:
            raise TranslatorError("T7: PROVIDER_MODULE_NAME not found")
        provider = m.group(1)

    apply_body, apply_line = fn_body(src, "apply")
    m = re.search(r'import\.module\.starts_with\(\s*"([^"]*)"\s*\)', apply_body)
    if not m:
        raise TranslatorError('T7: `import.module.starts_with("...")` not found in apply()')
    prefix = m.group(1)
    extra = re.findall(r'import\.name\s*!=\s*"([^"]*)"', apply_body)
    # does the unexpected-import test also accept the NEW names of IMPORTS, and does it skip empty ones?
    accepts_new = bool(re.search(r"\*new_name\s*==\s*import\.name", apply_body))
    skips_empty_new = bool(re.search(r"!\s*new_name\.is_empty\(\)", apply_body)) or all(n != "" for _, n in imports)
    # match arms: CONST => self.emit_x()?
    arms = []
    for c, f in re.findall(r"([A-Z_0-9]+|\"[^\"]*\")\s*=>\s*self\.(emit_[a-z_0-9]+)\(\)\?", apply_body):
        arms.append((lit(c, "apply() match"), f))
    if not re.search(r"original\s*=>\s*self\.rename_imported_func\(original,\s*new\)\?", apply_body):
        raise TranslatorError("T7: the default arm `original => self.rename_imported_func(original, new)?` was not found in apply()")
    # `loop { match *original {..}; if self.module.imports.get_func(PROVIDER_MODULE_NAME, original).is_err() { break; } }`
    loops = bool(re.search(r"loop\s*\{\s*match\s+\*original\s*\{.*?\}\s*;\s*if\s+self\s*\.module\s*\.imports\s*\.get_func\(\s*PROVIDER_MODULE_NAME\s*,\s*original\s*\)\s*\.is_err\(\)\s*\{\s*break;\s*\}\s*\}", apply_body, re.S))
    if not loops and re.search(r"\b(loop|while)\b", apply_body):
        raise TranslatorError("T7: apply() contains a loop of a shape the translator does not recognise")

    specs = []
    for orig, f in arms:
        body, ln = fn_body(src, f)
        g = re.search(r"get_func\(\s*PROVIDER_MODULE_NAME\s*,\s*([A-Z_0-9]+|\"[^\"]*\")\s*\)", body)
        if not g:
            raise TranslatorError(f"T7: get_func(PROVIDER_MODULE_NAME, ..) not found in {f}")
        looked = lit(g.group(1), f)
        v = re.search(r"validate_params_and_results\(\s*([A-Z_0-9]+|\"[^\"]*\")\s*,\s*[a-z_0-9]+\s*,\s*&\[(.*?)\]\s*,\s*&\[(.*?)\]\s*,?\s*\)", body, re.S)
        if not v:
            raise TranslatorError(f"T7: validate_params_and_results(..) not found in {f}")
        t = re.search(r"types\s*\.add\(\s*&\[(.*?)\]\s*,\s*&\[(.*?)\]\s*\)", body, re.S)
        a = re.search(r"add_import_func\(\s*PROVIDER_MODULE_NAME\s*,\s*\"([^\"]*)\"", body)
        if not t or not a:
            raise TranslatorError(f"T7: types.add / add_import_func not found in {f}")
        if not re.search(r"replace_imported_func\(", body):
            raise TranslatorError(f"T7: replace_imported_func not found in {f}")
        helpers = []
        for h in re.finditer(r"self\.(emit_memcpy_to_guest|emit_memcpy_to_provider|emit_alloc|provider_memory_id)\(\)", body):
            helpers.append({"emit_memcpy_to_guest": "HToGuest", "emit_memcpy_to_provider": "HToProvider", "emit_alloc": "HAlloc", "provider_memory_id": "HProvMem"}[h.group(1)])
        order_ok = body.find("validate_params_and_results") < body.find("add_import_func") < body.find("replace_imported_func")
        if not order_ok:
            raise TranslatorError(f"T7: {f} no longer validates before adding the import and replacing the function")
        specs.append(dict(orig=orig, fn=f, line=ln, looked=looked, vname=lit(v.group(1), f),
                          params=valtypes(v.group(2), f), results=valtypes(v.group(3), f),
                          new=a.group(1), nparams=valtypes(t.group(1), f), nresults=valtypes(t.group(2), f), helpers=helpers))
    # helper internals: which imports they add
    alloc_body, _ = fn_body(src, "emit_shopify_function_alloc_import")
    am = re.search(r'add_import_func\(\s*PROVIDER_MODULE_NAME\s*,\s*"([^"]*)"', alloc_body)
    at = re.search(r"types\.add\(\s*&\[(.*?)\]\s*,\s*&\[(.*?)\]\s*\)", alloc_body, re.S)
    pm_body, _ = fn_body(src, "provider_memory_id")
    pm = re.search(r'add_import_memory\(\s*PROVIDER_MODULE_NAME\s*,\s*"([^"]*)"', pm_body)
    if not am or not at or not pm:
        raise TranslatorError("T7: the alloc import / provider memory import helpers were not recognised")
    gm_body, _ = fn_body(src, "guest_memory_id")
    if "memory.import.is_none()" not in gm_body.replace(" ", "").replace("\n", "") and "import.is_none()" not in gm_body:
        raise TranslatorError("T7: guest_memory_id no longer filters on `memory.import.is_none()`")

    q = lambda s: '"' + s + '"'
    tl = lambda l: "[" + "; ".join(l) + "]"
    rows = ";\n   ".join(f"({q(a)}, {q(b)})" for a, b in imports)
    srows = ";\n   ".join(
        f"{{| s_orig := {q(s['orig'])}; s_looked := {q(s['looked'])}; s_params := {tl(s['params'])}; s_results := {tl(s['results'])};\n"
        f"      s_new := {q(s['new'])}; s_new_sig := ({tl(s['nparams'])}, {tl(s['nresults'])}); s_helpers := {tl(s['helpers'])} |}}  (* {s['fn']}, lib.rs:{s['line']} *)"
        for s in specs)
    b = lambda x: "true" if x else "false"
    text = f"""(* GENERATED by translators/gen_tramp.py (translator T7) from trampoline/src/lib.rs -- do not edit *)
From Coq Require Import NArith List String.
From SFV Require Import Abi.AbiTypes Tramp.RewriteTypes.
Import ListNotations.
Open Scope string_scope.

Definition provider_module : string := {q(provider)}.
(* apply(), lib.rs:{apply_line}: import.module.starts_with(..) *)
Definition version_prefix : string := {q(prefix)}.
(* static IMPORTS, lib.rs:{imports_line} *)
Definition imports_table : list (string * string) :=
  [{rows}].
(* names the unexpected-import test tolerates besides IMPORTS *)
Definition extra_allowed : list string := {tl([q(x) for x in extra])}.
Definition accepts_new_names : bool := {b(accepts_new)}.
Definition skips_empty_new_names : bool := {b(skips_empty_new)}.
(* the string-carrying imports: one emit_* function each, in the order of their match arms *)
Definition string_specs : list sspec :=
  [{srows}].
Definition alloc_import : string * sig := ({q(am.group(1))}, ({tl(valtypes(at.group(1), 'alloc'))}, {tl(valtypes(at.group(2), 'alloc'))})).
Definition provider_memory_name : string := {q(pm.group(1))}.
(* does apply() repeat an IMPORTS entry while a function import of that name is left, or handle only the first one? *)
Definition entry_loops : bool := {b(loops)}.
"""
    info = {"imports": len(imports), "string_specs": len(specs), "provider_module": provider, "extra_allowed": extra,
            "entry_loops": loops, "skips_empty_new_names": skips_empty_new}
    return write_if_changed(out, text), info


if __name__ == "__main__":
    repo = sys.argv[1] if len(sys.argv) > 1 else "/repo"
    out = sys.argv[2] if len(sys.argv) > 2 else os.path.join(os.path.dirname(__file__), "../coq/theories/Gen/TrampGen.v")
    print(generate(repo, out))
