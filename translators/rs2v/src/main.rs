//! T8 `rs2v`: translate a small imperative, integer-only subset of Rust (the state machines and
//! bit codecs of shopify-function-wasm-api) into executable Gallina, so that the Coq model of those
//! parts is REGENERATED from /repo's source on every run instead of transcribed by hand.
//!
//! Scheme (all decisions are syntactic; anything not recognised is a hard error, i.e. a broken tie):
//!  * every function becomes `Definition T_f (W : N) (trap : bool) args : gres (outs.. * ret)` in the error
//!    monad `gres` of Base/RsPrelude.v (`GPanic site` for overflow in a `trap` build, index/slice out of
//!    range, failed `assert!`/`unwrap`), state-passing: the current values of `&mut self` and of every
//!    `&mut` parameter are returned in front of the return value;
//!  * statements are translated with the REST of the block duplicated into the branches of `if`/`match`
//!    (so early `return`, deferred initialisation and assignment in branches need no join points);
//!  * `usize`/`uN` arithmetic `+ - *` goes through `u_add/u_sub/u_mul W trap` (wrap or panic), `/ %`
//!    through `u_div/u_rem` unless the divisor is a non-zero literal; `Vec` is a list in push order;
//!  * a `match` on a `&mut` place that binds a payload by reference records an alias, and every
//!    mutation of the alias is written back into its parent;
//!  * raw pointers into the one buffer of a struct are offsets (`option N`, `None` = null).
use proc_macro2::Span;
use std::collections::{BTreeMap, HashMap, HashSet};
use std::fmt::Write as _;
use syn::spanned::Spanned;
use syn::*;

type R<T> = std::result::Result<T, String>;

fn err<T>(what: &str, sp: Span) -> R<T> {
    Err(format!("T8: unsupported construct at line {}: {}", sp.start().line, what))
}

#[derive(Clone, Debug, PartialEq)]
enum Ty {
    Int(String), // usize u8 u32 u64 u128 Val ...
    Bool,
    Ptr,
    Unit,
    F64,
    List(Box<Ty>),
    Tuple(Vec<Ty>),
    Opt(Box<Ty>),
    Res(Box<Ty>),   // Result<T, ErrorCode-like extern enum>: `rres T`
    F32,
    Named(String),  // local struct / enum
    Extern(String), // external C-like enum, modelled by its discriminant (N)
    Unknown,
}

static F64_DECODED: std::sync::atomic::AtomicBool = std::sync::atomic::AtomicBool::new(false);

impl Ty {
    fn coq(&self) -> String {
        let dec = F64_DECODED.load(std::sync::atomic::Ordering::Relaxed);
        match self {
            Ty::F64 if dec => "fval".into(),
            Ty::Int(_) if dec => "Z".into(),
            Ty::Int(k) if is_signed(k) => "Z".into(),
            Ty::Int(_) | Ty::Extern(_) | Ty::F64 => "N".into(),
            Ty::Bool => "bool".into(),
            Ty::Ptr => "(option N)".into(),
            Ty::Unit => "unit".into(),
            Ty::List(t) => format!("(list {})", t.coq()),
            Ty::Opt(t) => format!("(option {})", t.coq()),
            Ty::Res(t) => format!("(rres {})", t.coq()),
            Ty::F32 => "N".into(),
            Ty::Tuple(ts) => {
                if ts.is_empty() {
                    "unit".into()
                } else {
                    format!("({})", ts.iter().map(|t| t.coq()).collect::<Vec<_>>().join(" * "))
                }
            }
            Ty::Named(n) => n.clone(),
            Ty::Unknown => "_".into(),
        }
    }
    fn is_int(&self) -> bool {
        matches!(self, Ty::Int(_) | Ty::Extern(_))
    }
}

#[derive(Clone, Debug)]
struct Sig {
    owner: String,
    name: String,
    recv: Option<bool>,                // None = static, Some(true) = &mut self, Some(false) = &self / self
    params: Vec<(String, Ty, bool)>,   // name, type, is &mut
    ret: Ty,
    dropped: Vec<usize>,               // positions of parameters that are not modelled (allocators)
}

struct Cfg {
    extern_enums: HashMap<String, String>, // type name -> constructor prefix
    aliases: HashMap<String, String>,      // type alias -> rust type
    const_w: bool,                         // associated consts are functions of W (regenerated elsewhere)
    const_prefix: String,
    skip_fns: HashSet<String>,
    only_fns: Option<HashSet<String>>,
    val_is_2w: bool,
    extern_w: bool,                          // extern enum constants are functions of W
    newtypes: HashSet<String>,               // single-field tuple structs represented by their field
    extern_methods: HashMap<String, String>, // "Type::method" -> Gallina function (W, receiver, args) of the hand-written support file
    append_fns: HashMap<String, String>,     // `path::f(&mut buf, args..)` appends `(g args..)` to the byte buffer `buf`
    ptr_buffer: Option<String>,              // the field of `self` that raw destination pointers point into
    also: Vec<(String, Vec<String>)>,        // further source files whose types / signatures are known (generated elsewhere)
    synth_structs: Vec<String>,              // `Name{field:Type,..}`: a struct defined in another file, only these fields used
    foreign_types: Vec<String>,              // `Name{..}` (struct, `f:T;..`) or `Name{A;B(T);..}` (enum): defined by hand in an imported file
    extern_fns: HashMap<String, (String, String)>, // `path::f` -> (Gallina function, result type)
    drop_params: HashSet<String>,
    impl_of: HashSet<String>,                // foreign types whose (selected) methods are translated here
    f64_decoded: bool,                       // f64 values are decoded doubles (Base/F64.v `fval`), integers are `Z` (api/src/read.rs)
    wrappers: Option<String>,                // exported functions `T::with_mut(|c| body)` are translated as methods of T
    derive_eq: bool,                         // emit `T_eqb` for types deriving PartialEq
    oracles: Vec<(String, String)>,          // extra parameters of every generated function (foreign calls): (name, Coq type)
    use_fns: HashSet<String>,                // functions of this file translated into another generated file (imported): callable, not emitted
    fuel: bool,                              // recursive functions and loops: every function takes `fuel : nat`, one mutual Fixpoint
}

struct Tr {
    cfg: Cfg,
    structs: BTreeMap<String, Vec<(String, Ty)>>,
    enums: BTreeMap<String, Vec<(String, Vec<Ty>)>>,
    unit_enums: HashSet<String>, // local C-like enums with explicit discriminants are kept as inductives
    consts: BTreeMap<String, (Ty, String)>, // file-level consts: name -> (type, gallina)
    sigs: HashMap<(String, String), Sig>,
    variant_fields: HashMap<(String, String), Vec<String>>,
    field_tyname: HashMap<(String, String), String>, // (struct, field) -> the declared type name (kept for newtypes)
    local: HashSet<(String, String)>,                // functions translated in this run (they take the oracles)
}

struct Fx<'a> {
    tr: &'a Tr,
    self_ty: String,
    outs: Vec<String>,
    ret: Ty,
    tyenv: HashMap<String, Ty>,
    alias: HashMap<String, (String, String)>, // child -> (parent, rebuild template with {} for the child)
    fresh: usize,
    calls: Vec<(String, String)>,
    ptr_src: HashMap<String, String>, // pointer variable -> the local slice value it points to the start of
    loop_mode: Option<(String, Vec<String>)>, // inside a lifted loop body: (the call that runs the next iteration, the loop-carried variables)
    lifted: Vec<String>,              // lifted loop functions (members of the mutual Fixpoint)
    full_ty: String,                  // the function's whole result type (outs * ret)
    fname: String,
    loops_done: HashMap<usize, (String, Vec<String>, Vec<String>)>, // source line of a loop -> (lifted function, free variables, carried variables)
}

fn path_str(p: &Path) -> Vec<String> {
    p.segments.iter().map(|s| s.ident.to_string()).collect()
}

impl Tr {
    /// the representation of a local type by name: a newtype is its field
    fn named(&self, n: &str) -> Ty {
        if self.cfg.newtypes.contains(n) {
            if let Some((_, t)) = self.structs.get(n).and_then(|f| f.first()) {
                if *t != Ty::Unknown {
                    return t.clone();
                }
            }
        }
        Ty::Named(n.to_string())
    }
    fn ty(&self, t: &Type) -> R<Ty> {
        Ok(match t {
            Type::Reference(r) => {
                if let Type::Slice(s) = &*r.elem {
                    Ty::List(Box::new(self.ty(&s.elem)?))
                } else {
                    self.ty(&r.elem)?
                }
            }
            Type::Ptr(_) => Ty::Ptr,
            Type::Paren(p) => self.ty(&p.elem)?,
            Type::Array(a) => Ty::List(Box::new(self.ty(&a.elem)?)),
            Type::Slice(a) => Ty::List(Box::new(self.ty(&a.elem)?)),
            Type::Tuple(t) => {
                if t.elems.is_empty() {
                    Ty::Unit
                } else {
                    Ty::Tuple(t.elems.iter().map(|e| self.ty(e)).collect::<R<Vec<_>>>()?)
                }
            }
            Type::Path(p) => {
                let segs = path_str(&p.path);
                let last = segs.last().unwrap().clone();
                self.ty_name(&last, p)?
            }
            _ => return err("type", t.span()),
        })
    }
    fn ty_name(&self, last: &str, p: &TypePath) -> R<Ty> {
        Ok(match last {
            "usize" | "u8" | "u16" | "u32" | "u64" | "u128" | "Val" | "isize" | "i8" | "i16" | "i32" | "i64" => Ty::Int(last.into()),
            "f32" => Ty::F32,
            "bool" => Ty::Bool,
            "f64" => Ty::F64,
            "Self" => Ty::Named("Self".into()),
            "Option" => {
                let seg = p.path.segments.last().unwrap();
                if let PathArguments::AngleBracketed(a) = &seg.arguments {
                    if let Some(GenericArgument::Type(t)) = a.args.first() {
                        return Ok(Ty::Opt(Box::new(self.ty(t)?)));
                    }
                }
                return err("Option without a type", p.span());
            }
            "Vec" => {
                let seg = p.path.segments.last().unwrap();
                if let PathArguments::AngleBracketed(a) = &seg.arguments {
                    if let Some(GenericArgument::Type(t)) = a.args.first() {
                        return Ok(Ty::List(Box::new(self.ty(t)?)));
                    }
                }
                return err("Vec without element type", p.span());
            }
            _ => {
                if let Some(a) = self.cfg.aliases.get(last) {
                    let t: Type = syn::parse_str(a).map_err(|e| e.to_string())?;
                    self.ty(&t)?
                } else if self.cfg.extern_enums.contains_key(last) {
                    Ty::Extern(last.into())
                } else if self.cfg.newtypes.contains(last) {
                    match self.structs.get(last).and_then(|f| f.first()) {
                        Some((_, t)) if *t != Ty::Unknown => t.clone(),
                        _ => Ty::Named(last.into()),
                    }
                } else if self.structs.contains_key(last) || self.enums.contains_key(last) {
                    Ty::Named(last.into())
                } else {
                    Ty::Unknown
                }
            }
        })
    }
}

fn intty_ctor(k: &str) -> String {
    let mut c = k.chars();
    match c.next() { Some(f) => f.to_uppercase().collect::<String>() + c.as_str(), None => String::new() }
}

fn bytes_of(k: &str) -> &'static str {
    match k { "i8" | "u8" => "1", "i16" | "u16" => "2", "i32" | "u32" | "f32" => "4", _ => "8" }
}

fn is_signed(k: &str) -> bool {
    matches!(k, "i8" | "i16" | "i32" | "i64" | "isize")
}

fn int_lit(l: &LitInt) -> String {
    let d = l.base10_digits();
    d.to_string()
}

impl<'a> Fx<'a> {
    /// the type a path segment names: `Self`, or a configured alias of a plain type name
    fn resolve_owner(&self, n: &str) -> String {
        if n == "Self" { return self.self_ty.clone(); }
        match self.tr.cfg.aliases.get(n) {
            Some(a) if a.chars().all(|c| c.is_alphanumeric() || c == '_') && !matches!(a.as_str(), "usize" | "u8" | "u16" | "u32" | "u64" | "u128" | "Val") => a.clone(),
            _ => n.to_string(),
        }
    }
    fn fresh(&mut self, base: &str) -> String {
        self.fresh += 1;
        format!("{}_{}", base, self.fresh)
    }
    fn resolve_self(&self, t: Ty) -> Ty {
        match t {
            Ty::Named(n) if n == "Self" => self.tr.named(&self.self_ty),
            Ty::Named(n) => self.tr.named(&n),
            Ty::Opt(t) => Ty::Opt(Box::new(self.resolve_self(*t))),
            Ty::Res(t) => Ty::Res(Box::new(self.resolve_self(*t))),
            Ty::Tuple(ts) => Ty::Tuple(ts.into_iter().map(|t| self.resolve_self(t)).collect()),
            o => o,
        }
    }
    /// lines that write a rebound variable back into the places it aliases
    fn writeback(&self, v: &str, out: &mut String) {
        let mut cur = v.to_string();
        while let Some((parent, tmpl)) = self.alias.get(&cur) {
            let _ = writeln!(out, "let {} := {} in", parent, tmpl.replace("{}", &cur));
            cur = parent.clone();
        }
    }
    fn ret_expr(&self, atom: Option<&str>) -> String {
        let mut parts: Vec<String> = self.outs.clone();
        if let Some(a) = atom {
            if self.ret != Ty::Unit {
                parts.push(a.to_string());
            }
        }
        let val = if parts.is_empty() { "tt".to_string() } else if parts.len() == 1 { paren(&parts[0]) } else { format!("({})", parts.join(", ")) };
        if self.loop_mode.is_some() {
            // a `return` (or `?`) inside a loop body leaves the whole function
            return format!("GOk (LRet {})", val);
        }
        format!("GOk {}", val)
    }
    /// control reaches the end of the block being translated: the function returns unit, or (inside a
    /// lifted loop body) the next iteration runs
    fn fall_off(&self) -> String {
        match &self.loop_mode {
            Some((call, carried)) => format!("{} {}", call, carried.join(" ")),
            None => self.ret_expr(None),
        }
    }
    /// leaving the loop (`break`, or the counter reached zero): hand the loop-carried variables back
    fn loop_exit(carried: &[String]) -> String {
        if carried.is_empty() { "GOk (LNext tt)".into() } else if carried.len() == 1 { format!("GOk (LNext {})", carried[0]) } else { format!("GOk (LNext ({}))", carried.join(", ")) }
    }

    // ------------------------------------------------------------------ places
    /// A place expression `x`, `x.f`, `x.f.g`, `*x`: returns (root variable, field path with owner types).
    fn place(&self, e: &Expr) -> R<(String, Vec<(String, String)>)> {
        match e {
            Expr::Path(p) if p.path.segments.len() == 1 => Ok((p.path.segments[0].ident.to_string(), vec![])),
            Expr::Unary(u) if matches!(u.op, UnOp::Deref(_)) => self.place(&u.expr),
            Expr::Paren(p) => self.place(&p.expr),
            Expr::Reference(r) => self.place(&r.expr),
            Expr::MethodCall(m) if m.args.is_empty() && matches!(m.method.to_string().as_str(), "as_slice" | "as_mut_vec" | "as_mut_slice" | "as_vec") => self.place(&m.receiver),
            Expr::Field(f) => {
                let (root, mut fs) = self.place(&f.base)?;
                let bt = self.place_ty(&root, &fs)?;
                if matches!(&f.member, Member::Unnamed(i) if i.index == 0) && !matches!(bt, Ty::Named(_) | Ty::Tuple(_)) {
                    // `.0` of a newtype that is represented by its field
                    return Ok((root, fs));
                }
                let owner = match bt {
                    Ty::Named(n) => n,
                    _ => return err("field of a non-struct place", e.span()),
                };
                let fname = match &f.member {
                    Member::Named(i) => i.to_string(),
                    Member::Unnamed(i) => format!("f{}", i.index),
                };
                fs.push((owner, fname));
                Ok((root, fs))
            }
            _ => err("place expression", e.span()),
        }
    }
    fn place_ty(&self, root: &str, fs: &[(String, String)]) -> R<Ty> {
        let mut t = self.tyenv.get(root).cloned().unwrap_or(Ty::Unknown);
        for (owner, f) in fs {
            let fields = self.tr.structs.get(owner).ok_or(format!("T8: unknown struct {}", owner))?;
            t = fields.iter().find(|(n, _)| n == f).map(|(_, t)| t.clone()).ok_or(format!("T8: unknown field {}.{}", owner, f))?;
        }
        Ok(self.resolve_self(t))
    }
    fn place_get(&self, root: &str, fs: &[(String, String)]) -> String {
        let mut s = root.to_string();
        for (owner, f) in fs {
            s = format!("({}_{} {})", owner, f, s);
        }
        s
    }
    /// lines that store `val` into the place and write back
    fn place_set(&self, root: &str, fs: &[(String, String)], val: &str, out: &mut String) {
        if fs.is_empty() {
            if val != root {
                let _ = writeln!(out, "let {} := {} in", root, val);
            }
        } else {
            // rebuild from the inside out
            let mut v = val.to_string();
            for k in (0..fs.len()).rev() {
                let base = self.place_get(root, &fs[..k]);
                v = format!("({}_set_{} {} {})", fs[k].0, fs[k].1, base, v);
            }
            let _ = writeln!(out, "let {} := {} in", root, v);
        }
        self.writeback(root, out);
    }

    // ------------------------------------------------------------------ expressions
    /// Translate an expression; `pre` receives binding lines; returns (atom, type).
    fn expr(&mut self, e: &Expr, pre: &mut String) -> R<(String, Ty)> {
        match e {
            Expr::Lit(l) => match &l.lit {
                Lit::Int(i) => Ok((int_lit(i), Ty::Int(if i.suffix().is_empty() { "usize".into() } else { i.suffix().to_string() }))),
                Lit::Bool(b) => Ok((if b.value { "true".into() } else { "false".into() }, Ty::Bool)),
                _ => err("literal", e.span()),
            },
            Expr::Paren(p) => self.expr(&p.expr, pre),
            Expr::Group(p) => self.expr(&p.expr, pre),
            Expr::Reference(r) => self.expr(&r.expr, pre),
            Expr::Unsafe(u) => self.block_value(&u.block, pre),
            Expr::Block(b) => self.block_value(&b.block, pre),
            Expr::Path(p) => self.path_expr(p),
            Expr::Field(f) => {
                if let Ok((root, fs)) = self.place(e) {
                    let t = self.place_ty(&root, &fs)?;
                    return Ok((self.place_get(&root, &fs), t));
                }
                // `.0` / `.1` of a pair-valued expression
                let (a, t) = self.expr(&f.base, pre)?;
                match (&f.member, t) {
                    (Member::Unnamed(i), Ty::Tuple(ts)) if ts.len() == 2 && i.index < 2 => {
                        Ok((format!("({} {})", if i.index == 0 { "fst" } else { "snd" }, a), ts[i.index as usize].clone()))
                    }
                    _ => err("field of a value that is neither a struct place nor a pair", e.span()),
                }
            }
            Expr::Unary(u) => match u.op {
                UnOp::Deref(_) => self.expr(&u.expr, pre),
                UnOp::Not(_) => {
                    let (a, t) = self.expr(&u.expr, pre)?;
                    match t {
                        Ty::Bool => Ok((format!("(negb {})", a), Ty::Bool)),
                        Ty::Int(k) => Ok((format!("(u_not {} {})", self.bits_of(&k), a), Ty::Int(k))),
                        _ => err("`!` on a value of unknown type", e.span()),
                    }
                }
                _ => err("unary operator", e.span()),
            },
            Expr::Binary(b) => self.binary(b, pre),
            Expr::Cast(c) => {
                let (a, from) = self.expr(&c.expr, pre)?;
                let to = if matches!(&*c.ty, Type::Infer(_)) { Ty::Unknown } else { self.tr.ty(&c.ty)? };
                self.cast(a, from, to, e.span())
            }
            Expr::Tuple(t) => {
                let mut atoms = vec![];
                let mut tys = vec![];
                for x in &t.elems {
                    let (a, ty) = self.expr(x, pre)?;
                    atoms.push(a);
                    tys.push(ty);
                }
                if atoms.is_empty() {
                    Ok(("tt".into(), Ty::Unit))
                } else {
                    Ok((format!("({})", atoms.join(", ")), Ty::Tuple(tys)))
                }
            }
            Expr::Struct(s) if s.path.segments.len() >= 2 && self.tr.variant_fields.contains_key(&({ let sg = path_str(&s.path); self.resolve_owner(&sg[sg.len() - 2]) }, path_str(&s.path).last().unwrap().clone())) => {
                let sg = path_str(&s.path);
                let owner = self.resolve_owner(&sg[sg.len() - 2]);
                let var = sg.last().unwrap().clone();
                let names = self.tr.variant_fields.get(&(owner.clone(), var.clone())).unwrap().clone();
                let mut vals: HashMap<String, String> = HashMap::new();
                for fv in &s.fields {
                    if let Member::Named(i) = &fv.member {
                        let (a, _) = self.expr(&fv.expr, pre)?;
                        vals.insert(i.to_string(), a);
                    }
                }
                let mut args = vec![];
                for f in &names {
                    args.push(paren(&vals.get(f).cloned().ok_or(format!("T8: field {} missing in {}::{}", f, owner, var))?));
                }
                Ok((format!("({}_{} {})", owner, var, args.join(" ")), Ty::Named(owner)))
            }
            Expr::Struct(s) => {
                let name = self.type_of_path(&s.path)?;
                let fields = self.tr.structs.get(&name).ok_or(format!("T8: unknown struct literal {}", name))?.clone();
                let mut vals: HashMap<String, String> = HashMap::new();
                for fv in &s.fields {
                    let fname = match &fv.member {
                        Member::Named(i) => i.to_string(),
                        Member::Unnamed(i) => format!("f{}", i.index),
                    };
                    let (a, _) = self.expr(&fv.expr, pre)?;
                    vals.insert(fname, a);
                }
                if s.rest.is_some() {
                    return err("struct update syntax", e.span());
                }
                let mut args = vec![];
                for (f, _) in &fields {
                    args.push(vals.get(f).cloned().ok_or(format!("T8: field {} missing in literal of {}", f, name))?);
                }
                Ok((format!("(mk{} {})", name, args.join(" ")), Ty::Named(name)))
            }
            Expr::If(i) => {
                // value-producing if: both branches translated monadically when they need bindings
                let (c, _) = self.expr(&i.cond, pre)?;
                let mut p1 = String::new();
                let (a1, t1) = self.block_value(&i.then_branch, &mut p1)?;
                let els = match &i.else_branch {
                    Some((_, e)) => e,
                    None => return err("value `if` without else", e.span()),
                };
                let mut p2 = String::new();
                let (a2, t2) = self.expr(els, &mut p2)?;
                let t = if t1 == Ty::Unknown { t2 } else { t1 };
                if p1.is_empty() && p2.is_empty() {
                    Ok((format!("(if {} then {} else {})", c, a1, a2), t))
                } else {
                    let v = self.fresh("v");
                    let _ = writeln!(pre, "gbind (if {} then ({}GOk {}) else ({}GOk {})) (fun {} =>", c, p1, paren(&a1), p2, paren(&a2), v);
                    self.calls.push(("".into(), ")".into()));
                    Ok((v, t))
                }
            }
            Expr::Try(t) => {
                let (a, ty) = self.expr(&t.expr, pre)?;
                if let Ty::Res(t) = ty {
                    let v = self.fresh("q");
                    let c = self.fresh("ec");
                    let bail = self.ret_expr(Some(&format!("(RErr {})", c)));
                    let _ = writeln!(pre, "match {} with RErr {} => {} | ROk {} =>", a, c, bail, v);
                    self.calls.push(("".into(), " end".into()));
                    return Ok((v, *t));
                }
                let inner = match ty {
                    Ty::Opt(t) => *t,
                    _ => Ty::Unknown,
                };
                let v = self.fresh("q");
                let none = self.ret_expr(Some("None"));
                let _ = writeln!(pre, "match {} with None => {} | Some {} =>", a, none, v);
                self.calls.push(("".into(), " end".into()));
                Ok((v, inner))
            }
            Expr::Array(a) => {
                let mut atoms = vec![];
                let mut t = Ty::Unknown;
                for x in &a.elems { let (v, ty) = self.expr(x, pre)?; atoms.push(v); t = ty; }
                Ok((format!("[{}]", atoms.join("; ")), Ty::List(Box::new(t))))
            }
            Expr::MethodCall(m) => self.method_call(m, pre),
            Expr::Call(c) => self.call(c, pre),
            Expr::Index(ix) => {
                let (a, t) = self.expr(&ix.expr, pre)?;
                let elt = match t {
                    Ty::List(t) => *t,
                    _ => Ty::Unknown,
                };
                if let Expr::Range(r) = &*ix.index {
                    let lo = match &r.start {
                        Some(s) => self.expr(s, pre)?.0,
                        None => "0".into(),
                    };
                    let v = self.fresh("sl");
                    match &r.end {
                        Some(h) => {
                            let (hi, _) = self.expr(h, pre)?;
                            let _ = writeln!(pre, "gbind (vec_slice {} {} {}) (fun {} =>", a, lo, hi, v);
                        }
                        None => {
                            let _ = writeln!(pre, "gbind (vec_slice_from {} {}) (fun {} =>", a, lo, v);
                        }
                    }
                    self.calls.push(("".into(), ")".into()));
                    // remember where the slice starts so that `.as_ptr()` on it is an offset
                    self.tyenv.insert(format!("{}#base", v), Ty::Unknown);
                    self.alias.insert(format!("{}#lo", v), (lo, String::new()));
                    Ok((v, Ty::List(Box::new(elt))))
                } else {
                    let (i, _) = self.expr(&ix.index, pre)?;
                    let v = self.fresh("el");
                    let _ = writeln!(pre, "gbind (vec_index {} {}) (fun {} =>", a, i, v);
                    self.calls.push(("".into(), ")".into()));
                    Ok((v, elt))
                }
            }
            Expr::Macro(m) if m.mac.path.is_ident("matches") => {
                // `matches!(e, PAT)` / `matches!(e, PAT if guard)`
                let (scrut, pat, guard) = m.mac.parse_body_with(|input: syn::parse::ParseStream| {
                    let e: Expr = input.parse()?;
                    input.parse::<Token![,]>()?;
                    let p = Pat::parse_multi_with_leading_vert(input)?;
                    let g = if input.peek(Token![if]) { input.parse::<Token![if]>()?; Some(input.parse::<Expr>()?) } else { None };
                    let _ = input.parse::<Option<Token![,]>>()?;
                    Ok((e, p, g))
                }).map_err(|e| format!("T8: matches!: {}", e))?;
                let (a, t) = self.expr(&scrut, pre)?;
                let save = (self.tyenv.clone(), self.alias.clone());
                let pt = self.gpat(&pat, &t)?;
                let res = match guard {
                    None => Ok((format!("(match {} with {} => true | _ => false end)", a, pt), Ty::Bool)),
                    Some(g) => {
                        let mut p2 = String::new();
                        let depth = self.calls.len();
                        let (b, _) = self.expr(&g, &mut p2)?;
                        let closers = self.close(depth);
                        let v = self.fresh("mt");
                        let _ = writeln!(pre, "gbind (match {} with {} => ({}GOk {}{}) | _ => GOk false end) (fun {} =>", a, pt, p2, paren(&b), closers, v);
                        self.calls.push(("".into(), ")".into()));
                        Ok((v, Ty::Bool))
                    }
                };
                self.tyenv = save.0;
                self.alias = save.1;
                res
            }
            Expr::Macro(m) => {
                let name = path_str(&m.mac.path).join("::");
                err(&format!("macro {}! in expression position", name), e.span())
            }
            _ => { use quote::ToTokens; let t = e.to_token_stream().to_string(); err(&format!("expression `{}`", t.chars().take(80).collect::<String>()), e.span()) }
        }
    }

    fn bits_of(&self, k: &str) -> String {
        match k {
            "usize" | "isize" => "W".into(),
            "Val" => if self.tr.cfg.val_is_2w { "(2 * W)".into() } else { "W".into() },
            "u8" | "i8" => "8".into(),
            "u16" | "i16" => "16".into(),
            "u32" | "i32" => "32".into(),
            "u64" | "i64" => "64".into(),
            "u128" => "128".into(),
            _ => "W".into(),
        }
    }

    fn cast(&mut self, a: String, from: Ty, to: Ty, sp: Span) -> R<(String, Ty)> {
        match (&from, &to) {
            (_, Ty::Unknown) => Ok((a, from)), // `as _`: type decided by the callee; handled at call sites
            (Ty::Int(f), Ty::F64) if self.tr.cfg.f64_decoded => { let _ = f; Ok((format!("(decode (of_int {}))", a), Ty::F64)) }
            (Ty::F64, Ty::Int(t)) if self.tr.cfg.f64_decoded => {
                let c = intty_ctor(t);
                Ok((format!("(f_cast (int_min W {}) (int_max W {}) {})", c, c, a), to))
            }
            (Ty::Int(f), Ty::F64) => Ok((if is_signed(f) { format!("(of_int {})", a) } else { format!("(of_int (Z.of_N {}))", a) }, Ty::F64)),
            (Ty::F32, Ty::F64) => Ok((format!("(of_f32 {})", a), Ty::F64)),
            (Ty::F64, Ty::F64) => Ok((a, Ty::F64)),
            (Ty::Int(f), Ty::Int(t)) if !is_signed(f) && is_signed(t) && self.bits_of(f) == self.bits_of(t) => {
                // reinterpretation of the same bits as two's complement
                Ok((format!("(to_signed {} {})", bytes_of(t), a), to))
            }
            (Ty::Int(f), Ty::Int(t)) => {
                let signed = |k: &str| is_signed(k);
                if f == t || (signed(f) && signed(t) && self.bits_of(f) != self.bits_of(t) && f == "i32") {
                    // same type, or the sign extension i32 -> i64 (a mathematical integer stays what it is)
                    Ok((a, to))
                } else if signed(f) || signed(t) {
                    err("cast between signed and unsigned integers", sp)
                } else {
                    Ok((format!("(u_cast {} {})", self.bits_of(t), a), to))
                }
            }
            (Ty::Extern(_), Ty::Int(t)) => Ok((format!("(u_cast {} {})", self.bits_of(t), a), to)),
            (Ty::Named(n), Ty::Int(t)) if self.tr.unit_enums.contains(n) => {
                Ok((format!("(u_cast {} ({}_discr W {}))", self.bits_of(t), n, a), to))
            }
            (Ty::Bool, Ty::Int(_)) => Ok((format!("(if {} then 1 else 0)", a), to)),
            // an integer cast to a raw pointer keeps the low `usize` bits; it stays a number here
            (Ty::Int(_), Ty::Ptr) => Ok((format!("(u_cast W {})", a), Ty::Int("usize".into()))),
            (Ty::Ptr, Ty::Int(_)) => Ok((format!("(ptr_val {})", a), to)),
            (Ty::Ptr, Ty::Ptr) => Ok((a, to)),
            (Ty::Unknown, Ty::Int(t)) => Ok((format!("(u_cast {} {})", self.bits_of(t), a), to)),
            _ => err(&format!("cast from {:?} to {:?}", from, to), sp),
        }
    }

    fn type_of_path(&self, p: &Path) -> R<String> {
        let segs = path_str(p);
        let n = segs.last().unwrap();
        if n == "Self" {
            Ok(self.self_ty.clone())
        } else {
            Ok(n.clone())
        }
    }

    fn path_expr(&mut self, p: &ExprPath) -> R<(String, Ty)> {
        if let Some(q) = &p.qself {
            // `<T>::MIN` / `<T>::MAX` of an integer type: the bounds of Api/IntDeser.v (mathematical integers)
            if let Type::Path(tp) = &*q.ty {
                let k = path_str(&tp.path).last().unwrap().clone();
                let item = path_str(&p.path).last().unwrap().clone();
                let ctor = intty_ctor(&k);
                if item == "MIN" { return Ok((format!("(int_min W {})", ctor), Ty::Int(format!("zconst:{}", k)))); }
                if item == "MAX" { return Ok((format!("(int_max W {})", ctor), Ty::Int(format!("zconst:{}", k)))); }
            }
            return err("qualified path", p.span());
        }
        let segs = path_str(&p.path);
        if segs.len() == 1 {
            let n = &segs[0];
            if let Some(t) = self.tyenv.get(n) {
                return Ok((n.clone(), self.resolve_self(t.clone())));
            }
            if let Some((t, _)) = self.tr.consts.get(n) {
                return Ok((n.clone(), t.clone()));
            }
            if n == "None" {
                return Ok(("None".into(), Ty::Opt(Box::new(Ty::Unknown))));
            }
            return Ok((n.clone(), Ty::Unknown));
        }
        let owner = self.resolve_owner(&segs[segs.len() - 2]);
        let item = segs.last().unwrap();
        if let Some(prefix) = self.tr.cfg.extern_enums.get(&owner) {
            let c = format!("{}{}", prefix, item);
            return Ok((if self.tr.cfg.extern_w { format!("({} W)", c) } else { c }, Ty::Extern(owner)));
        }
        if let Some(vs) = self.tr.enums.get(&owner) {
            if vs.iter().any(|(v, _)| v == item) {
                return Ok((format!("{}_{}", owner, item), Ty::Named(owner)));
            }
        }
        // associated / primitive constants
        if owner == "usize" && item == "MAX" {
            return Ok(("(2 ^ W - 1)".into(), Ty::Int("usize".into())));
        }
        if item == "BITS" {
            return Ok((self.bits_of(&owner), Ty::Int("u32".into())));
        }
        if let Some((t, _)) = self.tr.consts.get(&format!("{}::{}", owner, item)) {
            let name = format!("{}{}", self.tr.cfg.const_prefix, item);
            return Ok((if self.tr.cfg.const_w { format!("({} W)", name) } else { name }, t.clone()));
        }
        err(&format!("path {}", segs.join("::")), p.span())
    }

    fn binary(&mut self, b: &ExprBinary, pre: &mut String) -> R<(String, Ty)> {
        use BinOp::*;
        // short-circuit operators: the right operand's bindings must not run when short-circuited
        if matches!(b.op, And(_) | Or(_)) {
            let (l, _) = self.expr(&b.left, pre)?;
            let mut p2 = String::new();
            let depth = self.calls.len();
            let (r, _) = self.expr(&b.right, &mut p2)?;
            let is_and = matches!(b.op, And(_));
            if p2.is_empty() {
                return Ok((format!("({} {} {})", if is_and { "andb" } else { "orb" }, l, r), Ty::Bool));
            }
            let mut close = String::new();
            while self.calls.len() > depth {
                close.push_str(&self.calls.pop().unwrap().1);
            }
            let v = self.fresh("sc");
            let short = if is_and { "false" } else { "true" };
            let cond = if is_and { format!("negb {}", l) } else { l.clone() };
            let _ = writeln!(pre, "gbind (if {} then GOk {} else ({}GOk {}{})) (fun {} =>", cond, short, p2, paren(&r), close, v);
            self.calls.push(("".into(), ")".into()));
            return Ok((v, Ty::Bool));
        }
        let (l, lt) = self.expr(&b.left, pre)?;
        let (r, rt) = self.expr(&b.right, pre)?;
        let t = if lt.is_int() { lt.clone() } else { rt.clone() };
        let kind = match &t {
            Ty::Int(k) => k.clone(),
            _ => "usize".into(),
        };
        let bits = self.bits_of(&kind);
        let monadic = |me: &mut Self, f: &str, pre: &mut String| -> (String, Ty) {
            let v = me.fresh("a");
            let _ = writeln!(pre, "gbind ({} {} trap {} {}) (fun {} =>", f, bits, l, r, v);
            me.calls.push(("".into(), ")".into()));
            (v, t.clone())
        };
        let nonzero_lit = |e: &Expr| -> bool {
            if let Expr::Lit(ExprLit { lit: Lit::Int(i), .. }) = e {
                i.base10_digits() != "0"
            } else {
                false
            }
        };
        Ok(match b.op {
            Add(_) => monadic(self, "u_add", pre),
            Sub(_) => monadic(self, "u_sub", pre),
            Mul(_) => monadic(self, "u_mul", pre),
            Div(_) => {
                if nonzero_lit(&b.right) {
                    (format!("({} / {})", l, r), t)
                } else {
                    monadic(self, "u_div", pre)
                }
            }
            Rem(_) => {
                if nonzero_lit(&b.right) {
                    (format!("({} mod {})", l, r), t)
                } else {
                    monadic(self, "u_rem", pre)
                }
            }
            BitAnd(_) => (format!("(N.land {} {})", l, r), t),
            BitOr(_) => (format!("(N.lor {} {})", l, r), t),
            BitXor(_) => (format!("(N.lxor {} {})", l, r), t),
            Shl(_) => {
                let lk = match &lt { Ty::Int(k) => k.clone(), _ => "usize".into() };
                let lb = self.bits_of(&lk);
                let v = self.fresh("a");
                let _ = writeln!(pre, "gbind (u_shl {} trap {} {}) (fun {} =>", lb, l, r, v);
                self.calls.push(("".into(), ")".into()));
                (v, lt)
            }
            Shr(_) => {
                let lk = match &lt { Ty::Int(k) => k.clone(), _ => "usize".into() };
                let lb = self.bits_of(&lk);
                let v = self.fresh("a");
                let _ = writeln!(pre, "gbind (u_shr {} trap {} {}) (fun {} =>", lb, l, r, v);
                self.calls.push(("".into(), ")".into()));
                (v, lt)
            }
            Eq(_) | Ne(_) if self.tr.cfg.f64_decoded && (lt == Ty::F64 || rt == Ty::F64) => {
                let eq = format!("(f_eq {} {})", l, r);
                (if matches!(b.op, Eq(_)) { eq } else { format!("(negb {})", eq) }, Ty::Bool)
            }
            Le(_) if self.tr.cfg.f64_decoded && (lt == Ty::F64 || rt == Ty::F64) => (format!("(f_le {} {})", l, r), Ty::Bool),
            Ge(_) if self.tr.cfg.f64_decoded && (lt == Ty::F64 || rt == Ty::F64) => (format!("(f_le {} {})", r, l), Ty::Bool),
            Eq(_) | Ne(_) if matches!(&lt, Ty::List(_)) || matches!(&rt, Ty::List(_)) => {
                let eq = format!("(vec_eqb {} {})", l, r);
                (if matches!(b.op, Eq(_)) { eq } else { format!("(negb {})", eq) }, Ty::Bool)
            }
            Eq(_) | Ne(_) if matches!(&lt, Ty::Named(_)) || matches!(&rt, Ty::Named(_)) => {
                let n = match (&lt, &rt) { (Ty::Named(n), _) | (_, Ty::Named(n)) => n.clone(), _ => unreachable!() };
                let eq = format!("({}_eqb {} {})", n, l, r);
                (if matches!(b.op, Eq(_)) { eq } else { format!("(negb {})", eq) }, Ty::Bool)
            }
            Eq(_) | Ne(_) => {
                let eq = if lt == Ty::Bool || rt == Ty::Bool {
                    format!("(Bool.eqb {} {})", l, r)
                } else if matches!(lt, Ty::Ptr) || matches!(rt, Ty::Ptr) {
                    format!("(ptr_eqb {} {})", l, r)
                } else {
                    format!("({} =? {})", l, r)
                };
                (if matches!(b.op, Eq(_)) { eq } else { format!("(negb {})", eq) }, Ty::Bool)
            }
            Lt(_) => (format!("({} <? {})", l, r), Ty::Bool),
            Le(_) => (format!("({} <=? {})", l, r), Ty::Bool),
            Gt(_) => (format!("({} <? {})", r, l), Ty::Bool),
            Ge(_) => (format!("({} <=? {})", r, l), Ty::Bool),
            _ => return err("binary operator", b.span()),
        })
    }

    /// value of a block used as an expression (statements must be plain lets)
    fn block_value(&mut self, b: &Block, pre: &mut String) -> R<(String, Ty)> {
        let n = b.stmts.len();
        for (k, s) in b.stmts.iter().enumerate() {
            match s {
                Stmt::Expr(e, None) if k + 1 == n => return self.expr(e, pre),
                Stmt::Local(l) => {
                    let init = l.init.as_ref().ok_or("T8: deferred let inside a value block")?;
                    let (a, t) = self.expr(&init.expr, pre)?;
                    self.bind_pat(&l.pat, &a, t, pre)?;
                }
                _ => return err("statement inside a value block", s.span()),
            }
        }
        Ok(("tt".into(), Ty::Unit))
    }

    fn bind_pat(&mut self, p: &Pat, atom: &str, t: Ty, pre: &mut String) -> R<()> {
        match p {
            Pat::Ident(i) => {
                let n = i.ident.to_string();
                let atom = match atom.find("(*@") {
                    Some(k) => { self.ptr_src.insert(n.clone(), atom[k + 3..].trim_end_matches("*)").to_string()); atom[..k].trim() }
                    None => atom,
                };
                if n != atom {
                    let _ = writeln!(pre, "let {} := {} in", n, atom);
                }
                self.alias.remove(&n);
                self.tyenv.insert(n, t);
                Ok(())
            }
            Pat::Type(pt) => {
                let t2 = self.tr.ty(&pt.ty)?;
                self.bind_pat(&pt.pat, atom, if t2 == Ty::Unknown { t } else { t2 }, pre)
            }
            Pat::Wild(_) => Ok(()),
            Pat::Struct(ps) => {
                // `let T { a, b, .. } = &x;`: read-only views of the fields
                let owner = self.type_of_path(&ps.path)?;
                let fields = self.tr.structs.get(&owner).ok_or(format!("T8: unknown struct {} in a pattern", owner))?.clone();
                for fp in &ps.fields {
                    let fname = match &fp.member { Member::Named(i) => i.to_string(), Member::Unnamed(i) => format!("f{}", i.index) };
                    let fty = fields.iter().find(|(n, _)| *n == fname).map(|(_, t)| t.clone()).ok_or(format!("T8: unknown field {}.{}", owner, fname))?;
                    let _ = writeln!(pre, "let {} := ({}_{} {}) in", fname, owner, fname, atom);
                    self.alias.remove(&fname);
                    self.tyenv.insert(fname, fty);
                }
                Ok(())
            }
            Pat::Tuple(tp) => {
                let mut names = vec![];
                let tys = match t {
                    Ty::Tuple(ts) => ts,
                    _ => vec![Ty::Unknown; tp.elems.len()],
                };
                for (k, e) in tp.elems.iter().enumerate() {
                    match e {
                        Pat::Ident(i) => {
                            let n = i.ident.to_string();
                            self.alias.remove(&n);
                            self.tyenv.insert(n.clone(), tys.get(k).cloned().unwrap_or(Ty::Unknown));
                            names.push(n);
                        }
                        Pat::Wild(_) => names.push("_".into()),
                        _ => return err("nested pattern", e.span()),
                    }
                }
                let _ = writeln!(pre, "let '({}) := {} in", names.join(", "), atom);
                Ok(())
            }
            _ => err("let pattern", p.span()),
        }
    }

    fn method_call(&mut self, m: &ExprMethodCall, pre: &mut String) -> R<(String, Ty)> {
        let name = m.method.to_string();
        let args: Vec<&Expr> = m.args.iter().collect();
        if args.is_empty() && matches!(name.as_str(), "as_slice" | "as_mut_vec" | "as_mut_slice" | "as_vec" | "to_vec") {
            return self.expr(&m.receiver, pre);
        }
        // `encode::write_x(&mut buf, args..).unwrap()`: the encoder appends to the buffer and cannot fail on a Vec
        if name == "unwrap" {
            if let Expr::Call(c) = &*m.receiver {
                if let Expr::Path(p) = &*c.func {
                    let joined = path_str(&p.path).join("::");
                    if let Some(g) = self.tr.cfg.append_fns.get(&joined).cloned() {
                        let cargs: Vec<&Expr> = c.args.iter().collect();
                        let (root, fs) = self.place(cargs[0])?;
                        let mut call = format!("({}", g);
                        for a in &cargs[1..] {
                            let (v, _) = self.expr(a, pre)?;
                            let _ = write!(call, " {}", paren(&v));
                        }
                        call.push(')');
                        let cur = self.place_get(&root, &fs);
                        self.place_set(&root, &fs, &format!("({} ++ {})", cur, call), pre);
                        return Ok(("tt".into(), Ty::Unit));
                    }
                }
            }
        }
        // `x.pop().unwrap_or(d)` on a Vec place
        if name == "unwrap_or" {
            if let Expr::MethodCall(inner) = &*m.receiver {
                if inner.method == "pop" {
                    let (root, fs) = self.place(&inner.receiver)?;
                    let vt = self.place_ty(&root, &fs)?;
                    let elt = match vt { Ty::List(t) => *t, _ => Ty::Unknown };
                    let (d, _) = self.expr(args[0], pre)?;
                    let v = self.fresh("top");
                    let rest = self.fresh("rest");
                    let _ = writeln!(pre, "let '({}, {}) := vec_pop_or {} {} in", v, rest, d, self.place_get(&root, &fs));
                    self.place_set(&root, &fs, &rest, pre);
                    return Ok((v, elt));
                }
                if inner.method == "from_repr" {
                    // strum::FromRepr on an external C-like enum modelled by its discriminant
                    if let Expr::Path(p) = &*inner.receiver {
                        let owner = self.type_of_path(&p.path)?;
                        let (a, _) = self.expr(inner.args.first().ok_or("T8: from_repr()")?, pre)?;
                        let (d, _) = self.expr(args[0], pre)?;
                        return Ok((format!("({}_from_repr_or W {} {})", owner, paren(&a), paren(&d)), Ty::Extern(owner)));
                    }
                }
            }
        }
        if name == "unwrap_or" {
            if let Expr::Call(c) = &*m.receiver {
                if let Expr::Path(p) = &*c.func {
                    let sg = path_str(&p.path);
                    if sg.len() >= 2 && sg[sg.len() - 1] == "from_repr" {
                        // strum::FromRepr on an external C-like enum modelled by its discriminant
                        let owner = self.resolve_owner(&sg[sg.len() - 2]);
                        let (a, _) = self.expr(c.args.first().ok_or("T8: from_repr()")?, pre)?;
                        let (d, _) = self.expr(args[0], pre)?;
                        return Ok((format!("({}_from_repr_or W {} {})", owner, paren(&a), paren(&d)), Ty::Extern(owner)));
                    }
                }
            }
        }
        // `r.map(|n| e)` / `r.and_then(|n| e)` / `r.and_then(path)` on a `Result<_, ErrorCode>`: the receiver is evaluated first
        // (with its side effects on places), the closure body afterwards, in the updated environment
        if (name == "map" || name == "and_then") && args.len() == 1 && matches!(args[0], Expr::Closure(_) | Expr::Path(_)) {
            let (r, rt) = self.expr(&m.receiver, pre)?;
            if let Ty::Opt(inner) = rt.clone() {
                let c = match args[0] { Expr::Closure(c) => c, _ => return err("Option::map/and_then with a path", m.span()) };
                let pname = match c.inputs.first() { Some(Pat::Ident(i)) => i.ident.to_string(), _ => return err("closure parameter", c.span()) };
                let saved = self.tyenv.get(&pname).cloned();
                self.tyenv.insert(pname.clone(), *inner);
                let mut p2 = String::new();
                let depth = self.calls.len();
                let (b, bt) = self.expr(&c.body, &mut p2)?;
                let closers = self.close(depth);
                match saved { Some(t) => { self.tyenv.insert(pname.clone(), t); } None => { self.tyenv.remove(&pname); } }
                let (inner_res, out_ty) = if name == "map" { (format!("(Some {})", paren(&b)), Ty::Opt(Box::new(bt))) } else { (b.clone(), bt) };
                let v = self.fresh("m");
                let _ = writeln!(pre, "gbind (match {} with Some {} => ({}GOk {}{}) | None => GOk None end) (fun {} =>", r, pname, p2, inner_res, closers, v);
                self.calls.push(("".into(), ")".into()));
                return Ok((v, out_ty));
            }
            if let Ty::Res(inner) = rt {
                let (pname, body_owned): (String, Expr) = match args[0] {
                    Expr::Closure(c) => {
                        let pn = match c.inputs.first() { Some(Pat::Ident(i)) => i.ident.to_string(), _ => return err("closure parameter", c.span()) };
                        (pn, (*c.body).clone())
                    }
                    Expr::Path(p) => {
                        let pn = self.fresh("x");
                        let callee = { use quote::ToTokens; p.to_token_stream().to_string() };
                        let e: Expr = syn::parse_str(&format!("{}({})", callee, pn)).map_err(|e| e.to_string())?;
                        (pn, e)
                    }
                    _ => unreachable!(),
                };
                let saved = self.tyenv.get(&pname).cloned();
                self.tyenv.insert(pname.clone(), *inner);
                let mut p2 = String::new();
                let depth = self.calls.len();
                let (b, bt) = self.expr(&body_owned, &mut p2)?;
                let closers = self.close(depth);
                match saved { Some(t) => { self.tyenv.insert(pname.clone(), t); } None => { self.tyenv.remove(&pname); } }
                let (inner_res, out_ty) = if name == "map" { (format!("(ROk {})", paren(&b)), Ty::Res(Box::new(bt))) } else { (b.clone(), bt) };
                let v = self.fresh("m");
                let c = self.fresh("ec");
                let _ = writeln!(pre, "gbind (match {} with ROk {} => ({}GOk {}{}) | RErr {} => GOk (RErr {}) end) (fun {} =>", r, pname, p2, inner_res, closers, c, c, v);
                self.calls.push(("".into(), ")".into()));
                return Ok((v, out_ty));
            }
            return err("map/and_then on a value that is not a Result<_, ErrorCode>", m.span());
        }
        // `v.iter().position(|PAT| body)`: index of the first element the closure accepts (the closure may panic)
        if name == "position" && args.len() == 1 {
            if let (Expr::MethodCall(it), Expr::Closure(c)) = (&*m.receiver, args[0]) {
                if it.method == "iter" && c.inputs.len() == 1 {
                    let (l, lt) = self.expr(&it.receiver, pre)?;
                    let elt = match lt { Ty::List(t) => *t, _ => Ty::Unknown };
                    let save = (self.tyenv.clone(), self.alias.clone());
                    let pt = self.gpat(&c.inputs[0], &elt)?;
                    let mut p2 = String::new();
                    let depth = self.calls.len();
                    let (b, _) = self.expr(&c.body, &mut p2)?;
                    let closers = self.close(depth);
                    self.tyenv = save.0;
                    self.alias = save.1;
                    let v = self.fresh("pos");
                    let binder = if pt.starts_with('(') { format!("'{}", pt) } else { pt };
                    let _ = writeln!(pre, "gbind (vec_position (fun {} => ({}GOk {}{})) {}) (fun {} =>", binder, p2, paren(&b), closers, l, v);
                    self.calls.push(("".into(), ")".into()));
                    return Ok((v, Ty::Opt(Box::new(Ty::Int("usize".into())))));
                }
            }
        }
        // `b.then(|| e)`: the closure runs only when b holds
        if name == "then" && args.len() == 1 {
            if let Expr::Closure(c) = args[0] {
                if c.inputs.is_empty() {
                    let (b, bt) = self.expr(&m.receiver, pre)?;
                    if bt == Ty::Bool {
                        let mut p2 = String::new();
                        let depth = self.calls.len();
                        let (x, xt) = self.expr(&c.body, &mut p2)?;
                        let closers = self.close(depth);
                        let v = self.fresh("th");
                        let _ = writeln!(pre, "gbind (if {} then ({}GOk (Some {}){}) else GOk None) (fun {} =>", b, p2, paren(&x), closers, v);
                        self.calls.push(("".into(), ")".into()));
                        return Ok((v, Ty::Opt(Box::new(xt))));
                    }
                }
            }
        }
        // Option combinators on values
        if matches!(name.as_str(), "unwrap_or" | "or" | "unwrap" | "expect") {
            let mut probe = String::new();
            let depth = self.calls.len();
            let fresh0 = self.fresh;
            let save = (self.tyenv.clone(), self.alias.clone());
            let probed = self.expr(&m.receiver, &mut probe);
            let _ = self.close(depth);
            self.fresh = fresh0;
            self.tyenv = save.0;
            self.alias = save.1;
            if let Ok((_, Ty::Opt(inner))) = probed {
                let (a, _) = self.expr(&m.receiver, pre)?;
                match name.as_str() {
                    "unwrap_or" => {
                        let (d, _) = self.expr(args[0], pre)?;
                        return Ok((format!("(match {} with Some v_ => v_ | None => {} end)", a, d), *inner));
                    }
                    "or" => {
                        let (d, _) = self.expr(args[0], pre)?;
                        return Ok((format!("(match {} with Some v_ => Some v_ | None => {} end)", a, d), Ty::Opt(inner)));
                    }
                    _ => {
                        let v = self.fresh("uw");
                        let _ = writeln!(pre, "gbind (opt_unwrap {}) (fun {} =>", a, v);
                        self.calls.push(("".into(), ")".into()));
                        return Ok((v, *inner));
                    }
                }
            }
        }
        if name == "last" && args.is_empty() {
            let (a, t) = self.expr(&m.receiver, pre)?;
            if let Ty::List(elt) = t {
                return Ok((format!("(vec_last {})", a), Ty::Opt(elt)));
            }
            return err("last() on a value that is not a Vec", m.span());
        }
        // pure built-ins on values
        match name.as_str() {
            "min" | "max" => {
                let (a, t) = self.expr(&m.receiver, pre)?;
                let (b, _) = self.expr(args[0], pre)?;
                return Ok((format!("(N.{} {} {})", name, a, b), t));
            }
            "is_multiple_of" => {
                let (a, _) = self.expr(&m.receiver, pre)?;
                if let Expr::Lit(ExprLit { lit: Lit::Int(i), .. }) = args[0] {
                    if i.base10_digits() != "0" {
                        return Ok((format!("({} mod {} =? 0)", a, i.base10_digits()), Ty::Bool));
                    }
                }
                return err("is_multiple_of with a non-literal or zero argument", m.span());
            }
            "len" => {
                let (a, _) = self.expr(&m.receiver, pre)?;
                return Ok((format!("(lenN {})", a), Ty::Int("usize".into())));
            }
            "as_ptr" => {
                // pointer to the start of a buffer field / of a slice of it = offset into that buffer
                if let Expr::Index(ix) = &*m.receiver {
                    if let Expr::Range(r) = &*ix.index {
                        if r.end.is_none() {
                            let (a, _) = self.expr(&ix.expr, pre)?;
                            let lo = match &r.start { Some(s) => self.expr(s, pre)?.0, None => "0".into() };
                            let v = self.fresh("p");
                            let _ = writeln!(pre, "gbind (vec_ptr_at {} {}) (fun {} =>", a, lo, v);
                            self.calls.push(("".into(), ")".into()));
                            return Ok((v, Ty::Ptr));
                        }
                    }
                }
                let (ra, rt) = self.expr(&m.receiver, pre)?;
                if matches!(rt, Ty::List(_)) && ra.chars().all(|c| c.is_alphanumeric() || c == '_') {
                    // a pointer to the start of a local slice value: remembered so that a later copy from it copies that slice
                    return Ok((format!("(Some 0) (*@{}*)", ra), Ty::Ptr));
                }
                return Ok(("(Some 0)".into(), Ty::Ptr));
            }
            "add" => {
                let (a, t) = self.expr(&m.receiver, pre)?;
                if t == Ty::Ptr {
                    let (b, _) = self.expr(args[0], pre)?;
                    return Ok((format!("(ptr_add {} {})", a, b), Ty::Ptr));
                }
            }
            "trunc" if self.tr.cfg.f64_decoded => {
                let (a, _) = self.expr(&m.receiver, pre)?;
                return Ok((format!("(f_trunc {})", a), Ty::F64));
            }
            "ok_or" => {
                let (a, t) = self.expr(&m.receiver, pre)?;
                if let Ty::Opt(inner) = t {
                    let (e, _) = self.expr(args[0], pre)?;
                    return Ok((format!("(match {} with Some v_ => ROk v_ | None => RErr {} end)", a, paren(&e)), Ty::Res(inner)));
                }
                return err("ok_or on a value that is not an Option", m.span());
            }
            "is_nan" => {
                let (a, _) = self.expr(&m.receiver, pre)?;
                return Ok((format!("(f64_is_nan {})", a), Ty::Bool));
            }
            "to_bits" => {
                let (a, t) = self.expr(&m.receiver, pre)?;
                if t == Ty::F64 {
                    return Ok((a, Ty::Int("u64".into())));
                }
                if let Ty::Int(_) = t {
                    return Ok((a, t));   // a newtype represented by its field
                }
            }
            _ => {}
        }
        // Vec mutators on places
        if name == "push" || name == "resize" {
            let (root, fs) = self.place(&m.receiver)?;
            let cur = self.place_get(&root, &fs);
            let new = if name == "push" {
                let (a, _) = self.expr(args[0], pre)?;
                format!("({} ++ [{}])", cur, a)
            } else {
                let (n, _) = self.expr(args[0], pre)?;
                let (z, _) = self.expr(args[1], pre)?;
                format!("(vec_resize {} {} {})", cur, n, z)
            };
            self.place_set(&root, &fs, &new, pre);
            return Ok(("tt".into(), Ty::Unit));
        }
        // a method supplied by the hand-written support file (pure; W first, then the receiver)
        {
            let (ra, rt0) = self.expr(&m.receiver, &mut String::new())?;
            let tn = match &rt0 { Ty::Named(n) | Ty::Extern(n) => n.clone(), _ => self.self_ty.clone() };
            let key = format!("{}::{}", tn, name);
            if let Some(f) = self.tr.cfg.extern_methods.get(&key).cloned() {
                let (ra, _) = self.expr(&m.receiver, pre)?;
                let mut call = format!("({} W {}", f, paren(&ra));
                for a in &args {
                    let (v, _) = self.expr(a, pre)?;
                    let _ = write!(call, " {}", paren(&v));
                }
                call.push(')');
                let rty = if let Some((_, t)) = f.split_once(':') { let ty: Type = syn::parse_str(t).map_err(|e| e.to_string())?; ret_ty(self.tr, &ty)? }
                          else if f.ends_with("_opt") { Ty::Opt(Box::new(Ty::Int("Val".into()))) } else { Ty::Int("Val".into()) };
                let call = match f.split_once(':') { Some((fname, _)) => call.replacen(&f, fname, 1), None => call };
                return Ok((call, rty));
            }
            let _ = ra;
        }
        // a translated method of a local type
        let (root, fs) = self.place(&m.receiver)?;
        let rt = self.place_ty(&root, &fs)?;
        let owner = match &rt {
            Ty::Named(n) => n.clone(),
            _ => {
                // a method of a newtype represented by its field: resolve through the declared type of the field, else
                // through the function's own type
                let declared = fs.last().and_then(|(o, f)| self.tr.field_tyname.get(&(o.clone(), f.clone())).cloned());
                if let Some(d) = declared.filter(|d| self.tr.sigs.contains_key(&(d.clone(), name.clone()))) { d }
                else if self.tr.sigs.contains_key(&(self.self_ty.clone(), name.clone())) { self.self_ty.clone() }
                else if let Some(nt) = { let c: Vec<&String> = self.tr.cfg.newtypes.iter().filter(|n| self.tr.sigs.contains_key(&((*n).clone(), name.clone()))).collect(); if c.len() == 1 { Some(c[0].clone()) } else { None } } { nt }
                else {
                return err(&format!("method `{}` on a receiver of unknown type", name), m.span()); }
            }
        };
        let sig = self.tr.sigs.get(&(owner.clone(), name.clone())).cloned().ok_or(format!(
            "T8: unsupported construct at line {}: call of untranslated method {}::{}", m.span().start().line, owner, name))?;
        self.invoke(&sig, Some((root, fs)), &args, pre, m.span())
    }

    fn invoke(&mut self, sig: &Sig, recv: Option<(String, Vec<(String, String)>)>, args: &[&Expr], pre: &mut String, sp: Span) -> R<(String, Ty)> {
        let kept: Vec<&Expr> = args.iter().enumerate().filter(|(k, _)| !sig.dropped.contains(k)).map(|(_, a)| *a).collect();
        let args: &[&Expr] = &kept;
        if args.len() != sig.params.len() {
            return err("argument count", sp);
        }
        let mut call = format!("{}_{} W trap", sig.owner, sig.name);
        if self.tr.local.contains(&(sig.owner.clone(), sig.name.clone())) {
            for (o, _) in &self.tr.cfg.oracles { let _ = write!(call, " {}", o); }
            if self.tr.cfg.fuel { call.push_str(" fuel'"); }
        }
        let mut outs: Vec<(String, Vec<(String, String)>)> = vec![];
        if let Some((root, fs)) = &recv {
            if sig.recv.is_none() {
                return err("receiver on a static method", sp);
            }
            let _ = write!(call, " {}", self.place_get(root, fs));
            if sig.recv == Some(true) {
                outs.push((root.clone(), fs.clone()));
            }
        }
        for (a, (_, pty, is_mut)) in args.iter().zip(sig.params.iter()) {
            if *is_mut {
                let (root, fs) = self.place(a)?;
                let _ = write!(call, " {}", self.place_get(&root, &fs));
                outs.push((root, fs));
            } else {
                let (mut v, t) = self.expr(a, pre)?;
                // `x as _` towards a wider integer parameter is the identity; towards a narrower one truncates
                if let (Ty::Int(f), Ty::Int(to)) = (&t, pty) {
                    if f != to && matches!(a, Expr::Cast(_)) {
                        v = format!("(u_cast {} {})", self.bits_of(to), v);
                    }
                }
                let _ = write!(call, " {}", paren(&v));
            }
        }
        let mut names: Vec<String> = vec![];
        let mut tmp: Vec<String> = vec![];
        for _ in &outs {
            let t = self.fresh("o");
            names.push(t.clone());
            tmp.push(t);
        }
        let rv = self.fresh("r");
        if sig.ret != Ty::Unit {
            names.push(rv.clone());
        }
        let pat = if names.is_empty() { "_".to_string() } else if names.len() == 1 { names[0].clone() } else { format!("'({})", names.join(", ")) };
        let _ = writeln!(pre, "gbind ({}) (fun {} =>", call, pat);
        self.calls.push(("".into(), ")".into()));
        for ((root, fs), t) in outs.iter().zip(tmp.iter()) {
            self.place_set(root, fs, t, pre);
        }
        let ret = self.resolve_self_in(&sig.ret, &sig.owner);
        Ok((if sig.ret == Ty::Unit { "tt".into() } else { rv }, ret))
    }
    fn resolve_self_in(&self, t: &Ty, owner: &str) -> Ty {
        match t {
            Ty::Named(n) if n == "Self" => self.tr.named(owner),
            Ty::Named(n) => self.tr.named(n),
            Ty::Opt(t) => Ty::Opt(Box::new(self.resolve_self_in(t, owner))),
            Ty::Res(t) => Ty::Res(Box::new(self.resolve_self_in(t, owner))),
            Ty::Tuple(ts) => Ty::Tuple(ts.iter().map(|t| self.resolve_self_in(t, owner)).collect()),
            o => o.clone(),
        }
    }

    fn call(&mut self, c: &ExprCall, pre: &mut String) -> R<(String, Ty)> {
        let p = match &*c.func {
            Expr::Path(p) => p,
            _ => return err("call of a non-path", c.span()),
        };
        let segs = path_str(&p.path);
        let args: Vec<&Expr> = c.args.iter().collect();
        let joined = segs.join("::");
        if joined.ends_with("ptr::null") {
            return Ok(("None".into(), Ty::Ptr));
        }
        if let Some((f, t)) = self.tr.cfg.extern_fns.get(&joined).cloned() {
            let mut call = format!("({}", f);
            for a in &args { let (v, _) = self.expr(a, pre)?; let _ = write!(call, " {}", paren(&v)); }
            call.push(')');
            let ty: Type = syn::parse_str(&t).map_err(|e| e.to_string())?;
            return Ok((call, ret_ty(self.tr, &ty)?));
        }
        if joined.ends_with("Vec::with_capacity_in") || joined.ends_with("Vec::new_in") || joined.ends_with("Vec::new") || joined.ends_with("Vec::with_capacity") {
            return Ok(("[]".into(), Ty::List(Box::new(Ty::Unknown))));
        }
        if segs.len() == 2 && segs[1] == "from_be_bytes" {
            // big-endian bytes -> the integer / the IEEE bit pattern
            let (a, _) = self.expr(args[0], pre)?;
            let k = segs[0].as_str();
            return Ok(match k {
                "f32" => (format!("(be_val {})", a), Ty::F32),
                "f64" => (format!("(be_val {})", a), Ty::F64),
                _ if is_signed(k) => (format!("(to_signed {} (be_val {}))", bytes_of(k), a), Ty::Int(k.into())),
                _ => (format!("(be_val {})", a), Ty::Int(k.into())),
            });
        }
        if joined.ends_with("mem::swap") {
            let (r1, f1) = self.place(args[0])?;
            let (r2, f2) = self.place(args[1])?;
            let (a, b) = (self.fresh("sw"), self.fresh("sw"));
            let _ = writeln!(pre, "let '({}, {}) := ({}, {}) in", a, b, self.place_get(&r2, &f2), self.place_get(&r1, &f1));
            self.place_set(&r1, &f1, &a, pre);
            self.place_set(&r2, &f2, &b, pre);
            return Ok(("tt".into(), Ty::Unit));
        }
        if joined.ends_with("ptr::copy_nonoverlapping") || joined.ends_with("ptr::copy") {
            // copy(src, dst, n): src is a pointer to a local slice value, dst a destination handed out into `ptr_buffer`
            let (src, _) = self.expr(args[0], pre)?;
            let src_list = match self.ptr_src.get(src.trim()) { Some(x) => x.clone(), None => return err("copy from a pointer that is not the start of a local slice", c.span()) };
            let (dst, _) = self.expr(args[1], pre)?;
            let (n, _) = self.expr(args[2], pre)?;
            let field = self.tr.cfg.ptr_buffer.clone().ok_or("T8: a raw copy needs --ptr-buffer")?;
            let owner = self.self_ty.clone();
            let fs = vec![(owner, field)];
            let cur = self.place_get("self", &fs);
            let v = self.fresh("b");
            let _ = writeln!(pre, "gbind (vec_write {} {} (takeN {} {})) (fun {} =>", cur, paren(&dst), src_list, paren(&n), v);
            self.calls.push(("".into(), ")".into()));
            self.place_set("self", &fs, &v, pre);
            return Ok(("tt".into(), Ty::Unit));
        }
        if joined == "f64::from_bits" {
            let (a, _) = self.expr(args[0], pre)?;
            return Ok((a, Ty::F64));
        }
        if segs.len() >= 2 {
            let owner = self.resolve_owner(&segs[segs.len() - 2]);
            let item = segs.last().unwrap().clone();
            // tuple-struct constructor `Self(x)` handled below (len 1); enum variant constructor:
            if let Some(vs) = self.tr.enums.get(&owner) {
                if vs.iter().any(|(v, _)| *v == item) {
                    let mut s = format!("({}_{}", owner, item);
                    for a in &args {
                        let (v, _) = self.expr(a, pre)?;
                        let _ = write!(s, " {}", paren(&v));
                    }
                    s.push(')');
                    return Ok((s, Ty::Named(owner)));
                }
            }
            if let Some(sig) = self.tr.sigs.get(&(owner.clone(), item.clone())).cloned() {
                if sig.recv.is_some() {
                    // UFCS call with explicit receiver
                    let (root, fs) = self.place(args[0])?;
                    return self.invoke(&sig, Some((root, fs)), &args[1..], pre, c.span());
                }
                return self.invoke(&sig, None, &args, pre, c.span());
            }
            return err(&format!("call of {}", joined), c.span());
        }
        // `Self(x)` / `Name(x)`: tuple struct constructor
        let owner = if segs[0] == "Self" { self.self_ty.clone() } else { segs[0].clone() };
        if self.tr.cfg.newtypes.contains(&owner) && args.len() == 1 {
            return self.expr(args[0], pre);
        }
        if let Some(fields) = self.tr.structs.get(&owner) {
            if fields.len() == args.len() {
                let mut s = format!("(mk{}", owner);
                for a in &args {
                    let (v, _) = self.expr(a, pre)?;
                    let _ = write!(s, " {}", paren(&v));
                }
                s.push(')');
                return Ok((s, Ty::Named(owner)));
            }
        }
        if segs[0] == "Ok" && matches!(self.ret, Ty::Res(_)) {
            let (v, t) = self.expr(args[0], pre)?;
            return Ok((format!("(ROk {})", paren(&v)), Ty::Res(Box::new(t))));
        }
        if segs[0] == "Err" && matches!(self.ret, Ty::Res(_)) {
            let (v, _) = self.expr(args[0], pre)?;
            return Ok((format!("(RErr {})", paren(&v)), Ty::Res(Box::new(Ty::Unknown))));
        }
        if segs[0] == "Ok" || segs[0] == "Some" {
            let (v, t) = self.expr(args[0], pre)?;
            return Ok((format!("(Some {})", paren(&v)), Ty::Opt(Box::new(t))));
        }
        if segs[0] == "Err" {
            // the error value itself (a message) is not observable through the ABI
            return Ok(("None".into(), Ty::Opt(Box::new(Ty::Unknown))));
        }
        if self.tr.cfg.newtypes.contains(&owner) && args.len() == 1 {
            return self.expr(args[0], pre);
        }
        err(&format!("call of {}", joined), c.span())
    }

    // ------------------------------------------------------------------ statements
    fn close(&mut self, from: usize) -> String {
        let mut s = String::new();
        while self.calls.len() > from {
            s.push_str(&self.calls.pop().unwrap().1);
        }
        s
    }

    /// Translate `stmts` followed by `rest` (a stack of continuations: blocks still to run after this one);
    /// `tail` says whether the final expression of the last block is the function's return value.
    fn seq(&mut self, stmts: &[Stmt], rest: &[&[Stmt]]) -> R<String> {
        let depth = self.calls.len();
        let mut out = String::new();
        if stmts.is_empty() {
            if let Some((first, more)) = rest.split_first() {
                return self.seq(first, more);
            }
            return Ok(self.fall_off());
        }
        let (s, after) = stmts.split_first().unwrap();
        let last = after.is_empty() && rest.is_empty();
        // continuation helper
        macro_rules! cont {
            () => {{
                let k = self.seq(after, rest)?;
                out.push_str(&k);
                let c = self.close(depth);
                out.push_str(&c);
                return Ok(out);
            }};
        }
        match s {
            Stmt::Local(l) => {
                if l.attrs.iter().any(|a| a.path().is_ident("cfg")) {
                    // `#[cfg(target_pointer_width = "..")] let x = ..;` : select on W
                    let want = cfg_width(&l.attrs).ok_or_else(|| format!("T8: unsupported cfg on a let at line {}", l.span().start().line))?;
                    // find the sibling let with the other width
                    if let Some((Stmt::Local(l2), after2)) = after.split_first() {
                        if let Some(w2) = cfg_width(&l2.attrs) {
                            if w2 != want {
                                let save = (self.tyenv.clone(), self.alias.clone());
                                let a = self.let_then(l, after2, rest)?;
                                self.tyenv = save.0.clone();
                                self.alias = save.1.clone();
                                let b = self.let_then(l2, after2, rest)?;
                                let _ = write!(out, "if W =? {} then ({}) else ({})", want, a, b);
                                return Ok(out);
                            }
                        }
                    }
                    return err("cfg'd let without its counterpart", l.span());
                }
                match &l.init {
                    None => cont!(), // deferred initialisation: bound at the assignment
                    Some(init) if init.diverge.is_some() => {
                        // `let PAT = e else { diverges };`
                        let (a, t) = self.expr(&init.expr, &mut out)?;
                        let save = (self.tyenv.clone(), self.alias.clone());
                        let pat = self.gpat(&l.pat, &t)?;
                        let k = self.seq(after, rest)?;
                        self.tyenv = save.0.clone();
                        self.alias = save.1.clone();
                        let els = &init.diverge.as_ref().unwrap().1;
                        let els_stmts: Vec<Stmt> = match &**els { Expr::Block(b) => b.block.stmts.clone(), e => vec![Stmt::Expr(e.clone(), None)] };
                        let e = self.branch(&els_stmts, &[], false)?;
                        self.tyenv = save.0;
                        self.alias = save.1;
                        let _ = write!(out, "match {} with\n| {} => (\n{})\n| _ => (\n{})\nend", a, pat, k, e);
                        let c = self.close(depth);
                        out.push_str(&c);
                        return Ok(out);
                    }
                    Some(init) if matches!(&*init.expr, Expr::Match(m) if m.arms.iter().any(|a| diverges(&a.body) || matches!(&*a.body, Expr::Block(b) if b.block.stmts.len() > 1))) => {
                        // `let PAT = match e { A => v, B => { stmts; w } }; rest`  ==  `match e { A => { let PAT = v; }, B => { stmts; let PAT = w; } } rest`
                        let m = match &*init.expr { Expr::Match(m) => m, _ => unreachable!() };
                        let mut m2 = m.clone();
                        for arm in m2.arms.iter_mut() {
                            let (mut stmts, last): (Vec<Stmt>, Expr) = match &*arm.body {
                                Expr::Block(b) => {
                                    let n = b.block.stmts.len();
                                    match b.block.stmts.last() {
                                        Some(Stmt::Expr(e, None)) => (b.block.stmts[..n - 1].to_vec(), e.clone()),
                                        _ => return err("block arm of a `let = match` without a final value", arm.span()),
                                    }
                                }
                                e if diverges(e) => {
                                    arm.body = Box::new(Expr::Block(ExprBlock { attrs: vec![], label: None, block: Block { brace_token: Default::default(), stmts: vec![Stmt::Expr(e.clone(), Some(Default::default()))] } }));
                                    continue;
                                }
                                e => (vec![], e.clone()),
                            };
                            stmts.push(Stmt::Local(Local { attrs: vec![], let_token: Default::default(), pat: l.pat.clone(),
                                init: Some(LocalInit { eq_token: Default::default(), expr: Box::new(last), diverge: None }), semi_token: Default::default() }));
                            arm.body = Box::new(Expr::Block(ExprBlock { attrs: vec![], label: None, block: Block { brace_token: Default::default(), stmts } }));
                        }
                        let mut conts: Vec<&[Stmt]> = vec![after];
                        conts.extend_from_slice(rest);
                        let s = self.match_stmt(&m2, &conts, false, &mut out)?;
                        out.push_str(&s);
                        let cl = self.close(depth);
                        out.push_str(&cl);
                        return Ok(out);
                    }
                    Some(init) => {
                        let (a, t) = self.expr(&init.expr, &mut out)?;
                        self.bind_pat(&l.pat, &a, t, &mut out)?;
                        cont!()
                    }
                }
            }
            Stmt::Item(_) => cont!(),
            Stmt::Macro(m) => {
                let name = path_str(&m.mac.path).join("::");
                if name == "assert" {
                    let cond: Expr = m.mac.parse_body().map_err(|e| e.to_string())?;
                    let (c, _) = self.expr(&cond, &mut out)?;
                    let line = m.span().start().line;
                    let _ = writeln!(out, "if negb {} then GPanic (P_assert {}) else", c, line);
                    cont!()
                }
                err(&format!("macro {}!", name), m.span())
            }
            Stmt::Expr(e, semi) => {
                let is_tail = semi.is_none() && last;
                match e {
                    Expr::Return(r) => {
                        match &r.expr {
                            Some(x) => {
                                let (a, _) = self.expr(x, &mut out)?;
                                out.push_str(&self.ret_expr(Some(&a)));
                            }
                            None => out.push_str(&self.ret_expr(None)),
                        }
                        let c = self.close(depth);
                        out.push_str(&c);
                        Ok(out)
                    }
                    Expr::If(i) if matches!(&*i.cond, Expr::Let(_)) => {
                        let l = match &*i.cond { Expr::Let(l) => l, _ => unreachable!() };
                        let mut conts: Vec<&[Stmt]> = vec![after];
                        conts.extend_from_slice(rest);
                        let s = self.if_let(l, i, &conts, is_tail, &mut out)?;
                        out.push_str(&s);
                        let cl = self.close(depth);
                        out.push_str(&cl);
                        Ok(out)
                    }
                    Expr::Break(b) => {
                        if b.label.is_some() || b.expr.is_some() { return err("labelled break / break with a value", b.span()); }
                        let carried = match &self.loop_mode { Some((_, c)) => c.clone(), None => return err("break outside a translated loop", b.span()) };
                        out.push_str(&Self::loop_exit(&carried));
                        let c = self.close(depth);
                        out.push_str(&c);
                        Ok(out)
                    }
                    Expr::ForLoop(fl) => {
                        let mut conts: Vec<&[Stmt]> = vec![after];
                        conts.extend_from_slice(rest);
                        let s = self.for_loop(fl, &conts, &mut out)?;
                        out.push_str(&s);
                        let cl = self.close(depth);
                        out.push_str(&cl);
                        Ok(out)
                    }
                    Expr::If(i) => {
                        let (c, _) = self.expr(&i.cond, &mut out)?;
                        let save = (self.tyenv.clone(), self.alias.clone());
                        let mut conts: Vec<&[Stmt]> = vec![after];
                        conts.extend_from_slice(rest);
                        let a = self.branch(&i.then_branch.stmts, &conts, is_tail)?;
                        self.tyenv = save.0.clone();
                        self.alias = save.1.clone();
                        let b = match &i.else_branch {
                            Some((_, eb)) => match &**eb {
                                Expr::Block(bl) => self.branch(&bl.block.stmts, &conts, is_tail)?,
                                other => {
                                    // else if
                                    let st = [Stmt::Expr(other.clone(), if is_tail { None } else { Some(Default::default()) })];
                                    let st: &[Stmt] = &st;
                                    // SAFETY of lifetimes: translate immediately
                                    self.seq_owned(st, &conts)?
                                }
                            },
                            None => self.seq(&[], &conts)?,
                        };
                        self.tyenv = save.0;
                        self.alias = save.1;
                        let _ = write!(out, "if {} then (\n{}) else (\n{})", c, a, b);
                        let cl = self.close(depth);
                        out.push_str(&cl);
                        Ok(out)
                    }
                    Expr::Match(m) => {
                        let mut conts: Vec<&[Stmt]> = vec![after];
                        conts.extend_from_slice(rest);
                        let s = self.match_stmt(m, &conts, is_tail, &mut out)?;
                        out.push_str(&s);
                        let cl = self.close(depth);
                        out.push_str(&cl);
                        Ok(out)
                    }
                    Expr::Block(b) => {
                        let mut conts: Vec<&[Stmt]> = vec![after];
                        conts.extend_from_slice(rest);
                        let s = self.branch(&b.block.stmts, &conts, is_tail)?;
                        out.push_str(&s);
                        let cl = self.close(depth);
                        out.push_str(&cl);
                        Ok(out)
                    }
                    Expr::Unsafe(b) => {
                        let mut conts: Vec<&[Stmt]> = vec![after];
                        conts.extend_from_slice(rest);
                        let s = self.branch(&b.block.stmts, &conts, is_tail)?;
                        out.push_str(&s);
                        let cl = self.close(depth);
                        out.push_str(&cl);
                        Ok(out)
                    }
                    Expr::Assign(a) => {
                        let (v, t) = self.expr(&a.right, &mut out)?;
                        let (root, fs) = self.place(&a.left)?;
                        if fs.is_empty() && !self.tyenv.contains_key(&root) {
                            self.tyenv.insert(root.clone(), t);
                        } else if fs.is_empty() {
                            if let Some(Ty::Unknown) = self.tyenv.get(&root) {
                                self.tyenv.insert(root.clone(), t);
                            }
                        }
                        if fs.is_empty() && matches!(&*a.left, Expr::Unary(_)) {
                            // `*self = e`: aliases into the old value die
                            let dead: Vec<String> = self.alias.iter().filter(|(_, (p, _))| *p == root).map(|(k, _)| k.clone()).collect();
                            for d in dead {
                                self.alias.remove(&d);
                            }
                        }
                        self.place_set(&root, &fs, &v, &mut out);
                        cont!()
                    }
                    Expr::Binary(b) if is_op_assign(&b.op) => {
                        let op = de_assign(&b.op);
                        let fake = ExprBinary { attrs: vec![], left: b.left.clone(), op, right: b.right.clone() };
                        let (v, _) = self.binary(&fake, &mut out)?;
                        let (root, fs) = self.place(&b.left)?;
                        self.place_set(&root, &fs, &v, &mut out);
                        cont!()
                    }
                    _ => {
                        let (a, _) = self.expr(e, &mut out)?;
                        if is_tail {
                            out.push_str(&self.ret_expr(Some(&a)));
                            let c = self.close(depth);
                            out.push_str(&c);
                            Ok(out)
                        } else {
                            cont!()
                        }
                    }
                }
            }
        }
    }

    /// the value of `root` after storing `val` into the place `root.fs`
    fn place_rebuild(&self, root: &str, fs: &[(String, String)], val: &str) -> String {
        let mut v = val.to_string();
        for k in (0..fs.len()).rev() {
            let base = self.place_get(root, &fs[..k]);
            v = format!("({}_set_{} {} {})", fs[k].0, fs[k].1, base, v);
        }
        v
    }

    /// `if let PAT = e { A } else { B }` followed by the continuations
    fn if_let(&mut self, l: &ExprLet, i: &ExprIf, conts: &[&[Stmt]], is_tail: bool, pre: &mut String) -> R<String> {
        let save = (self.tyenv.clone(), self.alias.clone());
        let mut special: Option<(String, String)> = None;
        if let Expr::MethodCall(mc) = &*l.expr {
            if mc.method == "last_mut" && mc.args.is_empty() {
                // `if let Some(x) = v.last_mut()`: x is the last element of the Vec place, mutations of x are written back into it
                let (root, fs) = self.place(&mc.receiver)?;
                let elt = match self.place_ty(&root, &fs)? { Ty::List(t) => *t, _ => return err("last_mut on a place that is not a Vec", mc.span()) };
                let inner = match &*l.pat {
                    Pat::TupleStruct(ts) if ts.path.segments.len() == 1 && ts.path.segments[0].ident == "Some" && ts.elems.len() == 1 => &ts.elems[0],
                    _ => return err("if-let on last_mut() with a pattern other than Some(..)", l.span()),
                };
                let cur = self.place_get(&root, &fs);
                let (patstr, child, child_ty, elem_tmpl) = match inner {
                    Pat::Ident(id) => (id.ident.to_string(), id.ident.to_string(), elt.clone(), "{}".to_string()),
                    Pat::Tuple(tp) => {
                        let tys = match &elt { Ty::Tuple(ts) => ts.clone(), _ => vec![Ty::Unknown; tp.elems.len()] };
                        let mut names = vec![]; let mut tmpl = vec![]; let mut child: Option<(String, Ty)> = None;
                        for (k, e) in tp.elems.iter().enumerate() {
                            match e {
                                Pat::Ident(id) if child.is_none() => { let n = id.ident.to_string(); names.push(n.clone()); tmpl.push("{}".to_string()); child = Some((n, tys.get(k).cloned().unwrap_or(Ty::Unknown))); }
                                Pat::Wild(_) => { let n = self.fresh("lm"); names.push(n.clone()); tmpl.push(n); }
                                _ => return err("pattern on the element of last_mut()", e.span()),
                            }
                        }
                        let (c, ct) = child.ok_or("T8: last_mut() pattern binds nothing")?;
                        (format!("({})", names.join(", ")), c, ct, format!("({})", tmpl.join(", ")))
                    }
                    _ => return err("pattern on the element of last_mut()", inner.span()),
                };
                let child_ty = self.resolve_self(child_ty);
                self.tyenv.insert(child.clone(), child_ty);
                let rebuilt = self.place_rebuild(&root, &fs, &format!("(vec_upd_last {} {})", cur, elem_tmpl));
                self.alias.insert(child, (root, rebuilt));
                special = Some((format!("vec_last {}", cur), format!("Some {}", patstr)));
            }
        }
        let (scrut, pat) = match special {
            Some(x) => x,
            None => {
                let (a, t) = self.expr(&l.expr, pre)?;
                let p = self.gpat(&l.pat, &t)?;
                (a, p)
            }
        };
        let wild = match &*l.pat {
            Pat::TupleStruct(ts) if ts.path.segments.len() == 1 && ts.path.segments[0].ident == "Some" && ts.elems.len() == 1 && Self::irrefutable(&ts.elems[0]) => "None",
            _ => "_",
        };
        let a = self.branch(&i.then_branch.stmts, conts, is_tail)?;
        self.tyenv = save.0.clone();
        self.alias = save.1.clone();
        let b = match &i.else_branch {
            Some((_, eb)) => match &**eb {
                Expr::Block(bl) => self.branch(&bl.block.stmts, conts, is_tail)?,
                other => {
                    let st = [Stmt::Expr(other.clone(), if is_tail { None } else { Some(Default::default()) })];
                    self.seq_owned(&st, conts)?
                }
            },
            None => self.seq(&[], conts)?,
        };
        self.tyenv = save.0;
        self.alias = save.1;
        Ok(format!("match {} with\n| {} => (\n{})\n| {} => (\n{})\nend", scrut, pat, a, wild, b))
    }

    /// `for _ in 0..count { body }`: the body is lifted into a member of the mutual Fixpoint that runs one iteration per
    /// unit of fuel; `break` / the exhausted counter hand the loop-carried variables back, `return` and `?` leave the function.
    fn for_loop(&mut self, fl: &ExprForLoop, conts: &[&[Stmt]], pre: &mut String) -> R<String> {
        if !self.tr.cfg.fuel { return err("a loop (translate this file with --fuel)", fl.span()); }
        if self.loop_mode.is_some() { return err("nested loops", fl.span()); }
        if !matches!(&*fl.pat, Pat::Wild(_)) { return err("loop variable (only `for _ in 0..n`)", fl.pat.span()); }
        let count_expr = match &*fl.expr {
            Expr::Range(r) if matches!(r.limits, RangeLimits::HalfOpen(_)) => match (&r.start, &r.end) {
                (Some(st), Some(en)) if matches!(&**st, Expr::Lit(ExprLit { lit: Lit::Int(i), .. }) if i.base10_digits() == "0") => en,
                _ => return err("loop range (only `0..n`)", fl.expr.span()),
            },
            _ => return err("loop iterator (only `0..n`)", fl.expr.span()),
        };
        let (cnt, _) = self.expr(count_expr, pre)?;
        use quote::ToTokens;
        let toks: Vec<String> = rust_tokens(&fl.body.to_token_stream().to_string());
        let mut carried: Vec<String> = self.outs.clone();
        for k in 1..toks.len().saturating_sub(1) {
            let op = toks[k + 1].as_str();
            if (op == "=" || (op.len() == 2 && op.ends_with('=') && !matches!(op, "==" | "!=" | "<=" | ">="))) && !matches!(toks[k - 1].as_str(), "let" | "mut" | ".")
                && self.tyenv.contains_key(&toks[k]) && !carried.contains(&toks[k]) {
                carried.push(toks[k].clone());
            }
        }
        let line = fl.span().start().line;
        let mut oracles = String::new();
        for (o, _) in &self.tr.cfg.oracles { let _ = write!(oracles, " {}", o); }
        if let Some((lname, free, carried0)) = self.loops_done.get(&line).cloned() {
            // the same source loop reached through another copy of the continuation: one lifted function serves all
            if carried0 != carried || free.iter().any(|v| !self.tyenv.contains_key(v)) { return err(&format!("a loop reached with different variables in scope: carried {:?} vs {:?}, free {:?}", carried0, carried, free), fl.span()); }
            let k = self.seq(&[], conts)?;
            let cpat = if carried.is_empty() { "_".to_string() } else if carried.len() == 1 { carried[0].clone() } else { format!("({})", carried.join(", ")) };
            return Ok(format!("match {} W trap{} fuel' {} {} {} with\n| GPanic s_ => GPanic s_\n| GOk (LRet r_) => GOk r_\n| GOk (LNext {}) => (\n{})\nend",
                lname, oracles, paren(&cnt), free.join(" "), carried.join(" "), cpat, k));
        }
        // variables whose first mention in the body binds them (`let .. x .. =`) are not inputs of the loop
        let mut bound_first: HashSet<String> = HashSet::new();
        {
            let mut seen: HashSet<String> = HashSet::new();
            let mut in_let = false;
            for t in &toks {
                if t == "let" { in_let = true; continue; }
                if in_let && t == "=" { in_let = false; continue; }
                if t.chars().all(|c| c.is_alphanumeric() || c == '_') && !seen.contains(t) {
                    seen.insert(t.clone());
                    if in_let { bound_first.insert(t.clone()); }
                }
            }
        }
        let lname = format!("{}_loop{}", self.fname, self.loops_done.len() + 1);   // numbered within the function: a name must not depend on line numbers
        let cvar = format!("cnt_{}", self.fresh);
        let save_env = (self.tyenv.clone(), self.alias.clone());
        let saved_calls = std::mem::take(&mut self.calls);
        self.alias.clear();
        self.loop_mode = Some((format!("{} W trap{} fuel' ({} - 1) @@FREE@@", lname, oracles, cvar), carried.clone()));
        let body = self.branch(&fl.body.stmts, &[], false);
        self.loop_mode = None;
        self.calls = saved_calls;
        let body = body?;
        self.tyenv = save_env.0.clone();
        self.alias = save_env.1;
        let mut free: Vec<String> = save_env.0.keys().filter(|v| !v.contains('#') && !carried.contains(v) && !bound_first.contains(*v) && has_word(&body, v)).cloned().collect();
        free.sort();
        let body = body.replace("@@FREE@@", &free.join(" "));
        let ty_of = |me: &Self, v: &String| -> String { match save_env.0.get(v) { Some(t) => me.resolve_self(t.clone()).coq(), None => "_".into() } };
        let mut params = String::new();
        for v in free.iter().chain(carried.iter()) { let _ = write!(params, " ({} : {})", v, ty_of(self, v)); }
        let carried_ty = if carried.is_empty() { "unit".to_string() } else { carried.iter().map(|v| ty_of(self, v)).collect::<Vec<_>>().join(" * ") };
        let mut ohdr = String::new();
        for (o, t) in &self.tr.cfg.oracles { let _ = write!(ohdr, " ({} : {})", o, t); }
        let lifted = format!("(* the `for` loop at line {} *)\nwith {} (W : N) (trap : bool){} (fuel : nat) ({} : N){} {{struct fuel}} : gres (lctl ({}) ({})) :=\n  match fuel with O => GPanic P_fuel | S fuel' =>\n  if {} =? 0 then {} else (\n{})\n  end\n",
            fl.span().start().line, lname, ohdr, cvar, params, self.full_ty, carried_ty, cvar, Self::loop_exit(&carried), indent(&body));
        self.lifted.push(lifted);
        self.loops_done.insert(line, (lname.clone(), free.clone(), carried.clone()));
        let k = self.seq(&[], conts)?;
        let cpat = if carried.is_empty() { "_".to_string() } else if carried.len() == 1 { carried[0].clone() } else { format!("({})", carried.join(", ")) };
        Ok(format!("match {} W trap{} fuel' {} {} {} with\n| GPanic s_ => GPanic s_\n| GOk (LRet r_) => GOk r_\n| GOk (LNext {}) => (\n{})\nend",
            lname, oracles, paren(&cnt), free.join(" "), carried.join(" "), cpat, k))
    }

    fn seq_owned(&mut self, st: &[Stmt], conts: &[&[Stmt]]) -> R<String> {
        // the continuation stack for an `else if`: the synthetic statement has no `after`
        let depth = self.calls.len();
        let s = self.seq(st, &conts.iter().copied().collect::<Vec<_>>())?;
        let c = self.close(depth);
        Ok(s + &c)
    }

    fn let_then(&mut self, l: &Local, after: &[Stmt], rest: &[&[Stmt]]) -> R<String> {
        let depth = self.calls.len();
        let mut out = String::new();
        let init = l.init.as_ref().ok_or("T8: cfg'd let without initialiser")?;
        let (a, t) = self.expr(&init.expr, &mut out)?;
        self.bind_pat(&l.pat, &a, t, &mut out)?;
        let k = self.seq(after, rest)?;
        out.push_str(&k);
        let c = self.close(depth);
        out.push_str(&c);
        Ok(out)
    }

    /// a nested block: its statements, then the continuations; when `tail` the block's final expression is
    /// the function result, otherwise it is evaluated for effect only.
    fn branch(&mut self, stmts: &[Stmt], conts: &[&[Stmt]], tail: bool) -> R<String> {
        let depth = self.calls.len();
        let s = if tail {
            self.seq(stmts, &[])?
        } else {
            // make sure a trailing expression without semicolon is not mistaken for the function result
            let owned: Vec<Stmt> = stmts
                .iter()
                .enumerate()
                .map(|(k, s)| match s {
                    Stmt::Expr(e, None) if k + 1 == stmts.len() && !diverges(e) => Stmt::Expr(e.clone(), Some(Default::default())),
                    o => o.clone(),
                })
                .collect();
            self.seq(&owned, conts)?
        };
        let c = self.close(depth);
        Ok(s + &c)
    }

    fn match_stmt(&mut self, m: &ExprMatch, conts: &[&[Stmt]], tail: bool, pre: &mut String) -> R<String> {
        // scrutinee: a place (possibly &mut) or a value
        let (scrut, sty, splace) = match self.place(&m.expr) {
            Ok((root, fs)) => {
                let t = self.place_ty(&root, &fs)?;
                (self.place_get(&root, &fs), t, Some((root, fs)))
            }
            Err(_) => {
                let (a, t) = self.expr(&m.expr, pre)?;
                (a, t, None)
            }
        };
        let save = (self.tyenv.clone(), self.alias.clone());
        let pat_is_extern = m.arms.iter().any(|a| match &a.pat {
            Pat::Path(pp) => { let sg = path_str(&pp.path); sg.len() >= 2 && self.tr.cfg.extern_enums.contains_key(&sg[sg.len() - 2]) }
            _ => false,
        });
        if matches!(sty, Ty::Extern(_)) || pat_is_extern {
            // a C-like external enum is its discriminant: the match becomes a chain of comparisons
            let mut out = String::new();
            let mut closers = 0;
            for arm in &m.arms {
                self.tyenv = save.0.clone();
                self.alias = save.1.clone();
                let body: Vec<Stmt> = match &*arm.body {
                    Expr::Block(b) => b.block.stmts.clone(),
                    e => vec![Stmt::Expr(e.clone(), None)],
                };
                match &arm.pat {
                    Pat::Wild(_) => {
                        let b = self.branch(&body, conts, tail)?;
                        let _ = write!(out, "(\n{})", b);
                        for _ in 0..closers { out.push(')'); }
                        self.tyenv = save.0; self.alias = save.1;
                        return Ok(out);
                    }
                    Pat::Path(pp) => {
                        let c = self.path_expr(pp)?.0;
                        let b = self.branch(&body, conts, tail)?;
                        let _ = write!(out, "if {} =? {} then (\n{}) else (", scrut, c, b);
                        closers += 1;
                    }
                    p => return err("pattern on an external enum", p.span()),
                }
            }
            out.push_str("GPanic P_match");
            for _ in 0..closers { out.push(')'); }
            self.tyenv = save.0; self.alias = save.1;
            return Ok(out);
        }
        let mut out = format!("match {} with\n", scrut);
        for arm in &m.arms {
            if arm.guard.is_some() {
                return err("match guard", arm.span());
            }
            self.tyenv = save.0.clone();
            self.alias = save.1.clone();
            let pat = self.pattern(&arm.pat, &sty, splace.as_ref())?;
            let body: Vec<Stmt> = match &*arm.body {
                Expr::Block(b) => b.block.stmts.clone(),
                e => vec![Stmt::Expr(e.clone(), None)],
            };
            let b = self.branch(&body, conts, tail)?;
            let _ = writeln!(out, "| {} => (\n{})", pat, b);
        }
        self.tyenv = save.0;
        self.alias = save.1;
        out.push_str("end");
        Ok(out)
    }

    fn pattern(&mut self, p: &Pat, sty: &Ty, splace: Option<&(String, Vec<(String, String)>)>) -> R<String> {
        match p {
            Pat::Wild(_) => Ok("_".into()),
            Pat::Path(pp) => Ok(self.path_expr(pp)?.0),
            Pat::Ident(i) => {
                // a bare identifier that names a unit variant cannot occur (variants are always qualified here)
                let n = i.ident.to_string();
                if n == "None" { return Ok(n); }
                self.tyenv.insert(n.clone(), sty.clone());
                Ok(n)
            }
            Pat::TupleStruct(ts) if ts.path.segments.len() == 1 && (ts.path.segments[0].ident == "Ok" || ts.path.segments[0].ident == "Some") && ts.elems.len() == 1 => {
                let inner_ty = match sty { Ty::Opt(t) | Ty::Res(t) => (**t).clone(), _ => Ty::Unknown };
                let ctor = if matches!(sty, Ty::Res(_)) { "ROk" } else { "Some" };
                let inner = self.pattern(&ts.elems[0], &inner_ty, None)?;
                Ok(format!("{} ({})", ctor, inner))
            }
            Pat::Struct(ps) if ps.path.segments.len() >= 2 => {
                // `Enum::Variant { a, b, .. }`
                let segs = path_str(&ps.path);
                let owner = self.resolve_owner(&segs[segs.len() - 2]);
                let var = segs.last().unwrap().clone();
                let names = self.tr.variant_fields.get(&(owner.clone(), var.clone())).cloned().ok_or(format!("T8: unknown struct variant {}::{} in a pattern", owner, var))?;
                let tys = self.tr.enums.get(&owner).and_then(|vs| vs.iter().find(|(v, _)| *v == var)).map(|(_, t)| t.clone()).unwrap_or_default();
                let mut slots = vec!["_".to_string(); names.len()];
                for fp in &ps.fields {
                    if let Member::Named(i) = &fp.member {
                        let k = names.iter().position(|n| *n == i.to_string()).ok_or(format!("T8: unknown field {} of {}::{}", i, owner, var))?;
                        let bind = match &*fp.pat { Pat::Ident(pi) => pi.ident.to_string(), Pat::Wild(_) => "_".to_string(), _ => return err("nested field pattern", fp.span()) };
                        if bind != "_" { self.tyenv.insert(bind.clone(), tys.get(k).cloned().unwrap_or(Ty::Unknown)); self.alias.remove(&bind); }
                        slots[k] = bind;
                    }
                }
                Ok(format!("{}_{} {}", owner, var, slots.join(" ")))
            }
            Pat::TupleStruct(ts) => {
                let segs = path_str(&ts.path);
                let owner = if segs.len() >= 2 {
                    self.resolve_owner(&segs[segs.len() - 2])
                } else {
                    return self.gpat(p, sty);
                };
                let var = segs.last().unwrap().clone();
                let payload = self.tr.enums.get(&owner).and_then(|vs| vs.iter().find(|(v, _)| *v == var)).map(|(_, t)| t.clone())
                    .ok_or(format!("T8: unknown variant {}::{} in a pattern", owner, var))?;
                let mut names = vec![];
                for (k, e) in ts.elems.iter().enumerate() {
                    match e {
                        Pat::Ident(i) => {
                            let n = i.ident.to_string();
                            self.tyenv.insert(n.clone(), payload.get(k).cloned().unwrap_or(Ty::Unknown));
                            names.push(n);
                        }
                        Pat::Wild(_) => names.push("_".into()),
                        other => { let t = payload.get(k).cloned().unwrap_or(Ty::Unknown); let g = self.gpat(other, &t)?; names.push(paren(&g)); }
                    }
                }
                // by-reference binding into a mutable place: mutations of the binding are written back
                if let Some((root, fs)) = splace {
                    if names.len() == 1 && names[0] != "_" {
                        let rebuilt = format!("({}_{} {{}})", owner, var);
                        if fs.is_empty() {
                            self.alias.insert(names[0].clone(), (root.clone(), rebuilt));
                        }
                    }
                }
                Ok(format!("{}_{} {}", owner, var, names.join(" ")))
            }
            _ => self.gpat(p, sty),
        }
    }

    /// A (possibly nested) pattern as a Gallina pattern; binds the identifiers by value (no aliases).
    fn gpat(&mut self, p: &Pat, sty: &Ty) -> R<String> {
        let sty = self.resolve_self(sty.clone());
        match p {
            Pat::Wild(_) => Ok("_".into()),
            Pat::Paren(pp) => self.gpat(&pp.pat, &sty),
            Pat::Reference(r) => self.gpat(&r.pat, &sty),
            Pat::Ident(i) => {
                let n = i.ident.to_string();
                if n == "None" { return Ok("None".into()); }
                self.alias.remove(&n);
                self.tyenv.insert(n.clone(), sty.clone());
                Ok(n)
            }
            Pat::Path(pp) => Ok(self.path_expr(pp)?.0),
            Pat::Or(o) => {
                let mut alts = vec![];
                for c in &o.cases { alts.push(self.gpat(c, &sty)?); }
                Ok(alts.join(" | "))
            }
            Pat::Tuple(tp) => {
                let tys = match &sty { Ty::Tuple(ts) => ts.clone(), _ => vec![Ty::Unknown; tp.elems.len()] };
                let mut parts = vec![];
                for (k, e) in tp.elems.iter().enumerate() { parts.push(self.gpat(e, tys.get(k).unwrap_or(&Ty::Unknown))?); }
                Ok(format!("({})", parts.join(", ")))
            }
            Pat::TupleStruct(ts) if ts.path.segments.len() == 1 && ts.elems.len() == 1 && matches!(ts.path.segments[0].ident.to_string().as_str(), "Ok" | "Some" | "Err") => {
                let head = ts.path.segments[0].ident.to_string();
                if head == "Err" && !matches!(sty, Ty::Res(_)) && matches!(&ts.elems[0], Pat::Wild(_)) {
                    // `Result<T, Box<dyn Error>>` is `option T`: the error value is not observable
                    return Ok("None".into());
                }
                let inner_ty = match (&sty, head.as_str()) { (Ty::Opt(t), _) | (Ty::Res(t), "Ok") => (**t).clone(), _ => Ty::Unknown };
                let ctor = match (head.as_str(), &sty) { ("Some", _) => "Some", ("Ok", Ty::Res(_)) => "ROk", ("Err", Ty::Res(_)) => "RErr", ("Ok", _) => "Some", _ => return err("Err(_) pattern on a value that is not a Result<_, ErrorCode>", p.span()) };
                let inner = self.gpat(&ts.elems[0], &inner_ty)?;
                Ok(format!("{} {}", ctor, paren(&inner)))
            }
            Pat::TupleStruct(ts) => {
                let segs = path_str(&ts.path);
                if segs.len() < 2 { return err("unqualified tuple-struct pattern", p.span()); }
                let owner = self.resolve_owner(&segs[segs.len() - 2]);
                let var = segs.last().unwrap().clone();
                let payload = self.tr.enums.get(&owner).and_then(|vs| vs.iter().find(|(v, _)| *v == var)).map(|(_, t)| t.clone())
                    .ok_or(format!("T8: unknown variant {}::{} in a pattern", owner, var))?;
                let mut parts = vec![];
                for (k, e) in ts.elems.iter().enumerate() { let g = self.gpat(e, payload.get(k).unwrap_or(&Ty::Unknown))?; parts.push(paren(&g)); }
                Ok(format!("{}_{} {}", owner, var, parts.join(" ")).trim_end().to_string())
            }
            Pat::Struct(ps) => {
                let segs = path_str(&ps.path);
                if segs.len() >= 2 {
                    // `Enum::Variant { .. }` on a tuple variant, or a struct variant
                    let owner = self.resolve_owner(&segs[segs.len() - 2]);
                    let var = segs.last().unwrap().clone();
                    if let Some(names) = self.tr.variant_fields.get(&(owner.clone(), var.clone())).cloned() {
                        let tys = self.tr.enums.get(&owner).and_then(|vs| vs.iter().find(|(v, _)| *v == var)).map(|(_, t)| t.clone()).unwrap_or_default();
                        let mut slots = vec!["_".to_string(); names.len()];
                        for fp in &ps.fields {
                            if let Member::Named(i) = &fp.member {
                                let k = names.iter().position(|n| *n == i.to_string()).ok_or(format!("T8: unknown field {} of {}::{}", i, owner, var))?;
                                let g = self.gpat(&fp.pat, tys.get(k).unwrap_or(&Ty::Unknown))?;
                                slots[k] = paren(&g);
                            }
                        }
                        return Ok(format!("{}_{} {}", owner, var, slots.join(" ")));
                    }
                    let payload = self.tr.enums.get(&owner).and_then(|vs| vs.iter().find(|(v, _)| *v == var)).map(|(_, t)| t.clone())
                        .ok_or(format!("T8: unknown variant {}::{} in a pattern", owner, var))?;
                    if !ps.fields.is_empty() { return err("named fields on a tuple variant", p.span()); }
                    return Ok(format!("{}_{} {}", owner, var, vec!["_"; payload.len()].join(" ")).trim_end().to_string());
                }
                let owner = self.type_of_path(&ps.path)?;
                let fields = self.tr.structs.get(&owner).ok_or(format!("T8: unknown struct {} in a pattern", owner))?.clone();
                let mut slots = vec!["_".to_string(); fields.len()];
                for fp in &ps.fields {
                    let fname = match &fp.member { Member::Named(i) => i.to_string(), Member::Unnamed(i) => format!("f{}", i.index) };
                    let k = fields.iter().position(|(n, _)| *n == fname).ok_or(format!("T8: unknown field {}.{}", owner, fname))?;
                    let g = self.gpat(&fp.pat, &fields[k].1)?;
                    slots[k] = paren(&g);
                }
                Ok(format!("mk{} {}", owner, slots.join(" ")))
            }
            _ => err("pattern", p.span()),
        }
    }

    /// does the Gallina pattern cover every value of its type?  (only the shapes that matter here)
    fn irrefutable(p: &Pat) -> bool {
        match p {
            Pat::Wild(_) => true,
            Pat::Ident(i) => i.ident != "None",
            Pat::Paren(pp) => Self::irrefutable(&pp.pat),
            Pat::Reference(r) => Self::irrefutable(&r.pat),
            Pat::Tuple(t) => t.elems.iter().all(Self::irrefutable),
            _ => false,
        }
    }
}

fn diverges(e: &Expr) -> bool {
    matches!(e, Expr::Return(_))
}

fn cfg_width(attrs: &[Attribute]) -> Option<u32> {
    for a in attrs {
        if a.path().is_ident("cfg") {
            let s = a.meta.to_token_stream_string();
            if s.contains("target_pointer_width") {
                if s.contains("\"32\"") {
                    return Some(32);
                }
                if s.contains("\"64\"") {
                    return Some(64);
                }
            }
        }
    }
    None
}

trait Tss {
    fn to_token_stream_string(&self) -> String;
}
impl Tss for Meta {
    fn to_token_stream_string(&self) -> String {
        use quote::ToTokens;
        self.to_token_stream().to_string()
    }
}

fn is_op_assign(op: &BinOp) -> bool {
    use BinOp::*;
    matches!(op, AddAssign(_) | SubAssign(_) | MulAssign(_) | DivAssign(_) | RemAssign(_) | BitAndAssign(_) | BitOrAssign(_) | BitXorAssign(_) | ShlAssign(_) | ShrAssign(_))
}
fn de_assign(op: &BinOp) -> BinOp {
    use BinOp::*;
    match op {
        AddAssign(_) => Add(Default::default()),
        SubAssign(_) => Sub(Default::default()),
        MulAssign(_) => Mul(Default::default()),
        DivAssign(_) => Div(Default::default()),
        RemAssign(_) => Rem(Default::default()),
        BitAndAssign(_) => BitAnd(Default::default()),
        BitOrAssign(_) => BitOr(Default::default()),
        BitXorAssign(_) => BitXor(Default::default()),
        ShlAssign(_) => Shl(Default::default()),
        ShrAssign(_) => Shr(Default::default()),
        o => o.clone(),
    }
}

fn paren(s: &str) -> String {
    if s.contains(' ') && !(s.starts_with('(') && balanced_outer(s)) {
        format!("({})", s)
    } else {
        s.to_string()
    }
}
fn balanced_outer(s: &str) -> bool {
    let mut d = 0i32;
    for (i, c) in s.char_indices() {
        match c {
            '(' => d += 1,
            ')' => {
                d -= 1;
                if d == 0 && i + 1 != s.len() {
                    return false;
                }
            }
            _ => {}
        }
    }
    d == 0
}

fn has_cfg_test(attrs: &[Attribute]) -> bool {
    attrs.iter().any(|a| a.path().is_ident("cfg") && a.meta.to_token_stream_string().replace(' ', "") == "cfg(test)")
}

fn main() {
    let args: Vec<String> = std::env::args().collect();
    let mut src = String::new();
    let mut out = String::new();
    let mut types: Vec<String> = vec![];
    let mut imports: Vec<String> = vec![];
    let mut cfg = Cfg {
        extern_enums: HashMap::new(),
        aliases: HashMap::new(),
        const_w: false,
        const_prefix: String::new(),
        skip_fns: HashSet::new(),
        only_fns: None,
        val_is_2w: true,
        extern_w: false,
        newtypes: HashSet::new(),
        extern_methods: HashMap::new(),
        append_fns: HashMap::new(),
        ptr_buffer: None,
        also: vec![],
        synth_structs: vec![],
        foreign_types: vec![],
        extern_fns: HashMap::new(),
        drop_params: HashSet::new(),
        impl_of: HashSet::new(),
        f64_decoded: false,
        wrappers: None,
        derive_eq: false,
        oracles: vec![],
        fuel: false,
        use_fns: HashSet::new(),
    };
    let mut emit_consts = true;
    let mut i = 1;
    while i < args.len() {
        let v = args.get(i + 1).cloned().unwrap_or_default();
        match args[i].as_str() {
            "--src" => src = v,
            "--out" => out = v,
            "--types" => types = v.split(',').map(|s| s.to_string()).collect(),
            "--import" => imports.push(v),
            "--extern-enum" => {
                let (a, b) = v.split_once('=').expect("--extern-enum T=prefix");
                cfg.extern_enums.insert(a.into(), b.into());
            }
            "--alias" => {
                let (a, b) = v.split_once('=').expect("--alias A=type");
                cfg.aliases.insert(a.into(), b.into());
            }
            "--assoc-consts-of-w" => {
                cfg.const_w = true;
                cfg.const_prefix = v;
                emit_consts = false;
            }
            "--extern-consts-of-w" => { cfg.extern_w = true; i += 1; continue; }
            "--newtype" => { cfg.newtypes.extend(v.split(',').map(|s| s.to_string())); }
            "--extern-method" => {
                let (a, b) = v.split_once('=').expect("--extern-method T::m=f");
                cfg.extern_methods.insert(a.into(), b.into());
            }
            "--append-fn" => {
                let (a, b) = v.split_once('=').expect("--append-fn path=f");
                cfg.append_fns.insert(a.into(), b.into());
            }
            "--ptr-buffer" => cfg.ptr_buffer = Some(v.clone()),
            "--also" => {
                let (f, t) = v.split_once(':').expect("--also file:Type,Type");
                cfg.also.push((f.into(), t.split(',').map(|s| s.to_string()).collect()));
            }
            "--struct" => cfg.synth_structs.push(v.clone()),
            "--foreign" => cfg.foreign_types.push(v.clone()),
            "--extern-fn" => {
                let (a, b) = v.split_once('=').expect("--extern-fn path=f:Type");
                let (f, t) = b.split_once(':').expect("--extern-fn path=f:Type");
                cfg.extern_fns.insert(a.into(), (f.into(), t.into()));
            }
            "--wrappers" => cfg.wrappers = Some(v.clone()),
            "--oracle" => { let (a, b) = v.split_once(':').expect("--oracle name:CoqType"); cfg.oracles.push((a.into(), b.into())); }
            "--derive-eq" => { cfg.derive_eq = true; i += 1; continue; }
            "--fuel" => { cfg.fuel = true; i += 1; continue; }
            "--use" => { cfg.use_fns.extend(v.split(',').map(|s| s.to_string())); }
            "--f64-decoded" => { cfg.f64_decoded = true; i += 1; continue; }
            "--impl-of" => { cfg.impl_of.extend(v.split(',').map(|s| s.to_string())); }
            "--drop-param" => { cfg.drop_params.extend(v.split(',').map(|s| s.to_string())); }
            "--skip" => {
                cfg.skip_fns.extend(v.split(',').map(|s| s.to_string()));
            }
            "--only" => {
                cfg.only_fns = Some(v.split(',').map(|s| s.to_string()).collect());
            }
            other => panic!("unknown argument {}", other),
        }
        i += 2;
    }
    F64_DECODED.store(cfg.f64_decoded, std::sync::atomic::Ordering::Relaxed);
    match run(&src, &types, &imports, cfg, emit_consts) {
        Ok(text) => {
            let old = std::fs::read_to_string(&out).unwrap_or_default();
            if old != text {
                std::fs::write(&out, text).expect("write");
            }
        }
        Err(e) => {
            eprintln!("{}", e);
            std::process::exit(1);
        }
    }
}

fn run(src: &str, types: &[String], imports: &[String], cfg: Cfg, emit_consts: bool) -> R<String> {
    let text = std::fs::read_to_string(src).map_err(|e| format!("T8: cannot read {}: {}", src, e))?;
    let file = syn::parse_file(&text).map_err(|e| format!("T8: cannot parse {}: {}", src, e))?;
    let mut tr = Tr { cfg, structs: BTreeMap::new(), enums: BTreeMap::new(), unit_enums: HashSet::new(), consts: BTreeMap::new(), sigs: HashMap::new(), variant_fields: HashMap::new(), field_tyname: HashMap::new(), local: HashSet::new() };
    // types and signatures generated elsewhere (their files are imported by the caller with --import)
    let also = std::mem::take(&mut tr.cfg.also);
    for (f, tys) in &also {
        let t2 = std::fs::read_to_string(f).map_err(|e| format!("T8: cannot read {}: {}", f, e))?;
        let file2 = syn::parse_file(&t2).map_err(|e| format!("T8: cannot parse {}: {}", f, e))?;
        for it in &file2.items {
            match it {
                Item::Struct(s) if tys.contains(&s.ident.to_string()) => { tr.structs.insert(s.ident.to_string(), vec![]); }
                Item::Enum(e) if tys.contains(&e.ident.to_string()) => { tr.enums.insert(e.ident.to_string(), vec![]); }
                _ => {}
            }
        }
        for it in &file2.items {
            match it {
                Item::Struct(s) if tys.contains(&s.ident.to_string()) => {
                    let mut fs = vec![];
                    for (k, fl) in s.fields.iter().enumerate() { fs.push((fl.ident.as_ref().map(|i| i.to_string()).unwrap_or(format!("f{}", k)), tr.ty(&fl.ty)?)); }
                    tr.structs.insert(s.ident.to_string(), fs);
                }
                Item::Enum(e) if tys.contains(&e.ident.to_string()) => {
                    let mut vs = vec![];
                    for v in &e.variants { let mut ts = vec![]; let mut names = vec![];
                        for fl in v.fields.iter() { if let Some(i) = &fl.ident { names.push(i.to_string()); } ts.push(tr.ty(&fl.ty)?); }
                        if !names.is_empty() { tr.variant_fields.insert((e.ident.to_string(), v.ident.to_string()), names); }
                        vs.push((v.ident.to_string(), ts)); }
                    tr.enums.insert(e.ident.to_string(), vs);
                }
                Item::Impl(im) if im.trait_.is_none() && !has_cfg_test(&im.attrs) => {
                    let owner = match &*im.self_ty { Type::Path(p) => path_str(&p.path).last().unwrap().clone(), _ => continue };
                    if !tys.contains(&owner) { continue; }
                    for ii in &im.items {
                        if let ImplItem::Fn(fun) = ii {
                            if let Ok(sig) = sig_of(&tr, &owner, &fun.sig) { tr.sigs.insert((owner.clone(), sig.name.clone()), sig); }
                        }
                        if let ImplItem::Const(c) = ii {
                            if let Ok(t) = tr.ty(&c.ty) { tr.consts.insert(format!("{}::{}", owner, c.ident), (t, String::new())); }
                        }
                    }
                }
                _ => {}
            }
        }
    }
    // types defined by hand in an imported support file: known to the translation, never emitted
    let foreign = std::mem::take(&mut tr.cfg.foreign_types);
    for fdef in &foreign {   // names first (they may refer to each other)
        let (name, rest) = fdef.split_once('{').ok_or("T8: --foreign Name{..}")?;
        if rest.contains(':') { tr.structs.insert(name.trim().to_string(), vec![]); } else { tr.enums.insert(name.trim().to_string(), vec![]); }
    }
    for fdef in &foreign {
        let (name, rest) = fdef.split_once('{').unwrap();
        let name = name.trim().to_string();
        let body = rest.trim_end_matches('}');
        if body.contains(':') {
            let mut fs = vec![];
            for fd in body.split(';').filter(|x| !x.trim().is_empty()) {
                let (fname, fty) = fd.split_once(':').unwrap();
                let t: Type = syn::parse_str(fty.trim()).map_err(|e| e.to_string())?;
                fs.push((fname.trim().to_string(), tr.ty(&t)?));
            }
            tr.structs.insert(name, fs);
        } else {
            let mut vs = vec![];
            for vd in body.split(';').filter(|x| !x.trim().is_empty()) {
                let vd = vd.trim();
                let (vn, tys) = match vd.split_once('(') { Some((a, b)) => (a.trim(), b.trim_end_matches(')')), None => (vd, "") };
                let mut ts = vec![];
                for t in tys.split(',').filter(|x| !x.trim().is_empty()) {
                    let ty: Type = syn::parse_str(t.trim()).map_err(|e| e.to_string())?;
                    ts.push(tr.ty(&ty)?);
                }
                vs.push((vn.to_string(), ts));
            }
            tr.enums.insert(name, vs);
        }
    }
    let mut types: Vec<String> = types.to_vec();
    let mut synth: Vec<(String, Vec<(String, Ty)>)> = vec![];
    for sdef in std::mem::take(&mut tr.cfg.synth_structs) {
        let (name, rest) = sdef.split_once('{').ok_or("T8: --struct Name{f:T,..}")?;
        let mut fs = vec![];
        for fd in rest.trim_end_matches('}').split(';').filter(|x| !x.trim().is_empty()) {
            let (fname, fty) = fd.split_once(':').ok_or("T8: --struct field f:T")?;
            let t: Type = syn::parse_str(fty.trim()).map_err(|e| e.to_string())?;
            fs.push((fname.trim().to_string(), tr.ty(&t)?));
        }
        tr.structs.insert(name.trim().to_string(), fs.clone());
        types.push(name.trim().to_string());
        synth.push((name.trim().to_string(), fs));
    }
    let types: &[String] = &types;
    let want: HashSet<&String> = types.iter().collect();
    // pass 0: register names so that types can refer to each other
    for it in &file.items {
        match it {
            Item::Struct(s) if want.contains(&s.ident.to_string()) => {
                tr.structs.insert(s.ident.to_string(), vec![]);
            }
            Item::Enum(e) if want.contains(&e.ident.to_string()) => {
                tr.enums.insert(e.ident.to_string(), vec![]);
            }
            _ => {}
        }
    }
    let mut type_order: Vec<String> = vec![];
    let mut discr: BTreeMap<String, Vec<(String, Option<Expr>)>> = BTreeMap::new();
    for it in &file.items {
        match it {
            Item::Struct(s) if want.contains(&s.ident.to_string()) => {
                let mut fs = vec![];
                for (k, f) in s.fields.iter().enumerate() {
                    let n = f.ident.as_ref().map(|i| i.to_string()).unwrap_or(format!("f{}", k));
                    if let Type::Path(tp) = &f.ty { tr.field_tyname.insert((s.ident.to_string(), n.clone()), path_str(&tp.path).last().unwrap().clone()); }
                    fs.push((n, tr.ty(&f.ty)?));
                }
                tr.structs.insert(s.ident.to_string(), fs);
                type_order.push(s.ident.to_string());
            }
            Item::Enum(e) if want.contains(&e.ident.to_string()) => {
                let mut vs = vec![];
                let mut ds = vec![];
                for v in &e.variants {
                    let mut ts = vec![];
                    let mut names = vec![];
                    for f in v.fields.iter() {
                        if let Some(i) = &f.ident {
                            names.push(i.to_string());
                        }
                        ts.push(tr.ty(&f.ty)?);
                    }
                    if !names.is_empty() {
                        tr.variant_fields.insert((e.ident.to_string(), v.ident.to_string()), names);
                    }
                    ds.push((v.ident.to_string(), v.discriminant.as_ref().map(|(_, e)| e.clone())));
                    vs.push((v.ident.to_string(), ts));
                }
                if vs.iter().all(|(_, t)| t.is_empty()) && ds.iter().any(|(_, d)| d.is_some()) {
                    tr.unit_enums.insert(e.ident.to_string());
                    discr.insert(e.ident.to_string(), ds);
                }
                tr.enums.insert(e.ident.to_string(), vs);
                type_order.push(e.ident.to_string());
            }
            Item::Const(c) => {
                let t = tr.ty(&c.ty)?;
                tr.consts.insert(c.ident.to_string(), (t, String::new()));
            }
            _ => {}
        }
    }
    for (n, _) in &synth { type_order.push(n.clone()); }
    // dependency order of types
    let mut emitted: Vec<String> = vec![];
    fn deps(t: &Ty, acc: &mut Vec<String>) {
        match t {
            Ty::Named(n) => acc.push(n.clone()),
            Ty::List(t) => deps(t, acc),
            Ty::Tuple(ts) => ts.iter().for_each(|t| deps(t, acc)),
            _ => {}
        }
    }
    let mut guard = 0;
    while emitted.len() < type_order.len() {
        guard += 1;
        if guard > 100 {
            return Err("T8: cyclic type definitions".into());
        }
        for n in &type_order {
            if emitted.contains(n) {
                continue;
            }
            let mut d = vec![];
            if let Some(fs) = tr.structs.get(n) {
                fs.iter().for_each(|(_, t)| deps(t, &mut d));
            }
            if let Some(vs) = tr.enums.get(n) {
                vs.iter().for_each(|(_, ts)| ts.iter().for_each(|t| deps(t, &mut d)));
            }
            if d.iter().all(|x| x == n || emitted.contains(x) || !want.contains(x)) {
                emitted.push(n.clone());
            }
        }
    }
    // signatures
    let mut bodies: Vec<(Sig, Block, usize)> = vec![];
    for it in &file.items {
        if let Item::Impl(im) = it {
            if im.trait_.is_some() || has_cfg_test(&im.attrs) {
                continue;
            }
            let owner = match &*im.self_ty {
                Type::Path(p) => path_str(&p.path).last().unwrap().clone(),
                _ => continue,
            };
            if !want.contains(&owner) && !tr.cfg.impl_of.contains(&owner) {
                continue;
            }
            for ii in &im.items {
                match ii {
                    ImplItem::Const(c) => {
                        let t = tr.ty(&c.ty)?;
                        tr.consts.insert(format!("{}::{}", owner, c.ident), (t, String::new()));
                    }
                    ImplItem::Fn(f) => {
                        let name = f.sig.ident.to_string();
                        if tr.cfg.skip_fns.contains(&name) {
                            continue;
                        }
                        if tr.cfg.use_fns.contains(&name) {
                            let sig = sig_of(&tr, &owner, &f.sig)?;
                            tr.sigs.insert((owner.clone(), name), sig);
                            continue;
                        }
                        if let Some(only) = &tr.cfg.only_fns {
                            if !only.contains(&name) {
                                continue;
                            }
                        }
                        let sig = sig_of(&tr, &owner, &f.sig)?;
                        tr.sigs.insert((owner.clone(), name), sig.clone());
                        bodies.push((sig, f.block.clone(), f.span().start().line));
                    }
                    _ => {}
                }
            }
        }
    }
    // exported wrappers: `fn f(args) -> R { T::with_mut(|c| body) }` (also inside `decorate_for_target! { .. }`) become methods
    // of T with the closure parameter as the receiver
    if let Some(wt) = tr.cfg.wrappers.clone() {
        let mut fns: Vec<ItemFn> = vec![];
        for it in &file.items {
            match it {
                Item::Fn(f) if !has_cfg_test(&f.attrs) => fns.push(f.clone()),
                Item::Macro(m) if m.mac.path.segments.last().map_or(false, |s| s.ident == "decorate_for_target") => {
                    if let Ok(f) = syn::parse2::<ItemFn>(m.mac.tokens.clone()) { fns.push(f); }
                }
                _ => {}
            }
        }
        for f in fns {
            let name = f.sig.ident.to_string();
            if tr.cfg.skip_fns.contains(&name) { continue; }
            if let Some(only) = &tr.cfg.only_fns { if !only.contains(&name) { continue; } }
            // body is exactly `T::with_mut(|c| ..)` / `T::with(|c| ..)`; a listed (`--only`) exported function that does not use the
            // context at all is translated as a static function of T
            let with_call = match f.block.stmts.as_slice() {
                [Stmt::Expr(Expr::Call(c), None)] => match (&*c.func, c.args.first()) {
                    (Expr::Path(p), Some(Expr::Closure(cl))) => {
                        let sg = path_str(&p.path);
                        if sg.len() == 2 && sg[0] == wt && (sg[1] == "with_mut" || sg[1] == "with") { Some((sg[1] == "with_mut", cl.clone())) } else { None }
                    }
                    _ => None,
                },
                _ => None,
            };
            let (is_mut, closure) = match with_call {
                Some(x) => x,
                None => {
                    if tr.cfg.only_fns.as_ref().map_or(false, |o| o.contains(&name)) {
                        let sig = sig_of(&tr, &wt, &f.sig)?;
                        tr.sigs.insert((wt.clone(), name.clone()), sig.clone());
                        bodies.push((sig, (*f.block).clone(), f.span().start().line));
                    }
                    continue;
                }
            };
            let cparam = match closure.inputs.first() { Some(Pat::Ident(i)) => i.ident.to_string(), _ => continue };
            use quote::ToTokens;
            let body_txt = closure.body.to_token_stream().to_string();
            // the closure parameter is the receiver
            let mut out = String::new(); let mut word = String::new();
            for ch in body_txt.chars().chain(std::iter::once(' ')) {
                if ch.is_alphanumeric() || ch == '_' { word.push(ch); } else { if word == cparam { out.push_str("self"); } else { out.push_str(&word); } word.clear(); out.push(ch); }
            }
            let block: Block = match syn::parse_str::<Block>(&out) { Ok(b) => b, Err(_) => syn::parse_str::<Block>(&format!("{{ {} }}", out)).map_err(|e| format!("T8: wrapper {}: {}", name, e))? };
            let mut sig = sig_of(&tr, &wt, &f.sig)?;
            sig.recv = Some(is_mut);
            tr.sigs.insert((wt.clone(), name.clone()), sig.clone());
            bodies.push((sig, block, f.span().start().line));
        }
    }
    for (sg, _, _) in &bodies { tr.local.insert((sg.owner.clone(), sg.name.clone())); }
    // translate bodies
    let mut defs: Vec<(String, String, Vec<(String, String)>)> = vec![]; // (key, text, callees)
    for (sig, block, line) in &bodies {
        let mut fx = Fx { tr: &tr, self_ty: sig.owner.clone(), outs: vec![], ret: sig.ret.clone(), tyenv: HashMap::new(), alias: HashMap::new(), fresh: 0, calls: vec![], ptr_src: HashMap::new(), loop_mode: None, lifted: vec![], full_ty: String::new(), fname: format!("{}_{}", sig.owner, sig.name), loops_done: HashMap::new() };
        let kw = if !tr.cfg.fuel { "Definition" } else if defs.is_empty() { "Fixpoint" } else { "with" };
        let mut header = format!("(* {}::{} — {}:{} *)\n{} {}_{} (W : N) (trap : bool)", sig.owner, sig.name, src_rel(src), line, kw, sig.owner, sig.name);
        for (o, t) in &tr.cfg.oracles { let _ = write!(header, " ({} : {})", o, t); }
        if tr.cfg.fuel { header.push_str(" (fuel : nat)"); }
        let mut out_tys: Vec<String> = vec![];
        if let Some(m) = sig.recv {
            let st = tr.named(&sig.owner);
            let _ = write!(header, " (self : {})", st.coq());
            fx.tyenv.insert("self".into(), st.clone());
            if m {
                fx.outs.push("self".into());
                out_tys.push(st.coq());
            }
        }
        for (n, t, is_mut) in &sig.params {
            let t = fx.resolve_self(t.clone());
            let _ = write!(header, " ({} : {})", n, t.coq());
            fx.tyenv.insert(n.clone(), t.clone());
            if *is_mut {
                fx.outs.push(n.clone());
                out_tys.push(t.coq());
            }
        }
        let rt = fx.resolve_self(sig.ret.clone());
        if rt != Ty::Unit {
            out_tys.push(rt.coq());
        }
        let full = if out_tys.is_empty() { "unit".to_string() } else { out_tys.join(" * ") };
        if tr.cfg.fuel {
            let _ = write!(header, " {{struct fuel}} : gres ({}) :=\n  match fuel with O => GPanic P_fuel | S fuel' =>\n", full);
        } else {
            let _ = write!(header, " : gres ({}) :=\n", full);
        }
        fx.full_ty = full.clone();
        let body = fx.seq(&block.stmts, &[])?;
        if tr.cfg.fuel {
            let mut t = format!("{}{}\n  end\n", header, indent(&body));
            for l in &fx.lifted { t.push_str(l); }
            defs.push((format!("{}_{}", sig.owner, sig.name), t, vec![]));
            continue;
        }
        let callees: Vec<(String, String)> = tr.sigs.keys().filter(|(o, n)| calls_fn(&body, &format!("{}_{} W trap", o, n))).cloned().collect();
        defs.push((format!("{}_{}", sig.owner, sig.name), format!("{}{}.\n", header, indent(&body)), callees));
    }
    // order definitions by dependency
    let mut done: Vec<String> = vec![];
    let mut text_defs = String::new();
    let mut guard = 0;
    if tr.cfg.fuel {
        // one mutual Fixpoint on the fuel, in source order
        for (k, t, _) in &defs { text_defs.push_str(t); done.push(k.clone()); }
        text_defs = text_defs.trim_end().to_string() + ".\n";
    }
    while done.len() < defs.len() {
        guard += 1;
        if guard > 200 {
            return Err("T8: recursive functions are not supported".into());
        }
        for (k, t, cs) in &defs {
            if done.contains(k) {
                continue;
            }
            if cs.iter().all(|(o, n)| { let key = format!("{}_{}", o, n); done.contains(&key) || !defs.iter().any(|(k2, _, _)| *k2 == key) }) {
                text_defs.push_str(t);
                text_defs.push('\n');
                done.push(k.clone());
            }
        }
    }

    // ---------------------------------------------------------------- output
    let mut o = String::new();
    let _ = writeln!(o, "(** GENERATED by translators/rs2v (T8) from {} - do not edit.\n    Every definition below is a mechanical translation of the Rust item named in the comment above it. *)", src_rel(src));
    let _ = writeln!(o, "From Coq Require Import NArith ZArith List Bool.");
    let mut imp = vec!["Base.Bytes".to_string(), "Base.RsPrelude".to_string()];
    imp.extend(imports.iter().cloned());
    let _ = writeln!(o, "From SFV Require Import {}.", imp.join(" "));
    let _ = writeln!(o, "Import ListNotations.\nOpen Scope N_scope.\n");
    if tr.cfg.fuel {
        // the members of the one Fixpoint do not all call each other
        let _ = writeln!(o, "Local Set Warnings \"-non-full-mutual\".\n");
    }
    if emit_consts {
        for it in &file.items {
            if let Item::Const(c) = it {
                if let Expr::Lit(ExprLit { lit: Lit::Int(i), .. }) = &*c.expr {
                    let _ = writeln!(o, "Definition {} : N := {}.", c.ident, i.base10_digits());
                }
            }
        }
        o.push('\n');
    }
    for n in &emitted {
        if tr.cfg.newtypes.contains(n) {
            continue;
        }
        if let Some(fs) = tr.structs.get(n) {
            let fields: Vec<String> = fs.iter().map(|(f, t)| format!("{}_{} : {}", n, f, t.coq())).collect();
            let _ = writeln!(o, "Record {} := mk{} {{ {} }}.", n, n, fields.join("; "));
            for (k, (f, t)) in fs.iter().enumerate() {
                let args: Vec<String> = fs.iter().enumerate().map(|(j, (g, _))| if j == k { "v".to_string() } else { format!("({}_{} s)", n, g) }).collect();
                let _ = writeln!(o, "Definition {}_set_{} (s : {}) (v : {}) : {} := mk{} {}.", n, f, n, t.coq(), n, n, args.join(" "));
            }
            if tr.cfg.derive_eq && fs.iter().all(|(_, t)| eqb_of(t).is_some()) {
                let conj: Vec<String> = fs.iter().map(|(f, t)| eqb_of(t).unwrap().replace("{a}", &format!("({}_{} a)", n, f)).replace("{b}", &format!("({}_{} b)", n, f))).collect();
                let _ = writeln!(o, "(* #[derive(PartialEq)] *)\nDefinition {}_eqb (a b : {}) : bool := {}.", n, n, if conj.is_empty() { "true".to_string() } else { conj.join(" && ") });
            }
        } else if let Some(vs) = tr.enums.get(n) {
            let _ = writeln!(o, "Inductive {} :=", n);
            for (v, ts) in vs {
                let args: Vec<String> = ts.iter().enumerate().map(|(k, t)| format!("(a{} : {})", k, t.coq())).collect();
                let _ = writeln!(o, "| {}_{} {}", n, v, args.join(" "));
            }
            let _ = writeln!(o, ".");
            if tr.cfg.derive_eq && vs.iter().all(|(_, ts)| ts.iter().all(|t| eqb_of(t).is_some())) {
                let _ = writeln!(o, "(* #[derive(PartialEq)] *)\nDefinition {}_eqb (a b : {}) : bool :=\n  match a, b with", n, n);
                for (v, ts) in vs {
                    let xs: Vec<String> = (0..ts.len()).map(|k| format!("x{}", k)).collect();
                    let ys: Vec<String> = (0..ts.len()).map(|k| format!("y{}", k)).collect();
                    let conj: Vec<String> = ts.iter().enumerate().map(|(k, t)| eqb_of(t).unwrap().replace("{a}", &xs[k]).replace("{b}", &ys[k])).collect();
                    let _ = writeln!(o, "  | {}_{} {}, {}_{} {} => {}", n, v, xs.join(" "), n, v, ys.join(" "), if conj.is_empty() { "true".to_string() } else { conj.join(" && ") });
                }
                let _ = writeln!(o, "  | _, _ => false\n  end.");
            }
            if let Some(ds) = discr.get(n) {
                // discriminants of a C-like enum (implicit ones continue from the previous)
                let mut fx = Fx { tr: &tr, self_ty: n.clone(), outs: vec![], ret: Ty::Unit, tyenv: HashMap::new(), alias: HashMap::new(), fresh: 0, calls: vec![], ptr_src: HashMap::new(), loop_mode: None, lifted: vec![], full_ty: String::new(), fname: String::new(), loops_done: HashMap::new() };
                let _ = writeln!(o, "Definition {}_discr (W : N) (t : {}) : N :=\n  match t with", n, n);
                let mut prev: Option<String> = None;
                for (v, d) in ds {
                    let val = match d {
                        Some(e) => {
                            let mut pre = String::new();
                            let (a, _) = fx.expr(e, &mut pre)?;
                            if !pre.is_empty() {
                                return err("non-constant discriminant", e.span());
                            }
                            a
                        }
                        None => match &prev {
                            Some(p) => format!("({} + 1)", p),
                            None => "0".into(),
                        },
                    };
                    let _ = writeln!(o, "  | {}_{} => {}", n, v, val);
                    prev = Some(val);
                }
                let _ = writeln!(o, "  end.");
                let all: Vec<String> = ds.iter().map(|(v, _)| format!("{}_{}", n, v)).collect();
                let _ = writeln!(o, "Definition {}_all : list {} := [{}].", n, n, all.join("; "));
                let _ = writeln!(o, "(* strum::FromRepr *)\nDefinition {}_from_repr (W : N) (v : N) : option {} :=\n  find (fun t => {}_discr W t =? v) {}_all.", n, n, n, n);
            }
        }
        o.push('\n');
    }
    o.push_str(&text_defs);
    Ok(o)
}

fn sig_of(tr: &Tr, owner: &str, fsig: &Signature) -> R<Sig> {
    let mut recv = None;
    let mut params = vec![];
    let mut dropped = vec![];
    let mut pos = 0usize;
    for a in &fsig.inputs {
        match a {
            FnArg::Receiver(r) => recv = Some(r.reference.is_some() && r.mutability.is_some()),
            FnArg::Typed(pt) => {
                let n = match &*pt.pat {
                    Pat::Ident(i) => i.ident.to_string(),
                    _ => return err("parameter pattern", pt.span()),
                };
                if tr.cfg.drop_params.contains(&n) { dropped.push(pos); pos += 1; continue; }
                pos += 1;
                let is_mut = matches!(&*pt.ty, Type::Reference(r) if r.mutability.is_some());
                params.push((n, tr.ty(&pt.ty)?, is_mut));
            }
        }
    }
    let ret = match &fsig.output {
        ReturnType::Default => Ty::Unit,
        ReturnType::Type(_, t) => ret_ty(tr, t)?,
    };
    Ok(Sig { owner: owner.to_string(), name: fsig.ident.to_string(), recv, params, ret, dropped })
}

fn ret_ty(tr: &Tr, t: &Type) -> R<Ty> {
    // `Result<T, Box<dyn Error>>` is modelled as `option T` (the error text is not observable through the ABI)
    if let Type::Path(p) = t {
        let seg = p.path.segments.last().unwrap();
        if seg.ident == "Result" || seg.ident == "Option" {
            if let PathArguments::AngleBracketed(a) = &seg.arguments {
                if let Some(GenericArgument::Type(inner)) = a.args.first() {
                    if seg.ident == "Result" {
                        if let Some(GenericArgument::Type(Type::Path(ep))) = a.args.iter().nth(1) {
                            if tr.cfg.extern_enums.contains_key(&path_str(&ep.path).last().unwrap().clone()) {
                                return Ok(Ty::Res(Box::new(ret_inner(tr, inner)?)));
                            }
                        }
                    }
                    return Ok(Ty::Opt(Box::new(ret_inner(tr, inner)?)));
                }
            }
        }
    }
    tr.ty(t)
}

/// identifiers, runs of operator characters, and single punctuation characters of a printed token stream
fn rust_tokens(s: &str) -> Vec<String> {
    let mut out = vec![];
    let mut cur = String::new();
    let mut kind = 0; // 1 = word, 2 = operator run
    for ch in s.chars() {
        let k = if ch.is_alphanumeric() || ch == '_' { 1 } else if "=<>!+-*/&|^%".contains(ch) { 2 } else { 0 };
        if k != kind || k == 0 {
            if !cur.is_empty() { out.push(std::mem::take(&mut cur)); }
        }
        if k != 0 { cur.push(ch); } else if !ch.is_whitespace() { out.push(ch.to_string()); }
        kind = k;
    }
    if !cur.is_empty() { out.push(cur); }
    out
}

fn has_word(body: &str, w: &str) -> bool {
    let mut from = 0;
    while let Some(k) = body[from..].find(w) {
        let at = from + k;
        let before = body[..at].chars().last();
        let after = body[at + w.len()..].chars().next();
        let idc = |c: Option<char>| matches!(c, Some(c) if c.is_alphanumeric() || c == '_' || c == '\'');
        if !idc(before) && !idc(after) {
            return true;
        }
        from = at + 1;
    }
    false
}

fn calls_fn(body: &str, pat: &str) -> bool {
    let mut from = 0;
    while let Some(k) = body[from..].find(pat) {
        let at = from + k;
        let before = body[..at].chars().last();
        if !matches!(before, Some(c) if c.is_alphanumeric() || c == '_') {
            return true;
        }
        from = at + 1;
    }
    false
}

/// the payload of a Result/Option: may itself contain Option (e.g. `(Self, Option<usize>)`)
/// the boolean equality of a type, as a template over `{a}` / `{b}` (None: not supported)
fn eqb_of(t: &Ty) -> Option<String> {
    match t {
        Ty::Int(k) if is_signed(k) => Some("(Z.eqb {a} {b})".into()),
        Ty::Int(_) | Ty::Extern(_) => Some("({a} =? {b})".into()),
        Ty::Bool => Some("(Bool.eqb {a} {b})".into()),
        Ty::Named(n) => Some(format!("({}_eqb {{a}} {{b}})", n)),
        _ => None,
    }
}

fn ret_inner(tr: &Tr, t: &Type) -> R<Ty> {
    match t {
        Type::Tuple(tt) => Ok(Ty::Tuple(tt.elems.iter().map(|e| ret_inner(tr, e)).collect::<R<Vec<_>>>()?)),
        Type::Path(p) if p.path.segments.last().map_or(false, |s| s.ident == "Option") => ret_ty(tr, t),
        Type::Reference(r) => ret_inner(tr, &r.elem),
        _ => tr.ty(t),
    }
}

fn src_rel(s: &str) -> String {
    match s.find("/repo/") {
        Some(k) => s[k + 6..].to_string(),
        None => s.to_string(),
    }
}

fn indent(s: &str) -> String {
    let mut out = String::new();
    let mut depth: i32 = 1;
    for line in s.lines() {
        let l = line.trim();
        if l.is_empty() {
            continue;
        }
        let closes = l.chars().take_while(|c| *c == ')').count() as i32;
        let d = (depth - closes).max(1);
        for _ in 0..d {
            out.push_str("  ");
        }
        out.push_str(l);
        out.push('\n');
        let opens = l.matches('(').count() as i32;
        let cl = l.matches(')').count() as i32;
        depth = (depth + opens - cl).max(1);
    }
    out.trim_end().to_string()
}
