#!/bin/sh
# Offline setup after a fresh restore: build the Coq development (full .vo), the extracted
# OCaml driver and the Rust harnesses from files on disk only.
set -e
cd "$(dirname "$0")"
export RUSTUP_TOOLCHAIN=stable-x86_64-unknown-linux-gnu CARGO_NET_OFFLINE=true
python3 - <<'PY'
import sys, os
sys.path.insert(0, "lib"); sys.path.insert(0, "props"); sys.path.insert(0, "translators")
import vf, importlib, glob
# regenerate every generated file from /repo, then build everything
for f in sorted(glob.glob("props/c[0-9][0-9].py")):
    m = importlib.import_module(os.path.basename(f)[:-3])
    try:
        m.Property().regen()
    except Exception as e:
        print("regen failed for", f, e)
try:
    vf.coq_build([])
    print("coq build ok")
    vf.build_driver()
    print("driver ok")
    crates = sorted({importlib.import_module(os.path.basename(f)[:-3]).Property().crate for f in glob.glob("props/c[0-9][0-9].py")})
    for c in crates:
        vf.build_harness(c)
        print("harness ok:", c)
    # 32-bit execution of the real crates (C11): Miri sysroot for i686 and a warm build of the reader harness
    import w32
    w32.run_reader([])
    print("miri/i686 ok")
except vf.Failure as f:
    print("SETUP FAILURE:", f.what); print(f.detail); sys.exit(1)
PY
