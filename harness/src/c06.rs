//! C06: NaN-box codec on the host pointer width (W = usize::BITS, Val = 2W bits).
//! Every constructor and try_decode is called on generated inputs under catch_unwind.
use crate::{prng::*, Args, Out};
use shopify_function_wasm_api_core::read::{ErrorCode, NanBox, Val, ValueRef};

const W: u32 = usize::BITS;

fn dec(v: Val) -> String {
    let r = std::panic::catch_unwind(|| NanBox::from_bits(v).try_decode().map_err(|_| ()));
    match r {
        Err(_) => "PANIC".into(),
        Ok(Err(())) => "DECERR".into(),
        Ok(Ok(ValueRef::Null)) => "NULL".into(),
        Ok(Ok(ValueRef::Bool(b))) => format!("BOOL {}", b as u8),
        Ok(Ok(ValueRef::Number(n))) => format!("NUM {:x}", n.to_bits()),
        Ok(Ok(ValueRef::String { ptr, len })) => format!("STR {:x} {:x}", ptr, len),
        Ok(Ok(ValueRef::Object { ptr, len })) => format!("OBJ {:x} {:x}", ptr, len),
        Ok(Ok(ValueRef::Array { ptr, len })) => format!("ARR {:x} {:x}", ptr, len),
        Ok(Ok(ValueRef::Error(e))) => format!("ERROR {:x}", e as usize),
    }
}

pub fn exec(id: usize, line: &str) -> String {
    let t: Vec<&str> = line.split_whitespace().collect();
    let h = |s: &str| u128::from_str_radix(s, 16).unwrap();
    let body = match t.as_slice() {
        ["ENC", kind, p, l] => {
            let (p, l) = (h(p) as usize, h(l) as usize);
            let nb = match *kind { "STR" => NanBox::string(p, l), "OBJ" => NanBox::obj(p, l), _ => NanBox::array(p, l) };
            format!("BITS {:x} {}", nb.to_bits(), dec(nb.to_bits()))
        }
        ["BOOL", b] => { let nb = NanBox::bool(*b == "1"); format!("BITS {:x} {}", nb.to_bits(), dec(nb.to_bits())) }
        ["NULL"] => { let nb = NanBox::null(); format!("BITS {:x} {}", nb.to_bits(), dec(nb.to_bits())) }
        ["ERR", c] => match ErrorCode::from_repr(h(c) as usize) {
            Some(e) => { let nb = NanBox::error(e); format!("BITS {:x} {}", nb.to_bits(), dec(nb.to_bits())) }
            None => "NOCODE".into(),
        },
        ["NUM", b] => {
            let bits = h(b) as u64;
            match std::panic::catch_unwind(|| NanBox::number(f64::from_bits(bits)).to_bits()) {
                Ok(v) => format!("BITS {:x} {}", v, dec(v)),
                Err(_) => "NUM-ASSERT".into(),
            }
        }
        ["RAW", v] => dec(h(v) as Val),
        _ => panic!("c06: bad line {}", line),
    };
    format!("{} {}", id, body)
}

fn run_lines(out: &mut Out, id: usize, lines: &[String]) {
    out.case(&format!("CASE {} {}", id, W));
    for l in lines { out.case(l); out.imp(&exec(id, l)); }
    out.case("END");
}

pub fn run(a: &Args, out: &mut Out) {
    if let Some(f) = &a.replay {
        let text = std::fs::read_to_string(f).unwrap();
        let mut id = 0; let mut cur: Vec<String> = vec![]; let mut n = 0u64;
        for line in text.lines() {
            if line.starts_with("CASE ") { id = line.split_whitespace().nth(1).unwrap().parse().unwrap(); cur.clear(); }
            else if line == "END" { n += cur.len() as u64; run_lines(out, id, &cur); }
            else if !line.trim().is_empty() { cur.push(line.to_string()); }
        }
        out.stat("evaluations", n.into()); out.stat("cases", 1.into());
        return;
    }
    let mut rng = Rng::new(a.seed);
    let thorough = a.tier == "thorough";
    let vbits = 2 * W;                      // Val::BITS
    let off = vbits - 64;                   // F64_OFFSET
    let mut id = 0usize; let mut evals = 0u64;
    let mut kinds = std::collections::BTreeMap::<&str, u64>::new();
    let mut distinct = std::collections::BTreeSet::<String>::new();
    let emit = |out: &mut Out, lines: Vec<String>, id: &mut usize, evals: &mut u64| { *evals += lines.len() as u64; run_lines(out, *id, &lines); *id += 1; };

    // (1) decision-relevant bits: sign x 13 prefix bits x 4 tag bits, with boundary payloads
    let prefixes: Vec<u128> = if thorough { (0..8192).collect() } else {
        let mut v: Vec<u128> = vec![8191, 8190, 8189, 4095, 4096, 6143, 7167, 0, 1, 2047, 2048];
        for _ in 0..120 { v.push(rng.below(8192) as u128); } v };
    let payload_bits = vbits - 64 + 46;     // bits below the tag: 46 at W=32, 110 at W=64
    for &pre in &prefixes {
        let mut lines = vec![];
        for sign in 0..2u128 { for tag in 0..16u128 {
            let pls: Vec<u128> = vec![0, 1, (1u128 << payload_bits) - 1, rng.next_u64() as u128 | ((rng.next_u64() as u128) << 64)];
            for pl in pls {
                let pl = pl & ((1u128 << payload_bits) - 1);
                let v = (sign << (vbits - 1)) | (pre << (vbits - 14)) | (tag << payload_bits) | pl;
                lines.push(format!("RAW {:x}", v));
                if pre == 8191 { distinct.insert(format!("{}-{}", sign, tag)); }
            } } }
        *kinds.entry("raw").or_insert(0) += lines.len() as u64;
        emit(out, lines, &mut id, &mut evals);
    }
    // (2) pointer/length round trips: all lengths around the limits, boundary pointers
    let max_len: u128 = NanBox::MAX_VALUE_LENGTH as u128;
    let mut lens: Vec<u128> = (0..=40).collect();
    for d in 0..6 { lens.push((1 << 14) - 3 + d); lens.push(max_len.saturating_sub(2) + d); }
    lens.extend([65535, 65536, 70000, u32::MAX as u128, usize::MAX as u128, (usize::MAX >> 1) as u128]);
    if thorough { for l in 0..=(1u128 << 14) + 2 { lens.push(l); } } else { for _ in 0..200 { lens.push(rng.below((1 << 14) + 3) as u128); } }
    let ptrs: Vec<u128> = vec![0, 1, 8, 0xffff_fff8, u32::MAX as u128, usize::MAX as u128, (usize::MAX - 7) as u128, 1 << (W - 1), rng.next_u64() as u128 & usize::MAX as u128];
    let mut lines = vec![];
    for (i, &l) in lens.iter().enumerate() {
        for kind in ["STR", "OBJ", "ARR"] {
            let p = ptrs[(i + kind.len()) % ptrs.len()] & (usize::MAX as u128);
            lines.push(format!("ENC {} {:x} {:x}", kind, p, l & usize::MAX as u128));
            distinct.insert(format!("enc-{}-{}", kind, l.min(max_len + 1)));
        }
        if lines.len() >= 300 { *kinds.entry("enc").or_insert(0) += lines.len() as u64; emit(out, std::mem::take(&mut lines), &mut id, &mut evals); }
    }
    for &p in &ptrs { for kind in ["STR", "OBJ", "ARR"] { lines.push(format!("ENC {} {:x} {:x}", kind, p, rng.below(100))); } }
    *kinds.entry("enc").or_insert(0) += lines.len() as u64; emit(out, std::mem::take(&mut lines), &mut id, &mut evals);
    // (3) scalars
    let mut lines = vec!["BOOL 0".to_string(), "BOOL 1".into(), "NULL".into()];
    for c in 0..20 { lines.push(format!("ERR {:x}", c)); }
    *kinds.entry("scalar").or_insert(0) += lines.len() as u64; emit(out, lines, &mut id, &mut evals);
    // (4) doubles: every exponent boundary, specials, NaNs (assert), random
    let mut lines = vec![];
    for e in 0..2048u64 { for m in [0u64, 1, (1 << 52) - 1, 1 << 51, (1 << 50) | 5] { for s in 0..2u64 {
        if e % (if thorough { 1 } else { 7 }) == 0 || e < 3 || e > 2044 { lines.push(format!("NUM {:x}", (s << 63) | (e << 52) | m)); } } } }
    let nrand = if thorough { 100_000 } else { 5_000 };
    for _ in 0..nrand { lines.push(format!("NUM {:x}", rng.next_u64())); }
    for chunk in lines.chunks(500) { *kinds.entry("num").or_insert(0) += chunk.len() as u64; emit(out, chunk.to_vec(), &mut id, &mut evals); }
    let _ = off;
    out.stat("cases", id.into());
    out.stat("evaluations", evals.into());
    out.stat("distinct_nontrivial", (distinct.len() as u64).into());
    out.stat("pointer_width", W.into());
    out.stat("kinds", serde_json::to_value(&kinds).unwrap());
    out.stat("exhaustive_prefix_tag_sign", thorough.into());
    out.stat("rule", "raw patterns: sign x prefix (all 8192 in thorough, boundary+random in quick) x all 16 tags x 4 payloads; encode/decode of (ptr,len) for lengths 0..40, around 2^14-1 and around the width's limit, 65535/65536/70000, max, boundary pointers; both booleans, null, error codes 0..19; doubles at every exponent boundary + random; non-trivial/distinct = distinct (sign,tag) under the NaN prefix plus distinct (kind, clamped length)".into());
}
