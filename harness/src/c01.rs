//! C01 / C08 / C11: the lazy reader through the native provider functions.
//! A case = one input document (fresh thread) + a history of read calls whose scope is any
//! earlier answer.  Histories are generated adaptively from the implementation's own answers and,
//! for well-formed documents, a mirror of the document tree (so names/indices mostly hit).
use crate::{prng::*, wire::*, Args, Out};
use shopify_function_provider as provider;
use shopify_function_wasm_api_core::read::{NanBox, Val, ValueRef};

#[derive(Clone, Debug)]
pub enum Sc { Ans(usize), Garbage }
#[derive(Clone, Debug)]
pub enum Op { Root, Prop(Sc, Vec<u8>), IProp(Sc, Vec<u8>), Idx(Sc, usize), Key(Sc, usize), Len(Sc), Str(Sc) }

fn sc_txt(s: &Sc) -> String { match s { Sc::Ans(k) => format!("{}", k), Sc::Garbage => "g".into() } }
pub fn op_txt(op: &Op) -> String {
    match op {
        Op::Root => "ROOT".into(),
        Op::Prop(s, n) => format!("PROP {} {}", sc_txt(s), hex(n)),
        Op::IProp(s, n) => format!("IPROP {} {}", sc_txt(s), hex(n)),
        Op::Idx(s, i) => format!("IDX {} {}", sc_txt(s), i),
        Op::Key(s, i) => format!("KEY {} {}", sc_txt(s), i),
        Op::Len(s) => format!("LEN {}", sc_txt(s)),
        Op::Str(s) => format!("STR {}", sc_txt(s)),
    }
}
pub fn parse_op(line: &str) -> Option<Op> {
    let t: Vec<&str> = line.split_whitespace().collect();
    let sc = |s: &str| if s == "g" { Sc::Garbage } else { Sc::Ans(s.parse().unwrap()) };
    Some(match t.as_slice() {
        ["ROOT"] => Op::Root,
        ["PROP", s, n] => Op::Prop(sc(s), unhex(n)),
        ["IPROP", s, n] => Op::IProp(sc(s), unhex(n)),
        ["IDX", s, i] => Op::Idx(sc(s), i.parse().unwrap()),
        ["KEY", s, i] => Op::Key(sc(s), i.parse().unwrap()),
        ["LEN", s] => Op::Len(sc(s)),
        ["STR", s] => Op::Str(sc(s)),
        _ => return None,
    })
}

/// What one call returned, in comparable form (never an address).
#[derive(Clone, Debug)]
pub enum Obs { Val(Val, String), Other(String) }

pub fn garbage_val() -> Val { ((0x7FFCu128 << (Val::BITS - 16)) | (7u128 << (Val::BITS - 18))) as Val }

pub fn show_val(v: Val) -> String {
    match std::panic::catch_unwind(|| NanBox::from_bits(v).try_decode().map_err(|_| ())) {
        Err(_) => "VAL DECODE-PANIC".into(),
        Ok(Err(())) => "VAL DECERR".into(),
        Ok(Ok(r)) => match r {
            ValueRef::Null => "VAL NULL".into(),
            ValueRef::Bool(b) => format!("VAL BOOL {}", b as u8),
            ValueRef::Number(n) => format!("VAL NUM {:x}", n.to_bits()),
            ValueRef::String { len, .. } => format!("VAL STR {}", len),
            ValueRef::Array { len, .. } => format!("VAL ARR {}", len),
            ValueRef::Object { len, .. } => format!("VAL OBJ {}", len),
            ValueRef::Error(e) => format!("VAL ERR {}", e as usize),
        },
    }
}

pub struct Session { pub answers: Vec<Obs> }

impl Session {
    pub fn new(doc: &[u8]) -> Session { provider::initialize_from_msgpack_bytes(doc.to_vec()); Session { answers: vec![] } }
    fn scope(&self, s: &Sc) -> Val {
        match s { Sc::Garbage => garbage_val(), Sc::Ans(k) => match self.answers.get(*k) { Some(Obs::Val(v, _)) => *v, _ => garbage_val() } }
    }
    /// Execute one op against the real provider; every call under catch_unwind.
    pub fn exec(&mut self, op: &Op) -> String {
        let r = std::panic::catch_unwind(std::panic::AssertUnwindSafe(|| -> Obs {
            match op {
                Op::Root => { let v = provider::read::shopify_function_input_get(); Obs::Val(v, show_val(v)) }
                Op::Prop(s, name) => { let v = provider::read::shopify_function_input_get_obj_prop(self.scope(s), name.as_ptr() as usize, name.len()); Obs::Val(v, show_val(v)) }
                Op::IProp(s, name) => {
                    let r = provider::shopify_function_intern_utf8_str(name.len());
                    let idn = (r >> usize::BITS) as usize;
                    unsafe { std::ptr::copy(name.as_ptr(), (r as usize) as *mut u8, name.len()) };
                    let v = provider::read::shopify_function_input_get_interned_obj_prop(self.scope(s), idn); Obs::Val(v, show_val(v)) }
                Op::Idx(s, i) => { let v = provider::read::shopify_function_input_get_at_index(self.scope(s), *i); Obs::Val(v, show_val(v)) }
                Op::Key(s, i) => { let v = provider::read::shopify_function_input_get_obj_key_at_index(self.scope(s), *i); Obs::Val(v, show_val(v)) }
                Op::Len(s) => { let n = provider::read::shopify_function_input_get_val_len(self.scope(s)); Obs::Other(if n == usize::MAX { "LEN MAX".into() } else { format!("LEN {}", n) }) }
                Op::Str(s) => {
                    let v = self.scope(s);
                    match NanBox::from_bits(v).try_decode() {
                        Ok(ValueRef::String { ptr, .. }) => {
                            let len = provider::read::shopify_function_input_get_val_len(v);
                            let addr = provider::read::shopify_function_input_get_utf8_str_addr(ptr);
                            let (base, blen) = provider::read::verif_input_range();
                            if addr == 0 { Obs::Other("BYTES NONE".into()) }
                            else if len == usize::MAX || addr < base || addr - base + len > blen { Obs::Other("STRAY".into()) }
                            else { Obs::Other(format!("BYTES {}", hex(unsafe { std::slice::from_raw_parts(addr as *const u8, len) }))) }
                        }
                        _ => Obs::Other("BYTES NONE".into()),
                    }
                }
            }
        }));
        let o = match r { Ok(o) => o, Err(_) => Obs::Other("PANIC".into()) };
        let txt = match &o { Obs::Val(_, s) => s.clone(), Obs::Other(s) => s.clone() };
        self.answers.push(o);
        txt
    }
}

/// Mirror of a well-formed document, to aim ops.
fn mirror_step<'a>(w: &'a Wire, op: &Op) -> Option<&'a Wire> {
    match (w, op) {
        (Wire::Arr(_, l), Op::Idx(_, i)) => l.get(*i),
        (Wire::Map(_, l), Op::Idx(_, i)) => l.get(*i).map(|p| &p.1),
        (Wire::Map(_, l), Op::Key(_, i)) => l.get(*i).map(|p| &p.0),
        (Wire::Map(_, l), Op::Prop(_, n)) | (Wire::Map(_, l), Op::IProp(_, n)) => l.iter().find(|(k, _)| matches!(k, Wire::Str(_, s) if s == n)).map(|p| &p.1),
        _ => None,
    }
}

pub struct Hist { pub ops: Vec<Op>, pub obs: Vec<String> }

/// Generate and run a history of `n` ops adaptively.
pub fn gen_history(rng: &mut Rng, doc: &[u8], tree: Option<&Wire>, n: usize, pool: &[Vec<u8>]) -> Hist {
    let mut s = Session::new(doc);
    let mut ops: Vec<Op> = vec![]; let mut obs: Vec<String> = vec![];
    let mut mirror: Vec<Option<&Wire>> = vec![];
    let mut parent: Vec<Option<(usize, usize)>> = vec![];    // (scope answer, index) an answer was obtained from
    let mut last_container: Option<usize> = None;
    for step in 0..n {
        let containers: Vec<usize> = obs.iter().enumerate().filter(|(_, o)| o.starts_with("VAL ARR") || o.starts_with("VAL OBJ")).map(|(i, _)| i).collect();
        let vals: Vec<usize> = obs.iter().enumerate().filter(|(_, o)| o.starts_with("VAL")).map(|(i, _)| i).collect();
        let op = if step == 0 || vals.is_empty() || rng.chance(6) { Op::Root }
        else {
            // sibling-after-half-descent pattern: ask the parent of the latest container for the next index
            let sib = last_container.and_then(|c| parent[c]);
            let (k, forced_idx) = if sib.is_some() && rng.chance(25) { let (p, i) = sib.unwrap(); (p, Some(i + 1)) }
                else if !containers.is_empty() && rng.chance(75) { (if rng.chance(50) { containers[containers.len() - 1 - rng.below(containers.len().min(3) as u64) as usize] } else { *rng.pick(&containers) }, None) }
                else if rng.chance(60) && !containers.is_empty() { (*rng.pick(&containers), None) } else { (*rng.pick(&vals), None) };
            let sc = if rng.chance(3) { Sc::Garbage } else { Sc::Ans(k) };
            let o = &obs[k];
            let inl: usize = o.split_whitespace().nth(2).and_then(|x| x.parse().ok()).unwrap_or(0);
            let idx = |rng: &mut Rng| -> usize { if let Some(i) = forced_idx { return i; }
                if rng.chance(8) { *rng.pick(&[inl, inl + 1, usize::MAX, 1 << 20]) } else if inl == 0 { 0 } else if rng.chance(30) { inl - 1 } else { rng.below(inl as u64) as usize } };
            let name = |rng: &mut Rng, m: Option<&Wire>| -> Vec<u8> {
                if let (Some(Wire::Map(_, l)), true) = (m, rng.chance(85)) { if !l.is_empty() { if let Wire::Str(_, s) = &rng.pick(l).0 { return s.clone(); } } }
                if !pool.is_empty() && rng.chance(70) { rng.pick(pool).clone() } else { b"missing".to_vec() } };
            let m = mirror[k];
            if o.starts_with("VAL OBJ") {
                match rng.below(100) { 0..=29 => Op::Prop(sc, name(rng, m)), 30..=39 => Op::IProp(sc, name(rng, m)), 40..=64 => Op::Idx(sc, idx(rng)), 65..=89 => Op::Key(sc, idx(rng)), 90..=96 => Op::Len(sc), _ => Op::Str(sc) }
            } else if o.starts_with("VAL ARR") {
                match rng.below(100) { 0..=74 => Op::Idx(sc, idx(rng)), 75..=80 => Op::Key(sc, idx(rng)), 81..=86 => Op::Prop(sc, name(rng, m)), 87..=96 => Op::Len(sc), _ => Op::Str(sc) }
            } else if o.starts_with("VAL STR") {
                match rng.below(100) { 0..=54 => Op::Str(sc), 55..=79 => Op::Len(sc), 80..=89 => Op::Idx(sc, idx(rng)), 90..=94 => Op::Key(sc, 0), _ => Op::Prop(sc, name(rng, m)) }
            } else {
                match rng.below(5) { 0 => Op::Idx(sc, rng.below(3) as usize), 1 => Op::Key(sc, 0), 2 => Op::Prop(sc, name(rng, m)), 3 => Op::Len(sc), _ => Op::Str(sc) }
            }
        };
        let o = s.exec(&op);
        // bookkeeping
        let (m, p) = match &op {
            Op::Root => (tree, None),
            Op::Idx(Sc::Ans(k), i) | Op::Key(Sc::Ans(k), i) => (mirror[*k].and_then(|w| mirror_step(w, &op)), Some((*k, *i))),
            Op::Prop(Sc::Ans(k), _) | Op::IProp(Sc::Ans(k), _) => (mirror[*k].and_then(|w| mirror_step(w, &op)), None),
            _ => (None, None),
        };
        if o.starts_with("VAL ARR") || o.starts_with("VAL OBJ") { last_container = Some(obs.len()); }
        mirror.push(m); parent.push(p);
        ops.push(op); obs.push(o);
    }
    Hist { ops, obs }
}

pub fn replay_history(doc: &[u8], ops: &[Op]) -> Vec<String> {
    let mut s = Session::new(doc);
    ops.iter().map(|op| s.exec(op)).collect()
}

pub fn collect_keys(w: &Wire, out: &mut Vec<Vec<u8>>) {
    match w {
        Wire::Arr(_, l) => for x in l { collect_keys(x, out) },
        Wire::Map(_, l) => for (k, v) in l { if let Wire::Str(_, s) = k { if out.len() < 64 { out.push(s.clone()); } } collect_keys(v, out) },
        _ => {}
    }
}

pub fn emit_case(out: &mut Out, id: usize, class: &str, doc: &[u8], ops: &[Op], obs: &[String]) {
    out.case(&format!("CASE {} {} {}", id, usize::BITS, class));
    out.case(&format!("DOC {}", hex(doc)));
    for op in ops { out.case(&op_txt(op)); }
    out.case("END");
    for o in obs { out.imp(&format!("{} {}", id, o)); }
}

pub fn run_replay(f: &str, out: &mut Out) {
    let text = std::fs::read_to_string(f).unwrap();
    let mut id = 0usize; let mut class = String::new(); let mut doc: Vec<u8> = vec![]; let mut ops: Vec<Op> = vec![]; let mut n = 0u64; let mut cases = 0u64;
    for line in text.lines() {
        let t: Vec<&str> = line.split_whitespace().collect();
        match t.as_slice() {
            ["CASE", i, _w, c] => { id = i.parse().unwrap(); class = c.to_string(); ops.clear(); doc.clear(); }
            ["DOC", h] => doc = unhex(h),
            ["END"] => {
                let (d, o, c) = (doc.clone(), ops.clone(), class.clone());
                let obs = std::thread::Builder::new().stack_size(64 << 20).spawn(move || replay_history(&d, &o)).unwrap().join().unwrap_or_else(|_| vec!["ABORT".into()]);
                n += obs.len() as u64; cases += 1;
                emit_case(out, id, &c, &doc, &ops, &obs);
            }
            _ => if let Some(op) = parse_op(line) { ops.push(op) },
        }
    }
    out.stat("evaluations", n.into()); out.stat("cases", cases.into());
}

/// C01: well-formed documents.
pub fn run(a: &Args, out: &mut Out) {
    if let Some(f) = &a.replay { return run_replay(f, out); }
    let thorough = a.tier == "thorough";
    let mut rng = Rng::new(a.seed);
    let ndocs = a.n.unwrap_or(if thorough { 3000 } else { 300 }) as usize;
    // quick: every string size, arrays of 255/256/2^14-1/2^14+1, maps of 255/256 (the model is list-based, hence quadratic on huge containers)
    let quick_big: [usize; 15] = [0, 1, 2, 3, 4, 5, 6, 7, 8, 9, 10, 11, 12, 22, 23];
    let nbig = if thorough { 33 } else { quick_big.len() };
    let mut evals = 0u64; let mut id = 0usize;
    let mut distinct = std::collections::BTreeSet::<String>::new();
    let mut opk = std::collections::BTreeMap::<String, u64>::new();
    let mut ansk = std::collections::BTreeMap::<String, u64>::new();
    let mut depths = std::collections::BTreeMap::<usize, u64>::new();
    let mut sizes = std::collections::BTreeMap::<&str, u64>::new();
    if let Some(c) = &a.corpus { if std::path::Path::new(c).exists() { run_replay(c, out); id = 100000; } }
    for i in 0..ndocs + nbig {
        let mut r = rng.fork(i as u64);
        let big = i >= ndocs;
        let bigsel = if thorough { i.saturating_sub(ndocs) } else { quick_big[i.saturating_sub(ndocs) % quick_big.len()] };
        let tree = if big { gen_big(&mut r, bigsel) } else {
            let mut budget = *r.pick(&[4isize, 10, 25, 60, 150]); let d = r.range(1, 6) as usize;
            let dup = r.chance(15);
            let t = gen_tree(&mut r, d, &mut budget, dup);
            // force a container at the root most of the time
            if matches!(t, Wire::Arr(..) | Wire::Map(..)) || r.chance(10) { t } else { Wire::Arr(LenFmt::Fix, vec![t, gen_scalar(&mut r), Wire::Arr(LenFmt::L16, vec![gen_scalar(&mut r)])]) } };
        let doc = tree.bytes();
        let mut pool = vec![]; collect_keys(&tree, &mut pool);
        let nops = if big { 30 } else { r.range(20, 60) as usize };
        let (t2, d2, p2, mut r2) = (tree.clone(), doc.clone(), pool.clone(), r.clone());
        let h = std::thread::Builder::new().stack_size(64 << 20).spawn(move || gen_history(&mut r2, &d2, Some(&t2), nops, &p2)).unwrap().join().unwrap();
        *depths.entry(tree.depth()).or_insert(0) += 1;
        *sizes.entry(if doc.len() < 32 { "<32B" } else if doc.len() < 256 { "<256B" } else if doc.len() < 4096 { "<4KiB" } else { ">=4KiB" }).or_insert(0) += 1;
        for (op, o) in h.ops.iter().zip(&h.obs) {
            *opk.entry(op_txt(op).split_whitespace().next().unwrap().to_string()).or_insert(0) += 1;
            *ansk.entry(o.split_whitespace().take(if o.starts_with("VAL") { 2 } else { 1 }).collect::<Vec<_>>().join(" ")).or_insert(0) += 1;
        }
        // non-trivial: reaches a non-error value below the root through a container op
        let nontrivial = h.ops.iter().zip(&h.obs).any(|(op, o)| !matches!(op, Op::Root | Op::Len(_)) && o.starts_with("VAL") && !o.starts_with("VAL ERR") && !o.starts_with("VAL NULL"));
        if nontrivial { distinct.insert(format!("{}|{}", hex(&doc[..doc.len().min(64)]), h.ops.iter().map(op_txt).collect::<Vec<_>>().join(";"))); }
        evals += h.ops.len() as u64;
        emit_case(out, id, if big { "big" } else { "wf" }, &doc, &h.ops, &h.obs);
        id += 1;
    }
    out.stat("cases", id.into());
    out.stat("evaluations", evals.into());
    out.stat("distinct_nontrivial", (distinct.len() as u64).into());
    out.stat("ops", serde_json::to_value(&opk).unwrap());
    out.stat("answers", serde_json::to_value(&ansk).unwrap());
    out.stat("nesting_depths", serde_json::to_value(&depths).unwrap());
    out.stat("doc_sizes", serde_json::to_value(&sizes).unwrap());
    out.stat("rule", "random well-formed documents (depth<=6, fan-out from {0,1,2,3,4,5,15,16,17,31,32}, every int/float/str/array/map format incl. non-minimal headers, 15% with duplicate keys) plus documents with strings/arrays/maps of 255/256, 2^14-3..2^14+2, 65535/65536/70000 elements; per document 20-60 read calls chosen adaptively among ALL handles obtained so far (sibling after half-descended child, revisits, by-name/by-interned-id/by-index/key-at-index/len/string bytes, ~12% out-of-range or wrong-kind scopes, 3% undecodable scope, root re-fetched); non-trivial = some call reached a non-error value below the root; distinct = distinct (document prefix, op list)".into());
}
